import ActixModel.Model.DispBoundsW
import ActixModel.Proofs.DispBounds
/-
Helper lemmas for the weighted machine (`Model/DispBoundsW.lean`): list lemmas about the bytes held
by the queued requests beyond position `k`, and the inductive invariant behind
`C05_total_readahead_bound`.  Core Lean only.
-/
namespace ActixModel.DispBounds
open ActixModel.Consts

/-- bytes held by the queued requests at positions `≥ k` (oldest first) -/
def tailSum : Nat → List (Nat × Nat) → Nat
  | _, [] => 0
  | 0, x :: xs => weight x + tailSum 0 xs
  | k + 1, _ :: xs => tailSum k xs

/-- body bytes of the newest queued request -/
def lastBody : List (Nat × Nat) → Option Nat
  | [] => none
  | [(_, b)] => some b
  | _ :: y :: r => lastBody (y :: r)

theorem tailSum_zero (l : List (Nat × Nat)) : tailSum 0 l = queuedBytes l := by
  induction l with
  | nil => rfl
  | cons x xs ih => simp only [tailSum, queuedBytes, List.map_cons, List.sum_cons] at ih ⊢; omega

theorem tailSum_succ_le (k : Nat) (l : List (Nat × Nat)) : tailSum (k + 1) l ≤ tailSum k l := by
  induction l generalizing k with
  | nil => simp [tailSum]
  | cons x xs ih =>
    cases k with
    | zero =>
      simp only [tailSum]
      cases xs with
      | nil => simp [tailSum]
      | cons y ys => have := ih 0; simp only [tailSum] at this ⊢; omega
    | succ k => simp only [tailSum]; exact ih k

theorem tailSum_tail_le (k : Nat) (x : Nat × Nat) (xs : List (Nat × Nat)) :
    tailSum k xs ≤ tailSum k (x :: xs) := by
  cases k with
  | zero => simp [tailSum]
  | succ k => simp only [tailSum]; exact tailSum_succ_le k xs

theorem tailSum_short (k : Nat) (l : List (Nat × Nat)) (h : l.length ≤ k) : tailSum k l = 0 := by
  induction l generalizing k with
  | nil => rfl
  | cons x xs ih =>
    cases k with
    | zero => simp at h
    | succ k => simp only [tailSum]; exact ih k (by simpa using h)

theorem tailSum_append_one (k : Nat) (l : List (Nat × Nat)) (x : Nat × Nat) :
    tailSum k (l ++ [x]) ≤ tailSum k l + weight x := by
  induction l generalizing k with
  | nil => cases k <;> simp [tailSum]
  | cons y ys ih =>
    cases k with
    | zero => have := ih 0; simp only [List.cons_append, tailSum] at this ⊢; omega
    | succ k => simp only [List.cons_append, tailSum]; exact ih k

theorem tailSum_bumpLast (k n : Nat) (l : List (Nat × Nat)) :
    tailSum k (bumpLast n l) ≤ tailSum k l + n := by
  induction l generalizing k with
  | nil => simp [bumpLast, tailSum]
  | cons x xs ih =>
    cases xs with
    | nil =>
      obtain ⟨h, b⟩ := x
      cases k <;> simp [bumpLast, tailSum, weight] <;> omega
    | cons y r =>
      obtain ⟨xa, xb⟩ := x
      cases k with
      | zero => have := ih 0; simp only [bumpLast, tailSum] at this ⊢; omega
      | succ k => simp only [bumpLast, tailSum]; exact ih k

/-- `k` requests of at most `X` bytes each, plus everything beyond position `k` -/
theorem queued_le (X : Nat) (k : Nat) (l : List (Nat × Nat)) (h : ∀ p ∈ l, weight p ≤ X) :
    queuedBytes l ≤ k * X + tailSum k l := by
  induction l generalizing k with
  | nil => simp [queuedBytes]
  | cons x xs ih =>
    have hx : weight x ≤ X := h x (by simp)
    have hxs : ∀ p ∈ xs, weight p ≤ X := fun p hp => h p (by simp [hp])
    cases k with
    | zero =>
      have := ih 0 hxs
      simp only [queuedBytes, List.map_cons, List.sum_cons, tailSum] at this ⊢
      omega
    | succ k =>
      have := ih k hxs
      simp only [queuedBytes, List.map_cons, List.sum_cons, tailSum, Nat.succ_mul] at this ⊢
      omega

theorem lastBody_append_one (l : List (Nat × Nat)) (h b : Nat) :
    lastBody (l ++ [(h, b)]) = some b := by
  induction l with
  | nil => rfl
  | cons x xs ih =>
    cases xs with
    | nil => simp [lastBody]
    | cons y r => simp only [List.cons_append, lastBody] at ih ⊢; exact ih

theorem lastBody_bumpLast (n : Nat) (l : List (Nat × Nat)) :
    lastBody (bumpLast n l) = (lastBody l).map (· + n) := by
  induction l with
  | nil => rfl
  | cons x xs ih =>
    cases xs with
    | nil => obtain ⟨h, b⟩ := x; simp [bumpLast, lastBody]
    | cons y r =>
      simp only [bumpLast, lastBody] at ih ⊢
      cases r with
      | nil => obtain ⟨h, b⟩ := y; simp [bumpLast, lastBody] at ih ⊢
      | cons z r' => simp only [bumpLast, lastBody] at ih ⊢; exact ih

theorem lastBody_ne_nil (l : List (Nat × Nat)) (h : l ≠ []) : ∃ b, lastBody l = some b := by
  induction l with
  | nil => exact absurd rfl h
  | cons x xs ih =>
    cases xs with
    | nil => obtain ⟨a, b⟩ := x; exact ⟨b, rfl⟩
    | cons y r => simp only [lastBody]; exact ih (by simp)

/-- membership in a bumped list: an old element, or the bumped newest one -/
theorem mem_bumpLast (n : Nat) (l : List (Nat × Nat)) (p : Nat × Nat) (hp : p ∈ bumpLast n l) :
    p ∈ l ∨ ∃ h b, (h, b) ∈ l ∧ lastBody l = some b ∧ p = (h, b + n) := by
  induction l with
  | nil => simp [bumpLast] at hp
  | cons x xs ih =>
    cases xs with
    | nil =>
      obtain ⟨h, b⟩ := x
      simp only [bumpLast, List.mem_singleton] at hp
      exact Or.inr ⟨h, b, by simp, rfl, hp⟩
    | cons y r =>
      simp only [bumpLast, List.mem_cons] at hp
      cases hp with
      | inl h => exact Or.inl (by simp [h])
      | inr h =>
        have := ih (by simpa [bumpLast] using h)
        cases this with
        | inl h' => exact Or.inl (by simp at h' ⊢; exact Or.inr h')
        | inr h' =>
          obtain ⟨a, b, hm, hl, he⟩ := h'
          exact Or.inr ⟨a, b, by simp at hm ⊢; exact Or.inr hm, by simpa [lastBody] using hl, he⟩

/-- The invariant of the weighted machine. -/
structure InvW (cfg : Cfg) (x : SW) : Prop where
  base : Inv cfg x.s
  len : x.ws.length + x.s.qErr = x.s.q
  /-- the dispatcher holds a payload sender only while the codec is inside that body -/
  plc : ∀ c, x.s.pl = some c → x.s.codecPl = true
  /-- the sender's channel is the newest queued request's, or the one of the request in service -/
  tie : ∀ c, x.s.pl = some c →
    (x.ws = [] → x.cur = c.len) ∧ (∀ b, lastBody x.ws = some b → b = c.len)
  all : ∀ p ∈ x.ws, p.1 ≤ readBufMax cfg ∧ p.2 ≤ payloadMax cfg
  curb : x.cur ≤ payloadMax cfg
  /-- requests beyond the first `MAX_PIPELINED_MESSAGES - 1` were all decoded by the running (or
      last) decode loop: together with what that loop can still decode they fit one read buffer -/
  tail : tailSum (h1MaxPipelined - 1) x.ws + (if x.s.inDecode then x.s.rb else 0) ≤ readBufMax cfg

theorem invW_init (cfg : Cfg) : InvW cfg initW := by
  refine ⟨inv_init cfg, ?_, ?_, ?_, ?_, ?_, ?_⟩ <;> simp [initW, init, tailSum]

/-- what `Inv` says about the channel alone -/
theorem chan_le {cfg : Cfg} {s : S} (hi : Inv cfg s) (c : Chan) (hc : s.pl = some c) :
    c.len ≤ payloadMax cfg := by
  have := hi.pay c hc
  omega

theorem isEmpty_eq_nil {α : Type} (l : List α) (h : l.isEmpty = true) : l = [] := by
  cases l with
  | nil => rfl
  | cons x xs => simp at h

theorem invW_step {cfg : Cfg} {x x' : SW} {e : Ev} (hi : InvW cfg x) (h : stepW cfg x e = some x') :
    InvW cfg x' := by
  obtain ⟨hb, hlen, hplc, htie, hall, hcur, htail⟩ := hi
  simp only [stepW] at h
  cases hs : step cfg x.s e with
  | none => simp [hs] at h
  | some s' =>
    simp only [hs] at h
    have hb' : Inv cfg s' := inv_step hb hs
    have hrb := hb.rb
    cases e with
    | read k =>
      simp only at h; cases h
      simp only [step] at hs
      split at hs
      · cases hs
      · rename_i hg
        simp only [Bool.or_eq_true, decide_eq_true_eq, not_or, Bool.not_eq_true] at hg
        have hin : x.s.inDecode = false := hg.1.1.1.1
        cases hs
        refine ⟨hb', hlen, hplc, htie, hall, hcur, ?_⟩
        simp only [hin, Bool.false_eq_true, ite_false] at htail ⊢
        exact htail
    | enter =>
      simp only at h; cases h
      simp only [step] at hs
      split at hs
      · cases hs
      · rename_i hg
        simp only [Bool.or_eq_true, decide_eq_true_eq, not_or, Bool.not_eq_true, Nat.not_le] at hg
        have hq : x.s.q < h1MaxPipelined := hg.1.2
        cases hs
        refine ⟨hb', hlen, hplc, htie, hall, hcur, ?_⟩
        have : tailSum (h1MaxPipelined - 1) x.ws = 0 := tailSum_short _ _ (by omega)
        simp only [this, ite_true, Nat.zero_add]
        exact hrb
    | disconnect =>
      simp only at h; cases h
      simp only [step] at hs
      split at hs
      · cases hs
      · rename_i hin
        simp only [Bool.not_eq_true] at hin
        cases hs
        refine ⟨hb', hlen, ?_, ?_, hall, hcur, ?_⟩
        · intro c hc; cases hc
        · intro c hc; cases hc
        · simp only [hin, Bool.false_eq_true, ite_false] at htail ⊢; exact htail
    | handlerReady a b =>
      simp only at h; cases h
      simp only [step] at hs
      split at hs
      · cases hs
      · cases hs; exact ⟨hb', hlen, hplc, htie, hall, hcur, htail⟩
    | bodyChunk a =>
      simp only at h; cases h
      simp only [step] at hs
      split at hs
      · cases hs
      · cases hs; exact ⟨hb', hlen, hplc, htie, hall, hcur, htail⟩
    | bodyEnd a =>
      simp only at h; cases h
      simp only [step] at hs
      split at hs
      · cases hs
      · cases hs; exact ⟨hb', hlen, hplc, htie, hall, hcur, htail⟩
    | wrote a =>
      simp only at h; cases h
      simp only [step] at hs
      split at hs
      · cases hs
      · cases hs; exact ⟨hb', hlen, hplc, htie, hall, hcur, htail⟩
    | consume n =>
      simp only at h
      split at h
      case isFalse => cases h
      rename_i hem
      have hnil := isEmpty_eq_nil _ hem
      cases h
      simp only [step] at hs
      cases hpl : x.s.pl with
      | none => simp [hpl] at hs
      | some c =>
        simp only [hpl] at hs
        split at hs
        · cases hs
        · rename_i hg
          simp only [Bool.or_eq_true, decide_eq_true_eq, not_or, Bool.not_eq_true, Nat.not_lt] at hg
          cases hs
          have ht := (htie c hpl).1 hnil
          refine ⟨hb', ?_, ?_, ?_, ?_, ?_, ?_⟩
          · simpa [hnil] using hlen
          · intro c' _; exact hplc c hpl
          · intro c' hc'
            simp only [Option.some.injEq] at hc'; subst hc'
            exact ⟨fun _ => by simp [ht], fun b hb0 => by simp [lastBody] at hb0⟩
          · intro p hp; simp at hp
          · simp only; omega
          · simpa [hnil] using htail
    | dropReceiver =>
      simp only at h
      split at h
      case isFalse => cases h
      rename_i hem
      have hnil := isEmpty_eq_nil _ hem
      cases h
      simp only [step] at hs
      cases hpl : x.s.pl with
      | none => simp [hpl] at hs
      | some c =>
        simp only [hpl] at hs
        cases hs
        refine ⟨hb', ?_, ?_, ?_, ?_, ?_, ?_⟩
        · simpa [hnil] using hlen
        · intro c' _; exact hplc c hpl
        · intro c' hc'
          simp only [Option.some.injEq] at hc'; subst hc'
          exact ⟨fun _ => rfl, fun b hb0 => by simp [lastBody] at hb0⟩
        · intro p hp; simp at hp
        · simp
        · simpa [hnil] using htail
    | pop err =>
      simp only [step] at hs
      split at hs
      · cases hs
      · rename_i hg
        simp only [Bool.or_eq_true, decide_eq_true_eq, not_or, Bool.not_eq_true] at hg
        obtain ⟨⟨hin, hst⟩, hq0⟩ := hg
        simp only [hin, Bool.false_eq_true, ite_false, Nat.add_zero] at htail
        cases err with
        | some hh =>
          simp only at h; cases h
          simp only at hs
          split at hs
          · cases hs
          · rename_i he
            cases hs
            refine ⟨hb', ?_, hplc, htie, hall, hcur, ?_⟩
            · simp only; omega
            · simp only [hin, Bool.false_eq_true, ite_false, Nat.add_zero]; exact htail
        | none =>
          simp only at hs
          split at hs
          · cases hs
          · rename_i he
            cases hs
            simp only at h
            cases hws : x.ws with
            | nil => simp [hws] at h
            | cons p rest =>
              obtain ⟨ph, pb⟩ := p
              simp only [hws] at h
              cases h
              rw [hws] at hlen hall htail
              refine ⟨hb', ?_, hplc, ?_, ?_, ?_, ?_⟩
              · simp only [List.length_cons] at hlen ⊢; omega
              · intro c hc
                have ht := (htie c hc).2
                rw [hws] at ht
                constructor
                · intro hr
                  simp only at hr
                  subst hr
                  exact ht pb rfl
                · intro b hb0
                  simp only at hb0
                  cases rest with
                  | nil => simp [lastBody] at hb0
                  | cons y r => exact ht b (by simpa [lastBody] using hb0)
              · intro p hp; exact hall p (by simp [hp])
              · exact (hall (ph, pb) (by simp)).2
              · simp only [hin, Bool.false_eq_true, ite_false, Nat.add_zero]
                exact Nat.le_trans (tailSum_tail_le _ _ _) htail
    | dec d =>
      simp only [step] at hs
      split at hs
      case isFalse => cases hs
      rename_i hin
      simp only [hin, ite_true] at htail
      have hnd := hb.dec_conn hin
      cases d with
      | item hh body =>
        simp only [stepDec] at hs
        split at hs
        · cases hs
        · rename_i hg
          simp only [Bool.or_eq_true, decide_eq_true_eq, not_or, Bool.not_eq_true, Nat.not_lt] at hg
          obtain ⟨⟨hcp, hmin⟩, hle⟩ := hg
          -- no payload sender while the codec is between requests
          have hplnone : x.s.pl = none := by
            cases hpl : x.s.pl with
            | none => rfl
            | some c => have := hplc c hpl; simp [hcp] at this
          simp only at h
          have hta := tailSum_append_one (h1MaxPipelined - 1) x.ws (hh, 0)
          simp only [weight, Nat.add_zero] at hta
          cases body <;> by_cases hst : x.s.st = St.none <;>
            simp only [hst, ite_true, ite_false, Bool.false_eq_true] at hs h
          · -- no body, handled at once
            split at h
            case isFalse => cases h
            rename_i hem
            have hnil := isEmpty_eq_nil _ hem
            cases h; cases hs
            refine ⟨hb', ?_, ?_, ?_, ?_, ?_, ?_⟩
            · simpa [hnil] using hlen
            · intro c hc; simp [hplnone] at hc
            · intro c hc; simp [hplnone] at hc
            · intro p hp; simp at hp
            · simp
            · simp only [hin, ite_true, tailSum]; rw [hnil] at htail; simp [tailSum] at htail; omega
          · -- no body, queued
            cases h; cases hs
            refine ⟨hb', ?_, ?_, ?_, ?_, hcur, ?_⟩
            · simp only [List.length_append, List.length_cons, List.length_nil]; omega
            · intro c hc; simp [hplnone] at hc
            · intro c hc; simp [hplnone] at hc
            · intro p hp
              simp only [List.mem_append, List.mem_singleton] at hp
              cases hp with
              | inl hp => exact hall p hp
              | inr hp => subst hp; exact ⟨by simp only; omega, Nat.zero_le _⟩
            · simp only [hin, ite_true]; omega
          · -- body, handled at once
            split at h
            case isFalse => cases h
            rename_i hem
            have hnil := isEmpty_eq_nil _ hem
            cases h; cases hs
            refine ⟨hb', ?_, ?_, ?_, ?_, ?_, ?_⟩
            · simpa [hnil] using hlen
            · intro c _; rfl
            · intro c hc
              simp only [Option.some.injEq] at hc; subst hc
              exact ⟨fun _ => rfl, fun b hb0 => by simp [lastBody] at hb0⟩
            · intro p hp; simp at hp
            · simp
            · simp only [hin, ite_true, tailSum]; rw [hnil] at htail; simp [tailSum] at htail; omega
          · -- body, queued
            cases h; cases hs
            refine ⟨hb', ?_, ?_, ?_, ?_, hcur, ?_⟩
            · simp only [List.length_append, List.length_cons, List.length_nil]; omega
            · intro c _; rfl
            · intro c hc
              simp only [Option.some.injEq] at hc; subst hc
              refine ⟨fun hx => by simp at hx, fun b hb0 => ?_⟩
              rw [lastBody_append_one] at hb0
              simp only [Option.some.injEq] at hb0
              exact hb0.symm
            · intro p hp
              simp only [List.mem_append, List.mem_singleton] at hp
              cases hp with
              | inl hp => exact hall p hp
              | inr hp => subst hp; exact ⟨by simp only; omega, Nat.zero_le _⟩
            · simp only [hin, ite_true]; omega
      | chunk f n =>
        simp only [stepDec] at hs
        split at hs
        · cases hs
        · rename_i hg
          simp only [Bool.or_eq_true, decide_eq_true_eq, not_or, Bool.not_eq_true, Nat.not_lt,
            Bool.not_eq_eq_eq_not, Bool.not_true] at hg
          obtain ⟨⟨hcp, hn⟩, hle⟩ := hg
          simp only at h
          cases hpl : x.s.pl with
          | none =>
            simp only [hpl] at h hs
            cases h; cases hs
            refine ⟨hb', ?_, ?_, ?_, hall, hcur, ?_⟩
            · simp only [queueError]; omega
            · intro c hc; simp [queueError] at hc
            · intro c hc; simp [queueError] at hc
            · simp only [queueError, Bool.false_eq_true, ite_false, Nat.add_zero]; omega
          | some c =>
            simp only [hpl] at h hs
            cases hs
            have hc' := chan_le hb' (feed c n) rfl
            by_cases hdr : c.dropped = true
            · simp only [hdr, ite_true] at h
              cases h
              have hfeed : feed c n = c := by simp [feed, hdr]
              refine ⟨hb', hlen, ?_, ?_, hall, hcur, ?_⟩
              · intro c' _; exact hplc c hpl
              · intro c' hc2
                simp only [Option.some.injEq] at hc2; subst hc2
                rw [hfeed]; exact htie c hpl
              · simp only [hin, ite_true]; omega
            · simp only [hdr, Bool.false_eq_true, ite_false] at h
              have hflen : (feed c n).len = c.len + n := by simp [feed, hdr]
              split at h
              · rename_i hem
                have hnil := isEmpty_eq_nil _ hem
                cases h
                have ht := (htie c hpl).1 hnil
                refine ⟨hb', ?_, ?_, ?_, ?_, ?_, ?_⟩
                · simpa [hnil] using hlen
                · intro c' _; exact hplc c hpl
                · intro c' hc2
                  simp only [Option.some.injEq] at hc2; subst hc2
                  exact ⟨fun _ => by simp [ht, hflen], fun b hb0 => by simp [lastBody] at hb0⟩
                · intro p hp; simp at hp
                · simp only; omega
                · simp only [hin, ite_true, tailSum]; rw [hnil] at htail
                  simp [tailSum] at htail; omega
              · rename_i hem
                cases h
                have hne : x.ws ≠ [] := by
                  intro hx; simp [hx] at hem
                obtain ⟨b0, hb0⟩ := lastBody_ne_nil _ hne
                have ht := (htie c hpl).2 b0 hb0
                refine ⟨hb', ?_, ?_, ?_, ?_, hcur, ?_⟩
                · have : (bumpLast n x.ws).length = x.ws.length := by
                    clear hb0 hne hem hall htail hlen htie
                    generalize x.ws = l
                    induction l with
                    | nil => rfl
                    | cons y ys ih =>
                      cases ys with
                      | nil => obtain ⟨a, b⟩ := y; rfl
                      | cons z r => simp only [bumpLast, List.length_cons] at ih ⊢; omega
                  simp only [this]; exact hlen
                · intro c' _; exact hplc c hpl
                · intro c' hc2
                  simp only [Option.some.injEq] at hc2; subst hc2
                  refine ⟨fun hx => ?_, fun b hbb => ?_⟩
                  · exfalso
                    have : (bumpLast n x.ws) ≠ [] := by
                      cases hw : x.ws with
                      | nil => exact absurd hw hne
                      | cons y ys =>
                        cases ys with
                        | nil => obtain ⟨a, b⟩ := y; simp [bumpLast]
                        | cons z r => simp [bumpLast]
                    exact this hx
                  · rw [lastBody_bumpLast, hb0] at hbb
                    simp only [Option.map_some, Option.some.injEq] at hbb
                    omega
                · intro p hp
                  cases mem_bumpLast n x.ws p hp with
                  | inl hm => exact hall p hm
                  | inr hm =>
                    obtain ⟨a, b, hm, hl, he⟩ := hm
                    subst he
                    have hbb : b = b0 := by rw [hb0] at hl; simp at hl; omega
                    exact ⟨(hall (a, b) hm).1, by simp only; omega⟩
                · have := tailSum_bumpLast (h1MaxPipelined - 1) n x.ws
                  simp only [hin, ite_true]; omega
      | eof f =>
        simp only [stepDec] at hs
        split at hs
        · cases hs
        · simp only at h; cases h
          cases hpl : x.s.pl with
          | none =>
            simp only [hpl] at hs; cases hs
            refine ⟨hb', ?_, ?_, ?_, hall, hcur, ?_⟩
            · simp only [queueError]; omega
            · intro c hc; simp [queueError] at hc
            · intro c hc; simp [queueError] at hc
            · simp only [queueError, Bool.false_eq_true, ite_false, Nat.add_zero]; omega
          | some c =>
            simp only [hpl] at hs; cases hs
            refine ⟨hb', hlen, ?_, ?_, hall, hcur, ?_⟩
            · intro c' hc'; cases hc'
            · intro c' hc'; cases hc'
            · simp only [hin, ite_true]; omega
      | needMore f =>
        simp only [stepDec] at hs
        split at hs
        · cases hs
        · simp only at h; cases h
          split at hs
          · cases hs
            refine ⟨hb', ?_, ?_, ?_, hall, hcur, ?_⟩
            · simp only [queueError]; omega
            · intro c hc; simp [queueError] at hc
            · intro c hc; simp [queueError] at hc
            · simp only [queueError, Bool.false_eq_true, ite_false, Nat.add_zero]; omega
          · cases hs
            refine ⟨hb', hlen, hplc, htie, hall, hcur, ?_⟩
            simp only [Bool.false_eq_true, ite_false, Nat.add_zero]; omega
      | bad =>
        simp only [stepDec] at hs
        simp only at h; cases h
        cases hs
        refine ⟨hb', ?_, ?_, ?_, hall, hcur, ?_⟩
        · simp only [queueError]; omega
        · intro c hc; simp [queueError] at hc
        · intro c hc; simp [queueError] at hc
        · simp only [queueError, Bool.false_eq_true, ite_false, Nat.add_zero]; omega
      | ioErr =>
        simp only [stepDec] at hs
        simp only at h; cases h
        cases hs
        refine ⟨hb', hlen, ?_, ?_, hall, hcur, ?_⟩
        · intro c hc; cases hc
        · intro c hc; cases hc
        · simp only [Bool.false_eq_true, ite_false, Nat.add_zero]; omega

theorem invW_run {cfg : Cfg} : ∀ (evs : List Ev) (x x' : SW), InvW cfg x →
    runW cfg x evs = some x' → InvW cfg x' := by
  intro evs
  induction evs with
  | nil => intro x x' hi h; simp [runW] at h; subst h; exact hi
  | cons e es ih =>
    intro x x' hi h
    simp only [runW] at h
    cases hs : stepW cfg x e with
    | none => simp [hs] at h
    | some x1 => simp only [hs] at h; exact ih x1 x' (invW_step hi hs) h

/-- the weighted machine refines the plain one: its `s` component runs under `step` -/
theorem runW_run {cfg : Cfg} : ∀ (evs : List Ev) (x x' : SW),
    runW cfg x evs = some x' → run cfg x.s evs = some x'.s := by
  intro evs
  induction evs with
  | nil => intro x x' h; simp [runW] at h; subst h; rfl
  | cons e es ih =>
    intro x x' h
    simp only [runW] at h
    cases hs : stepW cfg x e with
    | none => simp [hs] at h
    | some x1 =>
      simp only [hs] at h
      have h1 : step cfg x.s e = some x1.s := by
        simp only [stepW] at hs
        cases hst : step cfg x.s e with
        | none => simp [hst] at hs
        | some s' =>
          simp only [hst] at hs
          cases e with
          | dec d =>
            cases d with
            | item hh b => simp only at hs; split at hs <;> (try split at hs) <;> cases hs <;> rfl
            | chunk f n =>
              simp only at hs
              cases hpl : x.s.pl with
              | none => simp only [hpl] at hs; cases hs; rfl
              | some c =>
                simp only [hpl] at hs
                split at hs
                · cases hs; rfl
                · split at hs <;> cases hs <;> rfl
            | eof f => simp only at hs; cases hs; rfl
            | needMore f => simp only at hs; cases hs; rfl
            | bad => simp only at hs; cases hs; rfl
            | ioErr => simp only at hs; cases hs; rfl
          | pop err =>
            cases err with
            | some hh => simp only at hs; cases hs; rfl
            | none =>
              simp only at hs
              cases hws : x.ws with
              | nil => simp [hws] at hs
              | cons p rest => obtain ⟨a, b⟩ := p; simp only [hws] at hs; cases hs; rfl
          | consume n => simp only at hs; split at hs <;> cases hs; rfl
          | dropReceiver => simp only at hs; split at hs <;> cases hs; rfl
          | read k => simp only at hs; cases hs; rfl
          | enter => simp only at hs; cases hs; rfl
          | disconnect => simp only at hs; cases hs; rfl
          | handlerReady a b => simp only at hs; cases hs; rfl
          | bodyChunk a => simp only at hs; cases hs; rfl
          | bodyEnd a => simp only at hs; cases hs; rfl
          | wrote a => simp only at hs; cases hs; rfl
      simp only [run, h1]
      exact ih x1 x' h

end ActixModel.DispBounds
