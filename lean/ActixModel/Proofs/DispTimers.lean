import ActixModel.Model.DispTimers
/-
Helper lemmas for C06 (`Props/C06.lean`).  Core Lean only.

The two loops of the dispatcher (`decodeLoop`, `pollResponse`) are folds of a step function that
returns `Iter.stop` / `Iter.next`; `decodeLoop_inv` / `pollResponse_inv` reduce "predicate `Q` on
(state, outputs) is preserved by the loop" to "preserved by one step", so each invariant below is
a case analysis of the step functions and never an induction of its own.
-/
namespace ActixModel.DispTimers

/-! ### generic loop lemmas -/

/-- `Q` holds of the result of an iteration that started from accumulated outputs `o` -/
def Iter.sat (Q : St → List Out → Prop) (o : List Out) : Iter → Prop
  | .stop s' o' _ => Q s' (o ++ o')
  | .next s' o' => Q s' (o ++ o')

/-- `Q` is preserved by one step -/
def StepPres (Q : St → List Out → Prop) (step : St → Iter) : Prop :=
  ∀ s o, Q s o → (step s).sat Q o

theorem decodeLoop_inv (c : Cfg) (i : In) (Q : St → List Out → Prop)
    (h : StepPres Q (decodeStep c i)) :
    ∀ f s u o, Q s o → Q (decodeLoop c i f s u o).1 (decodeLoop c i f s u o).2.2 := by
  intro f
  induction f with
  | zero => intro s u o hq; simpa [decodeLoop] using hq
  | succ f ih =>
    intro s u o hq
    have hs := h s o hq
    unfold decodeLoop
    split
    · rename_i s' o' u' heq
      rw [heq] at hs
      exact hs
    · rename_i s' o' heq
      rw [heq] at hs
      exact ih s' true (o ++ o') hs

theorem pollRequest_inv (c : Cfg) (i : In) (Q : St → List Out → Prop)
    (h : StepPres Q (decodeStep c i)) (s : St) (hq : Q s []) :
    Q (pollRequest c i s).1 (pollRequest c i s).2.2 := by
  unfold pollRequest
  split
  · exact hq
  · split
    · exact hq
    · exact decodeLoop_inv c i Q h _ s false [] hq

theorem pollResponse_inv (c : Cfg) (i : In) (Q : St → List Out → Prop)
    (h : StepPres Q (respStep c i)) :
    ∀ f s o, Q s o → Q (pollResponse c i f s o).1 (pollResponse c i f s o).2 := by
  intro f
  induction f with
  | zero => intro s o hq; simpa [pollResponse] using hq
  | succ f ih =>
    intro s o hq
    have hs := h s o hq
    unfold pollResponse
    split
    · rename_i s' o' u' heq
      rw [heq] at hs
      exact hs
    · rename_i s' o' heq
      rw [heq] at hs
      exact ih s' (o ++ o') hs

/-- a state predicate lifted to (state, outputs) -/
def onSt (P : St → Prop) : St → List Out → Prop := fun s _ => P s

/-! ### frame: what request processing (decode loop, response loop) never touches -/

/-- fields that `pollRequest` / `pollResponse` leave alone, and flags they can only raise -/
structure Frame (s s' : St) : Prop where
  kaTimer : s'.kaTimer = s.kaTimer
  sdTimer : s'.sdTimer = s.sdTimer
  writeDisc : s'.writeDisc = s.writeDisc
  complete : s'.complete = s.complete
  draining : s'.draining = s.draining
  started : s'.started = s.started
  graceful : s'.graceful = s.graceful
  sockIn : s'.sockIn = s.sockIn
  sockEof : s'.sockEof = s.sockEof
  wake : s'.wake = s.wake
  headTimer : s'.headTimer = s.headTimer ∨ s'.headTimer = .inactive
  shutdown : s.shutdown = true → s'.shutdown = true
  linger : s.linger = true → s'.linger = true

theorem Frame.refl (s : St) : Frame s s := by
  constructor <;> simp

theorem Frame.trans {a b c : St} (h1 : Frame a b) (h2 : Frame b c) : Frame a c := by
  constructor
  · rw [h2.kaTimer, h1.kaTimer]
  · rw [h2.sdTimer, h1.sdTimer]
  · rw [h2.writeDisc, h1.writeDisc]
  · rw [h2.complete, h1.complete]
  · rw [h2.draining, h1.draining]
  · rw [h2.started, h1.started]
  · rw [h2.graceful, h1.graceful]
  · rw [h2.sockIn, h1.sockIn]
  · rw [h2.sockEof, h1.sockEof]
  · rw [h2.wake, h1.wake]
  · rcases h2.headTimer with h | h
    · rw [h]; exact h1.headTimer
    · exact Or.inr h
  · exact fun h => h2.shutdown (h1.shutdown h)
  · exact fun h => h2.linger (h1.linger h)

theorem finishResponse_frame (c : Cfg) (s : St) (b : Bool) : Frame s (finishResponse c s b) := by
  unfold finishResponse enterLinger
  split <;> (try split) <;> constructor <;> simp

theorem sendResponse_frame (c : Cfg) (s : St) (rid status : Nat) (body : BodyKind) :
    Frame s (sendResponse c s rid status body) := by
  unfold sendResponse
  cases body
  · exact Frame.trans (by constructor <;> simp) (finishResponse_frame c _ _)
  · constructor <;> simp
  · constructor <;> simp

theorem handlerResp_frame (c : Cfg) (i : In) (s : St) (rid : Nat) (body : BodyKind) :
    Frame s (handlerResp c i s rid body) := by
  unfold handlerResp; split <;> exact sendResponse_frame c s rid _ body

theorem dropReceiver_frame (s : St) (rid : Nat) : Frame s (dropReceiver s rid) := by
  unfold dropReceiver
  split
  · split
    · constructor <;> simp
    · exact Frame.refl s
  · exact Frame.refl s

theorem handleRequest_frame (c : Cfg) (i : In) (s : St) (rid : Nat) (kind : ReqKind) :
    Frame s (handleRequest c i s rid kind).1 := by
  unfold handleRequest
  split
  · exact Frame.trans (Frame.trans (by constructor <;> simp) (dropReceiver_frame _ rid)) (handlerResp_frame c i _ _ _)
  · constructor <;> simp

theorem itemState_frame (c : Cfg) (s : St) (kind : ReqKind) : Frame s (itemState c s kind) := by
  unfold itemState
  constructor <;> simp

theorem onItem_frame (c : Cfg) (i : In) (s : St) (kind : ReqKind) : Frame s (onItem c i s kind).1 := by
  unfold onItem
  split
  · exact Frame.trans (itemState_frame c s kind) (handleRequest_frame c i _ _ _)
  · exact Frame.trans (itemState_frame c s kind) (by constructor <;> simp)

theorem decodeStep_frame (c : Cfg) (i : In) (s0 : St) :
    StepPres (fun s _ => Frame s0 s) (decodeStep c i) := by
  intro s o hq
  unfold decodeStep
  split
  · split
    · split
      · exact Frame.trans hq (by constructor <;> simp)
      · exact Frame.trans hq (by constructor <;> simp)
    · exact hq
  · split
    · exact Frame.trans hq (Frame.trans (by constructor <;> simp) (onItem_frame c i _ _))
    · exact Frame.trans hq (Frame.trans (by constructor <;> simp) (onItem_frame c i _ _))
    · exact Frame.trans hq (Frame.trans (by constructor <;> simp) (onItem_frame c i _ _))
    · exact Frame.trans hq (Frame.trans (by constructor <;> simp) (onItem_frame c i _ _))
    · exact Frame.trans hq (by constructor <;> simp)
    · exact hq

theorem pollRequest_frame (c : Cfg) (i : In) (s : St) : Frame s (pollRequest c i s).1 :=
  pollRequest_inv c i (fun s' _ => Frame s s') (decodeStep_frame c i s) s (Frame.refl s)

theorem finishBody_frame (c : Cfg) (s : St) : Frame s (finishBody c s) := by
  unfold finishBody
  exact Frame.trans (by constructor <;> simp) (finishResponse_frame c _ _)

theorem clearMessages_frame (s : St) : Frame s (clearMessages s) := by
  unfold clearMessages
  constructor <;> simp

theorem respStep_frame (c : Cfg) (i : In) (s0 : St) :
    StepPres (fun s _ => Frame s0 s) (respStep c i) := by
  intro s o hq
  unfold respStep
  split
  · split
    · refine Frame.trans hq (Frame.trans (clearMessages_frame s) ?_)
      constructor <;> simp
      intro h; exact Or.inl h
    · split
      · exact Frame.trans hq (by constructor <;> simp)
      · exact Frame.trans hq (Frame.trans (by constructor <;> simp) (sendResponse_frame c _ _ _ _))
      · exact Frame.trans hq (by constructor <;> simp)
  · split
    · exact Frame.trans hq (Frame.trans (dropReceiver_frame s _) (handlerResp_frame c i _ _ _))
    · show Iter.sat _ o (if (pollRequest c i s).2.1 = true then _ else _)
      split
      · exact Frame.trans hq (pollRequest_frame c i s)
      · exact Frame.trans hq (pollRequest_frame c i s)
  · split
    · exact Frame.trans hq (by constructor <;> simp)
    · split
      · exact Frame.trans hq (finishBody_frame c s)
      · exact hq
    · exact Frame.trans hq (finishBody_frame c s)

theorem pollResponse_frame (c : Cfg) (i : In) (f : Nat) (s : St) (o : List Out) :
    Frame s (pollResponse c i f s o).1 :=
  pollResponse_inv c i (fun s' _ => Frame s s') (respStep_frame c i s) f s o (Frame.refl s)

/-! ### `Core`: the part of the reachable-state invariant that request processing maintains -/

def IsErr : Msg → Prop
  | .error _ => True
  | .item _ _ _ => False

/-- what can sit in the write buffer -/
def IsWire : Out → Prop
  | .head _ _ => True
  | .bodyEnd => True
  | _ => False

structure Core (s : St) : Prop where
  /-- KEEP_ALIVE means idle: nothing in flight, nothing queued, body fully read, not draining,
  and the last request allowed keep-alive -/
  ka : s.keepAlive = true →
    s.st = .none ∧ s.messages = [] ∧ s.payload = none ∧ s.draining = false ∧ s.codecKA = true
  /-- while the head timer runs no request head has been decoded -/
  hd : s.headTimer.isActive = true → s.st = .none ∧ s.payload = none ∧ (∀ m ∈ s.messages, IsErr m)
  wb : ∀ o ∈ s.writeBuf, IsWire o

theorem finishResponse_core (c : Cfg) (s : St) (b : Bool) (h : Core s) (hst : s.st = .none) :
    Core (finishResponse c s b) := by
  unfold finishResponse enterLinger
  split <;> (try split) <;> constructor <;> simp_all [h.ka, h.hd, h.wb] <;> grind [Core]

theorem sendResponse_core (c : Cfg) (s : St) (rid status : Nat) (body : BodyKind) (h : Core s)
    (hk : body = .empty ∨ s.keepAlive = false) (hh : body = .empty ∨ s.headTimer.isActive = false) :
    Core (sendResponse c s rid status body) := by
  unfold sendResponse closeForUnread
  cases body
  · apply finishResponse_core
    · constructor <;> simp_all [IsWire] <;> grind [Core, IsWire]
    · rfl
  · constructor <;> simp_all [IsWire] <;> grind [Core, IsWire]
  · constructor <;> simp_all [IsWire] <;> grind [Core, IsWire]

theorem sendResponse_keepAlive (c : Cfg) (s : St) (rid status : Nat) (body : BodyKind)
    (h : s.keepAlive = false) : (sendResponse c s rid status body).keepAlive = false := by
  unfold sendResponse finishResponse enterLinger
  cases body <;> simp <;> (repeat' split) <;> simp_all

theorem handlerResp_core (c : Cfg) (i : In) (s : St) (rid : Nat) (body : BodyKind) (h : Core s)
    (hk : body = .empty ∨ s.keepAlive = false) (hh : body = .empty ∨ s.headTimer.isActive = false) :
    Core (handlerResp c i s rid body) := by
  unfold handlerResp; split <;> exact sendResponse_core c s rid _ body h hk hh

theorem handlerResp_keepAlive (c : Cfg) (i : In) (s : St) (rid : Nat) (body : BodyKind)
    (h : s.keepAlive = false) : (handlerResp c i s rid body).keepAlive = false := by
  unfold handlerResp; split <;> exact sendResponse_keepAlive c s rid _ body h

theorem dropReceiver_core (s : St) (rid : Nat) (h : Core s) : Core (dropReceiver s rid) := by
  unfold dropReceiver
  split
  · split
    · constructor <;> simp_all <;> grind [Core]
    · exact h
  · exact h

theorem dropReceiver_fields (s : St) (rid : Nat) :
    (dropReceiver s rid).keepAlive = s.keepAlive ∧ (dropReceiver s rid).headTimer = s.headTimer ∧
    (dropReceiver s rid).st = s.st ∧ (dropReceiver s rid).draining = s.draining ∧
    (dropReceiver s rid).writeBuf = s.writeBuf ∧ (dropReceiver s rid).messages = s.messages := by
  unfold dropReceiver
  split
  · split <;> simp
  · simp

/-- the predicate carried through the decode loop -/
def DecS (s : St) : Prop := Core s ∧ s.keepAlive = false

theorem handleRequest_decS (c : Cfg) (i : In) (s : St) (rid : Nat) (kind : ReqKind)
    (h : Core s) (hk : s.keepAlive = false) (hh : s.headTimer.isActive = false) :
    DecS (handleRequest c i s rid kind).1 := by
  unfold handleRequest
  have hs : Core { s with st := .service rid kind } := by
    have h1 := h.ka; have h2 := h.hd; have h3 := h.wb
    constructor <;> simp_all
  split
  · rename_i body _
    have hf := dropReceiver_fields { s with st := .service rid kind } rid
    constructor
    · apply handlerResp_core _ _ _ _ _ (dropReceiver_core _ rid hs)
      · right; rw [hf.1]; exact hk
      · right; rw [hf.2.1]; exact hh
    · apply handlerResp_keepAlive; rw [hf.1]; exact hk
  · exact ⟨hs, hk⟩

theorem itemState_core (c : Cfg) (s : St) (kind : ReqKind) (h : Core s) (hk : s.keepAlive = false) :
    Core (itemState c s kind) := by
  have h1 := h.ka; have h2 := h.hd; have h3 := h.wb
  unfold itemState itemPayload
  constructor <;> simp_all [Timer.isActive]

theorem onItem_decS (c : Cfg) (i : In) (s : St) (kind : ReqKind) (h : Core s) (hk : s.keepAlive = false) :
    DecS (onItem c i s kind).1 := by
  unfold onItem
  split
  · apply handleRequest_decS _ _ _ _ _ (itemState_core c s kind h hk)
    · simpa [itemState] using hk
    · simp [itemState, Timer.isActive]
  · have h3 := h.wb
    refine ⟨?_, by simpa [itemState] using hk⟩
    constructor
    · simp [itemState, hk]
    · simp [itemState, Timer.isActive]
    · simpa [itemState] using h3

theorem decodeStep_decS (c : Cfg) (i : In) : StepPres (onSt DecS) (decodeStep c i) := by
  intro s o hq
  obtain ⟨h, hk⟩ := hq
  have h1 := h.ka; have h2 := h.hd; have h3 := h.wb
  have hr : ∀ rest, Core { s with readBuf := rest } := by
    intro rest; constructor
    · simpa using h1
    · simpa using h2
    · simpa using h3
  unfold decodeStep
  split
  · split
    · split
      · refine ⟨?_, by simpa using hk⟩
        constructor <;> simp_all
      · refine ⟨?_, by simpa using hk⟩
        constructor <;> simp_all [IsErr] <;> grind [IsErr]
    · exact ⟨h, hk⟩
  · split
    · exact onItem_decS c i _ _ (hr _) (by simpa using hk)
    · exact onItem_decS c i _ _ (hr _) (by simpa using hk)
    · exact onItem_decS c i _ _ (hr _) (by simpa using hk)
    · exact onItem_decS c i _ _ (hr _) (by simpa using hk)
    · refine ⟨?_, by simpa using hk⟩
      constructor <;> simp_all [IsErr] <;> grind [IsErr]
    · exact ⟨h, hk⟩

theorem decodeLoop_nil (c : Cfg) (i : In) (f : Nat) (s : St) (u : Bool) (o : List Out)
    (h : s.readBuf = []) : decodeLoop c i (f + 1) s u o = (s, u, o) := by
  unfold decodeLoop decodeStep
  simp [h]

theorem pollRequest_core (c : Cfg) (i : In) (s : St) (h : Core s)
    (hk : s.keepAlive = true → s.readBuf = []) : Core (pollRequest c i s).1 := by
  cases hka : s.keepAlive
  · exact (pollRequest_inv c i (onSt DecS) (decodeStep_decS c i) s ⟨h, hka⟩).1
  · unfold pollRequest
    split
    · exact h
    · split
      · exact h
      · rw [decodeLoop_nil c i _ s false [] (hk hka)]; exact h

theorem pollRequest_keepAlive (c : Cfg) (i : In) (s : St) (h : Core s) (hk : s.keepAlive = false) :
    (pollRequest c i s).1.keepAlive = false :=
  (pollRequest_inv c i (onSt DecS) (decodeStep_decS c i) s ⟨h, hk⟩).2

theorem finishBody_core (c : Cfg) (s : St) (h : Core s) (hk : s.keepAlive = false)
    (hh : s.headTimer.isActive = false) : Core (finishBody c s) := by
  unfold finishBody
  apply finishResponse_core
  · constructor <;> simp_all [IsWire] <;> grind [Core, IsWire]
  · rfl

theorem clearMessages_core (s : St) (h : Core s) : Core (clearMessages s) := by
  unfold clearMessages
  constructor
  · intro hka; have := h.ka (by simpa using hka); simp_all
  · intro hh; have := h.hd (by simpa using hh); simp_all
  · simpa using h.wb

theorem respStep_core (c : Cfg) (i : In) : StepPres (onSt Core) (respStep c i) := by
  intro s o h
  unfold onSt at h
  unfold respStep
  split
  · rename_i hst
    split
    · have h2 := clearMessages_core s h
      show Core _
      constructor
      · simp
      · intro hh; have := h2.hd (by simpa using hh); simp_all [clearMessages]
      · simpa using h2.wb
    · split
      · rename_i rid kind ms hm
        show Core _
        constructor
        · simp
          cases hka : s.keepAlive
          · rfl
          · have := h.ka hka; simp_all
        · simp
          cases hha : s.headTimer.isActive
          · rfl
          · have := (h.hd hha).2.2; simp_all [IsErr]
        · simpa using h.wb
      · rename_i status ms hm
        show Core _
        apply sendResponse_core
        · constructor
          · simp; intro hka; have := h.ka hka; simp_all
          · simp; intro hh; have := h.hd hh; simp_all
          · simpa using h.wb
        · left; rfl
        · left; rfl
      · rename_i hm
        show Core _
        constructor
        · have := h.ka; simp_all [Option.isNone_iff_eq_none]
        · simpa using h.hd
        · simpa using h.wb
  · rename_i rid kind hst
    have hk : s.keepAlive = false := by
      cases hka : s.keepAlive
      · rfl
      · have := (h.ka hka).1; simp_all
    have hh : s.headTimer.isActive = false := by
      cases hha : s.headTimer.isActive
      · rfl
      · have := (h.hd hha).1; simp_all
    split
    · show Core _
      have hf := dropReceiver_fields s rid
      apply handlerResp_core _ _ _ _ _ (dropReceiver_core s rid h)
      · right; rw [hf.1]; exact hk
      · right; rw [hf.2.1]; exact hh
    · show Iter.sat _ o (if (pollRequest c i s).2.1 = true then _ else _)
      have := pollRequest_core c i s h (by simp [hk])
      split <;> exact this
  · rename_i rid body phase hst
    have hk : s.keepAlive = false := by
      cases hka : s.keepAlive
      · rfl
      · have := (h.ka hka).1; simp_all
    have hh : s.headTimer.isActive = false := by
      cases hha : s.headTimer.isActive
      · rfl
      · have := (h.hd hha).1; simp_all
    split
    · show Core _
      constructor <;> simp_all <;> grind [Core]
    · split
      · exact finishBody_core c s h hk hh
      · exact h
    · exact finishBody_core c s h hk hh

theorem pollResponse_core (c : Cfg) (i : In) (f : Nat) (s : St) (o : List Out) (h : Core s) :
    Core (pollResponse c i f s o).1 :=
  pollResponse_inv c i (onSt Core) (respStep_core c i) f s o h

/-! ### the reachable-state invariant of the whole poll -/

structure Inv (c : Cfg) (s : St) : Prop where
  core : Core s
  /-- first `debug_assert!` of `poll_ka_timer` -/
  kaT : s.kaTimer.isActive = true → s.keepAlive = true
  /-- the `debug_assert!` of `poll_shutdown_timer` -/
  sdT : s.sdTimer.isActive = true → s.linger = true ∨ s.shutdown = true
  /-- WRITE_DISCONNECT is only used when no disconnect timeout is configured -/
  wd : c.D ≠ 0 → s.writeDisc = false
  /-- before the first normal poll nothing has been decoded -/
  ns : s.started = false → s.st = .none ∧ s.payload = none ∧ s.messages = []

theorem Inv.init (c : Cfg) (sig : Bool) : Inv c (St.init c sig) := by
  unfold St.init Timer.new
  constructor
  · constructor <;> simp
  · simp; split <;> simp [Timer.isActive]
  · simp; split <;> simp [Timer.isActive]
  · simp
  · simp

theorem deliver_inv (c : Cfg) (i : In) (s : St) (h : Inv c s) : Inv c (deliver i s) := by
  obtain ⟨⟨h1, h2, h3⟩, h4, h5, h6, h7⟩ := h
  unfold deliver
  constructor
  · constructor <;> simpa
  all_goals simpa

theorem pollGraceful_inv (c : Cfg) (i : In) (s : St) (h : Inv c s) : Inv c (pollGraceful i s) := by
  obtain ⟨⟨h1, h2, h3⟩, h4, h5, h6, h7⟩ := h
  unfold pollGraceful
  split
  · constructor
    · constructor
      · simp
      · simpa using h2
      · simpa using h3
    · simp; split
      · simp [Timer.isActive]
      · rename_i hne; cases hk : s.kaTimer <;> simp_all [Timer.isEnabled, Timer.isActive]
    · simpa using h5
    · simpa using h6
    · simpa using h7
  · exact ⟨⟨h1, h2, h3⟩, h4, h5, h6, h7⟩

/-- `sendResponse` with an empty body and no unread payload only queues bytes and sets FINISHED -/
theorem sendResponse_empty_fields (c : Cfg) (s : St) (rid status : Nat) (hp : s.payload = none) :
    let s' := sendResponse c s rid status .empty
    s'.keepAlive = s.keepAlive ∧ s'.linger = s.linger ∧ s'.shutdown = s.shutdown ∧ s'.st = .none ∧
    s'.payload = none ∧ s'.messages = s.messages ∧ s'.started = s.started := by
  simp [sendResponse, closeForUnread, finishResponse, hp]

theorem pollHeadTimer_inv (c : Cfg) (i : In) (s : St) (h : Inv c s) : Inv c (pollHeadTimer c i s) := by
  unfold pollHeadTimer
  split
  · rename_i hf
    have hact : s.headTimer.isActive = true := by
      cases ht : s.headTimer <;> simp_all [Timer.fired, Timer.isActive]
    have hp := (h.core.hd hact).2.1
    have hst := (h.core.hd hact).1
    have hc := sendResponse_core c s 0 408 .empty h.core (Or.inl rfl) (Or.inl rfl)
    have hfr := sendResponse_frame c s 0 408 .empty
    have hf2 := sendResponse_empty_fields c s 0 408 hp
    simp only at hf2
    obtain ⟨f1, f2, f3, f4, f5, f6, f7⟩ := hf2
    constructor
    · constructor
      · simpa using hc.ka
      · simp [Timer.isActive]
      · simpa using hc.wb
    · simp; rw [hfr.kaTimer, f1]; exact h.kaT
    · simp
    · simp; rw [hfr.writeDisc]; exact h.wd
    · simp; rw [f7, f4, f5, f6]; intro hs; have := h.ns hs; simp_all
  · exact h

theorem pollKaTimer_ne_none (c : Cfg) (i : In) (s : St) (h : Inv c s) : pollKaTimer c i s ≠ none := by
  unfold pollKaTimer
  split
  · rename_i d hk
    have hka := h.kaT (by simp [hk, Timer.isActive])
    have hst := (h.core.ka hka).1
    simp [hka, hst]
    split <;> simp
  · simp

theorem armSd_inv (c : Cfg) (s : St) (dl now : Nat) (h : Inv c s) (hl : s.linger = true ∨ s.shutdown = true) :
    Inv c (armSd s dl now) := by
  obtain ⟨⟨h1, h2, h3⟩, h4, h5, h6, h7⟩ := h
  unfold armSd
  constructor
  · constructor <;> simpa
  · simpa using h4
  · simp [hl]
  · simpa using h6
  · simpa using h7

theorem kaExpire_inv (c : Cfg) (i : In) (s : St) (h : Inv c s) : Inv c (kaExpire c i s) := by
  have hs1 : Inv c { s with shutdown := true, kaTimer := .inactive } := by
    obtain ⟨⟨h1, h2, h3⟩, h4, h5, h6, h7⟩ := h
    constructor
    · constructor <;> simpa
    · simp [Timer.isActive]
    · simp
    · simpa using h6
    · simpa using h7
  unfold kaExpire Cfg.disconnectDeadline
  simp only
  split
  · rename_i dl hD
    split
    · exact hs1
    · exact armSd_inv c _ _ _ hs1 (Or.inr rfl)
  · rename_i hD
    have hD0 : c.D = 0 := by
      by_cases h0 : c.D = 0
      · exact h0
      · simp [h0] at hD
    obtain ⟨⟨h1, h2, h3⟩, h4, h5, h6, h7⟩ := hs1
    constructor
    · constructor <;> simpa
    · simpa using h4
    · simpa using h5
    · simp [hD0]
    · simpa using h7

theorem pollKaTimer_inv (c : Cfg) (i : In) (s s' : St) (h : Inv c s) (he : pollKaTimer c i s = some s') :
    Inv c s' := by
  unfold pollKaTimer at he
  split at he
  · split at he
    · simp at he
    · split at he
      · simp at he; rw [← he]; exact kaExpire_inv c i s h
      · simp at he; rw [← he]; exact h
  · simp at he; rw [← he]; exact h

theorem pollSdTimer_ne_assert (c : Cfg) (i : In) (s : St) (h : Inv c s) : pollSdTimer i s ≠ .assertFailed := by
  unfold pollSdTimer
  split
  · rename_i d hk
    have := h.sdT (by simp [hk, Timer.isActive])
    rcases this with hl | hs
    · simp [hl]; split <;> simp
    · simp [hs]; split <;> (try split) <;> simp
  · simp

theorem pollSdTimer_inv (c : Cfg) (i : In) (s s' : St) (h : Inv c s) (he : pollSdTimer i s = .cont s') :
    Inv c s' := by
  unfold pollSdTimer at he
  split at he
  · split at he
    · simp at he
    · split at he
      · split at he
        · simp at he; rw [← he]
          obtain ⟨⟨h1, h2, h3⟩, h4, h5, h6, h7⟩ := h
          constructor
          · constructor <;> simpa
          · simpa using h4
          · simp [Timer.isActive]
          · simpa using h6
          · simpa using h7
        · simp at he
      · simp at he; rw [← he]; exact h
  · simp at he; rw [← he]; exact h

theorem ensureSdTimer_inv (c : Cfg) (i : In) (s : St) (h : Inv c s) (hl : s.linger = true ∨ s.shutdown = true) :
    Inv c (ensureSdTimer c i s).1 := by
  unfold ensureSdTimer
  split
  · exact h
  · split
    · exact armSd_inv c s _ _ h hl
    · exact h

theorem ensureSdTimer_fields (c : Cfg) (i : In) (s : St) :
    (ensureSdTimer c i s).1.linger = s.linger ∧ (ensureSdTimer c i s).1.shutdown = s.shutdown ∧
    (ensureSdTimer c i s).1.writeDisc = s.writeDisc ∧ (ensureSdTimer c i s).1.complete = s.complete := by
  unfold ensureSdTimer armSd
  split
  · simp
  · split <;> simp

theorem flush_inv (c : Cfg) (i : In) (s : St) (h : Inv c s) : Inv c (flush i s).1 := by
  unfold flush
  split
  · exact h
  · split
    · obtain ⟨⟨h1, h2, h3⟩, h4, h5, h6, h7⟩ := h
      constructor
      · constructor
        · simpa using h1
        · simpa using h2
        · simp
      all_goals simpa
    · exact h

theorem flush_fields (i : In) (s : St) :
    (flush i s).1.linger = s.linger ∧ (flush i s).1.shutdown = s.shutdown ∧
    (flush i s).1.writeDisc = s.writeDisc ∧ (flush i s).1.complete = s.complete ∧
    (flush i s).1.sdTimer = s.sdTimer ∧ (flush i s).1.st = s.st := by
  unfold flush
  split
  · simp
  · split <;> simp

theorem readAvailable_inv (c : Cfg) (s : St) (h : Inv c s) : Inv c (readAvailable s).1 := by
  unfold readAvailable
  split
  · exact h
  · obtain ⟨⟨h1, h2, h3⟩, h4, h5, h6, h7⟩ := h
    constructor
    · constructor <;> simpa
    all_goals simpa

theorem complete_inv (c : Cfg) (s : St) (h : Inv c s) : Inv c { s with complete := true } := by
  obtain ⟨⟨h1, h2, h3⟩, h4, h5, h6, h7⟩ := h
  constructor
  · constructor <;> simpa
  all_goals simpa

theorem pollLinger_inv (c : Cfg) (i : In) (s : St) (h : Inv c s) (hl : s.linger = true) :
    Inv c (pollLinger c i s).1 := by
  unfold pollLinger
  have he := ensureSdTimer_inv c i s h (Or.inl hl)
  simp only
  split
  · obtain ⟨⟨h1, h2, h3⟩, h4, h5, h6, h7⟩ := he
    constructor
    · constructor <;> simpa
    · simpa using h4
    · simp
    · simpa using h6
    · simpa using h7
  · have hf := flush_inv c i _ he
    split
    · exact hf
    · have hr := readAvailable_inv c _ hf
      split
      · obtain ⟨⟨h1, h2, h3⟩, h4, h5, h6, h7⟩ := hr
        constructor
        · constructor <;> simpa
        · simpa using h4
        · simp
        · simpa using h6
        · simpa using h7
      · obtain ⟨⟨h1, h2, h3⟩, h4, h5, h6, h7⟩ := hr
        constructor
        · constructor <;> simpa
        all_goals simpa

theorem pollShutdown_inv (c : Cfg) (i : In) (s : St) (o : List Out) (h : Inv c s) (hs : s.shutdown = true) :
    Inv c (pollShutdown c i s o).s := by
  unfold pollShutdown
  have he := ensureSdTimer_inv c i s h (Or.inr hs)
  have hf := flush_inv c i _ he
  simp only
  split
  · exact complete_inv c s h
  · split <;> (try split) <;> first | exact hf | exact complete_inv c _ hf

theorem kaCancel_inv (c : Cfg) (s : St) (h : Inv c s) :
    Inv c (kaCancel s) ∧ ((kaCancel s).keepAlive = true → (kaCancel s).readBuf = []) := by
  unfold kaCancel
  split
  · obtain ⟨⟨h1, h2, h3⟩, h4, h5, h6, h7⟩ := h
    refine ⟨?_, by simp⟩
    constructor
    · constructor
      · simp
      · simpa using h2
      · simpa using h3
    · simp [Timer.isActive]
    · simpa using h5
    · simpa using h6
    · simpa using h7
  · rename_i hn
    refine ⟨h, ?_⟩
    intro hk
    simp [hk] at hn
    exact hn

theorem startTimer_inv (c : Cfg) (i : In) (s : St) (h : Inv c s) :
    Inv c (startTimer c i s) ∧ (startTimer c i s).started = true ∧
    (startTimer c i s).keepAlive = s.keepAlive ∧ (startTimer c i s).readBuf = s.readBuf := by
  unfold startTimer
  split
  · rename_i hs
    have hns := h.ns (by simpa using hs)
    obtain ⟨⟨h1, h2, h3⟩, h4, h5, h6, h7⟩ := h
    split
    · refine ⟨?_, by simp⟩
      constructor
      · constructor
        · simpa using h1
        · simp [hns]
        · simpa using h3
      · simpa using h4
      · simpa using h5
      · simpa using h6
      · simp
    · refine ⟨?_, by simp⟩
      constructor
      · constructor <;> simpa
      · simpa using h4
      · simpa using h5
      · simpa using h6
      · simp
  · rename_i hs
    exact ⟨h, by simpa using hs, rfl, rfl⟩

theorem applyDisc_core (d : Bool) (s : St) (h : Core s) : Core (applyDisc d s) := by
  unfold applyDisc
  split
  · obtain ⟨h1, h2, h3⟩ := h
    constructor
    · simp; intro hk; have := h1 hk; simp_all
    · simp; intro hk; have := h2 hk; simp_all
    · simpa using h3
  · exact h

theorem applyDisc_frame (d : Bool) (s : St) : Frame s (applyDisc d s) := by
  unfold applyDisc
  split
  · constructor <;> simp
  · exact Frame.refl s

theorem pollRequest_nil (c : Cfg) (i : In) (s : St) (h : s.readBuf = []) : pollRequest c i s = (s, false, []) := by
  unfold pollRequest
  split
  · rfl
  · split
    · rfl
    · rw [decodeLoop_nil c i _ s false [] h]

theorem pollResponse_idle (c : Cfg) (i : In) (f : Nat) (s : St) (o : List Out)
    (h1 : s.st = .none) (h2 : s.draining = false) (h3 : s.messages = []) :
    (pollResponse c i (f + 1) s o).1 = { s with keepAlive := s.payload.isNone && s.codecKA } := by
  unfold pollResponse respStep
  simp [h1, h2, h3]

theorem normalMid_frame (c : Cfg) (i : In) (disc : Bool) (s1 : St) : Frame s1 (normalMid c i disc s1).1 := by
  unfold normalMid
  exact Frame.trans (Frame.trans (pollRequest_frame c i s1) (applyDisc_frame disc _)) (pollResponse_frame c i _ _ _)

theorem normalMid_inv (c : Cfg) (i : In) (disc : Bool) (s1 : St) (h : Inv c s1)
    (hk : s1.keepAlive = true → s1.readBuf = []) (hs : s1.started = true) :
    Inv c (normalMid c i disc s1).1 := by
  have hfr := normalMid_frame c i disc s1
  constructor
  · unfold normalMid
    exact pollResponse_core c i _ _ _ (applyDisc_core disc _ (pollRequest_core c i s1 h.core hk))
  · intro hact
    rw [hfr.kaTimer] at hact
    have hka := h.kaT hact
    obtain ⟨k1, k2, k3, k4, k5⟩ := h.core.ka hka
    unfold normalMid
    rw [pollRequest_nil c i s1 (hk hka)]
    simp only
    have e : respFuel (applyDisc disc s1) = (respFuel (applyDisc disc s1) - 1) + 1 := by
      unfold respFuel; omega
    rw [e, pollResponse_idle]
    · unfold applyDisc; split <;> simp [k3, k5]
    · unfold applyDisc; split <;> simp [k1]
    · unfold applyDisc; split <;> simp [k4]
    · unfold applyDisc; split <;> simp [k2]
  · intro hact
    rw [hfr.sdTimer] at hact
    rcases h.sdT hact with hl | hs'
    · exact Or.inl (hfr.linger hl)
    · exact Or.inr (hfr.shutdown hs')
  · intro hD; rw [hfr.writeDisc]; exact h.wd hD
  · intro hst; rw [hfr.started, hs] at hst; simp at hst

theorem armKa_inv (c : Cfg) (i : In) (s : St) (h : Inv c s) : Inv c (armKa c i s) := by
  unfold armKa
  split
  · rename_i hc
    split
    · obtain ⟨⟨h1, h2, h3⟩, h4, h5, h6, h7⟩ := h
      simp at hc
      constructor
      · constructor <;> simpa
      · simp [hc.1.1]
      · simpa using h5
      · simpa using h6
      · simpa using h7
    · exact h
  · exact h

/-- a predicate on the state a `Step` ends in -/
def Step.sat (P : St → Prop) : Step → Prop
  | .ret r => P r.s
  | .again s _ => P s

theorem shutdownFlag_inv (c : Cfg) (s : St) (h : Inv c s) : Inv c { s with shutdown := true } := by
  obtain ⟨⟨h1, h2, h3⟩, h4, h5, h6, h7⟩ := h
  constructor
  · constructor <;> simpa
  · simpa using h4
  · simp
  · simpa using h6
  · simpa using h7

theorem normalTail_inv (c : Cfg) (s : St) (o : List Out) (h : Inv c s) : (normalTail c s o).sat (Inv c) := by
  unfold normalTail
  split
  · exact complete_inv c s h
  · have h2 : Inv c (if s.readDisc && (!c.halfClosed || s.st == .none) then { s with shutdown := true } else s) := by
      split
      · exact shutdownFlag_inv c s h
      · exact h
    simp only
    generalize (if s.readDisc && (!c.halfClosed || s.st == .none) then { s with shutdown := true } else s) = s2 at h2
    split
    · split
      · show Inv c _
        obtain ⟨⟨h1, h2', h3⟩, h4, h5, h6, h7⟩ := h2
        constructor
        · constructor <;> simpa
        all_goals simpa
      · split
        · show Inv c _
          obtain ⟨⟨h1, h2', h3⟩, h4, h5, h6, h7⟩ := h2
          constructor
          · constructor <;> simpa
          · simpa using h4
          · simp
          · simpa using h6
          · simpa using h7
        · split
          · exact h2
          · exact h2
    · exact h2

theorem pollNormal_inv (c : Cfg) (i : In) (s : St) (o : List Out) (h : Inv c s) :
    (pollNormal c i s o).sat (Inv c) := by
  unfold pollNormal
  simp only
  apply normalTail_inv
  apply flush_inv
  apply armKa_inv
  have hr := readAvailable_inv c s h
  have hk := kaCancel_inv c _ hr
  have hs := startTimer_inv c i _ hk.1
  have := normalMid_inv c i (readAvailable s).2 _ hs.1 (by rw [hs.2.2.1, hs.2.2.2]; exact hk.2) hs.2.1
  exact this

theorem pollOnce_inv (c : Cfg) (i : In) (s : St) (o : List Out) (h : Inv c s) :
    (pollOnce c i s o).sat (Inv c) := by
  unfold pollOnce pollModes
  have h1 := pollHeadTimer_inv c i _ (pollGraceful_inv c i s h)
  simp only
  split
  · exact complete_inv c _ h1
  · rename_i s2 he
    have h2 := pollKaTimer_inv c i _ s2 h1 he
    split
    · exact complete_inv c _ h2
    · exact complete_inv c _ h2
    · rename_i s3 he3
      have h3 := pollSdTimer_inv c i s2 s3 h2 he3
      split
      · rename_i hl
        exact pollLinger_inv c i s3 h3 hl
      · split
        · rename_i hs
          exact pollShutdown_inv c i s3 o h3 hs
        · exact pollNormal_inv c i s3 o h3

/-- **the invariant is inductive**: every poll, with any oracle answers and any clock values,
maps invariant states to invariant states -/
theorem poll_inv (c : Cfg) (s : St) (i : In) (h : Inv c s) : Inv c (poll c s i).s := by
  unfold poll
  split
  · exact h
  · have h1 := pollOnce_inv c i _ [] (deliver_inv c i s h)
    split
    · rename_i r he; rw [he] at h1; exact h1
    · rename_i s2 o2 he
      rw [he] at h1
      have h2 := pollOnce_inv c i s2 o2 h1
      split
      · rename_i r he2; rw [he2] at h2; exact h2
      · rename_i s3 o3 he3; rw [he3] at h2; exact h2

/-! ### SHUTDOWN with a running shutdown timer -/

/-- waiting in SHUTDOWN (not LINGER) with the shutdown timer running until `d` -/
def Closing (s : St) (d : Nat) : Prop :=
  s.shutdown = true ∧ s.linger = false ∧ s.sdTimer = .active d ∧ s.complete = false

theorem deliver_closing (i : In) (s : St) (d : Nat) (h : Closing s d) : Closing (deliver i s) d := by
  unfold Closing deliver at *; simpa using h

theorem pollGraceful_closing (i : In) (s : St) (d : Nat) (h : Closing s d) : Closing (pollGraceful i s) d := by
  unfold Closing pollGraceful at *
  split <;> simpa using h

theorem pollHeadTimer_closing (c : Cfg) (i : In) (s : St) (d : Nat) (hi : Inv c s) (h : Closing s d) :
    Closing (pollHeadTimer c i s) d := by
  unfold pollHeadTimer
  split
  · rename_i hf
    have hact : s.headTimer.isActive = true := by
      cases ht : s.headTimer <;> simp_all [Timer.fired, Timer.isActive]
    have hp := (hi.core.hd hact).2.1
    have hfr := sendResponse_frame c s 0 408 .empty
    have hf2 := sendResponse_empty_fields c s 0 408 hp
    simp only at hf2
    obtain ⟨f1, f2, f3, f4, f5, f6, f7⟩ := hf2
    unfold Closing at *
    simp
    rw [f2, hfr.sdTimer, hfr.complete]
    exact ⟨h.2.1, h.2.2.1, h.2.2.2⟩
  · exact h

theorem pollKaTimer_closing (c : Cfg) (i : In) (s s' : St) (d : Nat) (h : Closing s d)
    (he : pollKaTimer c i s = some s') : Closing s' d := by
  unfold pollKaTimer at he
  split at he
  · split at he
    · simp at he
    · split at he
      · simp at he; rw [← he]
        unfold kaExpire Closing at *
        simp only
        split
        · simp [h.2.2.1, Timer.isActive]; exact ⟨h.2.1, h.2.2.2⟩
        · simp; exact ⟨h.2.1, h.2.2.1, h.2.2.2⟩
      · simp at he; rw [← he]; exact h
  · simp at he; rw [← he]; exact h

theorem pollSdTimer_closing_fired (i : In) (s : St) (d : Nat) (h : Closing s d) (hd : d ≤ i.now) :
    pollSdTimer i s = .timeout := by
  unfold pollSdTimer
  simp [h.2.2.1, h.1, h.2.1, hd]

theorem pollSdTimer_closing_wait (i : In) (s : St) (d : Nat) (h : Closing s d) (hd : i.now < d) :
    pollSdTimer i s = .cont s := by
  unfold pollSdTimer
  simp [h.2.2.1, h.1, h.2.1]
  omega

theorem pollShutdown_closing (c : Cfg) (i : In) (s : St) (o : List Out) (d : Nat) (h : Closing s d) :
    (pollShutdown c i s o).s.complete = true ∨ Closing (pollShutdown c i s o).s d := by
  unfold pollShutdown
  have he : (ensureSdTimer c i s).1 = s := by
    unfold ensureSdTimer; simp [h.2.2.1, Timer.isActive]
  have hff := flush_fields i s
  simp only [he]
  split
  · left; rfl
  · split
    · right; unfold Closing; rw [hff.1, hff.2.1, hff.2.2.2.2.1, hff.2.2.2.1]; exact h
    · split
      · left; rfl
      · right; unfold Closing; rw [hff.1, hff.2.1, hff.2.2.2.2.1, hff.2.2.2.1]; exact h

/-- a pass through `poll` from a `Closing` state never takes the normal branch -/
theorem pollOnce_closing (c : Cfg) (i : In) (s : St) (o : List Out) (d : Nat) (hi : Inv c s) (h : Closing s d) :
    ∃ r, pollOnce c i s o = .ret r ∧
      (r.s.complete = true ∨ (i.now < d ∧ Closing r.s d)) ∧ (d ≤ i.now → r.s.complete = true) := by
  unfold pollOnce pollModes
  have h1 := pollHeadTimer_closing c i _ d (pollGraceful_inv c i s hi) (pollGraceful_closing i s d h)
  have i1 := pollHeadTimer_inv c i _ (pollGraceful_inv c i s hi)
  simp only
  split
  · exact ⟨_, rfl, Or.inl rfl, fun _ => rfl⟩
  · rename_i s2 he
    have h2 := pollKaTimer_closing c i _ s2 d h1 he
    by_cases hd : d ≤ i.now
    · rw [pollSdTimer_closing_fired i s2 d h2 hd]
      exact ⟨_, rfl, Or.inl rfl, fun _ => rfl⟩
    · have hd' : i.now < d := by omega
      rw [pollSdTimer_closing_wait i s2 d h2 hd']
      simp only [h2.2.1, h2.1]
      simp
      refine ⟨?_, fun hh => absurd hh hd⟩
      rcases pollShutdown_closing c i s2 o d h2 with hc | hc
      · exact Or.inl hc
      · exact Or.inr ⟨hd', hc⟩

theorem poll_closing (c : Cfg) (s : St) (i : In) (d : Nat) (hi : Inv c s) (h : Closing s d) :
    ((poll c s i).s.complete = true ∨ (i.now < d ∧ Closing (poll c s i).s d)) ∧
    (d ≤ i.now → (poll c s i).s.complete = true) := by
  unfold poll
  simp [h.2.2.2]
  obtain ⟨r, he, hr⟩ := pollOnce_closing c i (deliver i s) [] d (deliver_inv c i s hi) (deliver_closing i s d h)
  rw [he]
  exact hr

theorem poll_complete (c : Cfg) (s : St) (i : In) (h : s.complete = true) : (poll c s i).s = s := by
  unfold poll; simp [h]

/-- **a `Closing` connection is complete once any poll happens at or after its deadline** -/
theorem run_closing (c : Cfg) (d : Nat) : ∀ (is : List In) (s : St), Inv c s →
    (s.complete = true ∨ Closing s d) → (∃ i ∈ is, d ≤ i.now) → (run c s is).1.complete = true := by
  intro is
  induction is with
  | nil => intro s _ _ h; simp at h
  | cons i is ih =>
    intro s hi hs hex
    unfold run
    simp only
    have hi' := poll_inv c s i hi
    rcases hs with hc | hcl
    · -- already complete: stays complete
      have : (poll c s i).s = s := poll_complete c s i hc
      have hrun : ∀ (js : List In) (s : St), s.complete = true → (run c s js).1.complete = true := by
        intro js
        induction js with
        | nil => intro s h; simpa [run] using h
        | cons j js ih2 =>
          intro s h
          unfold run; simp only
          rw [poll_complete c s j h]
          exact ih2 s h
      rw [this]
      exact hrun is s hc
    · have hp := poll_closing c s i d hi hcl
      by_cases hd : d ≤ i.now
      · have hc := hp.2 hd
        have hrun : ∀ (js : List In) (s : St), s.complete = true → (run c s js).1.complete = true := by
          intro js
          induction js with
          | nil => intro s h; simpa [run] using h
          | cons j js ih2 =>
            intro s h
            unfold run; simp only
            rw [poll_complete c s j h]
            exact ih2 s h
        exact hrun is _ hc
      · have hex' : ∃ j ∈ is, d ≤ j.now := by
          obtain ⟨j, hj, hjd⟩ := hex
          simp at hj
          rcases hj with rfl | hj
          · exact absurd hjd hd
          · exact ⟨j, hj, hjd⟩
        apply ih _ hi' _ hex'
        rcases hp.1 with hc | ⟨_, hcl'⟩
        · exact Or.inl hc
        · exact Or.inr hcl'

end ActixModel.DispTimers
