import ActixModel.Model.DispTimers
/-
Helper lemmas for C06 (`Props/C06.lean`).  Core Lean only.

The two loops of the dispatcher (`decodeLoop`, `pollResponse`) are folds of a step function that
returns `Iter.stop` / `Iter.next`; `decodeLoop_inv` / `pollResponse_inv` reduce "predicate `Q` on
(state, outputs) is preserved by the loop" to "preserved by one step", so each invariant below is
a case analysis of the step functions and never an induction of its own.
-/
namespace ActixModel.DispTimers

/-! ### generic loop lemmas -/

/-- `Q` holds of the result of an iteration that started from accumulated outputs `o` -/
def Iter.sat (Q : St → List Out → Prop) (o : List Out) : Iter → Prop
  | .stop s' o' _ => Q s' (o ++ o')
  | .next s' o' => Q s' (o ++ o')

/-- `Q` is preserved by one step -/
def StepPres (Q : St → List Out → Prop) (step : St → Iter) : Prop :=
  ∀ s o, Q s o → (step s).sat Q o

theorem decodeLoop_inv (c : Cfg) (i : In) (Q : St → List Out → Prop)
    (h : StepPres Q (decodeStep c i)) :
    ∀ f s u o, Q s o → Q (decodeLoop c i f s u o).1 (decodeLoop c i f s u o).2.2 := by
  intro f
  induction f with
  | zero => intro s u o hq; simpa [decodeLoop] using hq
  | succ f ih =>
    intro s u o hq
    have hs := h s o hq
    unfold decodeLoop
    split
    · rename_i s' o' u' heq
      rw [heq] at hs
      exact hs
    · rename_i s' o' heq
      rw [heq] at hs
      exact ih s' true (o ++ o') hs

theorem pollRequest_inv (c : Cfg) (i : In) (Q : St → List Out → Prop)
    (h : StepPres Q (decodeStep c i)) (s : St) (hq : Q s []) :
    Q (pollRequest c i s).1 (pollRequest c i s).2.2 := by
  unfold pollRequest
  split
  · exact hq
  · split
    · exact hq
    · exact decodeLoop_inv c i Q h _ s false [] hq

theorem pollResponse_inv (c : Cfg) (i : In) (Q : St → List Out → Prop)
    (h : StepPres Q (respStep c i)) :
    ∀ f s o, Q s o → Q (pollResponse c i f s o).1 (pollResponse c i f s o).2 := by
  intro f
  induction f with
  | zero => intro s o hq; simpa [pollResponse] using hq
  | succ f ih =>
    intro s o hq
    have hs := h s o hq
    unfold pollResponse
    split
    · rename_i s' o' u' heq
      rw [heq] at hs
      exact hs
    · rename_i s' o' heq
      rw [heq] at hs
      exact ih s' (o ++ o') hs

/-- a state predicate lifted to (state, outputs) -/
def onSt (P : St → Prop) : St → List Out → Prop := fun s _ => P s

/-! ### frame: what request processing (decode loop, response loop) never touches -/

/-- fields that `pollRequest` / `pollResponse` leave alone, and flags they can only raise -/
structure Frame (s s' : St) : Prop where
  kaTimer : s'.kaTimer = s.kaTimer
  sdTimer : s'.sdTimer = s.sdTimer
  writeDisc : s'.writeDisc = s.writeDisc
  complete : s'.complete = s.complete
  draining : s'.draining = s.draining
  started : s'.started = s.started
  graceful : s'.graceful = s.graceful
  sockIn : s'.sockIn = s.sockIn
  sockEof : s'.sockEof = s.sockEof
  wake : s'.wake = s.wake
  headTimer : s'.headTimer = s.headTimer ∨ s'.headTimer = .inactive
  shutdown : s.shutdown = true → s'.shutdown = true
  linger : s.linger = true → s'.linger = true

theorem Frame.refl (s : St) : Frame s s := by
  constructor <;> simp

theorem Frame.trans {a b c : St} (h1 : Frame a b) (h2 : Frame b c) : Frame a c := by
  constructor
  · rw [h2.kaTimer, h1.kaTimer]
  · rw [h2.sdTimer, h1.sdTimer]
  · rw [h2.writeDisc, h1.writeDisc]
  · rw [h2.complete, h1.complete]
  · rw [h2.draining, h1.draining]
  · rw [h2.started, h1.started]
  · rw [h2.graceful, h1.graceful]
  · rw [h2.sockIn, h1.sockIn]
  · rw [h2.sockEof, h1.sockEof]
  · rw [h2.wake, h1.wake]
  · rcases h2.headTimer with h | h
    · rw [h]; exact h1.headTimer
    · exact Or.inr h
  · exact fun h => h2.shutdown (h1.shutdown h)
  · exact fun h => h2.linger (h1.linger h)

theorem finishResponse_frame (c : Cfg) (s : St) (b : Bool) : Frame s (finishResponse c s b) := by
  unfold finishResponse enterLinger
  split <;> (try split) <;> constructor <;> simp

theorem sendResponse_frame (c : Cfg) (s : St) (rid status : Nat) (body : BodyKind) :
    Frame s (sendResponse c s rid status body) := by
  unfold sendResponse
  cases body
  · exact Frame.trans (by constructor <;> simp) (finishResponse_frame c _ _)
  · constructor <;> simp
  · constructor <;> simp

theorem dropReceiver_frame (s : St) (rid : Nat) : Frame s (dropReceiver s rid) := by
  unfold dropReceiver
  split
  · split
    · constructor <;> simp
    · exact Frame.refl s
  · exact Frame.refl s

theorem handleRequest_frame (c : Cfg) (i : In) (s : St) (rid : Nat) (kind : ReqKind) :
    Frame s (handleRequest c i s rid kind).1 := by
  unfold handleRequest
  split
  · exact Frame.trans (Frame.trans (by constructor <;> simp) (dropReceiver_frame _ rid)) (sendResponse_frame c _ _ _ _)
  · constructor <;> simp

theorem itemState_frame (c : Cfg) (s : St) (kind : ReqKind) : Frame s (itemState c s kind) := by
  unfold itemState
  constructor <;> simp

theorem onItem_frame (c : Cfg) (i : In) (s : St) (kind : ReqKind) : Frame s (onItem c i s kind).1 := by
  unfold onItem
  split
  · exact Frame.trans (itemState_frame c s kind) (handleRequest_frame c i _ _ _)
  · exact Frame.trans (itemState_frame c s kind) (by constructor <;> simp)

theorem decodeStep_frame (c : Cfg) (i : In) (s0 : St) :
    StepPres (fun s _ => Frame s0 s) (decodeStep c i) := by
  intro s o hq
  unfold decodeStep
  split
  · split
    · split
      · exact Frame.trans hq (by constructor <;> simp)
      · exact Frame.trans hq (by constructor <;> simp)
    · exact hq
  · split
    · exact Frame.trans hq (Frame.trans (by constructor <;> simp) (onItem_frame c i _ _))
    · exact Frame.trans hq (Frame.trans (by constructor <;> simp) (onItem_frame c i _ _))
    · exact Frame.trans hq (Frame.trans (by constructor <;> simp) (onItem_frame c i _ _))
    · exact Frame.trans hq (Frame.trans (by constructor <;> simp) (onItem_frame c i _ _))
    · exact Frame.trans hq (by constructor <;> simp)
    · exact hq

theorem pollRequest_frame (c : Cfg) (i : In) (s : St) : Frame s (pollRequest c i s).1 :=
  pollRequest_inv c i (fun s' _ => Frame s s') (decodeStep_frame c i s) s (Frame.refl s)

theorem finishBody_frame (c : Cfg) (s : St) : Frame s (finishBody c s) := by
  unfold finishBody
  exact Frame.trans (by constructor <;> simp) (finishResponse_frame c _ _)

theorem clearMessages_frame (s : St) : Frame s (clearMessages s) := by
  unfold clearMessages
  constructor <;> simp

theorem respStep_frame (c : Cfg) (i : In) (s0 : St) :
    StepPres (fun s _ => Frame s0 s) (respStep c i) := by
  intro s o hq
  unfold respStep
  split
  · split
    · refine Frame.trans hq (Frame.trans (clearMessages_frame s) ?_)
      constructor <;> simp
      intro h; exact Or.inl h
    · split
      · exact Frame.trans hq (by constructor <;> simp)
      · exact Frame.trans hq (Frame.trans (by constructor <;> simp) (sendResponse_frame c _ _ _ _))
      · exact Frame.trans hq (by constructor <;> simp)
  · split
    · exact Frame.trans hq (Frame.trans (dropReceiver_frame s _) (sendResponse_frame c _ _ _ _))
    · show Iter.sat _ o (if (pollRequest c i s).2.1 = true then _ else _)
      split
      · exact Frame.trans hq (pollRequest_frame c i s)
      · exact Frame.trans hq (pollRequest_frame c i s)
  · split
    · exact Frame.trans hq (by constructor <;> simp)
    · split
      · exact Frame.trans hq (finishBody_frame c s)
      · exact hq
    · exact Frame.trans hq (finishBody_frame c s)

theorem pollResponse_frame (c : Cfg) (i : In) (f : Nat) (s : St) (o : List Out) :
    Frame s (pollResponse c i f s o).1 :=
  pollResponse_inv c i (fun s' _ => Frame s s') (respStep_frame c i s) f s o (Frame.refl s)

/-! ### `Core`: the part of the reachable-state invariant that request processing maintains -/

def IsErr : Msg → Prop
  | .error _ => True
  | .item _ _ => False

/-- what can sit in the write buffer -/
def IsWire : Out → Prop
  | .head _ _ => True
  | .bodyEnd => True
  | _ => False

structure Core (s : St) : Prop where
  /-- KEEP_ALIVE means idle: nothing in flight, nothing queued, body fully read, not draining,
  and the last request allowed keep-alive -/
  ka : s.keepAlive = true →
    s.st = .none ∧ s.messages = [] ∧ s.payload = none ∧ s.draining = false ∧ s.codecKA = true
  /-- while the head timer runs no request head has been decoded -/
  hd : s.headTimer.isActive = true → s.st = .none ∧ s.payload = none ∧ (∀ m ∈ s.messages, IsErr m)
  wb : ∀ o ∈ s.writeBuf, IsWire o

theorem finishResponse_core (c : Cfg) (s : St) (b : Bool) (h : Core s) (hst : s.st = .none) :
    Core (finishResponse c s b) := by
  unfold finishResponse enterLinger
  split <;> (try split) <;> constructor <;> simp_all [h.ka, h.hd, h.wb] <;> grind [Core]

theorem sendResponse_core (c : Cfg) (s : St) (rid status : Nat) (body : BodyKind) (h : Core s)
    (hk : body = .empty ∨ s.keepAlive = false) (hh : body = .empty ∨ s.headTimer.isActive = false) :
    Core (sendResponse c s rid status body) := by
  unfold sendResponse closeForUnread
  cases body
  · apply finishResponse_core
    · constructor <;> simp_all [IsWire] <;> grind [Core, IsWire]
    · rfl
  · constructor <;> simp_all [IsWire] <;> grind [Core, IsWire]
  · constructor <;> simp_all [IsWire] <;> grind [Core, IsWire]

theorem sendResponse_keepAlive (c : Cfg) (s : St) (rid status : Nat) (body : BodyKind)
    (h : s.keepAlive = false) : (sendResponse c s rid status body).keepAlive = false := by
  unfold sendResponse finishResponse enterLinger
  cases body <;> simp <;> (repeat' split) <;> simp_all

theorem dropReceiver_core (s : St) (rid : Nat) (h : Core s) : Core (dropReceiver s rid) := by
  unfold dropReceiver
  split
  · split
    · constructor <;> simp_all <;> grind [Core]
    · exact h
  · exact h

theorem dropReceiver_fields (s : St) (rid : Nat) :
    (dropReceiver s rid).keepAlive = s.keepAlive ∧ (dropReceiver s rid).headTimer = s.headTimer ∧
    (dropReceiver s rid).st = s.st ∧ (dropReceiver s rid).draining = s.draining ∧
    (dropReceiver s rid).writeBuf = s.writeBuf ∧ (dropReceiver s rid).messages = s.messages := by
  unfold dropReceiver
  split
  · split <;> simp
  · simp

/-- the predicate carried through the decode loop -/
def DecS (s : St) : Prop := Core s ∧ s.keepAlive = false

theorem handleRequest_decS (c : Cfg) (i : In) (s : St) (rid : Nat) (kind : ReqKind)
    (h : Core s) (hk : s.keepAlive = false) (hh : s.headTimer.isActive = false) :
    DecS (handleRequest c i s rid kind).1 := by
  unfold handleRequest
  have hs : Core { s with st := .service rid kind } := by
    have h1 := h.ka; have h2 := h.hd; have h3 := h.wb
    constructor <;> simp_all
  split
  · rename_i body _
    have hf := dropReceiver_fields { s with st := .service rid kind } rid
    constructor
    · apply sendResponse_core _ _ _ _ _ (dropReceiver_core _ rid hs)
      · right; rw [hf.1]; exact hk
      · right; rw [hf.2.1]; exact hh
    · apply sendResponse_keepAlive; rw [hf.1]; exact hk
  · exact ⟨hs, hk⟩

theorem itemState_core (c : Cfg) (s : St) (kind : ReqKind) (h : Core s) (hk : s.keepAlive = false) :
    Core (itemState c s kind) := by
  have h1 := h.ka; have h2 := h.hd; have h3 := h.wb
  unfold itemState itemPayload
  constructor <;> simp_all [Timer.isActive]

theorem onItem_decS (c : Cfg) (i : In) (s : St) (kind : ReqKind) (h : Core s) (hk : s.keepAlive = false) :
    DecS (onItem c i s kind).1 := by
  unfold onItem
  split
  · apply handleRequest_decS _ _ _ _ _ (itemState_core c s kind h hk)
    · simpa [itemState] using hk
    · simp [itemState, Timer.isActive]
  · have h3 := h.wb
    refine ⟨?_, by simpa [itemState] using hk⟩
    constructor
    · simp [itemState, hk]
    · simp [itemState, Timer.isActive]
    · simpa [itemState] using h3

theorem decodeStep_decS (c : Cfg) (i : In) : StepPres (onSt DecS) (decodeStep c i) := by
  intro s o hq
  obtain ⟨h, hk⟩ := hq
  have h1 := h.ka; have h2 := h.hd; have h3 := h.wb
  have hr : ∀ rest, Core { s with readBuf := rest } := by
    intro rest; constructor
    · simpa using h1
    · simpa using h2
    · simpa using h3
  unfold decodeStep
  split
  · split
    · split
      · refine ⟨?_, by simpa using hk⟩
        constructor <;> simp_all
      · refine ⟨?_, by simpa using hk⟩
        constructor <;> simp_all [IsErr] <;> grind [IsErr]
    · exact ⟨h, hk⟩
  · split
    · exact onItem_decS c i _ _ (hr _) (by simpa using hk)
    · exact onItem_decS c i _ _ (hr _) (by simpa using hk)
    · exact onItem_decS c i _ _ (hr _) (by simpa using hk)
    · exact onItem_decS c i _ _ (hr _) (by simpa using hk)
    · refine ⟨?_, by simpa using hk⟩
      constructor <;> simp_all [IsErr] <;> grind [IsErr]
    · exact ⟨h, hk⟩

theorem decodeLoop_nil (c : Cfg) (i : In) (f : Nat) (s : St) (u : Bool) (o : List Out)
    (h : s.readBuf = []) : decodeLoop c i (f + 1) s u o = (s, u, o) := by
  unfold decodeLoop decodeStep
  simp [h]

theorem pollRequest_core (c : Cfg) (i : In) (s : St) (h : Core s)
    (hk : s.keepAlive = true → s.readBuf = []) : Core (pollRequest c i s).1 := by
  cases hka : s.keepAlive
  · exact (pollRequest_inv c i (onSt DecS) (decodeStep_decS c i) s ⟨h, hka⟩).1
  · unfold pollRequest
    split
    · exact h
    · split
      · exact h
      · rw [decodeLoop_nil c i _ s false [] (hk hka)]; exact h

theorem pollRequest_keepAlive (c : Cfg) (i : In) (s : St) (h : Core s) (hk : s.keepAlive = false) :
    (pollRequest c i s).1.keepAlive = false :=
  (pollRequest_inv c i (onSt DecS) (decodeStep_decS c i) s ⟨h, hk⟩).2

theorem finishBody_core (c : Cfg) (s : St) (h : Core s) (hk : s.keepAlive = false)
    (hh : s.headTimer.isActive = false) : Core (finishBody c s) := by
  unfold finishBody
  apply finishResponse_core
  · constructor <;> simp_all [IsWire] <;> grind [Core, IsWire]
  · rfl

theorem clearMessages_core (s : St) (h : Core s) : Core (clearMessages s) := by
  unfold clearMessages
  constructor
  · intro hka; have := h.ka (by simpa using hka); simp_all
  · intro hh; have := h.hd (by simpa using hh); simp_all
  · simpa using h.wb

theorem respStep_core (c : Cfg) (i : In) : StepPres (onSt Core) (respStep c i) := by
  intro s o h
  unfold onSt at h
  unfold respStep
  split
  · rename_i hst
    split
    · have h2 := clearMessages_core s h
      show Core _
      constructor
      · simp
      · intro hh; have := h2.hd (by simpa using hh); simp_all [clearMessages]
      · simpa using h2.wb
    · split
      · rename_i rid kind ms hm
        show Core _
        constructor
        · simp
          cases hka : s.keepAlive
          · rfl
          · have := h.ka hka; simp_all
        · simp
          cases hha : s.headTimer.isActive
          · rfl
          · have := (h.hd hha).2.2; simp_all [IsErr]
        · simpa using h.wb
      · rename_i status ms hm
        show Core _
        apply sendResponse_core
        · constructor
          · simp; intro hka; have := h.ka hka; simp_all
          · simp; intro hh; have := h.hd hh; simp_all
          · simpa using h.wb
        · left; rfl
        · left; rfl
      · rename_i hm
        show Core _
        constructor
        · have := h.ka; simp_all [Option.isNone_iff_eq_none]
        · simpa using h.hd
        · simpa using h.wb
  · rename_i rid kind hst
    have hk : s.keepAlive = false := by
      cases hka : s.keepAlive
      · rfl
      · have := (h.ka hka).1; simp_all
    have hh : s.headTimer.isActive = false := by
      cases hha : s.headTimer.isActive
      · rfl
      · have := (h.hd hha).1; simp_all
    split
    · show Core _
      have hf := dropReceiver_fields s rid
      apply sendResponse_core _ _ _ _ _ (dropReceiver_core s rid h)
      · right; rw [hf.1]; exact hk
      · right; rw [hf.2.1]; exact hh
    · show Iter.sat _ o (if (pollRequest c i s).2.1 = true then _ else _)
      have := pollRequest_core c i s h (by simp [hk])
      split <;> exact this
  · rename_i rid body phase hst
    have hk : s.keepAlive = false := by
      cases hka : s.keepAlive
      · rfl
      · have := (h.ka hka).1; simp_all
    have hh : s.headTimer.isActive = false := by
      cases hha : s.headTimer.isActive
      · rfl
      · have := (h.hd hha).1; simp_all
    split
    · show Core _
      constructor <;> simp_all <;> grind [Core]
    · split
      · exact finishBody_core c s h hk hh
      · exact h
    · exact finishBody_core c s h hk hh

theorem pollResponse_core (c : Cfg) (i : In) (f : Nat) (s : St) (o : List Out) (h : Core s) :
    Core (pollResponse c i f s o).1 :=
  pollResponse_inv c i (onSt Core) (respStep_core c i) f s o h

end ActixModel.DispTimers
