import ActixModel.Proofs.DispTimers
/-
C06 helper lemmas, part B: where the shutdown timer is armed and what its deadline is.
-/
namespace ActixModel.DispTimers

/-! ### deadline of the shutdown timer: only ever `cached + D` of the poll that armed it -/

/-- every shutdown-timer deadline of `s'` is either inherited from `s` or `i.cached + c.D` -/
def SdStep (c : Cfg) (i : In) (s s' : St) : Prop :=
  ∀ d, s'.sdTimer = .active d → s.sdTimer = .active d ∨ (c.D ≠ 0 ∧ d = i.cached + c.D)

theorem SdStep.of_eq {c : Cfg} {i : In} {s s' : St} (h : s'.sdTimer = s.sdTimer) : SdStep c i s s' := by
  intro d hd; left; rw [← h]; exact hd

theorem SdStep.trans {c : Cfg} {i : In} {a b d : St} (h1 : SdStep c i a b) (h2 : SdStep c i b d) :
    SdStep c i a d := by
  intro x hx
  rcases h2 x hx with h | h
  · exact h1 x h
  · exact Or.inr h

theorem armSd_sdStep (c : Cfg) (i : In) (s : St) (dl : Nat) (h : c.disconnectDeadline i.cached = some dl) :
    SdStep c i s (armSd s dl i.now) := by
  intro d hd
  unfold armSd at hd
  simp at hd
  unfold Cfg.disconnectDeadline at h
  split at h
  · simp at h
  · rename_i h0; simp at h; right; exact ⟨h0, by omega⟩

theorem ensureSdTimer_sdStep (c : Cfg) (i : In) (s : St) : SdStep c i s (ensureSdTimer c i s).1 := by
  unfold ensureSdTimer
  split
  · exact SdStep.of_eq rfl
  · split
    · rename_i dl h; exact armSd_sdStep c i s dl h
    · exact SdStep.of_eq rfl

theorem ensureSdTimer_active (c : Cfg) (i : In) (s : St) (hD : c.D ≠ 0) :
    (ensureSdTimer c i s).1.sdTimer.isActive = true ∧ (ensureSdTimer c i s).2 = true := by
  unfold ensureSdTimer Cfg.disconnectDeadline armSd
  split
  · rename_i h; exact ⟨h, rfl⟩
  · simp [hD, Timer.isActive]

theorem kaExpire_sdStep (c : Cfg) (i : In) (s : St) : SdStep c i s (kaExpire c i s) := by
  unfold kaExpire
  simp only
  split
  · rename_i dl h
    split
    · exact SdStep.of_eq rfl
    · exact SdStep.trans (SdStep.of_eq (s' := { s with shutdown := true, kaTimer := .inactive }) rfl)
        (armSd_sdStep c i _ dl h)
  · exact SdStep.of_eq rfl

theorem pollKaTimer_sdStep (c : Cfg) (i : In) (s s' : St) (he : pollKaTimer c i s = some s') : SdStep c i s s' := by
  unfold pollKaTimer at he
  split at he
  · split at he
    · simp at he
    · split at he
      · simp at he; rw [← he]; exact kaExpire_sdStep c i s
      · simp at he; rw [← he]; exact SdStep.of_eq rfl
  · simp at he; rw [← he]; exact SdStep.of_eq rfl

theorem pollSdTimer_sdStep (c : Cfg) (i : In) (s s' : St) (he : pollSdTimer i s = .cont s') : SdStep c i s s' := by
  unfold pollSdTimer at he
  split at he
  · split at he
    · simp at he
    · split at he
      · split at he
        · simp at he; rw [← he]; intro d hd; simp at hd
        · simp at he
      · simp at he; rw [← he]; exact SdStep.of_eq rfl
  · simp at he; rw [← he]; exact SdStep.of_eq rfl

theorem readAvailable_fields (s : St) :
    (readAvailable s).1.sdTimer = s.sdTimer ∧ (readAvailable s).1.linger = s.linger ∧
    (readAvailable s).1.shutdown = s.shutdown ∧ (readAvailable s).1.complete = s.complete ∧
    (readAvailable s).1.kaTimer = s.kaTimer ∧ (readAvailable s).1.headTimer = s.headTimer ∧
    (readAvailable s).1.draining = s.draining ∧ (readAvailable s).1.st = s.st := by
  unfold readAvailable
  split <;> simp

theorem pollLinger_sdStep (c : Cfg) (i : In) (s : St) : SdStep c i s (pollLinger c i s).1 := by
  unfold pollLinger
  have he := ensureSdTimer_sdStep c i s
  have hf := flush_fields i (ensureSdTimer c i s).1
  have hr := readAvailable_fields (flush i (ensureSdTimer c i s).1).1
  simp only
  split
  · exact SdStep.trans he (SdStep.of_eq rfl)
  · split
    · exact SdStep.trans he (SdStep.of_eq hf.2.2.2.2.1)
    · split
      · refine SdStep.trans he (SdStep.of_eq ?_); simp; rw [hr.1, hf.2.2.2.2.1]
      · refine SdStep.trans he (SdStep.of_eq ?_); simp; rw [hr.1, hf.2.2.2.2.1]

theorem pollShutdown_sdStep (c : Cfg) (i : In) (s : St) (o : List Out) : SdStep c i s (pollShutdown c i s o).s := by
  unfold pollShutdown
  have he := ensureSdTimer_sdStep c i s
  have hf := flush_fields i (ensureSdTimer c i s).1
  simp only
  split
  · exact SdStep.of_eq rfl
  · split
    · exact SdStep.trans he (SdStep.of_eq hf.2.2.2.2.1)
    · split
      · refine SdStep.trans he (SdStep.of_eq ?_); simp; rw [hf.2.2.2.2.1]
      · exact SdStep.trans he (SdStep.of_eq hf.2.2.2.2.1)

theorem kaCancel_fields (s : St) :
    (kaCancel s).sdTimer = s.sdTimer ∧ (kaCancel s).linger = s.linger ∧ (kaCancel s).shutdown = s.shutdown ∧
    (kaCancel s).complete = s.complete ∧ (kaCancel s).headTimer = s.headTimer ∧ (kaCancel s).draining = s.draining ∧
    (kaCancel s).st = s.st := by
  unfold kaCancel; split <;> simp

theorem startTimer_fields (c : Cfg) (i : In) (s : St) :
    (startTimer c i s).sdTimer = s.sdTimer ∧ (startTimer c i s).linger = s.linger ∧
    (startTimer c i s).shutdown = s.shutdown ∧ (startTimer c i s).complete = s.complete ∧
    (startTimer c i s).kaTimer = s.kaTimer ∧ (startTimer c i s).draining = s.draining ∧
    (startTimer c i s).st = s.st := by
  unfold startTimer; split <;> (try split) <;> simp

theorem armKa_fields (c : Cfg) (i : In) (s : St) :
    (armKa c i s).sdTimer = s.sdTimer ∧ (armKa c i s).linger = s.linger ∧ (armKa c i s).shutdown = s.shutdown ∧
    (armKa c i s).complete = s.complete ∧ (armKa c i s).headTimer = s.headTimer ∧
    (armKa c i s).draining = s.draining ∧ (armKa c i s).st = s.st ∧ (armKa c i s).writeBuf = s.writeBuf := by
  unfold armKa; split <;> (try split) <;> simp

/-- `normalTail` only sets `complete`, `shutdown`, clears `error` / `finished` -/
theorem normalTail_sat (c : Cfg) (s : St) (o : List Out) (P : St → Prop) (h0 : P s)
    (h1 : ∀ s, P s → P { s with complete := true })
    (h2 : ∀ s, P s → P { s with shutdown := true })
    (h3 : ∀ s, P s → P { s with error := none, complete := true })
    (h4 : ∀ s, P s → P { s with finished := false, shutdown := true }) :
    (normalTail c s o).sat P := by
  unfold normalTail
  split
  · exact h1 s h0
  · have hs2 : P (if s.readDisc && (!c.halfClosed || s.st == .none) then { s with shutdown := true } else s) := by
      split
      · exact h2 s h0
      · exact h0
    simp only
    generalize (if s.readDisc && (!c.halfClosed || s.st == .none) then { s with shutdown := true } else s) = s2 at hs2
    split
    · split
      · exact h3 s2 hs2
      · split
        · exact h4 s2 hs2
        · split
          · exact hs2
          · exact hs2
    · exact hs2

theorem normalTail_sdTimer (c : Cfg) (s : St) (o : List Out) :
    (normalTail c s o).sat (fun s' => s'.sdTimer = s.sdTimer) :=
  normalTail_sat c s o _ rfl (fun _ h => h) (fun _ h => h) (fun _ h => h) (fun _ h => h)

theorem Step.sat_mono {P Q : St → Prop} (h : ∀ s, P s → Q s) : ∀ st : Step, st.sat P → st.sat Q
  | .ret r, hp => h r.s hp
  | .again s _, hp => h s hp

theorem pollNormal_sdTimer (c : Cfg) (i : In) (s : St) (o : List Out) :
    (pollNormal c i s o).sat (fun s' => s'.sdTimer = s.sdTimer) := by
  unfold pollNormal
  simp only
  refine Step.sat_mono ?_ _ (normalTail_sdTimer c _ _)
  intro s' hs'
  rw [hs', (flush_fields i _).2.2.2.2.1, (armKa_fields c i _).1, (normalMid_frame c i _ _).sdTimer,
    (startTimer_fields c i _).1, (kaCancel_fields _).1, (readAvailable_fields s).1]

theorem pollOnce_sdStep (c : Cfg) (i : In) (s : St) (o : List Out) :
    (pollOnce c i s o).sat (SdStep c i s) := by
  unfold pollOnce pollModes
  have h0 : SdStep c i s (pollHeadTimer c i (pollGraceful i s)) := by
    apply SdStep.of_eq
    unfold pollHeadTimer
    split
    · simp; rw [(sendResponse_frame c _ 0 408 .empty).sdTimer]; unfold pollGraceful; split <;> simp
    · unfold pollGraceful; split <;> simp
  simp only
  split
  · exact SdStep.trans h0 (SdStep.of_eq rfl)
  · rename_i s2 he
    have h2 := SdStep.trans h0 (pollKaTimer_sdStep c i _ s2 he)
    split
    · exact SdStep.trans h2 (SdStep.of_eq rfl)
    · exact SdStep.trans h2 (SdStep.of_eq rfl)
    · rename_i s3 he3
      have h3 := SdStep.trans h2 (pollSdTimer_sdStep c i s2 s3 he3)
      split
      · exact SdStep.trans h3 (pollLinger_sdStep c i s3)
      · split
        · exact SdStep.trans h3 (pollShutdown_sdStep c i s3 o)
        · exact Step.sat_mono (fun s' hs' => SdStep.trans h3 (SdStep.of_eq hs')) _ (pollNormal_sdTimer c i s3 o)

theorem poll_sdStep (c : Cfg) (s : St) (i : In) : SdStep c i s (poll c s i).s := by
  unfold poll
  split
  · exact SdStep.of_eq rfl
  · have hd : SdStep c i s (deliver i s) := SdStep.of_eq (by simp [deliver])
    have h1 := pollOnce_sdStep c i (deliver i s) []
    split
    · rename_i r he; rw [he] at h1; exact SdStep.trans hd h1
    · rename_i s2 o2 he
      rw [he] at h1
      have h2 := pollOnce_sdStep c i s2 o2
      split
      · rename_i r he2; rw [he2] at h2; exact SdStep.trans hd (SdStep.trans h1 h2)
      · rename_i s3 o3 he3; rw [he3] at h2; exact SdStep.trans hd (SdStep.trans h1 h2)

/-! ### whenever a poll leaves the connection waiting in SHUTDOWN / LINGER, the timer runs -/

/-- a poll result that leaves the connection in SHUTDOWN or LINGER without having asked to be
polled again has the shutdown timer running -/
def Armed (r : Res) : Prop :=
  r.s.complete = false → (r.s.shutdown = true ∨ r.s.linger = true) → r.selfWake = false →
    r.s.sdTimer.isActive = true

def Step.satR (P : Res → Prop) : Step → Prop
  | .ret r => P r
  | .again _ _ => True

theorem pollLinger_armed (c : Cfg) (i : In) (s : St) (o : List Out) (hD : c.D ≠ 0) :
    Armed { s := (pollLinger c i s).1, outs := o ++ (pollLinger c i s).2.1, selfWake := (pollLinger c i s).2.2 } := by
  unfold Armed pollLinger
  have he := ensureSdTimer_active c i s hD
  have hf := flush_fields i (ensureSdTimer c i s).1
  have hr := readAvailable_fields (flush i (ensureSdTimer c i s).1).1
  simp only [he.2]
  simp
  split
  · intro _ _ _; rw [hf.2.2.2.2.1]; exact he.1
  · split
    · simp
    · simp; intro _ _; rw [hr.1, hf.2.2.2.2.1]; exact he.1

theorem pollShutdown_armed (c : Cfg) (i : In) (s : St) (o : List Out) (hD : c.D ≠ 0) :
    Armed (pollShutdown c i s o) := by
  unfold Armed pollShutdown
  have he := ensureSdTimer_active c i s hD
  have hf := flush_fields i (ensureSdTimer c i s).1
  simp only
  split
  · simp
  · split
    · intro _ _ _; simp; rw [hf.2.2.2.2.1]; exact he.1
    · split
      · simp
      · intro _ _ _; simp; rw [hf.2.2.2.2.1]; exact he.1

theorem normalTail_armed (c : Cfg) (s : St) (o : List Out) : (normalTail c s o).satR Armed := by
  unfold normalTail
  simp only
  split
  · unfold Step.satR Armed; simp
  · generalize (if s.readDisc && (!c.halfClosed || s.st == .none) then { s with shutdown := true } else s) = s2
    split
    · split
      · unfold Step.satR Armed; simp
      · split
        · trivial
        · split
          · trivial
          · unfold Step.satR Armed; simp; intro _ h; rcases h with h | h <;> simp [h]
    · unfold Step.satR Armed; simp; intro _ h; rcases h with h | h <;> simp [h]

theorem pollOnce_armed (c : Cfg) (i : In) (s : St) (o : List Out) (hD : c.D ≠ 0) :
    (pollOnce c i s o).satR Armed := by
  unfold pollOnce pollModes
  simp only
  split
  · unfold Step.satR Armed; simp
  · split
    · unfold Step.satR Armed; simp
    · unfold Step.satR Armed; simp
    · split
      · exact pollLinger_armed c i _ o hD
      · split
        · exact pollShutdown_armed c i _ o hD
        · unfold pollNormal; exact normalTail_armed c _ _

/-- **with a disconnect timeout configured, a connection never waits in SHUTDOWN / LINGER without
the shutdown timer running** (unless the poll asked to be polled again at once) -/
theorem poll_armed (c : Cfg) (s : St) (i : In) (hD : c.D ≠ 0) (hc : s.complete = false) : Armed (poll c s i) := by
  unfold poll
  simp [hc]
  have h1 := pollOnce_armed c i (deliver i s) [] hD
  split
  · rename_i r he
    rw [he] at h1
    unfold Step.satR at h1
    unfold Armed at *
    simp
    intro a b c' _; exact h1 a b c'
  · rename_i s2 o2 he
    have h2 := pollOnce_armed c i s2 o2 hD
    split
    · rename_i r he2
      rw [he2] at h2
      unfold Step.satR at h2
      unfold Armed at *
      simp
      intro a b c' _; exact h2 a b c'
    · unfold Armed; simp

end ActixModel.DispTimers
