import ActixModel.Proofs.DispTimersB
/-
C06 helper lemmas, part C: LINGER with a running timer; timed reachability.
-/
namespace ActixModel.DispTimers

/-- waiting in LINGER with the shutdown timer running until `d` -/
def Lingering (s : St) (d : Nat) : Prop :=
  s.linger = true ∧ s.sdTimer = .active d ∧ s.complete = false

theorem deliver_lingering (i : In) (s : St) (d : Nat) (h : Lingering s d) : Lingering (deliver i s) d := by
  unfold Lingering deliver at *; simpa using h

theorem pollGraceful_lingering (i : In) (s : St) (d : Nat) (h : Lingering s d) : Lingering (pollGraceful i s) d := by
  unfold Lingering pollGraceful at *
  split <;> simpa using h

theorem pollHeadTimer_lingering (c : Cfg) (i : In) (s : St) (d : Nat) (hi : Inv c s) (h : Lingering s d) :
    Lingering (pollHeadTimer c i s) d := by
  unfold pollHeadTimer
  split
  · rename_i hf
    have hact : s.headTimer.isActive = true := by
      cases ht : s.headTimer <;> simp_all [Timer.fired, Timer.isActive]
    have hp := (hi.core.hd hact).2.1
    have hfr := sendResponse_frame c s 0 408 .empty
    have hf2 := sendResponse_empty_fields c s 0 408 hp
    simp only at hf2
    obtain ⟨f1, f2, f3, f4, f5, f6, f7⟩ := hf2
    unfold Lingering at *
    simp
    rw [f2, hfr.sdTimer, hfr.complete]
    exact h
  · exact h

theorem pollKaTimer_lingering (c : Cfg) (i : In) (s s' : St) (d : Nat) (h : Lingering s d)
    (he : pollKaTimer c i s = some s') : Lingering s' d := by
  unfold pollKaTimer at he
  split at he
  · split at he
    · simp at he
    · split at he
      · simp at he; rw [← he]
        unfold kaExpire Lingering at *
        simp only
        split
        · simp [h.2.1, Timer.isActive]; exact ⟨h.1, h.2.2⟩
        · simp; exact h
      · simp at he; rw [← he]; exact h
  · simp at he; rw [← he]; exact h

theorem pollLinger_lingering (c : Cfg) (i : In) (s : St) (d : Nat) (h : Lingering s d) :
    Lingering (pollLinger c i s).1 d ∨ Closing (pollLinger c i s).1 d := by
  unfold pollLinger
  have he : ensureSdTimer c i s = (s, true) := by
    unfold ensureSdTimer; simp [h.2.1, Timer.isActive]
  have hf := flush_fields i s
  have hr := readAvailable_fields (flush i s).1
  simp only [he]
  simp
  split
  · left; unfold Lingering; rw [hf.1, hf.2.2.2.2.1, hf.2.2.2.1]; exact h
  · split
    · right; unfold Closing; simp; rw [hr.1, hr.2.2.2.1, hf.2.2.2.2.1, hf.2.2.2.1]; exact ⟨h.2.1, h.2.2⟩
    · left; unfold Lingering; simp; rw [hr.1, hr.2.1, hr.2.2.2.1, hf.1, hf.2.2.2.2.1, hf.2.2.2.1]; exact h

theorem pollShutdown_fresh (c : Cfg) (i : In) (s : St) (o : List Out) (hD : c.D ≠ 0)
    (hs : s.shutdown = true) (hl : s.linger = false) (ht : s.sdTimer = .inactive) (hc : s.complete = false) :
    (pollShutdown c i s o).s.complete = true ∨ Closing (pollShutdown c i s o).s (i.cached + c.D) := by
  unfold pollShutdown
  have he : (ensureSdTimer c i s).1 = armSd s (i.cached + c.D) i.now := by
    unfold ensureSdTimer Cfg.disconnectDeadline; simp [ht, Timer.isActive, hD]
  have hff := flush_fields i (armSd s (i.cached + c.D) i.now)
  simp only [he]
  split
  · left; rfl
  · split
    · right; unfold Closing; rw [hff.1, hff.2.1, hff.2.2.2.2.1, hff.2.2.2.1]; simp [armSd, hs, hl, hc]
    · split
      · left; rfl
      · right; unfold Closing; rw [hff.1, hff.2.1, hff.2.2.2.2.1, hff.2.2.2.1]; simp [armSd, hs, hl, hc]

theorem pollOnce_lingering (c : Cfg) (i : In) (s : St) (o : List Out) (d : Nat) (hD : c.D ≠ 0)
    (hi : Inv c s) (h : Lingering s d) :
    ∃ r, pollOnce c i s o = .ret r ∧
      (i.now < d → Lingering r.s d ∨ Closing r.s d) ∧
      (d ≤ i.now → r.s.complete = true ∨ Closing r.s (i.cached + c.D)) := by
  unfold pollOnce pollModes
  have h1 := pollHeadTimer_lingering c i _ d (pollGraceful_inv c i s hi) (pollGraceful_lingering i s d h)
  simp only
  split
  · rename_i he
    exact absurd he (pollKaTimer_ne_none c i _ (pollHeadTimer_inv c i _ (pollGraceful_inv c i s hi)))
  · rename_i s2 he
    have h2 := pollKaTimer_lingering c i _ s2 d h1 he
    by_cases hd : d ≤ i.now
    · have e : pollSdTimer i s2 = .cont { s2 with linger := false, shutdown := true, sdTimer := .inactive } := by
        unfold pollSdTimer; simp [h2.2.1, h2.1, hd]
      rw [e]
      simp
      refine ⟨fun hh => absurd hh (by omega), fun _ => ?_⟩
      exact pollShutdown_fresh c i _ o hD rfl rfl rfl h2.2.2
    · have hd' : i.now < d := by omega
      have e : pollSdTimer i s2 = .cont s2 := by
        unfold pollSdTimer; simp [h2.2.1, h2.1]; omega
      rw [e]
      simp [h2.1]
      exact ⟨fun _ => pollLinger_lingering c i s2 d h2, fun hh => absurd hh hd⟩

theorem poll_lingering (c : Cfg) (s : St) (i : In) (d : Nat) (hD : c.D ≠ 0) (hi : Inv c s) (h : Lingering s d) :
    (i.now < d → Lingering (poll c s i).s d ∨ Closing (poll c s i).s d) ∧
    (d ≤ i.now → (poll c s i).s.complete = true ∨ Closing (poll c s i).s (i.cached + c.D)) := by
  unfold poll
  simp [h.2.2]
  obtain ⟨r, he, hr⟩ := pollOnce_lingering c i (deliver i s) [] d hD (deliver_inv c i s hi) (deliver_lingering i s d h)
  rw [he]
  exact hr

theorem run_complete (c : Cfg) : ∀ (js : List In) (s : St), s.complete = true → (run c s js).1.complete = true := by
  intro js
  induction js with
  | nil => intro s h; simpa [run] using h
  | cons j js ih =>
    intro s h
    unfold run; simp only
    rw [poll_complete c s j h]
    exact ih s h

/-- events in non-decreasing order of the runtime clock, starting at `t` -/
def Mono : Nat → List In → Prop
  | _, [] => True
  | t, i :: is => t ≤ i.now ∧ Mono i.now is

/-- **LINGER is over at the first poll at or after its deadline, and the connection is complete
one disconnect timeout after that poll**: if some poll `j` happens at or after the linger
deadline `d` and a later poll happens at or after `j.now + D`, the connection is complete. -/
theorem run_lingering (c : Cfg) (d : Nat) (hD : c.D ≠ 0) : ∀ (pre : List In) (s : St) (t : Nat) (j : In) (post : List In),
    Inv c s → (s.complete = true ∨ Lingering s d ∨ (∃ d', Closing s d' ∧ d' ≤ j.now + c.D)) →
    Mono t (pre ++ j :: post) → (∀ x ∈ pre ++ [j], x.cached ≤ x.now) →
    d ≤ j.now → (∃ k ∈ post, j.now + c.D ≤ k.now) →
    (run c s (pre ++ j :: post)).1.complete = true := by
  intro pre
  induction pre with
  | nil =>
    intro s t j post hi hs hm hcl hdj hk
    simp only [List.nil_append]
    rcases hs with hc | hl | ⟨d', hcl', hd'⟩
    · exact run_complete c _ s hc
    · unfold run; simp only
      have hp := (poll_lingering c s j d hD hi hl).2 hdj
      have hi' := poll_inv c s j hi
      rcases hp with hc | hc
      · exact run_complete c _ _ hc
      · apply run_closing c (j.cached + c.D) post _ hi' (Or.inr hc)
        obtain ⟨k, hk1, hk2⟩ := hk
        have := hcl j (by simp)
        exact ⟨k, hk1, by omega⟩
    · apply run_closing c d' (j :: post) s hi (Or.inr hcl')
      obtain ⟨k, hk1, hk2⟩ := hk
      exact ⟨k, by simp [hk1], by omega⟩
  | cons x pre ih =>
    intro s t j post hi hs hm hcl hdj hk
    simp only [List.cons_append]
    unfold run; simp only
    have hi' := poll_inv c s x hi
    have hm' : Mono x.now (pre ++ j :: post) := by
      simp only [List.cons_append, Mono] at hm; exact hm.2
    have hxj : x.now ≤ j.now := by
      have : ∀ (l : List In) (t : Nat), Mono t (l ++ j :: post) → t ≤ j.now := by
        intro l
        induction l with
        | nil => intro t h; simp [Mono] at h; exact h.1
        | cons y l ihl => intro t h; simp [Mono] at h; have := ihl y.now h.2; omega
      exact this pre x.now hm'
    apply ih (poll c s x).s x.now j post hi' _ hm' (fun y hy => hcl y (by simp at hy ⊢; rcases hy with h | h; exact Or.inr (Or.inl h); exact Or.inr (Or.inr h))) hdj hk
    rcases hs with hc | hl | ⟨d', hcl', hd'⟩
    · left; rw [poll_complete c s x hc]; exact hc
    · by_cases hx : d ≤ x.now
      · rcases (poll_lingering c s x d hD hi hl).2 hx with hc | hc
        · exact Or.inl hc
        · right; right
          refine ⟨_, hc, ?_⟩
          have := hcl x (by simp)
          omega
      · rcases (poll_lingering c s x d hD hi hl).1 (by omega) with hc | hc
        · exact Or.inr (Or.inl hc)
        · right; right; exact ⟨d, hc, by omega⟩
    · rcases (poll_closing c s x d' hi hcl').1 with hc | ⟨_, hc⟩
      · exact Or.inl hc
      · right; right; exact ⟨d', hc, hd'⟩

end ActixModel.DispTimers
