import ActixModel.Proofs.DispTimersC
/-
C06 helper lemmas, part D: graceful shutdown (DRAINING).
-/
namespace ActixModel.DispTimers

def IsCall : Out → Prop
  | .call _ _ => True
  | _ => False

/-- no handler was started -/
def NoCall (o : List Out) : Prop := ∀ x ∈ o, ¬ IsCall x

theorem NoCall.nil : NoCall [] := by intro x hx; simp at hx

theorem NoCall.append {a b : List Out} (ha : NoCall a) (hb : NoCall b) : NoCall (a ++ b) := by
  intro x hx
  rcases List.mem_append.mp hx with h | h
  · exact ha x h
  · exact hb x h

theorem IsWire.notCall {x : Out} (h : IsWire x) : ¬ IsCall x := by
  cases x <;> simp_all [IsWire, IsCall]

theorem flush_outs (i : In) (s : St) : ∀ x ∈ (flush i s).2.1, x ∈ s.writeBuf := by
  unfold flush
  split
  · simp
  · split <;> simp

theorem flush_nocall (c : Cfg) (i : In) (s : St) (h : Inv c s) : NoCall (flush i s).2.1 :=
  fun x hx => (h.core.wb x (flush_outs i s x hx)).notCall

/-! #### while a request is in flight the decode loop only queues -/

theorem onItem_busy (c : Cfg) (i : In) (s : St) (kind : ReqKind) (h : s.st ≠ .none) :
    (onItem c i s kind).1.st = s.st ∧ (onItem c i s kind).2 = [] ∧ (onItem c i s kind).1.writeBuf = s.writeBuf := by
  unfold onItem
  split
  · rename_i hst; exact absurd hst h
  · simp [itemState]

theorem decodeStep_busy (c : Cfg) (i : In) (st0 : DState) (w0 : List Out) (hne : st0 ≠ .none) :
    StepPres (fun s o => s.st = st0 ∧ s.writeBuf = w0 ∧ NoCall o) (decodeStep c i) := by
  intro s o ⟨hst, hw, ho⟩
  have hne' : s.st ≠ .none := by rw [hst]; exact hne
  unfold decodeStep
  split
  · split
    · split
      · exact ⟨hst, hw, by simpa using ho⟩
      · exact ⟨hst, hw, by simpa using ho⟩
    · exact ⟨hst, hw, by simpa using ho⟩
  · split
    all_goals first
      | (obtain ⟨h1, h2, h3⟩ := onItem_busy c i { s with readBuf := _ } _ (by simpa using hne')
         refine ⟨by rw [h1]; exact hst, by rw [h3]; exact hw, ?_⟩
         rw [h2]; simpa using ho)
      | exact ⟨hst, hw, by simpa using ho⟩

theorem pollRequest_busy (c : Cfg) (i : In) (s : St) (hne : s.st ≠ .none) :
    (pollRequest c i s).1.st = s.st ∧ (pollRequest c i s).1.writeBuf = s.writeBuf ∧ NoCall (pollRequest c i s).2.2 :=
  pollRequest_inv c i _ (decodeStep_busy c i s.st s.writeBuf hne) s ⟨rfl, rfl, NoCall.nil⟩

theorem pollRequest_draining_nocall (c : Cfg) (i : In) (s : St) (hd : s.draining = true) :
    NoCall (pollRequest c i s).2.2 := by
  by_cases hst : s.st = .none
  · unfold pollRequest; simp [hd, hst]; exact NoCall.nil
  · exact (pollRequest_busy c i s hst).2.2

theorem respStep_draining (c : Cfg) (i : In) :
    StepPres (fun s o => s.draining = true ∧ NoCall o) (respStep c i) := by
  intro s o ⟨hd, ho⟩
  unfold respStep
  split
  · simp [hd]
    exact ⟨by simp [clearMessages, hd], by simpa using ho⟩
  · split
    · refine ⟨?_, by simpa using ho⟩
      rw [(handlerResp_frame c i _ _ _).draining, (dropReceiver_frame s _).draining]; exact hd
    · show Iter.sat _ o (if (pollRequest c i s).2.1 = true then _ else _)
      have h1 := (pollRequest_frame c i s).draining
      have h2 := pollRequest_draining_nocall c i s hd
      split
      · exact ⟨by rw [h1]; exact hd, ho.append h2⟩
      · exact ⟨by rw [h1]; exact hd, ho.append h2⟩
  · split
    · exact ⟨hd, by simpa using ho⟩
    · split
      · exact ⟨by rw [(finishBody_frame c s).draining]; exact hd, by simpa using ho⟩
      · exact ⟨hd, by simpa using ho⟩
    · exact ⟨by rw [(finishBody_frame c s).draining]; exact hd, by simpa using ho⟩

theorem normalMid_draining_nocall (c : Cfg) (i : In) (disc : Bool) (s : St) (hd : s.draining = true) :
    NoCall (normalMid c i disc s).2 := by
  unfold normalMid
  simp only
  apply NoCall.append (pollRequest_draining_nocall c i s hd)
  have hd2 : (applyDisc disc (pollRequest c i s).1).draining = true := by
    rw [(applyDisc_frame disc _).draining, (pollRequest_frame c i s).draining]; exact hd
  exact (pollResponse_inv c i _ (respStep_draining c i) _ _ [] ⟨hd2, NoCall.nil⟩).2

/-- outputs of a `Step` -/
def Step.outs : Step → List Out
  | .ret r => r.outs
  | .again _ o => o

theorem normalTail_outs_nocall (c : Cfg) (s : St) (o : List Out) (ho : NoCall o) : NoCall (normalTail c s o).outs := by
  have hdone : ∀ k, NoCall [Out.done k] := by intro k x hx; simp at hx; subst hx; simp [IsCall]
  unfold normalTail
  simp only
  split
  · exact ho.append (hdone _)
  · generalize (if s.readDisc && (!c.halfClosed || s.st == .none) then { s with shutdown := true } else s) = s2
    split
    · split
      · exact ho.append (hdone _)
      · split
        · exact ho
        · split <;> exact ho
    · exact ho

theorem pollNormal_nocall (c : Cfg) (i : In) (s : St) (o : List Out) (hi : Inv c s) (hd : s.draining = true)
    (ho : NoCall o) : NoCall (pollNormal c i s o).outs := by
  unfold pollNormal
  simp only
  apply normalTail_outs_nocall
  have hd1 : (startTimer c i (kaCancel (readAvailable s).1)).draining = true := by
    rw [(startTimer_fields c i _).2.2.2.2.2.1, (kaCancel_fields _).2.2.2.2.2.1, (readAvailable_fields s).2.2.2.2.2.2.1]
    exact hd
  apply NoCall.append (ho.append (normalMid_draining_nocall c i _ _ hd1))
  apply flush_nocall c
  apply armKa_inv
  have hr := readAvailable_inv c s hi
  have hk := kaCancel_inv c _ hr
  have hs := startTimer_inv c i _ hk.1
  exact normalMid_inv c i (readAvailable s).2 _ hs.1 (by rw [hs.2.2.1, hs.2.2.2]; exact hk.2) hs.2.1

theorem pollLinger_outs (c : Cfg) (i : In) (s : St) (hi : Inv c s) (hl : s.linger = true) :
    NoCall (pollLinger c i s).2.1 := by
  unfold pollLinger
  have he := ensureSdTimer_inv c i s hi (Or.inl hl)
  simp only
  split
  · exact NoCall.nil
  · split
    · exact flush_nocall c i _ he
    · split <;> exact flush_nocall c i _ he

theorem pollShutdown_outs (c : Cfg) (i : In) (s : St) (o : List Out) (hi : Inv c s) (hs : s.shutdown = true)
    (ho : NoCall o) : NoCall (pollShutdown c i s o).outs := by
  have hx : NoCall [Out.shut true, Out.done .ok] := by
    intro x hx; simp at hx; rcases hx with rfl | rfl <;> simp [IsCall]
  have hy : NoCall [Out.shut false] := by intro x hx; simp at hx; subst hx; simp [IsCall]
  have hz : NoCall [Out.done .ok] := by intro x hx; simp at hx; subst hx; simp [IsCall]
  unfold pollShutdown
  have he := ensureSdTimer_inv c i s hi (Or.inr hs)
  have hf := flush_nocall c i _ he
  simp only
  split
  · exact ho.append hz
  · split
    · exact ho.append hf
    · split
      · exact (ho.append hf).append hx
      · exact (ho.append hf).append hy

theorem pollKaTimer_draining (c : Cfg) (i : In) (s s' : St) (he : pollKaTimer c i s = some s') :
    s'.draining = s.draining := by
  unfold pollKaTimer at he
  split at he
  · split at he
    · simp at he
    · split at he
      · simp at he; rw [← he]; unfold kaExpire armSd; simp only; split <;> (try split) <;> rfl
      · simp at he; rw [← he]
  · simp at he; rw [← he]

theorem pollSdTimer_draining (i : In) (s s' : St) (he : pollSdTimer i s = .cont s') : s'.draining = s.draining := by
  unfold pollSdTimer at he
  split at he
  · split at he
    · simp at he
    · split at he
      · split at he
        · simp at he; rw [← he]
        · simp at he
      · simp at he; rw [← he]
  · simp at he; rw [← he]

/-- one pass: if DRAINING is set after `poll_graceful_shutdown`, no handler is started -/
theorem pollOnce_nocall (c : Cfg) (i : In) (s : St) (o : List Out) (hi : Inv c s)
    (hd : (pollGraceful i s).draining = true) (ho : NoCall o) : NoCall (pollOnce c i s o).outs := by
  have hp : ∀ n, NoCall [Out.panic n] := by intro n x hx; simp at hx; subst hx; simp [IsCall]
  have hdn : ∀ k, NoCall [Out.done k] := by intro k x hx; simp at hx; subst hx; simp [IsCall]
  unfold pollOnce pollModes
  have i1 := pollHeadTimer_inv c i _ (pollGraceful_inv c i s hi)
  have d1 : (pollHeadTimer c i (pollGraceful i s)).draining = true := by
    unfold pollHeadTimer
    split
    · simp; rw [(sendResponse_frame c _ _ _ _).draining]; exact hd
    · exact hd
  simp only
  split
  · exact ho.append (hp 1)
  · rename_i s2 he
    have i2 := pollKaTimer_inv c i _ s2 i1 he
    have d2 : s2.draining = true := by rw [pollKaTimer_draining c i _ s2 he]; exact d1
    split
    · exact ho.append (hp 2)
    · exact ho.append (hdn _)
    · rename_i s3 he3
      have i3 := pollSdTimer_inv c i s2 s3 i2 he3
      have d3 : s3.draining = true := by rw [pollSdTimer_draining i s2 s3 he3]; exact d2
      split
      · rename_i hl; exact ho.append (pollLinger_outs c i s3 i3 hl)
      · split
        · rename_i hs; exact pollShutdown_outs c i s3 o i3 hs ho
        · exact pollNormal_nocall c i s3 o i3 d3 ho

theorem pollGraceful_draining_mono (i : In) (s : St) (h : s.draining = true) : (pollGraceful i s).draining = true := by
  unfold pollGraceful; split <;> simp [h]

/-- DRAINING is never reset by a pass through `poll` -/
theorem pollOnce_draining (c : Cfg) (i : In) (s : St) (o : List Out) (hd : (pollGraceful i s).draining = true) :
    (pollOnce c i s o).sat (fun s' => s'.draining = true) := by
  unfold pollOnce pollModes
  have d1 : (pollHeadTimer c i (pollGraceful i s)).draining = true := by
    unfold pollHeadTimer
    split
    · simp; rw [(sendResponse_frame c _ _ _ _).draining]; exact hd
    · exact hd
  simp only
  split
  · exact d1
  · rename_i s2 he
    have d2 : s2.draining = true := by rw [pollKaTimer_draining c i _ s2 he]; exact d1
    split
    · exact d2
    · exact d2
    · rename_i s3 he3
      have d3 : s3.draining = true := by rw [pollSdTimer_draining i s2 s3 he3]; exact d2
      split
      · show (pollLinger c i s3).1.draining = true
        unfold pollLinger
        have e1 : (ensureSdTimer c i s3).1.draining = true := by
          unfold ensureSdTimer armSd; split <;> (try split) <;> exact d3
        have e2 : (flush i (ensureSdTimer c i s3).1).1.draining = true := by
          unfold flush; split <;> (try split) <;> exact e1
        have e3 : (readAvailable (flush i (ensureSdTimer c i s3).1).1).1.draining = true := by
          rw [(readAvailable_fields _).2.2.2.2.2.2.1]; exact e2
        simp only
        split
        · exact e1
        · split
          · exact e2
          · split <;> exact e3
      · split
        · show (pollShutdown c i s3 o).s.draining = true
          unfold pollShutdown
          have e1 : (ensureSdTimer c i s3).1.draining = true := by
            unfold ensureSdTimer armSd; split <;> (try split) <;> exact d3
          have e2 : (flush i (ensureSdTimer c i s3).1).1.draining = true := by
            unfold flush; split <;> (try split) <;> exact e1
          simp only
          split
          · exact d3
          · split
            · exact e2
            · split <;> exact e2
        · unfold pollNormal
          simp only
          apply normalTail_sat c _ _ (fun s' => s'.draining = true) _ (fun _ h => h) (fun _ h => h) (fun _ h => h) (fun _ h => h)
          have : (flush i (armKa c i (normalMid c i (readAvailable s3).2 (startTimer c i (kaCancel (readAvailable s3).1))).1)).1.draining
              = (armKa c i (normalMid c i (readAvailable s3).2 (startTimer c i (kaCancel (readAvailable s3).1))).1).draining := by
            unfold flush; split <;> (try split) <;> rfl
          rw [this, (armKa_fields c i _).2.2.2.2.2.1, (normalMid_frame c i _ _).draining,
            (startTimer_fields c i _).2.2.2.2.2.1, (kaCancel_fields _).2.2.2.2.2.1, (readAvailable_fields s3).2.2.2.2.2.2.1]
          exact d3

/-- **after the signal no request is started**: in a poll where the graceful-shutdown future is
ready, or any later poll, the outputs contain no handler call; and DRAINING stays set -/
theorem poll_draining (c : Cfg) (s : St) (i : In) (hi : Inv c s)
    (hd : s.draining = true ∨ (s.graceful = true ∧ i.sig = true)) :
    NoCall (poll c s i).outs ∧ ((poll c s i).s.complete = true ∨ (poll c s i).s.draining = true) := by
  unfold poll
  split
  · rename_i hc; exact ⟨NoCall.nil, Or.inl hc⟩
  · have hd0 : (pollGraceful i (deliver i s)).draining = true := by
      unfold pollGraceful deliver
      rcases hd with h | ⟨h1, h2⟩
      · split <;> simp [h]
      · simp [h1, h2]
    have i0 := deliver_inv c i s hi
    have n1 := pollOnce_nocall c i _ [] i0 hd0 NoCall.nil
    have d1 := pollOnce_draining c i (deliver i s) [] hd0
    have i1 := pollOnce_inv c i _ [] i0
    split
    · rename_i r he
      rw [he] at n1 d1
      exact ⟨n1, Or.inr d1⟩
    · rename_i s2 o2 he
      rw [he] at n1 d1 i1
      have hd2 := pollGraceful_draining_mono i s2 d1
      have n2 := pollOnce_nocall c i s2 o2 i1 hd2 n1
      have d2 := pollOnce_draining c i s2 o2 hd2
      split
      · rename_i r he2; rw [he2] at n2 d2; exact ⟨n2, Or.inr d2⟩
      · rename_i s3 o3 he3; rw [he3] at n2 d2; exact ⟨n2, Or.inr d2⟩

end ActixModel.DispTimers
