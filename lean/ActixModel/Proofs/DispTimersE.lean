import ActixModel.Proofs.DispTimersD
/-
C06 helper lemmas, part E: timer expiry forces SHUTDOWN; SHUTDOWN is never left.
-/
namespace ActixModel.DispTimers

theorem ensureSdTimer_shutdown (c : Cfg) (i : In) (s : St) : (ensureSdTimer c i s).1.shutdown = s.shutdown :=
  (ensureSdTimer_fields c i s).2.1

theorem pollLinger_shutdown (c : Cfg) (i : In) (s : St) (h : s.shutdown = true) : (pollLinger c i s).1.shutdown = true := by
  unfold pollLinger
  have e1 := ensureSdTimer_shutdown c i s
  have e2 := (flush_fields i (ensureSdTimer c i s).1).2.1
  have e3 := (readAvailable_fields (flush i (ensureSdTimer c i s).1).1).2.2.1
  simp only
  split
  · rfl
  · split
    · rw [e2, e1]; exact h
    · split
      · rfl
      · simp; rw [e3, e2, e1]; exact h

theorem pollShutdown_shutdown (c : Cfg) (i : In) (s : St) (o : List Out) (h : s.shutdown = true) :
    (pollShutdown c i s o).s.shutdown = true := by
  unfold pollShutdown
  have e1 := ensureSdTimer_shutdown c i s
  have e2 := (flush_fields i (ensureSdTimer c i s).1).2.1
  simp only
  split
  · exact h
  · split
    · rw [e2, e1]; exact h
    · split
      · simp; rw [e2, e1]; exact h
      · rw [e2, e1]; exact h

/-- once SHUTDOWN is set, `poll_shutdown_timer` + mode selection keep it -/
theorem pollModes_shutdown (c : Cfg) (i : In) (s : St) (o : List Out) (h : s.shutdown = true) :
    (pollModes c i s o).sat (fun s' => s'.shutdown = true) := by
  unfold pollModes
  split
  · exact h
  · exact h
  · rename_i s3 he
    have h3 : s3.shutdown = true := by
      unfold pollSdTimer at he
      split at he
      · split at he
        · simp at he
        · split at he
          · split at he
            · simp at he; rw [← he]
            · simp at he
          · simp at he; rw [← he]; exact h
      · simp at he; rw [← he]; exact h
    split
    · exact pollLinger_shutdown c i s3 h3
    · first
        | exact pollShutdown_shutdown c i s3 o h3
        | (split
           · exact pollShutdown_shutdown c i s3 o h3
           · rename_i hn; exact absurd h3 hn)

theorem kaExpire_shutdown (c : Cfg) (i : In) (s : St) : (kaExpire c i s).shutdown = true := by
  unfold kaExpire armSd; simp only; split <;> (try split) <;> rfl

theorem pollKaTimer_shutdown (c : Cfg) (i : In) (s s' : St) (h : s.shutdown = true)
    (he : pollKaTimer c i s = some s') : s'.shutdown = true := by
  unfold pollKaTimer at he
  split at he
  · split at he
    · simp at he
    · split at he
      · simp at he; rw [← he]; exact kaExpire_shutdown c i s
      · simp at he; rw [← he]; exact h
  · simp at he; rw [← he]; exact h

theorem pollHeadTimer_shutdown (c : Cfg) (i : In) (s : St) (h : s.shutdown = true) :
    (pollHeadTimer c i s).shutdown = true := by
  unfold pollHeadTimer; split
  · rfl
  · exact h

theorem pollGraceful_fields (i : In) (s : St) :
    (pollGraceful i s).shutdown = s.shutdown ∧ (pollGraceful i s).linger = s.linger ∧
    (pollGraceful i s).st = s.st ∧ (pollGraceful i s).complete = s.complete ∧
    (pollGraceful i s).headTimer = s.headTimer ∧ (pollGraceful i s).sdTimer = s.sdTimer := by
  unfold pollGraceful; split <;> simp

/-- **SHUTDOWN is absorbing**: a pass through `poll` never clears it -/
theorem pollOnce_shutdown (c : Cfg) (i : In) (s : St) (o : List Out) (h : s.shutdown = true) :
    (pollOnce c i s o).sat (fun s' => s'.shutdown = true) := by
  unfold pollOnce
  have h1 : (pollHeadTimer c i (pollGraceful i s)).shutdown = true :=
    pollHeadTimer_shutdown c i _ (by rw [(pollGraceful_fields i s).1]; exact h)
  simp only
  split
  · exact h1
  · rename_i s2 he
    exact pollModes_shutdown c i s2 o (pollKaTimer_shutdown c i _ s2 h1 he)

/-- if the first pass ends with SHUTDOWN set (or asks for the nested poll from a SHUTDOWN state),
the whole poll ends with SHUTDOWN set -/
theorem poll_of_pollOnce_shutdown (c : Cfg) (s : St) (i : In) (hc : s.complete = false)
    (h : (pollOnce c i (deliver i s) []).sat (fun s' => s'.shutdown = true)) :
    (poll c s i).s.shutdown = true := by
  unfold poll
  simp [hc]
  split
  · rename_i r he; rw [he] at h; exact h
  · rename_i s2 o2 he
    rw [he] at h
    have h2 := pollOnce_shutdown c i s2 o2 h
    split
    · rename_i r he2; rw [he2] at h2; exact h2
    · rename_i s3 o3 he3; rw [he3] at h2; exact h2

/-- **keep-alive expiry**: a poll at or after the keep-alive deadline (no graceful signal in the
same poll) puts the connection into SHUTDOWN — whether or not bytes arrived in the same poll -/
theorem poll_ka_expiry (c : Cfg) (s : St) (i : In) (d : Nat) (hi : Inv c s) (hc : s.complete = false)
    (hk : s.kaTimer = .active d) (hd : d ≤ i.now) (hsig : ¬ (s.graceful = true ∧ i.sig = true)) :
    (poll c s i).s.shutdown = true := by
  apply poll_of_pollOnce_shutdown c s i hc
  unfold pollOnce
  have hg : pollGraceful i (deliver i s) = deliver i s := by
    unfold pollGraceful
    have : ¬ ((deliver i s).graceful = true ∧ i.sig = true) := by simpa [deliver] using hsig
    simp [this]
  have i0 := deliver_inv c i s hi
  have i1 := pollHeadTimer_inv c i _ i0
  have hk1 : (pollHeadTimer c i (deliver i s)).kaTimer = .active d := by
    unfold pollHeadTimer
    split
    · simp; rw [(sendResponse_frame c _ _ _ _).kaTimer]; simpa [deliver] using hk
    · simpa [deliver] using hk
  have hka := i1.kaT (by simp [hk1, Timer.isActive])
  have hst := (i1.core.ka hka).1
  have hexp : pollKaTimer c i (pollHeadTimer c i (deliver i s)) = some (kaExpire c i (pollHeadTimer c i (deliver i s))) := by
    unfold pollKaTimer
    simp [hk1, hka, hst, hd]
  simp only [hg, hexp]
  exact pollModes_shutdown c i _ [] (kaExpire_shutdown c i _)

/-- effect of `poll_head_timer` when the deadline has passed: a 408 response with
`connection: close` is queued, SHUTDOWN is set, the timer is cleared (fix 446aadc) -/
theorem pollHeadTimer_fires (c : Cfg) (i : In) (s : St) (d : Nat) (hi : Inv c s) (hd0 : s.draining = false)
    (hk : s.headTimer = .active d) (hd : d ≤ i.now) :
    ∃ cl, (pollHeadTimer c i s).writeBuf = s.writeBuf ++ [Out.head 408 cl, Out.bodyEnd] ∧
      (pollHeadTimer c i s).shutdown = true ∧ (pollHeadTimer c i s).headTimer = .inactive := by
  have hp := (hi.core.hd (by simp [hk, Timer.isActive])).2.1
  unfold pollHeadTimer
  simp [hk, Timer.fired, hd, sendResponse, closeForUnread, hp, hd0, finishResponse]

/-- **slow first head**: a poll at or after the request deadline puts the connection into SHUTDOWN
(after queueing the 408, see `pollHeadTimer_fires`) -/
theorem poll_head_expiry (c : Cfg) (s : St) (i : In) (d : Nat) (hc : s.complete = false)
    (hk : s.headTimer = .active d) (hd : d ≤ i.now) :
    (poll c s i).s.shutdown = true := by
  apply poll_of_pollOnce_shutdown c s i hc
  unfold pollOnce
  have h1 : (pollHeadTimer c i (pollGraceful i (deliver i s))).shutdown = true := by
    unfold pollHeadTimer
    have : (pollGraceful i (deliver i s)).headTimer = .active d := by
      rw [(pollGraceful_fields i _).2.2.2.2.1]; simpa [deliver] using hk
    simp [this, Timer.fired, hd]
  simp only
  split
  · exact h1
  · rename_i s2 he
    exact pollModes_shutdown c i s2 [] (pollKaTimer_shutdown c i _ s2 h1 he)

/-- the head timer never fires early: before its deadline `poll_head_timer` does nothing -/
theorem pollHeadTimer_waits (c : Cfg) (i : In) (s : St) (d : Nat) (hk : s.headTimer = .active d) (hd : i.now < d) :
    pollHeadTimer c i s = s := by
  unfold pollHeadTimer
  have : ¬ d ≤ i.now := by omega
  simp [hk, Timer.fired, this]

end ActixModel.DispTimers
