import ActixModel.Proofs.DispTimersE
/-
C06 helper lemmas, part F: deadlines of the head timer and the keep-alive timer are
`cached + timeout` of the poll that armed them.
-/
namespace ActixModel.DispTimers

/-- every head / keep-alive deadline of `s'` is inherited from `s` or computed in this poll -/
def TStep (c : Cfg) (i : In) (s s' : St) : Prop :=
  (∀ d, s'.headTimer = .active d → s.headTimer = .active d ∨ (c.T ≠ 0 ∧ d = i.cached + c.T)) ∧
  (∀ d, s'.kaTimer = .active d → s.kaTimer = .active d ∨ (∃ k, c.ka = .ms k ∧ d = i.cached + k))

theorem TStep.of_eq {c : Cfg} {i : In} {s s' : St} (h1 : s'.headTimer = s.headTimer ∨ s'.headTimer = .inactive)
    (h2 : s'.kaTimer = s.kaTimer ∨ s'.kaTimer = .inactive) : TStep c i s s' := by
  constructor
  · intro d hd
    rcases h1 with h | h
    · left; rw [← h]; exact hd
    · rw [h] at hd; simp at hd
  · intro d hd
    rcases h2 with h | h
    · left; rw [← h]; exact hd
    · rw [h] at hd; simp at hd

theorem TStep.trans {c : Cfg} {i : In} {a b d : St} (h1 : TStep c i a b) (h2 : TStep c i b d) : TStep c i a d := by
  constructor
  · intro x hx
    rcases h2.1 x hx with h | h
    · exact h1.1 x h
    · exact Or.inr h
  · intro x hx
    rcases h2.2 x hx with h | h
    · exact h1.2 x h
    · exact Or.inr h

theorem Frame.tstep {c : Cfg} {i : In} {s s' : St} (h : Frame s s') : TStep c i s s' :=
  TStep.of_eq h.headTimer (Or.inl h.kaTimer)

theorem pollGraceful_tstep (c : Cfg) (i : In) (s : St) : TStep c i s (pollGraceful i s) := by
  unfold pollGraceful
  split
  · refine TStep.of_eq (s := s) (Or.inl ?_) ?_
    · simp
    · cases hk : s.kaTimer.isEnabled
      · left; simp [hk]
      · right; simp [hk]
  · exact TStep.of_eq (Or.inl rfl) (Or.inl rfl)

theorem pollHeadTimer_tstep (c : Cfg) (i : In) (s : St) : TStep c i s (pollHeadTimer c i s) := by
  unfold pollHeadTimer
  split
  · refine TStep.of_eq (s := s) (Or.inr ?_) (Or.inl ?_)
    · simp
    · simp; exact (sendResponse_frame c s 0 408 .empty).kaTimer
  · exact TStep.of_eq (Or.inl rfl) (Or.inl rfl)

theorem pollKaTimer_tstep (c : Cfg) (i : In) (s s' : St) (he : pollKaTimer c i s = some s') : TStep c i s s' := by
  unfold pollKaTimer at he
  split at he
  · split at he
    · simp at he
    · split at he
      · simp at he; rw [← he]
        apply TStep.of_eq
        · left; unfold kaExpire armSd; simp only; split <;> (try split) <;> rfl
        · right; unfold kaExpire armSd; simp only; split <;> (try split) <;> rfl
      · simp at he; rw [← he]; exact TStep.of_eq (Or.inl rfl) (Or.inl rfl)
  · simp at he; rw [← he]; exact TStep.of_eq (Or.inl rfl) (Or.inl rfl)

theorem pollSdTimer_tstep (c : Cfg) (i : In) (s s' : St) (he : pollSdTimer i s = .cont s') : TStep c i s s' := by
  unfold pollSdTimer at he
  split at he
  · split at he
    · simp at he
    · split at he
      · split at he
        · simp at he; rw [← he]; exact TStep.of_eq (Or.inl rfl) (Or.inl rfl)
        · simp at he
      · simp at he; rw [← he]; exact TStep.of_eq (Or.inl rfl) (Or.inl rfl)
  · simp at he; rw [← he]; exact TStep.of_eq (Or.inl rfl) (Or.inl rfl)

theorem ensureSdTimer_timers (c : Cfg) (i : In) (s : St) :
    (ensureSdTimer c i s).1.headTimer = s.headTimer ∧ (ensureSdTimer c i s).1.kaTimer = s.kaTimer := by
  unfold ensureSdTimer armSd; split <;> (try split) <;> simp

theorem flush_timers (i : In) (s : St) :
    (flush i s).1.headTimer = s.headTimer ∧ (flush i s).1.kaTimer = s.kaTimer := by
  unfold flush; split <;> (try split) <;> simp

theorem pollLinger_tstep (c : Cfg) (i : In) (s : St) : TStep c i s (pollLinger c i s).1 := by
  have e1 := ensureSdTimer_timers c i s
  have e2 := flush_timers i (ensureSdTimer c i s).1
  have e3 := readAvailable_fields (flush i (ensureSdTimer c i s).1).1
  unfold pollLinger
  simp only
  split
  · exact TStep.of_eq (Or.inl e1.1) (Or.inl e1.2)
  · split
    · exact TStep.of_eq (Or.inl (by rw [e2.1, e1.1])) (Or.inl (by rw [e2.2, e1.2]))
    · split
      · exact TStep.of_eq (Or.inl (by simp; rw [e3.2.2.2.2.2.1, e2.1, e1.1])) (Or.inl (by simp; rw [e3.2.2.2.2.1, e2.2, e1.2]))
      · exact TStep.of_eq (Or.inl (by simp; rw [e3.2.2.2.2.2.1, e2.1, e1.1])) (Or.inl (by simp; rw [e3.2.2.2.2.1, e2.2, e1.2]))

theorem pollShutdown_tstep (c : Cfg) (i : In) (s : St) (o : List Out) : TStep c i s (pollShutdown c i s o).s := by
  have e1 := ensureSdTimer_timers c i s
  have e2 := flush_timers i (ensureSdTimer c i s).1
  unfold pollShutdown
  simp only
  split
  · exact TStep.of_eq (Or.inl rfl) (Or.inl rfl)
  · split
    · exact TStep.of_eq (Or.inl (by rw [e2.1, e1.1])) (Or.inl (by rw [e2.2, e1.2]))
    · split
      · exact TStep.of_eq (Or.inl (by simp; rw [e2.1, e1.1])) (Or.inl (by simp; rw [e2.2, e1.2]))
      · exact TStep.of_eq (Or.inl (by rw [e2.1, e1.1])) (Or.inl (by rw [e2.2, e1.2]))

theorem kaCancel_tstep (c : Cfg) (i : In) (s : St) : TStep c i s (kaCancel s) := by
  unfold kaCancel; split
  · exact TStep.of_eq (Or.inl rfl) (Or.inr rfl)
  · exact TStep.of_eq (Or.inl rfl) (Or.inl rfl)

theorem startTimer_tstep (c : Cfg) (i : In) (s : St) : TStep c i s (startTimer c i s) := by
  unfold startTimer Cfg.requestDeadline
  split
  · split
    · rename_i dl h
      split at h
      · simp at h
      · rename_i hT
        simp at h
        constructor
        · intro d hd; simp at hd; right; exact ⟨hT, by omega⟩
        · intro d hd; left; simpa using hd
    · exact TStep.of_eq (Or.inl rfl) (Or.inl rfl)
  · exact TStep.of_eq (Or.inl rfl) (Or.inl rfl)

theorem armKa_tstep (c : Cfg) (i : In) (s : St) : TStep c i s (armKa c i s) := by
  unfold armKa Cfg.kaDeadline
  split
  · split
    · rename_i dl h
      split at h
      · rename_i k hk
        simp at h
        constructor
        · intro d hd; left; simpa using hd
        · intro d hd; simp at hd; right; exact ⟨k, hk, by omega⟩
      · simp at h
    · exact TStep.of_eq (Or.inl rfl) (Or.inl rfl)
  · exact TStep.of_eq (Or.inl rfl) (Or.inl rfl)

theorem pollNormal_tstep (c : Cfg) (i : In) (s : St) (o : List Out) : (pollNormal c i s o).sat (TStep c i s) := by
  unfold pollNormal
  simp only
  have hr := readAvailable_fields s
  have h1 : TStep c i s (readAvailable s).1 := TStep.of_eq (Or.inl hr.2.2.2.2.2.1) (Or.inl hr.2.2.2.2.1)
  have h2 := TStep.trans h1 (kaCancel_tstep c i _)
  have h3 := TStep.trans h2 (startTimer_tstep c i _)
  have h4 := TStep.trans h3 (normalMid_frame c i (readAvailable s).2 _).tstep
  have h5 := TStep.trans h4 (armKa_tstep c i _)
  have e := flush_timers i (armKa c i (normalMid c i (readAvailable s).2 (startTimer c i (kaCancel (readAvailable s).1))).1)
  have h6 := TStep.trans h5 (TStep.of_eq (Or.inl e.1) (Or.inl e.2))
  exact normalTail_sat c _ _ (TStep c i s) h6
    (fun s' h => TStep.trans h (TStep.of_eq (Or.inl rfl) (Or.inl rfl)))
    (fun s' h => TStep.trans h (TStep.of_eq (Or.inl rfl) (Or.inl rfl)))
    (fun s' h => TStep.trans h (TStep.of_eq (Or.inl rfl) (Or.inl rfl)))
    (fun s' h => TStep.trans h (TStep.of_eq (Or.inl rfl) (Or.inl rfl)))

theorem pollOnce_tstep (c : Cfg) (i : In) (s : St) (o : List Out) : (pollOnce c i s o).sat (TStep c i s) := by
  unfold pollOnce pollModes
  have h0 := TStep.trans (pollGraceful_tstep c i s) (pollHeadTimer_tstep c i _)
  simp only
  split
  · exact TStep.trans h0 (TStep.of_eq (Or.inl rfl) (Or.inl rfl))
  · rename_i s2 he
    have h2 := TStep.trans h0 (pollKaTimer_tstep c i _ s2 he)
    split
    · exact TStep.trans h2 (TStep.of_eq (Or.inl rfl) (Or.inl rfl))
    · exact TStep.trans h2 (TStep.of_eq (Or.inl rfl) (Or.inl rfl))
    · rename_i s3 he3
      have h3 := TStep.trans h2 (pollSdTimer_tstep c i s2 s3 he3)
      split
      · exact TStep.trans h3 (pollLinger_tstep c i s3)
      · split
        · exact TStep.trans h3 (pollShutdown_tstep c i s3 o)
        · exact Step.sat_mono (fun s' hs' => TStep.trans h3 hs') _ (pollNormal_tstep c i s3 o)

theorem poll_tstep (c : Cfg) (s : St) (i : In) : TStep c i s (poll c s i).s := by
  unfold poll
  split
  · exact TStep.of_eq (Or.inl rfl) (Or.inl rfl)
  · have hd : TStep c i s (deliver i s) := TStep.of_eq (Or.inl (by simp [deliver])) (Or.inl (by simp [deliver]))
    have h1 := pollOnce_tstep c i (deliver i s) []
    split
    · rename_i r he; rw [he] at h1; exact TStep.trans hd h1
    · rename_i s2 o2 he
      rw [he] at h1
      have h2 := pollOnce_tstep c i s2 o2
      split
      · rename_i r he2; rw [he2] at h2; exact TStep.trans hd (TStep.trans h1 h2)
      · rename_i s3 o3 he3; rw [he3] at h2; exact TStep.trans hd (TStep.trans h1 h2)

/-- the keep-alive timer never fires early: before its deadline `poll_ka_timer` does nothing -/
theorem pollKaTimer_waits (c : Cfg) (i : In) (s : St) (d : Nat) (hi : Inv c s) (hk : s.kaTimer = .active d)
    (hd : i.now < d) : pollKaTimer c i s = some s := by
  have hka := hi.kaT (by simp [hk, Timer.isActive])
  have hst := (hi.core.ka hka).1
  unfold pollKaTimer
  have : ¬ d ≤ i.now := by omega
  simp [hk, hka, hst, this]

end ActixModel.DispTimers
