import ActixModel.Proofs.DispTimersF
/-
C06 helper lemmas, part G: a request that arrives before the keep-alive deadline is dispatched.
-/
namespace ActixModel.DispTimers

/-! #### outputs are only ever appended -/

theorem decodeLoop_outs_mem (c : Cfg) (i : In) (x : Out) (f : Nat) (s : St) (u : Bool) (o : List Out)
    (h : x ∈ o) : x ∈ (decodeLoop c i f s u o).2.2 := by
  refine decodeLoop_inv c i (fun _ o' => x ∈ o') ?_ f s u o h
  intro s o hq
  cases hs : decodeStep c i s <;> simp [Iter.sat, hq]

theorem normalTail_outs_mem (c : Cfg) (s : St) (o : List Out) (x : Out) (h : x ∈ o) :
    x ∈ (normalTail c s o).outs := by
  unfold normalTail
  simp only
  split
  · simp [Step.outs, h]
  · generalize (if s.readDisc && (!c.halfClosed || s.st == .none) then { s with shutdown := true } else s) = s2
    split
    · split
      · simp [Step.outs, h]
      · split
        · exact h
        · split <;> exact h
    · exact h

theorem pollModes_outs_mem (c : Cfg) (i : In) (s : St) (o : List Out) (x : Out) (h : x ∈ o) :
    x ∈ (pollModes c i s o).outs := by
  unfold pollModes
  split
  · simp [Step.outs, h]
  · simp [Step.outs, h]
  · split
    · simp [Step.outs, h]
    · split
      · unfold pollShutdown
        simp only [Step.outs]
        split
        · simp [h]
        · split
          · simp [h]
          · split <;> simp [h]
      · unfold pollNormal
        simp only
        apply normalTail_outs_mem
        simp [h]

theorem pollOnce_outs_mem (c : Cfg) (i : In) (s : St) (o : List Out) (x : Out) (h : x ∈ o) :
    x ∈ (pollOnce c i s o).outs := by
  unfold pollOnce
  simp only
  split
  · simp [Step.outs, h]
  · exact pollModes_outs_mem c i _ o x h

/-- the outputs of the first pass are part of the poll's outputs -/
theorem poll_outs_of_pollOnce (c : Cfg) (s : St) (i : In) (x : Out) (hc : s.complete = false)
    (h : x ∈ (pollOnce c i (deliver i s) []).outs) : x ∈ (poll c s i).outs := by
  unfold poll
  simp [hc]
  split
  · rename_i r he; rw [he] at h; exact h
  · rename_i s2 o2 he
    rw [he] at h
    have h2 := pollOnce_outs_mem c i s2 o2 x h
    split
    · rename_i r he2; rw [he2] at h2; exact h2
    · rename_i s3 o3 he3; rw [he3] at h2; exact h2

/-- **a complete request that arrives before the keep-alive deadline is dispatched in the poll
that reads it** -/
theorem poll_ka_in_time (c : Cfg) (s : St) (i : In) (d : Nat) (rest : List Tok) (hi : Inv c s)
    (hc : s.complete = false) (hk : s.kaTimer = .active d) (hd : i.now < d)
    (hsh : s.shutdown = false) (hl : s.linger = false)
    (hsig : ¬ (s.graceful = true ∧ i.sig = true))
    (hhead : s.headTimer.fired i.now = false)
    (hbuf : s.readBuf = []) (hsock : s.sockIn = []) (hrd : s.readDisc = false) (hcp : s.codecPayload = false)
    (harr : i.arrive = .G :: rest) :
    Out.call s.nextRid .k ∈ (poll c s i).outs := by
  apply poll_outs_of_pollOnce c s i _ hc
  have hka := hi.kaT (by simp [hk, Timer.isActive])
  obtain ⟨k1, k2, k3, k4, k5⟩ := hi.core.ka hka
  have hsd : s.sdTimer.isActive = false := by
    cases h : s.sdTimer.isActive
    · rfl
    · rcases hi.sdT h with h' | h' <;> simp_all
  -- the prologue does nothing
  have hg : pollGraceful i (deliver i s) = deliver i s := by
    unfold pollGraceful
    have : ¬ ((deliver i s).graceful = true ∧ i.sig = true) := by simpa [deliver] using hsig
    simp [this]
  have hh : pollHeadTimer c i (deliver i s) = deliver i s := by
    unfold pollHeadTimer
    have : (deliver i s).headTimer.fired i.now = false := by simpa [deliver] using hhead
    simp [this]
  have hkk : pollKaTimer c i (deliver i s) = some (deliver i s) :=
    pollKaTimer_waits c i _ d (deliver_inv c i s hi) (by simpa [deliver] using hk) hd
  have hss : pollSdTimer i (deliver i s) = .cont (deliver i s) := by
    unfold pollSdTimer
    have : (deliver i s).sdTimer.isActive = false := by simpa [deliver] using hsd
    cases h : (deliver i s).sdTimer <;> simp_all [Timer.isActive]
  unfold pollOnce
  simp only [hg, hh, hkk]
  unfold pollModes
  simp only [hss]
  have e1 : (deliver i s).linger = false := by simpa [deliver] using hl
  have e2 : (deliver i s).shutdown = false := by simpa [deliver] using hsh
  simp only [e1, e2]
  simp
  unfold pollNormal
  simp only
  apply normalTail_outs_mem
  apply List.mem_append_left
  apply List.mem_append_right
  -- the request path
  unfold normalMid
  simp only
  apply List.mem_append_left
  -- state handed to `poll_request`
  have hra : (readAvailable (deliver i s)).1.readBuf = .G :: rest ∧ (readAvailable (deliver i s)).1.keepAlive = true ∧
      (readAvailable (deliver i s)).1.st = .none ∧ (readAvailable (deliver i s)).1.draining = false ∧
      (readAvailable (deliver i s)).1.messages = [] ∧ (readAvailable (deliver i s)).1.readDisc = false ∧
      (readAvailable (deliver i s)).1.codecPayload = false ∧ (readAvailable (deliver i s)).1.nextRid = s.nextRid := by
    unfold readAvailable deliver
    simp [hrd, hbuf, hsock, harr, hka, k1, k2, k4, hcp]
  obtain ⟨r1, r2, r3, r4, r5, r6, r7, r8⟩ := hra
  have hkc : (kaCancel (readAvailable (deliver i s)).1).readBuf = .G :: rest ∧
      (kaCancel (readAvailable (deliver i s)).1).st = .none ∧ (kaCancel (readAvailable (deliver i s)).1).draining = false ∧
      (kaCancel (readAvailable (deliver i s)).1).messages = [] ∧ (kaCancel (readAvailable (deliver i s)).1).readDisc = false ∧
      (kaCancel (readAvailable (deliver i s)).1).codecPayload = false ∧ (kaCancel (readAvailable (deliver i s)).1).nextRid = s.nextRid := by
    unfold kaCancel
    simp [r1, r2, r3, r4, r5, r6, r7, r8]
  obtain ⟨c1, c2, c3, c4, c5, c6, c7⟩ := hkc
  generalize kaCancel (readAvailable (deliver i s)).1 = sk at c1 c2 c3 c4 c5 c6 c7
  have hst : (startTimer c i sk).readBuf = .G :: rest ∧ (startTimer c i sk).st = .none ∧
      (startTimer c i sk).draining = false ∧ (startTimer c i sk).messages = [] ∧ (startTimer c i sk).readDisc = false ∧
      (startTimer c i sk).codecPayload = false ∧ (startTimer c i sk).nextRid = s.nextRid := by
    unfold startTimer
    split <;> (try split) <;> simp [c1, c2, c3, c4, c5, c6, c7]
  obtain ⟨t1, t2, t3, t4, t5, t6, t7⟩ := hst
  generalize startTimer c i sk = s1 at t1 t2 t3 t4 t5 t6 t7
  unfold pollRequest
  simp [t3, t4, t5, t1]
  unfold decodeLoop decodeStep
  simp [t6, t1]
  apply decodeLoop_outs_mem
  unfold onItem
  simp [t2]
  unfold handleRequest
  split <;> simp [t7]

end ActixModel.DispTimers
