import ActixModel.Model.DispWake
import ActixModel.Proofs.Flush
/-
Helper lemmas about the dispatcher model (`Model/DispWake.lean`). Core Lean only.

`World.Le w w'`: everything a poll can only *add* — stored wakers, the wake flag, the
out-of-fuel marker — is preserved from `w` to `w'`.  Every function of the model that runs
inside `Dispatcher::poll` is inflationary for it (`*_le`): a waker, once stored, stays stored
until an external event fires it, and a wake-up, once requested, is not forgotten.
-/
namespace ActixModel.DispWake
open ActixModel.Flush

structure World.Le (w w' : World) : Prop where
  sem : ∀ x, (w.sem x).waiting = true → (w'.sem x).waiting = true
  silent : w.silentWaiting = true → w'.silentWaiting = true
  woken : w.woken = true → w'.woken = true
  fuel : w.fuelOut = true → w'.fuelOut = true

theorem World.Le.refl (w : World) : w.Le w := ⟨fun _ h => h, id, id, id⟩

theorem World.Le.trans {a b c : World} (h₁ : a.Le b) (h₂ : b.Le c) : a.Le c :=
  ⟨fun x h => h₂.sem x (h₁.sem x h), fun h => h₂.silent (h₁.silent h),
   fun h => h₂.woken (h₁.woken h), fun h => h₂.fuel (h₁.fuel h)⟩

/-- two worlds that agree on everything `Le` looks at -/
theorem World.Le.of_eq {w w' : World} (h1 : w'.sems = w.sems) (h2 : w'.silentWaiting = w.silentWaiting)
    (h3 : w'.woken = w.woken) (h4 : w'.fuelOut = w.fuelOut) : w.Le w' := by
  refine ⟨fun x h => ?_, fun h => h2 ▸ h, fun h => h3 ▸ h, fun h => h4 ▸ h⟩
  simpa [World.sem, h1] using h

@[simp] theorem sem_setSem (w : World) (x y : Src) (v : Sem) :
    (w.setSem x v).sem y = if y = x then v else w.sem y := rfl

theorem le_setChan (w : World) (rid : Nat) (c : Chan) : w.Le (w.setChan rid c) :=
  World.Le.of_eq rfl rfl rfl rfl

theorem le_wake (w : World) : w.Le w.wake :=
  ⟨fun _ h => h, id, fun _ => rfl, id⟩

theorem le_outOfFuel (w : World) : w.Le w.outOfFuel :=
  ⟨fun _ h => h, id, id, fun _ => rfl⟩

theorem le_barrier (w : World) (x : Src) : w.Le (w.barrier x).2 := by
  unfold World.barrier
  by_cases h : (w.sem x).credit > 0
  · simp only [h, if_true]
    refine ⟨fun y hy => ?_, id, id, id⟩
    simp only [sem_setSem]
    split
    · next h' => subst h'; exact hy
    · exact hy
  · simp only [h, if_false]
    refine ⟨fun y hy => ?_, id, id, id⟩
    simp only [sem_setSem]
    split
    · rfl
    · exact hy

/-- a barrier that reports `Pending` has stored the waker -/
theorem barrier_false (w : World) (x : Src) (h : (w.barrier x).1 = false) :
    ((w.barrier x).2.sem x).waiting = true := by
  unfold World.barrier at h ⊢
  by_cases hc : (w.sem x).credit > 0
  · simp [hc] at h
  · simp [hc]


/-! ### socket -/

theorem le_upd {w w' w'' : World} (h : w'.Le w'') (h1 : w'.sems = w.sems)
    (h2 : w'.silentWaiting = w.silentWaiting) (h3 : w'.woken = w.woken)
    (h4 : w'.fuelOut = w.fuelOut) : w.Le w'' :=
  (World.Le.of_eq h1 h2 h3 h4).trans h

theorem le_of_barrier {w w' : World} {x : Src} {b : Bool} (hb : w.barrier x = (b, w')) : w.Le w' := by
  have := le_barrier w x; rw [hb] at this; exact this

theorem waiting_of_barrier {w w' : World} {x : Src} (hb : w.barrier x = (false, w')) :
    (w'.sem x).waiting = true := by
  have := barrier_false w x (by rw [hb]); rw [hb] at this; exact this

theorem sockRead_le (q : Nat) : ∀ (fuel : Nat) (w : World), w.Le (sockRead q fuel w).2 := by
  intro fuel
  induction fuel with
  | zero => intro w; exact le_outOfFuel w
  | succ fuel ih =>
    intro w
    unfold sockRead
    split
    · split
      · exact le_upd (ih _) rfl rfl rfl rfl
      · exact World.Le.of_eq rfl rfl rfl rfl
    · exact World.Le.of_eq rfl rfl rfl rfl
    · exact World.Le.of_eq rfl rfl rfl rfl
    · exact ⟨fun _ h => h, fun _ => rfl, id, id⟩
    · split
      · next w' hb => exact (le_of_barrier hb).trans (le_upd (ih _) rfl rfl rfl rfl)
      · next w' hb => exact le_of_barrier hb
    · split
      · exact le_upd (ih _) rfl rfl rfl rfl
      · exact World.Le.of_eq rfl rfl rfl rfl

/-- `poll_read` answers `Pending` only after storing the waker (at a barrier or at `silent`) -/
theorem sockRead_pending (q : Nat) : ∀ (fuel : Nat) (w w' : World),
    sockRead q fuel w = (.pending, w') →
    (w'.sem .r).waiting = true ∨ w'.silentWaiting = true ∨ w'.fuelOut = true := by
  intro fuel
  induction fuel with
  | zero => intro w w' h; simp [sockRead] at h; subst h; exact Or.inr (Or.inr rfl)
  | succ fuel ih =>
    intro w w' h
    unfold sockRead at h
    split at h
    · split at h
      · exact ih _ _ h
      · simp at h
    · simp at h
    · simp at h
    · simp at h; subst h; exact Or.inr (Or.inl rfl)
    · split at h
      · exact ih _ _ h
      · next w1 hb => simp at h; subst h; exact Or.inl (waiting_of_barrier hb)
    · split at h
      · exact ih _ _ h
      · simp at h

theorem sockWrite_le : ∀ (fuel : Nat) (w : World) (off : Nat), w.Le (sockWrite fuel w off).2 := by
  intro fuel
  induction fuel with
  | zero => intro w _; exact le_outOfFuel w
  | succ fuel ih =>
    intro w off
    unfold sockWrite
    split
    · exact World.Le.of_eq rfl rfl rfl rfl
    · exact World.Le.of_eq rfl rfl rfl rfl
    · split
      · next w' hb => exact (le_of_barrier hb).trans (le_upd (ih _ _) rfl rfl rfl rfl)
      · next w' hb => exact le_of_barrier hb
    · exact World.Le.of_eq rfl rfl rfl rfl

/-- `poll_write` answers `Pending` only after storing the waker -/
theorem sockWrite_pending : ∀ (fuel : Nat) (w : World) (off : Nat) (w' : World),
    sockWrite fuel w off = (.pending, w') →
    (w'.sem .w).waiting = true ∨ w'.fuelOut = true := by
  intro fuel
  induction fuel with
  | zero => intro w _ w' h; simp [sockWrite] at h; subst h; exact Or.inr rfl
  | succ fuel ih =>
    intro w off w' h
    unfold sockWrite at h
    split at h
    · simp at h
    · simp at h
    · split at h
      · exact ih _ _ _ h
      · next w1 hb => simp at h; subst h; exact Or.inl (waiting_of_barrier hb)
    · simp at h

theorem sockFlush_le : ∀ (fuel : Nat) (w : World), w.Le (sockFlush fuel w).2 := by
  intro fuel
  induction fuel with
  | zero => intro w; exact le_outOfFuel w
  | succ fuel ih =>
    intro w
    unfold sockFlush
    split
    · exact World.Le.refl _
    · split
      · exact World.Le.of_eq rfl rfl rfl rfl
      · exact World.Le.of_eq rfl rfl rfl rfl
      · split
        · next w' hb => exact (le_of_barrier hb).trans (le_upd (ih _) rfl rfl rfl rfl)
        · next w' hb => exact le_of_barrier hb

/-- `poll_flush` of the socket: ready ⇒ nothing dirty; pending ⇒ waker stored -/
theorem sockFlush_post : ∀ (fuel : Nat) (w : World) (b : Bool) (w' : World),
    sockFlush fuel w = (b, w') →
    (b = true → w'.dirty = false) ∧
    (b = false → (w'.sem .f).waiting = true ∨ w'.fuelOut = true) := by
  intro fuel
  induction fuel with
  | zero =>
    intro w b w' h; simp [sockFlush] at h; obtain ⟨rfl, rfl⟩ := h
    exact ⟨by simp, fun _ => Or.inr rfl⟩
  | succ fuel ih =>
    intro w b w' h
    unfold sockFlush at h
    split at h
    · next hd => simp at h hd; obtain ⟨rfl, rfl⟩ := h; simp [hd]
    · split at h
      · simp at h; obtain ⟨rfl, rfl⟩ := h; simp
      · simp at h; obtain ⟨rfl, rfl⟩ := h; simp
      · split at h
        · exact ih _ _ _ h
        · next w1 hb =>
          simp at h; obtain ⟨rfl, rfl⟩ := h
          exact ⟨by simp, fun _ => Or.inl (waiting_of_barrier hb)⟩

theorem sockShutdown_le : ∀ (fuel : Nat) (w : World), w.Le (sockShutdown fuel w).2 := by
  intro fuel
  induction fuel with
  | zero => intro w; exact le_outOfFuel w
  | succ fuel ih =>
    intro w
    unfold sockShutdown
    simp only
    split
    · exact World.Le.of_eq rfl rfl rfl rfl
    · exact World.Le.of_eq rfl rfl rfl rfl
    · split
      · next w' hb =>
        exact le_upd ((le_of_barrier hb).trans (le_upd (ih _) rfl rfl rfl rfl)) rfl rfl rfl rfl
      · next w' hb => exact le_upd (le_of_barrier hb) rfl rfl rfl rfl

/-- `poll_shutdown` answers `Pending` only after storing the waker -/
theorem sockShutdown_pending : ∀ (fuel : Nat) (w w' : World),
    sockShutdown fuel w = (false, w') →
    (w'.sem .s).waiting = true ∨ w'.fuelOut = true := by
  intro fuel
  induction fuel with
  | zero => intro w w' h; simp [sockShutdown] at h; subst h; exact Or.inr rfl
  | succ fuel ih =>
    intro w w' h
    unfold sockShutdown at h
    simp only at h
    split at h
    · simp at h
    · simp at h
    · split at h
      · exact ih _ _ h
      · next w1 hb => simp at h; subst h; exact Or.inl (waiting_of_barrier hb)


/-! ### payload channel -/

theorem le_fields {w w' : World} (h1 : w'.sems = w.sems) (h2 : w'.silentWaiting = w.silentWaiting)
    (h3 : w.woken = true → w'.woken = true) (h4 : w'.fuelOut = w.fuelOut) : w.Le w' := by
  refine ⟨fun x h => ?_, fun h => h2 ▸ h, h3, fun h => h4 ▸ h⟩
  simpa [World.sem, h1] using h

macro "chan_le" : tactic =>
  `(tactic| first
    | exact World.Le.refl _
    | exact le_fields rfl rfl id rfl
    | exact le_fields rfl rfl (fun _ => rfl) rfl)

theorem chanWake_le (w : World) (rid : Nat) : w.Le (chanWake w rid) := by
  unfold chanWake; simp only; split <;> chan_le

theorem chanWakeIo_le (w : World) (rid : Nat) : w.Le (chanWakeIo w rid) := by
  unfold chanWakeIo; simp only; split <;> chan_le

theorem feedData_le (w : World) (rid n : Nat) : w.Le (feedData w rid n) := by
  unfold feedData; simp only
  split
  · exact World.Le.refl _
  · exact (le_setChan w rid _).trans (chanWake_le _ _)

theorem feedEof_le (w : World) (rid : Nat) : w.Le (feedEof w rid) := by
  unfold feedEof; simp only
  split
  · exact World.Le.refl _
  · exact (le_setChan w rid _).trans (chanWake_le _ _)

theorem setError_le (w : World) (rid : Nat) (e : ChanErr) : w.Le (setError w rid e) := by
  unfold setError; simp only
  split
  · exact World.Le.refl _
  · exact (le_setChan w rid _).trans (chanWake_le _ _)

theorem needRead_le (w : World) (rid : Nat) : w.Le (needRead w rid).2 := by
  unfold needRead; simp only
  split
  · exact World.Le.refl _
  · split
    · exact World.Le.refl _
    · exact le_setChan _ _ _

theorem chanPollNext_le (w : World) (rid : Nat) (who : Who) : w.Le (chanPollNext w rid who).2 := by
  unfold chanPollNext; simp only
  split
  · exact (le_setChan w rid _).trans (chanWakeIo_le _ _)
  · split
    · exact le_setChan _ _ _
    · split
      · exact World.Le.refl _
      · exact (le_setChan w rid _).trans (chanWakeIo_le _ _)

theorem dropReader_le (w : World) (rid : Nat) : w.Le (dropReader w rid) := by
  unfold dropReader; exact le_setChan _ _ _

theorem dropHFut_le (w : World) (h : HFut) : w.Le (dropHFut w h) := by
  unfold dropHFut; split
  · exact dropReader_le _ _
  · exact World.Le.refl _


/-! ### handler, body, response -/

theorem pollHandler_le (e : Env) : ∀ (fuel : Nat) (h : HFut) (w : World),
    w.Le (pollHandler e fuel h w).2.2 := by
  intro fuel
  induction fuel with
  | zero => intro h w; exact le_outOfFuel w
  | succ fuel ih =>
    intro h w
    unfold pollHandler
    split
    · exact World.Le.refl _
    · exact le_wake w
    · split
      · next w' hb => exact (le_of_barrier hb).trans (ih _ _)
      · next w' hb => exact le_of_barrier hb
    · split
      · exact ih _ _
      · split
        · next w' hn => have := chanPollNext_le w h.rid .conn; rw [hn] at this; exact this
        · next w' hn =>
          have := chanPollNext_le w h.rid .conn; rw [hn] at this; exact this.trans (ih _ _)
        · next w' hn =>
          have := chanPollNext_le w h.rid .conn; rw [hn] at this
          exact this.trans ((dropReader_le _ _).trans (ih _ _))
    · split
      · exact ih _ _
      · split
        · next w' hn => have := chanPollNext_le w h.rid .conn; rw [hn] at this; exact this
        · next w' hn =>
          have := chanPollNext_le w h.rid .conn; rw [hn] at this; exact this.trans (ih _ _)
        · next w' hn =>
          have := chanPollNext_le w h.rid .conn; rw [hn] at this
          exact this.trans ((dropReader_le _ _).trans (ih _ _))
    · exact (dropHFut_le _ _).trans (ih _ _)
    · split
      · exact le_upd (ih _ _) rfl rfl rfl rfl
      · exact ih _ _
    · -- tryRead
      split
      · exact ih _ _
      · split
        · next w' hn =>
          have := chanPollNext_le w h.rid .conn; rw [hn] at this; exact this.trans (ih _ _)
        · next w' hn =>
          have := chanPollNext_le w h.rid .conn; rw [hn] at this; exact this.trans (ih _ _)
        · next w' hn =>
          have := chanPollNext_le w h.rid .conn; rw [hn] at this
          exact this.trans ((dropReader_le _ _).trans (ih _ _))
    · -- waitConsumer
      split
      · exact ih _ _
      · exact World.Le.of_eq rfl rfl rfl rfl

theorem pollBody_le : ∀ (fuel : Nat) (b : BFut) (w : World), w.Le (pollBody fuel b w).2.2 := by
  intro fuel
  induction fuel with
  | zero => intro b w; exact le_outOfFuel w
  | succ fuel ih =>
    intro b w
    unfold pollBody
    split
    · exact World.Le.refl _
    · exact le_wake w
    · split
      · next w' hb => exact (le_of_barrier hb).trans (ih _ _)
      · next w' hb => exact le_of_barrier hb
    · exact World.Le.refl _
    · exact World.Le.refl _

theorem sendResponse_le (e : Env) (d : D) (w : World) (sl rid : Nat) (resp : RespKind)
    (h? : Option HFut) : w.Le (sendResponse e d w sl rid resp h?).2 := by
  unfold sendResponse
  simp only
  have hdrop : w.Le (match h? with | some h => dropHFut w h | none => w) := by
    cases h? with
    | none => exact World.Le.refl _
    | some h => exact dropHFut_le _ _
  split <;> exact hdrop

theorem handleRequest_le (e : Env) (d : D) (w : World) (rid : Nat) :
    w.Le (handleRequest e d w rid).2 := by
  unfold handleRequest
  simp only
  have h0 : w.Le { w with calls := w.calls + 1 } := World.Le.of_eq rfl rfl rfl rfl
  split
  · next h' w' hp =>
    have := pollHandler_le e (hFuel (mkHFut e rid) { w with calls := w.calls + 1 }) (mkHFut e rid)
      { w with calls := w.calls + 1 }
    rw [hp] at this
    exact h0.trans (this.trans (sendResponse_le _ _ _ _ _ _ _))
  · next h' w' hp =>
    have := pollHandler_le e (hFuel (mkHFut e rid) { w with calls := w.calls + 1 }) (mkHFut e rid)
      { w with calls := w.calls + 1 }
    rw [hp] at this
    exact h0.trans this


/-! ### `read_disconnect` is never cleared, wakers are never dropped: `SLe` -/

/-- joint preservation for dispatcher state + world -/
structure SLe (d : D) (w : World) (d' : D) (w' : World) : Prop where
  world : w.Le w'
  readDisc : d.flags.readDisc = true → d'.flags.readDisc = true

theorem SLe.refl (d : D) (w : World) : SLe d w d w := ⟨World.Le.refl w, id⟩

theorem SLe.trans {d₁ d₂ d₃ : D} {w₁ w₂ w₃ : World} (h₁ : SLe d₁ w₁ d₂ w₂) (h₂ : SLe d₂ w₂ d₃ w₃) :
    SLe d₁ w₁ d₃ w₃ :=
  ⟨h₁.world.trans h₂.world, fun h => h₂.readDisc (h₁.readDisc h)⟩

theorem finishFlags_readDisc (cfg : Cfg) (f : Flags) (c : Bool) :
    (finishFlags cfg f c).readDisc = f.readDisc := by
  unfold finishFlags enterLinger
  split
  · split <;> rfl
  · rfl

theorem sendResponse_sle (e : Env) (d : D) (w : World) (sl rid : Nat) (resp : RespKind)
    (h? : Option HFut) :
    SLe d w (sendResponse e d w sl rid resp h?).1 (sendResponse e d w sl rid resp h?).2 := by
  refine ⟨sendResponse_le _ _ _ _ _ _ _, ?_⟩
  unfold sendResponse
  simp only
  split
  · intro h; simp only [finishFlags_readDisc, D.produce]; exact h
  · intro h; simp only [finishFlags_readDisc, D.produce]; exact h
  · intro h; simp only [D.produce]; exact h

theorem handleRequest_sle (e : Env) (d : D) (w : World) (rid : Nat) :
    SLe d w (handleRequest e d w rid).1 (handleRequest e d w rid).2 := by
  refine ⟨handleRequest_le _ _ _ _, ?_⟩
  unfold handleRequest
  simp only
  split
  · intro h; exact (sendResponse_sle e _ _ _ _ _ _).readDisc h
  · intro h; exact h

theorem onItem_sle (e : Env) (d : D) (w : World) (rid : Nat) (body : ReqBody) (segs : List Seg)
    (rb : Nat) : SLe d w (onItem e d w rid body segs rb).1 (onItem e d w rid body segs rb).2 := by
  unfold onItem
  simp only
  split <;> first | exact ⟨World.Le.refl _, id⟩ | exact ⟨le_setChan _ _ _, id⟩

theorem onTooLarge_sle (d : D) (w : World) : SLe d w (onTooLarge d w).1 (onTooLarge d w).2 := by
  unfold onTooLarge
  refine ⟨?_, fun _ => rfl⟩
  simp only
  split
  · exact setError_le _ _ _
  · exact World.Le.refl _

theorem onBad_sle (d : D) (w : World) : SLe d w (onBad d w).1 (onBad d w).2 := by
  unfold onBad
  refine ⟨?_, fun _ => rfl⟩
  simp only
  split
  · exact setError_le _ _ _
  · exact World.Le.refl _

theorem sle_of_eq {d d' : D} {w w' : World} {p : D × World} (h : p = (d', w')) (hs : SLe d w p.1 p.2) :
    SLe d w d' w' := by subst h; exact hs

theorem decodeLoop_sle (e : Env) : ∀ (fuel : Nat) (d : D) (w : World) (upd : Bool),
    SLe d w (decodeLoop e fuel d w upd).2.1 (decodeLoop e fuel d w upd).2.2 := by
  intro fuel
  induction fuel with
  | zero => intro d w upd; exact ⟨le_outOfFuel w, id⟩
  | succ fuel ih =>
    intro d w upd
    unfold decodeLoop
    split
    · -- item
      split
      next d1 w1 h1 =>
      have s1 := sle_of_eq h1 (onItem_sle _ _ _ _ _ _ _)
      split
      · exact s1.trans ⟨World.Le.refl _, id⟩
      · split
        · split
          next d2 w2 h2 =>
          have s2 := sle_of_eq h2 (handleRequest_sle _ _ _ _)
          refine s1.trans ?_
          refine SLe.trans ?_ (s2.trans (ih _ _ _))
          exact ⟨World.Le.refl _, id⟩
        · refine s1.trans ?_
          refine SLe.trans ?_ (ih _ _ _)
          exact ⟨World.Le.refl _, id⟩
    · -- chunk
      split
      · refine SLe.trans ?_ (ih _ _ _)
        exact ⟨feedData_le _ _ _, id⟩
      · exact ⟨World.Le.refl _, id⟩
    · -- eof
      split
      · refine SLe.trans ?_ (ih _ _ _)
        exact ⟨feedEof_le _ _, id⟩
      · exact ⟨World.Le.refl _, id⟩
    · exact ⟨World.Le.refl _, id⟩
    · -- tooLarge
      split
      next d1 w1 h1 => exact sle_of_eq h1 (onTooLarge_sle _ _)
    · -- bad request
      split
      next d1 w1 h1 => exact sle_of_eq h1 (onBad_sle _ _)


theorem le_of_snd_eq {α : Type} {w w' : World} {a : α} {p : α × World} (h : p = (a, w'))
    (hl : w.Le p.2) : w.Le w' := by subst h; exact hl

theorem le_of_snd_snd_eq {α β : Type} {w w' : World} {a : α} {b : β} {p : α × β × World}
    (h : p = (a, b, w')) (hl : w.Le p.2.2) : w.Le w' := by subst h; exact hl

theorem sle_of_eq3 {α : Type} {d d' : D} {w w' : World} {a : α} {p : α × D × World}
    (h : p = (a, d', w')) (hs : SLe d w p.2.1 p.2.2) : SLe d w d' w' := by subst h; exact hs

theorem canRead_le (d : D) (w : World) : w.Le (canRead d w).2 := by
  unfold canRead
  split
  · exact World.Le.refl _
  · split
    · split
      · next w' hn => exact le_of_snd_eq hn (needRead_le _ _)
      · next w' hn => exact le_of_snd_eq hn (needRead_le _ _)
    · exact World.Le.refl _

theorem pollRequest_sle (e : Env) (d : D) (w : World) :
    SLe d w (pollRequest e d w).2.1 (pollRequest e d w).2.2 := by
  unfold pollRequest
  simp only
  have hc := canRead_le d w
  split
  · exact ⟨hc, id⟩
  · exact SLe.trans ⟨hc, id⟩ (decodeLoop_sle _ _ _ _ _)

theorem sendLoop_sle (e : Env) : ∀ (fuel : Nat) (d : D) (b : BFut) (w : World),
    SLe d w (sendLoop e fuel d b w).2.1 (sendLoop e fuel d b w).2.2 := by
  intro fuel
  induction fuel with
  | zero => intro d b w; exact ⟨le_outOfFuel w, id⟩
  | succ fuel ih =>
    intro d b w
    unfold sendLoop
    split
    · split
      · next n b' w' hp =>
        have := le_of_snd_snd_eq hp (pollBody_le _ _ _)
        refine SLe.trans ?_ (ih _ _ _)
        exact ⟨this, id⟩
      · next b' w' hp =>
        have := le_of_snd_snd_eq hp (pollBody_le _ _ _)
        refine ⟨this, ?_⟩
        intro h; simp only [finishFlags_readDisc, D.produce]; exact h
      · next b' w' hp =>
        have := le_of_snd_snd_eq hp (pollBody_le _ _ _)
        exact ⟨this, id⟩
      · next b' w' hp =>
        have := le_of_snd_snd_eq hp (pollBody_le _ _ _)
        exact ⟨this, id⟩
    · exact ⟨World.Le.refl _, id⟩

theorem pollResponse_sle (e : Env) : ∀ (fuel : Nat) (d : D) (w : World),
    SLe d w (pollResponse e fuel d w).2.1 (pollResponse e fuel d w).2.2 := by
  intro fuel
  induction fuel with
  | zero => intro d w; exact ⟨le_outOfFuel w, id⟩
  | succ fuel ih =>
    intro d w
    unfold pollResponse
    split
    · -- state none
      split
      · refine SLe.trans ?_ (ih _ _)
        exact ⟨World.Le.of_eq rfl rfl rfl rfl, id⟩
      · split
        next d1 w1 h1 =>
        have s1 := sle_of_eq h1 (sendResponse_sle _ _ _ _ _ _ _)
        refine SLe.trans ?_ (s1.trans (ih _ _))
        exact ⟨World.Le.refl _, id⟩
      · exact ⟨World.Le.refl _, id⟩
      · exact ⟨World.Le.refl _, id⟩
    · -- service
      split
      · next h' w' hp =>
        have hl := le_of_snd_snd_eq hp (pollHandler_le _ _ _ _)
        split
        next d1 w1 h1 =>
        have s1 := sle_of_eq h1 (sendResponse_sle _ _ _ _ _ _ _)
        refine SLe.trans ?_ (s1.trans (ih _ _))
        exact ⟨hl, id⟩
      · next h' w' hp =>
        have hl := le_of_snd_snd_eq hp (pollHandler_le _ _ _ _)
        split
        · next d1 w1 hr =>
          have sr := sle_of_eq3 hr (pollRequest_sle _ _ _)
          refine SLe.trans ?_ sr
          exact ⟨hl, id⟩
        · next d1 w1 hr =>
          have sr := sle_of_eq3 hr (pollRequest_sle _ _ _)
          refine SLe.trans ?_ (sr.trans (ih _ _))
          exact ⟨hl, id⟩
    · -- sendPayload
      split
      · next r d1 w1 hs => exact sle_of_eq3 hs (sendLoop_sle _ _ _ _ _)
      · next d1 w1 hs => exact (sle_of_eq3 hs (sendLoop_sle _ _ _ _ _)).trans (ih _ _)


/-! ### `read_available` -/

/-- what `read_available` guarantees when it reports "nothing more for now" -/
def ReadPost (ra : RA) (d : D) (w : World) : Prop :=
  ra = .ok false →
    d.flags.readDisc = true ∨ (w.sem .r).waiting = true ∨ w.silentWaiting = true ∨
      d.rb ≥ Consts.h1MaxBufferSize ∨ w.fuelOut = true

theorem readLoop_spec (e : Env) : ∀ (fuel : Nat) (d : D) (w : World) (rs : Bool),
    SLe d w (readLoop e fuel d w rs).2.1 (readLoop e fuel d w rs).2.2 ∧
    ReadPost (readLoop e fuel d w rs).1 (readLoop e fuel d w rs).2.1 (readLoop e fuel d w rs).2.2 := by
  intro fuel
  induction fuel with
  | zero =>
    intro d w rs
    exact ⟨⟨le_outOfFuel w, id⟩, fun _ => Or.inr (Or.inr (Or.inr (Or.inr rfl)))⟩
  | succ fuel ih =>
    intro d w rs
    unfold readLoop
    split
    · next hcap =>
      -- at the cap
      split
      · split
        · next w' hn =>
          exact ⟨⟨le_of_snd_eq hn (needRead_le _ _), id⟩, fun _ => Or.inr (Or.inr (Or.inr (Or.inl hcap)))⟩
        · next w' hn =>
          exact ⟨⟨(le_of_snd_eq hn (needRead_le _ _)).trans (le_wake _), id⟩,
            fun _ => Or.inr (Or.inr (Or.inr (Or.inl hcap)))⟩
      · exact ⟨⟨le_wake _, id⟩, fun _ => Or.inr (Or.inr (Or.inr (Or.inl hcap)))⟩
    · split
      · next n w' hr =>
        have hl := le_of_snd_eq hr (sockRead_le _ _ _)
        obtain ⟨s2, p2⟩ := ih
          { d with rb := d.rb + n,
                   flags := if (match d.payload with | some rid => isDropped w' rid | none => false) then d.flags
                            else { d.flags with finished := false } } w' true
        refine ⟨SLe.trans ⟨hl, ?_⟩ s2, p2⟩
        intro h; simp only; repeat' split
        all_goals exact h
      · next w' hr =>
        have hl := le_of_snd_eq hr (sockRead_le _ _ _)
        refine ⟨⟨hl, ?_⟩, fun h => by simp at h⟩
        intro h; simp only; repeat' split
        all_goals exact h
      · next w' hr =>
        have hl := le_of_snd_eq hr (sockRead_le _ _ _)
        refine ⟨⟨hl, id⟩, fun _ => ?_⟩
        rcases sockRead_pending _ _ _ _ hr with h | h | h
        · exact Or.inr (Or.inl h)
        · exact Or.inr (Or.inr (Or.inl h))
        · exact Or.inr (Or.inr (Or.inr (Or.inr h)))
      · next w' hr =>
        have hl := le_of_snd_eq hr (sockRead_le _ _ _)
        split
        · exact ⟨⟨hl, id⟩, fun h => by simp at h⟩
        · exact ⟨⟨hl, id⟩, fun h => by simp at h⟩

theorem readAvailable_spec (e : Env) (d : D) (w : World) :
    SLe d w (readAvailable e d w).2.1 (readAvailable e d w).2.2 ∧
    ReadPost (readAvailable e d w).1 (readAvailable e d w).2.1 (readAvailable e d w).2.2 := by
  unfold readAvailable
  split
  · next h => exact ⟨SLe.refl _ _, fun _ => Or.inl h⟩
  · exact readLoop_spec _ _ _ _ _


/-! ### `poll_flush` -/

/-- what `poll_flush` guarantees: ready ⇒ nothing unflushed anywhere; pending ⇒ the task's waker
is stored with the socket's write or flush side -/
def FlushPost (fr : FR) (d : D) (w : World) : Prop :=
  (fr = .ready → d.wlen = 0 ∧ w.dirty = false) ∧
  (fr = .pending → (w.sem .w).waiting = true ∨ (w.sem .f).waiting = true ∨ w.fuelOut = true)

theorem dFlush_spec (d : D) (w : World) :
    SLe d w (dFlush d w).2.1 (dFlush d w).2.2 ∧
    FlushPost (dFlush d w).1 (dFlush d w).2.1 (dFlush d w).2.2 := by
  unfold dFlush
  simp only
  generalize ho : pollFlushLen (fun (w : World) off => sockWrite (w.wops.length + 1) w off) d.wlen w = o
  have hle : w.Le o.sock := by
    have := loopLen_rel (fun (w : World) off => sockWrite (w.wops.length + 1) w off) World.Le
      World.Le.refl (fun _ _ _ h1 h2 => h1.trans h2) (fun s off => sockWrite_le _ s off) d.wlen d.wlen 0 w
    unfold pollFlushLen at ho
    rw [ho] at this
    exact this
  split
  · next hr => exact ⟨⟨hle, id⟩, by constructor <;> intro h <;> simp at h⟩
  · next hr =>
    refine ⟨⟨hle, id⟩, by intro h; simp at h, fun _ => ?_⟩
    unfold pollFlushLen at ho
    obtain ⟨s1, off, hw⟩ := loopLen_pending _ _ _ _ _ _ ho hr
    rcases sockWrite_pending _ _ _ _ hw with h | h
    · exact Or.inl h
    · exact Or.inr (Or.inr h)
  · next hr =>
    split
    · next w' hf =>
      have := le_of_snd_eq hf (sockFlush_le _ _)
      refine ⟨⟨hle.trans this, id⟩, fun _ => ⟨rfl, ?_⟩, by intro h; simp at h⟩
      exact (sockFlush_post _ _ _ _ hf).1 rfl
    · next w' hf =>
      have := le_of_snd_eq hf (sockFlush_le _ _)
      refine ⟨⟨hle.trans this, id⟩, by intro h; simp at h, fun _ => ?_⟩
      rcases (sockFlush_post _ _ _ _ hf).2 rfl with h | h
      · exact Or.inr (Or.inl h)
      · exact Or.inr (Or.inr h)

/-- "nothing is unflushed, or the task is registered with the socket's write side" -/
def FlushOK (d : D) (w : World) : Prop :=
  (d.wlen = 0 ∧ w.dirty = false) ∨ (w.sem .w).waiting = true ∨ (w.sem .f).waiting = true ∨
    w.fuelOut = true

theorem FlushOK.of_post {fr : FR} {d : D} {w : World} (h : FlushPost fr d w) (hne : fr ≠ .err) :
    FlushOK d w := by
  cases fr with
  | ready => exact Or.inl (h.1 rfl)
  | pending => exact Or.inr (h.2 rfl)
  | err => exact absurd rfl hne

theorem respFlushLoop_spec (e : Env) (prFuel : Nat) : ∀ (fuel : Nat) (d : D) (w : World),
    SLe d w (respFlushLoop e prFuel fuel d w).2.1 (respFlushLoop e prFuel fuel d w).2.2 ∧
    ((respFlushLoop e prFuel fuel d w).1 = none →
      FlushOK (respFlushLoop e prFuel fuel d w).2.1 (respFlushLoop e prFuel fuel d w).2.2) := by
  intro fuel
  induction fuel with
  | zero =>
    intro d w
    exact ⟨⟨le_outOfFuel w, id⟩, fun _ => Or.inr (Or.inr (Or.inr rfl))⟩
  | succ fuel ih =>
    intro d w
    unfold respFlushLoop
    split
    · next k d1 w1 hp =>
      exact ⟨sle_of_eq3 hp (pollResponse_sle _ _ _ _), by intro h; simp at h⟩
    · next d1 w1 hp =>
      exact ⟨sle_of_eq3 hp (pollResponse_sle _ _ _ _), by intro h; simp at h⟩
    · next pr d1 w1 hne hne2 hp =>
      have s1 := sle_of_eq3 hp (pollResponse_sle _ _ _ _)
      simp only
      generalize hd2 : (if (!(pr == PR.drain) && d1.flags.keepAlive && d1.flags.finished &&
          !d1.kaTimer.isActive) = true then
          match e.cfg.kaMs with
          | some ms => { d1 with kaTimer := Timer.active (w1.now + ms) }
          | none => d1
        else d1) = d2
      have s2 : SLe d1 w1 d2 w1 := by
        refine ⟨World.Le.refl _, ?_⟩
        subst hd2
        intro h
        split
        · split <;> exact h
        · exact h
      obtain ⟨s3, p3⟩ := dFlush_spec d2 w1
      split
      · next d3 w3 hf =>
        rw [hf] at s3
        exact ⟨s1.trans (s2.trans s3), by intro h; simp at h⟩
      · next fr d3 w3 hne3 hf =>
        rw [hf] at s3 p3
        split
        · refine ⟨s1.trans (s2.trans s3), fun _ => ?_⟩
          refine FlushOK.of_post p3 ?_
          intro h; subst h; first | exact hne3 rfl | exact hne3 _ _ rfl | simp at hne3
        · obtain ⟨s4, p4⟩ := ih d3 w3
          exact ⟨s1.trans (s2.trans (s3.trans s4)), p4⟩


/-! ### the read side does not touch what is unflushed -/

theorem barrier_dirty (w : World) (x : Src) : (w.barrier x).2.dirty = w.dirty := by
  unfold World.barrier; simp only; split <;> rfl

theorem dirty_of_barrier {w w' : World} {x : Src} {b : Bool} (hb : w.barrier x = (b, w')) :
    w'.dirty = w.dirty := by
  have := barrier_dirty w x; rw [hb] at this; exact this

theorem sockRead_dirty (q : Nat) : ∀ (fuel : Nat) (w : World),
    (sockRead q fuel w).2.dirty = w.dirty := by
  intro fuel
  induction fuel with
  | zero => intro w; rfl
  | succ fuel ih =>
    intro w
    unfold sockRead
    split
    · split
      · rw [ih]
      · rfl
    · rfl
    · rfl
    · rfl
    · split
      · next w' hb => rw [ih]; exact (dirty_of_barrier hb : w'.dirty = w.dirty)
      · next w' hb => exact dirty_of_barrier hb
    · split
      · rw [ih]
      · rfl

theorem needRead_dirty {w w' : World} {rid : Nat} {st : PayloadStatus}
    (h : needRead w rid = (st, w')) : w'.dirty = w.dirty := by
  unfold needRead at h; simp only at h
  split at h
  · simp at h; rw [← h.2]
  · split at h
    · simp at h; rw [← h.2]
    · simp at h; rw [← h.2]; rfl

theorem same_of_eq3 {α : Type} {d d' : D} {w w' : World} {a : α} {p : α × D × World}
    (h : p = (a, d', w')) (hs : p.2.1.wlen = d.wlen ∧ p.2.2.dirty = w.dirty) :
    d'.wlen = d.wlen ∧ w'.dirty = w.dirty := by subst h; exact hs

theorem readLoop_same (e : Env) : ∀ (fuel : Nat) (d : D) (w : World) (rs : Bool),
    (readLoop e fuel d w rs).2.1.wlen = d.wlen ∧ (readLoop e fuel d w rs).2.2.dirty = w.dirty := by
  intro fuel
  induction fuel with
  | zero => intro d w rs; exact ⟨rfl, rfl⟩
  | succ fuel ih =>
    intro d w rs
    unfold readLoop
    split
    · split
      · split
        · next w' hn => exact ⟨rfl, needRead_dirty hn⟩
        · next st w' _ hn => exact ⟨rfl, (needRead_dirty hn : w'.dirty = w.dirty)⟩
      · exact ⟨rfl, rfl⟩
    · have hd := sockRead_dirty e.cfg.quantum (w.rops.length + 3) w
      split
      · next n w' hr =>
        rw [hr] at hd
        obtain ⟨h1, h2⟩ := ih
          { d with rb := d.rb + n,
                   flags := if (match d.payload with | some rid => isDropped w' rid | none => false) then d.flags
                            else { d.flags with finished := false } } w' true
        exact ⟨h1, h2.trans hd⟩
      · next w' hr => rw [hr] at hd; exact ⟨rfl, hd⟩
      · next w' hr => rw [hr] at hd; exact ⟨rfl, hd⟩
      · next w' hr =>
        rw [hr] at hd
        split <;> exact ⟨rfl, hd⟩

theorem readAvailable_same (e : Env) (d : D) (w : World) :
    (readAvailable e d w).2.1.wlen = d.wlen ∧ (readAvailable e d w).2.2.dirty = w.dirty := by
  unfold readAvailable
  split
  · exact ⟨rfl, rfl⟩
  · exact readLoop_same _ _ _ _ _

theorem lingerLoop_spec (e : Env) : ∀ (fuel : Nat) (d : D) (w : World),
    SLe d w (lingerLoop e fuel d w).2.1 (lingerLoop e fuel d w).2.2 ∧
    (lingerLoop e fuel d w).2.1.wlen = d.wlen ∧ (lingerLoop e fuel d w).2.2.dirty = w.dirty := by
  intro fuel
  induction fuel with
  | zero => intro d w; exact ⟨⟨le_outOfFuel w, id⟩, rfl, rfl⟩
  | succ fuel ih =>
    intro d w
    unfold lingerLoop
    split
    · next d1 w1 hr =>
      have sr := sle_of_eq3 hr (readAvailable_spec e d w).1
      obtain ⟨hw, hd⟩ := same_of_eq3 hr (readAvailable_same e d w)
      exact ⟨sr, hw, hd⟩
    · next disc d1 w1 hr =>
      have sr := sle_of_eq3 hr (readAvailable_spec e d w).1
      obtain ⟨hw, hd⟩ := same_of_eq3 hr (readAvailable_same e d w)
      simp only
      split
      · exact ⟨SLe.trans sr ⟨World.Le.refl _, fun _ => rfl⟩, hw, hd⟩
      · split
        · exact ⟨SLe.trans sr ⟨World.Le.refl _, id⟩, hw, hd⟩
        · obtain ⟨s2, hw2, hd2⟩ := ih { d1 with rb := 0 } w1
          refine ⟨sr.trans (SLe.trans ?_ s2), hw2.trans hw, hd2.trans hd⟩
          exact ⟨World.Le.refl _, id⟩

theorem sockShutdown_dirty : ∀ (fuel : Nat) (w : World), (sockShutdown fuel w).2.dirty = w.dirty := by
  intro fuel
  induction fuel with
  | zero => intro w; rfl
  | succ fuel ih =>
    intro w
    unfold sockShutdown
    simp only
    split
    · rfl
    · rfl
    · split
      · next w' hb =>
        rw [ih]
        exact (dirty_of_barrier hb : w'.dirty = ({ w with shutdownCalled := true } : World).dirty)
      · next w' hb =>
        exact (dirty_of_barrier hb : w'.dirty = ({ w with shutdownCalled := true } : World).dirty)


/-! ### the branches of `Dispatcher::poll` -/

/-- the task is registered with the socket's read side (or the model ran out of fuel) -/
def ReadReg (w : World) : Prop :=
  (w.sem .r).waiting = true ∨ w.silentWaiting = true ∨ w.fuelOut = true

theorem dFlush_flags (d : D) (w : World) : (dFlush d w).2.1.flags = d.flags := by
  unfold dFlush
  simp only
  split
  · rfl
  · rfl
  · split <;> rfl

theorem post_of_eq3 {α : Type} {P : α → D → World → Prop} {a : α} {d' : D} {w' : World}
    {p : α × D × World} (h : p = (a, d', w')) (hp : P p.1 p.2.1 p.2.2) : P a d' w' := by
  subst h; exact hp

theorem dFlush_upgraded (d : D) (w : World) : (dFlush d w).2.1.upgraded = d.upgraded := by
  unfold dFlush
  simp only
  split
  · rfl
  · rfl
  · split <;> rfl

/-- a `Pending` result of the upgraded connection: the inherited bytes + marker are being
written; the waker is stored with the socket's write side -/
theorem upgradeBranch_spec (d : D) (w : World) (d' : D) (w' : World)
    (h : upgradeBranch d w = (.pending, d', w')) :
    FlushOK d' w' ∧ d'.upgraded = d.upgraded := by
  unfold upgradeBranch at h
  split at h
  · simp at h
  · next d1 w1 hf =>
    simp at h; obtain ⟨rfl, rfl⟩ := h
    have pf : FlushPost .pending d1 w1 := post_of_eq3 hf (dFlush_spec d w).2
    have hu : d1.upgraded = d.upgraded := by have := dFlush_upgraded d w; rw [hf] at this; exact this
    exact ⟨FlushOK.of_post pf (by simp), hu⟩
  · simp at h

theorem maxBuf_pos : 0 < Consts.h1MaxBufferSize := by decide

theorem lingerLoop_pending (e : Env) : ∀ (fuel : Nat) (d : D) (w : World) (d' : D) (w' : World),
    lingerLoop e fuel d w = (.pending, d', w') →
    d'.flags.readDisc = true ∨ ReadReg w' := by
  intro fuel
  induction fuel with
  | zero =>
    intro d w d' w' h; simp [lingerLoop] at h; obtain ⟨_, rfl⟩ := h
    exact Or.inr (Or.inr (Or.inr rfl))
  | succ fuel ih =>
    intro d w d' w' h
    unfold lingerLoop at h
    split at h
    · simp at h
    · next disc d1 w1 hr =>
      have hp : ReadPost (.ok disc) d1 w1 := post_of_eq3 hr (readAvailable_spec e d w).2
      simp only at h
      split at h
      · simp at h
      · next hd =>
        split at h
        · next hprog =>
          -- not progressed: `rb = 0`, so `read_available` ended at a registered `Pending`
          simp at h; obtain ⟨rfl, rfl⟩ := h
          have hrb : d1.rb = 0 := by simpa using hprog
          have hdisc : disc = false := by simpa using hd
          subst hdisc
          rcases hp rfl with h1 | h1 | h1 | h1 | h1
          · exact Or.inl h1
          · exact Or.inr (Or.inl h1)
          · exact Or.inr (Or.inr (Or.inl h1))
          · have := maxBuf_pos; omega
          · exact Or.inr (Or.inr (Or.inr h1))
        · exact ih _ _ _ _ h

theorem ensureLingerTimer_same (e : Env) (d : D) (now : Nat) :
    (ensureLingerTimer e d now).2.wlen = d.wlen ∧ (ensureLingerTimer e d now).2.flags = d.flags := by
  unfold ensureLingerTimer
  split
  · exact ⟨rfl, rfl⟩
  · split <;> exact ⟨rfl, rfl⟩

theorem pollLinger_spec (e : Env) (d : D) (w : World) (d' : D) (w' : World)
    (h : pollLinger e d w = (.pending, d', w')) :
    FlushOK d' w' ∧
    (d'.flags.linger = d.flags.linger ∨ d'.flags.readDisc = true ∨ ReadReg w') := by
  unfold pollLinger at h
  obtain ⟨_, hfl2⟩ := ensureLingerTimer_same e d w.now
  split at h
  · simp at h
  · next d0 he =>
    rw [he] at hfl2; simp only at hfl2
    split at h
    · simp at h
    · next d1 w1 hf =>
      simp at h; obtain ⟨rfl, rfl⟩ := h
      have pf : FlushPost .pending d1 w1 := post_of_eq3 hf (dFlush_spec d0 w).2
      have hfl : d1.flags = d0.flags := by have := dFlush_flags d0 w; rw [hf] at this; exact this
      exact ⟨FlushOK.of_post pf (by simp), Or.inl (by rw [hfl, hfl2])⟩
    · next d1 w1 hf =>
      have pf : FlushPost .ready d1 w1 := post_of_eq3 hf (dFlush_spec d0 w).2
      obtain ⟨hw0, hd0⟩ := pf.1 rfl
      obtain ⟨_, hwl, hdl⟩ := lingerLoop_spec e (w1.wireLeft + w1.rops.length + 4) d1 w1
      rw [h] at hwl hdl
      exact ⟨Or.inl ⟨by rw [hwl]; exact hw0, by rw [hdl]; exact hd0⟩,
        Or.inr (lingerLoop_pending _ _ _ _ _ _ h)⟩

theorem shutdownBranch_spec (e : Env) (d : D) (w : World) (d' : D) (w' : World)
    (h : shutdownBranch e d w = (.pending, d', w')) :
    FlushOK d' w' ∧ d'.flags = d.flags := by
  unfold shutdownBranch at h
  have hfl0 := (ensureLingerTimer_same e d w.now).2
  split at h
  · simp at h
  · split at h
    · simp at h
    · next d1 w1 hf =>
      simp at h; obtain ⟨rfl, rfl⟩ := h
      have pf : FlushPost .pending d1 w1 := post_of_eq3 hf (dFlush_spec _ w).2
      have hfl : d1.flags = (ensureLingerTimer e d w.now).2.flags := by
        have := dFlush_flags (ensureLingerTimer e d w.now).2 w; rw [hf] at this; exact this
      exact ⟨FlushOK.of_post pf (by simp), hfl.trans hfl0⟩
    · next d1 w1 hf =>
      have pf : FlushPost .ready d1 w1 := post_of_eq3 hf (dFlush_spec _ w).2
      have hfl : d1.flags = (ensureLingerTimer e d w.now).2.flags := by
        have := dFlush_flags (ensureLingerTimer e d w.now).2 w; rw [hf] at this; exact this
      obtain ⟨hw0, hd0⟩ := pf.1 rfl
      split at h
      · simp at h
      · next w2 hs =>
        simp at h; obtain ⟨rfl, rfl⟩ := h
        have := sockShutdown_dirty (w1.sops.length + 1) w1
        rw [hs] at this
        exact ⟨Or.inl ⟨hw0, by rw [this]; exact hd0⟩, hfl.trans hfl0⟩

theorem afterRead_spec (e : Env) (sd : Bool) (d : D) (w : World) :
    SLe d w (afterRead e sd d w).1 (afterRead e sd d w).2 ∧
    (sd = true → (afterRead e sd d w).1.flags.readDisc = true) := by
  unfold afterRead
  simp only
  generalize hd1 : (if (decide (d.rb > 0) && d.flags.keepAlive) = true then
      { d with flags := { d.flags with keepAlive := false }, kaTimer := Timer.inactive } else d) = d1
  have s1 : SLe d w d1 w := by
    subst hd1; refine ⟨World.Le.refl _, fun h => ?_⟩; split <;> exact h
  generalize hd2 : (if (!d1.flags.started) = true then
      match e.cfg.headMs with
      | some ms => { ({ d1 with flags := { d1.flags with started := true } } : D) with headTimer := Timer.active (w.now + ms) }
      | none => { d1 with flags := { d1.flags with started := true } }
    else d1) = d2
  have s2 : SLe d1 w d2 w := by
    subst hd2; refine ⟨World.Le.refl _, fun h => ?_⟩
    split
    · split <;> exact h
    · exact h
  have s3 := pollRequest_sle e d2 w
  generalize pollRequest e d2 w = pr at s3
  obtain ⟨u, d3, w3⟩ := pr
  simp only at s3 ⊢
  split
  · next hsd =>
    refine ⟨?_, fun _ => ?_⟩
    · refine s1.trans (s2.trans (s3.trans ?_))
      split
      · exact ⟨(setError_le _ _ _).trans (feedEof_le _ _), fun _ => rfl⟩
      · exact ⟨World.Le.refl _, fun _ => rfl⟩
    · split <;> rfl
  · next hsd =>
    exact ⟨s1.trans (s2.trans s3), fun h => absurd h hsd⟩

theorem FlushOK.mono {d d' : D} {w w' : World} (h : FlushOK d w) (hw : d'.wlen = d.wlen)
    (hd : w'.dirty = w.dirty) (hl : w.Le w') : FlushOK d' w' := by
  rcases h with ⟨h1, h2⟩ | h | h | h
  · exact Or.inl ⟨by rw [hw]; exact h1, by rw [hd]; exact h2⟩
  · exact Or.inr (Or.inl (hl.sem _ h))
  · exact Or.inr (Or.inr (Or.inl (hl.sem _ h)))
  · exact Or.inr (Or.inr (Or.inr (hl.fuel h)))

/-- the normal-mode read-side guarantee -/
def ReadOK (d : D) (w : World) : Prop :=
  d.flags.readDisc = true ∨ ReadReg w ∨ d.rb ≥ Consts.h1MaxBufferSize

theorem tailFlags_spec (e : Env) (d : D) (w : World) :
    SLe d w (tailFlags e d) w ∧ (tailFlags e d).wlen = d.wlen ∧ (tailFlags e d).rb = d.rb := by
  unfold tailFlags
  split
  · exact ⟨⟨World.Le.refl _, id⟩, rfl, rfl⟩
  · exact ⟨SLe.refl _ _, rfl, rfl⟩

theorem tailDecide_ret (fixed full qfull : Bool) (d : D) (w : World) (r : PollRes) (d' : D)
    (w' : World) (h : tailDecide fixed full qfull d w = .ret r d' w') :
    SLe d w d' w' ∧ d'.wlen = d.wlen ∧ w'.dirty = w.dirty ∧ d'.rb = d.rb ∧
    (r = .pending → w'.woken = false →
      d'.flags.linger = false ∧ d'.flags.shutdown = false ∧
      (fixed = true →
        ¬(full = true ∧ d'.rb < Consts.h1MaxBufferSize ∧ d'.flags.readDisc = false) ∧
        ¬(qfull = true ∧ d'.messages.length < Consts.h1MaxPipelined ∧ d'.rb > 0 ∧
          d'.flags.readDisc = false))) := by
  unfold tailDecide at h
  split at h
  · simp at h; obtain ⟨rfl, rfl, rfl⟩ := h
    exact ⟨⟨World.Le.refl _, id⟩, rfl, rfl, rfl, by intro h; simp at h⟩
  · split at h
    · simp at h
    · split at h
      · simp at h
      · split at h
        · simp at h; obtain ⟨rfl, rfl, rfl⟩ := h
          exact ⟨⟨le_wake _, id⟩, rfl, rfl, rfl, by intro _ h; simp [World.wake] at h⟩
        · next hcond =>
          simp at h; obtain ⟨rfl, rfl, rfl⟩ := h
          refine ⟨SLe.refl _ _, rfl, rfl, rfl, fun _ _ => ?_⟩
          simp only [Bool.or_eq_true, not_or, Bool.not_eq_true] at hcond
          obtain ⟨⟨hA, hl⟩, hs⟩ := hcond
          refine ⟨hl, hs, ?_⟩
          intro hfx
          unfold fixWake at hA
          constructor
          · rintro ⟨hf, hlt, hrd⟩
            simp [hfx, hf, hlt, hrd] at hA
          · rintro ⟨hq, hm, hrb, hrd⟩
            simp [hfx, hq, hm, hrb, hrd] at hA

theorem tailDecide_again (fixed full qfull : Bool) (d : D) (w : World) (d' : D)
    (w' : World) (h : tailDecide fixed full qfull d w = .again d' w') :
    SLe d w d' w' ∧ d'.wlen = d.wlen ∧ w'.dirty = w.dirty := by
  unfold tailDecide at h
  split at h
  · simp at h
  · split at h
    · simp at h; obtain ⟨rfl, rfl⟩ := h
      exact ⟨⟨World.Le.refl _, id⟩, rfl, rfl⟩
    · split at h
      · simp at h; obtain ⟨rfl, rfl⟩ := h
        exact ⟨SLe.refl _ _, rfl, rfl⟩
      · split at h <;> simp at h

theorem normalTail_ret (e : Env) (full qfull : Bool) (d : D) (w : World) (r : PollRes) (d' : D)
    (w' : World) (h : normalTail e full qfull d w = .ret r d' w') :
    SLe d w d' w' ∧ d'.wlen = d.wlen ∧ w'.dirty = w.dirty ∧ d'.rb = d.rb ∧
    (r = .pending → w'.woken = false →
      d'.flags.linger = false ∧ d'.flags.shutdown = false ∧
      (e.cfg.fixed = true →
        ¬(full = true ∧ d'.rb < Consts.h1MaxBufferSize ∧ d'.flags.readDisc = false) ∧
        ¬(qfull = true ∧ d'.messages.length < Consts.h1MaxPipelined ∧ d'.rb > 0 ∧
          d'.flags.readDisc = false))) := by
  unfold normalTail at h
  split at h
  · simp at h; obtain ⟨rfl, rfl, rfl⟩ := h
    exact ⟨SLe.refl _ _, rfl, rfl, rfl, by intro h; simp at h⟩
  · obtain ⟨s1, hw1, hrb1⟩ := tailFlags_spec e d w
    obtain ⟨s2, hw2, hd2, hrb2, hp⟩ := tailDecide_ret _ _ _ _ _ _ _ _ h
    exact ⟨s1.trans s2, hw2.trans hw1, hd2, hrb2.trans hrb1, hp⟩

theorem normalTail_again (e : Env) (full qfull : Bool) (d : D) (w : World) (d' : D)
    (w' : World) (h : normalTail e full qfull d w = .again d' w') :
    SLe d w d' w' ∧ d'.wlen = d.wlen ∧ w'.dirty = w.dirty := by
  unfold normalTail at h
  split at h
  · simp at h
  · obtain ⟨s1, hw1, _⟩ := tailFlags_spec e d w
    obtain ⟨s2, hw2, hd2⟩ := tailDecide_again _ _ _ _ _ _ _ h
    exact ⟨s1.trans s2, hw2.trans hw1, hd2⟩


/-! ### `Dispatcher::poll` -/

theorem lingerBranch_spec (e : Env) (d : D) (w : World) (d' : D) (w' : World)
    (h : lingerBranch e d w = (.pending, d', w')) (hw : w'.woken = false) :
    FlushOK d' w' ∧
    (d'.flags.linger = d.flags.linger ∨ d'.flags.readDisc = true ∨ ReadReg w') := by
  unfold lingerBranch at h
  split at h
  · simp at h
  · simp at h; obtain ⟨_, rfl⟩ := h; simp [World.wake] at hw
  · next d1 w1 hl =>
    simp at h; obtain ⟨rfl, rfl⟩ := h
    exact pollLinger_spec e d w _ _ hl

/-- The two registration guarantees of one `Dispatcher::poll` call that returns `Pending`. -/
theorem poll_spec (e : Env) (F : Nat) : ∀ (depth : Nat) (d : D) (w : World) (d' : D) (w' : World),
    poll e F depth d w = (.pending, d', w') → w'.woken = false →
    FlushOK d' w' ∧
    (e.cfg.fixed = true → d'.flags.linger = false → d'.flags.shutdown = false →
      d'.upgraded = false → ReadOK d' w') := by
  intro depth
  induction depth with
  | zero =>
    intro d w d' w' h _
    simp [poll] at h; obtain ⟨rfl, rfl⟩ := h
    exact ⟨Or.inr (Or.inr (Or.inr rfl)), fun _ _ _ _ => Or.inr (Or.inl (Or.inr (Or.inr rfl)))⟩
  | succ depth ih =>
    intro d w d' w' h hw
    unfold poll at h
    split at h
    · simp at h
    · next d0 w0 ht =>
      split at h
      · -- LINGER
        next hlin =>
        obtain ⟨hf, hp⟩ := lingerBranch_spec e d0 w0 d' w' h hw
        refine ⟨hf, fun _ hl _ _ => ?_⟩
        rcases hp with h1 | h1 | h1
        · rw [hlin] at h1; rw [h1] at hl; simp at hl
        · exact Or.inl h1
        · exact Or.inr (Or.inl h1)
      · split at h
        · -- SHUTDOWN
          next hsd =>
          obtain ⟨hf, hfl⟩ := shutdownBranch_spec e d0 w0 d' w' h
          refine ⟨hf, fun _ _ hs _ => ?_⟩
          rw [hfl, hsd] at hs; simp at hs
        · -- normal
          split at h
          · simp at h
          · next sd d1 w1 hr =>
            have hpost : ReadPost (.ok sd) d1 w1 := post_of_eq3 hr (readAvailable_spec e d0 w0).2
            simp only at h
            obtain ⟨s2, hsd⟩ := afterRead_spec e sd d1 w1
            generalize afterRead e sd d1 w1 = ar at h s2 hsd
            obtain ⟨d2, w2⟩ := ar
            simp only at h s2 hsd
            obtain ⟨s3, hf3⟩ := respFlushLoop_spec e F F d2 w2
            generalize respFlushLoop e F F d2 w2 = rf at h s3 hf3
            obtain ⟨k, d3, w3⟩ := rf
            simp only at h s3 hf3
            split at h
            · -- `PollResponse::Upgrade` (or an error)
              split at h
              · obtain ⟨hfu, hu⟩ := upgradeBranch_spec _ _ _ _ h
                refine ⟨hfu, fun _ _ _ hnu => ?_⟩
                rw [hu] at hnu; simp [enterUpgrade, D.produce] at hnu
              · simp at h
            · next heq =>
              simp at heq; obtain ⟨rfl, rfl, rfl⟩ := heq
              have hf3 := hf3 rfl
              split at h
              · next r d4 w4 hn =>
                simp at h; obtain ⟨rfl, rfl, rfl⟩ := h
                obtain ⟨s4, hw4, hd4, hrb4, hp4⟩ := normalTail_ret _ _ _ _ _ _ _ _ hn
                refine ⟨hf3.mono hw4 hd4 s4.world, fun hfx _ _ _ => ?_⟩
                obtain ⟨_, _, hA⟩ := hp4 rfl hw
                have hA := (hA hfx).1
                have s24 := s2.trans (s3.trans s4)
                by_cases hfull : d1.rb ≥ Consts.h1MaxBufferSize
                · -- the socket was skipped at the cap: either still at the cap or disconnected
                  by_cases hrd : d4.flags.readDisc = true
                  · exact Or.inl hrd
                  · refine Or.inr (Or.inr ?_)
                    by_cases hlt : d4.rb < Consts.h1MaxBufferSize
                    · exact absurd ⟨by simpa using hfull, hlt, by simpa using hrd⟩ hA
                    · omega
                · -- the socket was polled: it answered Pending (registered) or EOF (disconnect)
                  cases sd with
                  | true => exact Or.inl (s3.trans s4 |>.readDisc (hsd rfl))
                  | false =>
                    rcases hpost rfl with h1 | h1 | h1 | h1 | h1
                    · exact Or.inl (s24.readDisc h1)
                    · exact Or.inr (Or.inl (Or.inl (s24.world.sem _ h1)))
                    · exact Or.inr (Or.inl (Or.inr (Or.inl (s24.world.silent h1))))
                    · exact absurd h1 hfull
                    · exact Or.inr (Or.inl (Or.inr (Or.inr (s24.world.fuel h1))))
              · next d4 w4 hn =>
                exact ih _ _ _ _ h hw


theorem shutdownBranch_registered (e : Env) (d : D) (w : World) (d' : D) (w' : World)
    (h : shutdownBranch e d w = (.pending, d', w')) :
    (w'.sem .w).waiting = true ∨ (w'.sem .f).waiting = true ∨ (w'.sem .s).waiting = true ∨
      w'.fuelOut = true := by
  unfold shutdownBranch at h
  split at h
  · simp at h
  · split at h
    · simp at h
    · next d1 w1 hf =>
      simp at h; obtain ⟨rfl, rfl⟩ := h
      have pf : FlushPost .pending d1 w1 := post_of_eq3 hf (dFlush_spec _ w).2
      rcases pf.2 rfl with h | h | h
      · exact Or.inl h
      · exact Or.inr (Or.inl h)
      · exact Or.inr (Or.inr (Or.inr h))
    · next d1 w1 hf =>
      split at h
      · simp at h
      · next w2 hs =>
        simp at h; obtain ⟨rfl, rfl⟩ := h
        rcases sockShutdown_pending _ _ _ hs with h | h
        · exact Or.inr (Or.inr (Or.inl h))
        · exact Or.inr (Or.inr (Or.inr h))

/-- unfolding `pollTop`: a `Pending` verdict comes from a `poll` that did not run out of fuel -/
theorem pollTop_pending {e : Env} {F : Nat} {d d' : D} {w w' : World}
    (hnu : d.upgraded = false) (h : pollTop e F d w = (.pending, d', w')) :
    poll e F 2 d w = (.pending, d', w') ∧ w'.fuelOut = false := by
  unfold pollTop at h
  simp only [hnu, Bool.false_eq_true, if_false] at h
  generalize poll e F 2 d w = p at h
  obtain ⟨r, d1, w1⟩ := p
  simp only at h
  split at h
  · simp at h
  · next hf =>
    simp at h; obtain ⟨rfl, rfl, rfl⟩ := h
    exact ⟨rfl, by simpa using hf⟩


/-! ### the linger flag survives the read side -/

theorem readLoop_linger (e : Env) : ∀ (fuel : Nat) (d : D) (w : World) (rs : Bool),
    (readLoop e fuel d w rs).2.1.flags.linger = d.flags.linger := by
  intro fuel
  induction fuel with
  | zero => intro d w rs; rfl
  | succ fuel ih =>
    intro d w rs
    unfold readLoop
    split
    · split
      · split <;> rfl
      · rfl
    · split
      · next n w' hr =>
        rw [ih]
        simp only
        repeat' split
        all_goals rfl
      · simp only
        repeat' split
        all_goals rfl
      · rfl
      · split <;> rfl

theorem readAvailable_linger (e : Env) (d : D) (w : World) :
    (readAvailable e d w).2.1.flags.linger = d.flags.linger := by
  unfold readAvailable
  split
  · rfl
  · exact readLoop_linger _ _ _ _ _

theorem lingerLoop_pending_linger (e : Env) : ∀ (fuel : Nat) (d : D) (w : World) (d' : D) (w' : World),
    lingerLoop e fuel d w = (.pending, d', w') → d'.flags.linger = d.flags.linger ∨ w'.fuelOut = true := by
  intro fuel
  induction fuel with
  | zero => intro d w d' w' h; simp [lingerLoop] at h; obtain ⟨_, rfl⟩ := h; exact Or.inr rfl
  | succ fuel ih =>
    intro d w d' w' h
    unfold lingerLoop at h
    have hl := readAvailable_linger e d w
    split at h
    · simp at h
    · next disc d1 w1 hr =>
      rw [hr] at hl
      simp only at h hl
      split at h
      · simp at h
      · split at h
        · simp at h; obtain ⟨rfl, rfl⟩ := h; exact Or.inl hl
        · rcases ih _ _ _ _ h with h1 | h1
          · exact Or.inl (h1.trans hl)
          · exact Or.inr h1


/-! ### the payload channel wakes the task that polled it last (`Inner::register`, will_wake) -/

theorem chan_setChan (w : World) (rid : Nat) (c : Chan) (h : rid < w.chans.length) :
    (w.setChan rid c).chan rid = c := by
  simp [World.chan, World.setChan, List.getD, h]

theorem setChan_length (w : World) (rid : Nat) (c : Chan) :
    (w.setChan rid c).chans.length = w.chans.length := by
  simp [World.setChan]

theorem chanWakeIo_chan (w : World) (rid : Nat) (h : rid < w.chans.length) :
    ((chanWakeIo w rid).chan rid).task = (w.chan rid).task ∧
    ((chanWakeIo w rid).chan rid).readerAlive = (w.chan rid).readerAlive := by
  unfold chanWakeIo
  simp only
  split
  · have : rid < ({ w with woken := true } : World).chans.length := h
    rw [chan_setChan _ _ _ this]
    exact ⟨rfl, rfl⟩
  · exact ⟨rfl, rfl⟩

theorem chanWakeIo_length (w : World) (rid : Nat) :
    (chanWakeIo w rid).chans.length = w.chans.length := by
  unfold chanWakeIo
  simp only
  split
  · simp [World.setChan]
  · rfl

theorem chanPollNext_length (w : World) (rid : Nat) (who : Who) :
    (chanPollNext w rid who).2.chans.length = w.chans.length := by
  unfold chanPollNext
  simp only
  split
  · rw [chanWakeIo_length, setChan_length]
  · split
    · rw [setChan_length]
    · split
      · rfl
      · rw [chanWakeIo_length, setChan_length]

/-- after a `poll_next` that returned `Pending`, the stored reader waker is the poller's —
whatever waker was stored before (`register` replaces a waker that would not wake the caller) -/
theorem chanPollNext_registers (w : World) (rid : Nat) (who : Who) (h : rid < w.chans.length)
    (hp : (chanPollNext w rid who).1 = .pending) :
    ((chanPollNext w rid who).2.chan rid).task = some who ∧
    ((chanPollNext w rid who).2.chan rid).readerAlive = (w.chan rid).readerAlive := by
  unfold chanPollNext at hp ⊢
  simp only at hp ⊢
  split
  · next hi => simp [hi] at hp
  · next hi =>
    simp only [hi] at hp
    split
    · next he => simp [he] at hp
    · next he =>
      simp only [he] at hp
      split
      · next hf => simp [hf] at hp
      · have hl : rid < (w.setChan rid { w.chan rid with needRead := true, task := some who }).chans.length := by
          rw [setChan_length]; exact h
        obtain ⟨h1, h2⟩ := chanWakeIo_chan _ rid hl
        rw [h1, h2, chan_setChan _ _ _ h]
        exact ⟨rfl, rfl⟩

/-- the wake flag of task `who` -/
def wokenOf (who : Who) (w : World) : Bool :=
  match who with
  | .conn => w.woken
  | .consumer => w.consumerWoken

theorem chanWake_wakes (w : World) (rid : Nat) (who : Who) (ht : (w.chan rid).task = some who) :
    wokenOf who (chanWake w rid) = true := by
  unfold chanWake
  simp only [ht]
  cases who <;> rfl

/-- `feed_data` wakes exactly the task whose waker is stored -/
theorem feedData_wakes (w : World) (rid n : Nat) (who : Who) (h : rid < w.chans.length)
    (ha : (w.chan rid).readerAlive = true) (ht : (w.chan rid).task = some who) :
    wokenOf who (feedData w rid n) = true := by
  unfold feedData
  simp only [ha, Bool.not_true, Bool.false_eq_true, if_false]
  apply chanWake_wakes
  rw [chan_setChan _ _ _ h]
  exact ht

end ActixModel.DispWake
