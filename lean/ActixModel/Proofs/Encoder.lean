import ActixModel.Model.Encoder
