import ActixModel.Model.Encoder
/-
Helper lemmas for C13 (encoder): the bytes still to come from a state (`rem`) are an invariant
of `poll_next`, every non-final poll consumes part of a finite measure.
-/
namespace ActixModel.Encoder
open ActixModel.Util

variable {σ : Type} {ip : Bytes → Bool}

/-- everything encoder state `e` will still emit if it is fed `xs` (write, take per chunk) and
then finished -/
def encRest (c : Codec σ) (e : σ) : List Bytes → Bytes
  | [] => c.finish e
  | x :: xs => (c.take (c.write e x)).1 ++ encRest c (c.take (c.write e x)).2 xs

/-- bytes still to be emitted from state `s` when the body will answer `body` -/
def rem (c : Codec σ) (s : Enc σ) (body : List BodyEv) : Bytes :=
  if s.eof then [] else
  match s.fut with
  | some e' => (c.take e').1 ++ encRest c (c.take e').2 (chunksOf body)
  | none =>
    match s.encoder with
    | some e => encRest c e (chunksOf body)
    | none => (chunksOf body).flatten

def outBytes : Out → Bytes
  | .chunk b => b
  | _ => []

theorem flatten_outChunks (os : List Out) : (outChunks os).flatten = (os.map outBytes).flatten := by
  induction os with
  | nil => rfl
  | cons o t ih => cases o <;> simp [outChunks, outBytes, ih]

/-! ### `futStep` -/

theorem futStep_ret {c : Codec σ} {s s' : Enc σ} {joins j' : List Nat} {o : Out} {body : List BodyEv}
    (hs : s.eof = false) (h : futStep c s joins = .ret o s' j') :
    outBytes o ++ rem c s' body = rem c s body ∧ s'.eof = false ∧ o ≠ .err ∧ o ≠ .done ∧
      (joins.sum + (if s.fut.isSome then 1 else 0) >
        j'.sum + (if s'.fut.isSome then 1 else 0)) := by
  unfold futStep at h
  split at h
  · simp at h
  · rename_i e' hf
    split at h
    · rename_i n js
      simp only [FutStep.ret.injEq] at h
      obtain ⟨rfl, rfl, rfl⟩ := h
      simp [outBytes, hs, hf]
    · dsimp only at h
      split at h
      · simp at h
      · rename_i hne
        simp only [FutStep.ret.injEq] at h
        obtain ⟨rfl, rfl, rfl⟩ := h
        refine ⟨?_, hs, by simp, by simp, ?_⟩
        · simp [rem, hs, hf, outBytes]
        · simp only [hf, Option.isSome_some, ↓reduceIte, Option.isSome_none, Bool.false_eq_true]
          cases joins with
          | nil => simp
          | cons a t => simp; omega

theorem futStep_go {c : Codec σ} {s s' : Enc σ} {joins j' : List Nat} {body : List BodyEv}
    (hs : s.eof = false) (h : futStep c s joins = .go s' j') :
    rem c s' body = rem c s body ∧ s'.eof = false ∧ s'.fut = none ∧
      (joins.sum + (if s.fut.isSome then 1 else 0) ≥ j'.sum) := by
  unfold futStep at h
  split at h
  · rename_i hf
    simp only [FutStep.go.injEq] at h
    obtain ⟨rfl, rfl⟩ := h
    exact ⟨rfl, hs, hf, by simp⟩
  · rename_i e' hf
    split at h
    · simp at h
    · dsimp only at h
      split at h
      · rename_i hem
        simp only [FutStep.go.injEq] at h
        obtain ⟨rfl, rfl⟩ := h
        refine ⟨?_, hs, rfl, ?_⟩
        · simp [rem, hs, hf, List.isEmpty_iff.mp hem]
        · cases joins with
          | nil => simp
          | cons a t => simp; omega
      · simp at h

/-! ### `poll_next` -/

/-- termination measure: every poll that is not final strictly decreases it -/
def mu (s : Enc σ) (body : List BodyEv) (joins : List Nat) : Nat :=
  2 * body.length + joins.sum + (if s.fut.isSome then 1 else 0) + (if s.eof then 0 else 1)

theorem rem_nofut {c : Codec σ} {s : Enc σ} {body : List BodyEv} (he : s.eof = false) (hf : s.fut = none) :
    rem c s body = match s.encoder with
      | some e => encRest c e (chunksOf body)
      | none => (chunksOf body).flatten := by
  simp [rem, he, hf]

/-- one `poll_next`: output ++ what is still to come = what was still to come -/
theorem pollNext_rem (ip : Bytes → Bool) (c : Codec σ) (s : Enc σ) (body : List BodyEv) (joins : List Nat) :
    hasErr body = false →
      outBytes (pollNextAt ip c s body joins).1 ++
          rem c (pollNextAt ip c s body joins).2.1 (pollNextAt ip c s body joins).2.2.1 = rem c s body ∧
      hasErr (pollNextAt ip c s body joins).2.2.1 = false ∧ (pollNextAt ip c s body joins).1 ≠ .err := by
  fun_induction pollNextAt ip c s body joins
  case case1 h => intro hb; simp [outBytes, rem, h, hb]
  case case2 s body joins h o s' j' hfs =>
    intro hb
    have := futStep_ret (body := body) (by simpa using h) hfs
    exact ⟨this.1, hb, this.2.2.1⟩
  case case3 s joins h s' j' hfs e he ch hem =>
    intro _
    have hg := futStep_go (body := []) (by simpa using h) hfs
    refine ⟨?_, rfl, by simp⟩
    rw [← hg.1, rem_nofut hg.2.1 hg.2.2.1, he]
    have hch : c.finish e = [] := List.isEmpty_iff.mp hem
    simp [outBytes, rem, hg.2.1, hg.2.2.1, chunksOf, encRest, hch]
  case case4 s joins h s' j' hfs e he ch hem =>
    intro _
    have hg := futStep_go (body := []) (by simpa using h) hfs
    refine ⟨?_, rfl, by simp⟩
    rw [← hg.1, rem_nofut hg.2.1 hg.2.2.1, he]
    simp [outBytes, rem, chunksOf, encRest, ch]
  case case5 s joins h s' j' hfs he =>
    intro _
    have hg := futStep_go (body := []) (by simpa using h) hfs
    refine ⟨?_, rfl, by simp⟩
    rw [← hg.1]
    simp [outBytes]
  case case6 => intro hb; simp [hasErr] at hb
  case case7 s joins h s' j' hfs rest =>
    intro hb
    have hg := futStep_go (body := .pending :: rest) (by simpa using h) hfs
    have hg' := futStep_go (body := rest) (by simpa using h) hfs
    refine ⟨?_, by simpa [hasErr] using hb, by simp⟩
    rw [← hg.1, rem_nofut hg.2.1 hg.2.2.1, rem_nofut hg.2.1 hg.2.2.1]
    simp [outBytes, chunksOf]
  case case8 s joins h s' j' hfs b rest e he hlt r s2 hem ih =>
    intro hb
    have hb' : hasErr rest = false := by simpa [hasErr] using hb
    have hg := futStep_go (body := .chunk b :: rest) (by simpa using h) hfs
    obtain ⟨ih1, ih2, ih3⟩ := ih hb'
    refine ⟨?_, ih2, ih3⟩
    rw [ih1, ← hg.1, rem_nofut hg.2.1 hg.2.2.1, he]
    have hs2 : rem c s2 rest = encRest c r.2 (chunksOf rest) := by
      rw [rem_nofut (by exact hg.2.1) (by exact hg.2.2.1)]
    rw [hs2]
    simp only [chunksOf, encRest]
    have : (c.take (c.write e b)).1 = [] := List.isEmpty_iff.mp hem
    simp [this, r]
  case case9 s joins h s' j' hfs b rest e he hlt r s2 hem =>
    intro hb
    have hb' : hasErr rest = false := by simpa [hasErr] using hb
    have hg := futStep_go (body := .chunk b :: rest) (by simpa using h) hfs
    refine ⟨?_, hb', by simp⟩
    rw [← hg.1, rem_nofut hg.2.1 hg.2.2.1, he]
    have hs2 : rem c s2 rest = encRest c r.2 (chunksOf rest) := by
      rw [rem_nofut (by exact hg.2.1) (by exact hg.2.2.1)]
    simp only [hs2, outBytes, chunksOf, encRest, r]
  case case10 s joins h s' j' hfs b rest e he hge ih =>
    intro hb
    have hb' : hasErr rest = false := by simpa [hasErr] using hb
    have hg := futStep_go (body := .chunk b :: rest) (by simpa using h) hfs
    obtain ⟨ih1, ih2, ih3⟩ := ih hb'
    refine ⟨?_, ih2, ih3⟩
    rw [ih1, ← hg.1, rem_nofut hg.2.1 hg.2.2.1, he]
    simp [rem, hg.2.1, chunksOf, encRest]
  case case11 s joins h s' j' hfs b rest he =>
    intro hb
    have hb' : hasErr rest = false := by simpa [hasErr] using hb
    have hg := futStep_go (body := .chunk b :: rest) (by simpa using h) hfs
    have hg' := futStep_go (body := rest) (by simpa using h) hfs
    refine ⟨?_, hb', by simp⟩
    rw [← hg.1, rem_nofut hg.2.1 hg.2.2.1, rem_nofut hg.2.1 hg.2.2.1, he]
    simp [outBytes, chunksOf]

/-- every poll that returns a chunk or Pending uses up part of the finite measure -/
theorem pollNext_mu (ip : Bytes → Bool) (c : Codec σ) (s : Enc σ) (body : List BodyEv) (joins : List Nat) :
    (pollNextAt ip c s body joins).1 ≠ .done → (pollNextAt ip c s body joins).1 ≠ .err →
      mu (pollNextAt ip c s body joins).2.1 (pollNextAt ip c s body joins).2.2.1 (pollNextAt ip c s body joins).2.2.2
        < mu s body joins := by
  fun_induction pollNextAt ip c s body joins
  case case1 => intro h; simp at h
  case case2 s body joins h o s' j' hfs =>
    intro _ _
    have := futStep_ret (body := body) (by simpa using h) hfs
    have he : s.eof = false := by simpa using h
    simp only [mu, this.2.1, he]
    have := this.2.2.2.2
    simp only [Bool.false_eq_true, ↓reduceIte]
    omega
  case case3 => intro h; simp at h
  case case4 s joins h s' j' hfs e he ch hem =>
    intro _ _
    have hg := futStep_go (body := []) (by simpa using h) hfs
    have he : s.eof = false := by simpa using h
    simp only [mu, hg.2.2.1, he, List.length_nil]
    have := hg.2.2.2
    simp
    omega
  case case5 => intro h; simp at h
  case case6 => intro _ h; simp at h
  case case7 s joins h s' j' hfs rest =>
    intro _ _
    have hg := futStep_go (body := rest) (by simpa using h) hfs
    have he : s.eof = false := by simpa using h
    simp only [mu, hg.2.2.1, hg.2.1, he, List.length_cons]
    have := hg.2.2.2
    simp
    omega
  case case8 s joins h s' j' hfs b rest e he hlt r s2 hem ih =>
    intro h1 h2
    have hg := futStep_go (body := rest) (by simpa using h) hfs
    have hs : s.eof = false := by simpa using h
    have := ih h1 h2
    have h2' : mu s2 rest j' ≤ mu s (.chunk b :: rest) joins := by
      have hf2 : s2.fut = none := hg.2.2.1
      have he2 : s2.eof = false := hg.2.1
      simp only [mu, hf2, he2, hs, List.length_cons]
      have := hg.2.2.2
      simp
      omega
    omega
  case case9 s joins h s' j' hfs b rest e he hlt r s2 hem =>
    intro _ _
    have hg := futStep_go (body := rest) (by simpa using h) hfs
    have hs : s.eof = false := by simpa using h
    have hf2 : s2.fut = none := hg.2.2.1
    have he2 : s2.eof = false := hg.2.1
    simp only [mu, hf2, he2, hs, List.length_cons]
    have := hg.2.2.2
    simp
    omega
  case case10 s joins h s' j' hfs b rest e he hge ih =>
    intro h1 h2
    have hg := futStep_go (body := rest) (by simpa using h) hfs
    have hs : s.eof = false := by simpa using h
    have := ih h1 h2
    have h2' : mu (σ := σ) { encoder := none, fut := some (c.write e b), eof := s'.eof } rest j'
        ≤ mu s (.chunk b :: rest) joins := by
      simp only [mu, hg.2.1, hs, List.length_cons]
      have := hg.2.2.2
      simp
      omega
    omega
  case case11 s joins h s' j' hfs b rest he =>
    intro _ _
    have hg := futStep_go (body := rest) (by simpa using h) hfs
    have hs : s.eof = false := by simpa using h
    simp only [mu, hg.2.2.1, hg.2.1, hs, List.length_cons]
    have := hg.2.2.2
    simp
    omega

/-- when `poll_next` answers `Ready(None)` nothing remains to be emitted -/
theorem rem_after_done (ip : Bytes → Bool) (c : Codec σ) (s : Enc σ) (body : List BodyEv) (joins : List Nat) :
    (pollNextAt ip c s body joins).1 = .done →
      rem c (pollNextAt ip c s body joins).2.1 (pollNextAt ip c s body joins).2.2.1 = [] := by
  fun_induction pollNextAt ip c s body joins
  case case1 h => intro _; simp [rem, h]
  case case2 s body joins h o s' j' hfs =>
    intro ho
    have := futStep_ret (body := body) (by simpa using h) hfs
    exact absurd ho this.2.2.2.1
  case case3 s joins h s' j' hfs e he ch hem =>
    intro _
    have hg := futStep_go (body := []) (by simpa using h) hfs
    simp [rem, hg.2.1, hg.2.2.1, chunksOf]
  case case4 => intro h; simp at h
  case case5 s joins h s' j' hfs he =>
    intro _
    have hg := futStep_go (body := []) (by simpa using h) hfs
    simp [rem, hg.2.1, hg.2.2.1, he, chunksOf]
  case case6 => intro h; simp at h
  case case7 => intro h; simp at h
  case case8 s joins h s' j' hfs b rest e he hlt r s2 hem ih =>
    intro h1
    exact ih h1
  case case9 => intro h; simp at h
  case case10 s joins h s' j' hfs b rest e he hge ih =>
    intro h1
    exact ih h1
  case case11 => intro h; simp at h

/-! ### `drive`: the whole stream -/

theorem drive_succ (ip : Bytes → Bool) (c : Codec σ) (fuel : Nat) (s : Enc σ) (body : List BodyEv) (joins : List Nat) :
    driveAt ip c (fuel + 1) s body joins =
      if (pollNextAt ip c s body joins).1 = .done then [.done]
      else if (pollNextAt ip c s body joins).1 = .err then [.err]
      else (pollNextAt ip c s body joins).1 ::
        driveAt ip c fuel (pollNextAt ip c s body joins).2.1 (pollNextAt ip c s body joins).2.2.1
          (pollNextAt ip c s body joins).2.2.2 := by
  simp only [driveAt]
  rcases pollNextAt ip c s body joins with ⟨o, s', b', j'⟩
  cases o <;> simp

/-- with enough polls the stream ends (`Ready(None)` or an error) after at most `mu + 1` polls -/
theorem drive_terminates (ip : Bytes → Bool) (c : Codec σ) : ∀ (fuel : Nat) (s : Enc σ) (body : List BodyEv) (joins : List Nat),
    mu s body joins < fuel →
      ((driveAt ip c fuel s body joins).getLast? = some .done ∨
        (driveAt ip c fuel s body joins).getLast? = some .err) ∧
      (driveAt ip c fuel s body joins).length ≤ mu s body joins + 1 := by
  intro fuel
  induction fuel with
  | zero => intro s body joins h; omega
  | succ n ih =>
    intro s body joins h
    rw [drive_succ]
    by_cases h1 : (pollNextAt ip c s body joins).1 = .done
    · simp [h1]
    · by_cases h2 : (pollNextAt ip c s body joins).1 = .err
      · simp [h1, h2]
      · simp only [h1, h2, ↓reduceIte]
        have hm := pollNext_mu ip c s body joins h1 h2
        have := ih (pollNextAt ip c s body joins).2.1 (pollNextAt ip c s body joins).2.2.1
          (pollNextAt ip c s body joins).2.2.2 (by omega)
        refine ⟨?_, by simp only [List.length_cons]; omega⟩
        rcases this.1 with h' | h'
        · left; rw [List.getLast?_cons]; simp [h']
        · right; rw [List.getLast?_cons]; simp [h']

/-- if the body does not fail, the stream ends with `Ready(None)` and the emitted bytes are
exactly `rem` -/
theorem drive_rem (ip : Bytes → Bool) (c : Codec σ) : ∀ (fuel : Nat) (s : Enc σ) (body : List BodyEv) (joins : List Nat),
    hasErr body = false → mu s body joins < fuel →
      (outChunks (driveAt ip c fuel s body joins)).flatten = rem c s body ∧
      (driveAt ip c fuel s body joins).getLast? = some .done := by
  intro fuel
  induction fuel with
  | zero => intro s body joins _ h; omega
  | succ n ih =>
    intro s body joins hb h
    obtain ⟨hr, hb', hne⟩ := pollNext_rem ip c s body joins hb
    rw [drive_succ]
    by_cases h1 : (pollNextAt ip c s body joins).1 = .done
    · simp only [h1, ↓reduceIte, outChunks, List.flatten_nil, List.getLast?_singleton, and_true]
      -- after `done` nothing is left to come
      rw [h1] at hr
      simp only [outBytes, List.nil_append] at hr
      rw [← hr]
      exact (rem_after_done ip c s body joins h1).symm
    · simp only [h1, hne, ↓reduceIte]
      have hm := pollNext_mu ip c s body joins h1 hne
      obtain ⟨ih1, ih2⟩ := ih (pollNextAt ip c s body joins).2.1 (pollNextAt ip c s body joins).2.2.1
        (pollNextAt ip c s body joins).2.2.2 hb' (by omega)
      refine ⟨?_, by rw [List.getLast?_cons]; simp [ih2]⟩
      rw [← hr, ← ih1]
      cases (pollNextAt ip c s body joins).1 <;> simp [outChunks, outBytes]

/-- once `poll_next` has answered `Ready(None)` it keeps doing so -/
theorem pollNext_done_stable (ip : Bytes → Bool) (c : Codec σ) (s : Enc σ) (body : List BodyEv)
    (joins : List Nat) :
    (pollNextAt ip c s body joins).1 = .done → ∀ joins' : List Nat,
      (pollNextAt ip c (pollNextAt ip c s body joins).2.1 (pollNextAt ip c s body joins).2.2.1 joins').1
        = .done := by
  fun_induction pollNextAt ip c s body joins
  case case1 h => intro _ j; rw [pollNextAt]; simp [h]
  case case2 s body joins h o s' j' hfs =>
    intro ho
    have := futStep_ret (body := body) (by simpa using h) hfs
    exact absurd ho this.2.2.2.1
  case case3 s joins h s' j' hfs e he ch hem =>
    intro _ j
    have hg := futStep_go (body := []) (by simpa using h) hfs
    rw [pollNextAt]; simp [hg.2.1, hg.2.2.1, futStep]
  case case4 => intro h; simp at h
  case case5 s joins h s' j' hfs he =>
    intro _ j
    have hg := futStep_go (body := []) (by simpa using h) hfs
    rw [pollNextAt]; simp [hg.2.1, hg.2.2.1, futStep, he]
  case case6 => intro h; simp at h
  case case7 => intro h; simp at h
  case case8 ih => intro h1; exact ih h1
  case case9 => intro h; simp at h
  case case10 ih => intro h1; exact ih h1
  case case11 => intro h; simp at h

/-- a failing body: `poll_next` never answers `Ready(None)` before the failure is reached, and
the failure stays ahead until it is reported -/
theorem pollNext_err (ip : Bytes → Bool) (c : Codec σ) (s : Enc σ) (body : List BodyEv) (joins : List Nat) :
    s.eof = false → hasErr body = true →
      (pollNextAt ip c s body joins).1 ≠ .done ∧
      ((pollNextAt ip c s body joins).1 = .err ∨
        ((pollNextAt ip c s body joins).2.1.eof = false ∧
          hasErr (pollNextAt ip c s body joins).2.2.1 = true)) := by
  fun_induction pollNextAt ip c s body joins
  case case1 h => intro he; simp [h] at he
  case case2 s body joins h o s' j' hfs =>
    intro _ hb
    have := futStep_ret (body := body) (by simpa using h) hfs
    exact ⟨this.2.2.2.1, Or.inr ⟨this.2.1, hb⟩⟩
  case case3 => intro _ hb; simp [hasErr] at hb
  case case4 => intro _ hb; simp [hasErr] at hb
  case case5 => intro _ hb; simp [hasErr] at hb
  case case6 => intro _ _; simp
  case case7 s joins h s' j' hfs rest =>
    intro _ hb
    have hg := futStep_go (body := rest) (by simpa using h) hfs
    exact ⟨by simp, Or.inr ⟨hg.2.1, by simpa [hasErr] using hb⟩⟩
  case case8 s joins h s' j' hfs b rest e he hlt r s2 hem ih =>
    intro _ hb
    have hg := futStep_go (body := rest) (by simpa using h) hfs
    exact ih hg.2.1 (by simpa [hasErr] using hb)
  case case9 s joins h s' j' hfs b rest e he hlt r s2 hem =>
    intro _ hb
    have hg := futStep_go (body := rest) (by simpa using h) hfs
    exact ⟨by simp, Or.inr ⟨hg.2.1, by simpa [hasErr] using hb⟩⟩
  case case10 s joins h s' j' hfs b rest e he hge ih =>
    intro _ hb
    have hg := futStep_go (body := rest) (by simpa using h) hfs
    exact ih hg.2.1 (by simpa [hasErr] using hb)
  case case11 s joins h s' j' hfs b rest he =>
    intro _ hb
    have hg := futStep_go (body := rest) (by simpa using h) hfs
    exact ⟨by simp, Or.inr ⟨hg.2.1, by simpa [hasErr] using hb⟩⟩

theorem drive_err (ip : Bytes → Bool) (c : Codec σ) : ∀ (fuel : Nat) (s : Enc σ) (body : List BodyEv)
    (joins : List Nat), s.eof = false → hasErr body = true → mu s body joins < fuel →
      (driveAt ip c fuel s body joins).getLast? = some .err := by
  intro fuel
  induction fuel with
  | zero => intro s body joins _ _ h; omega
  | succ n ih =>
    intro s body joins hs hb h
    obtain ⟨h1, h2⟩ := pollNext_err ip c s body joins hs hb
    rw [drive_succ]
    simp only [h1, ↓reduceIte]
    by_cases he : (pollNextAt ip c s body joins).1 = .err
    · simp [he]
    · simp only [he, ↓reduceIte]
      rcases h2 with h2 | ⟨h2, h3⟩
      · exact absurd h2 he
      · have hm := pollNext_mu ip c s body joins h1 he
        have := ih (pollNextAt ip c s body joins).2.1 (pollNextAt ip c s body joins).2.2.1
          (pollNextAt ip c s body joins).2.2.2 h2 h3 (by omega)
        rw [List.getLast?_cons]; simp [this]

/-- the forwarding state `{encoder: None, fut: None, eof: false}` -/
theorem drive_plain (ip : Bytes → Bool) (c : Codec σ) : ∀ (fuel : Nat) (body : List BodyEv) (joins : List Nat),
    2 * body.length < fuel →
      outChunks (driveAt ip c fuel ⟨none, none, false⟩ body joins) = chunksOf body ∧
      (driveAt ip c fuel ⟨none, none, false⟩ body joins).getLast?
        = some (if hasErr body then .err else .done) := by
  intro fuel
  induction fuel with
  | zero => intro body joins h; omega
  | succ n ih =>
    intro body joins h
    cases body with
    | nil => simp [driveAt, pollNextAt, futStep, outChunks, chunksOf, hasErr]
    | cons ev rest =>
      cases ev with
      | chunk b =>
        have := ih rest joins (by simp only [List.length_cons] at h; omega)
        simp only [driveAt]
        rw [pollNextAt]
        simp only [Bool.false_eq_true, ↓reduceIte, futStep, outChunks, chunksOf, hasErr, this.1,
          List.getLast?_cons, this.2]
        simp
        try rfl
      | pending =>
        have := ih rest joins (by simp only [List.length_cons] at h; omega)
        simp only [driveAt]
        rw [pollNextAt]
        simp only [Bool.false_eq_true, ↓reduceIte, futStep, outChunks, chunksOf, hasErr, this.1,
          List.getLast?_cons, this.2]
        simp
        try rfl
      | err =>
        simp only [driveAt]
        rw [pollNextAt]
        simp [futStep, outChunks, chunksOf, hasErr]

end ActixModel.Encoder
