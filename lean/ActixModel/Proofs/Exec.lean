import ActixModel.Model.Exec
/-
Helper lemmas about the wake-driven executor (`Model/Exec.lean`). Core Lean only.
-/
namespace ActixModel.Exec
open ActixModel.DispWake

/-- if some source in the list holds the task's waker, the executor's fallback delivery fires
something -/
theorem fireWaiters_any (forced : Bool) : ∀ (xs : List Src) (w : World) (tr : List String) (any : Bool)
    (x : Src), x ∈ xs → (w.sem x).waiting = true → (fireWaiters forced xs w tr any).2.2 = true := by
  intro xs
  induction xs with
  | nil => intro w tr any x hx; cases hx
  | cons y ys ih =>
    intro w tr any x hx hwait
    unfold fireWaiters
    by_cases hy : (w.sem y).waiting = true
    · simp only [hy, if_true]
      cases forced with
      | true => rfl
      | false =>
        simp only [Bool.false_eq_true, if_false]
        -- something has been fired already: the flag stays set
        have : ∀ (zs : List Src) (w : World) (tr : List String),
            (fireWaiters false zs w tr true).2.2 = true := by
          intro zs
          induction zs with
          | nil => intro w tr; rfl
          | cons z zs ihz =>
            intro w tr
            unfold fireWaiters
            split
            · simp only [Bool.false_eq_true, if_false]; exact ihz _ _
            · exact ihz _ _
        exact this _ _ _
    · simp only [hy]
      rcases List.mem_cons.mp hx with rfl | hx'
      · exact absurd hwait hy
      · exact ih _ _ _ x hx' hwait

end ActixModel.Exec
