import ActixModel.Model.Files
/-
Helper lemmas for C16 (path side): `splitOn` pieces are separator free and as many as the
separator count + 1; the segment loop keeps "all pushed components are Normal" and
"components ≤ segment_count", and never reaches a panic outcome.
-/
namespace ActixModel.Files
open ActixModel.Util

theorem splitOn_ne_nil (sep : UInt8) (bs : Bytes) : splitOn sep bs ≠ [] := by
  induction bs with
  | nil => simp [splitOn]
  | cons b rest ih =>
    simp only [splitOn]
    split
    · simp
    · split <;> simp

theorem splitOn_noSep (sep : UInt8) (bs : Bytes) : ∀ s ∈ splitOn sep bs, sep ∉ s := by
  induction bs with
  | nil => simp [splitOn]
  | cons b rest ih =>
    simp only [splitOn]
    split
    · intro s hs
      simp only [List.mem_cons] at hs
      rcases hs with rfl | hs
      · simp
      · exact ih s hs
    · rename_i hb
      split
      · intro s hs
        simp only [List.mem_cons, List.not_mem_nil, or_false] at hs
        subst hs
        simp [Ne.symm hb]
      · rename_i s0 ss heq
        intro s hs
        simp only [List.mem_cons] at hs
        rcases hs with rfl | hs
        · have := ih s0 (by rw [heq]; simp)
          simp [this, Ne.symm hb]
        · exact ih s (by rw [heq]; simp [hs])

theorem splitOn_length (sep : UInt8) (bs : Bytes) :
    (splitOn sep bs).length = countByte sep bs + 1 := by
  induction bs with
  | nil => simp [splitOn, countByte]
  | cons b rest ih =>
    simp only [splitOn, countByte] at *
    split
    · rename_i hb
      simp [List.filter, hb, ih]
    · rename_i hb
      have hne := splitOn_ne_nil sep rest
      split
      · rename_i h; exact absurd h hne
      · rename_i s ss heq
        rw [heq] at ih
        simp [List.filter, hb] at *
        omega

theorem isNormalSeg_of_pushed {seg : Bytes} (h1 : seg ≠ dot) (h2 : seg ≠ dotdot)
    (h3 : seg.isEmpty = false) (h4 : (0x2F : UInt8) ∉ seg) : isNormalSeg seg = true := by
  simp [isNormalSeg, h1, h2, h3, h4]

theorem all_normal_dropLast {buf : List Bytes} (h : ∀ s ∈ buf, isNormalSeg s = true) :
    ∀ s ∈ buf.dropLast, isNormalSeg s = true :=
  fun s hs => h s (List.dropLast_subset buf hs)

/-- what the segment loop guarantees, for every segment list without separators inside the
segments, every buffer of Normal components and every counter that is at least
`components + remaining segments` -/
def LoopPost : Outcome (List Bytes × Nat) → Prop
  | .ok (buf, cnt) => (∀ s ∈ buf, isNormalSeg s = true) ∧ buf.length ≤ cnt
  | .err _ => True
  | .panic _ => False

theorem segLoop_spec (hidden : Bool) : ∀ (segs buf : List Bytes) (cnt : Nat),
    (∀ s ∈ segs, (0x2F : UInt8) ∉ s) → (∀ s ∈ buf, isNormalSeg s = true) →
    buf.length + segs.length ≤ cnt → LoopPost (segLoop hidden segs buf cnt) := by
  intro segs
  induction segs with
  | nil =>
    intro buf cnt _ hb hc
    simp only [segLoop, LoopPost]
    exact ⟨hb, by simpa using hc⟩
  | cons seg rest ih =>
    intro buf cnt hs hb hc
    have hrest : ∀ s ∈ rest, (0x2F : UInt8) ∉ s := fun s h => hs s (List.mem_cons_of_mem _ h)
    have hseg : (0x2F : UInt8) ∉ seg := hs seg (List.mem_cons_self ..)
    simp only [List.length_cons] at hc
    unfold segLoop
    split
    · trivial
    · rename_i hdot
      split
      · rename_i hdd
        cases cnt with
        | zero => omega
        | succ c =>
          simp only
          apply ih _ _ hrest (all_normal_dropLast hb)
          simp only [List.length_dropLast]
          omega
      · rename_i hdd
        split
        · trivial
        · split
          · trivial
          · split
            · trivial
            · split
              · trivial
              · split
                · trivial
                · split
                  · cases cnt with
                    | zero => omega
                    | succ c =>
                      simp only
                      apply ih _ _ hrest hb
                      omega
                  · rename_i hne
                    apply ih _ _ hrest
                    · intro s hs'
                      simp only [List.mem_append, List.mem_cons, List.not_mem_nil, or_false] at hs'
                      rcases hs' with h | rfl
                      · exact hb s h
                      · exact isNormalSeg_of_pushed hdot hdd (by simpa using hne) hseg
                    · simp only [List.length_append, List.length_cons, List.length_nil]
                      omega

theorem percentDecode_of_not_anyDecoded (p : Bytes) (h : anyDecoded p = false) :
    percentDecode p = p := by
  unfold percentDecode
  induction p with
  | nil => rfl
  | cons b rest ih =>
    unfold anyDecoded at h
    unfold percentDecodeAux
    split at h
    · rename_i hb
      simp only [hb, if_true]
      split at h
      · split at h
        · cases h
        · rename_i hd
          rw [ih h]
      · rw [ih h]
    · rename_i hb
      simp only [hb, if_false]
      rw [ih h]

/-- after the UTF-8 and `%2F` guards the counter equals the number of segments -/
theorem segCount_eq (path : Bytes)
    (h : (anyDecoded path && (countByte 0x2F path + 1 != countByte 0x2F (percentDecode path) + 1)) = false) :
    (splitOn 0x2F (percentDecode path)).length = countByte 0x2F path + 1 := by
  rw [splitOn_length]
  cases ha : anyDecoded path with
  | false => rw [percentDecode_of_not_anyDecoded path ha]
  | true => simp [ha] at h; omega

/-- what `parse_path` guarantees about its result -/
def PathPost : Outcome (List Bytes) → Prop
  | .ok buf => ∀ s ∈ buf, isNormalSeg s = true
  | .err _ => True
  | .panic _ => False

theorem parsePath_post (hidden : Bool) (path : Bytes) : PathPost (parsePath hidden path) := by
  unfold parsePath
  simp only
  split
  · trivial
  · split
    · trivial
    · rename_i _ hguard
      have hlen := segCount_eq path (by simpa using hguard)
      have := segLoop_spec hidden (splitOn 0x2F (percentDecode path)) [] (countByte 0x2F path + 1)
        (splitOn_noSep _ _) (by simp) (by simp [hlen])
      split
      · rename_i buf cnt heq
        rw [heq] at this
        simp only [LoopPost] at this
        unfold finalCheck
        have hall : buf.all isNormalSeg = true := by simpa [List.all_eq_true] using this.1
        simp [hall, this.2]
        exact this.1
      · trivial
      · rename_i p heq
        rw [heq] at this
        exact this

end ActixModel.Files
