import ActixModel.Model.Flush
/-
Helper lemmas about `poll_flush` (`Model/Flush.lean`). Core Lean only.
-/
namespace ActixModel.Flush

variable {σ α : Type}

theorem drop_take_drop (l : List α) (a n : Nat) :
    (l.drop a).take n ++ l.drop (a + n) = l.drop a := by
  have h := List.take_append_drop n (l.drop a)
  rw [List.drop_drop] at h
  exact h

/-- Specification of the write loop, for every socket behaviour. -/
theorem loop_spec (write : σ → Nat → WriteAns × σ) (buf : List α) :
    ∀ (fuel written : Nat) (acc : List α) (s : σ),
      written ≤ buf.length → buf.length - written ≤ fuel →
      let o := loop write buf fuel written acc s
      (o.res = .drained → o.buf = [] ∧ o.accepted = acc ++ buf.drop written) ∧
      (o.res = .pending → o.accepted ++ o.buf = acc ++ buf.drop written) ∧
      (o.res = .writeZero → o.buf = buf ∧ ∃ k, o.accepted = acc ++ (buf.drop written).take k) := by
  intro fuel
  induction fuel with
  | zero =>
    intro written acc s hw hf
    have : written = buf.length := by omega
    subst this
    simp [loop]
  | succ fuel ih =>
    intro written acc s hw hf
    unfold loop
    by_cases hlt : written < buf.length
    · simp only [hlt, if_true]
      cases hws : write s (buf.length - written) with
      | mk a s' =>
        cases a with
        | zero =>
          dsimp only
          refine ⟨?_, ?_, fun _ => ⟨rfl, 0, by simp⟩⟩
          · intro h; cases h
          · intro h; cases h
        | pending =>
          dsimp only
          refine ⟨?_, fun _ => rfl, ?_⟩
          · intro h; cases h
          · intro h; cases h
        | accept k =>
          dsimp only
          have hn1 : 1 ≤ min (max k 1) (buf.length - written) := by omega
          have hn2 : min (max k 1) (buf.length - written) ≤ buf.length - written := by omega
          generalize hn : min (max k 1) (buf.length - written) = n at hn1 hn2
          have := ih (written + n) (acc ++ (buf.drop written).take n) s' (by omega) (by omega)
          obtain ⟨h1, h2, h3⟩ := this
          refine ⟨?_, ?_, ?_⟩
          · intro h
            obtain ⟨hb, ha⟩ := h1 h
            refine ⟨hb, ?_⟩
            rw [ha, List.append_assoc, drop_take_drop]
          · intro h
            rw [h2 h, List.append_assoc, drop_take_drop]
          · intro h
            obtain ⟨hb, k', hk⟩ := h3 h
            refine ⟨hb, n + k', ?_⟩
            rw [hk, List.append_assoc]
            congr 1
            rw [List.take_add, List.drop_drop]
    · have : written = buf.length := by omega
      subst this
      simp [List.drop_length]

theorem pollFlush_spec (write : σ → Nat → WriteAns × σ) (buf : List α) (s : σ) :
    let o := pollFlush write buf s
    (o.res = .drained → o.buf = [] ∧ o.accepted = buf) ∧
    (o.res = .pending → o.accepted ++ o.buf = buf) ∧
    (o.res = .writeZero → o.buf = buf ∧ ∃ k, o.accepted = buf.take k) := by
  have := loop_spec write buf buf.length 0 [] s (Nat.zero_le _) (by omega)
  simpa [pollFlush] using this

/-- `Pending` is only ever returned because the socket itself answered `Pending` to a
`poll_write` that offered a non-empty slice (so the socket holds the task's waker). -/
theorem loop_pending_from_socket (write : σ → Nat → WriteAns × σ) (buf : List α) :
    ∀ (fuel written : Nat) (acc : List α) (s : σ),
      (loop write buf fuel written acc s).res = .pending →
      ∃ s₁ offered, 0 < offered ∧ (write s₁ offered).1 = .pending ∧
        (loop write buf fuel written acc s).sock = (write s₁ offered).2 := by
  intro fuel
  induction fuel with
  | zero => intro written acc s h; simp [loop] at h
  | succ fuel ih =>
    intro written acc s h
    unfold loop at h ⊢
    by_cases hlt : written < buf.length
    · simp only [hlt, if_true] at h ⊢
      cases hws : write s (buf.length - written) with
      | mk a s' =>
        rw [hws] at h
        cases a with
        | zero => simp at h
        | pending => exact ⟨s, buf.length - written, by omega, by rw [hws], by rw [hws]⟩
        | accept k => simp only at h ⊢; exact ih _ _ _ h
    · simp [hlt] at h


/-- the length-only loop (used by the dispatcher model) computes exactly the lengths, the result
and the socket state of the byte-level loop -/
theorem loopLen_eq (write : σ → Nat → WriteAns × σ) (buf : List α) :
    ∀ (fuel written : Nat) (acc : List α) (s : σ),
      written ≤ buf.length → acc.length = written →
      let o := loop write buf fuel written acc s
      let l := loopLen write buf.length fuel written s
      l.res = o.res ∧ l.len = o.buf.length ∧ l.accepted = o.accepted.length ∧ l.sock = o.sock := by
  intro fuel
  induction fuel with
  | zero => intro written acc s _ ha; simp [loop, loopLen, ha]
  | succ fuel ih =>
    intro written acc s hw ha
    unfold loop loopLen
    by_cases hlt : written < buf.length
    · simp only [hlt, if_true]
      cases hws : write s (buf.length - written) with
      | mk a s' =>
        cases a with
        | zero => simp [ha]
        | pending => simp [ha]
        | accept k =>
          dsimp only
          have hn2 : min (max k 1) (buf.length - written) ≤ buf.length - written := by omega
          generalize min (max k 1) (buf.length - written) = n at hn2
          exact ih (written + n) (acc ++ (buf.drop written).take n) s' (by omega)
            (by simp [ha]; omega)
    · simp [hlt, ha]

theorem pollFlushLen_eq (write : σ → Nat → WriteAns × σ) (buf : List α) (s : σ) :
    let o := pollFlush write buf s
    let l := pollFlushLen write buf.length s
    l.res = o.res ∧ l.len = o.buf.length ∧ l.accepted = o.accepted.length ∧ l.sock = o.sock :=
  loopLen_eq write buf buf.length 0 [] s (Nat.zero_le _) rfl

/-- any reflexive-transitive relation that every socket step respects is respected by the loop -/
theorem loopLen_rel (write : σ → Nat → WriteAns × σ) (R : σ → σ → Prop) (hrefl : ∀ s, R s s)
    (htrans : ∀ a b c, R a b → R b c → R a c) (hw : ∀ s off, R s (write s off).2) (len : Nat) :
    ∀ (fuel written : Nat) (s : σ), R s (loopLen write len fuel written s).sock := by
  intro fuel
  induction fuel with
  | zero => intro written s; exact hrefl s
  | succ fuel ih =>
    intro written s
    unfold loopLen
    split
    · have h1 := hw s (len - written)
      split
      · next s' hws => rw [hws] at h1; exact h1
      · next s' hws => rw [hws] at h1; exact h1
      · next k s' hws => rw [hws] at h1; exact htrans _ _ _ h1 (ih _ _)
    · exact hrefl s

/-- the length-only loop returns `Pending` only because the socket answered `Pending` -/
theorem loopLen_pending (write : σ → Nat → WriteAns × σ) (len : Nat) :
    ∀ (fuel written : Nat) (s : σ) (o : OutLen σ), loopLen write len fuel written s = o →
      o.res = .pending → ∃ s₁ offered, write s₁ offered = (.pending, o.sock) := by
  intro fuel
  induction fuel with
  | zero => intro written s o ho h; subst ho; simp [loopLen] at h
  | succ fuel ih =>
    intro written s o ho h
    unfold loopLen at ho
    split at ho
    · split at ho
      · subst ho; simp at h
      · next s' hws => subst ho; exact ⟨s, _, hws⟩
      · next k s' hws => exact ih _ _ _ ho h
    · subst ho; simp at h

theorem loopLen_drained_len (write : σ → Nat → WriteAns × σ) (len : Nat) :
    ∀ (fuel written : Nat) (s : σ) (o : OutLen σ), loopLen write len fuel written s = o →
      o.res = .drained → o.len = 0 := by
  intro fuel
  induction fuel with
  | zero => intro written s o ho _; subst ho; simp [loopLen]
  | succ fuel ih =>
    intro written s o ho h
    unfold loopLen at ho
    split at ho
    · split at ho
      · subst ho; simp at h
      · subst ho; simp at h
      · exact ih _ _ _ ho h
    · subst ho; rfl

/-! ### the session invariant -/

/-- `accepted ++ writeBuf = produced` while the connection lives; after a `WriteZero` error the
accepted bytes are still a prefix of the produced bytes; a drained flush leaves nothing behind -/
def Sess.Inv (x : Sess σ α) : Prop :=
  (x.dead = false → x.accepted ++ x.writeBuf = x.produced) ∧
  (x.dead = true → x.accepted <+: x.produced) ∧
  (x.last = some .drained → x.dead = false ∧ x.writeBuf = [])

theorem Sess.inv_step (write : σ → Nat → WriteAns × σ) (x : Sess σ α) (ev : Ev α)
    (h : x.Inv) : (x.step write ev).Inv := by
  obtain ⟨h1, h2, h3⟩ := h
  cases ev with
  | produce bs =>
    unfold Sess.step
    cases hd : x.dead with
    | true => simp only [if_true]; exact ⟨h1, h2, h3⟩
    | false =>
      simp only [Bool.false_eq_true, if_false]
      refine ⟨fun _ => ?_, fun h => ?_, fun h => ?_⟩
      · show x.accepted ++ (x.writeBuf ++ bs) = x.produced ++ bs
        rw [← List.append_assoc, h1 hd]
      · simp at h
      · simp at h
  | flush =>
    unfold Sess.step
    cases hd : x.dead with
    | true => simp only [if_true]; exact ⟨h1, h2, h3⟩
    | false =>
      simp only [Bool.false_eq_true, if_false]
      have hp := h1 hd
      obtain ⟨s1, s2, s3⟩ := pollFlush_spec write x.writeBuf x.sock
      cases hr : (pollFlush write x.writeBuf x.sock).res with
      | drained =>
        obtain ⟨hb, ha⟩ := s1 hr
        refine ⟨fun _ => ?_, fun h => ?_, fun _ => ?_⟩
        · show (x.accepted ++ _) ++ _ = x.produced
          rw [hb, ha, List.append_nil, hp]
        · simp at h
        · exact ⟨by simp, hb⟩
      | pending =>
        refine ⟨fun _ => ?_, fun h => ?_, fun h => ?_⟩
        · show (x.accepted ++ _) ++ _ = x.produced
          rw [List.append_assoc, s2 hr, hp]
        · simp at h
        · simp at h
      | writeZero =>
        obtain ⟨_, k, hk⟩ := s3 hr
        refine ⟨fun h => ?_, fun _ => ?_, fun h => ?_⟩
        · simp at h
        · show (x.accepted ++ _) <+: x.produced
          rw [hk, ← hp]
          exact (List.prefix_append_right_inj _).mpr (List.take_prefix _ _)
        · simp at h

theorem Sess.inv_run (write : σ → Nat → WriteAns × σ) (evs : List (Ev α)) :
    ∀ (x : Sess σ α), x.Inv → (x.run write evs).Inv := by
  induction evs with
  | nil => intro x h; exact h
  | cons ev tl ih => intro x h; exact ih _ (Sess.inv_step write x ev h)

theorem Sess.inv_init (s : σ) : ({ sock := s } : Sess σ α).Inv := by
  refine ⟨fun _ => rfl, fun h => ?_, fun h => ?_⟩ <;> simp at h


/-! ### termination of flushing against a socket that blocks finitely often -/

def countPending : List WriteAns → Nat
  | [] => 0
  | .pending :: as => countPending as + 1
  | _ :: as => countPending as

def noZero : List WriteAns → Bool
  | [] => true
  | .zero :: _ => false
  | _ :: as => noZero as

/-- against the oracle-list socket the loop either drains, or stops at a `pending` answer which
it has consumed (one fewer left), or hits a `zero` -/
theorem loop_listSock (buf : List α) :
    ∀ (fuel written : Nat) (acc : List α) (o : List WriteAns),
      written ≤ buf.length → buf.length - written ≤ fuel → noZero o = true →
      let r := loop listSock buf fuel written acc o
      (r.res = .drained ∧ countPending r.sock ≤ countPending o ∧ noZero r.sock = true) ∨
      (r.res = .pending ∧ countPending r.sock < countPending o ∧ noZero r.sock = true) := by
  intro fuel
  induction fuel with
  | zero =>
    intro written acc o hw hf hz
    exact Or.inl ⟨rfl, Nat.le_refl _, hz⟩
  | succ fuel ih =>
    intro written acc o hw hf hz
    unfold loop
    by_cases hlt : written < buf.length
    · simp only [hlt, if_true]
      cases o with
      | nil =>
        simp only [listSock]
        have hn2 : min (max (buf.length - written) 1) (buf.length - written) = buf.length - written := by omega
        rw [hn2]
        have := ih (written + (buf.length - written)) (acc ++ (buf.drop written).take (buf.length - written)) []
          (by omega) (by omega) rfl
        exact this
      | cons a as =>
        cases a with
        | zero => simp [noZero] at hz
        | pending =>
          simp only [listSock]
          exact Or.inr ⟨by simp, by simp [countPending], by simpa [noZero] using hz⟩
        | accept k =>
          simp only [listSock]
          have hn1 : 1 ≤ min (max k 1) (buf.length - written) := by omega
          have hn2 : min (max k 1) (buf.length - written) ≤ buf.length - written := by omega
          generalize min (max k 1) (buf.length - written) = n at hn1 hn2
          have := ih (written + n) (acc ++ (buf.drop written).take n) as (by omega) (by omega)
            (by simpa [noZero] using hz)
          simpa [countPending] using this
    · simp only [hlt, if_false]
      exact Or.inl ⟨by simp, Nat.le_refl _, hz⟩

/-- flushing an empty buffer is a no-op, however often -/
theorem flush_empty_run (write : σ → Nat → WriteAns × σ) (n : Nat) :
    ∀ (x : Sess σ α), x.writeBuf = [] → x.dead = false →
      let y := x.run write (List.replicate n .flush)
      y.writeBuf = [] ∧ y.accepted = x.accepted ∧ y.produced = x.produced ∧ y.dead = false := by
  induction n with
  | zero => intro x hb hd; exact ⟨hb, rfl, rfl, hd⟩
  | succ n ih =>
    intro x hb hd
    simp only [List.replicate_succ, Sess.run, List.foldl_cons]
    have hstep : x.step write .flush = { x with last := some .drained } := by
      simp [Sess.step, hd, hb, pollFlush, loop]
    rw [hstep]
    have := ih { x with last := some .drained } hb hd
    simpa [Sess.run] using this

/-- repeated `poll_flush` calls (one per wake-up) against a socket that answers `Pending` at most
`n - 1` more times and never `0`: after `n` calls everything produced has been accepted -/
theorem flush_terminates (n : Nat) :
    ∀ (x : Sess (List WriteAns) α), x.Inv → x.dead = false → noZero x.sock = true →
      countPending x.sock < n →
      let y := x.run listSock (List.replicate n .flush)
      y.writeBuf = [] ∧ y.accepted = y.produced ∧ y.produced = x.produced ∧ y.dead = false := by
  induction n with
  | zero => intro x _ _ _ h; omega
  | succ n ih =>
    intro x hinv hd hz hc
    simp only [List.replicate_succ, Sess.run, List.foldl_cons]
    have hinv' := Sess.inv_step listSock x .flush hinv
    generalize hx' : x.step listSock .flush = x' at hinv'
    have hstep : x' = { x with writeBuf := (pollFlush listSock x.writeBuf x.sock).buf,
                               accepted := x.accepted ++ (pollFlush listSock x.writeBuf x.sock).accepted,
                               sock := (pollFlush listSock x.writeBuf x.sock).sock,
                               last := some (pollFlush listSock x.writeBuf x.sock).res,
                               dead := (pollFlush listSock x.writeBuf x.sock).res == .writeZero } := by
      subst hx'; simp [Sess.step, hd]
    have hl := loop_listSock x.writeBuf x.writeBuf.length 0 [] x.sock (Nat.zero_le _) (by omega) hz
    have hprod : x'.produced = x.produced := by rw [hstep]
    rcases hl with ⟨hr, hcp, hz'⟩ | ⟨hr, hcp, hz'⟩
    · -- drained: nothing left; further flushes keep it that way
      have hdead : x'.dead = false := by rw [hstep]; simp [pollFlush, hr]
      have hlast : x'.last = some .drained := by rw [hstep]; simp [pollFlush, hr]
      obtain ⟨h1, _, h3⟩ := hinv'
      obtain ⟨_, hb⟩ := h3 hlast
      have hacc := h1 hdead
      rw [hb, List.append_nil] at hacc
      obtain ⟨a, b, c, d⟩ := flush_empty_run listSock n x' hb hdead
      simp only [Sess.run] at a b c d
      exact ⟨a, by rw [b, c]; exact hacc, c.trans hprod, d⟩
    · -- pending: one `pending` answer consumed
      have hdead : x'.dead = false := by rw [hstep]; simp [pollFlush, hr]
      have hsock : x'.sock = (pollFlush listSock x.writeBuf x.sock).sock := by rw [hstep]
      have hlt : countPending x'.sock < n := by rw [hsock]; simp [pollFlush] at hcp ⊢; omega
      have := ih x' hinv' hdead (by rw [hsock]; exact hz') hlt
      simp only [Sess.run] at this
      obtain ⟨a, b, c, d⟩ := this
      exact ⟨a, b, c.trans hprod, d⟩

end ActixModel.Flush
