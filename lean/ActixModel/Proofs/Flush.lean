import ActixModel.Model.Flush
/-
Helper lemmas about `poll_flush` (`Model/Flush.lean`). Core Lean only.
-/
namespace ActixModel.Flush

variable {σ α : Type}

theorem drop_take_drop (l : List α) (a n : Nat) :
    (l.drop a).take n ++ l.drop (a + n) = l.drop a := by
  have h := List.take_append_drop n (l.drop a)
  rw [List.drop_drop] at h
  exact h

/-- Specification of the write loop, for every socket behaviour. -/
theorem loop_spec (write : σ → Nat → WriteAns × σ) (buf : List α) :
    ∀ (fuel written : Nat) (acc : List α) (s : σ),
      written ≤ buf.length → buf.length - written ≤ fuel →
      let o := loop write buf fuel written acc s
      (o.res = .drained → o.buf = [] ∧ o.accepted = acc ++ buf.drop written) ∧
      (o.res = .pending → o.accepted ++ o.buf = acc ++ buf.drop written) ∧
      (o.res = .writeZero → o.buf = buf ∧ ∃ k, o.accepted = acc ++ (buf.drop written).take k) := by
  intro fuel
  induction fuel with
  | zero =>
    intro written acc s hw hf
    have : written = buf.length := by omega
    subst this
    simp [loop]
  | succ fuel ih =>
    intro written acc s hw hf
    unfold loop
    by_cases hlt : written < buf.length
    · simp only [hlt, if_true]
      cases hws : write s (buf.length - written) with
      | mk a s' =>
        cases a with
        | zero =>
          dsimp only
          refine ⟨?_, ?_, fun _ => ⟨rfl, 0, by simp⟩⟩
          · intro h; cases h
          · intro h; cases h
        | pending =>
          dsimp only
          refine ⟨?_, fun _ => rfl, ?_⟩
          · intro h; cases h
          · intro h; cases h
        | accept k =>
          dsimp only
          have hn1 : 1 ≤ min (max k 1) (buf.length - written) := by omega
          have hn2 : min (max k 1) (buf.length - written) ≤ buf.length - written := by omega
          generalize hn : min (max k 1) (buf.length - written) = n at hn1 hn2
          have := ih (written + n) (acc ++ (buf.drop written).take n) s' (by omega) (by omega)
          obtain ⟨h1, h2, h3⟩ := this
          refine ⟨?_, ?_, ?_⟩
          · intro h
            obtain ⟨hb, ha⟩ := h1 h
            refine ⟨hb, ?_⟩
            rw [ha, List.append_assoc, drop_take_drop]
          · intro h
            rw [h2 h, List.append_assoc, drop_take_drop]
          · intro h
            obtain ⟨hb, k', hk⟩ := h3 h
            refine ⟨hb, n + k', ?_⟩
            rw [hk, List.append_assoc]
            congr 1
            rw [List.take_add, List.drop_drop]
    · have : written = buf.length := by omega
      subst this
      simp [List.drop_length]

theorem pollFlush_spec (write : σ → Nat → WriteAns × σ) (buf : List α) (s : σ) :
    let o := pollFlush write buf s
    (o.res = .drained → o.buf = [] ∧ o.accepted = buf) ∧
    (o.res = .pending → o.accepted ++ o.buf = buf) ∧
    (o.res = .writeZero → o.buf = buf ∧ ∃ k, o.accepted = buf.take k) := by
  have := loop_spec write buf buf.length 0 [] s (Nat.zero_le _) (by omega)
  simpa [pollFlush] using this

/-- `Pending` is only ever returned because the socket itself answered `Pending` to a
`poll_write` that offered a non-empty slice (so the socket holds the task's waker). -/
theorem loop_pending_from_socket (write : σ → Nat → WriteAns × σ) (buf : List α) :
    ∀ (fuel written : Nat) (acc : List α) (s : σ),
      (loop write buf fuel written acc s).res = .pending →
      ∃ s₁ offered, 0 < offered ∧ (write s₁ offered).1 = .pending ∧
        (loop write buf fuel written acc s).sock = (write s₁ offered).2 := by
  intro fuel
  induction fuel with
  | zero => intro written acc s h; simp [loop] at h
  | succ fuel ih =>
    intro written acc s h
    unfold loop at h ⊢
    by_cases hlt : written < buf.length
    · simp only [hlt, if_true] at h ⊢
      cases hws : write s (buf.length - written) with
      | mk a s' =>
        rw [hws] at h
        cases a with
        | zero => simp at h
        | pending => exact ⟨s, buf.length - written, by omega, by rw [hws], by rw [hws]⟩
        | accept k => simp only at h ⊢; exact ih _ _ _ h
    · simp [hlt] at h


/-- the length-only loop (used by the dispatcher model) computes exactly the lengths, the result
and the socket state of the byte-level loop -/
theorem loopLen_eq (write : σ → Nat → WriteAns × σ) (buf : List α) :
    ∀ (fuel written : Nat) (acc : List α) (s : σ),
      written ≤ buf.length → acc.length = written →
      let o := loop write buf fuel written acc s
      let l := loopLen write buf.length fuel written s
      l.res = o.res ∧ l.len = o.buf.length ∧ l.accepted = o.accepted.length ∧ l.sock = o.sock := by
  intro fuel
  induction fuel with
  | zero => intro written acc s _ ha; simp [loop, loopLen, ha]
  | succ fuel ih =>
    intro written acc s hw ha
    unfold loop loopLen
    by_cases hlt : written < buf.length
    · simp only [hlt, if_true]
      cases hws : write s (buf.length - written) with
      | mk a s' =>
        cases a with
        | zero => simp [ha]
        | pending => simp [ha]
        | accept k =>
          dsimp only
          have hn2 : min (max k 1) (buf.length - written) ≤ buf.length - written := by omega
          generalize min (max k 1) (buf.length - written) = n at hn2
          exact ih (written + n) (acc ++ (buf.drop written).take n) s' (by omega)
            (by simp [ha]; omega)
    · simp [hlt, ha]

theorem pollFlushLen_eq (write : σ → Nat → WriteAns × σ) (buf : List α) (s : σ) :
    let o := pollFlush write buf s
    let l := pollFlushLen write buf.length s
    l.res = o.res ∧ l.len = o.buf.length ∧ l.accepted = o.accepted.length ∧ l.sock = o.sock :=
  loopLen_eq write buf buf.length 0 [] s (Nat.zero_le _) rfl

/-! ### the session invariant -/

/-- `accepted ++ writeBuf = produced` while the connection lives; after a `WriteZero` error the
accepted bytes are still a prefix of the produced bytes; a drained flush leaves nothing behind -/
def Sess.Inv (x : Sess σ α) : Prop :=
  (x.dead = false → x.accepted ++ x.writeBuf = x.produced) ∧
  (x.dead = true → x.accepted <+: x.produced) ∧
  (x.last = some .drained → x.dead = false ∧ x.writeBuf = [])

theorem Sess.inv_step (write : σ → Nat → WriteAns × σ) (x : Sess σ α) (ev : Ev α)
    (h : x.Inv) : (x.step write ev).Inv := by
  obtain ⟨h1, h2, h3⟩ := h
  cases ev with
  | produce bs =>
    unfold Sess.step
    cases hd : x.dead with
    | true => simp only [if_true]; exact ⟨h1, h2, h3⟩
    | false =>
      simp only [Bool.false_eq_true, if_false]
      refine ⟨fun _ => ?_, fun h => ?_, fun h => ?_⟩
      · show x.accepted ++ (x.writeBuf ++ bs) = x.produced ++ bs
        rw [← List.append_assoc, h1 hd]
      · simp at h
      · simp at h
  | flush =>
    unfold Sess.step
    cases hd : x.dead with
    | true => simp only [if_true]; exact ⟨h1, h2, h3⟩
    | false =>
      simp only [Bool.false_eq_true, if_false]
      have hp := h1 hd
      obtain ⟨s1, s2, s3⟩ := pollFlush_spec write x.writeBuf x.sock
      cases hr : (pollFlush write x.writeBuf x.sock).res with
      | drained =>
        obtain ⟨hb, ha⟩ := s1 hr
        refine ⟨fun _ => ?_, fun h => ?_, fun _ => ?_⟩
        · show (x.accepted ++ _) ++ _ = x.produced
          rw [hb, ha, List.append_nil, hp]
        · simp at h
        · exact ⟨by simp, hb⟩
      | pending =>
        refine ⟨fun _ => ?_, fun h => ?_, fun h => ?_⟩
        · show (x.accepted ++ _) ++ _ = x.produced
          rw [List.append_assoc, s2 hr, hp]
        · simp at h
        · simp at h
      | writeZero =>
        obtain ⟨_, k, hk⟩ := s3 hr
        refine ⟨fun h => ?_, fun _ => ?_, fun h => ?_⟩
        · simp at h
        · show (x.accepted ++ _) <+: x.produced
          rw [hk, ← hp]
          exact (List.prefix_append_right_inj _).mpr (List.take_prefix _ _)
        · simp at h

theorem Sess.inv_run (write : σ → Nat → WriteAns × σ) (evs : List (Ev α)) :
    ∀ (x : Sess σ α), x.Inv → (x.run write evs).Inv := by
  induction evs with
  | nil => intro x h; exact h
  | cons ev tl ih => intro x h; exact ih _ (Sess.inv_step write x ev h)

theorem Sess.inv_init (s : σ) : ({ sock := s } : Sess σ α).Inv := by
  refine ⟨fun _ => rfl, fun h => ?_, fun h => ?_⟩ <;> simp at h

end ActixModel.Flush
