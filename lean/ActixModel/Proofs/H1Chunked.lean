import ActixModel.Model.H1Decode
/-
The byte automaton of the HTTP/1 request decoder and its agreement with the code-shaped
chunked decoder (`decodeChunkedF`).

`stepSt` consumes exactly one byte in every state and is defined from the model's own
`ChunkedState::step` applied to a one-byte buffer, the head scanner `hscanStep` and
`finishHead`.  `runSt` folds it over a byte string; `runSt_append` is then immediate, and all
segmentation results reduce to "the code-shaped decoder computes `runSt`".
-/
namespace ActixModel.H1
open ActixModel.Util

/-- flat events: body bytes one by one, so that chunk boundaries (which do depend on the
segmentation) disappear -/
inductive Ev where
  | head (h : ReqHead) (pt : PayloadType)
  | byte (b : UInt8)
  | eof
  deriving DecidableEq, Repr

/-- quiescent decoder states: waiting for a head with `acc` buffered (scanner in `q`), inside a
body, or dead after a parse error -/
inductive St where
  | head (acc : Bytes) (q : HScan)
  | body (k : Kind)
  | dead (e : ParseErr)
  deriving DecidableEq, Repr

def slotOf : PayloadType → Option Kind
  | .none => none
  | .payload k => some k
  | .stream k => some k

/-- zero-byte transitions: a `Length(0)` slot yields `Eof` without reading anything -/
def norm : Option Kind → List Ev × St
  | none => ([], .head [] .lead0)
  | some (.length 0) => ([.eof], .head [] .lead0)
  | some (.chunked .done _) => ([.eof], .head [] .lead0)
  | some k => ([], .body k)

/-- what happens when the byte that completes a head arrives -/
def complete (hb : Bytes) : St × List Ev :=
  match finishHead hb with
  | .error e => (.dead e, [])
  | .ok (h, pt) => ((norm (slotOf pt)).2, .head h pt :: (norm (slotOf pt)).1)

def stepSt : St → UInt8 → St × List Ev
  | .dead e, _ => (.dead e, [])
  | .head acc q, b =>
    match hscanStep q b with
    | some q' => (.head (acc ++ [b]) q', [])
    | none => complete (acc ++ [b])
  | .body (.length rem), b =>
    ((norm (some (.length (rem - 1)))).2, .byte b :: (norm (some (.length (rem - 1)))).1)
  | .body .eof, b => (.body .eof, [.byte b])
  | .body (.chunked st sz), b =>
    match step st sz [b] with
    | .ready st' sz' _ out =>
      ((norm (some (.chunked st' sz'))).2,
        (match out with | some d => d.map Ev.byte | none => []) ++ (norm (some (.chunked st' sz'))).1)
    | .err e => (.dead (.chunk e), [])
    | .pending => (.body (.chunked st sz), [])

def runSt : St → Bytes → St × List Ev
  | s, [] => (s, [])
  | s, b :: rest =>
    let r := stepSt s b
    let r' := runSt r.1 rest
    (r'.1, r.2 ++ r'.2)

@[simp] theorem runSt_nil (s : St) : runSt s [] = (s, []) := rfl

theorem runSt_cons (s : St) (b : UInt8) (rest : Bytes) :
    runSt s (b :: rest) = ((runSt (stepSt s b).1 rest).1, (stepSt s b).2 ++ (runSt (stepSt s b).1 rest).2) := rfl

theorem runSt_append (s : St) (a b : Bytes) :
    runSt s (a ++ b) = ((runSt (runSt s a).1 b).1, (runSt s a).2 ++ (runSt (runSt s a).1 b).2) := by
  induction a generalizing s with
  | nil => simp
  | cons x xs ih =>
    simp only [List.cons_append, runSt_cons, ih, List.append_assoc]

theorem runSt_dead (e : ParseErr) (bs : Bytes) : runSt (.dead e) bs = (.dead e, []) := by
  induction bs with
  | nil => rfl
  | cons b rest ih => simp [runSt_cons, stepSt, ih]

/-! ### chunked: code-shaped loop = automaton -/

/-- states in which the chunked decoder can rest between two reads -/
def NormalC (st : ChunkedState) (sz : Nat) : Prop := st ≠ .done ∧ (st = .body → 0 < sz)

def Normal : Kind → Prop
  | .length rem => 0 < rem
  | .chunked st sz => NormalC st sz
  | .eof => True

theorem norm_normal {k : Kind} (h : Normal k) : norm (some k) = ([], .body k) := by
  cases k with
  | length rem => cases rem with
    | zero => simp [Normal] at h
    | succ n => rfl
  | chunked st sz =>
    cases st <;> first | rfl | (simp [Normal, NormalC] at h)
  | eof => rfl

/-- a control state reads exactly one byte: on a longer buffer `step` does what it does on the
first byte alone and leaves the rest -/
theorem step_cons_ctl (st : ChunkedState) (sz : Nat) (b : UInt8) (rest : Bytes)
    (hb : st ≠ .body) (hd : st ≠ .done) :
    (∃ st' sz', step st sz [b] = .ready st' sz' [] none ∧ step st sz (b :: rest) = .ready st' sz' rest none
        ∧ (st' = .body → 0 < sz')) ∨
    (∃ e, step st sz [b] = .err e ∧ step st sz (b :: rest) = .err e) := by
  cases st <;> simp only [step, readSize, readSizeLws, readExtension, readSizeLf, readExpect] <;>
    first
    | contradiction
    | ((repeat' split) <;> simp_all <;>
        (try (refine ⟨_, _, ⟨rfl, rfl⟩, ?_⟩ <;> (intro h; first | assumption | cases h))))

theorem step_nil_ctl (st : ChunkedState) (sz : Nat) (hb : st ≠ .body) (hd : st ≠ .done) :
    step st sz [] = .pending := by
  cases st <;> first | contradiction | rfl

/-- `read_body` on a non-empty buffer with `rem > 0` -/
theorem step_body (sz : Nat) (src : Bytes) (hs : src ≠ []) :
    step .body sz src =
      if 0 < sz - src.length then .ready .body (sz - src.length) (src.drop sz) (some (src.take sz))
      else .ready .bodyCr (sz - src.length) (src.drop sz) (some (src.take sz)) := by
  have hl : src.length ≠ 0 := by
    intro h; exact hs (List.eq_nil_of_length_eq_zero h)
  simp only [step, readBody, hl, if_false]
  by_cases h : sz > src.length
  · have h1 : src.take sz = src := List.take_of_length_le (by omega)
    have h2 : src.drop sz = [] := List.drop_of_length_le (by omega)
    simp [h, h1, h2]
  · have h0 : sz - src.length = 0 := by omega
    simp [h, h0]

theorem stepSt_body (sz : Nat) (b : UInt8) (h : 0 < sz) :
    stepSt (.body (.chunked .body sz)) b =
      ((if 1 < sz then St.body (.chunked .body (sz - 1)) else St.body (.chunked .bodyCr 0)), [.byte b]) := by
  have hs := step_body sz [b] (by simp)
  simp only [stepSt, hs, List.length_singleton]
  by_cases h1 : 1 < sz
  · have : 0 < sz - 1 := by omega
    have hn : norm (some (.chunked .body (sz - 1))) = ([], .body (.chunked .body (sz - 1))) :=
      norm_normal (k := .chunked .body (sz - 1)) ⟨by simp, fun _ => this⟩
    have ht : List.take sz [b] = [b] := List.take_of_length_le (by simp; omega)
    simp [h1, this, hn, ht]
  · have h0 : sz = 1 := by omega
    subst h0
    simp [norm]

/-- the automaton over `bs` body bytes -/
theorem runSt_body (bs : Bytes) : ∀ (sz : Nat), bs ≠ [] → bs.length ≤ sz →
    runSt (.body (.chunked .body sz)) bs =
      ((if bs.length < sz then St.body (.chunked .body (sz - bs.length)) else St.body (.chunked .bodyCr 0)),
        bs.map Ev.byte) := by
  induction bs with
  | nil => intro _ h; exact absurd rfl h
  | cons b t ih =>
    intro sz _ hl
    simp only [List.length_cons] at hl
    have hpos : 0 < sz := by omega
    rw [runSt_cons, stepSt_body sz b hpos]
    cases t with
    | nil =>
      simp only [runSt_nil, List.length_cons, List.length_nil, List.map]
      by_cases h1 : 1 < sz <;> simp [h1]
    | cons c u =>
      have h1 : 1 < sz := by simp only [List.length_cons] at hl; omega
      have := ih (sz - 1) (by simp) (by simp only [List.length_cons] at hl ⊢; omega)
      simp only [h1, if_true, this, List.length_cons, List.map]
      have e1 : sz - 1 - (u.length + 1) = sz - (u.length + 1 + 1) := by omega
      by_cases h2 : u.length + 1 + 1 < sz
      · have : u.length + 1 < sz - 1 := by omega
        simp [h2, this, e1]
      · have : ¬ (u.length + 1 < sz - 1) := by omega
        simp [h2, this]

/-- what one call of the chunked decoder means in terms of the automaton started in `s` -/
def ChunkSpec (s : St) (src : Bytes) : CRes → Prop
  | .chunk bs st' sz' rest =>
    ∃ pre, src = pre ++ rest ∧ pre ≠ [] ∧ runSt s pre = (.body (.chunked st' sz'), bs.map Ev.byte) ∧ NormalC st' sz'
  | .eof _ rest => ∃ pre, src = pre ++ rest ∧ pre ≠ [] ∧ runSt s pre = (.head [] .lead0, [.eof])
  | .needMore st' sz' rest => rest = [] ∧ runSt s src = (.body (.chunked st' sz'), []) ∧ NormalC st' sz'
  | .err e => ∃ pre post, src = pre ++ post ∧ runSt s pre = (.dead (.chunk e), [])

theorem ChunkSpec_cons {s s' : St} {b : UInt8} {t : Bytes} {r : CRes}
    (hstep : stepSt s b = (s', [])) (h : ChunkSpec s' t r) : ChunkSpec s (b :: t) r := by
  cases r with
  | chunk bs st' sz' rest =>
    obtain ⟨pre, h1, _, h3, h4⟩ := h
    exact ⟨b :: pre, by simp [h1], by simp, by simp [runSt_cons, hstep, h3], h4⟩
  | eof sz' rest =>
    obtain ⟨pre, h1, _, h3⟩ := h
    exact ⟨b :: pre, by simp [h1], by simp, by simp [runSt_cons, hstep, h3]⟩
  | needMore st' sz' rest =>
    obtain ⟨h1, h2, h3⟩ := h
    exact ⟨h1, by simp [runSt_cons, hstep, h2], h3⟩
  | err e =>
    obtain ⟨pre, post, h1, h2⟩ := h
    exact ⟨b :: pre, post, by simp [h1], by simp [runSt_cons, hstep, h2]⟩

theorem decodeChunkedF_spec (fuel : Nat) : ∀ (st : ChunkedState) (sz : Nat) (src : Bytes),
    src.length < fuel → NormalC st sz →
    ChunkSpec (.body (.chunked st sz)) src (decodeChunkedF fuel st sz src) := by
  induction fuel with
  | zero => intro _ _ _ h; omega
  | succ fuel ih =>
    intro st sz src hlen hN
    obtain ⟨hd, hbsz⟩ := hN
    unfold decodeChunkedF
    by_cases hb : st = .body
    · subst hb
      have hpos := hbsz rfl
      cases src with
      | nil =>
        simp only [step, readBody, List.length_nil, if_true]
        simp [ChunkSpec, NormalC, hpos]
      | cons b t =>
        rw [step_body sz (b :: t) (by simp)]
        have hpre : (b :: t).take sz ≠ [] := by
          cases sz with
          | zero => omega
          | succ n => simp
        have hrun := runSt_body ((b :: t).take sz) sz hpre (by simp [List.length_take]; omega)
        by_cases h0 : 0 < sz - (b :: t).length
        · simp only [h0, if_true]
          refine ⟨(b :: t).take sz, (List.take_append_drop _ _).symm, hpre, ?_, by simp, fun _ => h0⟩
          rw [hrun]
          have : ((b :: t).take sz).length < sz := by simp [List.length_take] at h0 ⊢; omega
          have e : sz - ((b :: t).take sz).length = sz - (b :: t).length := by
            simp [List.length_take] at h0 ⊢; omega
          rw [if_pos this, e]
        · simp only [h0, if_false]
          refine ⟨(b :: t).take sz, (List.take_append_drop _ _).symm, hpre, ?_, by simp [NormalC]⟩
          rw [hrun]
          have : ¬ ((b :: t).take sz).length < sz := by simp [List.length_take] at h0 ⊢; omega
          have e : sz - (b :: t).length = 0 := by omega
          rw [if_neg this, e]
    · cases src with
      | nil =>
        rw [step_nil_ctl st sz hb hd]
        exact ⟨rfl, rfl, hd, hbsz⟩
      | cons b t =>
        rcases step_cons_ctl st sz b t hb hd with ⟨st', sz', h1, h2, h3⟩ | ⟨e, h1, h2⟩
        · rw [h2]
          by_cases hdone : st' = .done
          · simp only [hdone, if_true]
            refine ⟨[b], rfl, by simp, ?_⟩
            simp [runSt_cons, stepSt, h1, hdone, norm]
          · simp only [hdone, if_false]
            have hN' : NormalC st' sz' := ⟨hdone, h3⟩
            have hstep : stepSt (.body (.chunked st sz)) b = (.body (.chunked st' sz'), []) := by
              simp [stepSt, h1, norm_normal (k := .chunked st' sz') hN']
            cases t with
            | nil =>
              simp only [List.isEmpty_nil, if_true]
              exact ⟨rfl, by simp [runSt_cons, hstep], hN'⟩
            | cons c u =>
              simp only [List.isEmpty_cons, Bool.false_eq_true, if_false]
              exact ChunkSpec_cons hstep (ih st' sz' (c :: u) (by simp at hlen ⊢; omega) hN')
        · rw [h2]
          exact ⟨[b], t, rfl, by simp [runSt_cons, stepSt, h1]⟩

theorem decodeChunked_spec (st : ChunkedState) (sz : Nat) (src : Bytes) (h : NormalC st sz) :
    ChunkSpec (.body (.chunked st sz)) src (decodeChunked st sz src) :=
  decodeChunkedF_spec _ st sz src (Nat.lt_succ_self _) h

end ActixModel.H1
