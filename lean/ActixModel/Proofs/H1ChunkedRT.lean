import ActixModel.Proofs.H1Chunked
/-
Round trip for chunked bodies: the automaton (= the decoder, by `decodeChunked_spec`) run over
the wire form of a chunk list yields exactly the chunks' bytes and `Eof`.
The wire form is the RFC 7230 §4.1 grammar *with the tolerances the code has*: any hex-digit
string of the right value (leading zeros, either case), BWS after the size, a chunk extension
with arbitrary non-control bytes, no trailers.
-/
namespace ActixModel.H1
open ActixModel.Util

/-- value of a hex-digit string, `none` if a byte is not a hex digit -/
def hexFold : Nat → Bytes → Option Nat
  | acc, [] => some acc
  | acc, b :: rest =>
    match hexDigitVal b with
    | some d => hexFold (acc * 16 + d) rest
    | none => none

theorem hexFold_ge : ∀ (ds : Bytes) (acc v : Nat), hexFold acc ds = some v → acc ≤ v := by
  intro ds
  induction ds with
  | nil => intro acc v h; simp [hexFold] at h; omega
  | cons b t ih =>
    intro acc v h
    simp only [hexFold] at h
    split at h
    · have := ih _ _ h; omega
    · cases h

abbrev cst (st : ChunkedState) (sz : Nat) : St := .body (.chunked st sz)

theorem stepSt_ctl {st st' : ChunkedState} {sz sz' : Nat} {b : UInt8}
    (h : step st sz [b] = .ready st' sz' [] none) (hd : st' ≠ .done) (hb : st' = .body → 0 < sz') :
    stepSt (cst st sz) b = (cst st' sz', []) := by
  simp [stepSt, h, norm_normal (k := .chunked st' sz') ⟨hd, hb⟩]

theorem runSt_cons_silent {s s' : St} {b : UInt8} (t : Bytes) (h : stepSt s b = (s', [])) :
    runSt s (b :: t) = runSt s' t := by
  rw [runSt_cons, h]; simp

/-- the size digits -/
theorem run_digits : ∀ (ds : Bytes) (first : Bool) (sz v : Nat), ds ≠ [] →
    hexFold sz ds = some v → v < u64Bound →
    runSt (cst (if first then .size else .sizeDigit) sz) ds = (cst .sizeDigit v, []) := by
  intro ds
  induction ds with
  | nil => intro _ _ _ h; exact absurd rfl h
  | cons b t ih =>
    intro first sz v _ hf hv
    simp only [hexFold] at hf
    cases hd : hexDigitVal b with
    | none => simp [hd] at hf
    | some d =>
      simp only [hd] at hf
      have hge := hexFold_ge t _ _ hf
      have hlt : sz * 16 < u64Bound := by omega
      have hstep : step (if first then ChunkedState.size else .sizeDigit) sz [b] =
          .ready .sizeDigit (sz * 16 + d) [] none := by
        cases first <;> simp [step, readSize, hd, hlt]
      rw [runSt_cons_silent _ (stepSt_ctl hstep (by simp) (by simp))]
      cases t with
      | nil =>
        simp only [hexFold, Option.some.injEq] at hf
        subst hf; rfl
      | cons c u =>
        exact ih false (sz * 16 + d) v (by simp) hf hv

/-- BWS after the size (tolerance) -/
theorem run_lws : ∀ (ws : Bytes) (st : ChunkedState) (sz : Nat), (st = .sizeDigit ∨ st = .sizeLws) →
    (∀ b ∈ ws, isLws b = true) →
    runSt (cst st sz) ws = (cst (if ws = [] then st else .sizeLws) sz, []) := by
  intro ws
  induction ws with
  | nil => intro st sz _ _; rfl
  | cons b t ih =>
    intro st sz hst hall
    have hb : isLws b = true := hall b List.mem_cons_self
    have hnd : hexDigitVal b = none := by
      simp only [isLws, Bool.or_eq_true, decide_eq_true_eq] at hb
      unfold hexDigitVal
      rcases hb with hb | hb <;> simp [hb]
    have hstep : step st sz [b] = .ready .sizeLws sz [] none := by
      rcases hst with rfl | rfl
      · simp [step, readSize, hnd, hb]
      · simp [step, readSizeLws, hb]
    rw [runSt_cons_silent _ (stepSt_ctl hstep (by simp) (by simp))]
    rw [ih .sizeLws sz (Or.inr rfl) (fun x hx => hall x (List.mem_cons_of_mem _ hx))]
    cases t <;> simp

/-- a chunk extension: `;` then bytes that are neither CR nor control characters (tolerance) -/
theorem run_ext : ∀ (e : Bytes) (sz : Nat), (∀ b ∈ e, b.toNat ≠ 13 ∧ isExtCtl b = false) →
    runSt (cst .extension sz) e = (cst .extension sz, []) := by
  intro e
  induction e with
  | nil => intro _ _; rfl
  | cons b t ih =>
    intro sz hall
    obtain ⟨h13, hctl⟩ := hall b List.mem_cons_self
    have hstep : step .extension sz [b] = .ready .extension sz [] none := by
      simp [step, readExtension, h13, hctl]
    rw [runSt_cons_silent _ (stepSt_ctl hstep (by simp) (by simp))]
    exact ih sz (fun x hx => hall x (List.mem_cons_of_mem _ hx))

/-- the decoration between the size digits and CRLF: BWS, then optionally `;ext` -/
structure Deco where
  lws : Bytes
  ext : Option Bytes

def Deco.Valid (d : Deco) : Prop :=
  (∀ b ∈ d.lws, isLws b = true) ∧
  (∀ e, d.ext = some e → ∀ b ∈ e, b.toNat ≠ 13 ∧ isExtCtl b = false)

def Deco.bytes (d : Deco) : Bytes :=
  d.lws ++ (match d.ext with | some e => 59 :: e | none => [])

/-- a size line: digits, decoration, CRLF — brings the decoder to `Body` (size > 0) or `EndCr` -/
theorem run_size_line (ds : Bytes) (d : Deco) (v : Nat) (hds : ds ≠ []) (hf : hexFold 0 ds = some v)
    (hv : v < u64Bound) (hd : d.Valid) :
    runSt (cst .size 0) (ds ++ d.bytes ++ [13, 10]) =
      (cst (if 0 < v then .body else .endCr) v, []) := by
  have h1 := run_digits ds true 0 v hds hf hv
  simp only [if_true] at h1
  have h2 := run_lws d.lws .sizeDigit v (Or.inl rfl) hd.1
  -- state after the BWS
  have hst : (if d.lws = [] then ChunkedState.sizeDigit else .sizeLws) = .sizeDigit ∨
      (if d.lws = [] then ChunkedState.sizeDigit else .sizeLws) = .sizeLws := by
    by_cases h : d.lws = [] <;> simp [h]
  generalize hs : (if d.lws = [] then ChunkedState.sizeDigit else .sizeLws) = s at h2 hst
  -- CR LF from `s ∈ {sizeDigit, sizeLws}` or from `extension`
  have hcr : ∀ (st : ChunkedState), (st = .sizeDigit ∨ st = .sizeLws ∨ st = .extension) →
      runSt (cst st v) [13, 10] = (cst (if 0 < v then .body else .endCr) v, []) := by
    intro st hst
    have hstep : step st v [13] = .ready .sizeLf v [] none := by
      rcases hst with rfl | rfl | rfl
      · simp [step, readSize, hexDigitVal, isLws]
      · simp [step, readSizeLws, isLws]
      · simp [step, readExtension]
    rw [runSt_cons_silent _ (stepSt_ctl hstep (by simp) (by simp))]
    by_cases hv0 : 0 < v
    · have hlf : step .sizeLf v [10] = .ready .body v [] none := by simp [step, readSizeLf, hv0]
      rw [runSt_cons_silent _ (stepSt_ctl hlf (by simp) (fun _ => hv0))]
      simp [hv0]
    · have hlf : step .sizeLf v [10] = .ready .endCr v [] none := by simp [step, readSizeLf, hv0]
      rw [runSt_cons_silent _ (stepSt_ctl hlf (by simp) (by simp))]
      simp [hv0]
  rw [List.append_assoc, runSt_append, h1]
  simp only [List.nil_append, Deco.bytes]
  rw [List.append_assoc, runSt_append, h2]
  simp only [List.nil_append]
  cases he : d.ext with
  | none =>
    simp only [List.nil_append]
    exact hcr s (by rcases hst with h | h <;> simp [h])
  | some e =>
    have hsemi : step s v [59] = .ready .extension v [] none := by
      rcases hst with rfl | rfl
      · simp [step, readSize, hexDigitVal, isLws]
      · simp [step, readSizeLws, isLws]
    simp only [List.cons_append]
    rw [runSt_cons_silent _ (stepSt_ctl hsemi (by simp) (by simp))]
    rw [runSt_append, run_ext e v (hd.2 e he)]
    simp only [List.nil_append]
    exact hcr .extension (Or.inr (Or.inr rfl))

/-- one chunk on the wire -/
structure WChunk where
  digits : Bytes
  deco : Deco
  data : Bytes

def WChunk.Valid (c : WChunk) : Prop :=
  c.digits ≠ [] ∧ hexFold 0 c.digits = some c.data.length ∧ c.data ≠ [] ∧
  c.data.length < u64Bound ∧ c.deco.Valid

def WChunk.bytes (c : WChunk) : Bytes :=
  c.digits ++ c.deco.bytes ++ [13, 10] ++ c.data ++ [13, 10]

theorem run_chunk (c : WChunk) (h : c.Valid) :
    runSt (cst .size 0) c.bytes = (cst .size 0, c.data.map Ev.byte) := by
  obtain ⟨h1, h2, h3, h4, h5⟩ := h
  have hpos : 0 < c.data.length := List.length_pos_iff.mpr h3
  have hl := run_size_line c.digits c.deco c.data.length h1 h2 h4 h5
  simp only [hpos, if_true] at hl
  have hb := runSt_body c.data c.data.length h3 (Nat.le_refl _)
  simp only [Nat.lt_irrefl, if_false] at hb
  have hcr : step .bodyCr 0 [13] = .ready .bodyLf 0 [] none := by simp [step, readExpect]
  have hlf : step .bodyLf 0 [10] = .ready .size 0 [] none := by simp [step, readExpect]
  have e : c.bytes = (c.digits ++ c.deco.bytes ++ [13, 10]) ++ (c.data ++ [13, 10]) := by
    simp [WChunk.bytes]
  rw [e, runSt_append, hl, runSt_append, hb]
  rw [runSt_cons_silent _ (stepSt_ctl hcr (by simp) (by simp)),
    runSt_cons_silent _ (stepSt_ctl hlf (by simp) (by simp))]
  simp

/-- the last chunk: a size line of value 0, then CRLF (no trailers) -/
structure WLast where
  digits : Bytes
  deco : Deco

def WLast.Valid (l : WLast) : Prop := l.digits ≠ [] ∧ hexFold 0 l.digits = some 0 ∧ l.deco.Valid

def WLast.bytes (l : WLast) : Bytes := l.digits ++ l.deco.bytes ++ [13, 10] ++ [13, 10]

theorem run_last (l : WLast) (h : l.Valid) :
    runSt (cst .size 0) l.bytes = (.head [] .lead0, [.eof]) := by
  obtain ⟨h1, h2, h3⟩ := h
  have hl := run_size_line l.digits l.deco 0 h1 h2 (by decide) h3
  simp only [Nat.lt_irrefl, if_false] at hl
  have hcr : step .endCr 0 [13] = .ready .endLf 0 [] none := by simp [step, readExpect]
  unfold WLast.bytes
  rw [runSt_append, hl, runSt_cons_silent _ (stepSt_ctl hcr (by simp) (by simp))]
  simp [runSt_cons, stepSt, step, readExpect, norm]

def wireChunked (cs : List WChunk) (l : WLast) : Bytes := (cs.map WChunk.bytes).flatten ++ l.bytes

/-- **round trip**: decoding the wire form of a chunk list yields the chunks' bytes, then `Eof`,
and leaves the decoder ready for the next head -/
theorem run_wireChunked (cs : List WChunk) (l : WLast) (hcs : ∀ c ∈ cs, c.Valid) (hl : l.Valid) :
    runSt (cst .size 0) (wireChunked cs l) =
      (.head [] .lead0, ((cs.map (·.data)).flatten).map Ev.byte ++ [.eof]) := by
  induction cs with
  | nil => simpa [wireChunked] using run_last l hl
  | cons c t ih =>
    have hc := run_chunk c (hcs c List.mem_cons_self)
    have ht := ih (fun x hx => hcs x (List.mem_cons_of_mem _ hx))
    simp only [wireChunked, List.map_cons, List.flatten_cons, List.append_assoc] at ht ⊢
    rw [runSt_append, hc, ht]
    simp

end ActixModel.H1
