import ActixModel.Proofs.H1ChunkedRT
/-
Soundness of the chunked decoder: whenever it reports `Eof`, the bytes it consumed are a
well-formed chunked body — every chunk-size is 1*HEXDIG (the strict statement that was false
before the F12 fix), optional BWS, optional extension, CRLF, exactly `size` data bytes, CRLF;
last chunk of size 0 followed directly by CRLF — and the data delivered are the chunks' data.
-/
namespace ActixModel.H1
open ActixModel.Util

/-- run `ChunkedState::step` byte by byte until `End`; `none` on error or if the input ends first.
Result: data bytes delivered, bytes left over. -/
def runToEnd : ChunkedState → Nat → Bytes → Option (Bytes × Bytes)
  | _, _, [] => none
  | st, sz, b :: t =>
    match step st sz [b] with
    | .ready st' sz' _ out =>
      if st' = .done then some (out.getD [], t)
      else match runToEnd st' sz' t with
        | some (d, r) => some (out.getD [] ++ d, r)
        | none => none
    | _ => none

theorem runToEnd_ctl {st st' : ChunkedState} {sz sz' : Nat} {b : UInt8} (t : Bytes)
    (hs : step st sz [b] = .ready st' sz' [] none) (hd : st' ≠ .done) :
    runToEnd st sz (b :: t) = runToEnd st' sz' t := by
  simp only [runToEnd, hs, hd, if_false, Option.getD_none, List.nil_append]
  cases runToEnd st' sz' t with
  | none => rfl
  | some p => rfl

theorem runToEnd_err {st : ChunkedState} {sz : Nat} {b : UInt8} {e : ChunkErr} (t : Bytes)
    (hs : step st sz [b] = .err e) : runToEnd st sz (b :: t) = none := by
  simp only [runToEnd, hs]

theorem byte_eq {b : UInt8} {n : Nat} (hn : n < 256) (h : b.toNat = n) : b = UInt8.ofNat n := by
  apply UInt8.toNat_inj.mp
  simp [h, Nat.mod_eq_of_lt hn]

theorem inv_sizeLf {v : Nat} {bs : Bytes} {r : Bytes × Bytes} (h : runToEnd .sizeLf v bs = some r) :
    ∃ t, bs = 10 :: t ∧ runToEnd (if 0 < v then .body else .endCr) v t = some r := by
  cases bs with
  | nil => simp [runToEnd] at h
  | cons b t =>
    by_cases hb : b.toNat = 10
    · have hb' := byte_eq (by decide) hb
      subst hb'
      refine ⟨t, rfl, ?_⟩
      by_cases hv : 0 < v
      · have hs : step .sizeLf v [UInt8.ofNat 10] = .ready .body v [] none := by simp [step, readSizeLf, hv]
        rw [runToEnd_ctl t hs (by simp)] at h
        simpa [hv] using h
      · have hs : step .sizeLf v [UInt8.ofNat 10] = .ready .endCr v [] none := by simp [step, readSizeLf, hv]
        rw [runToEnd_ctl t hs (by simp)] at h
        simpa [hv] using h
    · have hs : step .sizeLf v [b] = .err .invalidSizeLf := by simp [step, readSizeLf, hb]
      rw [runToEnd_err t hs] at h
      cases h

/-- `read_extension` loop: bytes that are neither CR nor control, then CR -/
theorem inv_ext {v : Nat} {r : Bytes × Bytes} : ∀ (bs : Bytes), runToEnd .extension v bs = some r →
    ∃ e t, bs = e ++ 13 :: t ∧ (∀ b ∈ e, b.toNat ≠ 13 ∧ isExtCtl b = false) ∧
      runToEnd .sizeLf v t = some r := by
  intro bs
  induction bs with
  | nil => intro h; simp [runToEnd] at h
  | cons b t ih =>
    intro h
    by_cases hb : b.toNat = 13
    · have hb' := byte_eq (by decide) hb
      subst hb'
      have hs : step .extension v [UInt8.ofNat 13] = .ready .sizeLf v [] none := by
        simp [step, readExtension]
      rw [runToEnd_ctl t hs (by simp)] at h
      exact ⟨[], t, rfl, by simp, h⟩
    · by_cases hc : isExtCtl b = true
      · have hs : step .extension v [b] = .err .invalidExt := by simp [step, readExtension, hb, hc]
        rw [runToEnd_err t hs] at h
        cases h
      · have hc' : isExtCtl b = false := by simpa using hc
        have hs : step .extension v [b] = .ready .extension v [] none := by
          simp [step, readExtension, hb, hc']
        rw [runToEnd_ctl t hs (by simp)] at h
        obtain ⟨e, t', h1, h2, h3⟩ := ih h
        refine ⟨b :: e, t', by simp [h1], ?_, h3⟩
        intro x hx
        rcases List.mem_cons.mp hx with rfl | hx
        · exact ⟨hb, hc'⟩
        · exact h2 x hx

/-- what may follow the size digits / the BWS: `;ext`, or CR -/
def AfterSize (v : Nat) (r : Bytes × Bytes) (t : Bytes) : Prop :=
  (∃ t', t = 59 :: t' ∧ runToEnd .extension v t' = some r) ∨
  (∃ t', t = 13 :: t' ∧ runToEnd .sizeLf v t' = some r)

theorem inv_lws {v : Nat} {r : Bytes × Bytes} : ∀ (bs : Bytes), runToEnd .sizeLws v bs = some r →
    ∃ ws t, bs = ws ++ t ∧ (∀ b ∈ ws, isLws b = true) ∧ AfterSize v r t := by
  intro bs
  induction bs with
  | nil => intro h; simp [runToEnd] at h
  | cons b t ih =>
    intro h
    by_cases hl : isLws b = true
    · have hs : step .sizeLws v [b] = .ready .sizeLws v [] none := by simp [step, readSizeLws, hl]
      rw [runToEnd_ctl t hs (by simp)] at h
      obtain ⟨ws, t', h1, h2, h3⟩ := ih h
      refine ⟨b :: ws, t', by simp [h1], ?_, h3⟩
      intro x hx
      rcases List.mem_cons.mp hx with rfl | hx
      · exact hl
      · exact h2 x hx
    · have hl' : isLws b = false := by simpa using hl
      by_cases h59 : b.toNat = 59
      · have hb' := byte_eq (by decide) h59
        subst hb'
        have hs : step .sizeLws v [UInt8.ofNat 59] = .ready .extension v [] none := by
          simp [step, readSizeLws, isLws]
        rw [runToEnd_ctl t hs (by simp)] at h
        exact ⟨[], _, rfl, by simp, Or.inl ⟨t, rfl, h⟩⟩
      · by_cases h13 : b.toNat = 13
        · have hb' := byte_eq (by decide) h13
          subst hb'
          have hs : step .sizeLws v [UInt8.ofNat 13] = .ready .sizeLf v [] none := by
            simp [step, readSizeLws, isLws]
          rw [runToEnd_ctl t hs (by simp)] at h
          exact ⟨[], _, rfl, by simp, Or.inr ⟨t, rfl, h⟩⟩
        · have hs : step .sizeLws v [b] = .err .invalidLws := by
            simp [step, readSizeLws, hl', h59, h13]
          rw [runToEnd_err t hs] at h
          cases h

/-- the digit loop from `SizeDigit` -/
theorem inv_digits {r : Bytes × Bytes} : ∀ (bs : Bytes) (sz : Nat), runToEnd .sizeDigit sz bs = some r →
    ∃ ds t v, bs = ds ++ t ∧ hexFold sz ds = some v ∧ (sz < u64Bound → v < u64Bound) ∧
      ((∃ ws t', t = ws ++ t' ∧ (∀ b ∈ ws, isLws b = true) ∧ AfterSize v r t')) := by
  intro bs
  induction bs with
  | nil => intro sz h; simp [runToEnd] at h
  | cons b t ih =>
    intro sz h
    cases hd : hexDigitVal b with
    | some d =>
      by_cases hlt : sz * 16 < u64Bound
      · have hs : step .sizeDigit sz [b] = .ready .sizeDigit (sz * 16 + d) [] none := by
          simp [step, readSize, hd, hlt]
        rw [runToEnd_ctl t hs (by simp)] at h
        obtain ⟨ds, t', v, h1, h2, h3, h4⟩ := ih _ h
        refine ⟨b :: ds, t', v, by simp [h1], by simp [hexFold, hd, h2], ?_, h4⟩
        intro _
        apply h3
        have : d < 16 := by
          unfold hexDigitVal at hd
          split at hd
          · cases hd; omega
          · split at hd
            · cases hd; omega
            · split at hd
              · cases hd; omega
              · cases hd
        unfold u64Bound at *
        omega
      · have hs : step .sizeDigit sz [b] = .err .sizeTooBig := by simp [step, readSize, hd, hlt]
        rw [runToEnd_err t hs] at h
        cases h
    | none =>
      -- first non-digit: BWS, `;` or CR
      by_cases hl : isLws b = true
      · have hs : step .sizeDigit sz [b] = .ready .sizeLws sz [] none := by simp [step, readSize, hd, hl]
        rw [runToEnd_ctl t hs (by simp)] at h
        obtain ⟨ws, t', h1, h2, h3⟩ := inv_lws t h
        refine ⟨[], b :: t, sz, rfl, rfl, id, b :: ws, t', by simp [h1], ?_, h3⟩
        intro x hx
        rcases List.mem_cons.mp hx with rfl | hx
        · exact hl
        · exact h2 x hx
      · have hl' : isLws b = false := by simpa using hl
        by_cases h59 : b.toNat = 59
        · have hb' := byte_eq (by decide) h59
          subst hb'
          have hs : step .sizeDigit sz [UInt8.ofNat 59] = .ready .extension sz [] none := by
            simp [step, readSize, hexDigitVal, isLws]
          rw [runToEnd_ctl t hs (by simp)] at h
          exact ⟨[], _, sz, rfl, rfl, id, [], _, rfl, by simp, Or.inl ⟨t, rfl, h⟩⟩
        · by_cases h13 : b.toNat = 13
          · have hb' := byte_eq (by decide) h13
            subst hb'
            have hs : step .sizeDigit sz [UInt8.ofNat 13] = .ready .sizeLf sz [] none := by
              simp [step, readSize, hexDigitVal, isLws]
            rw [runToEnd_ctl t hs (by simp)] at h
            exact ⟨[], _, sz, rfl, rfl, id, [], _, rfl, by simp, Or.inr ⟨t, rfl, h⟩⟩
          · have hs : step .sizeDigit sz [b] = .err .invalidSize := by
              simp [step, readSize, hd, hl', h59, h13]
            rw [runToEnd_err t hs] at h
            cases h

theorem hexDigitVal_lt {b : UInt8} {d : Nat} (hd : hexDigitVal b = some d) : d < 16 := by
  unfold hexDigitVal at hd
  split at hd
  · cases hd; omega
  · split at hd
    · cases hd; omega
    · split at hd
      · cases hd; omega
      · cases hd

theorem inv_size {sz : Nat} {bs : Bytes} {r : Bytes × Bytes} (h : runToEnd .size sz bs = some r) :
    ∃ b t d, bs = b :: t ∧ hexDigitVal b = some d ∧ sz * 16 < u64Bound ∧
      runToEnd .sizeDigit (sz * 16 + d) t = some r := by
  cases bs with
  | nil => simp [runToEnd] at h
  | cons b t =>
    cases hd : hexDigitVal b with
    | some d =>
      by_cases hlt : sz * 16 < u64Bound
      · have hs : step .size sz [b] = .ready .sizeDigit (sz * 16 + d) [] none := by
          simp [step, readSize, hd, hlt]
        rw [runToEnd_ctl t hs (by simp)] at h
        exact ⟨b, t, d, rfl, hd, hlt, h⟩
      · have hs : step .size sz [b] = .err .sizeTooBig := by simp [step, readSize, hd, hlt]
        rw [runToEnd_err t hs] at h
        cases h
    | none =>
      have hs : step .size sz [b] = .err .invalidSize := by simp [step, readSize, hd]
      rw [runToEnd_err t hs] at h
      cases h

/-- a whole size line, read from the start state of a chunk -/
theorem inv_size_line {bs : Bytes} {r : Bytes × Bytes} (h : runToEnd .size 0 bs = some r) :
    ∃ (ds : Bytes) (d : Deco) (v : Nat) (t : Bytes), bs = ds ++ d.bytes ++ [13, 10] ++ t ∧ ds ≠ [] ∧ hexFold 0 ds = some v ∧ v < u64Bound ∧
      d.Valid ∧ runToEnd (if 0 < v then .body else .endCr) v t = some r := by
  obtain ⟨b, t, dg, rfl, hd, _, h1⟩ := inv_size h
  obtain ⟨ds, t1, v, rfl, hf, hv, ws, t2, rfl, hws, haft⟩ := inv_digits t _ h1
  have hdg := hexDigitVal_lt hd
  have hv' : v < u64Bound := hv (by unfold u64Bound; omega)
  have hfold : hexFold 0 (b :: ds) = some v := by simpa [hexFold, hd] using hf
  rcases haft with ⟨t3, rfl, hext⟩ | ⟨t3, rfl, hlf⟩
  · obtain ⟨e, t4, rfl, he, hlf⟩ := inv_ext t3 hext
    obtain ⟨t5, rfl, hnext⟩ := inv_sizeLf hlf
    refine ⟨b :: ds, { lws := ws, ext := some e }, v, t5, ?_, by simp, hfold, hv', ⟨hws, ?_⟩, hnext⟩
    · simp [Deco.bytes]
    · intro e' he'; cases he'; exact he
  · obtain ⟨t5, rfl, hnext⟩ := inv_sizeLf hlf
    refine ⟨b :: ds, { lws := ws, ext := none }, v, t5, ?_, by simp, hfold, hv', ⟨hws, ?_⟩, hnext⟩
    · simp [Deco.bytes]
    · intro e' he'; cases he'

theorem runToEnd_data {st st' : ChunkedState} {sz sz' : Nat} {b : UInt8} {rest d : Bytes} (t : Bytes)
    (hs : step st sz [b] = .ready st' sz' rest (some d)) (hd : st' ≠ .done) :
    runToEnd st sz (b :: t) = (runToEnd st' sz' t).map (fun p => (d ++ p.1, p.2)) := by
  simp only [runToEnd, hs, hd, if_false, Option.getD_some]
  cases runToEnd st' sz' t with
  | none => rfl
  | some p => rfl

/-- exactly `v` data bytes are taken -/
theorem inv_body : ∀ (bs : Bytes) (v : Nat) (data rest : Bytes), 0 < v →
    runToEnd .body v bs = some (data, rest) →
    ∃ d t data', bs = d ++ t ∧ d.length = v ∧ data = d ++ data' ∧
      runToEnd .bodyCr 0 t = some (data', rest) := by
  intro bs
  induction bs with
  | nil => intro v data rest _ h; simp [runToEnd] at h
  | cons b t ih =>
    intro v data rest hv h
    have hstep := step_body v [b] (by simp)
    have htake : List.take v [b] = [b] := List.take_of_length_le (by simp; omega)
    rw [htake] at hstep
    by_cases h1 : 0 < v - [b].length
    · simp only [h1, if_true] at hstep
      rw [runToEnd_data t hstep (by simp)] at h
      cases hr : runToEnd .body (v - [b].length) t with
      | none => rw [hr] at h; cases h
      | some p =>
        obtain ⟨data1, rest1⟩ := p
        rw [hr] at h
        simp only [Option.map_some, Option.some.injEq, Prod.mk.injEq] at h
        obtain ⟨rfl, rfl⟩ := h
        obtain ⟨d, t', data', rfl, hl, rfl, hnext⟩ := ih _ data1 rest1 h1 hr
        refine ⟨b :: d, t', data', by simp, ?_, by simp, hnext⟩
        simp only [List.length_cons, List.length_nil] at hl h1 ⊢
        omega
    · simp only [h1, if_false] at hstep
      rw [runToEnd_data t hstep (by simp)] at h
      have hv1 : v - [b].length = 0 := by omega
      rw [hv1] at h
      cases hr : runToEnd .bodyCr 0 t with
      | none => rw [hr] at h; cases h
      | some p =>
        obtain ⟨data1, rest1⟩ := p
        rw [hr] at h
        simp only [Option.map_some, Option.some.injEq, Prod.mk.injEq] at h
        obtain ⟨rfl, rfl⟩ := h
        refine ⟨[b], t, data1, rfl, ?_, rfl, hr⟩
        simp only [List.length_cons, List.length_nil] at hv1 ⊢
        omega

theorem inv_expect {st next : ChunkedState} {want : Nat} {e : ChunkErr} {sz : Nat} {bs : Bytes}
    {r : Bytes × Bytes} (hw : want < 256) (hn : next ≠ .done)
    (hst : ∀ b t', step st sz (b :: t') = readExpect want next e sz (b :: t'))
    (h : runToEnd st sz bs = some r) :
    ∃ t, bs = UInt8.ofNat want :: t ∧ runToEnd next sz t = some r := by
  cases bs with
  | nil => simp [runToEnd] at h
  | cons b t =>
    by_cases hb : b.toNat = want
    · have hb' := byte_eq hw hb
      subst hb'
      have hs : step st sz [UInt8.ofNat want] = .ready next sz [] none := by
        rw [hst]; simp [readExpect, hb]
      rw [runToEnd_ctl t hs hn] at h
      exact ⟨t, rfl, h⟩
    · have hs : step st sz [b] = .err e := by rw [hst]; simp [readExpect, hb]
      rw [runToEnd_err t hs] at h
      cases h

theorem inv_body_crlf {bs : Bytes} {r : Bytes × Bytes} (h : runToEnd .bodyCr 0 bs = some r) :
    ∃ t, bs = 13 :: 10 :: t ∧ runToEnd .size 0 t = some r := by
  obtain ⟨t1, rfl, h1⟩ := inv_expect (want := 13) (by decide) (by simp) (fun _ _ => rfl) h
  obtain ⟨t2, rfl, h2⟩ := inv_expect (want := 10) (by decide) (by simp) (fun _ _ => rfl) h1
  exact ⟨t2, rfl, h2⟩

theorem inv_end {v : Nat} {bs : Bytes} {r : Bytes × Bytes} (h : runToEnd .endCr v bs = some r) :
    ∃ rest, bs = 13 :: 10 :: rest ∧ r = ([], rest) := by
  obtain ⟨t1, rfl, h1⟩ := inv_expect (want := 13) (by decide) (by simp) (fun _ _ => rfl) h
  cases t1 with
  | nil => simp [runToEnd] at h1
  | cons b t =>
    by_cases hb : b.toNat = 10
    · have hb' := byte_eq (by decide) hb
      subst hb'
      refine ⟨t, rfl, ?_⟩
      simp [runToEnd, step, readExpect] at h1
      exact h1.symm
    · have hs : step .endLf v [b] = .err .invalidEndLf := by simp [step, readExpect, hb]
      rw [runToEnd_err t hs] at h1
      cases h1

/-- **Soundness.**  If the decoder reaches `End` on `bs`, then the bytes it consumed are the wire
form of a list of valid chunks followed by a valid last-chunk, what is left over is `rest`, and
the data delivered are exactly the chunks' data. -/
theorem runToEnd_sound : ∀ (n : Nat) (bs data rest : Bytes), bs.length ≤ n →
    runToEnd .size 0 bs = some (data, rest) →
    ∃ cs l, (∀ c ∈ cs, WChunk.Valid c) ∧ WLast.Valid l ∧ bs = wireChunked cs l ++ rest ∧
      data = (cs.map (·.data)).flatten := by
  intro n
  induction n with
  | zero =>
    intro bs data rest hl h
    have : bs = [] := List.eq_nil_of_length_eq_zero (by omega)
    subst this
    simp [runToEnd] at h
  | succ n ih =>
    intro bs data rest hl h
    obtain ⟨ds, d, v, t, rfl, hds, hf, hv, hdv, hnext⟩ := inv_size_line h
    by_cases hv0 : 0 < v
    · simp only [hv0, if_true] at hnext
      obtain ⟨dat, t1, data', rfl, hlen, rfl, hcr⟩ := inv_body t v data rest hv0 hnext
      obtain ⟨t2, rfl, hsz⟩ := inv_body_crlf hcr
      have hshort : t2.length ≤ n := by
        simp only [List.length_append, List.length_cons] at hl
        have : 0 < ds.length := List.length_pos_iff.mpr hds
        omega
      obtain ⟨cs, l, hcs, hlv, rfl, rfl⟩ := ih t2 data' rest hshort hsz
      refine ⟨{ digits := ds, deco := d, data := dat } :: cs, l, ?_, hlv, ?_, by simp⟩
      · intro c hc
        rcases List.mem_cons.mp hc with rfl | hc
        · refine ⟨hds, by rw [hlen]; exact hf, ?_, by rw [hlen]; exact hv, hdv⟩
          intro h0
          have h0' : dat = [] := h0
          rw [h0'] at hlen; simp at hlen; omega
        · exact hcs c hc
      · simp [wireChunked, WChunk.bytes]
    · simp only [hv0, if_false] at hnext
      have hv00 : v = 0 := by omega
      subst hv00
      obtain ⟨rest', rfl, hr⟩ := inv_end hnext
      simp only [Prod.mk.injEq] at hr
      obtain ⟨rfl, rfl⟩ := hr
      exact ⟨[], { digits := ds, deco := d }, by simp, ⟨hds, hf, hdv⟩, by simp [wireChunked, WLast.bytes], by simp⟩

/-! ### `runToEnd` is the automaton up to the first `Eof` -/

theorem step_single_not_pending (st : ChunkedState) (sz : Nat) (b : UInt8) : step st sz [b] ≠ .pending := by
  cases st <;> simp only [step, readSize, readSizeLws, readExtension, readSizeLf, readExpect, readBody] <;>
    (repeat' split) <;> simp

theorem step_single_normal {st st' : ChunkedState} {sz sz' : Nat} {b : UInt8} {r : Bytes} {out : Option Bytes}
    (hN : NormalC st sz) (h : step st sz [b] = .ready st' sz' r out) (hd : st' ≠ .done) : NormalC st' sz' := by
  refine ⟨hd, ?_⟩
  by_cases hb : st = .body
  · subst hb
    rw [step_body sz [b] (by simp)] at h
    split at h
    · rename_i h0; cases h; exact fun _ => h0
    · cases h; intro hh; cases hh
  · rcases step_cons_ctl st sz b [] hb hN.1 with ⟨st'', sz'', h1, _, h3⟩ | ⟨e, h1, _⟩
    · rw [h1] at h; cases h; exact h3
    · rw [h1] at h; cases h

theorem step_single_out {st st' : ChunkedState} {sz sz' : Nat} {b : UInt8} {r : Bytes} {out : Option Bytes}
    (hN : NormalC st sz) (h : step st sz [b] = .ready st' sz' r out) : r = [] := by
  by_cases hb : st = .body
  · subst hb
    have hpos := hN.2 rfl
    rw [step_body sz [b] (by simp)] at h
    have : List.drop sz [b] = [] := List.drop_of_length_le (by simp; omega)
    split at h <;> (cases h; exact this)
  · rcases step_cons_ctl st sz b [] hb hN.1 with ⟨st'', sz'', h1, _, _⟩ | ⟨e, h1, _⟩
    · rw [h1] at h; cases h; rfl
    · rw [h1] at h; cases h

/-- if `runToEnd` succeeds, the automaton emits exactly the data and `Eof` on the consumed prefix -/
theorem runToEnd_some : ∀ (bs : Bytes) (st : ChunkedState) (sz : Nat) (data rest : Bytes), NormalC st sz →
    runToEnd st sz bs = some (data, rest) →
    ∃ w, bs = w ++ rest ∧ runSt (cst st sz) w = (.head [] .lead0, data.map Ev.byte ++ [.eof]) := by
  intro bs
  induction bs with
  | nil => intro st sz data rest _ h; simp [runToEnd] at h
  | cons b t ih =>
    intro st sz data rest hN h
    simp only [runToEnd] at h
    cases hs : step st sz [b] with
    | pending => rw [hs] at h; cases h
    | err e => rw [hs] at h; cases h
    | ready st' sz' r out =>
      rw [hs] at h
      simp only at h
      by_cases hd : st' = .done
      · simp only [hd, if_true, Option.some.injEq, Prod.mk.injEq] at h
        obtain ⟨rfl, rfl⟩ := h
        refine ⟨[b], rfl, ?_⟩
        subst hd
        cases out <;> simp [runSt_cons, stepSt, hs, norm]
      · simp only [hd, if_false] at h
        cases hr : runToEnd st' sz' t with
        | none => rw [hr] at h; cases h
        | some p =>
          obtain ⟨d1, r1⟩ := p
          rw [hr] at h
          simp only [Option.some.injEq, Prod.mk.injEq] at h
          obtain ⟨rfl, rfl⟩ := h
          have hN' := step_single_normal hN hs hd
          obtain ⟨w, rfl, hw⟩ := ih st' sz' d1 r1 hN' hr
          refine ⟨b :: w, rfl, ?_⟩
          rw [runSt_cons]
          simp only [stepSt, hs, norm_normal (k := .chunked st' sz') hN', hw]
          cases out <;> simp

/-- if `runToEnd` fails, the automaton never emits `Eof` on these bytes -/
theorem runToEnd_none : ∀ (bs : Bytes) (st : ChunkedState) (sz : Nat), NormalC st sz →
    runToEnd st sz bs = none → Ev.eof ∉ (runSt (cst st sz) bs).2 := by
  intro bs
  induction bs with
  | nil => intro st sz _ _; simp
  | cons b t ih =>
    intro st sz hN h
    simp only [runToEnd] at h
    rw [runSt_cons]
    cases hs : step st sz [b] with
    | pending => exact absurd hs (step_single_not_pending st sz b)
    | err e => simp [stepSt, hs, runSt_dead]
    | ready st' sz' r out =>
      rw [hs] at h
      simp only at h
      by_cases hd : st' = .done
      · simp [hd] at h
      · simp only [hd, if_false] at h
        have hN' := step_single_normal hN hs hd
        have hr : runToEnd st' sz' t = none := by
          cases hr : runToEnd st' sz' t with
          | none => rfl
          | some p => rw [hr] at h; cases h
        have := ih st' sz' hN' hr
        simp only [stepSt, hs, norm_normal (k := .chunked st' sz') hN', List.append_nil, List.mem_append, not_or]
        refine ⟨?_, this⟩
        cases out <;> simp

end ActixModel.H1
