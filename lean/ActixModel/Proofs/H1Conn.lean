import ActixModel.Model.H1Conn
/-
Invariants of the small connection model (`Model/H1Conn.lean`) over all event lists.
-/
namespace ActixModel.H1
open ActixModel.Util

/-- after a reject the connection is closed and the last status written is the 4xx -/
def RejectInv (c : Conn) : Prop :=
  ∀ e, c.feed.dead = some e → c.closed = true ∧ c.statuses.getLast? = some (statusOf e)

theorem applyMsg_feed (c : Conn) (m : Msg) : (applyMsg c m).feed = c.feed ∧ (applyMsg c m).closed = c.closed := by
  cases m with
  | item h pt => cases pt <;> exact ⟨rfl, rfl⟩
  | chunk bs => exact ⟨rfl, rfl⟩
  | eof => exact ⟨rfl, rfl⟩

theorem foldl_applyMsg_feed (ms : List Msg) : ∀ (c : Conn),
    (ms.foldl applyMsg c).feed = c.feed ∧ (ms.foldl applyMsg c).closed = c.closed := by
  induction ms with
  | nil => intro c; exact ⟨rfl, rfl⟩
  | cons m t ih =>
    intro c
    simp only [List.foldl_cons]
    obtain ⟨h1, h2⟩ := ih (applyMsg c m)
    obtain ⟨h3, h4⟩ := applyMsg_feed c m
    exact ⟨h1.trans h3, h2.trans h4⟩

theorem failPending_feed (st : CallState) (c : Conn) :
    (failPending st c).feed = c.feed ∧ (failPending st c).closed = c.closed := by
  unfold failPending
  split <;> exact ⟨rfl, rfl⟩

theorem connStep_inv (c : Conn) (ev : ConnEv) (h : RejectInv c) : RejectInv (connStep c ev) := by
  cases ev with
  | eof =>
    by_cases hc : c.closed = true
    · simpa [connStep, hc] using h
    · have hc' : c.closed = false := by simpa using hc
      intro e he
      simp only [connStep, hc', Bool.false_eq_true, if_false] at he
      rw [(failPending_feed .incomplete c).1] at he
      exact absurd (h e he).1 hc
  | read bs =>
    by_cases hcd : (c.closed || c.feed.dead.isSome) = true
    · simpa [connStep, hcd] using h
    · intro e he
      simp only [connStep, hcd, Bool.false_eq_true, if_false] at he ⊢
      generalize feed c.feed bs = r at he ⊢
      obtain ⟨ms, f⟩ := r
      simp only at he ⊢
      have hfeed := (foldl_applyMsg_feed ms { c with feed := f }).1
      cases hdead : f.dead with
      | none =>
        simp only [hdead] at he
        rw [hfeed] at he
        simp [hdead] at he
      | some e' =>
        simp only [hdead] at he ⊢
        rw [(failPending_feed .corrupted _).1, hfeed] at he
        simp only [hdead, Option.some.injEq] at he
        subst he
        exact ⟨by simp, by simp⟩

/-- once dead (and, by the invariant, closed) no event changes anything -/
theorem connStep_frozen (c : Conn) (ev : ConnEv) (hd : c.feed.dead.isSome = true) (h : RejectInv c) :
    connStep c ev = c := by
  obtain ⟨e, he⟩ := Option.isSome_iff_exists.mp hd
  have hc := (h e he).1
  cases ev with
  | eof => simp [connStep, hc]
  | read bs => simp [connStep, hc]

theorem connRun_inv (evs : List ConnEv) : ∀ (c : Conn), RejectInv c → RejectInv (connRun c evs) := by
  induction evs with
  | nil => intro c h; exact h
  | cons ev t ih => intro c h; exact ih _ (connStep_inv c ev h)

theorem connRun_frozen (evs : List ConnEv) : ∀ (c : Conn), c.feed.dead.isSome = true → RejectInv c →
    connRun c evs = c := by
  induction evs with
  | nil => intro c _ _; rfl
  | cons ev t ih =>
    intro c hd h
    simp only [connRun, List.foldl_cons]
    rw [connStep_frozen c ev hd h]
    exact ih c hd h

theorem rejectInv_init : RejectInv {} := by
  intro e he; cases he

end ActixModel.H1
