import ActixModel.Proofs.H1Conn
import ActixModel.Proofs.H1Decode
/-
Segmentation independence of the connection model: what the service sees, what is written and
whether the connection is closed depend only on the concatenation of the reads.
-/
namespace ActixModel.H1
open ActixModel.Util

/-- the connection model's reaction to one flat event -/
def applyEv (c : Conn) : Ev → Conn
  | .head h pt => applyMsg c (.item h pt)
  | .byte b => applyMsg c (.chunk [b])
  | .eof => applyMsg c .eof

theorem updLast_length (f : Call → Call) : ∀ (l : List Call), (updLast f l).length = l.length := by
  intro l
  induction l with
  | nil => rfl
  | cons x t ih =>
    cases t with
    | nil => rfl
    | cons y u => simp only [updLast, List.length_cons] at ih ⊢; rw [ih]

theorem updLast_cons (f : Call → Call) (x : Call) {l : List Call} (h : l ≠ []) :
    updLast f (x :: l) = x :: updLast f l := by
  cases l with
  | nil => exact absurd rfl h
  | cons y u => rfl

theorem updLast_comp (f g : Call → Call) : ∀ (l : List Call), updLast f (updLast g l) = updLast (f ∘ g) l := by
  intro l
  induction l with
  | nil => rfl
  | cons x t ih =>
    cases t with
    | nil => rfl
    | cons y u =>
      have hne : updLast g (y :: u) ≠ [] := by
        intro h
        have := updLast_length g (y :: u)
        rw [h] at this
        simp at this
      rw [updLast_cons g x (by simp), updLast_cons f x hne, ih, updLast_cons (f ∘ g) x (by simp)]

theorem updLast_id (f : Call → Call) (hf : ∀ k, f k = k) : ∀ (l : List Call), updLast f l = l := by
  intro l
  induction l with
  | nil => rfl
  | cons x t ih =>
    cases t with
    | nil => simp [updLast, hf]
    | cons y u => simp only [updLast]; rw [ih]

theorem applyMsg_chunk_bytes (bs : Bytes) : ∀ (c : Conn),
    applyMsg c (.chunk bs) = (bs.map Ev.byte).foldl applyEv c := by
  induction bs with
  | nil =>
    intro c
    simp only [applyMsg, List.map_nil, List.foldl_nil]
    rw [updLast_id _ (by intro k; simp)]
  | cons b t ih =>
    intro c
    simp only [List.map_cons, List.foldl_cons, applyEv]
    rw [← ih]
    simp only [applyMsg, updLast_comp]
    congr 2
    funext k
    simp [Function.comp, List.append_assoc]

theorem foldl_applyMsg_flat (ms : List Msg) : ∀ (c : Conn), ms.foldl applyMsg c = (flat ms).foldl applyEv c := by
  induction ms with
  | nil => intro c; rfl
  | cons m t ih =>
    intro c
    cases m with
    | item h pt => simp only [List.foldl_cons, flat, applyEv]; exact ih _
    | eof => simp only [List.foldl_cons, flat, applyEv]; exact ih _
    | chunk bs =>
      simp only [List.foldl_cons, flat, List.foldl_append]
      rw [applyMsg_chunk_bytes]
      exact ih _

def setFeed (c : Conn) (f : Feed) : Conn := { c with feed := f }

@[simp] theorem setFeed_feed (c : Conn) (f : Feed) : (setFeed c f).feed = f := rfl
@[simp] theorem setFeed_closed (c : Conn) (f : Feed) : (setFeed c f).closed = c.closed := rfl
@[simp] theorem setFeed_setFeed (c : Conn) (f g : Feed) : setFeed (setFeed c f) g = setFeed c g := rfl
@[simp] theorem setFeed_self (c : Conn) : setFeed c c.feed = c := rfl

theorem applyEv_setFeed (c : Conn) (f : Feed) (e : Ev) :
    applyEv (setFeed c f) e = setFeed (applyEv c e) f := by
  cases e with
  | head h pt => cases pt <;> rfl
  | byte b => rfl
  | eof => rfl

theorem foldl_applyEv_setFeed (evs : List Ev) : ∀ (c : Conn) (f : Feed),
    evs.foldl applyEv (setFeed c f) = setFeed (evs.foldl applyEv c) f := by
  induction evs with
  | nil => intro c f; rfl
  | cons e t ih =>
    intro c f
    simp only [List.foldl_cons]
    rw [applyEv_setFeed, ih]

theorem foldl_applyEv_closed (evs : List Ev) (c : Conn) : (evs.foldl applyEv c).closed = c.closed := by
  induction evs generalizing c with
  | nil => rfl
  | cons e t ih =>
    simp only [List.foldl_cons]
    rw [ih]
    cases e with
    | head h pt => cases pt <;> rfl
    | byte b => rfl
    | eof => rfl

/-- the end of one read: if the decode loop died, the pending handler fails, the 4xx goes out
and the connection is closed -/
def finishRead (f : Feed) (c : Conn) : Conn :=
  match f.dead with
  | none => c
  | some e =>
    let c := failPending .corrupted c
    { c with statuses := c.statuses ++ [statusOf e], closed := true }

theorem connStep_read (c : Conn) (bs : Bytes) (hc : c.closed = false) (hd : c.feed.dead = none) :
    connStep c (.read bs) =
      finishRead (feed c.feed bs).2 ((flat (feed c.feed bs).1).foldl applyEv (setFeed c (feed c.feed bs).2)) := by
  have hcond : (c.closed || c.feed.dead.isSome) = false := by simp [hc, hd]
  simp only [connStep, hcond, Bool.false_eq_true, if_false]
  rw [← foldl_applyMsg_flat]
  unfold finishRead setFeed
  cases (feed c.feed bs).2.dead <;> rfl

theorem connRun_closed_reads (segs : List Bytes) : ∀ (c : Conn), c.closed = true →
    connRun c (segs.map ConnEv.read) = c := by
  induction segs with
  | nil => intro c _; rfl
  | cons s t ih =>
    intro c h
    simp only [List.map_cons, connRun, List.foldl_cons]
    have : connStep c (.read s) = c := by simp [connStep, h]
    rw [this]
    exact ih c h

/-- all reads of a connection = one fold of the flat events the decode loop produced for them -/
theorem connRun_reads (segs : List Bytes) : ∀ (c : Conn), c.closed = false → c.feed.dead = none →
    connRun c (segs.map ConnEv.read) =
      finishRead (feedAll c.feed segs).2
        ((flat (feedAll c.feed segs).1).foldl applyEv (setFeed c (feedAll c.feed segs).2)) := by
  induction segs with
  | nil =>
    intro c hc hd
    simp [connRun, feedAll, finishRead, hd, flat]
  | cons seg rest ih =>
    intro c hc hd
    simp only [List.map_cons, connRun, List.foldl_cons]
    rw [connStep_read c seg hc hd]
    simp only [feedAll]
    cases hdead : (feed c.feed seg).2.dead with
    | some e =>
      -- the loop died in this read: closed, the remaining reads change nothing
      have hdd : (feed c.feed seg).2.dead.isSome = true := by simp [hdead]
      rw [feedAll_dead rest _ hdd]
      simp only [List.append_nil]
      have hclosed : (finishRead (feed c.feed seg).2
          ((flat (feed c.feed seg).1).foldl applyEv (setFeed c (feed c.feed seg).2))).closed = true := by
        simp [finishRead, hdead]
      exact connRun_closed_reads rest _ hclosed
    | none =>
      have hfin : ∀ x, finishRead (feed c.feed seg).2 x = x := by
        intro x; simp [finishRead, hdead]
      rw [hfin, foldl_applyEv_setFeed]
      have h1 : (setFeed ((flat (feed c.feed seg).1).foldl applyEv c) (feed c.feed seg).2).closed = false := by
        simp [foldl_applyEv_closed, hc]
      have h2 : (setFeed ((flat (feed c.feed seg).1).foldl applyEv c) (feed c.feed seg).2).feed.dead = none := by
        simpa using hdead
      have := ih _ h1 h2
      simp only [connRun] at this
      rw [this]
      simp only [setFeed_feed, setFeed_setFeed, flat_append, List.foldl_append]
      rw [foldl_applyEv_setFeed (flat (feed c.feed seg).1)]

end ActixModel.H1
