import ActixModel.Proofs.H1Chunked
/-
The code-shaped decode loop (`feedLoop`, `feed`, `feedAll`) computes the byte automaton `runSt`;
segmentation independence follows from `runSt_append`.
-/
namespace ActixModel.H1
open ActixModel.Util

/-- flat events of a message list -/
def flat : List Msg → List Ev
  | [] => []
  | .item h pt :: r => .head h pt :: flat r
  | .chunk bs :: r => bs.map Ev.byte ++ flat r
  | .eof :: r => .eof :: flat r

theorem flat_append (a b : List Msg) : flat (a ++ b) = flat a ++ flat b := by
  induction a with
  | nil => rfl
  | cons m r ih => cases m <;> simp [flat, ih]

/-- the decode-side state of the connection that corresponds to an automaton state -/
def conc : St → Feed
  | .head acc _ => { payload := none, buf := acc }
  | .body k => { payload := some k, buf := [] }
  | .dead e => { payload := none, buf := [], dead := some e }

/-- the `MAX_BUFFER_SIZE` test, made when a decode attempt finds an incomplete head -/
def limitCheck (f : Feed) : Feed :=
  if f.payload.isNone ∧ f.dead.isNone ∧ f.buf.length ≥ Consts.h1MaxBufferSize then
    { payload := none, buf := [], dead := some .tooLarge }
  else f

def measure (p : Option Kind) (buf : Bytes) : Nat := 2 * buf.length + (if p.isSome then 1 else 0)

/-- slots the loop can be in: empty, a resting decoder, or `Length(0)` about to yield `Eof` -/
def OkSlot : Option Kind → Prop
  | none => True
  | some k => Normal k ∨ k = .length 0

/-! ### heads -/

/-- scanner state after reading `src` without completing -/
def scanFrom : HScan → Bytes → HScan
  | q, [] => q
  | q, b :: rest => match hscanStep q b with
    | some q' => scanFrom q' rest
    | none => q

theorem runSt_head_none (src : Bytes) : ∀ (acc : Bytes) (q : HScan), headEnd q src = none →
    runSt (.head acc q) src = (.head (acc ++ src) (scanFrom q src), []) := by
  induction src with
  | nil => intro acc q _; simp [scanFrom]
  | cons b rest ih =>
    intro acc q h
    simp only [headEnd] at h
    cases hq : hscanStep q b with
    | none => simp [hq] at h
    | some q' =>
      simp only [hq, Option.map_eq_none_iff] at h
      simp [runSt_cons, stepSt, hq, scanFrom, ih (acc ++ [b]) q' h]

theorem runSt_head_some (src : Bytes) : ∀ (acc : Bytes) (q : HScan) (n : Nat), headEnd q src = some n →
    0 < n ∧ n ≤ src.length ∧ runSt (.head acc q) (src.take n) = complete (acc ++ src.take n) := by
  induction src with
  | nil => intro acc q n h; simp [headEnd] at h
  | cons b rest ih =>
    intro acc q n h
    simp only [headEnd] at h
    cases hq : hscanStep q b with
    | none =>
      simp only [hq, Option.some.injEq] at h
      subst h
      simp [runSt_cons, stepSt, hq]
    | some q' =>
      simp only [hq, Option.map_eq_some_iff] at h
      obtain ⟨m, hm, rfl⟩ := h
      obtain ⟨h1, h2, h3⟩ := ih (acc ++ [b]) q' m hm
      refine ⟨by omega, by simp; omega, ?_⟩
      simp [runSt_cons, stepSt, hq, h3]

/-! ### fixed-length and read-to-close bodies -/

theorem runSt_length (bs : Bytes) : ∀ (rem : Nat), bs ≠ [] → bs.length ≤ rem →
    runSt (.body (.length rem)) bs =
      ((norm (some (.length (rem - bs.length)))).2, bs.map Ev.byte ++ (norm (some (.length (rem - bs.length)))).1) := by
  induction bs with
  | nil => intro _ h; exact absurd rfl h
  | cons b t ih =>
    intro rem _ hl
    simp only [List.length_cons] at hl
    cases t with
    | nil => simp [runSt_cons, stepSt]
    | cons c u =>
      have h1 : 0 < rem - 1 := by simp only [List.length_cons] at hl; omega
      have hn : norm (some (.length (rem - 1))) = ([], .body (.length (rem - 1))) :=
        norm_normal (k := .length (rem - 1)) h1
      have := ih (rem - 1) (by simp) (by simp only [List.length_cons] at hl ⊢; omega)
      have e : rem - 1 - (c :: u).length = rem - (b :: c :: u).length := by
        simp only [List.length_cons]; omega
      rw [runSt_cons]
      simp only [stepSt, hn, this, e]
      simp

theorem runSt_eof (bs : Bytes) : runSt (.body .eof) bs = (.body .eof, bs.map Ev.byte) := by
  induction bs with
  | nil => rfl
  | cons b t ih => simp [runSt_cons, stepSt, ih]

/-! ### shape of the framing decision -/

theorem setHeaders_shape {v : Nat} {hs : List (Bytes × Bytes)} {pl : PayloadLength}
    (h : setHeaders v hs = .ok pl) :
    pl = .payload (.payload (.chunked .size 0)) ∨ pl = .upgradeWebSocket ∨
      (∃ n, pl = .payload (.payload (.length n))) ∨ pl = .none := by
  unfold setHeaders at h
  split at h
  · cases h
  · split at h
    · cases h; exact Or.inl rfl
    · split at h
      · cases h; exact Or.inr (Or.inl rfl)
      · split at h
        · cases h; exact Or.inr (Or.inr (Or.inl ⟨_, rfl⟩))
        · cases h; exact Or.inr (Or.inr (Or.inr rfl))

theorem chooseDecoder_ok (m : Bytes) {pl : PayloadLength}
    (h : pl = .payload (.payload (.chunked .size 0)) ∨ pl = .upgradeWebSocket ∨
      (∃ n, pl = .payload (.payload (.length n))) ∨ pl = .none) :
    OkSlot (slotOf (chooseDecoder m pl)) := by
  rcases h with rfl | rfl | ⟨n, rfl⟩ | rfl
  · simp [chooseDecoder, PayloadLength.isZero, slotOf, OkSlot, Normal, NormalC]
  · simp [chooseDecoder, PayloadLength.isZero, slotOf, OkSlot, Normal]
  · cases n with
    | zero =>
      by_cases hm : m = bCONNECT <;> simp [chooseDecoder, PayloadLength.isZero, hm, slotOf, OkSlot, Normal]
    | succ k => simp [chooseDecoder, PayloadLength.isZero, slotOf, OkSlot, Normal]
  · by_cases hm : m = bCONNECT <;> simp [chooseDecoder, PayloadLength.isZero, hm, slotOf, OkSlot, Normal]

theorem finishHead_ok {hb : Bytes} {h : ReqHead} {pt : PayloadType}
    (hf : finishHead hb = .ok (h, pt)) : OkSlot (slotOf pt) := by
  unfold finishHead at hf
  split at hf
  · cases hf
  · rename_i h' _
    split at hf
    · cases hf
    · rename_i pt' hreq
      cases hf
      unfold requestFraming at hreq
      split at hreq
      · cases hreq
      · rename_i pl hset
        split at hreq
        · cases hreq
        · split at hreq
          · cases hreq
          · cases hreq
            exact chooseDecoder_ok _ (setHeaders_shape hset)

/-! ### the decode loop computes the automaton -/

theorem feedLoop_msg {fuel : Nat} {p p' : Option Kind} {buf rest : Bytes} {m : Msg}
    (h : codecDecode p buf = .msg m p' rest) :
    feedLoop (fuel + 1) p buf = (m :: (feedLoop fuel p' rest).1, (feedLoop fuel p' rest).2) := by
  simp [feedLoop, h]

theorem feedLoop_needMore {fuel : Nat} {p p' : Option Kind} {buf rest : Bytes}
    (h : codecDecode p buf = .needMore p' rest) :
    feedLoop (fuel + 1) p buf = ([], { payload := p', buf := rest }) := by
  simp [feedLoop, h]

theorem feedLoop_err {fuel : Nat} {p : Option Kind} {buf : Bytes} {e : ParseErr}
    (h : codecDecode p buf = .err e) :
    feedLoop (fuel + 1) p buf = ([], { payload := none, buf := [], dead := some e }) := by
  simp [feedLoop, h]

theorem limitCheck_body (k : Kind) : limitCheck (conc (.body k)) = conc (.body k) := by
  simp [limitCheck, conc]

theorem limitCheck_dead (e : ParseErr) : limitCheck (conc (.dead e)) = conc (.dead e) := by
  simp [limitCheck, conc]

@[simp] theorem limitCheck_some (k : Kind) (b : Bytes) (d : Option ParseErr) :
    limitCheck { payload := some k, buf := b, dead := d } = { payload := some k, buf := b, dead := d } := by
  simp [limitCheck]

@[simp] theorem limitCheck_isDead (p : Option Kind) (b : Bytes) (e : ParseErr) :
    limitCheck { payload := p, buf := b, dead := some e } = { payload := p, buf := b, dead := some e } := by
  simp [limitCheck]

theorem runSt_split (s : St) (buf : Bytes) (n : Nat) :
    runSt s buf = ((runSt (runSt s (buf.take n)).1 (buf.drop n)).1,
      (runSt s (buf.take n)).2 ++ (runSt (runSt s (buf.take n)).1 (buf.drop n)).2) := by
  have := runSt_append s (buf.take n) (buf.drop n)
  rwa [List.take_append_drop] at this

theorem feedLoop_spec (fuel : Nat) : ∀ (p : Option Kind) (buf : Bytes),
    measure p buf < fuel → OkSlot p →
    flat (feedLoop fuel p buf).1 = (norm p).1 ++ (runSt (norm p).2 buf).2 ∧
    (feedLoop fuel p buf).2 = limitCheck (conc (runSt (norm p).2 buf).1) := by
  induction fuel with
  | zero => intro p buf h; omega
  | succ fuel ih =>
    intro p buf hm hok
    cases p with
    | none =>
      have hnorm : norm none = ([], St.head [] .lead0) := rfl
      simp only [hnorm, List.nil_append]
      cases he : headEnd .lead0 buf with
      | none =>
        have hr := runSt_head_none buf [] .lead0 he
        simp only [List.nil_append] at hr
        by_cases hbig : buf.length ≥ Consts.h1MaxBufferSize
        · have hcd : codecDecode none buf = .err .tooLarge := by
            simp [codecDecode, decodeHead, he, hbig]
          rw [feedLoop_err hcd, hr]
          simp [flat, conc, limitCheck, hbig]
        · have hcd : codecDecode none buf = .needMore none buf := by
            simp [codecDecode, decodeHead, he, hbig]
          rw [feedLoop_needMore hcd, hr]
          simp [flat, conc, limitCheck, hbig]
      | some n =>
        obtain ⟨hn0, hnl, hr⟩ := runSt_head_some buf [] .lead0 n he
        simp only [List.nil_append] at hr
        rw [runSt_split _ buf n, hr]
        cases hf : finishHead (buf.take n) with
        | error e =>
          have hcd : codecDecode none buf = .err e := by
            simp [codecDecode, decodeHead, he, hf]
          rw [feedLoop_err hcd]
          simp [complete, hf, runSt_dead, flat, limitCheck_dead, conc]
        | ok hp =>
          obtain ⟨h, pt⟩ := hp
          have hcd : codecDecode none buf = .msg (.item h pt) (slotOf pt) (buf.drop n) := by
            simp only [codecDecode, decodeHead, he, hf]
            cases pt <;> rfl
          have hmeas : measure (slotOf pt) (buf.drop n) < fuel := by
            simp only [measure, List.length_drop] at hm ⊢
            split <;> simp at hm <;> omega
          obtain ⟨ih1, ih2⟩ := ih (slotOf pt) (buf.drop n) hmeas (finishHead_ok hf)
          rw [feedLoop_msg hcd]
          simp only [complete, hf, flat, ih1, ih2]
          simp
    | some k =>
      rcases hok with hN | rfl
      · rw [norm_normal hN]
        simp only [List.nil_append]
        cases k with
        | length rem =>
          have hrem : 0 < rem := hN
          have hrem0 : rem ≠ 0 := by omega
          cases hb : buf with
          | nil =>
            have hcd : codecDecode (some (.length rem)) [] = .needMore (some (.length rem)) [] := by
              simp [codecDecode, decodePayload, hrem0]
            rw [feedLoop_needMore hcd]
            simp [flat, limitCheck_body, conc]
          | cons b t =>
            rw [← hb]
            have hne : buf ≠ [] := by rw [hb]; simp
            have hemp : buf.isEmpty = false := by rw [hb]; rfl
            have hlen : 0 < buf.length := by rw [hb]; simp
            by_cases hgt : rem > buf.length
            · have hcd : codecDecode (some (.length rem)) buf =
                  .msg (.chunk buf) (some (.length (rem - buf.length))) [] := by
                simp [codecDecode, decodePayload, hrem0, hemp, hgt]
              have hmeas : measure (some (.length (rem - buf.length))) [] < fuel := by
                simp only [measure, List.length_nil] at hm ⊢; simp at hm ⊢; omega
              have hN' : Normal (.length (rem - buf.length)) := by simp only [Normal]; omega
              obtain ⟨ih1, ih2⟩ := ih _ [] hmeas (Or.inl hN')
              rw [feedLoop_msg hcd, runSt_length buf rem hne (by omega)]
              simp only [flat, ih1, ih2, norm_normal hN', runSt_nil]
              simp
            · have hcd : codecDecode (some (.length rem)) buf =
                  .msg (.chunk (buf.take rem)) (some (.length 0)) (buf.drop rem) := by
                simp [codecDecode, decodePayload, hrem0, hemp, hgt]
              have hmeas : measure (some (.length 0)) (buf.drop rem) < fuel := by
                simp only [measure, List.length_drop] at hm ⊢; simp at hm ⊢; omega
              obtain ⟨ih1, ih2⟩ := ih _ (buf.drop rem) hmeas (Or.inr rfl)
              have htl : (buf.take rem).length = rem := by simp [List.length_take]; omega
              have hrun := runSt_length (buf.take rem) rem
                (by intro h; rw [h] at htl; simp at htl; omega) (by omega)
              rw [htl, Nat.sub_self] at hrun
              rw [feedLoop_msg hcd, runSt_split _ buf rem, hrun]
              simp only [flat, ih1, ih2]
              simp
        | eof =>
          cases hb : buf with
          | nil =>
            have hcd : codecDecode (some .eof) [] = .needMore (some .eof) [] := by
              simp [codecDecode, decodePayload]
            rw [feedLoop_needMore hcd]
            simp [flat, limitCheck_body, conc]
          | cons b t =>
            rw [← hb]
            have hemp : buf.isEmpty = false := by rw [hb]; rfl
            have hcd : codecDecode (some .eof) buf = .msg (.chunk buf) (some .eof) [] := by
              simp [codecDecode, decodePayload, hemp]
            have hmeas : measure (some .eof) [] < fuel := by
              simp only [measure, List.length_nil] at hm ⊢; rw [hb] at hm; simp at hm ⊢; omega
            obtain ⟨ih1, ih2⟩ := ih _ [] hmeas (Or.inl (by simp [Normal]))
            rw [feedLoop_msg hcd, runSt_eof]
            simp only [flat, ih1, ih2, norm_normal (k := .eof) (by simp [Normal]), runSt_nil]
            simp
        | chunked st sz =>
          have hN' : NormalC st sz := hN
          have hspec := decodeChunked_spec st sz buf hN'
          cases hd : decodeChunked st sz buf with
          | chunk bs st' sz' rest =>
            rw [hd] at hspec
            obtain ⟨pre, h1, h2, h3, h4⟩ := hspec
            have hcd : codecDecode (some (.chunked st sz)) buf =
                .msg (.chunk bs) (some (.chunked st' sz')) rest := by
              simp [codecDecode, decodePayload, hd]
            have hpl : 0 < pre.length := List.length_pos_iff.mpr h2
            have hmeas : measure (some (.chunked st' sz')) rest < fuel := by
              simp only [measure, h1, List.length_append] at hm ⊢; simp at hm ⊢; omega
            obtain ⟨ih1, ih2⟩ := ih _ rest hmeas (Or.inl h4)
            rw [feedLoop_msg hcd, h1, runSt_append, h3]
            simp only [flat, ih1, ih2, norm_normal (k := .chunked st' sz') h4]
            simp
          | eof sz' rest =>
            rw [hd] at hspec
            obtain ⟨pre, h1, h2, h3⟩ := hspec
            have hcd : codecDecode (some (.chunked st sz)) buf = .msg .eof none rest := by
              simp [codecDecode, decodePayload, hd]
            have hpl : 0 < pre.length := List.length_pos_iff.mpr h2
            have hmeas : measure none rest < fuel := by
              simp only [measure, h1, List.length_append] at hm ⊢; simp at hm ⊢; omega
            obtain ⟨ih1, ih2⟩ := ih none rest hmeas trivial
            rw [feedLoop_msg hcd, h1, runSt_append, h3]
            simp only [flat, ih1, ih2]
            simp [norm]
          | needMore st' sz' rest =>
            rw [hd] at hspec
            obtain ⟨h1, h2, h3⟩ := hspec
            have hcd : codecDecode (some (.chunked st sz)) buf =
                .needMore (some (.chunked st' sz')) rest := by
              simp [codecDecode, decodePayload, hd]
            rw [feedLoop_needMore hcd, h2, h1]
            simp [flat, limitCheck_body, conc]
          | err e =>
            rw [hd] at hspec
            obtain ⟨pre, post, h1, h2⟩ := hspec
            have hcd : codecDecode (some (.chunked st sz)) buf = .err (.chunk e) := by
              simp [codecDecode, decodePayload, hd]
            rw [feedLoop_err hcd, h1, runSt_append, h2, runSt_dead]
            simp [flat, limitCheck_dead, conc]
      · -- `Length(0)`: `Eof` without reading, then a head
        have hcd : codecDecode (some (.length 0)) buf = .msg .eof none buf := by
          simp [codecDecode, decodePayload]
        have hmeas : measure none buf < fuel := by
          simp only [measure] at hm ⊢; simp at hm ⊢; omega
        obtain ⟨ih1, ih2⟩ := ih none buf hmeas trivial
        rw [feedLoop_msg hcd]
        simp only [flat, ih1, ih2]
        simp [norm]

/-! ### quiescent states, one read, all reads -/

/-- invariant of reachable automaton states -/
def StOk : St → Prop
  | .head acc q => runSt (.head [] .lead0) acc = (.head acc q, [])
  | .body k => Normal k
  | .dead _ => True

theorem norm_ok {p : Option Kind} (h : OkSlot p) : StOk (norm p).2 := by
  cases p with
  | none => simp [norm, StOk]
  | some k =>
    rcases h with hN | rfl
    · rw [norm_normal hN]; exact hN
    · simp [norm, StOk]

theorem step_single_ok {st st' : ChunkedState} {sz sz' : Nat} {b : UInt8} {r : Bytes} {out : Option Bytes}
    (hN : NormalC st sz) (h : step st sz [b] = .ready st' sz' r out) :
    StOk (norm (some (.chunked st' sz'))).2 := by
  by_cases hd : st' = .done
  · subst hd; simp [norm, StOk]
  · apply norm_ok
    by_cases hb : st = .body
    · subst hb
      rw [step_body sz [b] (by simp)] at h
      split at h
      · rename_i h0
        cases h
        exact Or.inl ⟨by simp, fun _ => h0⟩
      · cases h
        exact Or.inl ⟨by simp, by simp⟩
    · rcases step_cons_ctl st sz b [] hb hN.1 with ⟨st'', sz'', h1, _, h3⟩ | ⟨e, h1, _⟩
      · rw [h1] at h
        cases h
        exact Or.inl ⟨hd, h3⟩
      · rw [h1] at h; cases h

theorem stepSt_ok (s : St) (b : UInt8) (h : StOk s) : StOk (stepSt s b).1 := by
  cases s with
  | dead e => simp [stepSt, StOk]
  | head acc q =>
    simp only [stepSt]
    cases hq : hscanStep q b with
    | some q' =>
      simp only [StOk] at h ⊢
      rw [runSt_append, h]
      simp [runSt_cons, stepSt, hq]
    | none =>
      simp only [complete]
      cases hf : finishHead (acc ++ [b]) with
      | error e => simp [StOk]
      | ok hp => exact norm_ok (finishHead_ok (h := hp.1) (pt := hp.2) hf)
  | body k =>
    cases k with
    | length rem =>
      simp only [stepSt]
      apply norm_ok
      by_cases h0 : rem - 1 = 0
      · rw [h0]; exact Or.inr rfl
      · exact Or.inl (by simp only [Normal]; omega)
    | eof => simp [stepSt, StOk, Normal]
    | chunked st sz =>
      simp only [stepSt]
      cases hs : step st sz [b] with
      | pending => exact h
      | err e => simp [StOk]
      | ready st' sz' r out => exact step_single_ok h hs

theorem runSt_ok (bs : Bytes) : ∀ (s : St), StOk s → StOk (runSt s bs).1 := by
  induction bs with
  | nil => intro s h; exact h
  | cons b t ih => intro s h; rw [runSt_cons]; exact ih _ (stepSt_ok s b h)

/-- one read + decode loop from a quiescent state = the automaton over the bytes read, followed
by the buffer-limit test -/
theorem feed_conc (s : St) (seg : Bytes) (h : StOk s) :
    flat (feed (conc s) seg).1 = (runSt s seg).2 ∧
    (feed (conc s) seg).2 = limitCheck (conc (runSt s seg).1) := by
  cases s with
  | dead e => simp [feed, conc, runSt_dead, flat]
  | body k =>
    have hm : measure (some k) seg < 2 * ((conc (.body k)).buf.length + seg.length) + 2 := by
      simp [measure, conc]
    have := feedLoop_spec _ (some k) seg hm (Or.inl h)
    rw [norm_normal h] at this
    simpa [feed, conc] using this
  | head acc q =>
    have hm : measure none (acc ++ seg) < 2 * ((conc (.head acc q)).buf.length + seg.length) + 2 := by
      simp [measure, conc]
    have := feedLoop_spec _ none (acc ++ seg) hm trivial
    simp only [StOk] at h
    simp only [norm, List.nil_append, runSt_append, h] at this
    simpa [feed, conc] using this

theorem feedAll_dead (segs : List Bytes) : ∀ (f : Feed), f.dead.isSome = true → feedAll f segs = ([], f) := by
  induction segs with
  | nil => intro f _; rfl
  | cons seg rest ih =>
    intro f h
    simp [feedAll, feed, h, ih f h]

/-- the state in which a decode attempt trips over `MAX_BUFFER_SIZE` -/
def deadTL : Feed := { payload := none, buf := [], dead := some .tooLarge }

theorem limitCheck_cases (s : St) :
    limitCheck (conc s) = conc s ∨
    (limitCheck (conc s) = deadTL ∧ ∃ acc q, s = .head acc q ∧ Consts.h1MaxBufferSize ≤ acc.length) := by
  cases s with
  | dead e => left; simp [conc]
  | body k => left; simp [conc]
  | head acc q =>
    by_cases hb : Consts.h1MaxBufferSize ≤ acc.length
    · right; exact ⟨by simp [limitCheck, conc, hb, deadTL], acc, q, rfl, hb⟩
    · left; simp [limitCheck, conc, hb]

/-- a quiescent state that has passed the limit test -/
def Quiet (s : St) : Prop := StOk s ∧ limitCheck (conc s) = conc s

/-- **Segmentation independence of the decode loop.**  Reading `segs` one after the other from
a quiescent state gives the same flat events and the same final state as reading their
concatenation at once — unless some read left an incomplete head of at least `MAX_BUFFER_SIZE`
bytes in the buffer, in which case the connection is dead with `TooLarge` and has delivered a
prefix of the events. -/
theorem feedAll_segmentation (segs : List Bytes) : ∀ (s : St), Quiet s →
    (flat (feedAll (conc s) segs).1 = flat (feed (conc s) segs.flatten).1 ∧
      (feedAll (conc s) segs).2 = (feed (conc s) segs.flatten).2) ∨
    ((feedAll (conc s) segs).2 = deadTL ∧
      flat (feedAll (conc s) segs).1 <+: flat (feed (conc s) segs.flatten).1 ∧
      ∃ pre acc q, pre <+: segs.flatten ∧ (runSt s pre).1 = .head acc q ∧
        Consts.h1MaxBufferSize ≤ acc.length) := by
  induction segs with
  | nil =>
    intro s ⟨hok, hq⟩
    left
    obtain ⟨h1, h2⟩ := feed_conc s [] hok
    simp only [runSt_nil] at h1 h2
    simp [feedAll, h1, h2, hq, flat]
  | cons seg rest ih =>
    intro s ⟨hok, hq⟩
    obtain ⟨f1, f2⟩ := feed_conc s seg hok
    obtain ⟨w1, w2⟩ := feed_conc s (seg ++ rest.flatten) hok
    have hok1 : StOk (runSt s seg).1 := runSt_ok seg s hok
    simp only [List.flatten_cons]
    rw [w1, w2, runSt_append]
    simp only [feedAll]
    rcases limitCheck_cases (runSt s seg).1 with hc | ⟨hc, acc, q, hs, hbig⟩
    · -- the read passed the limit test: go on from the automaton's state
      rw [hc] at f2
      obtain ⟨r1, r2⟩ := feed_conc (runSt s seg).1 rest.flatten hok1
      rcases ih (runSt s seg).1 ⟨hok1, hc⟩ with ⟨e1, e2⟩ | ⟨e1, e2, pre, acc, q, hp, hs, hbig⟩
      · left
        rw [f2]
        refine ⟨?_, ?_⟩
        · rw [flat_append, f1, e1, r1]
        · rw [e2, r2]
      · right
        rw [f2]
        refine ⟨e1, ?_, seg ++ pre, acc, q, ?_, ?_, hbig⟩
        · rw [flat_append, f1]
          rw [r1] at e2
          exact (List.prefix_append_right_inj _).mpr e2
        · exact (List.prefix_append_right_inj _).mpr hp
        · rw [runSt_append]; exact hs
    · -- an incomplete head of ≥ MAX_BUFFER_SIZE bytes: TooLarge, nothing is decoded any more
      right
      rw [hc] at f2
      rw [f2, feedAll_dead rest deadTL (by simp [deadTL])]
      refine ⟨rfl, ?_, seg, acc, q, List.prefix_append _ _, hs, hbig⟩
      simp only [flat, List.append_nil, f1]
      exact List.prefix_append _ _

/-! ### the buffered partial head never exceeds the bytes received -/

def accLen : St → Nat
  | .head acc _ => acc.length
  | _ => 0

theorem norm_accLen (p : Option Kind) : accLen (norm p).2 = 0 := by
  unfold norm
  split <;> rfl

theorem stepSt_accLen (s : St) (b : UInt8) : accLen (stepSt s b).1 ≤ accLen s + 1 := by
  cases s with
  | dead e => simp [stepSt, accLen]
  | head acc q =>
    simp only [stepSt]
    cases hscanStep q b with
    | some q' => simp [accLen]
    | none =>
      simp only [complete]
      split
      · simp [accLen]
      · simp [norm_accLen]
  | body k =>
    cases k with
    | length rem => simp [stepSt, norm_accLen]
    | eof => simp [stepSt, accLen]
    | chunked st sz =>
      simp only [stepSt]
      split
      · simp [norm_accLen]
      · simp [accLen]
      · simp [accLen]

theorem runSt_accLen (bs : Bytes) : ∀ (s : St), accLen (runSt s bs).1 ≤ accLen s + bs.length := by
  induction bs with
  | nil => intro s; simp
  | cons b t ih =>
    intro s
    rw [runSt_cons]
    have h1 := ih (stepSt s b).1
    have h2 := stepSt_accLen s b
    simp only [List.length_cons]
    omega

theorem quiet_init : Quiet (.head [] .lead0) := by
  refine ⟨by simp [StOk], ?_⟩
  simp [limitCheck, conc, Consts.h1MaxBufferSize]

theorem quiet_body {k : Kind} (h : Normal k) : Quiet (.body k) := ⟨h, by simp [conc]⟩

end ActixModel.H1
