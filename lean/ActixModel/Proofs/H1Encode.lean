import ActixModel.Model.H1Encode
/-
Helper lemmas about the response body encoders (`TransferEncoding`) and the client-side decoders.
Core Lean only.
-/
namespace ActixModel.H1Encode
open ActixModel.Util

/-! ## Content-Length framing -/

theorem teEncode_length (rem : Nat) (c : Bytes) (hc : c ≠ []) :
    teEncode (.length rem) c = (.length (rem - c.length), c.take rem) := by
  unfold teEncode
  have hne : c.isEmpty = false := by cases c <;> simp_all
  by_cases h : rem > 0
  · simp only [h, hne, if_true]
    by_cases h2 : rem ≤ c.length
    · simp [Nat.min_eq_left h2, Nat.sub_eq_zero_of_le h2]
    · have h3 : c.length ≤ rem := by omega
      simp [Nat.min_eq_right h3, List.take_of_length_le h3]
  · have h0 : rem = 0 := by omega
    subst h0
    simp

theorem teEncodeAll_length (cs : List Bytes) :
    ∀ rem, teEncodeAll (.length rem) cs = (.length (rem - cs.flatten.length), cs.flatten.take rem) := by
  induction cs with
  | nil => intro rem; simp [teEncodeAll]
  | cons c cs ih =>
    intro rem
    unfold teEncodeAll
    by_cases hc : c = []
    · subst hc; simpa using ih rem
    · have hne : c.isEmpty = false := by cases c <;> simp_all
      simp only [hne, teEncode_length rem c hc, ih]
      simp [List.take_append, Nat.sub_sub]

/-! ## hex chunk-size round trip -/

theorem hexVal_hexUpperDigit : ∀ k : Fin 16, hexVal? (hexUpperDigit k.val) = some k.val := by decide

theorem hexVal_hexUpperDigit' (n : Nat) : hexVal? (hexUpperDigit n) = some (n % 16) := by
  have h := hexVal_hexUpperDigit ⟨n % 16, Nat.mod_lt _ (by decide)⟩
  have e : hexUpperDigit (n % 16) = hexUpperDigit n := by simp [hexUpperDigit]
  simpa [e] using h

theorem readSizeAux_digit (b : UInt8) (d : Nat) (rest : Bytes) (acc : Nat) (seen : Bool)
    (h : hexVal? b = some d) : readSizeAux (b :: rest) acc seen = readSizeAux rest (acc * 16 + d) true := by
  simp [readSizeAux, h]

theorem readSizeAux_hexAux (fuel : Nat) :
    ∀ n acc tl s, n < fuel →
      readSizeAux (hexAux fuel n acc ++ tl) 0 s = readSizeAux (acc ++ tl) n true := by
  induction fuel with
  | zero => intro n acc tl s h; omega
  | succ fuel ih =>
    intro n acc tl s h
    unfold hexAux
    by_cases h16 : n < 16
    · simp only [h16, if_true, List.cons_append]
      rw [readSizeAux_digit _ _ _ _ _ (hexVal_hexUpperDigit' n)]
      simp [Nat.mod_eq_of_lt h16]
    · simp only [h16, if_false]
      have hlt : n / 16 < fuel := by
        have : n / 16 < n := Nat.div_lt_self (by omega) (by decide)
        omega
      rw [ih (n / 16) _ tl s hlt]
      simp only [List.cons_append]
      rw [readSizeAux_digit _ _ _ _ _ (hexVal_hexUpperDigit' n)]
      have : n / 16 * 16 + n % 16 = n := by omega
      rw [this]

theorem readSize_hexUpper (n : Nat) (rest : Bytes) :
    readSize (hexUpper n ++ crlf ++ rest) = some (n, rest) := by
  unfold readSize hexUpper
  rw [List.append_assoc, readSizeAux_hexAux (n + 1) n [] _ false (by omega)]
  simp [crlf, readSizeAux, hexVal?]

/-! ## chunked framing -/

/-- wire image of one non-empty chunk -/
def encChunk (c : Bytes) : Bytes := hexUpper c.length ++ crlf ++ c ++ crlf

def nonEmpty (cs : List Bytes) : List Bytes := cs.filter fun c => !c.isEmpty

theorem flatten_nonEmpty (cs : List Bytes) : (nonEmpty cs).flatten = cs.flatten := by
  induction cs with
  | nil => rfl
  | cons c cs ih =>
    cases c with
    | nil => simpa [nonEmpty] using ih
    | cons b bs => simp only [nonEmpty, List.filter] at ih ⊢; simp [ih]

theorem teEncodeAll_chunked (cs : List Bytes) :
    teEncodeAll (.chunked false) cs = (.chunked false, ((nonEmpty cs).map encChunk).flatten) := by
  induction cs with
  | nil => simp [teEncodeAll, nonEmpty]
  | cons c cs ih =>
    cases c with
    | nil => simpa [teEncodeAll, nonEmpty] using ih
    | cons b bs =>
      simp only [nonEmpty, List.filter] at ih ⊢
      simp [teEncodeAll, teEncode, ih, encChunk]

theorem clientChunkedAux_last (fuel : Nat) (rest acc : Bytes) :
    clientChunkedAux (fuel + 1) (lastChunk ++ rest) acc = some (acc, rest) := by
  simp [clientChunkedAux, lastChunk, readSize, readSizeAux, hexVal?]

theorem clientChunkedAux_chunk (fuel : Nat) (c : Bytes) (hc : c ≠ []) (rest acc : Bytes) :
    clientChunkedAux (fuel + 1) (encChunk c ++ rest) acc = clientChunkedAux fuel rest (acc ++ c) := by
  obtain ⟨k, hk⟩ : ∃ k, c.length = k + 1 := by
    cases c with
    | nil => exact absurd rfl hc
    | cons b bs => exact ⟨bs.length, rfl⟩
  have e : encChunk c ++ rest = hexUpper c.length ++ crlf ++ (c ++ 13 :: 10 :: rest) := by
    simp [encChunk, crlf]
  rw [e, clientChunkedAux, readSize_hexUpper, hk]
  have hlen : ¬ (c ++ 13 :: 10 :: rest).length < k + 1 + 2 := by simp [hk]
  have hdrop : (c ++ 13 :: 10 :: rest).drop (k + 1) = 13 :: 10 :: rest := by
    rw [← hk]; simp
  have htake : (c ++ 13 :: 10 :: rest).take (k + 1) = c := by
    rw [← hk]; simp
  simp only [hlen, if_false, hdrop, htake]

theorem clientChunkedAux_all (cs : List Bytes) :
    ∀ fuel acc rest, (nonEmpty cs).length < fuel →
      clientChunkedAux fuel (((nonEmpty cs).map encChunk).flatten ++ lastChunk ++ rest) acc
        = some (acc ++ cs.flatten, rest) := by
  induction cs with
  | nil =>
    intro fuel acc rest h
    obtain ⟨f, rfl⟩ : ∃ f, fuel = f + 1 := ⟨fuel - 1, by omega⟩
    simpa [nonEmpty] using clientChunkedAux_last f rest acc
  | cons c cs ih =>
    intro fuel acc rest h
    cases c with
    | nil => simpa [nonEmpty] using ih fuel acc rest (by simpa [nonEmpty] using h)
    | cons b bs =>
      simp only [nonEmpty, List.filter] at ih h ⊢
      simp only [List.isEmpty_cons, Bool.not_false, List.length_cons, List.map_cons, List.flatten_cons] at h ⊢
      obtain ⟨f, rfl⟩ : ∃ f, fuel = f + 1 := ⟨fuel - 1, by omega⟩
      rw [List.append_assoc, List.append_assoc, clientChunkedAux_chunk f (b :: bs) (by simp)]
      rw [← List.append_assoc, ih f _ rest (by omega)]
      simp

/-- a chunked body that was cut before its last-chunk is never accepted -/
theorem clientChunkedAux_incomplete (cs : List Bytes) :
    ∀ fuel acc, clientChunkedAux fuel (((nonEmpty cs).map encChunk).flatten) acc = none := by
  induction cs with
  | nil => intro fuel acc; cases fuel <;> simp [clientChunkedAux, nonEmpty, readSize, readSizeAux]
  | cons c cs ih =>
    intro fuel acc
    cases c with
    | nil => simpa [nonEmpty] using ih fuel acc
    | cons b bs =>
      simp only [nonEmpty, List.filter] at ih ⊢
      simp only [List.isEmpty_cons, Bool.not_false, List.map_cons, List.flatten_cons]
      cases fuel with
      | zero => simp [clientChunkedAux]
      | succ f => rw [clientChunkedAux_chunk f (b :: bs) (by simp)]; exact ih f _

theorem encChunk_length_pos (c : Bytes) : 0 < (encChunk c).length := by
  simp [encChunk, crlf]; omega

theorem nonEmpty_length_le (cs : List Bytes) :
    (nonEmpty cs).length ≤ ((nonEmpty cs).map encChunk).flatten.length := by
  induction (nonEmpty cs) with
  | nil => simp
  | cons c cs ih =>
    have := encChunk_length_pos c
    simp only [List.length_cons, List.map_cons, List.flatten_cons, List.length_append]
    omega

end ActixModel.H1Encode
