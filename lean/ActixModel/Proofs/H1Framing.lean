import ActixModel.Model.H1Decode
/-
Lemmas about the `set_headers` loop and the framing rules (decision logic of C01's malformed
classes).
-/
namespace ActixModel.H1
open ActixModel.Util

theorem setHeadersLoop_append (v : Nat) (xs ys : List (Bytes × Bytes)) : ∀ (a : HdrAcc),
    setHeadersLoop v a (xs ++ ys) =
      match setHeadersLoop v a xs with
      | .ok a' => setHeadersLoop v a' ys
      | .error e => .error e := by
  induction xs with
  | nil => intro a; rfl
  | cons x t ih =>
    intro a
    simp only [List.cons_append, setHeadersLoop]
    cases setHeader v a x with
    | ok a' => exact ih a'
    | error e => rfl

/-- a header on which `set_headers` fails in every accumulator state makes the loop fail -/
theorem setHeadersLoop_error_of_mem (v : Nat) (h : Bytes × Bytes)
    (hbad : ∀ a, ∃ e, setHeader v a h = .error e) :
    ∀ (hs : List (Bytes × Bytes)) (a : HdrAcc), h ∈ hs → ∃ e, setHeadersLoop v a hs = .error e := by
  intro hs
  induction hs with
  | nil => intro a hm; cases hm
  | cons x t ih =>
    intro a hm
    simp only [setHeadersLoop]
    rcases List.mem_cons.mp hm with rfl | hm
    · obtain ⟨e, he⟩ := hbad a
      rw [he]; exact ⟨e, rfl⟩
    · cases setHeader v a x with
      | ok a' => exact ih a' hm
      | error e => exact ⟨e, rfl⟩

/-- what `set_headers` accepts as a Content-Length value -/
def clValue (v : Bytes) : Option Nat :=
  match toStr? v with
  | none => none
  | some s => if (trimOws s).head? = some 43 then none else parseU64 (trimOws s)

theorem setHeader_cl (v : Nat) (a : HdrAcc) (val : Bytes) (hn : bContentLength.length ≤ 65535 := by decide) :
    setHeader v a (bContentLength, val) =
      if a.contentLength.isSome then .error .header
      else match clValue val with
        | some n => .ok { a with contentLength := some n }
        | none => .error .header := by
  unfold setHeader clValue
  have h1 : ¬ (bContentLength.length > 65535) := by decide
  simp only [h1, if_false, if_true]
  by_cases hs : a.contentLength.isSome = true
  · simp [hs]
  · simp only [hs, Bool.false_eq_true, if_false]
    cases toStr? val with
    | none => rfl
    | some s =>
      simp only [Option.map_some]
      split <;> rfl

/-- **bad Content-Length value ⇒ loop error**, wherever the header stands -/
theorem setHeadersLoop_bad_cl (v : Nat) (val : Bytes) (hbad : clValue val = none)
    (hs : List (Bytes × Bytes)) (a : HdrAcc) (hm : (bContentLength, val) ∈ hs) :
    ∃ e, setHeadersLoop v a hs = .error e := by
  apply setHeadersLoop_error_of_mem v _ _ hs a hm
  intro a
  rw [setHeader_cl]
  split
  · exact ⟨_, rfl⟩
  · simp [hbad]

/-- `set_headers` never forgets that it has seen a Content-Length / a Transfer-Encoding -/
theorem setHeader_mono {v : Nat} {a a' : HdrAcc} {h : Bytes × Bytes} (hok : setHeader v a h = .ok a') :
    (a.contentLength.isSome = true → a'.contentLength.isSome = true) ∧
    (a.seenTe = true → a'.seenTe = true) := by
  unfold setHeader at hok
  obtain ⟨name, value⟩ := h
  simp only at hok
  repeat' split at hok
  all_goals (cases hok; try (refine ⟨fun h => ?_, fun h => ?_⟩ <;> simp_all))

theorem setHeadersLoop_mono (v : Nat) (hs : List (Bytes × Bytes)) : ∀ (a a' : HdrAcc),
    setHeadersLoop v a hs = .ok a' →
    (a.contentLength.isSome = true → a'.contentLength.isSome = true) ∧
    (a.seenTe = true → a'.seenTe = true) := by
  induction hs with
  | nil => intro a a' h; simp only [setHeadersLoop] at h; cases h; exact ⟨id, id⟩
  | cons x t ih =>
    intro a a' h
    simp only [setHeadersLoop] at h
    cases hx : setHeader v a x with
    | error e => rw [hx] at h; cases h
    | ok a1 =>
      rw [hx] at h
      obtain ⟨m1, m2⟩ := setHeader_mono hx
      obtain ⟨n1, n2⟩ := ih a1 a' h
      exact ⟨fun h => n1 (m1 h), fun h => n2 (m2 h)⟩

/-- **two Content-Length headers ⇒ loop error**, whatever their values and whatever is between -/
theorem setHeadersLoop_dup_cl (v : Nat) (v1 v2 : Bytes) (pre mid post : List (Bytes × Bytes)) (a : HdrAcc) :
    ∃ e, setHeadersLoop v a (pre ++ ((bContentLength, v1) :: (mid ++ ((bContentLength, v2) :: post)))) = .error e := by
  rw [setHeadersLoop_append]
  cases hpre : setHeadersLoop v a pre with
  | error e => exact ⟨e, rfl⟩
  | ok a1 =>
    simp only
    rw [show (bContentLength, v1) :: (mid ++ ((bContentLength, v2) :: post)) =
      ((bContentLength, v1) :: mid) ++ ((bContentLength, v2) :: post) by simp, setHeadersLoop_append]
    cases hmid : setHeadersLoop v a1 ((bContentLength, v1) :: mid) with
    | error e => exact ⟨e, rfl⟩
    | ok a2 =>
      simp only
      -- after the first CL the accumulator holds a length
      have hsome : a2.contentLength.isSome = true := by
        simp only [setHeadersLoop] at hmid
        cases h1 : setHeader v a1 (bContentLength, v1) with
        | error e => rw [h1] at hmid; cases hmid
        | ok a1' =>
          rw [h1] at hmid
          have : a1'.contentLength.isSome = true := by
            rw [setHeader_cl] at h1
            split at h1
            · cases h1
            · split at h1
              · cases h1; rfl
              · cases h1
          exact (setHeadersLoop_mono v mid a1' a2 hmid).1 this
      simp only [setHeadersLoop]
      rw [setHeader_cl]
      simp [hsome]

theorem setHeader_te1 (a : HdrAcc) (val : Bytes) :
    setHeader 1 a (bTransferEncoding, val) =
      if a.seenTe then .error .header
      else match (toStr? val).map trimOws with
        | some s =>
          if ieq s bChunked then .ok { a with seenTe := true, chunked := true }
          else if ieq s bIdentity then .ok { a with seenTe := true }
          else .error .header
        | none => .error .header := by
  unfold setHeader
  have h1 : ¬ (bTransferEncoding.length > 65535) := by decide
  have h2 : ¬ (bTransferEncoding = bContentLength) := by decide
  simp only [h1, h2, if_false]
  by_cases hs : a.seenTe = true
  · simp [hs]
  · simp [hs]
    rfl

/-- **two Transfer-Encoding headers on HTTP/1.1 ⇒ loop error** -/
theorem setHeadersLoop_dup_te (v1 v2 : Bytes) (pre mid post : List (Bytes × Bytes)) (a : HdrAcc) :
    ∃ e, setHeadersLoop 1 a (pre ++ ((bTransferEncoding, v1) :: (mid ++ ((bTransferEncoding, v2) :: post)))) = .error e := by
  rw [setHeadersLoop_append]
  cases hpre : setHeadersLoop 1 a pre with
  | error e => exact ⟨e, rfl⟩
  | ok a1 =>
    simp only
    rw [show (bTransferEncoding, v1) :: (mid ++ ((bTransferEncoding, v2) :: post)) =
      ((bTransferEncoding, v1) :: mid) ++ ((bTransferEncoding, v2) :: post) by simp, setHeadersLoop_append]
    cases hmid : setHeadersLoop 1 a1 ((bTransferEncoding, v1) :: mid) with
    | error e => exact ⟨e, rfl⟩
    | ok a2 =>
      simp only
      have hseen : a2.seenTe = true := by
        simp only [setHeadersLoop] at hmid
        cases h1 : setHeader 1 a1 (bTransferEncoding, v1) with
        | error e => rw [h1] at hmid; cases hmid
        | ok a1' =>
          rw [h1] at hmid
          have : a1'.seenTe = true := by
            rw [setHeader_te1] at h1
            split at h1
            · cases h1
            · split at h1
              · split at h1
                · cases h1; rfl
                · split at h1
                  · cases h1; rfl
                  · cases h1
              · cases h1
          exact (setHeadersLoop_mono 1 mid a1' a2 hmid).2 this
      simp only [setHeadersLoop]
      rw [setHeader_te1]
      simp [hseen]

/-! ### a Transfer-Encoding other than a single `chunked` -/

/-- what the framing rules accept as a Transfer-Encoding value -/
def teIsChunked (v : Bytes) : Bool :=
  match toStr? v with
  | none => false
  | some s => ieq (trimOws s) bChunked

/-- every header the loop got past was accepted by `setHeader` in some accumulator state -/
theorem setHeadersLoop_mem_ok (v : Nat) (h : Bytes × Bytes) : ∀ (hs : List (Bytes × Bytes)) (a a' : HdrAcc),
    setHeadersLoop v a hs = .ok a' → h ∈ hs → ∃ a1 a2, setHeader v a1 h = .ok a2 := by
  intro hs
  induction hs with
  | nil => intro a a' _ hm; cases hm
  | cons x t ih =>
    intro a a' hok hm
    simp only [setHeadersLoop] at hok
    cases hx : setHeader v a x with
    | error e => rw [hx] at hok; cases hok
    | ok a1 =>
      rw [hx] at hok
      rcases List.mem_cons.mp hm with rfl | hm
      · exact ⟨a, a1, hx⟩
      · exact ih a1 a' hok hm

/-- on HTTP/1.1 a Transfer-Encoding header the loop got past is `chunked` or `identity` -/
theorem te_ok_or_identity {a1 a2 : HdrAcc} {val : Bytes}
    (h : setHeader 1 a1 (bTransferEncoding, val) = .ok a2) :
    teIsChunked val = true ∨ ∃ s, toStr? val = some s ∧ ieq (trimOws s) bIdentity = true := by
  rw [setHeader_te1] at h
  split at h
  · cases h
  · unfold teIsChunked
    cases hs : toStr? val with
    | none => simp [hs] at h
    | some s =>
      simp only [hs, Option.map_some] at h
      by_cases hc : ieq (trimOws s) bChunked = true
      · left; simpa using hc
      · right
        simp only [hc, Bool.false_eq_true, if_false] at h
        by_cases hi : ieq (trimOws s) bIdentity = true
        · exact ⟨s, rfl, hi⟩
        · simp [hi] at h

theorem mem_dropOws (b : UInt8) : ∀ (l : Bytes), b ∈ l → isOws b = true ∨ b ∈ dropOws l := by
  intro l
  induction l with
  | nil => intro h; cases h
  | cons x t ih =>
    intro h
    simp only [dropOws]
    by_cases hx : isOws x = true
    · simp only [hx, if_true]
      rcases List.mem_cons.mp h with rfl | h
      · exact Or.inl hx
      · exact ih h
    · simp only [hx, Bool.false_eq_true, if_false]
      exact Or.inr h

theorem mem_trimOws (b : UInt8) (l : Bytes) (h : b ∈ l) : isOws b = true ∨ b ∈ trimOws l := by
  unfold trimOws
  rcases mem_dropOws b l h with h1 | h1
  · exact Or.inl h1
  · have h2 : b ∈ (dropOws l).reverse := List.mem_reverse.mpr h1
    rcases mem_dropOws b _ h2 with h3 | h3
    · exact Or.inl h3
    · exact Or.inr (List.mem_reverse.mpr h3)

theorem containsSub_head_mem (c : UInt8) (pat : Bytes) : ∀ (s : Bytes),
    containsSub (c :: pat) s = true → c ∈ s := by
  intro s
  induction s with
  | nil => intro h; simp [containsSub] at h
  | cons x t ih =>
    intro h
    simp only [containsSub, Bool.or_eq_true] at h
    rcases h with h | h
    · simp only [isPrefixOf, Bool.and_eq_true, beq_iff_eq] at h
      rw [h.1]; exact List.mem_cons_self
    · exact List.mem_cons_of_mem _ (ih h)

/-- a value that is `identity` up to case and OWS does not contain `chunked` -/
theorem identity_not_chunked (s : Bytes) (hi : ieq (trimOws s) bIdentity = true) :
    containsSub bChunked (lower s) = false := by
  cases hc : containsSub bChunked (lower s) with
  | false => rfl
  | true =>
    exfalso
    have hmem : (99 : UInt8) ∈ lower s := containsSub_head_mem 99 _ _ hc
    simp only [lower, List.mem_map] at hmem
    obtain ⟨b, hb, hlb⟩ := hmem
    rcases mem_trimOws b s hb with ho | ht
    · -- SP / HTAB are not changed by lower-casing and are not `c`
      simp only [isOws, Bool.or_eq_true, decide_eq_true_eq] at ho
      unfold lowerByte at hlb
      rcases ho with ho | ho
      · have : b = 32 := by apply UInt8.toNat_inj.mp; simpa using ho
        subst this; simp at hlb
      · have : b = 9 := by apply UInt8.toNat_inj.mp; simpa using ho
        subst this; simp at hlb
    · have hl : lower (trimOws s) = bIdentity := by
        have : lower (trimOws s) = lower bIdentity := by simpa [ieq] using hi
        rw [this]; decide
      have : (99 : UInt8) ∈ lower (trimOws s) := by
        simp only [lower, List.mem_map]; exact ⟨b, ht, hlb⟩
      rw [hl] at this
      revert this; decide

def teCount : List (Bytes × Bytes) → Nat
  | [] => 0
  | h :: t => (if h.1 = bTransferEncoding then 1 else 0) + teCount t

theorem setHeader_seenTe_other {v : Nat} {a a' : HdrAcc} {h : Bytes × Bytes}
    (hn : h.1 ≠ bTransferEncoding) (hok : setHeader v a h = .ok a') : a'.seenTe = a.seenTe := by
  unfold setHeader at hok
  obtain ⟨name, value⟩ := h
  simp only at hok hn
  simp only [hn, decide_false, Bool.false_and, Bool.false_eq_true, if_false] at hok
  repeat' split at hok
  all_goals (cases hok; try rfl)

/-- on HTTP/1.1 the loop gets past at most one Transfer-Encoding header -/
theorem setHeadersLoop_teCount : ∀ (hs : List (Bytes × Bytes)) (a a' : HdrAcc),
    setHeadersLoop 1 a hs = .ok a' → (if a.seenTe then teCount hs = 0 else teCount hs ≤ 1) := by
  intro hs
  induction hs with
  | nil => intro a a' _; simp [teCount]
  | cons x t ih =>
    intro a a' hok
    simp only [setHeadersLoop] at hok
    cases hx : setHeader 1 a x with
    | error e => rw [hx] at hok; cases hok
    | ok a1 =>
      rw [hx] at hok
      have ih' := ih a1 a' hok
      by_cases hn : x.1 = bTransferEncoding
      · obtain ⟨n, val⟩ := x
        simp only at hn
        subst hn
        rw [setHeader_te1] at hx
        by_cases hs : a.seenTe = true
        · simp [hs] at hx
        · have h1 : a1.seenTe = true := by
            simp only [hs, Bool.false_eq_true, if_false] at hx
            split at hx
            · split at hx
              · cases hx; rfl
              · split at hx
                · cases hx; rfl
                · cases hx
            · cases hx
          simp only [h1, if_true] at ih'
          simp [hs, teCount, ih']
      · have h1 := setHeader_seenTe_other hn hx
        rw [h1] at ih'
        simp only [teCount, hn, if_false, Nat.zero_add]
        exact ih'

theorem firstHeader_of_teCount (val : Bytes) : ∀ (hs : List (Bytes × Bytes)),
    teCount hs ≤ 1 → (bTransferEncoding, val) ∈ hs → firstHeader bTransferEncoding hs = some val := by
  intro hs
  induction hs with
  | nil => intro _ hm; cases hm
  | cons x t ih =>
    intro hc hm
    simp only [teCount] at hc
    simp only [firstHeader]
    by_cases hn : x.1 = bTransferEncoding
    · simp only [hn, if_true] at hc
      have ht : teCount t = 0 := by omega
      rcases List.mem_cons.mp hm with rfl | hm
      · simp
      · -- a second TE header in the tail contradicts the count
        exfalso
        have : ∀ (l : List (Bytes × Bytes)), (bTransferEncoding, val) ∈ l → 0 < teCount l := by
          intro l
          induction l with
          | nil => intro h; cases h
          | cons y u ihu =>
            intro h
            simp only [teCount]
            rcases List.mem_cons.mp h with rfl | h
            · simp only [if_true]; omega
            · have := ihu h; omega
        have := this t hm
        omega
    · have hne : (x.1 == bTransferEncoding) = false := by simpa using hn
      simp only [hne, Bool.false_eq_true, if_false]
      simp only [hn, if_false, Nat.zero_add] at hc
      rcases List.mem_cons.mp hm with rfl | hm
      · exact absurd rfl hn
      · exact ih hc hm

theorem hasHeader_of_mem {n v : Bytes} {hs : List (Bytes × Bytes)} (h : (n, v) ∈ hs) : hasHeader n hs = true := by
  simp only [hasHeader, List.any_eq_true]
  exact ⟨(n, v), h, by simp⟩

/-- **a Transfer-Encoding header whose value is not `chunked` ⇒ reject** (HTTP/1.0 or 1.1) -/
theorem requestFraming_te_not_chunked (h : ReqHead) (val : Bytes) (hv : h.version ≤ 1)
    (hm : (bTransferEncoding, val) ∈ h.headers) (hbad : teIsChunked val = false) :
    ∃ e, requestFraming h = .error e := by
  have hhas := hasHeader_of_mem hm
  unfold requestFraming
  cases hset : setHeaders h.version h.headers with
  | error e => exact ⟨e, rfl⟩
  | ok pl =>
    simp only
    by_cases h0 : h.version = 0
    · have : teRules h = .error .header := by unfold teRules; simp [hhas, h0]
      simp only [this]; exact ⟨_, rfl⟩
    · have h1 : h.version = 1 := by omega
      -- the loop got past the header, so it is `identity`; it is the only one, so `chunked()` is false
      unfold setHeaders at hset
      cases hloop : setHeadersLoop h.version {} h.headers with
      | error e => rw [hloop] at hset; cases hset
      | ok a =>
        rw [h1] at hloop
        obtain ⟨a1, a2, hok⟩ := setHeadersLoop_mem_ok 1 _ _ _ _ hloop hm
        rcases te_ok_or_identity hok with hc | ⟨s, hs, hi⟩
        · rw [hc] at hbad; cases hbad
        · have hcount := setHeadersLoop_teCount _ _ _ hloop
          simp only [Bool.false_eq_true, if_false] at hcount
          have hfirst := firstHeader_of_teCount val _ hcount hm
          have : teRules h = .error .header := by
            unfold teRules messageChunked
            simp [hhas, h1, hfirst, hs, identity_not_chunked s hi]
          simp only [this]; exact ⟨_, rfl⟩

/-- **two Transfer-Encoding headers ⇒ reject** (HTTP/1.0 or 1.1) -/
theorem requestFraming_dup_te (h : ReqHead) (v1 v2 : Bytes) (pre mid post : List (Bytes × Bytes))
    (hv : h.version ≤ 1)
    (hh : h.headers = pre ++ ((bTransferEncoding, v1) :: (mid ++ ((bTransferEncoding, v2) :: post)))) :
    ∃ e, requestFraming h = .error e := by
  unfold requestFraming
  by_cases h0 : h.version = 0
  · cases hset : setHeaders h.version h.headers with
    | error e => exact ⟨e, rfl⟩
    | ok pl =>
      have hhas : hasHeader bTransferEncoding h.headers = true :=
        hasHeader_of_mem (v := v1) (by rw [hh]; simp)
      have : teRules h = .error .header := by unfold teRules; simp [hhas, h0]
      simp only [this]; exact ⟨_, rfl⟩
  · have h1 : h.version = 1 := by omega
    obtain ⟨e, he⟩ := setHeadersLoop_dup_te v1 v2 pre mid post {}
    have : setHeaders h.version h.headers = .error e := by
      unfold setHeaders; rw [h1, hh, he]
    rw [this]; exact ⟨e, rfl⟩

/-! ### HTTP/1.0 POST without a length -/

theorem setHeader_v0 {a a' : HdrAcc} {h : Bytes × Bytes} (hok : setHeader 0 a h = .ok a') :
    a'.chunked = a.chunked ∧ (h.1 ≠ bContentLength → a'.contentLength = a.contentLength) ∧
    (h.1 ≠ bUpgrade → a'.upgradeWs = a.upgradeWs) := by
  unfold setHeader at hok
  obtain ⟨name, value⟩ := h
  simp only at hok ⊢
  repeat' split at hok
  all_goals (cases hok; try (refine ⟨?_, fun h => ?_, fun h => ?_⟩ <;> simp_all))

theorem setHeadersLoop_v0 : ∀ (hs : List (Bytes × Bytes)) (a a' : HdrAcc), setHeadersLoop 0 a hs = .ok a' →
    a'.chunked = a.chunked ∧ (hasHeader bContentLength hs = false → a'.contentLength = a.contentLength) ∧
    (hasHeader bUpgrade hs = false → a'.upgradeWs = a.upgradeWs) := by
  intro hs
  induction hs with
  | nil => intro a a' h; simp only [setHeadersLoop] at h; cases h; exact ⟨rfl, fun _ => rfl, fun _ => rfl⟩
  | cons x t ih =>
    intro a a' h
    simp only [setHeadersLoop] at h
    cases hx : setHeader 0 a x with
    | error e => rw [hx] at h; cases h
    | ok a1 =>
      rw [hx] at h
      obtain ⟨m1, m2, m3⟩ := setHeader_v0 hx
      obtain ⟨n1, n2, n3⟩ := ih a1 a' h
      refine ⟨n1.trans m1, ?_, ?_⟩
      · intro hno
        simp only [hasHeader, List.any_cons, Bool.or_eq_false_iff, beq_eq_false_iff_ne, ne_eq] at hno
        rw [n2 (by simpa [hasHeader] using hno.2), m2 hno.1]
      · intro hno
        simp only [hasHeader, List.any_cons, Bool.or_eq_false_iff, beq_eq_false_iff_ne, ne_eq] at hno
        rw [n3 (by simpa [hasHeader] using hno.2), m3 hno.1]

/-- **HTTP/1.0 POST with neither Content-Length nor an upgrade ⇒ reject** -/
theorem requestFraming_post10 (h : ReqHead) (hv : h.version = 0) (hm : h.method = bPOST)
    (hcl : hasHeader bContentLength h.headers = false) (hup : hasHeader bUpgrade h.headers = false) :
    ∃ e, requestFraming h = .error e := by
  unfold requestFraming
  cases hset : setHeaders h.version h.headers with
  | error e => exact ⟨e, rfl⟩
  | ok pl =>
    simp only
    cases hte : teRules h with
    | error e => exact ⟨e, rfl⟩
    | ok u =>
      simp only
      have hnone : pl = .none := by
        unfold setHeaders at hset
        rw [hv] at hset
        cases hloop : setHeadersLoop 0 {} h.headers with
        | error e => rw [hloop] at hset; cases hset
        | ok a =>
          rw [hloop] at hset
          obtain ⟨c1, c2, c3⟩ := setHeadersLoop_v0 _ _ _ hloop
          have e1 : a.chunked = false := c1
          have e2 : a.contentLength = none := c2 hcl
          have e3 : a.upgradeWs = false := c3 hup
          simp only [e1, e2, e3, Bool.false_eq_true, if_false] at hset
          cases hset; rfl
      subst hnone
      simp [hv, hm, PayloadLength.isNone]

/-! ### accepted heads are unambiguous -/

theorem setHeader_chunked_mono {v : Nat} {a a' : HdrAcc} {h : Bytes × Bytes} (hok : setHeader v a h = .ok a') :
    a.chunked = true → a'.chunked = true := by
  unfold setHeader at hok
  obtain ⟨name, value⟩ := h
  simp only at hok
  repeat' split at hok
  all_goals (cases hok; try (intro h; simp_all))

theorem setHeadersLoop_chunked_mono (v : Nat) : ∀ (hs : List (Bytes × Bytes)) (a a' : HdrAcc),
    setHeadersLoop v a hs = .ok a' → a.chunked = true → a'.chunked = true := by
  intro hs
  induction hs with
  | nil => intro a a' h hc; simp only [setHeadersLoop] at h; cases h; exact hc
  | cons x t ih =>
    intro a a' h hc
    simp only [setHeadersLoop] at h
    cases hx : setHeader v a x with
    | error e => rw [hx] at h; cases h
    | ok a1 => rw [hx] at h; exact ih a1 a' h (setHeader_chunked_mono hx hc)

/-- on HTTP/1.1, a `chunked` Transfer-Encoding header the loop got past switches chunked on -/
theorem setHeadersLoop_sets_chunked (val : Bytes) (hc : teIsChunked val = true) :
    ∀ (hs : List (Bytes × Bytes)) (a a' : HdrAcc), setHeadersLoop 1 a hs = .ok a' →
    (bTransferEncoding, val) ∈ hs → a'.chunked = true := by
  intro hs
  induction hs with
  | nil => intro a a' _ hm; cases hm
  | cons x t ih =>
    intro a a' h hm
    simp only [setHeadersLoop] at h
    cases hx : setHeader 1 a x with
    | error e => rw [hx] at h; cases h
    | ok a1 =>
      rw [hx] at h
      rcases List.mem_cons.mp hm with rfl | hm
      · have : a1.chunked = true := by
          rw [setHeader_te1] at hx
          unfold teIsChunked at hc
          split at hx
          · cases hx
          · cases hs : toStr? val with
            | none => rw [hs] at hc; cases hc
            | some s =>
              rw [hs] at hc
              simp only [hs, Option.map_some, hc, if_true] at hx
              cases hx; rfl
        exact setHeadersLoop_chunked_mono 1 t a1 a' h this
      · exact ih a1 a' h hm

/-- **an accepted head with a Transfer-Encoding header is HTTP/1.1, has no Content-Length, every
TE value is `chunked`, and the body decoder is the chunked one** -/
theorem requestFraming_te_accepted (h : ReqHead) (pt : PayloadType) (hv : h.version ≤ 1)
    (hok : requestFraming h = .ok pt) (val : Bytes) (hm : (bTransferEncoding, val) ∈ h.headers) :
    h.version = 1 ∧ hasHeader bContentLength h.headers = false ∧ teIsChunked val = true ∧
      pt = .payload (.chunked .size 0) := by
  have hhas := hasHeader_of_mem hm
  have hchunk : teIsChunked val = true := by
    cases hc : teIsChunked val with
    | true => rfl
    | false =>
      obtain ⟨e, he⟩ := requestFraming_te_not_chunked h val hv hm hc
      rw [he] at hok; cases hok
  unfold requestFraming at hok
  cases hset : setHeaders h.version h.headers with
  | error e => rw [hset] at hok; cases hok
  | ok pl =>
    rw [hset] at hok
    simp only at hok
    cases hte : teRules h with
    | error e => rw [hte] at hok; cases hok
    | ok u =>
      rw [hte] at hok
      simp only at hok
      -- from teRules = ok: version ≠ 0 and no CL
      have hver : h.version = 1 := by
        unfold teRules at hte
        simp only [hhas, if_true] at hte
        by_cases h0 : (h.version == 0) = true
        · simp [h0] at hte
        · have : h.version ≠ 0 := by simpa using h0
          omega
      have hnocl : hasHeader bContentLength h.headers = false := by
        unfold teRules at hte
        simp only [hhas, if_true] at hte
        have h0 : (h.version == 0) = false := by simp [hver]
        simp only [h0, Bool.false_eq_true, if_false] at hte
        split at hte
        · cases hte
        · cases hte
        · cases hcl : hasHeader bContentLength h.headers with
          | false => rfl
          | true => simp [hcl] at hte
      -- the loop switched chunked on
      have hpl : pl = .payload (.payload (.chunked .size 0)) := by
        unfold setHeaders at hset
        cases hloop : setHeadersLoop h.version {} h.headers with
        | error e => rw [hloop] at hset; cases hset
        | ok a =>
          rw [hloop] at hset
          rw [hver] at hloop
          have := setHeadersLoop_sets_chunked val hchunk _ _ _ hloop hm
          simp only [this, if_true] at hset
          cases hset; rfl
      subst hpl
      split at hok
      · cases hok
      · cases hok
        exact ⟨hver, hnocl, hchunk, by simp [chooseDecoder, PayloadLength.isZero]⟩

/-- **every Content-Length header of an accepted head carries a decimal value** -/
theorem requestFraming_cl_accepted (h : ReqHead) (pt : PayloadType)
    (hok : requestFraming h = .ok pt) (val : Bytes) (hm : (bContentLength, val) ∈ h.headers) :
    ∃ n, clValue val = some n := by
  cases hc : clValue val with
  | some n => exact ⟨n, rfl⟩
  | none =>
    obtain ⟨e, he⟩ := setHeadersLoop_bad_cl h.version val hc h.headers {} hm
    have : requestFraming h = .error e := by
      unfold requestFraming setHeaders; rw [he]
    rw [this] at hok; cases hok

theorem requestFraming_of_loop_error (h : ReqHead) (e : ParseErr)
    (he : setHeadersLoop h.version ({} : HdrAcc) h.headers = .error e) : requestFraming h = .error e := by
  unfold requestFraming setHeaders
  rw [he]

end ActixModel.H1
