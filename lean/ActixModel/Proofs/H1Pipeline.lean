import ActixModel.Proofs.H1Decode
import ActixModel.Proofs.H1ChunkedRT
/-
Round trip for whole pipelines: a list of messages, each a head (whose tokenisation and framing
are given) followed by the body in the wire form its framing asks for, decodes to exactly these
messages, whatever follows.
-/
namespace ActixModel.H1
open ActixModel.Util

theorem headEnd_append : ∀ (a b : Bytes) (q : HScan) (n : Nat), headEnd q a = some n → headEnd q (a ++ b) = some n := by
  intro a
  induction a with
  | nil => intro b q n h; simp [headEnd] at h
  | cons x t ih =>
    intro b q n h
    simp only [List.cons_append, headEnd] at h ⊢
    cases hq : hscanStep q x with
    | none => simpa [hq] using h
    | some q' =>
      simp only [hq, Option.map_eq_some_iff] at h ⊢
      obtain ⟨m, hm, rfl⟩ := h
      exact ⟨m, ih b q' m hm, rfl⟩

/-- the body of a message on the wire, by framing -/
inductive WBody where
  | none
  | length (data : Bytes)
  | chunked (cs : List WChunk) (l : WLast)

def WBody.bytes : WBody → Bytes
  | .none => []
  | .length d => d
  | .chunked cs l => wireChunked cs l

def WBody.data : WBody → Bytes
  | .none => []
  | .length d => d
  | .chunked cs _ => (cs.map (·.data)).flatten

/-- the payload type the head must have announced for this body -/
def WBody.Matches : WBody → PayloadType → Prop
  | .none, pt => pt = .none
  | .length d, pt => d ≠ [] ∧ pt = .payload (.length d.length)
  | .chunked cs l, pt => (∀ c ∈ cs, c.Valid) ∧ l.Valid ∧ pt = .payload (.chunked .size 0)

structure WMsg where
  hb : Bytes
  head : ReqHead
  pt : PayloadType
  body : WBody

/-- `hb` is exactly one head, tokenised and framed as (`head`, `pt`), and the body has the wire
form `pt` asks for -/
def WMsg.Valid (m : WMsg) : Prop :=
  headEnd .lead0 m.hb = some m.hb.length ∧ finishHead m.hb = .ok (m.head, m.pt) ∧ m.body.Matches m.pt

def WMsg.bytes (m : WMsg) : Bytes := m.hb ++ m.body.bytes

/-- what the application must see of it: the head, the body bytes, and `Eof` iff there is a body -/
def WMsg.events (m : WMsg) : List Ev :=
  .head m.head m.pt :: (match m.body with
    | .none => []
    | b => b.data.map Ev.byte ++ [.eof])

theorem run_msg (m : WMsg) (hm : m.Valid) :
    runSt (.head [] .lead0) m.bytes = (.head [] .lead0, m.events) := by
  obtain ⟨h1, h2, h3⟩ := hm
  have hh := headEnd_append m.hb m.body.bytes .lead0 _ h1
  obtain ⟨_, _, hr⟩ := runSt_head_some (m.hb ++ m.body.bytes) [] .lead0 _ hh
  simp only [List.take_left', List.nil_append] at hr
  have hc : complete m.hb = ((norm (slotOf m.pt)).2, .head m.head m.pt :: (norm (slotOf m.pt)).1) := by
    simp [complete, h2]
  unfold WMsg.bytes WMsg.events
  rw [runSt_append, hr, hc]
  cases hb : m.body with
  | none =>
    rw [hb] at h3
    have : m.pt = .none := h3
    simp [this, slotOf, norm, WBody.bytes]
  | length d =>
    rw [hb] at h3
    obtain ⟨hd, hpt⟩ := h3
    have hpos : 0 < d.length := List.length_pos_iff.mpr hd
    have hn : norm (some (.length d.length)) = ([], .body (.length d.length)) :=
      norm_normal (k := .length d.length) hpos
    have hrun := runSt_length d d.length hd (Nat.le_refl _)
    simp only [hpt, slotOf, hn, WBody.bytes, WBody.data, hrun]
    simp [norm]
  | chunked cs l =>
    rw [hb] at h3
    obtain ⟨hcs, hl, hpt⟩ := h3
    have hn : norm (some (.chunked .size 0)) = ([], .body (.chunked .size 0)) := rfl
    have hrun := run_wireChunked cs l hcs hl
    simp only [hpt, slotOf, hn, WBody.bytes, WBody.data]
    rw [show St.body (.chunked .size 0) = cst .size 0 from rfl, hrun]
    simp

theorem run_pipeline (ms : List WMsg) (hms : ∀ m ∈ ms, m.Valid) (rest : Bytes) :
    runSt (.head [] .lead0) ((ms.map WMsg.bytes).flatten ++ rest) =
      ((runSt (.head [] .lead0) rest).1, (ms.map WMsg.events).flatten ++ (runSt (.head [] .lead0) rest).2) := by
  induction ms with
  | nil => simp
  | cons m t ih =>
    have hm := run_msg m (hms m List.mem_cons_self)
    have ht := ih (fun x hx => hms x (List.mem_cons_of_mem _ hx))
    simp only [List.map_cons, List.flatten_cons, List.append_assoc]
    rw [runSt_append, hm, ht]

end ActixModel.H1
