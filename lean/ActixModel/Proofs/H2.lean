import ActixModel.Model.H2
/-
Helper lemmas for C08: the inner send loop (`sendChunk`) and the body loop (`sendBody`).
Core Lean only.
-/
namespace ActixModel.H2
open ActixModel.Util

/-! ### small list facts -/

theorem wireBytes_append (a b : List Frame) : wireBytes (a ++ b) = wireBytes a ++ wireBytes b := by
  induction a with
  | nil => rfl
  | cons f fs ih => simp [wireBytes, ih, List.append_assoc]

/-- all answers grant at least one byte (the stream stays open, no error) -/
def GoodSched (sched : List CapAns) : Prop := ∀ a ∈ sched, ∃ c, a = .cap c ∧ 1 ≤ c

theorem GoodSched.tail {a : CapAns} {s : List CapAns} (h : GoodSched (a :: s)) : GoodSched s :=
  fun x hx => h x (List.mem_cons_of_mem _ hx)

theorem GoodSched.suffix {s t : List CapAns} (h : GoodSched s) (hs : t <:+ s) : GoodSched t :=
  fun x hx => h x (hs.subset hx)

/-! ### `sendChunk` -/

/-- safety of the inner loop, for every schedule: what was sent is a prefix of the chunk, no DATA
frame of the loop carries END_STREAM, a completed chunk was sent entirely, and the unconsumed
answers are a suffix of the schedule. -/
theorem sendChunk_safe (chunk : Bytes) (sched : List CapAns) :
    let r := sendChunk chunk sched
    (∃ tl, wireBytes r.frames ++ tl = chunk ∧ (r.stop = none → tl = [])) ∧
    (∀ f ∈ r.frames, f.eos = false) ∧
    r.rest <:+ sched ∧
    r.frames.length = r.polls.length := by
  induction sched generalizing chunk with
  | nil => simp [sendChunk, wireBytes]
  | cons a rest ih =>
    cases a with
    | closed => simp [sendChunk, wireBytes, List.suffix_cons]
    | err => simp [sendChunk, wireBytes, List.suffix_cons]
    | cap c =>
      simp only [sendChunk]
      split
      · rename_i hemp
        refine ⟨⟨[], ?_, fun _ => rfl⟩, ?_, List.suffix_cons _ _, rfl⟩
        · have : List.drop (min chunk.length c) chunk = [] := by simpa using hemp
          simp only [wireBytes, List.append_nil]
          conv => rhs; rw [← List.take_append_drop (min chunk.length c) chunk, this]
          simp
        · intro f hf; simp at hf; subst hf; rfl
      · obtain ⟨⟨tl, htl, hnone⟩, heos, hsuf, hlen⟩ := ih (chunk.drop (min chunk.length c))
        refine ⟨⟨tl, ?_, hnone⟩, ?_, ?_, ?_⟩
        · simp only [wireBytes, List.append_assoc, htl, List.take_append_drop]
        · intro f hf
          simp only [List.mem_cons] at hf
          cases hf with
          | inl h => subst h; rfl
          | inr h => exact heos f h
        · exact hsuf.trans (List.suffix_cons _ _)
        · simp [hlen]

/-- every answered poll of the inner loop: reservation = `min(remaining, CHUNK_SIZE)` is positive
for a non-empty chunk and never above `CHUNK_SIZE`; the bytes sent never exceed the grant, nor the
reservation when the oracle keeps its promise `granted ≤ reserved`; a positive grant sends ≥ 1
byte. -/
theorem sendChunk_polls (chunk : Bytes) (sched : List CapAns) (hne : chunk ≠ []) :
    ∀ p ∈ (sendChunk chunk sched).polls,
      1 ≤ p.reserved ∧ p.reserved ≤ chunkSize ∧ p.sent ≤ p.granted ∧
      (p.granted ≤ p.reserved → p.sent ≤ chunkSize) ∧ (1 ≤ p.granted → 1 ≤ p.sent) := by
  have hcs : 1 ≤ chunkSize := by decide
  induction sched generalizing chunk with
  | nil => simp [sendChunk]
  | cons a rest ih =>
    have hlen : 1 ≤ chunk.length := by
      cases chunk with
      | nil => exact absurd rfl hne
      | cons _ _ => simp
    have hp : ∀ c, 1 ≤ min chunk.length chunkSize ∧ min chunk.length chunkSize ≤ chunkSize ∧
        min chunk.length c ≤ c ∧ (c ≤ min chunk.length chunkSize → min chunk.length c ≤ chunkSize) ∧
        (1 ≤ c → 1 ≤ min chunk.length c) := by
      intro c; omega
    cases a with
    | closed => simp [sendChunk]
    | err => simp [sendChunk]
    | cap c =>
      simp only [sendChunk]
      split
      · intro p hp'; simp at hp'; subst hp'; exact hp c
      · rename_i hemp
        intro p hp'
        simp only [List.mem_cons] at hp'
        cases hp' with
        | inl h => subst h; exact hp c
        | inr h =>
          refine ih (chunk.drop (min chunk.length c)) ?_ p h
          intro h0; apply hemp; simp [h0]

/-- the polls record exactly the frame lengths -/
theorem sendChunk_sent (chunk : Bytes) (sched : List CapAns) :
    (sendChunk chunk sched).polls.map (·.sent) = (sendChunk chunk sched).frames.map (·.data.length) := by
  induction sched generalizing chunk with
  | nil => simp [sendChunk]
  | cons a rest ih =>
    cases a with
    | closed => simp [sendChunk]
    | err => simp [sendChunk]
    | cap c =>
      simp only [sendChunk]
      split
      · simp <;> omega
      · simp only [List.map_cons, ih, List.length_take]
        congr 1; omega

/-- liveness of the inner loop: if every answer grants ≥ 1 byte and there are at least as many
answers as bytes, the chunk is sent completely, using at most one answer per byte. -/
theorem sendChunk_live (chunk : Bytes) (sched : List CapAns) (hne : chunk ≠ [])
    (hg : GoodSched sched) (hlen : chunk.length ≤ sched.length) :
    (sendChunk chunk sched).stop = none ∧
    wireBytes (sendChunk chunk sched).frames = chunk ∧
    sched.length ≤ (sendChunk chunk sched).rest.length + chunk.length := by
  induction sched generalizing chunk with
  | nil =>
    cases chunk with
    | nil => exact absurd rfl hne
    | cons _ _ => simp at hlen
  | cons a rest ih =>
    obtain ⟨c, hc, hc1⟩ := hg a (List.mem_cons_self ..)
    subst hc
    have hl1 : 1 ≤ chunk.length := by
      cases chunk with
      | nil => exact absurd rfl hne
      | cons _ _ => simp
    simp only [sendChunk]
    split
    · rename_i hemp
      have hd : List.drop (min chunk.length c) chunk = [] := by simpa using hemp
      refine ⟨rfl, ?_, ?_⟩
      · simp only [wireBytes, List.append_nil]
        conv => rhs; rw [← List.take_append_drop (min chunk.length c) chunk, hd]
        simp
      · simp only [List.length_cons]; omega
    · rename_i hemp
      have hne' : chunk.drop (min chunk.length c) ≠ [] := by
        intro h0; apply hemp; simp [h0]
      have hdl : (chunk.drop (min chunk.length c)).length ≤ rest.length := by
        simp only [List.length_drop, List.length_cons] at *; omega
      obtain ⟨h1, h2, h3⟩ := ih (chunk.drop (min chunk.length c)) hne' hg.tail hdl
      refine ⟨h1, ?_, ?_⟩
      · simp only [wireBytes, h2, List.take_append_drop]
      · simp only [List.length_drop, List.length_cons] at *; omega

/-- the inner loop never reports `done` -/
theorem sendChunk_stop_ne_done (chunk : Bytes) (sched : List CapAns) :
    (sendChunk chunk sched).stop ≠ some .done := by
  induction sched generalizing chunk with
  | nil => simp [sendChunk]
  | cons a rest ih =>
    cases a with
    | closed => simp [sendChunk]
    | err => simp [sendChunk]
    | cap c =>
      simp only [sendChunk]
      split
      · simp
      · exact ih _

/-! ### `sendBody` -/

/-- Safety for every schedule (resets, errors, starvation included): the bytes handed to `h2`
are a prefix of what the body produced; END_STREAM is only ever put on a final empty frame and
only when the whole body was sent and did not fail. -/
theorem sendBody_safe (items : List Item) (sched : List CapAns) :
    let r := sendBody items sched
    (∃ tl, wireBytes r.frames ++ tl = bodyBytes items) ∧
    (r.end_ = .done →
        wireBytes r.frames = bodyBytes items ∧ bodyFails items = false ∧
        ∃ fs, r.frames = fs ++ [⟨[], true⟩] ∧ ∀ f ∈ fs, f.eos = false) ∧
    (r.end_ ≠ .done → ∀ f ∈ r.frames, f.eos = false) ∧
    r.frames.length = r.polls.length + (if r.end_ = .done then 1 else 0) := by
  induction items generalizing sched with
  | nil =>
    refine ⟨⟨[], by simp [sendBody, wireBytes, bodyBytes]⟩, fun _ => ⟨by simp [sendBody, wireBytes, bodyBytes], rfl, [], by simp [sendBody], by simp⟩, fun h => absurd rfl h, by simp [sendBody]⟩
  | cons it items ih =>
    cases it with
    | err =>
      refine ⟨⟨[], by simp [sendBody, wireBytes, bodyBytes]⟩, fun h => by simp [sendBody] at h, fun _ => by simp [sendBody], by simp [sendBody]⟩
    | chunk bs =>
      simp only [sendBody]
      split
      · rename_i hemp
        have : bs = [] := by simpa using hemp
        subst this
        simpa [bodyBytes, bodyFails] using ih sched
      · obtain ⟨⟨tl, htl, hnone⟩, heos, _, hlen⟩ := sendChunk_safe bs sched
        split
        · rename_i e hstop
          have hstop' : (sendChunk bs sched).stop ≠ none := by simp [hstop]
          have hne : e ≠ .done := by
            intro h; subst h; exact sendChunk_stop_ne_done bs sched hstop
          refine ⟨⟨tl ++ bodyBytes items, ?_⟩, fun h => absurd h hne, fun _ => heos, ?_⟩
          · simp only [bodyBytes, ← List.append_assoc, htl]
          · simp [hne, hlen]
        · rename_i hstop
          have htl0 := hnone hstop
          subst htl0
          simp only [List.append_nil] at htl
          obtain ⟨⟨tl2, htl2⟩, hdone, hnd, hl2⟩ := ih (sendChunk bs sched).rest
          refine ⟨⟨tl2, ?_⟩, ?_, ?_, ?_⟩
          · simp only [wireBytes_append, bodyBytes, htl, List.append_assoc, htl2]
          · intro hd
            obtain ⟨hb, hf, fs, hfs, hfs2⟩ := hdone hd
            refine ⟨?_, ?_, (sendChunk bs sched).frames ++ fs, ?_, ?_⟩
            · simp only [wireBytes_append, bodyBytes, htl, hb]
            · simpa [bodyFails] using hf
            · simp only [hfs, List.append_assoc]
            · intro f hf'
              simp only [List.mem_append] at hf'
              cases hf' with
              | inl h => exact heos f h
              | inr h => exact hfs2 f h
          · intro hd f hf'
            simp only [List.mem_append] at hf'
            cases hf' with
            | inl h => exact heos f h
            | inr h => exact hnd hd f h
          · simp only [List.length_append, hlen, hl2]; omega

/-- Liveness: a body that does not fail, against an oracle that always grants ≥ 1 byte, at
least as often as there are bytes: the loop finishes with END_STREAM and every byte sent. -/
theorem sendBody_live (items : List Item) (sched : List CapAns) (hf : bodyFails items = false)
    (hg : GoodSched sched) (hlen : (bodyBytes items).length ≤ sched.length) :
    (sendBody items sched).end_ = .done := by
  induction items generalizing sched with
  | nil => simp [sendBody]
  | cons it items ih =>
    cases it with
    | err => simp [bodyFails] at hf
    | chunk bs =>
      simp only [sendBody]
      simp only [bodyFails] at hf
      simp only [bodyBytes, List.length_append] at hlen
      split
      · rename_i hemp
        have : bs = [] := by simpa using hemp
        subst this
        exact ih sched hf hg (by simpa using hlen)
      · rename_i hemp
        have hne : bs ≠ [] := by intro h; apply hemp; simp [h]
        obtain ⟨h1, _, h3⟩ := sendChunk_live bs sched hne hg (by omega)
        obtain ⟨_, _, hsuf, _⟩ := sendChunk_safe bs sched
        simp only [h1]
        exact ih _ hf (hg.suffix hsuf) (by omega)

/-- every poll of the whole body loop (same facts as `sendChunk_polls`) -/
theorem sendBody_polls (items : List Item) (sched : List CapAns) :
    ∀ p ∈ (sendBody items sched).polls,
      1 ≤ p.reserved ∧ p.reserved ≤ chunkSize ∧ p.sent ≤ p.granted ∧
      (p.granted ≤ p.reserved → p.sent ≤ chunkSize) ∧ (1 ≤ p.granted → 1 ≤ p.sent) := by
  induction items generalizing sched with
  | nil => simp [sendBody]
  | cons it items ih =>
    cases it with
    | err => simp [sendBody]
    | chunk bs =>
      simp only [sendBody]
      split
      · exact ih sched
      · rename_i hemp
        have hne : bs ≠ [] := by intro h; apply hemp; simp [h]
        split
        · exact sendChunk_polls bs sched hne
        · intro p hp
          simp only [List.mem_append] at hp
          cases hp with
          | inl h => exact sendChunk_polls bs sched hne p h
          | inr h => exact ih _ p h

/-- the polls record the lengths of the DATA frames, in order (the closing empty frame is not
preceded by a poll) -/
theorem sendBody_sent (items : List Item) (sched : List CapAns) :
    (sendBody items sched).polls.map (·.sent) =
      ((sendBody items sched).frames.filter (fun f => !f.eos)).map (·.data.length) := by
  induction items generalizing sched with
  | nil => simp [sendBody]
  | cons it items ih =>
    cases it with
    | err => simp [sendBody]
    | chunk bs =>
      simp only [sendBody]
      split
      · exact ih sched
      · have heos := (sendChunk_safe bs sched).2.1
        have hfil : (sendChunk bs sched).frames.filter (fun f => !f.eos) = (sendChunk bs sched).frames := by
          apply List.filter_eq_self.mpr
          intro f hf; simp [heos f hf]
        split
        · simp only [hfil, sendChunk_sent]
        · simp only [List.map_append, List.filter_append, hfil, sendChunk_sent, ih]

/-! ### termination measure -/

/-- under a granting oracle every poll of the inner loop moves at least one byte -/
theorem sendChunk_polls_le (chunk : Bytes) (sched : List CapAns) (hne : chunk ≠ [])
    (hg : GoodSched sched) :
    (sendChunk chunk sched).polls.length ≤ (wireBytes (sendChunk chunk sched).frames).length := by
  induction sched generalizing chunk with
  | nil => simp [sendChunk]
  | cons a rest ih =>
    obtain ⟨c, hc, hc1⟩ := hg a (List.mem_cons_self ..)
    subst hc
    have hl1 : 1 ≤ chunk.length := by
      cases chunk with
      | nil => exact absurd rfl hne
      | cons _ _ => simp
    simp only [sendChunk]
    split
    · simp only [wireBytes, List.length_cons, List.length_nil, List.append_nil, List.length_take]
      omega
    · rename_i hemp
      have hne' : chunk.drop (min chunk.length c) ≠ [] := by
        intro h0; apply hemp; simp [h0]
      have := ih (chunk.drop (min chunk.length c)) hne' hg.tail
      simp only [wireBytes, List.length_cons, List.length_append, List.length_take]
      omega

/-- the number of capacity requests never exceeds the number of body bytes -/
theorem sendBody_polls_le (items : List Item) (sched : List CapAns) (hg : GoodSched sched) :
    (sendBody items sched).polls.length ≤ (bodyBytes items).length := by
  induction items generalizing sched with
  | nil => simp [sendBody]
  | cons it items ih =>
    cases it with
    | err => simp [sendBody]
    | chunk bs =>
      simp only [sendBody, bodyBytes, List.length_append]
      split
      · have := ih sched hg; omega
      · rename_i hemp
        have hne : bs ≠ [] := by intro h; apply hemp; simp [h]
        have h1 := sendChunk_polls_le bs sched hne hg
        obtain ⟨⟨tl, htl, _⟩, _, hsuf, _⟩ := sendChunk_safe bs sched
        have h2 : (wireBytes (sendChunk bs sched).frames).length ≤ bs.length := by
          have := congrArg List.length htl
          simp only [List.length_append] at this; omega
        split
        · simp only; omega
        · have := ih _ (hg.suffix hsuf)
          simp only [List.length_append]; omega

/-! ### the event machine -/

theorem foldl_step_fin (s : LoopSt) (sched : List CapAns) (h : s.fin.isSome) :
    sched.foldl step s = s := by
  induction sched with
  | nil => rfl
  | cons a rest ih =>
    have : step s a = s := by
      unfold step
      cases hf : s.fin with
      | none => simp [hf] at h
      | some e => rfl
    simp only [List.foldl_cons, this, ih]

theorem sendChunk_cap_last (chunk : Bytes) (c : Nat) (rest : List CapAns)
    (h : (chunk.drop (min chunk.length c)).isEmpty = true) :
    sendChunk chunk (.cap c :: rest) =
      ⟨[⟨chunk.take (min chunk.length c), false⟩],
       [⟨min chunk.length chunkSize, c, min chunk.length c⟩], none, rest⟩ := by
  simp only [sendChunk, h, ↓reduceIte]

theorem sendChunk_cap_more (chunk : Bytes) (c : Nat) (rest : List CapAns)
    (h : ¬ (chunk.drop (min chunk.length c)).isEmpty = true) :
    sendChunk chunk (.cap c :: rest) =
      ⟨⟨chunk.take (min chunk.length c), false⟩ :: (sendChunk (chunk.drop (min chunk.length c)) rest).frames,
       ⟨min chunk.length chunkSize, c, min chunk.length c⟩ :: (sendChunk (chunk.drop (min chunk.length c)) rest).polls,
       (sendChunk (chunk.drop (min chunk.length c)) rest).stop,
       (sendChunk (chunk.drop (min chunk.length c)) rest).rest⟩ := by
  simp only [sendChunk, h, Bool.false_eq_true, ↓reduceIte]

theorem step_cap_last (F : List Frame) (cur : Bytes) (items : List Item) (c : Nat)
    (h : (cur.drop (min cur.length c)).isEmpty = true) :
    step ⟨F, cur, items, none⟩ (.cap c) = pull (F ++ [⟨cur.take (min cur.length c), false⟩]) items := by
  simp only [step, h, ↓reduceIte]

theorem step_cap_more (F : List Frame) (cur : Bytes) (items : List Item) (c : Nat)
    (h : ¬ (cur.drop (min cur.length c)).isEmpty = true) :
    step ⟨F, cur, items, none⟩ (.cap c) =
      ⟨F ++ [⟨cur.take (min cur.length c), false⟩], cur.drop (min cur.length c), items, none⟩ := by
  simp only [step, h, Bool.false_eq_true, ↓reduceIte]

/-- one chunk: the machine, fed the schedule, does what `sendChunk` does -/
theorem foldl_step_chunk (chunk : Bytes) (sched : List CapAns) (F : List Frame) (items : List Item)
    (hne : chunk ≠ []) :
    match (sendChunk chunk sched).stop with
    | none => sched.foldl step ⟨F, chunk, items, none⟩ =
        (sendChunk chunk sched).rest.foldl step (pull (F ++ (sendChunk chunk sched).frames) items)
    | some e => (sched.foldl step ⟨F, chunk, items, none⟩).frames = F ++ (sendChunk chunk sched).frames ∧
        (sched.foldl step ⟨F, chunk, items, none⟩).end_ = e := by
  induction sched generalizing chunk F with
  | nil => simp [sendChunk, LoopSt.end_]
  | cons a rest ih =>
    cases a with
    | closed =>
      simp only [sendChunk, List.foldl_cons, step]
      rw [foldl_step_fin _ _ (by simp)]
      simp [LoopSt.end_]
    | err =>
      simp only [sendChunk, List.foldl_cons, step]
      rw [foldl_step_fin _ _ (by simp)]
      simp [LoopSt.end_]
    | cap c =>
      by_cases hemp : (chunk.drop (min chunk.length c)).isEmpty = true
      · rw [sendChunk_cap_last _ _ _ hemp, List.foldl_cons, step_cap_last _ _ _ _ hemp]
      · have hne' : chunk.drop (min chunk.length c) ≠ [] := by
          intro h0; apply hemp; simp [h0]
        have := ih (chunk.drop (min chunk.length c)) (F ++ [⟨chunk.take (min chunk.length c), false⟩]) hne'
        rw [sendChunk_cap_more _ _ _ hemp, List.foldl_cons, step_cap_more _ _ _ _ hemp]
        simp only [List.append_assoc, List.singleton_append] at this
        exact this

/-- **big-step = small-step**: the recursive loop model and the event machine agree on the
frames sent and on how the task ends, for every body and every schedule. -/
theorem runSteps_eq_sendBody_aux (items : List Item) (sched : List CapAns) (F : List Frame) :
    (sched.foldl step (pull F items)).frames = F ++ (sendBody items sched).frames ∧
    (sched.foldl step (pull F items)).end_ = (sendBody items sched).end_ := by
  induction items generalizing sched F with
  | nil =>
    simp only [pull, sendBody]
    rw [foldl_step_fin _ _ (by simp)]
    simp [LoopSt.end_]
  | cons it items ih =>
    cases it with
    | err =>
      simp only [pull, sendBody]
      rw [foldl_step_fin _ _ (by simp)]
      simp [LoopSt.end_]
    | chunk bs =>
      simp only [pull, sendBody]
      split
      · exact ih sched F
      · rename_i hemp
        have hne : bs ≠ [] := by intro h; apply hemp; simp [h]
        have hc := foldl_step_chunk bs sched F items hne
        split
        · rename_i e hstop
          simp only [hstop] at hc
          exact hc
        · rename_i hstop
          simp only [hstop] at hc
          rw [hc]
          have := ih (sendChunk bs sched).rest (F ++ (sendChunk bs sched).frames)
          simp only [List.append_assoc] at this
          exact this

theorem runSteps_eq_sendBody (items : List Item) (sched : List CapAns) :
    (runSteps items sched).frames = (sendBody items sched).frames ∧
    (runSteps items sched).end_ = (sendBody items sched).end_ := by
  have := runSteps_eq_sendBody_aux items sched []
  simpa [runSteps] using this

/-- the invariant of the suspended task -/
structure LoopInv (total : Bytes) (s : LoopSt) : Prop where
  /-- sent ++ unsent remainder of the current chunk ++ what the body will still produce -/
  bytes : wireBytes s.frames ++ s.cur ++ bodyBytes s.items = total
  /-- a waiting task always has something to send: it never reserves zero capacity -/
  waiting : s.fin = none → s.cur ≠ []
  /-- END_STREAM has been sent iff the task finished `done`; then nothing is left unsent -/
  eos : (∃ f ∈ s.frames, f.eos = true) ↔ s.fin = some .done
  done : s.fin = some .done → s.cur = [] ∧ s.items = []

theorem pull_inv (total : Bytes) (F : List Frame) (items : List Item)
    (hb : wireBytes F ++ bodyBytes items = total) (hF : ∀ f ∈ F, f.eos = false) :
    LoopInv total (pull F items) := by
  induction items with
  | nil =>
    refine ⟨?_, by simp [pull], ?_, by simp [pull]⟩
    · simpa [pull, wireBytes_append, wireBytes, bodyBytes] using hb
    · simp [pull]
  | cons it items ih =>
    cases it with
    | err =>
      refine ⟨?_, by simp [pull], ?_, by simp [pull]⟩
      · simpa [pull, bodyBytes] using hb
      · simp only [pull]
        constructor
        · intro ⟨f, hf, he⟩; rw [hF f hf] at he; cases he
        · intro h; cases h
    | chunk bs =>
      simp only [pull]
      split
      · rename_i hemp
        have : bs = [] := by simpa using hemp
        subst this
        exact ih (by simpa [bodyBytes] using hb)
      · rename_i hemp
        refine ⟨?_, ?_, ?_, by simp⟩
        · simpa [bodyBytes, List.append_assoc] using hb
        · intro _ h
          have h' : bs = [] := h
          apply hemp; simp [h']
        · constructor
          · intro ⟨f, hf, he⟩; rw [hF f hf] at he; cases he
          · intro h; cases h

/-- the invariant is preserved by every answer -/
theorem step_inv (total : Bytes) (s : LoopSt) (a : CapAns) (h : LoopInv total s) :
    LoopInv total (step s a) := by
  unfold step
  cases hf : s.fin with
  | some e => simpa [hf] using h
  | none =>
    have hnoeos : ∀ f ∈ s.frames, f.eos = false := by
      intro f hf'
      cases he : f.eos with
      | false => rfl
      | true =>
        have := h.eos.mp ⟨f, hf', he⟩
        rw [hf] at this; cases this
    cases a with
    | closed =>
      refine ⟨h.bytes, by simp, ?_, by simp⟩
      simp only
      constructor
      · intro ⟨f, hf', he⟩; rw [hnoeos f hf'] at he; cases he
      · intro h'; cases h'
    | err =>
      refine ⟨h.bytes, by simp, ?_, by simp⟩
      simp only
      constructor
      · intro ⟨f, hf', he⟩; rw [hnoeos f hf'] at he; cases he
      · intro h'; cases h'
    | cap c =>
      simp only
      have hF' : ∀ f ∈ s.frames ++ [⟨s.cur.take (min s.cur.length c), false⟩], f.eos = false := by
        intro f hf'
        simp only [List.mem_append, List.mem_singleton] at hf'
        cases hf' with
        | inl h1 => exact hnoeos f h1
        | inr h1 => subst h1; rfl
      split
      · rename_i hemp
        have hd : s.cur.drop (min s.cur.length c) = [] := by simpa using hemp
        apply pull_inv total _ _ _ hF'
        have hb := h.bytes
        rw [← List.take_append_drop (min s.cur.length c) s.cur, hd] at hb
        simpa [wireBytes_append, wireBytes, List.append_assoc] using hb
      · rename_i hemp
        refine ⟨?_, ?_, ?_, ?_⟩
        · have hb := h.bytes
          conv at hb => lhs; rw [← List.take_append_drop (min s.cur.length c) s.cur]
          simpa [wireBytes_append, wireBytes, List.append_assoc] using hb
        · intro _ h0
          have h0' : s.cur.drop (min s.cur.length c) = [] := h0
          apply hemp; simp [h0']
        · simp only
          constructor
          · intro ⟨f, hf', he⟩; rw [hF' f hf'] at he; cases he
          · intro h'; cases h'
        · simp

/-- the invariant holds after every sequence of answers -/
theorem runSteps_inv (items : List Item) (sched : List CapAns) :
    LoopInv (bodyBytes items) (runSteps items sched) := by
  have : ∀ (s : LoopSt), LoopInv (bodyBytes items) s → LoopInv (bodyBytes items) (sched.foldl step s) := by
    induction sched with
    | nil => intro s h; exact h
    | cons a rest ih => intro s h; exact ih _ (step_inv _ s a h)
  exact this _ (pull_inv _ [] items (by simp [wireBytes]) (by simp))

/-! ### several streams -/

theorem foldl_connStep (evs : List (Nat × CapAns)) (c : ConnSt) (k : Nat) :
    (evs.foldl connStep c) k = (project k evs).foldl step (c k) := by
  induction evs generalizing c with
  | nil => rfl
  | cons e rest ih =>
    simp only [List.foldl_cons, ih, project, List.filter_cons]
    by_cases hk : e.1 = k
    · simp [hk, connStep]
    · have : (e.1 == k) = false := by simpa using hk
      have hk' : ¬ k = e.1 := fun h => hk h.symm
      simp [this, connStep, hk']

theorem runConn_project (bodies : Nat → List Item) (evs : List (Nat × CapAns)) (k : Nat) :
    runConn bodies evs k = runSteps (bodies k) (project k evs) := by
  simp [runConn, runSteps, foldl_connStep]

/-! ### what is reserved -/

/-- the reservations the code must make for a chunk of `len` bytes when its successive polls
send `sents` bytes: always `min(remaining, CHUNK_SIZE)` -/
def expectedReserves (len : Nat) : List Nat → List Nat
  | [] => []
  | s :: r => min len chunkSize :: expectedReserves (len - s) r

theorem sendChunk_reserves (chunk : Bytes) (sched : List CapAns) :
    (sendChunk chunk sched).polls.map (·.reserved) =
      expectedReserves chunk.length ((sendChunk chunk sched).polls.map (·.sent)) := by
  induction sched generalizing chunk with
  | nil => simp [sendChunk, expectedReserves]
  | cons a rest ih =>
    cases a with
    | closed => simp [sendChunk, expectedReserves]
    | err => simp [sendChunk, expectedReserves]
    | cap c =>
      by_cases hemp : (chunk.drop (min chunk.length c)).isEmpty = true
      · rw [sendChunk_cap_last _ _ _ hemp]
        simp [expectedReserves]
      · rw [sendChunk_cap_more _ _ _ hemp]
        simp only [List.map_cons, expectedReserves, ih, List.length_drop]

theorem sendChunk_reserved_le (chunk : Bytes) (sched : List CapAns) :
    ∀ p ∈ (sendChunk chunk sched).polls, p.reserved ≤ chunk.length := by
  induction sched generalizing chunk with
  | nil => simp [sendChunk]
  | cons a rest ih =>
    cases a with
    | closed => simp [sendChunk]
    | err => simp [sendChunk]
    | cap c =>
      by_cases hemp : (chunk.drop (min chunk.length c)).isEmpty = true
      · rw [sendChunk_cap_last _ _ _ hemp]
        intro p hp; simp at hp; subst hp; exact Nat.min_le_left _ _
      · rw [sendChunk_cap_more _ _ _ hemp]
        intro p hp
        simp only [List.mem_cons] at hp
        cases hp with
        | inl h => subst h; exact Nat.min_le_left _ _
        | inr h =>
          have := ih (chunk.drop (min chunk.length c)) p h
          simp only [List.length_drop] at this; omega

theorem sendBody_reserved_le (items : List Item) (sched : List CapAns) :
    ∀ p ∈ (sendBody items sched).polls, ∃ bs, Item.chunk bs ∈ items ∧ p.reserved ≤ bs.length := by
  induction items generalizing sched with
  | nil => simp [sendBody]
  | cons it items ih =>
    cases it with
    | err => simp [sendBody]
    | chunk bs =>
      simp only [sendBody]
      split
      · intro p hp
        obtain ⟨b, hb, hle⟩ := ih sched p hp
        exact ⟨b, List.mem_cons_of_mem _ hb, hle⟩
      · split
        · intro p hp
          exact ⟨bs, List.mem_cons_self .., sendChunk_reserved_le bs sched p hp⟩
        · intro p hp
          simp only [List.mem_append] at hp
          cases hp with
          | inl h => exact ⟨bs, List.mem_cons_self .., sendChunk_reserved_le bs sched p h⟩
          | inr h =>
            obtain ⟨b, hb, hle⟩ := ih _ p h
            exact ⟨b, List.mem_cons_of_mem _ hb, hle⟩

end ActixModel.H2
