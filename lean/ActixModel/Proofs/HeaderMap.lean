import ActixModel.Model.HeaderMap
/-
Helper lemmas for C18 (HeaderMap).  Core only.
-/
namespace ActixModel.HeaderMap

set_option linter.unusedSectionVars false
variable {α β : Type} [DecidableEq α]

/-- keys unique, and no entry has an empty value list -/
def Inv (m : Entries α β) : Prop :=
  (m.map Prod.fst).Nodup ∧ ∀ e ∈ m, e.2 ≠ []

/-- abstraction: the multimap as a function from names to value lists -/
def abs (m : Entries α β) (k : α) : List β := (lookup k m).getD []

theorem lookup_none_iff {k : α} {m : Entries α β} : lookup k m = none ↔ k ∉ m.map Prod.fst := by
  induction m with
  | nil => simp [lookup]
  | cons e rest ih =>
    obtain ⟨n, vs⟩ := e
    by_cases h : n = k
    · simp [lookup, h]
    · have h' : ¬ k = n := fun e => h e.symm
      simp [lookup, h, h', ih]

theorem lookup_mem {k : α} {m : Entries α β} {vs : List β} (h : lookup k m = some vs) : (k, vs) ∈ m := by
  induction m with
  | nil => simp [lookup] at h
  | cons e rest ih =>
    obtain ⟨n, ws⟩ := e
    by_cases hn : n = k
    · simp [lookup, hn] at h; simp [hn, h]
    · simp [lookup, hn] at h; simp [ih h]

theorem lookup_put (k k' : α) (vs : List β) (m : Entries α β) :
    lookup k' (put k vs m) = if k' = k then some vs else lookup k' m := by
  induction m with
  | nil => simp [put, lookup]; split <;> simp_all [eq_comm]
  | cons e rest ih =>
    obtain ⟨n, ws⟩ := e
    by_cases hn : n = k
    · subst hn; simp [put, lookup]; split <;> simp_all [eq_comm]
    · simp [put, hn, lookup, ih]
      by_cases h2 : n = k'
      · subst h2; simp [hn]
      · simp [h2]

theorem keys_put (k : α) (vs : List β) (m : Entries α β) :
    (put k vs m).map Prod.fst = if k ∈ m.map Prod.fst then m.map Prod.fst else m.map Prod.fst ++ [k] := by
  induction m with
  | nil => simp [put]
  | cons e rest ih =>
    obtain ⟨n, ws⟩ := e
    by_cases hn : n = k
    · subst hn; simp [put]
    · have : ¬ k = n := fun h => hn h.symm
      simp [put, hn, ih, this]
      split <;> simp_all

theorem mem_put {k : α} {vs : List β} {m : Entries α β} {e : α × List β} (h : e ∈ put k vs m) :
    e = (k, vs) ∨ e ∈ m := by
  induction m with
  | nil => simp only [put, List.mem_singleton] at h; simp [h]
  | cons x rest ih =>
    obtain ⟨n, ws⟩ := x
    by_cases hn : n = k
    · subst hn; simp only [put, if_true, List.mem_cons] at h; rcases h with h | h
      · left; rw [h]
      · right; simp [h]
    · simp only [put, hn, if_false, List.mem_cons] at h; rcases h with h | h
      · right; simp [h]
      · rcases ih h with h | h
        · left; exact h
        · right; simp [h]

theorem inv_put {k : α} {vs : List β} {m : Entries α β} (hi : Inv m) (hv : vs ≠ []) : Inv (put k vs m) := by
  obtain ⟨hn, he⟩ := hi
  refine ⟨?_, ?_⟩
  · rw [keys_put]; split
    · exact hn
    · rename_i h
      exact List.nodup_append.mpr ⟨hn, by simp, by intro a ha b hb; simp at hb; subst hb; intro h'; subst h'; exact h ha⟩
  · intro e hmem
    rcases mem_put hmem with h | h
    · subst h; exact hv
    · exact he e h

theorem lookup_erase (k k' : α) (m : Entries α β) (hn : (m.map Prod.fst).Nodup) :
    lookup k' (erase k m) = if k' = k then none else lookup k' m := by
  induction m with
  | nil => simp [erase, lookup]
  | cons e rest ih =>
    obtain ⟨n, ws⟩ := e
    simp at hn
    obtain ⟨hnot, hrest⟩ := hn
    by_cases h1 : n = k
    · subst h1; simp [erase, lookup]
      split
      · rename_i h; subst h
        exact lookup_none_iff.mpr (by simpa using hnot)
      · rename_i h
        have h' : ¬ n = k' := fun e => h e.symm
        simp [h']
    · simp [erase, h1, lookup, ih hrest]
      by_cases h2 : n = k'
      · subst h2; simp [h1]
      · simp [h2]

theorem mem_erase {k : α} {m : Entries α β} {e : α × List β} (h : e ∈ erase k m) : e ∈ m := by
  induction m with
  | nil => simp [erase] at h
  | cons x rest ih =>
    obtain ⟨n, ws⟩ := x
    by_cases hn : n = k
    · simp [erase, hn] at h; simp [h]
    · simp [erase, hn] at h; rcases h with h | h
      · simp [h]
      · simp [ih h]

theorem keys_erase_sublist (k : α) (m : Entries α β) :
    ((erase k m).map Prod.fst).Sublist (m.map Prod.fst) := by
  induction m with
  | nil => simp [erase]
  | cons x rest ih =>
    obtain ⟨n, ws⟩ := x
    by_cases hn : n = k
    · simp [erase, hn]
    · simp [erase, hn]; exact ih

theorem inv_erase {k : α} {m : Entries α β} (hi : Inv m) : Inv (erase k m) :=
  ⟨hi.1.sublist (keys_erase_sublist k m), fun e h => hi.2 e (mem_erase h)⟩

theorem keys_retain_sublist (f : α → β → Bool) (m : Entries α β) :
    ((retain f m).map Prod.fst).Sublist (m.map Prod.fst) := by
  induction m with
  | nil => simp [retain]
  | cons x rest ih =>
    obtain ⟨n, ws⟩ := x
    simp only [retain]
    split
    · exact List.Sublist.cons _ ih
    · simp; exact ih

theorem mem_retain {f : α → β → Bool} {m : Entries α β} {e : α × List β} (h : e ∈ retain f m) : e.2 ≠ [] := by
  induction m with
  | nil => simp [retain] at h
  | cons x rest ih =>
    obtain ⟨n, ws⟩ := x
    simp only [retain] at h
    split at h
    · exact ih h
    · rename_i hne
      simp at h; rcases h with h | h
      · subst h; simpa using hne
      · exact ih h

theorem inv_retain (f : α → β → Bool) {m : Entries α β} (hi : Inv m) : Inv (retain f m) :=
  ⟨hi.1.sublist (keys_retain_sublist f m), fun _ h => mem_retain h⟩

theorem lookup_retain (f : α → β → Bool) (k : α) (m : Entries α β) (hn : (m.map Prod.fst).Nodup) :
    (lookup k (retain f m)).getD [] = ((lookup k m).getD []).filter (f k) := by
  induction m with
  | nil => simp [retain, lookup]
  | cons x rest ih =>
    obtain ⟨n, ws⟩ := x
    simp at hn
    obtain ⟨hnot, hrest⟩ := hn
    simp only [retain]
    by_cases h1 : n = k
    · subst h1
      have hnone : lookup n rest = none := lookup_none_iff.mpr (by simpa using hnot)
      split
      · rename_i he
        have : lookup n (retain f rest) = none := by
          apply lookup_none_iff.mpr
          intro hmem
          exact (by simpa using hnot : n ∉ rest.map Prod.fst) ((keys_retain_sublist f rest).subset hmem)
        simp [lookup, this]; simpa using he
      · simp [lookup]
    · split
      · simp [lookup, h1, ih hrest]
      · simp [lookup, h1, ih hrest]

theorem len_put_same_length {k : α} {vs ws : List β} {m : Entries α β}
    (hl : lookup k m = some vs) (hw : ws.length = vs.length) : len (put k ws m) = len m := by
  induction m with
  | nil => simp [lookup] at hl
  | cons e rest ih =>
    obtain ⟨n, us⟩ := e
    by_cases e : n = k
    · subst e
      simp only [lookup, if_true] at hl
      cases hl
      simp [put, len, hw]
    · simp only [lookup, e, if_false] at hl
      simp [put, e, len, ih hl]

theorem len_eq_sum_abs (m : Entries α β) (hn : (m.map Prod.fst).Nodup) :
    len m = ((m.map Prod.fst).map (fun k => (abs m k).length)).sum := by
  induction m with
  | nil => simp [len]
  | cons e rest ih =>
    obtain ⟨n, vs⟩ := e
    simp only [List.map_cons, List.nodup_cons] at hn
    have h1 : abs ((n, vs) :: rest) n = vs := by simp [abs, lookup]
    have h2 : ∀ k ∈ rest.map Prod.fst, abs ((n, vs) :: rest) k = abs rest k := by
      intro k hk
      have : n ≠ k := fun e => hn.1 (e ▸ hk)
      simp [abs, lookup, this]
    simp only [len, List.map_cons, List.sum_cons, h1, ih hn.2]
    congr 1
    exact congrArg List.sum (List.map_congr_left (fun k hk => by rw [h2 k hk]))

theorem len_eq_pairs (m : Entries α β) : len m = (pairs m).length := by
  induction m with
  | nil => simp [len, pairs]
  | cons x rest ih => obtain ⟨n, ws⟩ := x; simp [len, pairs, ih]

end ActixModel.HeaderMap

namespace ActixModel.HeaderMap
set_option linter.unusedSectionVars false
variable {α β : Type} [DecidableEq α]

/-! ### iterators -/

/-- the items an iterator state still has to yield -/
def Iter.rest (it : Iter α β) : List (α × β) :=
  (match it.multi with
    | some (n, vs) => (vs.drop it.idx).map (fun v => (n, v))
    | none => []) ++ pairs it.inner

/-- counter is exact and has never underflowed -/
def Iter.Good (it : Iter α β) : Prop := it.underflow = false ∧ it.remaining = it.rest.length

/-- expected size-hint trace for `n` remaining items: n, n-1, …, 0 and 0 again after `None` -/
def countdown : Nat → List Nat
  | 0 => [0, 0]
  | n + 1 => (n + 1) :: countdown n

theorem pull_spec (inner : Entries α β) (it : Iter α β) :
    (pairs inner = [] ∧ pull inner it = (none, { it with inner := [], multi := none, idx := 0 })) ∨
    (∃ x xs it', pairs inner = x :: xs ∧ pull inner it = (some x, decr it') ∧ it'.rest = xs ∧
      it'.remaining = it.remaining ∧ it'.underflow = it.underflow) := by
  induction inner with
  | nil => left; simp [pairs, pull]
  | cons e tl ih =>
    obtain ⟨n, vs⟩ := e
    cases vs with
    | nil => simpa [pairs, pull] using ih
    | cons v vs' =>
      right
      refine ⟨(n, v), vs'.map (fun w => (n, w)) ++ pairs tl,
        { it with inner := tl, multi := some (n, v :: vs'), idx := 1 }, ?_, ?_, ?_, rfl, rfl⟩
      · simp [pairs]
      · simp [pull]
      · simp [Iter.rest]

theorem decr_good {it : Iter α β} {x : α × β} {xs : List (α × β)}
    (hu : it.underflow = false) (hr : it.remaining = (x :: xs).length) (hrest : it.rest = xs) :
    (decr it).Good ∧ (decr it).rest = xs := by
  have hne : it.remaining ≠ 0 := by simp [hr]
  have hd : decr it = { it with remaining := it.remaining - 1 } := by simp [decr, hne]
  rw [hd]
  refine ⟨⟨hu, ?_⟩, hrest⟩
  show it.remaining - 1 = it.rest.length
  rw [hrest, hr]; simp

theorem iterNext_spec (it : Iter α β) (hg : it.Good) :
    (it.rest = [] ∧ (iterNext it).1 = none ∧ (iterNext it).2.Good ∧ (iterNext it).2.rest = []) ∨
    (∃ x xs, it.rest = x :: xs ∧ (iterNext it).1 = some x ∧ (iterNext it).2.Good ∧ (iterNext it).2.rest = xs) := by
  obtain ⟨hu, hr⟩ := hg
  -- both "no list in progress" and "list exhausted" fall through to `pull`
  have viaPull : iterNext it = pull it.inner it → it.rest = pairs it.inner →
      (it.rest = [] ∧ (iterNext it).1 = none ∧ (iterNext it).2.Good ∧ (iterNext it).2.rest = []) ∨
      (∃ x xs, it.rest = x :: xs ∧ (iterNext it).1 = some x ∧ (iterNext it).2.Good ∧ (iterNext it).2.rest = xs) := by
    intro hn hrest
    rcases pull_spec it.inner it with ⟨hp, he⟩ | ⟨x, xs, it', hp, he, h1, h2, h3⟩
    · left
      rw [hn, he]
      refine ⟨by rw [hrest, hp], rfl, ⟨hu, ?_⟩, by simp [Iter.rest, pairs]⟩
      show it.remaining = _
      rw [hr, hrest, hp]; simp [Iter.rest, pairs]
    · right
      refine ⟨x, xs, by rw [hrest, hp], ?_⟩
      rw [hn, he]
      have := decr_good (it := it') (x := x) (xs := xs) (by rw [h3, hu]) (by rw [h2, hr, hrest, hp]) h1
      exact ⟨rfl, this.1, this.2⟩
  cases hm : it.multi with
  | none =>
    exact viaPull (by simp [iterNext, hm]) (by simp [Iter.rest, hm])
  | some p =>
    obtain ⟨n, vs⟩ := p
    cases hv : vs[it.idx]? with
    | some v =>
      right
      have hlt : it.idx < vs.length := by
        rcases Nat.lt_or_ge it.idx vs.length with h | h
        · exact h
        · simp [List.getElem?_eq_none h] at hv
      have hdrop : vs.drop it.idx = v :: vs.drop (it.idx + 1) := by
        rw [List.drop_eq_getElem_cons hlt]
        simp [List.getElem?_eq_getElem hlt] at hv
        rw [hv]
      have hn : iterNext it = (some (n, v), decr { it with idx := it.idx + 1 }) := by
        simp [iterNext, hm, hv]
      have hrest : it.rest = (n, v) :: ((vs.drop (it.idx + 1)).map (fun w => (n, w)) ++ pairs it.inner) := by
        simp [Iter.rest, hm, hdrop]
      refine ⟨(n, v), (vs.drop (it.idx + 1)).map (fun w => (n, w)) ++ pairs it.inner, hrest, ?_⟩
      rw [hn]
      have := decr_good (it := { it with idx := it.idx + 1 }) (x := (n, v))
        (xs := (vs.drop (it.idx + 1)).map (fun w => (n, w)) ++ pairs it.inner)
        hu (by show it.remaining = _; rw [hr, hrest]) (by simp [Iter.rest, hm])
      exact ⟨rfl, this.1, this.2⟩
    | none =>
      have hge : vs.length ≤ it.idx := by
        rcases Nat.lt_or_ge it.idx vs.length with h | h
        · simp [List.getElem?_eq_getElem h] at hv
        · exact h
      exact viaPull (by simp [iterNext, hm, hv]) (by simp [Iter.rest, hm, List.drop_eq_nil_of_le hge])

theorem iterRun_spec (fuel : Nat) (it : Iter α β) (hg : it.Good) (hf : it.rest.length < fuel) :
    iterRun fuel it = (it.rest, countdown it.rest.length, false) := by
  induction fuel generalizing it with
  | zero => omega
  | succ f ih =>
    rcases iterNext_spec it hg with ⟨h0, h1, h2, h3⟩ | ⟨x, xs, h0, h1, h2, h3⟩
    · have e : iterNext it = (none, (iterNext it).2) := by rw [← h1]
      rw [iterRun, e]
      simp [h0, countdown, hg.2, h2.2, h3, h2.1]
    · have e : iterNext it = (some x, (iterNext it).2) := by rw [← h1]
      rw [iterRun, e]
      have hlen : (iterNext it).2.rest.length < f := by rw [h3]; rw [h0] at hf; simpa using hf
      simp [ih _ h2 hlen, h3, h0, countdown, hg.2]

theorem iter_good (m : Entries α β) : (iter m).Good := by
  simp [iter, iterNew, Iter.Good, Iter.rest, len_eq_pairs]

end ActixModel.HeaderMap

namespace ActixModel.HeaderMap
set_option linter.unusedSectionVars false
variable {α β : Type} [DecidableEq α]

/-! ### drain -/

/-- what `Drain` is specified to yield: per entry, the name with the first value only -/
def drainItems : Entries α β → List (Option α × β)
  | [] => []
  | (_, []) :: rest => drainItems rest
  | (n, v :: vs) :: rest => (some n, v) :: (vs.map (fun w => (none, w)) ++ drainItems rest)

def Drain.rest (d : Drain α β) : List (Option α × β) :=
  (match d.multi with
    | some (_, vs) => vs.map (fun w => (none, w))
    | none => []) ++ drainItems d.inner

def Drain.Good (d : Drain α β) : Prop :=
  d.underflow = false ∧ d.remaining = d.rest.length ∧ ∀ nm vs, d.multi = some (nm, vs) → nm = none

theorem drainDecr_good {d : Drain α β} {x : Option α × β} {xs : List (Option α × β)}
    (hu : d.underflow = false) (hr : d.remaining = (x :: xs).length) (hrest : d.rest = xs)
    (hm : ∀ nm vs, d.multi = some (nm, vs) → nm = none) :
    (drainDecr d).Good ∧ (drainDecr d).rest = xs := by
  have hne : d.remaining ≠ 0 := by simp [hr]
  have hd : drainDecr d = { d with remaining := d.remaining - 1 } := by simp [drainDecr, hne]
  rw [hd]
  refine ⟨⟨hu, ?_, hm⟩, hrest⟩
  show d.remaining - 1 = d.rest.length
  rw [hrest, hr]; simp

theorem drainPull_spec (inner : Entries α β) (d : Drain α β) :
    (drainItems inner = [] ∧ drainPull inner d = (none, { d with inner := [], multi := none })) ∨
    (∃ x xs d', drainItems inner = x :: xs ∧ drainPull inner d = (some x, drainDecr d') ∧ d'.rest = xs ∧
      d'.remaining = d.remaining ∧ d'.underflow = d.underflow ∧ (∀ nm vs, d'.multi = some (nm, vs) → nm = none)) := by
  induction inner with
  | nil => left; simp [drainItems, drainPull]
  | cons e tl ih =>
    obtain ⟨n, vs⟩ := e
    cases vs with
    | nil => simpa [drainItems, drainPull] using ih
    | cons v vs' =>
      right
      refine ⟨(some n, v), vs'.map (fun w => (none, w)) ++ drainItems tl,
        { d with inner := tl, multi := some (none, vs') }, ?_, ?_, ?_, rfl, rfl, ?_⟩
      · simp [drainItems]
      · simp [drainPull]
      · simp [Drain.rest]
      · intro nm ws h; simp at h; exact h.1.symm

theorem drainNext_spec (d : Drain α β) (hg : d.Good) :
    (d.rest = [] ∧ (drainNext d).1 = none ∧ (drainNext d).2.Good ∧ (drainNext d).2.rest = []) ∨
    (∃ x xs, d.rest = x :: xs ∧ (drainNext d).1 = some x ∧ (drainNext d).2.Good ∧ (drainNext d).2.rest = xs) := by
  obtain ⟨hu, hr, hnm⟩ := hg
  have viaPull : drainNext d = drainPull d.inner d → d.rest = drainItems d.inner →
      (d.rest = [] ∧ (drainNext d).1 = none ∧ (drainNext d).2.Good ∧ (drainNext d).2.rest = []) ∨
      (∃ x xs, d.rest = x :: xs ∧ (drainNext d).1 = some x ∧ (drainNext d).2.Good ∧ (drainNext d).2.rest = xs) := by
    intro hn hrest
    rcases drainPull_spec d.inner d with ⟨hp, he⟩ | ⟨x, xs, d', hp, he, h1, h2, h3, h4⟩
    · left
      rw [hn, he]
      refine ⟨by rw [hrest, hp], rfl, ⟨hu, ?_, by intro nm vs h; simp at h⟩, by simp [Drain.rest, drainItems]⟩
      show d.remaining = _
      rw [hr, hrest, hp]; simp [Drain.rest, drainItems]
    · right
      refine ⟨x, xs, by rw [hrest, hp], ?_⟩
      rw [hn, he]
      have := drainDecr_good (d := d') (x := x) (xs := xs) (by rw [h3, hu]) (by rw [h2, hr, hrest, hp]) h1 h4
      exact ⟨rfl, this.1, this.2⟩
  cases hm : d.multi with
  | none => exact viaPull (by simp [drainNext, hm]) (by simp [Drain.rest, hm])
  | some p =>
    obtain ⟨nm, vs⟩ := p
    have hnone : nm = none := hnm nm vs hm
    subst hnone
    cases vs with
    | nil => exact viaPull (by simp [drainNext, hm]) (by simp [Drain.rest, hm])
    | cons v vs' =>
      right
      have hn : drainNext d = (some (none, v), drainDecr { d with multi := some (none, vs') }) := by
        simp [drainNext, hm]
      have hrest : d.rest = (none, v) :: (vs'.map (fun w => (none, w)) ++ drainItems d.inner) := by
        simp [Drain.rest, hm]
      refine ⟨(none, v), vs'.map (fun w => (none, w)) ++ drainItems d.inner, hrest, ?_⟩
      rw [hn]
      have := drainDecr_good (d := { d with multi := some (none, vs') }) (x := (none, v))
        (xs := vs'.map (fun w => (none, w)) ++ drainItems d.inner)
        hu (by show d.remaining = _; rw [hr, hrest]) (by simp [Drain.rest])
        (by intro nm ws h; simp at h; exact h.1.symm)
      exact ⟨rfl, this.1, this.2⟩

theorem drainRun_spec (fuel : Nat) (d : Drain α β) (hg : d.Good) (hf : d.rest.length < fuel) :
    drainRun fuel d = (d.rest, countdown d.rest.length, false) := by
  induction fuel generalizing d with
  | zero => omega
  | succ f ih =>
    rcases drainNext_spec d hg with ⟨h0, h1, h2, h3⟩ | ⟨x, xs, h0, h1, h2, h3⟩
    · have e : drainNext d = (none, (drainNext d).2) := by rw [← h1]
      rw [drainRun, e]
      simp [h0, countdown, hg.2.1, h2.2.1, h3, h2.1]
    · have e : drainNext d = (some x, (drainNext d).2) := by rw [← h1]
      rw [drainRun, e]
      have hlen : (drainNext d).2.rest.length < f := by rw [h3]; rw [h0] at hf; simpa using hf
      simp [ih _ h2 hlen, h3, h0, countdown, hg.2.1]

theorem drainItems_length (m : Entries α β) : (drainItems m).length = len m := by
  induction m with
  | nil => simp [drainItems, len]
  | cons e tl ih =>
    obtain ⟨n, vs⟩ := e
    cases vs with
    | nil => simp [drainItems, len, ih]
    | cons v vs' => simp [drainItems, len, ih]; omega

theorem drain_good (m : Entries α β) : (drain m).2.Good := by
  refine ⟨rfl, ?_, by intro nm vs h; simp [drain] at h⟩
  simp [drain, Drain.rest, drainItems_length]

/-! ### conversions: `from_drain`, `FromIterator` -/

theorem abs_append (m : Entries α β) (k k' : α) (v : β) :
    abs (append m k v) k' = if k' = k then abs m k ++ [v] else abs m k' := by
  unfold append abs
  cases h : lookup k m with
  | some vs => simp only [lookup_put]; split <;> simp_all
  | none => simp only [lookup_put]; split <;> simp_all

theorem abs_foldl_append (ps : List (α × β)) (m0 : Entries α β) (k : α) :
    abs (ps.foldl (fun m p => append m p.1 p.2) m0) k =
      abs m0 k ++ (ps.filter (fun p => p.1 = k)).map Prod.snd := by
  induction ps generalizing m0 with
  | nil => simp
  | cons p tl ih =>
    simp only [List.foldl_cons, ih, abs_append]
    by_cases h : p.1 = k
    · simp [h]
    · have h' : ¬ k = p.1 := fun e => h e.symm
      simp [h, h']

theorem abs_fromPairs (ps : List (α × β)) (k : α) :
    abs (fromPairs ps) k = (ps.filter (fun p => p.1 = k)).map Prod.snd := by
  unfold fromPairs
  rw [abs_foldl_append]
  simp [abs, lookup]

theorem filter_pairs_absent {k : α} {m : Entries α β} (h : k ∉ m.map Prod.fst) :
    (pairs m).filter (fun p => p.1 = k) = [] := by
  induction m with
  | nil => simp [pairs]
  | cons e tl ih =>
    obtain ⟨n, vs⟩ := e
    simp at h
    have hn : ¬ n = k := fun e => h.1 e.symm
    have ih' := ih (by simpa using h.2)
    have hvs : (vs.map (fun v => (n, v))).filter (fun p => p.1 = k) = [] := by
      simp [List.filter_eq_nil_iff, hn]
    rw [pairs, List.filter_append, hvs, ih']; rfl

theorem filter_pairs (m : Entries α β) (k : α) (hn : (m.map Prod.fst).Nodup) :
    ((pairs m).filter (fun p => p.1 = k)).map Prod.snd = abs m k := by
  induction m with
  | nil => simp [pairs, abs, lookup]
  | cons e tl ih =>
    obtain ⟨n, vs⟩ := e
    simp at hn
    by_cases h : n = k
    · subst h
      have : (pairs tl).filter (fun p => p.1 = n) = [] := filter_pairs_absent (by simpa using hn.1)
      simp [pairs, List.filter_append, this, abs, lookup, List.filter_map, Function.comp_def]
    · have ih' := ih hn.2
      have hvs : (vs.map (fun v => (n, v))).filter (fun p => p.1 = k) = [] := by
        simp [List.filter_eq_nil_iff, h]
      rw [pairs, List.filter_append, hvs]
      simp only [List.nil_append, ih']
      simp [abs, lookup, h]

/-- resolve `Drain`'s continuation rule: `(None, v)` belongs to the previous name -/
def resolve (prev : α) : List (Option α × β) → List (α × β)
  | [] => []
  | (o, v) :: r => (o.getD prev, v) :: resolve (o.getD prev) r

theorem resolve_nones (prev : α) (vs : List β) (tl : List (Option α × β)) :
    resolve prev (vs.map (fun w => (none, w)) ++ tl) = vs.map (fun w => (prev, w)) ++ resolve prev tl := by
  induction vs with
  | nil => simp
  | cons v vs ih => simp [resolve, ih]

theorem resolve_drainItems (prev : α) (m : Entries α β) : resolve prev (drainItems m) = pairs m := by
  induction m generalizing prev with
  | nil => simp [drainItems, resolve, pairs]
  | cons e tl ih =>
    obtain ⟨n, vs⟩ := e
    cases vs with
    | nil => simp [drainItems, pairs, ih]
    | cons v vs' => simp [drainItems, resolve, pairs, resolve_nones, ih]

theorem foldl_fromDrain_step (xs : List (Option α × β)) (m0 : Entries α β) (prev : α) :
    (xs.foldl (fun (acc : Entries α β × α) (x : Option α × β) =>
        (append acc.1 (x.1.getD acc.2) x.2, x.1.getD acc.2)) (m0, prev)).1 =
      (resolve prev xs).foldl (fun m p => append m p.1 p.2) m0 := by
  induction xs generalizing m0 prev with
  | nil => simp [resolve]
  | cons x tl ih => obtain ⟨o, v⟩ := x; simp [resolve, ih]

theorem fromDrain_drainItems (m : Entries α β) :
    ∃ m', fromDrain (drainItems m) = some m' ∧ ∀ k, abs m' k = ((pairs m).filter (fun p => p.1 = k)).map Prod.snd := by
  induction m with
  | nil => exact ⟨[], by simp [drainItems, fromDrain], by intro k; simp [pairs, abs, lookup]⟩
  | cons e tl ih =>
    obtain ⟨n, vs⟩ := e
    cases vs with
    | nil => simpa [drainItems, pairs] using ih
    | cons v vs' =>
      refine ⟨_, by simp only [drainItems, fromDrain]; rfl, ?_⟩
      intro k
      rw [foldl_fromDrain_step, abs_foldl_append, abs_append, resolve_nones, resolve_drainItems]
      by_cases h : k = n
      · subst h; simp [pairs, abs, lookup, List.filter_append, List.filter_map, Function.comp_def]
      · have h' : ¬ n = k := fun e => h e.symm
        simp [pairs, abs, lookup, List.filter_append, h, h']

end ActixModel.HeaderMap
