import ActixModel.Model.Multipart
/-
Helper lemmas for `Props/C15.lean` (core Lean only).
-/
namespace ActixModel.Multipart
open ActixModel.Util

/-! ### 1. the parser buffer never exceeds its limit -/

/-- `pb'` differs from `pb` only by having consumed bytes from the buffer -/
structure Shrinks (pb' pb : PB) : Prop where
  limit : pb'.limit = pb.limit
  buf : pb'.buf.length ≤ pb.buf.length
  pending : pb'.pending = pb.pending
  script : pb'.script = pb.script
  eof : pb'.eof = pb.eof

/-- invariant of the payload buffer: within the limit; a kept-back rest is never empty -/
structure PBInv (pb : PB) : Prop where
  bound : pb.buf.length ≤ pb.limit
  pend : ∀ d, pb.pending = some d → d ≠ []

theorem appendPending_inv {pb pb' : PB} {a : Bool} (h : appendPending pb = .ok (pb', a))
    (hi : PBInv pb) : PBInv pb' ∧ pb'.limit = pb.limit ∧ pb'.script = pb.script ∧ pb'.eof = pb.eof := by
  unfold appendPending at h
  split at h
  · cases h; exact ⟨hi, rfl, rfl, rfl⟩
  · rename_i data hp
    split at h
    · cases h
      exact ⟨⟨hi.bound, by simp⟩, rfl, rfl, rfl⟩
    · split at h
      · cases h
      · rename_i hne hlt
        dsimp only at h
        split at h
        · rename_i hlen
          cases h
          refine ⟨⟨?_, by simp⟩, rfl, rfl, rfl⟩
          simp only [List.length_append]
          simp at hlen hlt
          omega
        · rename_i hlen
          cases h
          refine ⟨⟨?_, ?_⟩, rfl, rfl, rfl⟩
          · simp only [List.length_append, List.length_take]
            simp at hlt
            omega
          · intro d hd
            simp at hd hlen hlt
            subst hd
            intro hnil
            have := congrArg List.length hnil
            simp at this
            omega


theorem appendPending_err_pending {pb : PB} {e : Err} (h : appendPending pb = .error e) :
    ∃ d, pb.pending = some d ∧ d ≠ [] := by
  unfold appendPending at h
  split at h
  · cases h
  · rename_i data hp
    split at h
    · cases h
    · rename_i hne
      exact ⟨data, hp, by intro hd; simp [hd] at hne⟩

/-- what one `poll_stream` leaves behind, success or error -/
theorem pollLoop_inv (cfg : Cfg) : ∀ (n : Nat) (pb : PB) (app : Bool), PBInv pb →
    (∀ pb' w, pollLoop cfg n pb app = .ok (pb', w) → PBInv pb' ∧ pb'.limit = pb.limit) ∧
    (∀ e pb', pollLoop cfg n pb app = .error (e, pb') → PBInv pb' ∧ pb'.limit = pb.limit) := by
  intro n
  induction n with
  | zero =>
    intro pb app hi
    constructor
    · intro pb' w h; simp [pollLoop] at h; obtain ⟨rfl, _⟩ := h; exact ⟨hi, rfl⟩
    · intro e pb' h; simp [pollLoop] at h
  | succ n ih =>
    intro pb app hi
    have tail : ∀ (pb1 : PB) (app2 : Bool), PBInv pb1 → pb1.limit = pb.limit →
        (∀ pb' w, (if mustStop pb1 = true then Except.ok (pb1, app2) else pollLoop cfg n pb1 app2)
            = .ok (pb', w) → PBInv pb' ∧ pb'.limit = pb.limit) ∧
        (∀ e pb', (if mustStop pb1 = true then Except.ok (pb1, app2) else pollLoop cfg n pb1 app2)
            = .error (e, pb') → PBInv pb' ∧ pb'.limit = pb.limit) := by
      intro pb1 app2 hi1 hl1
      split
      · constructor
        · intro pb' w h; cases h; exact ⟨hi1, hl1⟩
        · intro e pb' h; cases h
      · have := ih pb1 app2 hi1
        constructor
        · intro pb' w h; obtain ⟨h2, h3⟩ := this.1 pb' w h; exact ⟨h2, h3.trans hl1⟩
        · intro e pb' h; obtain ⟨h2, h3⟩ := this.2 e pb' h; exact ⟨h2, h3.trans hl1⟩
    unfold pollLoop
    split
    · -- a rest is pending
      split
      · rename_i e he
        constructor
        · intro pb' w h; cases h
        · intro e' pb' h; cases h; exact ⟨hi, rfl⟩
      · rename_i pb1 a h1
        obtain ⟨hi1, hl1, _, _⟩ := appendPending_inv h1 hi
        exact tail pb1 _ hi1 hl1
    · rename_i hnone
      split
      · constructor
        · intro pb' w h; cases h; exact ⟨⟨hi.bound, hi.pend⟩, rfl⟩
        · intro e pb' h; cases h
      · rename_i d rest hs
        split
        · rename_i e he
          constructor
          · intro pb' w h; cases h
          · intro e' pb' h
            cases h
            obtain ⟨d', hd', hne⟩ := appendPending_err_pending he
            refine ⟨⟨hi.bound, ?_⟩, rfl⟩
            intro d2 hd2
            simp at hd' hd2
            subst hd2; subst hd'; exact hne
        · rename_i pb1 a h1
          by_cases hd : d = []
          · -- empty chunk: nothing changes
            have hi0 : PBInv { pb with script := rest, pending := none } := ⟨hi.bound, by simp⟩
            have : pb1 = { pb with script := rest, pending := none } := by
              subst hd; simp [appendPending] at h1; exact h1.1.symm
            subst this
            exact tail _ _ hi0 rfl
          · have hi0 : PBInv { pb with script := rest, pending := some d } :=
              ⟨hi.bound, by intro d2 hd2; simp at hd2; subst hd2; exact hd⟩
            obtain ⟨hi1, hl1, _, _⟩ := appendPending_inv h1 hi0
            exact tail pb1 _ hi1 hl1
      · constructor
        · intro pb' w h; cases h
        · intro e pb' h; cases h; exact ⟨⟨hi.bound, hi.pend⟩, rfl⟩
      · constructor
        · intro pb' w h; cases h; exact ⟨⟨hi.bound, hi.pend⟩, rfl⟩
        · intro e pb' h; cases h


/-! buffer consumers only shorten the buffer -/

theorem readUntil_len {needle buf : Bytes} {eof : Bool} {c r : Bytes}
    (h : readUntil needle buf eof = .ok (some (c, r))) : r.length ≤ buf.length ∧ c ++ r = buf := by
  unfold readUntil at h
  split at h
  · split at h <;> cases h
  · cases h; simp

theorem fieldTail_len (f : IField) (buf : Bytes) (peof : Bool) :
    (fieldTail f buf peof).2.1.length ≤ buf.length := by
  unfold fieldTail readline
  split
  · simp
  · rename_i c r h; simp; exact (readUntil_len h).1
  · simp

theorem readLen_len (buf : Bytes) (eof : Bool) (size : Nat) :
    (readLen buf eof size).2.1.length ≤ buf.length := by
  unfold readLen readMax
  split
  · simp
  · split
    · simp
    · rename_i c r h
      split at h
      · simp at h; obtain ⟨rfl, rfl⟩ := h; simp
      · split at h <;> cases h
    · split <;> simp

theorem fieldPoll_len (cfg : Cfg) (b : Bytes) (f : IField) (buf : Bytes) (peof : Bool) :
    (fieldPoll cfg b f buf peof).2.1.length ≤ buf.length := by
  unfold fieldPoll
  split
  · simp
  · split
    · split
      · rename_i len _
        have := readLen_len buf peof len
        split
        · simp
        · rename_i h; rw [h] at this; simpa using this
        · simp
        · exact fieldTail_len _ _ _
      · split
        · simp
        · simp
        · simp
        · exact fieldTail_len _ _ _
    · exact fieldTail_len _ _ _


theorem Shrinks.refl (pb : PB) : Shrinks pb pb := ⟨rfl, Nat.le_refl _, rfl, rfl, rfl⟩

theorem Shrinks.trans {a b c : PB} (h1 : Shrinks a b) (h2 : Shrinks b c) : Shrinks a c :=
  ⟨h1.limit.trans h2.limit, Nat.le_trans h1.buf h2.buf, h1.pending.trans h2.pending,
   h1.script.trans h2.script, h1.eof.trans h2.eof⟩

theorem Shrinks.setBuf (pb : PB) {b : Bytes} (h : b.length ≤ pb.buf.length) :
    Shrinks { pb with buf := b } pb := ⟨rfl, h, rfl, rfl, rfl⟩

theorem Shrinks.inv {a b : PB} (h : Shrinks a b) (hi : PBInv b) : PBInv a :=
  ⟨by have := h.buf; have := h.limit; have := hi.bound; omega, by rw [h.pending]; exact hi.pend⟩

theorem skipUntilBoundary_len (b : Bytes) : ∀ (fuel : Nat) (buf : Bytes) (eof : Bool),
    (skipUntilBoundary b fuel buf eof).2.length ≤ buf.length := by
  intro fuel
  induction fuel with
  | zero => intro buf eof; simp [skipUntilBoundary]
  | succ n ih =>
    intro buf eof
    unfold skipUntilBoundary
    split
    · simp
    · unfold readline
      split
      · simp
      · simp
      · rename_i c r h
        have hr := (readUntil_len h).1
        have := ih r eof
        split
        · simpa using hr
        · split
          · omega
          · split
            · omega
            · split
              · simpa using hr
              · split
                · simpa using hr
                · omega

theorem readBoundary_len (b buf : Bytes) (eof : Bool) :
    (readBoundary b buf eof).2.length ≤ buf.length := by
  unfold readBoundary
  split
  · simp
  · have key : ∀ c r, readlineOrEof buf eof = .ok (some (c, r)) → r.length ≤ buf.length := by
      intro c r h
      unfold readlineOrEof readline at h
      split at h
      · split at h
        · cases h; simp
        · cases h
      · exact (readUntil_len h).1
    split
    · simp
    · simp
    · rename_i c r h
      have := key c r h
      split
      · simpa using this
      · split
        · simpa using this
        · split
          · simpa using this
          · split <;> simpa using this

theorem readFieldHeaders_len {cfg : Cfg} {buf : Bytes} {eof : Bool} {hs : List (Bytes × Bytes)}
    {r : Bytes} (h : readFieldHeaders cfg buf eof = .ok (some (hs, r))) : r.length ≤ buf.length := by
  unfold readFieldHeaders at h
  split at h
  · cases h; simp
  · split at h
    · cases h
    · split at h <;> cases h
    · rename_i c r' hu
      split at h
      · cases h; exact (readUntil_len hu).1
      · cases h
      · cases h

theorem releaseLoop_len (cfg : Cfg) (b : Bytes) (peof : Bool) : ∀ (fuel : Nat) (f : IField) (buf : Bytes),
    (∀ f' buf', releaseLoop cfg b peof fuel f buf = .pending f' buf' → buf'.length ≤ buf.length) ∧
    (∀ buf', releaseLoop cfg b peof fuel f buf = .released buf' → buf'.length ≤ buf.length) := by
  intro fuel
  induction fuel with
  | zero => intro f buf; simp [releaseLoop]
  | succ n ih =>
    intro f buf
    unfold releaseLoop
    have hl := fieldPoll_len cfg b f buf peof
    split
    · rename_i f1 b1 h; rw [h] at hl
      constructor
      · intro f' buf' h2; cases h2; simpa using hl
      · intro buf' h2; cases h2
    · rename_i f1 b1 _ h; rw [h] at hl
      have := ih f1 b1
      simp at hl
      constructor
      · intro f' buf' h2; exact Nat.le_trans (this.1 f' buf' h2) hl
      · intro buf' h2; exact Nat.le_trans (this.2 buf' h2) hl
    · constructor
      · intro f' buf' h2; cases h2
      · intro buf' h2; cases h2
    · rename_i b1 h; rw [h] at hl
      constructor
      · intro f' buf' h2; cases h2
      · intro buf' h2; cases h2; simpa using hl

theorem mkField_shrinks (i : Inner) (buf : Bytes) (hs : List (Bytes × Bytes))
    (h : buf.length ≤ i.pb.buf.length) : Shrinks (mkField i buf hs).1.pb i.pb := by
  have h0 : Shrinks { i.pb with buf := buf } i.pb := Shrinks.setBuf _ h
  unfold mkField
  dsimp only
  split <;> exact h0

theorem innerHeaders_shrinks (cfg : Cfg) (i : Inner) (buf : Bytes)
    (hb : buf.length ≤ i.pb.buf.length) : Shrinks (innerHeaders cfg i buf).1.pb i.pb := by
  unfold innerHeaders
  split
  · exact Shrinks.setBuf _ hb
  · exact Shrinks.setBuf _ hb
  · rename_i hs buf' h
    have := readFieldHeaders_len h
    exact mkField_shrinks i buf' hs (by omega)

theorem afterBoundary_shrinks (cfg : Cfg) (i : Inner) (r : Except Err (Option Bool) × Bytes)
    (hb : r.2.length ≤ i.pb.buf.length) : Shrinks (afterBoundary cfg i r).1.pb i.pb := by
  unfold afterBoundary
  split
  · exact Shrinks.setBuf _ hb
  · exact Shrinks.setBuf _ hb
  · exact Shrinks.setBuf _ hb
  · exact innerHeaders_shrinks cfg { i with state := .headers } _ hb

theorem innerStates_shrinks (cfg : Cfg) (i : Inner) : Shrinks (innerStates cfg i).1.pb i.pb := by
  unfold innerStates
  split
  · exact afterBoundary_shrinks cfg i _ (skipUntilBoundary_len _ _ _ _)
  · exact afterBoundary_shrinks cfg i _ (readBoundary_len _ _ _)
  · exact innerHeaders_shrinks cfg i _ (Nat.le_refl _)

theorem innerPoll_shrinks (cfg : Cfg) (i : Inner) : Shrinks (innerPoll cfg i).1.pb i.pb := by
  unfold innerPoll
  split
  · exact Shrinks.refl _
  · split
    · rename_i f hf
      have hl := releaseLoop_len cfg i.boundary i.pb.eof (i.pb.buf.length + 2) f i.pb.buf
      split
      · rename_i f' b' h; exact Shrinks.setBuf _ (hl.1 f' b' h)
      · exact Shrinks.refl _
      · rename_i b' h
        have h1 : Shrinks ({ i with item := none, pb := { i.pb with buf := b' } } : Inner).pb i.pb :=
          Shrinks.setBuf _ (hl.2 b' h)
        exact (innerStates_shrinks cfg _).trans h1
    · exact innerStates_shrinks cfg i

/-- state invariant of the whole system -/
def SysInv (s : Sys) : Prop := PBInv s.inner.pb

theorem pollStream_inv {cfg : Cfg} {pb : PB} (hi : PBInv pb) :
    (∀ pb' w, pollStream cfg pb = .ok (pb', w) → PBInv pb' ∧ pb'.limit = pb.limit) ∧
    (∀ e pb', pollStream cfg pb = .error (e, pb') → PBInv pb' ∧ pb'.limit = pb.limit) := by
  unfold pollStream
  split
  · constructor
    · intro pb' w h; cases h
    · intro e pb' h; cases h; exact ⟨hi, rfl⟩
  · exact pollLoop_inv cfg _ pb false hi

theorem step_inv (cfg : Cfg) (s : Sys) (hi : SysInv s) :
    SysInv (step cfg s) ∧ (step cfg s).inner.pb.limit = s.inner.pb.limit := by
  unfold step
  split
  · -- at the multipart
    have hp := pollStream_inv (cfg := cfg) hi
    split
    · rename_i e pb' h
      exact hp.2 e pb' h
    · rename_i pb' w h
      obtain ⟨hi', hl'⟩ := hp.1 pb' w h
      have hs := innerPoll_shrinks cfg { s.inner with pb := pb' }
      dsimp only
      split
      · rename_i i' hq; rw [hq] at hs
        unfold Sys.onPending
        split
        · exact ⟨hs.inv hi', hs.limit.trans hl'⟩
        · exact ⟨hs.inv hi', hs.limit.trans hl'⟩
      · rename_i i' hq; rw [hq] at hs; exact ⟨hs.inv hi', hs.limit.trans hl'⟩
      · rename_i i' e hq; rw [hq] at hs; exact ⟨hs.inv hi', hs.limit.trans hl'⟩
      · rename_i i' info hq; rw [hq] at hs; exact ⟨hs.inv hi', hs.limit.trans hl'⟩
  · rename_i left
    split
    · exact ⟨hi, rfl⟩
    · have hp := pollStream_inv (cfg := cfg) hi
      split
      · rename_i e pb' h
        exact hp.2 e pb' h
      · rename_i pb' w h
        obtain ⟨hi', hl'⟩ := hp.1 pb' w h
        dsimp only
        split
        · exact ⟨hi, rfl⟩
        · rename_i f hf
          have hlen := fieldPoll_len cfg s.inner.boundary f pb'.buf pb'.eof
          have hs : ∀ b' : Bytes, b'.length ≤ pb'.buf.length → PBInv { pb' with buf := b' } :=
            fun b' hb => (Shrinks.setBuf pb' hb).inv hi'
          split
          · rename_i f' b' hq; rw [hq] at hlen
            unfold Sys.onPending
            split
            · exact ⟨hs b' (by simpa using hlen), hl'⟩
            · exact ⟨hs b' (by simpa using hlen), hl'⟩
          · rename_i f' b' hq; rw [hq] at hlen; exact ⟨hs b' (by simpa using hlen), hl'⟩
          · rename_i f' b' bs hq; rw [hq] at hlen; exact ⟨hs b' (by simpa using hlen), hl'⟩
          · rename_i f' b' e hq; rw [hq] at hlen; exact ⟨hs b' (by simpa using hlen), hl'⟩

theorem run_inv (cfg : Cfg) : ∀ (fuel : Nat) (s : Sys), SysInv s →
    SysInv (run cfg fuel s) ∧ (run cfg fuel s).inner.pb.limit = s.inner.pb.limit := by
  intro fuel
  induction fuel with
  | zero => intro s hi; exact ⟨hi, rfl⟩
  | succ n ih =>
    intro s hi
    unfold run
    split
    · exact ⟨hi, rfl⟩
    · obtain ⟨h1, h2⟩ := step_inv cfg s hi
      obtain ⟨h3, h4⟩ := ih (step cfg s) h1
      exact ⟨h3, h4.trans h2⟩


/-! ### 2. no lost wake-up: `Pending` is only returned with a wake-up scheduled -/

theorem appendPending_appended {pb pb' : PB} {a : Bool} (h : appendPending pb = .ok (pb', a))
    {d : Bytes} (hp : pb.pending = some d) (hne : d ≠ []) : a = true := by
  unfold appendPending at h
  split at h
  · rename_i hn; rw [hp] at hn; cases hn
  · rename_i data hp'
    have : data = d := by rw [hp] at hp'; cases hp'; rfl
    subst this
    have hd : 0 < data.length := by cases data with | nil => exact absurd rfl hne | cons _ _ => simp
    split at h
    · rename_i he; cases data with | nil => exact absurd rfl hne | cons _ _ => simp at he
    · split at h
      · cases h
      · rename_i hlt
        dsimp only at h
        simp at hlt
        split at h
        · cases h; exact bne_iff_ne.mpr (by omega)
        · cases h; exact bne_iff_ne.mpr (by omega)

/-- with F15: a `poll_stream` that comes back without a wake-up has seen the end of the stream -/
theorem pollLoop_wake (cfg : Cfg) (h15 : cfg.f15 = true) : ∀ (n : Nat) (pb : PB) (app : Bool), PBInv pb →
    ∀ pb' w, pollLoop cfg n pb app = .ok (pb', w) → w = false →
      pb'.eof = true ∨ (n = 0 ∧ app = false) := by
  intro n
  induction n with
  | zero =>
    intro pb app hi pb' w h hw
    simp [pollLoop] at h
    right; exact ⟨rfl, by rw [h.2]; exact hw⟩
  | succ n ih =>
    intro pb app hi pb' w h hw
    have tail : ∀ (pb1 : PB), PBInv pb1 →
        (if mustStop pb1 = true then Except.ok (pb1, true) else pollLoop cfg n pb1 true)
          = .ok (pb', w) → pb'.eof = true := by
      intro pb1 hi1 h1
      split at h1
      · cases h1; cases hw
      · rcases ih pb1 true hi1 pb' w h1 hw with h2 | ⟨_, h3⟩
        · exact h2
        · cases h3
    unfold pollLoop at h
    split at h
    · rename_i hsome
      split at h
      · cases h
      · rename_i pb1 a h1
        obtain ⟨d, hd⟩ := Option.isSome_iff_exists.mp hsome
        have hne := hi.pend d hd
        have ha : a = true := appendPending_appended h1 hd hne
        subst ha
        left
        simp only [Bool.or_true] at h
        exact tail pb1 (appendPending_inv h1 hi).1 h
    · split at h
      · cases h; left; rfl
      · rename_i d rest hs
        split at h
        · cases h
        · rename_i pb1 a h1
          dsimp only at h
          left
          by_cases hd : d = []
          · have hi0 : PBInv { pb with script := rest, pending := none } := ⟨hi.bound, by simp⟩
            have : pb1 = { pb with script := rest, pending := none } := by
              subst hd; simp [appendPending] at h1; exact h1.1.symm
            subst this
            exact tail _ hi0 h
          · have hi0 : PBInv { pb with script := rest, pending := some d } :=
              ⟨hi.bound, by intro d2 hd2; simp at hd2; subst hd2; exact hd⟩
            exact tail pb1 (appendPending_inv h1 hi0).1 h
      · cases h
      · cases h; cases hw

theorem pollStream_wake {cfg : Cfg} (h15 : cfg.f15 = true) {pb pb' : PB} {w : Bool} (hi : PBInv pb)
    (h : pollStream cfg pb = .ok (pb', w)) (hw : w = false) : pb'.eof = true := by
  unfold pollStream at h
  split at h
  · cases h
  · rcases pollLoop_wake cfg h15 _ pb false hi pb' w h hw with h1 | ⟨h2, _⟩
    · exact h1
    · simp [Consts.mpMaxReadyChunksPerPoll] at h2

/-! at the end of the stream every parser function decides -/

theorem readUntil_eof (needle buf : Bytes) : readUntil needle buf true ≠ .ok none := by
  unfold readUntil
  split
  · simp
  · simp

theorem scanLoop_eof (cfg : Cfg) (h6 : cfg.f6 = true) (buf : Bytes) : ∀ (fuel pos : Nat),
    scanLoop cfg buf true fuel pos ≠ .pending := by
  intro fuel
  induction fuel with
  | zero => intro pos; simp [scanLoop]
  | succ n ih =>
    intro pos
    unfold scanLoop
    split
    · dsimp only
      split
      · split
        · simp
        · simp [h6]
      · split
        · split
          · simp
          · exact ih _
        · exact ih _
    · simp

theorem readStream_eof (cfg : Cfg) (h6 : cfg.f6 = true) (buf b : Bytes) :
    readStream cfg buf true b ≠ .pending := by
  unfold readStream
  dsimp only
  split
  · simp
  · split
    · split
      · simp [h6]
      · split
        · simp
        · exact scanLoop_eof cfg h6 buf _ _
    · exact scanLoop_eof cfg h6 buf _ _

theorem fieldTail_eof (f : IField) (buf : Bytes) : (fieldTail f buf true).2.2 ≠ .pending := by
  unfold fieldTail readline
  split
  · rename_i h; exact absurd h (readUntil_eof _ _)
  · simp
  · simp

theorem readLen_eof (buf : Bytes) (size : Nat) : (readLen buf true size).1 ≠ .pending := by
  unfold readLen readMax
  split
  · simp
  · split
    · simp
    · simp
    · rename_i h
      split at h
      · cases h
      · simp at h

theorem fieldPoll_eof (cfg : Cfg) (h6 : cfg.f6 = true) (b : Bytes) (f : IField) (buf : Bytes) :
    (fieldPoll cfg b f buf true).2.2 ≠ .pending := by
  unfold fieldPoll
  split
  · simp
  · split
    · split
      · rename_i len _
        have := readLen_eof buf len
        split
        · rename_i h; rw [h] at this; exact absurd rfl this
        · simp
        · simp
        · exact fieldTail_eof _ _
      · have := readStream_eof cfg h6 buf b
        split
        · rename_i h; exact absurd h this
        · simp
        · simp
        · exact fieldTail_eof _ _
    · exact fieldTail_eof _ _

theorem skipUntilBoundary_eof (b : Bytes) : ∀ (fuel : Nat) (buf : Bytes),
    (skipUntilBoundary b fuel buf true).1 ≠ .ok none := by
  intro fuel
  induction fuel with
  | zero => intro buf; simp [skipUntilBoundary]
  | succ n ih =>
    intro buf
    unfold skipUntilBoundary
    split
    · simp
    · unfold readline
      split
      · simp
      · simp
      · split
        · simp
        · split
          · exact ih _
          · split
            · exact ih _
            · split
              · simp
              · split
                · simp
                · exact ih _

theorem readBoundary_eof (b buf : Bytes) : (readBoundary b buf true).1 ≠ .ok none := by
  unfold readBoundary
  split
  · simp
  · split
    · simp
    · simp
    · split
      · simp
      · split
        · simp
        · split
          · simp
          · split <;> simp

theorem readFieldHeaders_eof (cfg : Cfg) (buf : Bytes) : readFieldHeaders cfg buf true ≠ .ok none := by
  unfold readFieldHeaders
  split
  · simp
  · split
    · simp
    · simp
    · split <;> simp

theorem mkField_not_pending (i : Inner) (buf : Bytes) (hs : List (Bytes × Bytes)) :
    (mkField i buf hs).2 ≠ .pending := by
  unfold mkField
  dsimp only
  split <;> simp

theorem innerHeaders_eof (cfg : Cfg) (i : Inner) (buf : Bytes) (he : i.pb.eof = true) :
    (innerHeaders cfg i buf).2 ≠ .pending := by
  unfold innerHeaders
  rw [he]
  split
  · simp
  · rename_i h; exact absurd h (readFieldHeaders_eof cfg buf)
  · exact mkField_not_pending _ _ _

theorem afterBoundary_eof (cfg : Cfg) (i : Inner) (r : Except Err (Option Bool) × Bytes)
    (he : i.pb.eof = true) (hr : r.1 ≠ .ok none) : (afterBoundary cfg i r).2 ≠ .pending := by
  unfold afterBoundary
  split
  · simp
  · simp at hr
  · simp
  · exact innerHeaders_eof cfg _ _ he

theorem innerStates_eof (cfg : Cfg) (i : Inner) (he : i.pb.eof = true) :
    (innerStates cfg i).2 ≠ .pending := by
  unfold innerStates
  split
  · exact afterBoundary_eof cfg i _ he (by rw [he]; exact skipUntilBoundary_eof _ _ _)
  · exact afterBoundary_eof cfg i _ he (by rw [he]; exact readBoundary_eof _ _)
  · exact innerHeaders_eof cfg i _ he

theorem releaseLoop_eof (cfg : Cfg) (h6 : cfg.f6 = true) (b : Bytes) : ∀ (fuel : Nat) (f : IField)
    (buf : Bytes) (f' : IField) (buf' : Bytes), releaseLoop cfg b true fuel f buf ≠ .pending f' buf' := by
  intro fuel
  induction fuel with
  | zero => intro f buf f' buf'; simp [releaseLoop]
  | succ n ih =>
    intro f buf f' buf'
    unfold releaseLoop
    have := fieldPoll_eof cfg h6 b f buf
    split
    · rename_i h; rw [h] at this; exact absurd rfl this
    · exact ih _ _ _ _
    · simp
    · simp

theorem innerPoll_eof (cfg : Cfg) (h6 : cfg.f6 = true) (i : Inner) (he : i.pb.eof = true) :
    (innerPoll cfg i).2 ≠ .pending := by
  unfold innerPoll
  split
  · simp
  · split
    · rw [he]
      split
      · rename_i h; exact absurd h (releaseLoop_eof cfg h6 _ _ _ _ _ _)
      · simp
      · exact innerStates_eof cfg _ he
    · exact innerStates_eof cfg i he


/-! a delivered field is registered as the current item -/

theorem mkField_item {i : Inner} {buf : Bytes} {hs : List (Bytes × Bytes)} {info : FieldInfo}
    (h : (mkField i buf hs).2 = .field info) : (mkField i buf hs).1.item.isSome = true := by
  unfold mkField at h ⊢
  dsimp only at h ⊢
  split
  · rename_i h1; rw [h1] at h; cases h
  · rfl

theorem innerHeaders_item {cfg : Cfg} {i : Inner} {buf : Bytes} {info : FieldInfo}
    (h : (innerHeaders cfg i buf).2 = .field info) : (innerHeaders cfg i buf).1.item.isSome = true := by
  unfold innerHeaders at h ⊢
  split
  · rename_i h1; rw [h1] at h; cases h
  · rename_i h1; rw [h1] at h; cases h
  · rename_i hs b' h1; rw [h1] at h; exact mkField_item h

theorem afterBoundary_item {cfg : Cfg} {i : Inner} {r : Except Err (Option Bool) × Bytes}
    {info : FieldInfo} (h : (afterBoundary cfg i r).2 = .field info) :
    (afterBoundary cfg i r).1.item.isSome = true := by
  unfold afterBoundary at h ⊢
  split
  · simp at h
  · simp at h
  · simp at h
  · exact innerHeaders_item h

theorem innerStates_item {cfg : Cfg} {i : Inner} {info : FieldInfo}
    (h : (innerStates cfg i).2 = .field info) : (innerStates cfg i).1.item.isSome = true := by
  unfold innerStates at h ⊢
  cases hs : i.state <;> simp only [hs] at h ⊢
  · exact afterBoundary_item h
  · exact afterBoundary_item h
  · exact innerHeaders_item h
  · exact innerHeaders_item h

theorem innerPoll_item {cfg : Cfg} {i : Inner} {info : FieldInfo}
    (h : (innerPoll cfg i).2 = .field info) : (innerPoll cfg i).1.item.isSome = true := by
  unfold innerPoll at h ⊢
  split
  · rename_i h1; simp [h1] at h
  · rename_i h1
    simp only [h1] at h
    split
    · rename_i f hf
      simp only [hf] at h
      split
      · rename_i h2; simp [h2] at h
      · rename_i h2; simp [h2] at h
      · rename_i b' h2; simp only [h2] at h; exact innerStates_item h
    · rename_i hf; simp only [hf] at h; exact innerStates_item h

/-- the consumer is inside a field only while that field is the parser's current item -/
def ModeInv (s : Sys) : Prop := ∀ l, s.mode = .inField l → s.inner.item.isSome = true

/-- the executor never had to give up -/
def NoHang (s : Sys) : Prop := ∀ e ∈ s.trace, e.1 ≠ Ev.hang

theorem noHang_same {s s' : Sys} (h : s'.trace = s.trace) (hn : NoHang s) : NoHang s' := by
  intro x hx; rw [h] at hx; exact hn x hx

theorem noHang_cons {s s' : Sys} (e : Ev) (k : Nat) (h : s'.trace = (e, k) :: s.trace)
    (he : e ≠ .hang) (hn : NoHang s) : NoHang s' := by
  intro x hx
  rw [h] at hx
  simp at hx
  rcases hx with rfl | hx
  · exact he
  · exact hn x hx

/-- one consumer step under the repaired code: no `HANG`, and the mode invariant is kept -/
theorem step_noHang (cfg : Cfg) (h6 : cfg.f6 = true) (h15 : cfg.f15 = true) (s : Sys)
    (hi : SysInv s) (hm : ModeInv s) (hn : NoHang s) :
    NoHang (step cfg s) ∧ ModeInv (step cfg s) := by
  unfold step
  split
  · -- at the multipart
    rename_i hmode
    split
    · rename_i e pb' h
      refine ⟨noHang_cons (.fail e) _ rfl (by simp) hn, ?_⟩
      intro l hl; simp [Sys.finish, Sys.push, hmode] at hl
    · rename_i pb' w h
      dsimp only
      split
      · -- parser Pending: a wake-up must be on record
        rename_i i' hq
        unfold Sys.onPending
        dsimp only
        split
        · refine ⟨noHang_same rfl hn, ?_⟩
          intro l hl; simp [hmode] at hl
        · rename_i hw
          exfalso
          have hw2 : w = false := by cases w <;> simp_all
          have he := pollStream_wake h15 hi h hw2
          have := innerPoll_eof cfg h6 { s.inner with pb := pb' } he
          rw [hq] at this
          exact this rfl
      · rename_i i' hq
        refine ⟨noHang_cons .eof _ rfl (by simp) hn, ?_⟩
        intro l hl; simp [Sys.finish, Sys.push, hmode] at hl
      · rename_i i' e hq
        refine ⟨noHang_cons (.fail e) _ rfl (by simp) hn, ?_⟩
        intro l hl; simp [Sys.finish, Sys.push, hmode] at hl
      · rename_i i' info hq
        refine ⟨noHang_cons (.field info) _ rfl (by simp) hn, ?_⟩
        intro l _
        have := innerPoll_item (cfg := cfg) (i := { s.inner with pb := pb' }) (info := info) (by rw [hq])
        rw [hq] at this
        simpa [Sys.push] using this
  · rename_i left hmode
    have hitem := hm left hmode
    split
    · refine ⟨noHang_cons .dropped _ rfl (by simp) hn, ?_⟩
      intro l hl; simp at hl
    · split
      · rename_i e pb' h
        refine ⟨noHang_cons (.fail e) _ rfl (by simp) hn, ?_⟩
        intro l _; simpa [Sys.finish, Sys.push] using hitem
      · rename_i pb' w h
        dsimp only
        split
        · rename_i hnone; rw [hnone] at hitem; cases hitem
        · rename_i f hf
          split
          · rename_i f' b' hq
            unfold Sys.onPending
            dsimp only
            split
            · refine ⟨noHang_same rfl hn, ?_⟩
              intro l _; simp
            · rename_i hw
              exfalso
              have hw2 : w = false := by cases w <;> simp_all
              have he := pollStream_wake h15 hi h hw2
              have := fieldPoll_eof cfg h6 s.inner.boundary f pb'.buf
              rw [he] at hq
              rw [hq] at this
              exact this rfl
          · rename_i f' b' hq
            refine ⟨noHang_cons .fieldEnd _ rfl (by simp) hn, ?_⟩
            intro l hl; simp at hl
          · rename_i f' b' bs hq
            refine ⟨noHang_cons (.data bs) _ rfl (by simp) hn, ?_⟩
            intro l _; simp [Sys.push]
          · rename_i f' b' e hq
            refine ⟨noHang_cons (.fail e) _ rfl (by simp) hn, ?_⟩
            intro l _; simp [Sys.finish, Sys.push]

theorem run_noHang (cfg : Cfg) (h6 : cfg.f6 = true) (h15 : cfg.f15 = true) : ∀ (fuel : Nat) (s : Sys),
    SysInv s → ModeInv s → NoHang s → NoHang (run cfg fuel s) := by
  intro fuel
  induction fuel with
  | zero => intro s _ _ hn; exact hn
  | succ n ih =>
    intro s hi hm hn
    unfold run
    split
    · exact hn
    · obtain ⟨h1, h2⟩ := step_noHang cfg h6 h15 s hi hm hn
      exact ih (step cfg s) (step_inv cfg s hi).1 h2 h1

end ActixModel.Multipart
