import ActixModel.Proofs.Multipart
/-
The delimiter scanner (`read_stream`) against the grammar-level split of a part's content, for every
continuation of the buffer and every feeding schedule; stability of the line readers.
-/
namespace ActixModel.Multipart
open ActixModel.Util

/-- the delimiter that ends a part's content: `CR LF - -` boundary -/
def delim (b : Bytes) : Bytes := [13, 10, 45, 45] ++ b

/-- a delimiter starts at index `p` of `l` -/
def delimAt (b l : Bytes) (p : Nat) : Prop := delim b <+: l.drop p

theorem delimAt_head {b l : Bytes} {p : Nat} (h : delimAt b l p) : l[p]? = some 13 := by
  unfold delimAt delim at h
  obtain ⟨t, ht⟩ := h
  have : (l.drop p)[0]? = some 13 := by rw [← ht]; rfl
  simpa using this

theorem findByte_some {c : UInt8} : ∀ {t : Bytes} {idx : Nat}, findByte c t = some idx →
    idx < t.length ∧ t[idx]? = some c ∧ ∀ j : Nat, j < idx → t[j]? ≠ some c := by
  intro t
  induction t with
  | nil => intro idx h; simp [findByte] at h
  | cons x xs ih =>
    intro idx h
    unfold findByte at h
    split at h
    · rename_i hx
      cases h
      simp at hx
      exact ⟨by simp, by simp [hx], by intro j hj; omega⟩
    · rename_i hx
      simp at hx
      cases hf : findByte c xs with
      | none => simp [hf] at h
      | some k =>
        simp [hf] at h
        subst h
        obtain ⟨h1, h2, h3⟩ := ih hf
        refine ⟨by simp; omega, by simpa using h2, ?_⟩
        intro j hj
        cases j with
        | zero => simp; exact hx
        | succ j => simp; exact h3 j (by omega)

theorem findByte_none {c : UInt8} : ∀ {t : Bytes}, findByte c t = none → ∀ j : Nat, t[j]? ≠ some c := by
  intro t
  induction t with
  | nil => intro _ j; simp
  | cons x xs ih =>
    intro h j
    unfold findByte at h
    split at h
    · cases h
    · rename_i hx
      simp at hx
      cases hf : findByte c xs with
      | some k => simp [hf] at h
      | none =>
        cases j with
        | zero => simp; exact hx
        | succ j => simp; exact ih hf j


theorem delim_take4 {b t ext : Bytes} (h : delim b <+: t ++ ext) (ht : 4 ≤ t.length) :
    t.take 4 = [13, 10, 45, 45] := by
  obtain ⟨r, hr⟩ := h
  have h1 : (t ++ ext).take 4 = t.take 4 := List.take_append_of_le_length ht
  rw [← h1, ← hr]
  simp [delim]

theorem slice_eq (buf : Bytes) (a k : Nat) : slice buf a (a + k) = (buf.drop a).take k := by
  simp [slice]

theorem candAt_of_delim {cfg : Cfg} {b buf ext : Bytes} {cur : Nat} (hc : cur + 4 ≤ buf.length)
    (h : delimAt b (buf ++ ext) cur) : candAt cfg buf cur = true := by
  unfold delimAt at h
  rw [List.drop_append_of_le_length (by omega)] at h
  have ht : 4 ≤ (buf.drop cur).length := by simp; omega
  have h4 := delim_take4 h ht
  unfold candAt
  have e1 : slice buf cur (cur + 2) = ((buf.drop cur).take 4).take 2 := by
    rw [slice_eq]; simp [List.take_take]
  have e2 : slice buf (cur + 2) (cur + 4) = ((buf.drop cur).take 4).drop 2 := by
    have : cur + 4 = (cur + 2) + 2 := by omega
    rw [this, slice_eq]
    simp [List.drop_take, List.drop_drop]
  rw [e1, e2, h4]
  simp [crlf, dd]


/-- a position of `buf` that does not hold CR cannot start a delimiter, whatever follows `buf` -/
theorem not_delimAt_of_ne {b buf ext : Bytes} {p : Nat} (hp : p < buf.length) (h : buf[p]? ≠ some 13) :
    ¬ delimAt b (buf ++ ext) p := by
  intro hd
  have := delimAt_head hd
  rw [List.getElem?_append_left hp] at this
  exact h this

/-- the scanner loop only ever emits bytes in front of which, and inside which, no delimiter starts —
for every continuation `ext` of the buffer -/
theorem scanLoop_data (cfg : Cfg) (b buf ext : Bytes) (eof : Bool) (hne : 0 < buf.length)
    (hz : 4 ≤ buf.length → ¬ delimAt b (buf ++ ext) 0) :
    ∀ (fuel pos n : Nat), pos ≤ buf.length → (∀ p, p < pos → ¬ delimAt b (buf ++ ext) p) →
      scanLoop cfg buf eof fuel pos = .data n →
      0 < n ∧ n ≤ buf.length ∧ ∀ p, p < n → ¬ delimAt b (buf ++ ext) p := by
  intro fuel
  induction fuel with
  | zero => intro pos n _ _ h; simp [scanLoop] at h
  | succ k ih =>
    intro pos n hpos hinv h
    unfold scanLoop at h
    split at h
    · rename_i idx hf
      obtain ⟨h1, _, h3⟩ := findByte_some hf
      simp at h1
      dsimp only at h
      -- positions in [pos, pos+idx) hold no CR
      have hmid : ∀ p, p < pos + idx → ¬ delimAt b (buf ++ ext) p := by
        intro p hp
        by_cases hlt : p < pos
        · exact hinv p hlt
        · have hj := h3 (p - pos) (by omega)
          rw [List.getElem?_drop] at hj
          have : pos + (p - pos) = p := by omega
          rw [this] at hj
          exact not_delimAt_of_ne (by omega) hj
      split at h
      · -- not enough look-ahead
        split at h
        · cases h; exact ⟨by omega, by omega, hmid⟩
        · split at h <;> cases h
      · rename_i hla
        have hla' : pos + idx + 4 ≤ buf.length := by omega
        split at h
        · split at h
          · rename_i hcur
            cases h
            refine ⟨?_, by omega, hmid⟩
            simp at hcur; omega
          · rename_i hcur
            simp at hcur
            have h0 : pos + idx = 0 := by omega
            apply ih (pos + idx + 1) n (by omega) _ h
            intro p hp
            have : p = 0 := by omega
            subst this
            exact hz (by omega)
        · rename_i hcand
          apply ih (pos + idx + 1) n (by omega) _ h
          intro p hp
          by_cases hlt : p < pos + idx
          · exact hmid p hlt
          · have : p = pos + idx := by omega
            subst this
            intro hd
            exact hcand (candAt_of_delim hla' hd)
    · rename_i hf
      cases h
      refine ⟨hne, Nat.le_refl _, ?_⟩
      intro p hp
      by_cases hlt : p < pos
      · exact hinv p hlt
      · have hj := findByte_none hf (p - pos)
        rw [List.getElem?_drop] at hj
        have : pos + (p - pos) = p := by omega
        rw [this] at hj
        exact not_delimAt_of_ne hp hj


theorem take4_cases {buf : Bytes} (h : buf.take 4 = [13, 10, 45, 45]) :
    ∃ r, buf = 13 :: 10 :: 45 :: 45 :: r := by
  match buf, h with
  | a :: b :: c :: d :: r, h =>
    simp at h
    obtain ⟨rfl, rfl, rfl, rfl⟩ := h
    exact ⟨r, rfl⟩

theorem startMarker_none {cfg : Cfg} (h5 : cfg.f5 = true) {b buf ext : Bytes}
    (h : startMarker cfg buf = none) (hl : 4 ≤ buf.length) : ¬ delimAt b (buf ++ ext) 0 := by
  intro hd
  unfold delimAt at hd
  simp only [List.drop_zero] at hd
  obtain ⟨r, rfl⟩ := take4_cases (delim_take4 hd hl)
  simp [startMarker, lookAheadOk, h5, crlf, dd, slice] at h

theorem startMarker_some {cfg : Cfg} (h17 : cfg.f17 = true) {buf : Bytes} {bl : Nat}
    (h : startMarker cfg buf = some bl) : bl = 4 ∧ buf.take 4 = [13, 10, 45, 45] := by
  unfold startMarker at h
  cases h1 : (lookAheadOk cfg buf.length && buf.head? == some 13) with
  | false => simp [h1] at h
  | true =>
    cases h2 : (crlf.isPrefixOf buf && slice buf 2 4 == dd) with
    | false => simp [h1, h2, h17] at h
    | true =>
      simp [h1, h2] at h
      refine ⟨h.symm, ?_⟩
      simp [crlf, dd, slice] at h2
      obtain ⟨h2a, h2b⟩ := h2
      match buf, h2a, h2b with
      | a :: b :: c :: d :: r, h2a, h2b =>
        simp at h2a h2b
        obtain ⟨rfl, rfl⟩ := h2a
        obtain ⟨rfl, rfl⟩ := h2b
        rfl

theorem delim_slice {b buf ext : Bytes} (hd : delimAt b (buf ++ ext) 0) (hl : b.length + 4 ≤ buf.length) :
    slice buf 4 (b.length + 4) = b := by
  unfold delimAt at hd
  simp only [List.drop_zero] at hd
  obtain ⟨r, hr⟩ := hd
  have h1 : (buf ++ ext).take (b.length + 4) = buf.take (b.length + 4) := List.take_append_of_le_length hl
  have h2 : (buf ++ ext).take (b.length + 4) = delim b := by
    rw [← hr]
    have : (delim b).length = b.length + 4 := by simp [delim]
    rw [← this]; simp
  have : slice buf 4 (b.length + 4) = (buf.take (b.length + 4)).drop 4 := by
    simp [slice, List.drop_take]
  rw [this, ← h1, h2]
  simp [delim]

/-- **scanner soundness (content).** A chunk emitted by `read_stream` lies entirely in front of the
first delimiter of the input, whatever bytes arrive later. -/
theorem readStream_data {cfg : Cfg} (h5 : cfg.f5 = true) (h17 : cfg.f17 = true) {b buf : Bytes}
    {eof : Bool} {n : Nat} (h : readStream cfg buf eof b = .data n) (ext : Bytes) :
    0 < n ∧ n ≤ buf.length ∧ ∀ p, p < n → ¬ delimAt b (buf ++ ext) p := by
  unfold readStream at h
  dsimp only at h
  split at h
  · split at h <;> cases h
  · rename_i hlen
    have hne : 0 < buf.length := by
      simp at hlen
      cases buf with
      | nil => exact absurd rfl hlen
      | cons _ _ => simp
    split at h
    · rename_i bl hm
      obtain ⟨rfl, _⟩ := startMarker_some h17 hm
      split at h
      · split at h <;> cases h
      · rename_i hge
        split at h
        · cases h
        · rename_i hneq
          refine scanLoop_data cfg b buf ext eof hne ?_ _ 0 n (Nat.zero_le _) (by intro p hp; omega) h
          intro _ hd
          apply hneq
          have := delim_slice hd (by omega)
          simp [this]
    · rename_i hm
      exact scanLoop_data cfg b buf ext eof hne (fun hl => startMarker_none h5 hm hl) _ 0 n
        (Nat.zero_le _) (by intro p hp; omega) h

/-- **scanner soundness (end of field).** `read_stream` ends a field only where a delimiter starts. -/
theorem readStream_fin {cfg : Cfg} (h17 : cfg.f17 = true) {b buf : Bytes} {eof : Bool}
    (h : readStream cfg buf eof b = .fin) : delim b <+: buf := by
  have scan_ne : ∀ fuel pos, scanLoop cfg buf eof fuel pos ≠ .fin := by
    intro fuel
    induction fuel with
    | zero => intro pos; simp [scanLoop]
    | succ k ih =>
      intro pos
      unfold scanLoop
      split
      · dsimp only
        split
        · split
          · simp
          · split <;> simp
        · split
          · split
            · simp
            · exact ih _
          · exact ih _
      · simp
  unfold readStream at h
  dsimp only at h
  split at h
  · split at h <;> cases h
  · split at h
    · rename_i bl hm
      obtain ⟨rfl, h4⟩ := startMarker_some h17 hm
      split at h
      · split at h <;> cases h
      · rename_i hge
        split at h
        · rename_i heq
          simp at heq hge
          have hb : buf = buf.take 4 ++ (slice buf 4 (b.length + 4) ++ buf.drop (b.length + 4)) := by
            have : slice buf 4 (b.length + 4) = (buf.drop 4).take b.length := by simp [slice]
            rw [this]
            conv => lhs; rw [← List.take_append_drop 4 buf]
            congr 1
            conv => lhs; rw [← List.take_append_drop b.length (buf.drop 4)]
            congr 1
            simp [List.drop_drop, Nat.add_comm]
          rw [hb, h4, heq]
          exact ⟨buf.drop (b.length + 4), by simp [delim]⟩
        · exact absurd h (scan_ne _ _)
    · exact absurd h (scan_ne _ _)


/-! ### grammar-level split of a part's content -/

/-- content of a part = the bytes in front of the first `CR LF - - boundary`; second component =
the input from that delimiter on; `none` if no delimiter occurs -/
def splitDelim (b : Bytes) : Bytes → Option (Bytes × Bytes)
  | [] => none
  | x :: xs =>
    if (delim b).isPrefixOf (x :: xs) then some ([], x :: xs)
    else (splitDelim b xs).map fun cr => (x :: cr.1, cr.2)

theorem splitDelim_here {b l : Bytes} (h : delim b <+: l) : splitDelim b l = some ([], l) := by
  cases l with
  | nil => obtain ⟨t, ht⟩ := h; simp [delim] at ht
  | cons x xs =>
    unfold splitDelim
    have : (delim b).isPrefixOf (x :: xs) = true := List.isPrefixOf_iff_prefix.mpr h
    simp [this]

/-- skipping `n` bytes in front of which no delimiter starts -/
theorem splitDelim_skip {b : Bytes} : ∀ (n : Nat) (l : Bytes), n ≤ l.length →
    (∀ p, p < n → ¬ delimAt b l p) →
    splitDelim b l = (splitDelim b (l.drop n)).map fun cr => (l.take n ++ cr.1, cr.2) := by
  intro n
  induction n with
  | zero => intro l _ _; simp
  | succ k ih =>
    intro l hl hno
    cases l with
    | nil => simp at hl
    | cons x xs =>
      have h0 : (delim b).isPrefixOf (x :: xs) = false := by
        have := hno 0 (by omega)
        unfold delimAt at this
        simp only [List.drop_zero] at this
        cases hp : (delim b).isPrefixOf (x :: xs) with
        | false => rfl
        | true => exact absurd (List.isPrefixOf_iff_prefix.mp hp) this
      have hrec := ih xs (by simp at hl; omega) (by
        intro p hp hd
        apply hno (p + 1) (by omega)
        unfold delimAt at hd ⊢
        simpa using hd)
      rw [splitDelim, h0]
      simp only [Bool.false_eq_true, if_false]
      rw [hrec]
      simp [Option.map_map, Function.comp_def]

theorem splitDelim_short {b : Bytes} : ∀ (l : Bytes), l.length < b.length + 4 → splitDelim b l = none := by
  intro l
  induction l with
  | nil => intro _; rfl
  | cons x xs ih =>
    intro hl
    unfold splitDelim
    have : (delim b).isPrefixOf (x :: xs) = false := by
      cases hp : (delim b).isPrefixOf (x :: xs) with
      | false => rfl
      | true =>
        have := (List.isPrefixOf_iff_prefix.mp hp).length_le
        simp [delim] at this hl
        omega
    simp only [this, Bool.false_eq_true, if_false]
    rw [ih (by simp at hl; omega)]
    rfl


/-! ### the scanner fails only when no delimiter can follow -/

/-- the loop's fuel (`len + 1`) is never used up; failures come from the end-of-stream tests only -/
theorem scanLoop_fail {cfg : Cfg} {buf : Bytes} {eof : Bool} : ∀ (fuel pos : Nat) (e : Err),
    pos ≤ buf.length → buf.length < pos + fuel → scanLoop cfg buf eof fuel pos = .fail e →
    eof = true ∧ buf.length < 4 ∧ e = .incomplete := by
  intro fuel
  induction fuel with
  | zero => intro pos e hp hf _; omega
  | succ k ih =>
    intro pos e hp hf h
    unfold scanLoop at h
    split at h
    · rename_i idx hfb
      obtain ⟨h1, _, _⟩ := findByte_some hfb
      simp at h1
      dsimp only at h
      split at h
      · rename_i hla
        split at h
        · cases h
        · split at h
          · rename_i hz he
            simp at he hz
            cases h
            exact ⟨he.2, by omega, rfl⟩
          · cases h
      · split at h
        · split at h
          · cases h
          · exact ih _ e (by omega) (by omega) h
        · exact ih _ e (by omega) (by omega) h
    · cases h

/-- `read_stream` reports an error only at the end of the stream, and then no delimiter occurs in
what is left -/
theorem readStream_fail {cfg : Cfg} (h17 : cfg.f17 = true) {b buf : Bytes} {eof : Bool} {e : Err}
    (h : readStream cfg buf eof b = .fail e) :
    eof = true ∧ e = .incomplete ∧ splitDelim b buf = none := by
  unfold readStream at h
  dsimp only at h
  split at h
  · rename_i hlen
    simp at hlen
    split at h
    · cases h; subst hlen; exact ⟨by assumption, rfl, rfl⟩
    · cases h
  · split at h
    · rename_i bl hm
      obtain ⟨rfl, _⟩ := startMarker_some h17 hm
      split at h
      · rename_i hlt
        split at h
        · rename_i he
          cases h
          simp at he
          exact ⟨he.2, rfl, splitDelim_short _ (by omega)⟩
        · cases h
      · split at h
        · cases h
        · obtain ⟨h1, h2, h3⟩ := scanLoop_fail _ 0 e (Nat.zero_le _) (by omega) h
          exact ⟨h1, h3, splitDelim_short _ (by omega)⟩
    · obtain ⟨h1, h2, h3⟩ := scanLoop_fail _ 0 e (Nat.zero_le _) (by omega) h
      exact ⟨h1, h3, splitDelim_short _ (by omega)⟩


/-! ### a field's content reader under an arbitrary feeding schedule -/

/-- reader state: parser buffer, content delivered so far, outcome once decided
(`some none` = field ended at a delimiter, `some (some e)` = error) -/
structure FS where
  buf : Bytes
  out : Bytes
  done : Option (Option Err)

/-- one `Field::poll_next` as far as the content scanner is concerned -/
def fsPoll (cfg : Cfg) (b : Bytes) (eof : Bool) (s : FS) : FS :=
  match s.done with
  | some _ => s
  | none =>
    match readStream cfg s.buf eof b with
    | .pending => s
    | .data n => { s with buf := s.buf.drop n, out := s.out ++ s.buf.take n }
    | .fin => { s with done := some none }
    | .fail e => { s with done := some (some e) }

/-- what can happen between the start of a field and the end of the stream: more bytes are appended
to the buffer (any amount: whole chunks, parts of chunks, nothing), or the field is polled -/
inductive FOp
  | feed (bs : Bytes)
  | poll

def fsOp (cfg : Cfg) (b : Bytes) (s : FS) : FOp → FS
  | .feed bs => { s with buf := s.buf ++ bs }
  | .poll => fsPoll cfg b false s

def feedsOf : List FOp → Bytes
  | [] => []
  | .feed bs :: r => bs ++ feedsOf r
  | .poll :: r => feedsOf r

/-- after the end of the stream the field is polled until it is decided -/
def fsClose (cfg : Cfg) (b : Bytes) : Nat → FS → FS
  | 0, s => s
  | k + 1, s => if s.done.isSome then s else fsClose cfg b k (fsPoll cfg b true s)

/-- relation between the reader state, the bytes still to come (`fut`) and the whole input `bs` -/
def FInv (b bs : Bytes) (s : FS) (fut : Bytes) : Prop :=
  match s.done with
  | none => splitDelim b bs = (splitDelim b (s.buf ++ fut)).map (fun cr => (s.out ++ cr.1, cr.2))
      ∧ s.out ++ (s.buf ++ fut) = bs
  | some none => splitDelim b bs = some (s.out, s.buf ++ fut)
  | some (some e) => splitDelim b bs = none ∧ s.out ++ s.buf = bs ∧ fut = [] ∧ e = .incomplete

theorem fsPoll_inv {cfg : Cfg} (h5 : cfg.f5 = true) (h17 : cfg.f17 = true) {b bs : Bytes} {s : FS}
    {fut : Bytes} {eof : Bool} (he : eof = true → fut = []) (h : FInv b bs s fut) :
    FInv b bs (fsPoll cfg b eof s) fut := by
  unfold fsPoll
  split
  · exact h
  · rename_i hd
    unfold FInv at h
    rw [hd] at h
    obtain ⟨hs, hcat⟩ := h
    split
    · unfold FInv; rw [hd]; exact ⟨hs, hcat⟩
    · rename_i n hr
      obtain ⟨hn0, hnl, hno⟩ := readStream_data h5 h17 hr fut
      have hsk := splitDelim_skip n (s.buf ++ fut) (by simp; omega) hno
      unfold FInv
      simp only [hd]
      have e1 : (s.buf ++ fut).drop n = s.buf.drop n ++ fut := List.drop_append_of_le_length hnl
      have e2 : (s.buf ++ fut).take n = s.buf.take n := List.take_append_of_le_length hnl
      rw [e1, e2] at hsk
      constructor
      · rw [hs, hsk]
        simp [Option.map_map, Function.comp_def]
      · rw [← hcat]
        simp only [List.append_assoc]
        congr 1
        rw [← List.append_assoc, List.take_append_drop]
    · rename_i hr
      have hpf := readStream_fin h17 hr
      have : delim b <+: s.buf ++ fut := hpf.trans (List.prefix_append _ _)
      unfold FInv
      simp only []
      rw [hs, splitDelim_here this]
      simp
    · rename_i e hr
      obtain ⟨h1, h2, h3⟩ := readStream_fail h17 hr
      have hf := he h1
      subst hf
      unfold FInv
      simp only []
      simp at hs
      rw [h3] at hs
      simp at hs
      refine ⟨hs, by simpa using hcat, ?_, h2⟩
      simp

theorem fsRun_inv {cfg : Cfg} (h5 : cfg.f5 = true) (h17 : cfg.f17 = true) {b bs : Bytes} :
    ∀ (ops : List FOp) (s : FS), FInv b bs s (feedsOf ops) → FInv b bs (ops.foldl (fsOp cfg b) s) [] := by
  intro ops
  induction ops with
  | nil => intro s h; exact h
  | cons op rest ih =>
    intro s h
    simp only [List.foldl_cons]
    apply ih
    cases op with
    | feed x =>
      simp only [fsOp, feedsOf] at h ⊢
      unfold FInv at h ⊢
      cases hd : s.done with
      | none => simp only [hd, List.append_assoc] at h ⊢; exact h
      | some o =>
        cases o with
        | none => simp only [hd, List.append_assoc] at h ⊢; exact h
        | some e =>
          simp only [hd] at h ⊢
          obtain ⟨h1, h2, h3, h4⟩ := h
          simp at h3
          obtain ⟨hx, hr⟩ := h3
          subst hx
          exact ⟨h1, by simpa using h2, hr, h4⟩
    | poll =>
      simp only [fsOp, feedsOf] at h ⊢
      exact fsPoll_inv h5 h17 (by intro hc; cases hc) h

theorem fsClose_done {cfg : Cfg} (h5 : cfg.f5 = true) (h6 : cfg.f6 = true) (h17 : cfg.f17 = true)
    {b bs : Bytes} :
    ∀ (k : Nat) (s : FS), s.buf.length < k → FInv b bs s [] →
      (fsClose cfg b k s).done.isSome = true ∧ FInv b bs (fsClose cfg b k s) [] := by
  intro k
  induction k with
  | zero => intro s hk _; omega
  | succ k ih =>
    intro s hk h
    unfold fsClose
    split
    · rename_i hd; exact ⟨hd, h⟩
    · rename_i hd
      have hnone : s.done = none := by
        cases hs : s.done with
        | none => rfl
        | some _ => simp [hs] at hd
      have hinv := fsPoll_inv (cfg := cfg) h5 h17 (eof := true) (fun _ => rfl) h
      -- either decided now, or a non-empty chunk left the buffer
      unfold fsPoll at hinv ⊢
      simp only [hnone] at hinv ⊢
      cases hr : readStream cfg s.buf true b with
      | pending => exact absurd hr (readStream_eof cfg h6 s.buf b)
      | data n =>
        simp only [hr] at hinv ⊢
        obtain ⟨hn0, hnl, _⟩ := readStream_data h5 h17 hr []
        apply ih _ _ hinv
        simp; omega
      | fin =>
        simp only [hr] at hinv ⊢
        cases k with
        | zero => simp [fsClose]; exact hinv
        | succ k => simp [fsClose]; exact hinv
      | fail e =>
        simp only [hr] at hinv ⊢
        cases k with
        | zero => simp [fsClose]; exact hinv
        | succ k => simp [fsClose]; exact hinv


theorem splitDelim_append {b : Bytes} : ∀ {l c r : Bytes}, splitDelim b l = some (c, r) →
    c ++ r = l ∧ delim b <+: r := by
  intro l
  induction l with
  | nil => intro c r h; simp [splitDelim] at h
  | cons x xs ih =>
    intro c r h
    unfold splitDelim at h
    split at h
    · rename_i hp
      cases h
      exact ⟨rfl, List.isPrefixOf_iff_prefix.mp hp⟩
    · cases hs : splitDelim b xs with
      | none => simp [hs] at h
      | some cr =>
        simp [hs] at h
        obtain ⟨rfl, rfl⟩ := h
        obtain ⟨h1, h2⟩ := ih (c := cr.1) (r := cr.2) (by rw [hs])
        exact ⟨by simp [h1], h2⟩

/-- the end result of reading one field's content under any schedule, in terms of the grammar -/
theorem field_result {cfg : Cfg} (h5 : cfg.f5 = true) (h6 : cfg.f6 = true) (h17 : cfg.f17 = true)
    (b : Bytes) (ops : List FOp) :
    let bs := feedsOf ops
    let s := fsClose cfg b (bs.length + 1) (ops.foldl (fsOp cfg b) ⟨[], [], none⟩)
    match splitDelim b bs with
    | some (c, r) => s.out = c ∧ s.buf = r ∧ s.done = some none
    | none => s.done = some (some .incomplete) ∧ s.out <+: bs := by
  intro bs s
  have h0 : FInv b bs ⟨[], [], none⟩ (feedsOf ops) := by
    unfold FInv
    simp only [List.nil_append]
    constructor
    · cases splitDelim b bs with
      | none => rfl
      | some cr => simp
    · rfl
  have h1 := fsRun_inv (cfg := cfg) h5 h17 ops _ h0
  have hlen : (ops.foldl (fsOp cfg b) ⟨[], [], none⟩).buf.length < bs.length + 1 := by
    generalize ops.foldl (fsOp cfg b) ⟨[], [], none⟩ = t at h1
    unfold FInv at h1
    cases hd : t.done with
    | none =>
      simp only [hd] at h1
      have := congrArg List.length h1.2
      simp at this; omega
    | some o =>
      cases o with
      | none =>
        simp only [hd] at h1
        have := congrArg List.length (splitDelim_append h1).1
        simp at this; omega
      | some e =>
        simp only [hd] at h1
        have := congrArg List.length h1.2.1
        simp at this; omega
  obtain ⟨hdone, hfin⟩ := fsClose_done (cfg := cfg) h5 h6 h17 _ _ hlen h1
  change s.done.isSome = true at hdone
  change FInv b bs s [] at hfin
  unfold FInv at hfin
  cases hd : s.done with
  | none => simp [hd] at hdone
  | some o =>
    cases o with
    | none =>
      simp only [hd, List.append_nil] at hfin
      rw [hfin]
      exact ⟨rfl, rfl, rfl⟩
    | some e =>
      simp only [hd] at hfin
      obtain ⟨h2, h3, _, rfl⟩ := hfin
      rw [h2]
      exact ⟨rfl, ⟨_, h3⟩⟩


/-! ### the line / header readers decide on a prefix once and for all -/

theorem findSub_some_len {needle : Bytes} : ∀ {hay : Bytes} {i : Nat}, findSub needle hay = some i →
    i + needle.length ≤ hay.length := by
  intro hay
  induction hay with
  | nil =>
    intro i h
    unfold findSub at h
    split at h
    · rename_i he; cases h; simp at he; simp [he]
    · cases h
  | cons x xs ih =>
    intro i h
    unfold findSub at h
    split at h
    · rename_i hp
      cases h
      have := (List.isPrefixOf_iff_prefix.mp hp).length_le
      simpa using this
    · cases hs : findSub needle xs with
      | none => simp [hs] at h
      | some k =>
        simp [hs] at h
        subst h
        have := ih hs
        simp; omega

/-- `memmem::find` finds the same first occurrence when more bytes follow -/
theorem findSub_append {needle : Bytes} : ∀ {hay : Bytes} {i : Nat} (ext : Bytes),
    findSub needle hay = some i → findSub needle (hay ++ ext) = some i := by
  intro hay
  induction hay with
  | nil =>
    intro i ext h
    unfold findSub at h
    split at h
    · rename_i he
      cases h
      simp at he
      subst he
      cases ext <;> simp [findSub]
    · cases h
  | cons x xs ih =>
    intro i ext h
    unfold findSub at h
    split at h
    · rename_i hp
      cases h
      have : needle.isPrefixOf (x :: (xs ++ ext)) = true :=
        List.isPrefixOf_iff_prefix.mpr ((List.isPrefixOf_iff_prefix.mp hp).trans (List.prefix_append _ ext))
      simp only [List.cons_append]
      rw [findSub, this]
      rfl
    · rename_i hp
      cases hs : findSub needle xs with
      | none => simp [hs] at h
      | some k =>
        simp [hs] at h
        subst h
        have hlen := findSub_some_len hs
        have hnp : needle.isPrefixOf (x :: xs ++ ext) = false := by
          cases hq : needle.isPrefixOf (x :: xs ++ ext) with
          | false => rfl
          | true =>
            exfalso
            apply hp
            obtain ⟨t, ht⟩ := List.isPrefixOf_iff_prefix.mp hq
            apply List.isPrefixOf_iff_prefix.mpr
            have h1 : needle = (x :: xs ++ ext).take needle.length := by rw [← ht]; simp
            have h2 : (x :: xs ++ ext).take needle.length = (x :: xs).take needle.length := by
              have : (x :: xs ++ ext) = (x :: xs) ++ ext := rfl
              rw [this, List.take_append_of_le_length (by simp; omega)]
            rw [h1, h2]
            exact List.take_prefix _ _
        have := ih ext hs
        simp only [List.cons_append] at hnp ⊢
        rw [findSub, hnp]
        simp [this]

/-- a line / header block that `read_until` has found stays the same when more bytes arrive, and
whatever the end-of-stream flag says -/
theorem readUntil_stable {needle buf c r : Bytes} {eof : Bool}
    (h : readUntil needle buf eof = .ok (some (c, r))) (ext : Bytes) (eof' : Bool) :
    readUntil needle (buf ++ ext) eof' = .ok (some (c, r ++ ext)) := by
  unfold readUntil at h ⊢
  cases hf : findSub needle buf with
  | none => simp [hf] at h; split at h <;> cases h
  | some i =>
    simp [hf] at h
    have hl := findSub_some_len hf
    rw [findSub_append ext hf]
    obtain ⟨rfl, rfl⟩ := h
    simp [List.take_append_of_le_length hl, List.drop_append_of_le_length hl]

end ActixModel.Multipart
