import ActixModel.Proofs.MultipartScan
import ActixModel.Proofs.MultipartTerm
/-
The decisions of the `Inner` state machine about the next part (its header block, end of body, or
an error) do not depend on where the body is cut: once taken on a buffer they are taken identically
on every continuation of that buffer, whatever the end-of-stream flag.
-/
namespace ActixModel.Multipart
open ActixModel.Util

theorem readline_stable {buf c r : Bytes} {eof : Bool} (h : readline buf eof = .ok (some (c, r)))
    (ext : Bytes) (eof' : Bool) : readline (buf ++ ext) eof' = .ok (some (c, r ++ ext)) :=
  readUntil_stable h ext eof'

theorem readline_noeof {buf : Bytes} {e : Err} : readline buf false ≠ .error e := by
  unfold readline readUntil
  split <;> simp

/-- a decision of `skip_until_boundary` (boundary found / final boundary found / `BoundaryMissing`) -/
def Decided (r : Except Err (Option Bool)) : Prop := (∃ x, r = .ok (some x)) ∨ r = .error .boundaryMissing

theorem skipUntilBoundary_stable (b : Bytes) : ∀ (fuel fuel' : Nat) (buf buf' ext : Bytes)
    (r : Except Err (Option Bool)) (eof' : Bool), fuel ≤ fuel' →
    skipUntilBoundary b fuel buf false = (r, buf') → Decided r →
    skipUntilBoundary b fuel' (buf ++ ext) eof' = (r, buf' ++ ext) := by
  intro fuel
  induction fuel with
  | zero =>
    intro fuel' buf buf' ext r eof' _ h hd
    simp [skipUntilBoundary] at h
    obtain ⟨rfl, _⟩ := h
    rcases hd with ⟨x, hx⟩ | hx <;> cases hx
  | succ n ih =>
    intro fuel' buf buf' ext r eof' hle h hd
    obtain ⟨m, rfl⟩ : ∃ m, fuel' = m + 1 := ⟨fuel' - 1, by omega⟩
    unfold skipUntilBoundary at h ⊢
    split at h
    · rename_i hb
      simp only [hb, if_true]
      cases h
      rfl
    · rename_i hb
      simp only [hb]
      cases hl : readline buf false with
      | error e => exact absurd hl readline_noeof
      | ok o =>
        cases o with
        | none =>
          simp only [hl] at h
          simp at h
          obtain ⟨rfl, _⟩ := h
          rcases hd with ⟨x, hx⟩ | hx <;> cases hx
        | some cr =>
          obtain ⟨c, rest⟩ := cr
          simp only [hl] at h
          rw [readline_stable hl ext eof']
          dsimp only at h ⊢
          cases hce : c.isEmpty with
          | true =>
            simp only [hce, ↓reduceIte] at h ⊢
            cases h; rfl
          | false =>
            simp only [hce, ↓reduceIte, Bool.false_eq_true] at h ⊢
            cases hs : stripSuffix crlf c with
            | none =>
              simp only [hs] at h ⊢
              exact ih m rest buf' ext r eof' (by omega) h hd
            | some line =>
              simp only [hs] at h ⊢
              cases hp : stripPrefix dd line with
              | none =>
                simp only [hp] at h ⊢
                exact ih m rest buf' ext r eof' (by omega) h hd
              | some l2 =>
                simp only [hp] at h ⊢
                cases h1 : (l2 == b) with
                | true =>
                  simp only [h1, ↓reduceIte] at h ⊢
                  cases h; rfl
                | false =>
                  simp only [h1, ↓reduceIte, Bool.false_eq_true] at h ⊢
                  cases h2 : (stripSuffix dd l2 == some b) with
                  | true =>
                    simp only [h2, ↓reduceIte] at h ⊢
                    cases h; rfl
                  | false =>
                    simp only [h2, ↓reduceIte, Bool.false_eq_true] at h ⊢
                    exact ih m rest buf' ext r eof' (by omega) h hd

theorem readlineOrEof_noeof (buf : Bytes) : readlineOrEof buf false = readline buf false := by
  unfold readlineOrEof
  cases h : readline buf false with
  | error e => exact absurd h readline_noeof
  | ok o => rfl

theorem readlineOrEof_found {buf c r : Bytes} {eof' : Bool} (h : readline buf eof' = .ok (some (c, r))) :
    readlineOrEof buf eof' = .ok (some (c, r)) := by
  unfold readlineOrEof
  rw [h]

theorem readBoundary_stable (b buf buf' ext : Bytes) (r : Except Err (Option Bool)) (eof' : Bool)
    (h : readBoundary b buf false = (r, buf')) (hd : r ≠ .ok none) :
    readBoundary b (buf ++ ext) eof' = (r, buf' ++ ext) := by
  unfold readBoundary at h ⊢
  cases hb : b.isEmpty with
  | true => simp only [hb, ↓reduceIte] at h ⊢; cases h; rfl
  | false =>
    simp only [hb, ↓reduceIte, Bool.false_eq_true] at h ⊢
    rw [readlineOrEof_noeof] at h
    cases hl : readline buf false with
    | error e => exact absurd hl readline_noeof
    | ok o =>
      cases o with
      | none =>
        simp only [hl] at h
        simp at h
        exact absurd h.1.symm hd
      | some cr =>
        obtain ⟨c, rest⟩ := cr
        simp only [hl] at h
        rw [readlineOrEof_found (readline_stable hl ext eof')]
        dsimp only at h ⊢
        cases h1 : stripPrefix dd c with
        | none => simp only [h1] at h ⊢; cases h; rfl
        | some c1 =>
          simp only [h1] at h ⊢
          cases h2 : stripPrefix b c1 with
          | none => simp only [h2] at h ⊢; cases h; rfl
          | some c2 =>
            simp only [h2] at h ⊢
            cases h3 : (c2 == crlf) with
            | true => simp only [h3, ↓reduceIte] at h ⊢; cases h; rfl
            | false =>
              simp only [h3, ↓reduceIte, Bool.false_eq_true] at h ⊢
              cases h4 : (c2 == dd || c2 == dd ++ crlf) with
              | true => simp only [h4, ↓reduceIte] at h ⊢; cases h; rfl
              | false => simp only [h4, ↓reduceIte, Bool.false_eq_true] at h ⊢; cases h; rfl

theorem readFieldHeaders_stable (cfg : Cfg) (buf ext : Bytes) (eof' : Bool) :
    (∀ hs r, readFieldHeaders cfg buf false = .ok (some (hs, r)) →
      readFieldHeaders cfg (buf ++ ext) eof' = .ok (some (hs, r ++ ext))) ∧
    (∀ e, readFieldHeaders cfg buf false = .error e → readFieldHeaders cfg (buf ++ ext) eof' = .error e) := by
  unfold readFieldHeaders
  cases hc : (cfg.f16 && crlf.isPrefixOf buf) with
  | true =>
    have hc2 : (cfg.f16 && crlf.isPrefixOf (buf ++ ext)) = true := by
      simp at hc ⊢
      exact ⟨hc.1, hc.2.trans (List.prefix_append _ _)⟩
    have h2 : 2 ≤ buf.length := by
      simp at hc
      have := hc.2.length_le
      simpa [crlf] using this
    simp only [hc2, ↓reduceIte]
    constructor
    · intro hs r h
      cases h
      simp [List.drop_append_of_le_length h2]
    · intro e h; cases h
  | false =>
    simp only [↓reduceIte, Bool.false_eq_true]
    cases hu : readUntil crlfcrlf buf false with
    | error e =>
      exfalso
      unfold readUntil at hu
      split at hu <;> simp at hu
    | ok o =>
      cases o with
      | none =>
        simp only []
        constructor
        · intro hs r h; simp at h
        · intro e h; simp at h
      | some cr =>
        obtain ⟨c, rest⟩ := cr
        have hst := readUntil_stable hu ext eof'
        -- the blank-line test stays negative: the block found has at least 4 bytes, all inside `buf`
        have hc2 : (cfg.f16 && crlf.isPrefixOf (buf ++ ext)) = false := by
          cases h16 : cfg.f16 with
          | false => simp
          | true =>
            simp only [h16, Bool.true_and] at hc ⊢
            cases hp : crlf.isPrefixOf (buf ++ ext) with
            | false => rfl
            | true =>
              exfalso
              have hlen : 4 ≤ buf.length := by
                unfold readUntil at hu
                cases hf : findSub crlfcrlf buf with
                | none => simp [hf] at hu
                | some i => have := findSub_some_len hf; simp [crlfcrlf] at this; omega
              obtain ⟨t, ht⟩ := List.isPrefixOf_iff_prefix.mp hp
              have h1 : crlf = (buf ++ ext).take 2 := by rw [← ht]; simp [crlf]
              rw [List.take_append_of_le_length (by omega)] at h1
              have : crlf.isPrefixOf buf = true := by
                apply List.isPrefixOf_iff_prefix.mpr
                rw [h1]; exact List.take_prefix _ _
              rw [this] at hc; cases hc
        simp only [hc2, ↓reduceIte, Bool.false_eq_true, hst]
        cases hp : parseHeaders (c.length + 1) Consts.mpMaxHeaders c with
        | ok hs =>
          constructor
          · intro hs' r h; simp at h; obtain ⟨rfl, rfl⟩ := h; rfl
          · intro e h; simp at h
        | error e0 =>
          cases e0 <;>
          · constructor
            · intro hs' r h; simp at h
            · intro e h; simp at h; subst h; rfl


/-- with the stream still open `skip_until_boundary` fails only with `BoundaryMissing`: its fuel
(`len + 1` lines) is never used up -/
theorem skipUntilBoundary_err (b : Bytes) : ∀ (fuel : Nat) (buf buf' : Bytes) (e : Err),
    buf.length < fuel → skipUntilBoundary b fuel buf false = (.error e, buf') → e = .boundaryMissing := by
  intro fuel
  induction fuel with
  | zero => intro buf buf' e hl _; omega
  | succ n ih =>
    intro buf buf' e hl h
    unfold skipUntilBoundary at h
    cases hb : b.isEmpty with
    | true => simp only [hb, ↓reduceIte] at h; cases h; rfl
    | false =>
      simp only [hb, ↓reduceIte, Bool.false_eq_true] at h
      cases hr : readline buf false with
      | error e0 => exact absurd hr readline_noeof
      | ok o =>
        cases o with
        | none => simp [hr] at h
        | some cr =>
          obtain ⟨c, rest⟩ := cr
          simp only [hr] at h
          have hlt : rest.length < buf.length := readUntil_strict hr (by simp)
          have hrec : ∀ x, skipUntilBoundary b n rest false = x → x = (.error e, buf') → e = .boundaryMissing := by
            intro x hx hx2; subst hx; exact ih rest buf' e (by omega) hx2
          cases hce : c.isEmpty with
          | true => simp only [hce, ↓reduceIte] at h; cases h; rfl
          | false =>
            simp only [hce, ↓reduceIte, Bool.false_eq_true] at h
            cases hs : stripSuffix crlf c with
            | none => simp only [hs] at h; exact hrec _ rfl h
            | some line =>
              simp only [hs] at h
              cases hp : stripPrefix dd line with
              | none => simp only [hp] at h; exact hrec _ rfl h
              | some l2 =>
                simp only [hp] at h
                cases h1 : (l2 == b) with
                | true => simp only [h1, ↓reduceIte] at h; cases h
                | false =>
                  simp only [h1, ↓reduceIte, Bool.false_eq_true] at h
                  cases h2 : (stripSuffix dd l2 == some b) with
                  | true => simp only [h2, ↓reduceIte] at h; cases h
                  | false =>
                    simp only [h2, ↓reduceIte, Bool.false_eq_true] at h
                    exact hrec _ rfl h

/-- the same parser state looking at a longer buffer / another end-of-stream flag -/
def withBuf (i : Inner) (buf : Bytes) (eof : Bool) : Inner :=
  { i with pb := { i.pb with buf := buf, eof := eof } }

theorem mkField_stable (i : Inner) (buf ext : Bytes) (eof' : Bool) (hs : List (Bytes × Bytes)) :
    mkField (withBuf i (i.pb.buf ++ ext) eof') (buf ++ ext) hs =
      (withBuf (mkField i buf hs).1 ((mkField i buf hs).1.pb.buf ++ ext) eof', (mkField i buf hs).2) := by
  unfold mkField withBuf
  dsimp only
  cases fieldChecks i.formData hs with
  | error e => rfl
  | ok x => rfl

theorem innerHeaders_stable (cfg : Cfg) (i : Inner) (buf ext : Bytes) (eof' : Bool)
    (he : i.pb.eof = false) (hp : (innerHeaders cfg i buf).2 ≠ .pending) :
    innerHeaders cfg (withBuf i (i.pb.buf ++ ext) eof') (buf ++ ext) =
      (withBuf (innerHeaders cfg i buf).1 ((innerHeaders cfg i buf).1.pb.buf ++ ext) eof',
        (innerHeaders cfg i buf).2) := by
  have hst := readFieldHeaders_stable cfg buf ext eof'
  unfold innerHeaders at hp ⊢
  simp only [he] at hp ⊢
  have e1 : (withBuf i (i.pb.buf ++ ext) eof').pb.eof = eof' := rfl
  rw [e1]
  cases h : readFieldHeaders cfg buf false with
  | error e =>
    rw [hst.2 e h]
    rfl
  | ok o =>
    cases o with
    | none => simp [h] at hp
    | some x =>
      obtain ⟨hs, r⟩ := x
      rw [hst.1 hs r h]
      exact mkField_stable i r ext eof' hs

theorem afterBoundary_stable (cfg : Cfg) (i : Inner) (r : Except Err (Option Bool)) (buf' ext : Bytes)
    (eof' : Bool) (he : i.pb.eof = false) (hp : (afterBoundary cfg i (r, buf')).2 ≠ .pending) :
    afterBoundary cfg (withBuf i (i.pb.buf ++ ext) eof') (r, buf' ++ ext) =
      (withBuf (afterBoundary cfg i (r, buf')).1 ((afterBoundary cfg i (r, buf')).1.pb.buf ++ ext) eof',
        (afterBoundary cfg i (r, buf')).2) := by
  unfold afterBoundary at hp ⊢
  cases r with
  | error e => rfl
  | ok o =>
    cases o with
    | none => simp at hp
    | some x =>
      cases x with
      | true => rfl
      | false =>
        simp only [] at hp ⊢
        exact innerHeaders_stable cfg { i with state := .headers } buf' ext eof' he hp

/-- **stability of `Inner::poll`'s decisions.** If the state machine, looking at `buf` with the stream
still open, delivers the next field, reports the end of the body or an error, it does exactly the same
(same field data, same next state, same bytes consumed) when looking at `buf ++ ext`, for any `ext`
and any end-of-stream flag. -/
theorem innerStates_stable (cfg : Cfg) (i : Inner) (ext : Bytes) (eof' : Bool)
    (he : i.pb.eof = false) (hp : (innerStates cfg i).2 ≠ .pending) :
    innerStates cfg (withBuf i (i.pb.buf ++ ext) eof') =
      (withBuf (innerStates cfg i).1 ((innerStates cfg i).1.pb.buf ++ ext) eof', (innerStates cfg i).2) := by
  unfold innerStates at hp ⊢
  have es : (withBuf i (i.pb.buf ++ ext) eof').state = i.state := rfl
  have eb : (withBuf i (i.pb.buf ++ ext) eof').boundary = i.boundary := rfl
  have ebuf : (withBuf i (i.pb.buf ++ ext) eof').pb.buf = i.pb.buf ++ ext := rfl
  have eeof : (withBuf i (i.pb.buf ++ ext) eof').pb.eof = eof' := rfl
  rw [es, eb, ebuf, eeof]
  cases hs : i.state with
  | firstBoundary =>
    simp only [hs, he] at hp ⊢
    cases hk : skipUntilBoundary i.boundary (i.pb.buf.length + 1) i.pb.buf false with
    | mk r buf' =>
      rw [hk] at hp
      have hd : Decided r := by
        cases r with
        | error e =>
          have := skipUntilBoundary_err i.boundary _ _ buf' e (Nat.lt_succ_self _) hk
          subst this
          exact Or.inr rfl
        | ok o =>
          cases o with
          | none => simp [afterBoundary] at hp
          | some x => exact Or.inl ⟨x, rfl⟩
      rw [skipUntilBoundary_stable i.boundary _ ((i.pb.buf ++ ext).length + 1) _ buf' ext r eof'
        (by simp) hk hd]
      exact afterBoundary_stable cfg i r buf' ext eof' he hp
  | boundary =>
    simp only [hs, he] at hp ⊢
    cases hk : readBoundary i.boundary i.pb.buf false with
    | mk r buf' =>
      rw [hk] at hp
      have hd : r ≠ .ok none := by
        intro hr; subst hr; simp [afterBoundary] at hp
      rw [readBoundary_stable i.boundary _ buf' ext r eof' hk hd]
      exact afterBoundary_stable cfg i r buf' ext eof' he hp
  | headers =>
    simp only [hs] at hp ⊢
    exact innerHeaders_stable cfg i i.pb.buf ext eof' he hp
  | eof =>
    simp only [hs] at hp ⊢
    exact innerHeaders_stable cfg i i.pb.buf ext eof' he hp


/-- the same for the whole of `Inner::poll`, when the previous field (if any) has been read to its end -/
theorem innerPoll_stable (cfg : Cfg) (i : Inner) (ext : Bytes) (eof' : Bool)
    (he : i.pb.eof = false)
    (hitem : i.item = none ∨ ∃ f, i.item = some f ∧ f.hasPayload = false)
    (hp : (innerPoll cfg i).2 ≠ .pending) :
    innerPoll cfg (withBuf i (i.pb.buf ++ ext) eof') =
      (withBuf (innerPoll cfg i).1 ((innerPoll cfg i).1.pb.buf ++ ext) eof', (innerPoll cfg i).2) := by
  unfold innerPoll at hp ⊢
  have es : (withBuf i (i.pb.buf ++ ext) eof').state = i.state := rfl
  have ei : (withBuf i (i.pb.buf ++ ext) eof').item = i.item := rfl
  rw [es, ei]
  cases hs : (i.state == St.eof) with
  | true =>
    simp only [hs, ↓reduceIte] at hp ⊢
  | false =>
    simp only [hs, ↓reduceIte, Bool.false_eq_true] at hp ⊢
    rcases hitem with hn | ⟨f, hf, hpl⟩
    · simp only [hn] at hp ⊢
      exact innerStates_stable cfg i ext eof' he hp
    · simp only [hf] at hp ⊢
      have rel : ∀ (b : Bytes) (peof : Bool) (k : Nat) (buf : Bytes),
          releaseLoop cfg b peof (k + 1) f buf = .released buf := by
        intro b peof k buf
        unfold releaseLoop fieldPoll
        simp [hpl]
      have e1 : (withBuf i (i.pb.buf ++ ext) eof').pb.buf.length + 2 = ((i.pb.buf ++ ext).length + 1) + 1 := rfl
      have e2 : i.pb.buf.length + 2 = (i.pb.buf.length + 1) + 1 := rfl
      rw [e1, rel]
      rw [e2, rel] at hp ⊢
      simp only [] at hp ⊢
      have := innerStates_stable cfg { i with item := none, pb := { i.pb with buf := i.pb.buf } } ext eof' he hp
      exact this

end ActixModel.Multipart
