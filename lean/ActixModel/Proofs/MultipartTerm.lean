import ActixModel.Proofs.Multipart
import ActixModel.Proofs.MultipartScan
/-
Termination of the whole system: every consumer step that does not finish the run decreases a
measure built from the bytes still in the script / kept back / buffered, the number of script items,
the consumer's mode and the recorded wake-up.  Hence every script is decided (EOF or error) within
`fuelFor script` steps: no livelock.  Also: conservation of the input bytes by `poll_stream`.
-/
namespace ActixModel.Multipart
open ActixModel.Util

/-- all bytes the script still holds -/
def tokBytes : List Tok → Bytes
  | [] => []
  | .chunk b :: r => b ++ tokBytes r
  | _ :: r => tokBytes r

def pendBytes (pb : PB) : Bytes := pb.pending.getD []

/-- the input that has not been parsed yet: buffer, kept-back rest of a chunk, script -/
def rem (pb : PB) : Bytes := pb.buf ++ (pendBytes pb ++ tokBytes pb.script)

/-- bytes weigh more the further they are from the parser; every script item weighs 4 -/
def muPB (pb : PB) : Nat :=
  4 * pb.buf.length + 6 * (pendBytes pb).length + 8 * (tokBytes pb.script).length + 4 * pb.script.length

theorem appendPending_mu {pb pb' : PB} {a : Bool} (h : appendPending pb = .ok (pb', a)) :
    rem pb' = rem pb ∧ muPB pb' ≤ muPB pb ∧ (a = true → muPB pb' + 2 ≤ muPB pb) := by
  unfold appendPending at h
  split at h
  · cases h; exact ⟨rfl, Nat.le_refl _, by intro h; cases h⟩
  · rename_i data hp
    split at h
    · rename_i he
      cases h
      have : data = [] := by cases data with | nil => rfl | cons _ _ => simp at he
      subst this
      refine ⟨by simp [rem, pendBytes, hp], by simp [muPB, pendBytes, hp], by intro h; cases h⟩
    · rename_i hne
      have hd : 0 < data.length := by
        cases data with
        | nil => simp at hne
        | cons _ _ => simp
      split at h
      · cases h
      · rename_i hlt
        dsimp only at h
        simp at hlt
        split at h
        · rename_i hlen
          cases h
          simp at hlen
          refine ⟨by simp [rem, pendBytes, hp], ?_, ?_⟩
          · simp [muPB, pendBytes, hp]; omega
          · intro ha
            simp at ha
            simp [muPB, pendBytes, hp]; omega
        · rename_i hlen
          cases h
          simp at hlen
          refine ⟨?_, ?_, ?_⟩
          · simp only [rem, pendBytes, hp, Option.getD_some, List.append_assoc]
            congr 1
            rw [← List.append_assoc, List.take_append_drop]
          · simp [muPB, pendBytes, hp]; omega
          · intro ha
            simp at ha
            simp [muPB, pendBytes, hp]; omega


theorem pollLoop_mu (cfg : Cfg) : ∀ (n : Nat) (pb : PB) (app : Bool) (pb' : PB) (w : Bool),
    pollLoop cfg n pb app = .ok (pb', w) →
    rem pb' = rem pb ∧ muPB pb' ≤ muPB pb ∧ (w = true → app = true ∨ muPB pb' + 2 ≤ muPB pb) := by
  intro n
  induction n with
  | zero =>
    intro pb app pb' w h
    simp [pollLoop] at h
    obtain ⟨rfl, rfl⟩ := h
    exact ⟨rfl, Nat.le_refl _, fun h => Or.inl h⟩
  | succ n ih =>
    intro pb app pb' w h
    have tail : ∀ (pb1 : PB) (app2 : Bool),
        (if mustStop pb1 = true then Except.ok (pb1, app2) else pollLoop cfg n pb1 app2) = .ok (pb', w) →
        rem pb' = rem pb1 ∧ muPB pb' ≤ muPB pb1 ∧ (w = true → app2 = true ∨ muPB pb' + 2 ≤ muPB pb1) := by
      intro pb1 app2 h1
      split at h1
      · cases h1; exact ⟨rfl, Nat.le_refl _, fun h => Or.inl h⟩
      · exact ih pb1 app2 pb' w h1
    unfold pollLoop at h
    split at h
    · split at h
      · cases h
      · rename_i pb1 a h1
        obtain ⟨r1, m1, d1⟩ := appendPending_mu h1
        obtain ⟨r2, m2, d2⟩ := tail pb1 _ h
        refine ⟨r2.trans r1, Nat.le_trans m2 m1, ?_⟩
        intro hw
        rcases d2 hw with h3 | h3
        · simp at h3
          rcases h3 with h3 | h3
          · exact Or.inl h3
          · right; have := d1 h3; omega
        · right; omega
    · rename_i hnone
      have hpn : pb.pending = none := by
        cases hp : pb.pending with
        | none => rfl
        | some d => simp [hp] at hnone
      split at h
      · cases h
        exact ⟨by simp [rem, pendBytes], by simp [muPB, pendBytes], by intro h; cases h⟩
      · rename_i d rest hs
        split at h
        · cases h
        · rename_i pb1 a h1
          obtain ⟨r1, m1, _⟩ := appendPending_mu h1
          obtain ⟨r2, m2, _⟩ := tail pb1 _ h
          have r0 : rem { pb with script := rest, pending := some d } = rem pb := by
            simp [rem, pendBytes, hpn, hs, tokBytes]
          have m0 : muPB { pb with script := rest, pending := some d } + 4 ≤ muPB pb := by
            simp [muPB, pendBytes, hpn, hs, tokBytes]; omega
          refine ⟨r2.trans (r1.trans r0), by omega, ?_⟩
          intro _; right; omega
      · cases h
      · rename_i rest hs
        cases h
        refine ⟨by simp [rem, pendBytes, hs, tokBytes], by simp [muPB, pendBytes, hs, tokBytes]; omega, ?_⟩
        intro _; right
        simp [muPB, pendBytes, hs, tokBytes]; omega

theorem pollStream_mu {cfg : Cfg} {pb pb' : PB} {w : Bool} (h : pollStream cfg pb = .ok (pb', w)) :
    rem pb' = rem pb ∧ muPB pb' ≤ muPB pb ∧ (w = true → muPB pb' + 2 ≤ muPB pb) := by
  unfold pollStream at h
  split at h
  · cases h
  · obtain ⟨h1, h2, h3⟩ := pollLoop_mu cfg _ pb false pb' w h
    refine ⟨h1, h2, ?_⟩
    intro hw
    rcases h3 hw with h4 | h4
    · cases h4
    · exact h4

theorem Shrinks.mu {a b : PB} (h : Shrinks a b) : muPB a ≤ muPB b ∧
    (a.buf.length < b.buf.length → muPB a + 4 ≤ muPB b) := by
  have h1 := h.buf
  unfold muPB pendBytes
  rw [h.pending, h.script]
  constructor
  · omega
  · intro _; omega


/-! delivering something means having consumed something -/

theorem readUntil_strict {needle buf c r : Bytes} {eof : Bool}
    (h : readUntil needle buf eof = .ok (some (c, r))) (hn : needle ≠ []) : r.length < buf.length := by
  unfold readUntil at h
  cases hf : findSub needle buf with
  | none => simp [hf] at h; split at h <;> cases h
  | some i =>
    simp [hf] at h
    have := findSub_some_len hf
    have hl : 0 < needle.length := by cases needle with | nil => exact absurd rfl hn | cons _ _ => simp
    obtain ⟨_, rfl⟩ := h
    simp; omega

theorem readFieldHeaders_strict {cfg : Cfg} {buf : Bytes} {eof : Bool} {hs : List (Bytes × Bytes)}
    {r : Bytes} (h : readFieldHeaders cfg buf eof = .ok (some (hs, r))) : r.length < buf.length := by
  unfold readFieldHeaders at h
  split at h
  · rename_i hc
    cases h
    simp at hc
    have := hc.2.length_le
    simp [crlf] at this
    simp; omega
  · split at h
    · cases h
    · split at h <;> cases h
    · rename_i c r' hu
      split at h
      · cases h; exact readUntil_strict hu (by simp [crlfcrlf])
      · cases h
      · cases h

theorem mkField_buf (i : Inner) (buf : Bytes) (hs : List (Bytes × Bytes)) :
    (mkField i buf hs).1.pb.buf = buf := by
  unfold mkField
  dsimp only
  split <;> rfl

theorem innerHeaders_field {cfg : Cfg} {i : Inner} {buf : Bytes} {info : FieldInfo}
    (h : (innerHeaders cfg i buf).2 = .field info) : (innerHeaders cfg i buf).1.pb.buf.length < buf.length := by
  unfold innerHeaders at h ⊢
  split
  · rename_i h1; rw [h1] at h; cases h
  · rename_i h1; rw [h1] at h; cases h
  · rename_i hs b' h1
    rw [mkField_buf]
    exact readFieldHeaders_strict h1

theorem afterBoundary_field {cfg : Cfg} {i : Inner} {r : Except Err (Option Bool) × Bytes}
    {info : FieldInfo} (h : (afterBoundary cfg i r).2 = .field info) :
    (afterBoundary cfg i r).1.pb.buf.length < r.2.length := by
  unfold afterBoundary at h ⊢
  split
  · simp at h
  · simp at h
  · simp at h
  · exact innerHeaders_field h

theorem innerStates_field {cfg : Cfg} {i : Inner} {info : FieldInfo}
    (h : (innerStates cfg i).2 = .field info) :
    (innerStates cfg i).1.pb.buf.length < i.pb.buf.length := by
  unfold innerStates at h ⊢
  cases hs : i.state <;> simp only [hs] at h ⊢
  · exact Nat.lt_of_lt_of_le (afterBoundary_field h) (skipUntilBoundary_len _ _ _ _)
  · exact Nat.lt_of_lt_of_le (afterBoundary_field h) (readBoundary_len _ _ _)
  · exact innerHeaders_field h
  · exact innerHeaders_field h

theorem innerPoll_field {cfg : Cfg} {i : Inner} {info : FieldInfo}
    (h : (innerPoll cfg i).2 = .field info) : (innerPoll cfg i).1.pb.buf.length < i.pb.buf.length := by
  unfold innerPoll at h ⊢
  split
  · rename_i h1; simp [h1] at h
  · rename_i h1
    simp only [h1] at h
    split
    · rename_i f hf
      simp only [hf] at h
      have hl := releaseLoop_len cfg i.boundary i.pb.eof (i.pb.buf.length + 2) f i.pb.buf
      split
      · rename_i h2; simp [h2] at h
      · rename_i h2; simp [h2] at h
      · rename_i b' h2
        simp only [h2] at h
        exact Nat.lt_of_lt_of_le (innerStates_field h) (hl.2 b' h2)
    · rename_i hf; simp only [hf] at h; exact innerStates_field h

theorem fieldPoll_data {cfg : Cfg} {b : Bytes} {f f' : IField} {buf buf' bs : Bytes} {peof : Bool}
    (h5 : cfg.f5 = true) (h17 : cfg.f17 = true)
    (h : fieldPoll cfg b f buf peof = (f', buf', .data bs)) : buf'.length < buf.length := by
  have tail_ne : ∀ f0, (fieldTail f0 buf peof) ≠ (f', buf', .data bs) := by
    intro f0 ht
    unfold fieldTail at ht
    split at ht <;> simp at ht
  unfold fieldPoll at h
  split at h
  · simp at h
  · split at h
    · split at h
      · rename_i len _
        split at h
        · simp at h
        · rename_i n b1 l1 hr
          simp at h
          obtain ⟨_, rfl, _⟩ := h
          -- read_len delivers min(buf.len, size) > 0 bytes
          unfold readLen readMax at hr
          split at hr
          · simp at hr
          · rename_i hsz
            split at hr
            · simp at hr
            · rename_i c r hm
              split at hm
              · rename_i hne
                simp at hm
                obtain ⟨rfl, rfl⟩ := hm
                simp at hr
                obtain ⟨_, rfl, _⟩ := hr
                simp at hne hsz
                have : 0 < buf.length := by cases buf with | nil => exact absurd rfl hne | cons _ _ => simp
                simp; omega
              · split at hm <;> cases hm
            · split at hr <;> simp at hr
        · simp at h
        · exact absurd h (tail_ne _)
      · split at h
        · simp at h
        · rename_i n hr
          simp at h
          obtain ⟨_, rfl, _⟩ := h
          obtain ⟨h0, h1, _⟩ := readStream_data h5 h17 hr []
          simp; omega
        · simp at h
        · exact absurd h (tail_ne _)
    · exact absurd h (tail_ne _)


/-! ### the measure of the whole system -/

def modeW : Mode → Nat
  | .atMp => 0
  | .inField _ => 2

def muSys (s : Sys) : Nat := muPB s.inner.pb + modeW s.mode + (if s.woken then 1 else 0)

theorem muPB_setBuf (pb : PB) {b : Bytes} (h : b.length ≤ pb.buf.length) :
    muPB { pb with buf := b } ≤ muPB pb ∧ (b.length < pb.buf.length → muPB { pb with buf := b } + 4 ≤ muPB pb) :=
  (Shrinks.setBuf pb h).mu

/-- every consumer step either finishes the run or decreases the measure -/
theorem step_mu (cfg : Cfg) (h5 : cfg.f5 = true) (h17 : cfg.f17 = true) (s : Sys) :
    (step cfg s).finished = true ∨ muSys (step cfg s) < muSys s := by
  unfold step
  split
  · rename_i hmode
    split
    · left; rfl
    · rename_i pb' w h
      obtain ⟨_, hm, hw⟩ := pollStream_mu h
      have hs := innerPoll_shrinks cfg { s.inner with pb := pb' }
      dsimp only
      split
      · rename_i i' hq
        rw [hq] at hs
        have hmu := hs.mu.1
        simp only [] at hmu
        unfold Sys.onPending
        dsimp only
        split
        · rename_i hwk
          right
          simp only [muSys, hmode, modeW]
          cases w with
          | true => have := hw rfl; simp; split <;> omega
          | false =>
            simp at hwk
            simp [hwk]; omega
        · left; rfl
      · left; rfl
      · left; rfl
      · rename_i i' info hq
        have hf := innerPoll_field (cfg := cfg) (i := { s.inner with pb := pb' }) (info := info) (by rw [hq])
        rw [hq] at hs hf
        have hmu := hs.mu.2 hf
        simp only [] at hmu
        right
        simp only [muSys, Sys.push, hmode, modeW]
        cases w with
        | true => have := hw rfl; simp; split <;> omega
        | false => simp; omega
  · rename_i left hmode
    split
    · right
      simp only [muSys, Sys.push, hmode, modeW]
      simp; split <;> omega
    · split
      · left; rfl
      · rename_i pb' w h
        obtain ⟨_, hm, hw⟩ := pollStream_mu h
        dsimp only
        split
        · left; rfl
        · rename_i f hf
          have hlen := fieldPoll_len cfg s.inner.boundary f pb'.buf pb'.eof
          split
          · rename_i f' b' hq
            rw [hq] at hlen
            have hmu := (muPB_setBuf pb' (b := b') (by simpa using hlen)).1
            unfold Sys.onPending
            dsimp only
            split
            · rename_i hwk
              right
              simp only [muSys, hmode, modeW]
              cases w with
              | true => have := hw rfl; simp; split <;> omega
              | false =>
                simp at hwk
                simp [hwk]; omega
            · left; rfl
          · rename_i f' b' hq
            rw [hq] at hlen
            have hmu := (muPB_setBuf pb' (b := b') (by simpa using hlen)).1
            right
            simp only [muSys, Sys.push, hmode, modeW]
            simp; split <;> omega
          · rename_i f' b' bs hq
            have hst := fieldPoll_data h5 h17 hq
            have hmu := (muPB_setBuf pb' (b := b') (by omega)).2 hst
            right
            simp only [muSys, Sys.push, hmode, modeW]
            cases w with
            | true => have := hw rfl; simp; split <;> omega
            | false => simp; omega
          · left; rfl

theorem run_finishes (cfg : Cfg) (h5 : cfg.f5 = true) (h17 : cfg.f17 = true) : ∀ (fuel : Nat) (s : Sys),
    muSys s < fuel → (run cfg fuel s).finished = true := by
  intro fuel
  induction fuel with
  | zero => intro s h; omega
  | succ n ih =>
    intro s h
    unfold run
    split
    · assumption
    · rcases step_mu cfg h5 h17 s with hf | hd
      · cases n with
        | zero => simpa [run] using hf
        | succ k => unfold run; simp [hf]
      · exact ih _ (by omega)

theorem tokBytes_length : ∀ (script : List Tok), (tokBytes script).length = scriptBytes script := by
  intro script
  induction script with
  | nil => rfl
  | cons t r ih => cases t <;> simp [tokBytes, scriptBytes, ih]


theorem muSys_init (boundary : Bytes) (form : Bool) (limit : Nat) (plans : List (Option Nat))
    (script : List Tok) : muSys (initSys boundary form limit plans script) < fuelFor script := by
  simp [muSys, initSys, muPB, pendBytes, modeW, fuelFor, tokBytes_length]
  omega

/-- a run that has finished ended with a final event -/
def Terminal (e : Ev) : Prop := e = .eof ∨ e = .hang ∨ ∃ x, e = .fail x

theorem step_shape (cfg : Cfg) (s : Sys) :
    (step cfg s).finished = s.finished ∨
    ((step cfg s).finished = true ∧ ∃ e k, (step cfg s).trace = (e, k) :: s.trace ∧ Terminal e) := by
  unfold step
  split
  · split
    · rename_i e pb' _
      exact Or.inr ⟨rfl, .fail e, _, rfl, Or.inr (Or.inr ⟨e, rfl⟩)⟩
    · dsimp only
      split
      · unfold Sys.onPending
        dsimp only
        split
        · left; rfl
        · exact Or.inr ⟨rfl, .hang, _, rfl, Or.inr (Or.inl rfl)⟩
      · exact Or.inr ⟨rfl, .eof, _, rfl, Or.inl rfl⟩
      · rename_i i' e hq; exact Or.inr ⟨rfl, .fail e, _, rfl, Or.inr (Or.inr ⟨e, rfl⟩)⟩
      · left; rfl
  · split
    · left; rfl
    · split
      · rename_i e pb' _
        exact Or.inr ⟨rfl, .fail e, _, rfl, Or.inr (Or.inr ⟨e, rfl⟩)⟩
      · dsimp only
        split
        · exact Or.inr ⟨rfl, .hang, _, rfl, Or.inr (Or.inl rfl)⟩
        · split
          · unfold Sys.onPending
            dsimp only
            split
            · left; rfl
            · exact Or.inr ⟨rfl, .hang, _, rfl, Or.inr (Or.inl rfl)⟩
          · left; rfl
          · left; rfl
          · rename_i f' b' e hq; exact Or.inr ⟨rfl, .fail e, _, rfl, Or.inr (Or.inr ⟨e, rfl⟩)⟩

theorem step_terminal (cfg : Cfg) (s : Sys) (hs : s.finished = false)
    (h : (step cfg s).finished = true) : ∃ e k, (step cfg s).trace = (e, k) :: s.trace ∧ Terminal e := by
  rcases step_shape cfg s with h1 | ⟨_, h2⟩
  · rw [h1, hs] at h; cases h
  · exact h2

theorem run_terminal (cfg : Cfg) : ∀ (fuel : Nat) (s : Sys), s.finished = false →
    (run cfg fuel s).finished = true →
    ∃ e k rest, (run cfg fuel s).trace = (e, k) :: rest ∧ Terminal e := by
  intro fuel
  induction fuel with
  | zero => intro s hs h; simp [run, hs] at h
  | succ n ih =>
    intro s hs h
    unfold run at h ⊢
    simp only [hs] at h ⊢
    cases hf : (step cfg s).finished with
    | false => exact ih _ hf h
    | true =>
      have hr : run cfg n (step cfg s) = step cfg s := by
        cases n with
        | zero => rfl
        | succ k => unfold run; simp [hf]
      rw [hr]
      obtain ⟨e, k, h1, h2⟩ := step_terminal cfg s hs hf
      exact ⟨e, k, _, h1, h2⟩

end ActixModel.Multipart
