import ActixModel.Model.Negotiate
/-
Helper lemmas for C13 (negotiation): the stable insertion sort is a permutation sorted by
`score = 8·q + rank`, and `find?` on a sorted list returns a maximal element among the matches.
-/
namespace ActixModel.Negotiate

theorem encodingRank_le (a : QItem) : encodingRank a ≤ 5 := by
  unfold encodingRank
  split
  · omega
  · split <;> omega

/-- single number that the `sort_by` comparator orders by (descending) -/
def score (a : QItem) : Nat := a.q * 8 + encodingRank a

theorem before_iff (a b : QItem) : before a b = true ↔ score b < score a := by
  have ha := encodingRank_le a
  have hb := encodingRank_le b
  simp only [before, score, Bool.or_eq_true, Bool.and_eq_true, decide_eq_true_eq, beq_iff_eq]
  omega

theorem q_le_of_score_le {a b : QItem} (h : score b ≤ score a) : b.q ≤ a.q := by
  have ha := encodingRank_le a
  have hb := encodingRank_le b
  simp only [score] at h
  omega

theorem mem_insertSorted {x y : QItem} {l : List QItem} :
    y ∈ insertSorted x l ↔ y = x ∨ y ∈ l := by
  induction l with
  | nil => simp [insertSorted]
  | cons a t ih =>
    simp only [insertSorted]
    split
    · simp only [List.mem_cons, ih]
      constructor
      · rintro (h | h | h) <;> simp [h]
      · rintro (h | h | h) <;> simp [h]
    · simp only [List.mem_cons]

theorem mem_sortStable {y : QItem} {l : List QItem} : y ∈ sortStable l ↔ y ∈ l := by
  induction l with
  | nil => simp [sortStable]
  | cons a t ih => simp only [sortStable, mem_insertSorted, ih, List.mem_cons]

theorem length_insertSorted (x : QItem) (l : List QItem) :
    (insertSorted x l).length = l.length + 1 := by
  induction l with
  | nil => simp [insertSorted]
  | cons a t ih =>
    simp only [insertSorted]
    split <;> simp [ih]

theorem length_sortStable (l : List QItem) : (sortStable l).length = l.length := by
  induction l with
  | nil => simp [sortStable]
  | cons a t ih => simp [sortStable, length_insertSorted, ih]

/-- descending by score -/
abbrev Sorted (l : List QItem) : Prop := l.Pairwise (fun a b => score b ≤ score a)

theorem sorted_insertSorted {x : QItem} {l : List QItem} (h : Sorted l) :
    Sorted (insertSorted x l) := by
  induction l with
  | nil => simp [insertSorted, Sorted]
  | cons a t ih =>
    have hc := List.pairwise_cons.mp h
    simp only [insertSorted]
    split
    · rename_i hb
      have hb' := (before_iff a x).mp hb
      refine List.pairwise_cons.mpr ⟨?_, ih hc.2⟩
      intro z hz
      rcases mem_insertSorted.mp hz with rfl | hz
      · omega
      · exact hc.1 z hz
    · rename_i hb
      have hb' : ¬ score x < score a := fun h' => hb ((before_iff a x).mpr h')
      refine List.pairwise_cons.mpr ⟨?_, h⟩
      intro z hz
      rcases List.mem_cons.mp hz with rfl | hz
      · omega
      · have := hc.1 z hz
        omega

theorem sorted_sortStable (l : List QItem) : Sorted (sortStable l) := by
  induction l with
  | nil => simp [sortStable, Sorted]
  | cons a t ih => exact sorted_insertSorted ih

/-- in a list sorted by descending score, `find?` returns a match of maximal score -/
theorem find?_max {p : QItem → Bool} {l : List QItem} {x : QItem} (hs : Sorted l)
    (hf : l.find? p = some x) : ∀ y ∈ l, p y = true → score y ≤ score x := by
  induction l with
  | nil => simp at hf
  | cons a t ih =>
    have hc := List.pairwise_cons.mp hs
    intro y hy hp
    by_cases hpa : p a = true
    · simp only [List.find?_cons, hpa] at hf
      cases hf
      rcases List.mem_cons.mp hy with rfl | hy
      · exact Nat.le_refl _
      · exact hc.1 y hy
    · have hpa' : p a = false := by simpa using hpa
      simp only [List.find?_cons, hpa'] at hf
      rcases List.mem_cons.mp hy with rfl | hy
      · exact absurd hp hpa
      · exact ih hc.2 hf y hy hp

theorem mem_dedup {x : Coding} {l : List Coding} : x ∈ dedup l ↔ x ∈ l := by
  induction l with
  | nil => simp [dedup]
  | cons a t ih =>
    simp only [dedup]
    split
    · rename_i hc
      have hc' : a ∈ t := by simpa using hc
      simp only [ih, List.mem_cons]
      constructor
      · exact Or.inr
      · rintro (rfl | h)
        · exact hc'
        · exact h
    · simp only [List.mem_cons, ih]

/-- a one-element set: all members are equal -/
theorem eq_of_dedup_length_one {l : List Coding} (h : (dedup l).length = 1) {a b : Coding}
    (ha : a ∈ l) (hb : b ∈ l) : a = b := by
  match hd : dedup l, h with
  | [z], _ =>
    have ha' := mem_dedup.mpr ha
    have hb' := mem_dedup.mpr hb
    rw [hd] at ha' hb'
    simp only [List.mem_singleton] at ha' hb'
    rw [ha', hb']

theorem rankedItems_of_ne_nil {ae : AE} (h : ae.isEmpty = false) : rankedItems ae = sortStable ae := by
  simp [rankedItems, h]

end ActixModel.Negotiate
