import ActixModel.Model.PanicCD
import ActixModel.Proofs.PanicCore
/-
Panic-freedom of `ContentDisposition::from_raw`'s byte-index slicing (model `Model/PanicCD.lean`).

Key fact: every index the code slices at is the position of, or directly follows, an ASCII byte
(`;`, `=`, `"`), and in valid UTF-8 an ASCII byte is never followed by a continuation byte
(`AF`, proved from the validity check `String::from_utf8` performs: `utf8Valid_AF`).
-/
namespace ActixModel.Panic.CD
open ActixModel.Panic ActixModel.Panic.Outcome

theorem charLen_facts (s : List Nat) (n : Nat) (h : charLen s = some n) :
    ¬ (128 ≤ s.getD 0 256 ∧ s.getD 0 256 < 192) ∧
    ((n = 1 ∧ s.getD 0 256 < 128) ∨
     (n = 2 ∧ 128 ≤ s.getD 0 256 ∧ 128 ≤ s.getD 1 256 ∧ s.getD 1 256 < 256) ∨
     (n = 3 ∧ 128 ≤ s.getD 0 256 ∧ 128 ≤ s.getD 1 256 ∧ 128 ≤ s.getD 2 256 ∧ s.getD 2 256 < 256) ∨
     (n = 4 ∧ 128 ≤ s.getD 0 256 ∧ 128 ≤ s.getD 1 256 ∧ 128 ≤ s.getD 2 256 ∧ 128 ≤ s.getD 3 256 ∧
        s.getD 3 256 < 256)) := by
  unfold charLen at h
  simp only [inR, isCont, Bool.and_eq_true, Bool.or_eq_true, decide_eq_true_eq] at h
  repeat' split at h
  all_goals (first | cases h | skip)
  all_goals omega


def AF (s : List Nat) : Prop :=
  ∀ i b c, s[i]? = some b → s[i + 1]? = some c → b < 128 → isCont c = false

theorem getD_of_getElem? {s : List Nat} {i b : Nat} (h : s[i]? = some b) : s.getD i 256 = b := by
  simp [List.getD_eq_getElem?_getD, h]

theorem isCont_false_of {c : Nat} (h : ¬ (128 ≤ c ∧ c < 192)) : isCont c = false := by
  unfold isCont
  by_cases h1 : 128 ≤ c
  · have h2 : ¬ c < 192 := fun h2 => h ⟨h1, h2⟩
    simp [h1, h2]
  · simp [h1]

/-- valid UTF-8 ⇒ no continuation byte follows an ASCII byte, and the string does not start
with a continuation byte -/
theorem utf8ValidF_AF : ∀ (f : Nat) (s : List Nat), utf8ValidF f s = true →
    AF s ∧ (∀ c, s[0]? = some c → isCont c = false)
  | 0, s, h => by
    simp [utf8ValidF] at h; subst h
    exact ⟨by intro i b c hb; simp at hb, by intro c hc; simp at hc⟩
  | f + 1, s, h => by
    rw [utf8ValidF] at h
    split at h
    · rename_i he
      simp at he; subst he
      exact ⟨by intro i b c hb; simp at hb, by intro c hc; simp at hc⟩
    · cases hcl : charLen s with
      | none => rw [hcl] at h; simp at h
      | some n =>
        rw [hcl] at h
        simp only at h
        obtain ⟨ihAF, ihHead⟩ := utf8ValidF_AF f (s.drop n) h
        obtain ⟨hhead, hfacts⟩ := charLen_facts s n hcl
        refine ⟨?_, ?_⟩
        · intro i b c hb hc hlt
          have gb := getD_of_getElem? hb
          have gc := getD_of_getElem? hc
          by_cases hin : i + 1 < n
          · -- both bytes inside the first (multi-byte) char: `b ≥ 128`
            exfalso
            rcases hfacts with ⟨rfl, _⟩ | ⟨rfl, h0, h1, _⟩ | ⟨rfl, h0, h1, h2, _⟩ | ⟨rfl, h0, h1, h2, h3, _⟩
            · omega
            · have : i = 0 := by omega
              subst this; omega
            · have : i = 0 ∨ i = 1 := by omega
              rcases this with rfl | rfl <;> omega
            · have : i = 0 ∨ i = 1 ∨ i = 2 := by omega
              rcases this with rfl | rfl | rfl <;> omega
          · by_cases heq : i + 1 = n
            · -- `b` is the last byte of the first char, `c` the head of the rest
              rcases hfacts with ⟨rfl, _⟩ | ⟨rfl, h0, h1, _⟩ | ⟨rfl, h0, h1, h2, _⟩ | ⟨rfl, h0, h1, h2, h3, _⟩
              · have : i = 0 := by omega
                subst this
                apply ihHead c
                rw [List.getElem?_drop]; simpa using hc
              · have : i = 1 := by omega
                subst this; omega
              · have : i = 2 := by omega
                subst this; omega
              · have : i = 3 := by omega
                subst this; omega
            · -- both bytes in the rest
              have hge : n ≤ i := by omega
              apply ihAF (i - n) b c
              · rw [List.getElem?_drop]; rw [show n + (i - n) = i by omega]; exact hb
              · rw [List.getElem?_drop]; rw [show n + (i - n + 1) = i + 1 by omega]; exact hc
              · exact hlt
        · intro c hc
          have gc := getD_of_getElem? hc
          rw [gc] at hhead
          exact isCont_false_of hhead

theorem utf8Valid_AF (s : List Nat) (h : utf8Valid s = true) : AF s :=
  (utf8ValidF_AF s.length s h).1


theorem AF_drop {s : List Nat} (n : Nat) (h : AF s) : AF (s.drop n) := by
  intro i b c hb hc hlt
  rw [List.getElem?_drop] at hb hc
  exact h (n + i) b c hb (by rw [Nat.add_assoc]; exact hc) hlt

theorem AF_take {s : List Nat} (n : Nat) (h : AF s) : AF (s.take n) := by
  intro i b c hb hc hlt
  rw [List.getElem?_take] at hb hc
  split at hb
  · split at hc
    · exact h i b c hb hc hlt
    · cases hc
  · cases hb

theorem AF_nil : AF [] := by intro i b c hb; simp at hb

theorem findByte_spec (c : Nat) : ∀ (s : List Nat) (i : Nat), findByte c s = some i → s[i]? = some c
  | [], i, h => by simp [findByte] at h
  | b :: bs, i, h => by
    rw [findByte] at h
    split at h
    · rename_i hb; cases h; simp [hb]
    · cases hf : findByte c bs with
      | none => rw [hf] at h; simp at h
      | some j =>
        rw [hf] at h; simp at h; subst h
        simpa using findByte_spec c bs j hf

theorem getElem?_lt {s : List Nat} {i b : Nat} (h : s[i]? = some b) : i < s.length := by
  exact (List.getElem?_eq_some_iff.mp h).1

theorem boundary_at_ascii {s : List Nat} {i c : Nat} (h : s[i]? = some c) (hc : c < 128) :
    isBoundary s i = true := by
  unfold isBoundary
  simp [h, isCont]
  omega

theorem boundary_after_ascii {s : List Nat} {i c : Nat} (haf : AF s) (h : s[i]? = some c)
    (hc : c < 128) : isBoundary s (i + 1) = true := by
  unfold isBoundary
  cases hn : s[i + 1]? with
  | none =>
    have : s.length ≤ i + 1 := List.getElem?_eq_none_iff.mp hn
    have := getElem?_lt h
    have : i + 1 = s.length := by omega
    simp [this]
  | some d =>
    have := haf i c d h hn hc
    simp [this]

/-- `split_once` never panics on a string with the `AF` property (ASCII needle), and its parts
are sub-strings again; the second part is empty or strictly shorter -/
theorem splitOnce_spec (s : List Nat) (needle : Nat) (haf : AF s) (hn : needle < 128) :
    ∃ f l, splitOnce s needle = .ok (f, l) ∧ AF f ∧ AF l ∧ (l = [] ∨ l.length < s.length) := by
  unfold splitOnce
  cases hf : findByte needle s with
  | none => exact ⟨s, [], rfl, haf, AF_nil, Or.inl rfl⟩
  | some sc =>
    have hsc := findByte_spec needle s sc hf
    have hlt := getElem?_lt hsc
    have hb1 : isBoundary s sc = true := boundary_at_ascii hsc hn
    have hd0 : (s.drop sc)[0]? = some needle := by rw [List.getElem?_drop]; simpa using hsc
    have hb2 : isBoundary (s.drop sc) 1 = true :=
      boundary_after_ascii (i := 0) (AF_drop sc haf) hd0 hn
    refine ⟨s.take sc, (s.drop sc).drop 1, ?_, AF_take sc haf, AF_drop 1 (AF_drop sc haf), Or.inr ?_⟩
    · simp [strSplitAt, hb1, hb2]
    · simp; omega

theorem trimStartF_drop : ∀ (f : Nat) (s : List Nat), ∃ n, trimStartF f s = s.drop n
  | 0, s => ⟨0, by simp [trimStartF]⟩
  | f + 1, s => by
    rw [trimStartF]
    split
    · exact ⟨0, by simp⟩
    · obtain ⟨n, hn⟩ := trimStartF_drop f (s.drop (wsLen s))
      exact ⟨wsLen s + n, by rw [hn, List.drop_drop]⟩

theorem trimEndF_take : ∀ (f : Nat) (s : List Nat), ∃ n, trimEndF f s = s.take n
  | 0, s => ⟨s.length, by simp [trimEndF]⟩
  | f + 1, s => by
    rw [trimEndF]
    split
    · exact ⟨s.length, by simp⟩
    · obtain ⟨n, hn⟩ := trimEndF_take f (s.take (s.length - wsLenEnd s))
      exact ⟨min n (s.length - wsLenEnd s), by rw [hn, List.take_take]⟩

theorem trimStart_spec (s : List Nat) (h : AF s) :
    AF (trimStart s) ∧ (trimStart s).length ≤ s.length := by
  obtain ⟨n, hn⟩ := trimStartF_drop s.length s
  unfold trimStart; rw [hn]
  exact ⟨AF_drop n h, by simp⟩

theorem trimEnd_spec (s : List Nat) (h : AF s) :
    AF (trimEnd s) ∧ (trimEnd s).length ≤ s.length := by
  obtain ⟨n, hn⟩ := trimEndF_take s.length s
  unfold trimEnd; rw [hn]
  exact ⟨AF_take n h, by simp; omega⟩

theorem trimStart_nil : trimStart [] = [] := by simp [trimStart, trimStartF]



theorem splitOnceAndTrim_spec (s : List Nat) (needle : Nat) (haf : AF s) (hn : needle < 128) :
    ∃ f l, splitOnceAndTrim s needle = .ok (f, l) ∧ AF f ∧ AF l ∧ (l = [] ∨ l.length < s.length) := by
  obtain ⟨f, l, hs, hf, hl, hlen⟩ := splitOnce_spec s needle haf hn
  refine ⟨trimEnd f, trimStart l, ?_, (trimEnd_spec f hf).1, (trimStart_spec l hl).1, ?_⟩
  · unfold splitOnceAndTrim; simp [hs]
  · rcases hlen with h | h
    · left; subst h; exact trimStart_nil
    · right; have := (trimStart_spec l hl).2; omega

/-- the closing quote found by the byte scan really is a `"` byte of the scanned slice -/
theorem scanQuoted_spec : ∀ (cs : List Nat) (i : Nat) (esc : Bool) (acc qs : List Nat) (e : Nat),
    scanQuoted cs i esc acc = (qs, some e) → ∃ j, e = i + j + 1 ∧ cs[j]? = some 34
  | [], i, esc, acc, qs, e, h => by simp [scanQuoted] at h
  | c :: cs, i, esc, acc, qs, e, h => by
    rw [scanQuoted] at h
    split at h
    · obtain ⟨j, hj, hc⟩ := scanQuoted_spec cs (i + 1) false (c :: acc) qs e h
      exact ⟨j + 1, by omega, by simpa using hc⟩
    · split at h
      · obtain ⟨j, hj, hc⟩ := scanQuoted_spec cs (i + 1) true acc qs e h
        exact ⟨j + 1, by omega, by simpa using hc⟩
      · split at h
        · rename_i hq
          simp at h
          refine ⟨0, by omega, ?_⟩
          simp [isDQuote] at hq
          simp [hq]
        · obtain ⟨j, hj, hc⟩ := scanQuoted_spec cs (i + 1) false (c :: acc) qs e h
          exact ⟨j + 1, by omega, by simpa using hc⟩

/-- one parameter: no panic; what is left is a sub-string again and strictly shorter -/
theorem oneParam_spec (left : List Nat) (haf : AF left) :
    NoPanic (oneParam left) ∧
    ∀ p left', oneParam left = .ok (p, left') → AF left' ∧ left'.length < left.length := by
  unfold oneParam
  obtain ⟨pn, nl, hs, _, hnl, hlen⟩ := splitOnceAndTrim_spec left 61 haf (by decide)
  simp only [hs, bind_eq, bind_ok]
  split
  · simp
  · rename_i hcond
    have hne : nl ≠ [] := by
      intro h; subst h; simp at hcond
    have hlt : nl.length < left.length := by
      rcases hlen with h | h
      · exact absurd h hne
      · exact h
    split
    · simp
    · split
      · -- quoted-string
        cases hsc : scanQuoted (nl.drop 1) 0 false [] with
        | mk qs end_ =>
          simp only
          cases end_ with
          | none => simp
          | some e =>
            simp only
            obtain ⟨j, hj, hq⟩ := scanQuoted_spec (nl.drop 1) 0 false [] qs e hsc
            rw [List.getElem?_drop] at hq
            have he : nl[e]? = some 34 := by
              have : 1 + j = e := by omega
              rw [this] at hq; exact hq
            have hb : isBoundary nl (e + 1) = true := boundary_after_ascii hnl he (by decide)
            have hl1 : AF (nl.drop (e + 1)) := AF_drop _ hnl
            obtain ⟨f2, l2, hs2, _, hl2, hlen2⟩ := splitOnce_spec (nl.drop (e + 1)) 59 hl1 (by decide)
            simp only [strFrom, hb, if_true, bind_ok, hs2]
            have hts := trimStart_spec l2 hl2
            have hl2len : l2.length ≤ nl.length := by
              rcases hlen2 with h | h
              · subst h; simp
              · have : (nl.drop (e + 1)).length ≤ nl.length := by simp
                omega
            split
            · refine ⟨by simp, ?_⟩
              intro p left' h
              simp at h; obtain ⟨_, rfl⟩ := h
              exact ⟨hts.1, by omega⟩
            · simp
      · -- token
        obtain ⟨tk, l2, hs2, _, hl2, hlen2⟩ := splitOnceAndTrim_spec nl 59 hnl (by decide)
        simp only [hs2, bind_ok]
        split
        · simp
        · refine ⟨by simp, ?_⟩
          intro p left' h
          simp at h; obtain ⟨_, rfl⟩ := h
          refine ⟨hl2, ?_⟩
          rcases hlen2 with h | h
          · subst h; simp; omega
          · omega

theorem params_noPanic : ∀ (fuel : Nat) (left : List Nat) (acc : List Param), AF left →
    left.length < fuel → NoPanic (params fuel left acc)
  | 0, _, _, _, h => by omega
  | fuel + 1, left, acc, haf, hf => by
    rw [params]
    split
    · simp
    · have hp := oneParam_spec left haf
      cases ho : oneParam left with
      | panic s => rw [ho] at hp; exact absurd hp.1 (by simp)
      | err e => simp
      | ok r =>
        obtain ⟨p, left'⟩ := r
        simp only
        have := hp.2 p left' ho
        exact params_noPanic fuel left' (p :: acc) this.1 (by omega)


/-- **`ContentDisposition::from_raw` never panics**, for every byte string -/
theorem fromRaw_noPanic (hv : List Nat) : NoPanic (fromRaw hv) := by
  unfold fromRaw
  split
  · simp
  · rename_i hvalid
    have hv' : utf8Valid hv = true := by simpa using hvalid
    have haf := utf8Valid_AF hv hv'
    have h1 := trimStart_spec hv haf
    have h2 := trimEnd_spec (trimStart hv) h1.1
    obtain ⟨d, l, hs, _, hl, hlen⟩ :=
      splitOnceAndTrim_spec (trim hv) 59 (by unfold trim; exact h2.1) (by decide)
    simp only [hs, bind_eq, bind_ok]
    split
    · simp
    · have hlen' : l.length < hv.length + 1 := by
        rcases hlen with h | h
        · subst h; simp
        · have : (trim hv).length ≤ hv.length := by unfold trim; omega
          omega
      have hp := params_noPanic (hv.length + 1) l [] hl hlen'
      cases hpp : params (hv.length + 1) l [] with
      | panic s => rw [hpp] at hp; exact absurd hp (by simp)
      | err e => simp
      | ok ps => simp

end ActixModel.Panic.CD
