import ActixModel.Model.PanicChunk
import ActixModel.Proofs.PanicCore
/-
Panic-freedom of the HTTP/1 body decoders' arithmetic (model `Model/PanicChunk.lean`).
-/
namespace ActixModel.Panic.Chunk
open ActixModel.Panic ActixModel.Panic.Outcome

/-- `size.checked_mul(16)` succeeded ⇒ the unchecked `*size += rem` (rem ≤ 15) cannot overflow:
a multiple of 16 that fits in `u64` is at most `2^64 − 16`. -/
theorem mul16_add_fits {size rem : Nat} (h : size * 16 ≤ u64Max) (hr : rem ≤ 15) :
    size * 16 + rem ≤ u64Max := by
  unfold u64Max at *; omega

theorem readSize_noPanic (rdr : List Nat) (size : Nat) (first : Bool) :
    NoPanic (readSize rdr size first) := by
  unfold readSize
  cases rdr with
  | nil => simp
  | cons b rest =>
    simp only
    by_cases h1 : 48 ≤ b ∧ b ≤ 57
    · have hs : usub "chunked.rs:58 b - b'0'" b 48 = .ok (b - 48) := usub_ok h1.1
      simp only [h1, and_self, if_true, hs, Outcome.map]
      unfold checkedMul
      split
      · rename_i hm
        split at hm
        · rename_i hle
          cases hm
          have : size * 16 + (b - 48) ≤ u64Max := mul16_add_fits hle (by omega)
          simp [uadd, this]
        · cases hm
      · simp [invalid]
    · by_cases h2 : 97 ≤ b ∧ b ≤ 102
      · have ha : uadd u8Max "chunked.rs:59 b + 10" b 10 = .ok (b + 10) := uadd_ok (by unfold u8Max; omega)
        have hs : usub "chunked.rs:59 (b + 10) - b'a'" (b + 10) 97 = .ok (b + 10 - 97) := usub_ok (by omega)
        simp only [h1, h2, and_self, if_true, if_false, ha, hs, Outcome.map, bind_eq, bind_ok]
        unfold checkedMul
        split
        · rename_i hm
          split at hm
          · rename_i hle
            cases hm
            have h87 : size * 16 + (b - 87) ≤ u64Max := mul16_add_fits hle (by omega)
            simp [uadd, h87]
          · cases hm
        · simp [invalid]
      · by_cases h3 : 65 ≤ b ∧ b ≤ 70
        · have ha : uadd u8Max "chunked.rs:60 b + 10" b 10 = .ok (b + 10) := uadd_ok (by unfold u8Max; omega)
          have hs : usub "chunked.rs:60 (b + 10) - b'A'" (b + 10) 65 = .ok (b + 10 - 65) := usub_ok (by omega)
          simp only [h1, h2, h3, and_self, if_true, if_false, ha, hs, Outcome.map, bind_eq, bind_ok]
          unfold checkedMul
          split
          · rename_i hm
            split at hm
            · rename_i hle
              cases hm
              have h55 : size * 16 + (b - 55) ≤ u64Max := mul16_add_fits hle (by omega)
              simp [uadd, h55]
            · cases hm
          · simp [invalid]
        · simp only [h1, h2, h3, if_false]
          split <;> (try split) <;> (try split) <;> (try split) <;> simp [invalid]

theorem readBody_noPanic (rdr : List Nat) (rem : Nat) : NoPanic (readBody rdr rem) := by
  unfold readBody
  simp only
  split
  · simp
  · split
    · rename_i h
      have hs : usub "chunked.rs:137 *rem -= len" rem rdr.length = .ok (rem - rdr.length) :=
        usub_ok (by omega)
      simp [hs]
    · rename_i h
      have hs := splitTo_ok (site := "chunked.rs:139 rdr.split_to(*rem as usize)") (s := rdr) (n := rem) (by omega)
      simp [hs]

theorem expectByte_noPanic (w : Nat) (n : CState) (m : String) (rdr : List Nat) (size : Nat) :
    NoPanic (expectByte w n m rdr size) := by
  unfold expectByte
  cases rdr with
  | nil => simp
  | cons b rest => simp only; split <;> simp [invalid]

/-- one `ChunkedState::step` never panics, whatever the state, the register and the input -/
theorem step_noPanic (st : CState) (rdr : List Nat) (size : Nat) : NoPanic (step st rdr size) := by
  cases st <;> simp only [step]
  · exact readSize_noPanic rdr size true
  · exact readSize_noPanic rdr size false
  · unfold readSizeLws; cases rdr with
    | nil => simp
    | cons b rest => simp only; split <;> (try split) <;> (try split) <;> simp [invalid]
  · unfold readExtension; cases rdr with
    | nil => simp
    | cons b rest => simp only; split <;> (try split) <;> simp [invalid]
  · unfold readSizeLf; cases rdr with
    | nil => simp
    | cons b rest => simp only; split <;> (try split) <;> simp [invalid]
  · exact readBody_noPanic rdr size
  · exact expectByte_noPanic _ _ _ _ _
  · exact expectByte_noPanic _ _ _ _ _
  · exact expectByte_noPanic _ _ _ _ _
  · exact expectByte_noPanic _ _ _ _ _
  · simp

/-- the `u64` register stays a `u64`: no step produces a size above `u64::MAX` -/
theorem step_size_bound {st : CState} {rdr : List Nat} {size : Nat} {st' : CState} {rdr' : List Nat}
    {size' : Nat} {buf : Option (List Nat)} (hs : size ≤ u64Max)
    (h : step st rdr size = .ok (.ready st' rdr' size' buf)) : size' ≤ u64Max := by
  cases st <;> simp only [step] at h
  · -- size
    unfold readSize at h
    cases rdr with
    | nil => simp at h
    | cons b rest =>
      simp only at h
      split at h
      · cases h
      · cases h
      · split at h <;> (try split at h) <;> (try split at h) <;> (try split at h) <;> simp [invalid] at h <;>
          (obtain ⟨_, _, rfl, _⟩ := h; exact hs)
      · split at h
        · rename_i n hm
          unfold uadd at h
          split at h
          · simp at h; obtain ⟨_, _, rfl, _⟩ := h; assumption
          · simp at h
        · simp [invalid] at h
  · -- size
    unfold readSize at h
    cases rdr with
    | nil => simp at h
    | cons b rest =>
      simp only at h
      split at h
      · cases h
      · cases h
      · split at h <;> (try split at h) <;> (try split at h) <;> (try split at h) <;> simp [invalid] at h <;>
          (obtain ⟨_, _, rfl, _⟩ := h; exact hs)
      · split at h
        · rename_i n hm
          unfold uadd at h
          split at h
          · simp at h; obtain ⟨_, _, rfl, _⟩ := h; assumption
          · simp at h
        · simp [invalid] at h
  · unfold readSizeLws at h; cases rdr with
    | nil => simp at h
    | cons b rest =>
      simp only at h
      split at h <;> (try split at h) <;> (try split at h) <;> simp [invalid] at h <;>
        (obtain ⟨_, _, rfl, _⟩ := h; exact hs)
  · unfold readExtension at h; cases rdr with
    | nil => simp at h
    | cons b rest =>
      simp only at h
      split at h <;> (try split at h) <;> simp [invalid] at h <;>
        (obtain ⟨_, _, rfl, _⟩ := h; exact hs)
  · unfold readSizeLf at h; cases rdr with
    | nil => simp at h
    | cons b rest =>
      simp only at h
      split at h <;> (try split at h) <;> simp [invalid] at h <;>
        (obtain ⟨_, _, rfl, _⟩ := h; exact hs)
  · unfold readBody at h
    simp only at h
    split at h
    · simp at h; obtain ⟨_, _, rfl, _⟩ := h; exact hs
    · split at h
      · unfold usub at h
        split at h
        · simp at h; obtain ⟨_, _, rfl, _⟩ := h; omega
        · simp at h
      · unfold splitTo at h
        split at h
        · simp at h; obtain ⟨_, _, rfl, _⟩ := h; unfold u64Max; omega
        · simp at h
  all_goals
    first
    | (unfold expectByte at h
       cases rdr with
       | nil => simp at h
       | cons b rest =>
         simp only at h
         split at h <;> simp [invalid] at h
         obtain ⟨_, _, rfl, _⟩ := h; exact hs)
    | (simp at h; obtain ⟨_, _, rfl, _⟩ := h; exact hs)

/-- a step that neither ends the stream nor yields a body slice and leaves input behind has
consumed exactly one byte -/
theorem step_progress {st : CState} {rdr : List Nat} {size : Nat} {st' : CState} {rdr' : List Nat}
    {size' : Nat} (h : step st rdr size = .ok (.ready st' rdr' size' none))
    (hne : st' ≠ .end_) (hr : rdr'.isEmpty = false) : rdr'.length < rdr.length := by
  cases st <;> simp only [step] at h
  · unfold readSize at h
    cases rdr with
    | nil => simp at h
    | cons b rest =>
      simp only at h
      split at h
      · cases h
      · cases h
      · split at h <;> (try split at h) <;> (try split at h) <;> (try split at h) <;> simp [invalid] at h <;>
          (obtain ⟨_, rfl, _⟩ := h; simp)
      · split at h
        · unfold uadd at h
          split at h
          · simp at h; obtain ⟨_, rfl, _⟩ := h; simp
          · simp at h
        · simp [invalid] at h
  · unfold readSize at h
    cases rdr with
    | nil => simp at h
    | cons b rest =>
      simp only at h
      split at h
      · cases h
      · cases h
      · split at h <;> (try split at h) <;> (try split at h) <;> (try split at h) <;> simp [invalid] at h <;>
          (obtain ⟨_, rfl, _⟩ := h; simp)
      · split at h
        · unfold uadd at h
          split at h
          · simp at h; obtain ⟨_, rfl, _⟩ := h; simp
          · simp at h
        · simp [invalid] at h
  · unfold readSizeLws at h; cases rdr with
    | nil => simp at h
    | cons b rest =>
      simp only at h
      split at h <;> (try split at h) <;> (try split at h) <;> simp [invalid] at h <;>
        (obtain ⟨_, rfl, _⟩ := h; simp)
  · unfold readExtension at h; cases rdr with
    | nil => simp at h
    | cons b rest =>
      simp only at h
      split at h <;> (try split at h) <;> simp [invalid] at h <;>
        (obtain ⟨_, rfl, _⟩ := h; simp)
  · unfold readSizeLf at h; cases rdr with
    | nil => simp at h
    | cons b rest =>
      simp only at h
      split at h <;> (try split at h) <;> simp [invalid] at h <;>
        (obtain ⟨_, rfl, _⟩ := h; simp)
  · unfold readBody at h
    simp only at h
    split at h
    · rename_i h0
      simp at h; obtain ⟨_, rfl, _⟩ := h
      simp at h0; simp [h0] at hr
    · split at h
      · unfold usub at h
        split at h <;> simp at h
      · unfold splitTo at h
        split at h <;> simp at h
  all_goals
    first
    | (unfold expectByte at h
       cases rdr with
       | nil => simp at h
       | cons b rest =>
         simp only at h
         split at h <;> simp [invalid] at h
         obtain ⟨_, rfl, _⟩ := h; simp)
    | (simp at h; exact absurd h.1.symm hne)

/-- the decode loop never panics and never runs out of fuel when `fuel > rdr.length` -/
theorem decodeChunkedLoop_noPanic (fuel : Nat) (st : CState) (size : Nat) (rdr : List Nat)
    (hf : rdr.length < fuel) : NoPanic (decodeChunkedLoop fuel st size rdr) := by
  induction fuel generalizing st size rdr with
  | zero => omega
  | succ n ih =>
    unfold decodeChunkedLoop
    have hsn := step_noPanic st rdr size
    cases hstep : step st rdr size with
    | panic s => rw [hstep] at hsn; exact absurd hsn (by simp)
    | err e => simp
    | ok r =>
      cases r with
      | pending => simp
      | ready st' rdr' size' buf =>
        simp only
        split
        · simp
        · rename_i hne
          cases buf with
          | some b => simp
          | none =>
            simp only
            split
            · simp
            · rename_i hemp
              have hne' : st' ≠ .end_ := by
                intro hh; exact hne hh
              have := step_progress hstep hne' (by simpa using hemp)
              exact ih st' size' rdr' (by omega)

/-- **every call of `PayloadDecoder::decode`** — any register (`Length(n)`, `Chunked(state,
size)`, `Eof`), any buffer — is panic-free -/
theorem decode_noPanic (k : Kind) (src : List Nat) : NoPanic (decode k src) := by
  cases k with
  | length remaining =>
    simp only [decode]
    split
    · simp
    · split
      · simp
      · split
        · rename_i h
          have hs : usub "decoder.rs:531 *remaining -= len" remaining src.length
              = .ok (remaining - src.length) := usub_ok (by omega)
          simp [hs]
        · rename_i h
          have hs := splitTo_ok (site := "decoder.rs:533 src.split_to(*remaining as usize)")
            (s := src) (n := remaining) (by omega)
          simp [hs]
  | chunked st size =>
    simp only [decode]
    exact decodeChunkedLoop_noPanic _ st size src (by omega)
  | eof => simp only [decode]; split <;> simp

/-! ### Content-Length -/

theorem accum_bound {max acc d a : Nat} (h : accum max acc d = some a) : a ≤ max := by
  unfold accum at h
  split at h
  · unfold checkedAdd at h
    split at h
    · cases h; assumption
    · cases h
  · cases h

theorem parseDigits_bound (max : Nat) : ∀ (bs : List Nat) (acc n : Nat), acc ≤ max →
    parseDigits max bs acc = some n → n ≤ max
  | [], acc, n, ha, h => by
    rw [parseDigits] at h; cases h; exact ha
  | b :: bs, acc, n, _, h => by
    rw [parseDigits] at h
    split at h
    · cases h
    · split at h
      · cases h
      · rename_i hacc
        exact parseDigits_bound max bs _ n (accum_bound hacc) h

theorem parseU64_bound (bs : List Nat) (n : Nat) (h : parseU64 bs = some n) : n ≤ u64Max := by
  unfold parseU64 at h
  split at h
  · cases h
  · split at h
    · split at h
      · cases h
      · exact parseDigits_bound _ _ 0 n (Nat.zero_le _) h
    · exact parseDigits_bound _ _ 0 n (Nat.zero_le _) h

theorem contentLength_noPanic (v : List Nat) : NoPanic (contentLength v) := by
  unfold contentLength
  split
  · simp
  · simp only
    split
    · simp
    · split <;> simp

/-- an accepted `Content-Length` always fits in `u64` (so `PayloadDecoder::length(len)` and the
later `remaining` arithmetic start from a real `u64`) -/
theorem contentLength_bound (v : List Nat) (n : Nat) (h : contentLength v = .ok n) : n ≤ u64Max := by
  unfold contentLength at h
  split at h
  · cases h
  · simp only at h
    split at h
    · cases h
    · split at h
      · rename_i hp
        cases h
        exact parseU64_bound _ _ hp
      · cases h

/-! ### all segmentations -/

/-- reachable registers: the `Body` state is only ever entered with a positive size -/
def SInv (st : CState) (size : Nat) : Prop := st = .body → 0 < size

/-- facts about one successful step -/
theorem step_facts {st : CState} {rdr : List Nat} {size : Nat} {st' : CState} {rdr' : List Nat}
    {size' : Nat} {buf : Option (List Nat)} (hinv : SInv st size)
    (h : step st rdr size = .ok (.ready st' rdr' size' buf)) :
    SInv st' size' ∧ rdr'.length ≤ rdr.length ∧ (buf.isSome → rdr'.length < rdr.length) := by
  unfold SInv at *
  cases st <;> simp only [step] at h
  · unfold readSize at h
    cases rdr with
    | nil => simp at h
    | cons b rest =>
      simp only at h
      split at h
      · cases h
      · cases h
      · split at h <;> (try split at h) <;> (try split at h) <;> (try split at h) <;> simp [invalid] at h <;>
          (obtain ⟨rfl, rfl, rfl, rfl⟩ := h; simp)
      · split at h
        · unfold uadd at h
          split at h
          · simp at h; obtain ⟨rfl, rfl, rfl, rfl⟩ := h; simp
          · simp at h
        · simp [invalid] at h
  · unfold readSize at h
    cases rdr with
    | nil => simp at h
    | cons b rest =>
      simp only at h
      split at h
      · cases h
      · cases h
      · split at h <;> (try split at h) <;> (try split at h) <;> (try split at h) <;> simp [invalid] at h <;>
          (obtain ⟨rfl, rfl, rfl, rfl⟩ := h; simp)
      · split at h
        · unfold uadd at h
          split at h
          · simp at h; obtain ⟨rfl, rfl, rfl, rfl⟩ := h; simp
          · simp at h
        · simp [invalid] at h
  · unfold readSizeLws at h; cases rdr with
    | nil => simp at h
    | cons b rest =>
      simp only at h
      split at h <;> (try split at h) <;> (try split at h) <;> simp [invalid] at h <;>
        (obtain ⟨rfl, rfl, rfl, rfl⟩ := h; simp)
  · unfold readExtension at h; cases rdr with
    | nil => simp at h
    | cons b rest =>
      simp only at h
      split at h <;> (try split at h) <;> simp [invalid] at h <;>
        (obtain ⟨rfl, rfl, rfl, rfl⟩ := h; simp)
  · unfold readSizeLf at h; cases rdr with
    | nil => simp at h
    | cons b rest =>
      simp only at h
      split at h
      · rename_i hb
        simp at h; obtain ⟨rfl, rfl, rfl, rfl⟩ := h; simp; exact hb.2
      · split at h <;> simp [invalid] at h
        obtain ⟨rfl, rfl, rfl, rfl⟩ := h; simp
  · have hpos := hinv rfl
    unfold readBody at h
    simp only at h
    split at h
    · rename_i h0
      simp at h; obtain ⟨rfl, rfl, rfl, rfl⟩ := h; simp; exact hpos
    · rename_i hne
      split at h
      · unfold usub at h
        split at h
        · simp at h; obtain ⟨hst, rfl, rfl, rfl⟩ := h
          refine ⟨?_, by simp, ?_⟩
          · intro hb; omega
          · intro _; simp; omega
        · simp at h
      · unfold splitTo at h
        split at h
        · simp at h; obtain ⟨rfl, rfl, rfl, rfl⟩ := h
          refine ⟨by simp, by simp, ?_⟩
          intro _; simp; omega
        · simp at h
  all_goals
    first
    | (unfold expectByte at h
       cases rdr with
       | nil => simp at h
       | cons b rest =>
         simp only at h
         split at h <;> simp [invalid] at h
         obtain ⟨rfl, rfl, rfl, rfl⟩ := h; simp)
    | (simp at h; obtain ⟨rfl, rfl, rfl, rfl⟩ := h; simp)

/-- registers of `PayloadDecoder` that the code can reach -/
def KInv : Kind → Prop
  | .chunked st size => SInv st size
  | _ => True

def isChunk : Item → Bool
  | .chunk _ => true
  | _ => false

theorem loop_facts : ∀ (fuel : Nat) (st : CState) (size : Nat) (rdr : List Nat) (k' : Kind)
    (rdr' : List Nat) (item : Item), SInv st size →
    decodeChunkedLoop fuel st size rdr = .ok (k', rdr', item) →
    KInv k' ∧ rdr'.length ≤ rdr.length ∧ (isChunk item = true → rdr'.length < rdr.length)
  | 0, _, _, _, _, _, _, _, h => by simp [decodeChunkedLoop] at h
  | fuel + 1, st, size, rdr, k', rdr', item, hinv, h => by
    rw [decodeChunkedLoop] at h
    cases hstep : step st rdr size with
    | panic s => rw [hstep] at h; simp at h
    | err e => rw [hstep] at h; simp at h
    | ok r =>
      rw [hstep] at h
      cases r with
      | pending =>
        simp at h; obtain ⟨rfl, rfl, rfl⟩ := h
        exact ⟨hinv, Nat.le_refl _, by simp [isChunk]⟩
      | ready st1 rdr1 size1 buf =>
        have hf := step_facts hinv hstep
        simp only at h
        split at h
        · simp at h; obtain ⟨rfl, rfl, rfl⟩ := h
          exact ⟨hf.1, hf.2.1, by simp [isChunk]⟩
        · cases buf with
          | some b =>
            simp at h; obtain ⟨rfl, rfl, rfl⟩ := h
            exact ⟨hf.1, hf.2.1, fun _ => hf.2.2 (by simp)⟩
          | none =>
            simp only at h
            split at h
            · simp at h; obtain ⟨rfl, rfl, rfl⟩ := h
              exact ⟨hf.1, hf.2.1, by simp [isChunk]⟩
            · have ih := loop_facts fuel st1 size1 rdr1 k' rdr' item hf.1 h
              exact ⟨ih.1, Nat.le_trans ih.2.1 hf.2.1, fun hc => Nat.lt_of_lt_of_le (ih.2.2 hc) hf.2.1⟩

/-- one `decode` call: the register stays reachable, the buffer never grows, and a delivered
chunk consumed at least one byte -/
theorem decode_facts (k : Kind) (src : List Nat) (k' : Kind) (src' : List Nat) (item : Item)
    (hk : KInv k) (h : decode k src = .ok (k', src', item)) :
    KInv k' ∧ src'.length ≤ src.length ∧ (isChunk item = true → src'.length < src.length) := by
  cases k with
  | length remaining =>
    simp only [decode] at h
    split at h
    · simp at h; obtain ⟨rfl, rfl, rfl⟩ := h; simp [KInv, isChunk]
    · split at h
      · simp at h; obtain ⟨rfl, rfl, rfl⟩ := h; simp [KInv, isChunk]
      · rename_i hne hemp
        split at h
        · unfold usub at h
          split at h
          · simp at h; obtain ⟨rfl, rfl, rfl⟩ := h
            refine ⟨by simp [KInv], by simp, ?_⟩
            intro _; cases src with
            | nil => simp at hemp
            | cons a t => simp
          · simp at h
        · unfold splitTo at h
          split at h
          · simp at h; obtain ⟨rfl, rfl, rfl⟩ := h
            refine ⟨by simp [KInv], by simp, ?_⟩
            intro _; simp
            cases src with
            | nil => simp at hemp
            | cons a t => simp; omega
          · simp at h
  | chunked st size =>
    simp only [decode] at h
    exact loop_facts _ st size src k' src' item hk h
  | eof =>
    simp only [decode] at h
    split at h
    · simp at h; obtain ⟨rfl, rfl, rfl⟩ := h; simp [KInv, isChunk]
    · rename_i hemp
      simp at h; obtain ⟨rfl, rfl, rfl⟩ := h
      refine ⟨by simp [KInv], by simp, ?_⟩
      intro _
      cases src with
      | nil => simp at hemp
      | cons a t => simp

/-- draining one buffer: never panics, never runs out of fuel when `fuel > buf.length + 1`,
and hands back a reachable register and a buffer that did not grow -/
theorem drain_spec : ∀ (fuel : Nat) (k : Kind) (buf : List Nat) (acc : Nat), KInv k →
    buf.length + 1 < fuel →
    NoPanic (drain fuel k buf acc) ∧
    ∀ k' buf' acc' e, drain fuel k buf acc = .ok (k', buf', acc', e) →
      KInv k' ∧ buf'.length ≤ buf.length
  | 0, _, _, _, _, hf => by omega
  | fuel + 1, k, buf, acc, hk, hf => by
    rw [drain]
    have hnp := decode_noPanic k buf
    cases hd : decode k buf with
    | panic s => rw [hd] at hnp; exact absurd hnp (by simp)
    | err e => simp
    | ok r =>
      obtain ⟨k1, buf1, item⟩ := r
      have hfacts := decode_facts k buf k1 buf1 item hk hd
      cases item with
      | none =>
        simp only
        refine ⟨by simp, ?_⟩
        intro k' buf' acc' e h; simp at h; obtain ⟨rfl, rfl, _, _⟩ := h
        exact ⟨hfacts.1, hfacts.2.1⟩
      | eof =>
        simp only
        refine ⟨by simp, ?_⟩
        intro k' buf' acc' e h; simp at h; obtain ⟨rfl, rfl, _, _⟩ := h
        exact ⟨hfacts.1, hfacts.2.1⟩
      | chunk b =>
        simp only
        have hlt := hfacts.2.2 (by simp [isChunk])
        have ih := drain_spec fuel k1 buf1 (acc + b.length) hfacts.1 (by omega)
        refine ⟨ih.1, ?_⟩
        intro k' buf' acc' e h
        have := ih.2 k' buf' acc' e h
        exact ⟨this.1, by omega⟩

/-- **every segmentation**: feeding any list of segments to a reachable register never panics
(and the fuel the model gives each drain is enough) -/
theorem feed_noPanic : ∀ (segs : List (List Nat)) (k : Kind) (buf : List Nat) (acc : Nat),
    KInv k → NoPanic (feed k buf acc segs)
  | [], k, buf, acc, _ => by simp [feed]
  | seg :: segs, k, buf, acc, hk => by
    rw [feed]
    have hd := drain_spec ((buf ++ seg).length + 2) k (buf ++ seg) acc hk (by omega)
    cases hdr : drain ((buf ++ seg).length + 2) k (buf ++ seg) acc with
    | panic s => rw [hdr] at hd; exact absurd hd.1 (by simp)
    | err e => simp
    | ok r =>
      obtain ⟨k1, buf1, acc1, e⟩ := r
      cases e with
      | true => simp
      | false =>
        simp only
        exact feed_noPanic segs k1 buf1 acc1 (hd.2 k1 buf1 acc1 false hdr).1

end ActixModel.Panic.Chunk
