import ActixModel.Model.PanicCore
/-
Helper lemmas for the panic-explicit models: how `NoPanic` propagates through `bind`/`map`
and when each checked primitive is panic-free.
-/
namespace ActixModel.Panic
open Outcome

@[simp] theorem bind_eq {α β : Type} (x : Outcome α) (f : α → Outcome β) :
    (x >>= f) = Outcome.bind x f := rfl

@[simp] theorem pure_eq {α : Type} (v : α) : (pure v : Outcome α) = .ok v := rfl

@[simp] theorem bind_ok {α β : Type} (v : α) (f : α → Outcome β) : Outcome.bind (.ok v) f = f v := rfl
@[simp] theorem bind_err {α β : Type} (e : String) (f : α → Outcome β) :
    Outcome.bind (.err e) f = .err e := rfl
@[simp] theorem bind_panic {α β : Type} (s : String) (f : α → Outcome β) :
    Outcome.bind (.panic s) f = .panic s := rfl

@[simp] theorem noPanic_ok {α : Type} (v : α) : NoPanic (Outcome.ok v) := by
  intro s h; cases h
@[simp] theorem noPanic_err {α : Type} (e : String) : NoPanic (Outcome.err e : Outcome α) := by
  intro s h; cases h
@[simp] theorem noPanic_panic {α : Type} (s : String) : ¬ NoPanic (Outcome.panic s : Outcome α) := by
  intro h; exact h s rfl

theorem noPanic_iff_isPanic {α : Type} (o : Outcome α) : NoPanic o ↔ o.isPanic = false := by
  cases o <;> simp [isPanic]

theorem noPanic_bind {α β : Type} {x : Outcome α} {f : α → Outcome β}
    (hx : NoPanic x) (hf : ∀ v, x = .ok v → NoPanic (f v)) : NoPanic (Outcome.bind x f) := by
  cases x with
  | ok v => exact hf v rfl
  | err e => simp
  | panic s => exact absurd hx (by simp)

theorem noPanic_map {α β : Type} {x : Outcome α} (f : α → β) (hx : NoPanic x) :
    NoPanic (x.map f) := by
  cases x with
  | ok v => simp [Outcome.map]
  | err e => simp [Outcome.map]
  | panic s => exact absurd hx (by simp)

/-! primitives: exact conditions -/

theorem uadd_ok {max a b : Nat} {site : String} (h : a + b ≤ max) :
    uadd max site a b = .ok (a + b) := by simp [uadd, h]

theorem usub_ok {a b : Nat} {site : String} (h : b ≤ a) : usub site a b = .ok (a - b) := by
  simp [usub, h]

theorem uadd_noPanic_iff {max a b : Nat} {site : String} :
    NoPanic (uadd max site a b) ↔ a + b ≤ max := by
  unfold uadd; split <;> simp [*]

theorem usub_noPanic_iff {a b : Nat} {site : String} : NoPanic (usub site a b) ↔ b ≤ a := by
  unfold usub; split <;> simp [*]

theorem slice_ok {α : Type} {site : String} {s : List α} {i j : Nat} (h : i ≤ j ∧ j ≤ s.length) :
    slice site s i j = .ok ((s.drop i).take (j - i)) := by simp [slice, h]

theorem slice_noPanic_iff {α : Type} {site : String} {s : List α} {i j : Nat} :
    NoPanic (slice site s i j) ↔ (i ≤ j ∧ j ≤ s.length) := by
  unfold slice; split <;> simp [*]

theorem sliceFrom_noPanic_iff {α : Type} {site : String} {s : List α} {i : Nat} :
    NoPanic (sliceFrom site s i) ↔ i ≤ s.length := by
  unfold sliceFrom; split <;> simp [*]

theorem splitTo_ok {α : Type} {site : String} {s : List α} {n : Nat} (h : n ≤ s.length) :
    splitTo site s n = .ok (s.take n, s.drop n) := by simp [splitTo, h]

theorem advance_ok {α : Type} {site : String} {s : List α} {n : Nat} (h : n ≤ s.length) :
    advance site s n = .ok (s.drop n) := by simp [advance, h]

theorem splitTo_noPanic_iff {α : Type} {site : String} {s : List α} {n : Nat} :
    NoPanic (splitTo site s n) ↔ n ≤ s.length := by
  unfold splitTo; split <;> simp [*]

theorem advance_noPanic_iff {α : Type} {site : String} {s : List α} {n : Nat} :
    NoPanic (advance site s n) ↔ n ≤ s.length := by
  unfold advance; split <;> simp [*]

theorem index_ok {α : Type} {site : String} {s : List α} {i : Nat} (h : i < s.length) :
    index site s i = .ok s[i] := by
  simp [index, List.getElem?_eq_getElem h]

theorem index_noPanic_iff {α : Type} {site : String} {s : List α} {i : Nat} :
    NoPanic (index site s i) ↔ i < s.length := by
  unfold index
  cases h : s[i]? with
  | some v => simp; exact (List.getElem?_eq_some_iff.mp h).1
  | none => simp; exact List.getElem?_eq_none_iff.mp h

end ActixModel.Panic
