import ActixModel.Model.PanicPath
import ActixModel.Proofs.PanicCore
/-
Panic-freedom of actix-router's u16 path offsets (model `Model/PanicPath.lean`).
-/
namespace ActixModel.Panic.Path
open ActixModel.Panic ActixModel.Panic.Outcome

theorem asU16_small {x : Nat} (h : x ≤ u16Max) : asU16 x = x := by
  unfold asU16; unfold u16Max at h; omega

/-- adding captures whose ends stay inside a ≤ 65535-byte path never overflows and keeps every
stored segment inside the path -/
theorem addSegs_ok (len skip : Nat) (hlen : len ≤ u16Max) :
    ∀ (caps acc : List (Nat × Nat)),
      (∀ c ∈ caps, c.1 ≤ c.2 ∧ skip + c.2 ≤ len) →
      (∀ se ∈ acc, se.1 ≤ se.2 ∧ se.2 ≤ len) →
      ∃ segs, addSegs skip caps acc = .ok segs ∧ ∀ se ∈ segs, se.1 ≤ se.2 ∧ se.2 ≤ len
  | [], acc, _, hacc => ⟨acc, by simp [addSegs], hacc⟩
  | (b, e) :: cs, acc, hc, hacc => by
    have hbe := hc (b, e) (by simp)
    simp only at hbe
    have hb : asU16 b = b := asU16_small (by omega)
    have he : asU16 e = e := asU16_small (by omega)
    have h1 : uadd u16Max "path.rs:155 self.skip + begin" skip (asU16 b) = .ok (skip + b) := by
      rw [hb]; exact uadd_ok (by omega)
    have h2 : uadd u16Max "path.rs:155 self.skip + end" skip (asU16 e) = .ok (skip + e) := by
      rw [he]; exact uadd_ok (by omega)
    rw [addSegs, h1]
    simp only [h2]
    apply addSegs_ok len skip hlen cs (acc ++ [(skip + b, skip + e)])
    · intro c hcm; exact hc c (by simp [hcm])
    · intro se hse
      rcases List.mem_append.mp hse with h | h
      · exact hacc se h
      · simp at h; subst h; simp; omega

/-- one capture step preserves the invariant and cannot panic -/
theorem captureUnguarded_inv (p : P) (m : Match) (hi : Inv p) (hm : m.Valid p) :
    ∃ p', captureUnguarded p m = .ok p' ∧ Inv p' := by
  obtain ⟨hskip, hlen, hsegs⟩ := hi
  obtain ⟨hml, hcaps⟩ := hm
  have hus : p.unprocessedStart = p.skip := by unfold P.unprocessedStart; omega
  rw [hus] at hml
  have hcaps' : ∀ c ∈ m.caps, c.1 ≤ c.2 ∧ p.skip + c.2 ≤ p.len := by
    intro c hc; have := hcaps c hc; omega
  obtain ⟨segs, hadd, hsegs'⟩ := addSegs_ok p.len p.skip hlen m.caps p.segs hcaps' hsegs
  have hmu : asU16 m.matchedLen = m.matchedLen := asU16_small (by omega)
  have hsk : uadd u16Max "path.rs:147 self.skip += n" p.skip (asU16 m.matchedLen)
      = .ok (p.skip + m.matchedLen) := by rw [hmu]; exact uadd_ok (by omega)
  refine ⟨⟨p.len, p.skip + m.matchedLen, segs⟩, ?_, ?_⟩
  · unfold captureUnguarded; simp [hadd, hsk]
  · exact ⟨by simp; omega, hlen, hsegs'⟩

theorem capture_noPanic (p : P) (m : Match) (hi : p.len ≤ u16Max → Inv p) (hm : m.Valid p) :
    NoPanic (capture p m) := by
  unfold capture
  split
  · simp
  · rename_i h
    obtain ⟨p', hp', _⟩ := captureUnguarded_inv p m (hi (by omega)) hm
    simp [hp', Outcome.map]

theorem capture_inv (p p' : P) (m : Match) (hi : Inv p) (hm : m.Valid p)
    (h : capture p m = .ok (some p')) : Inv p' := by
  unfold capture at h
  split at h
  · cases h
  · obtain ⟨q, hq, hqi⟩ := captureUnguarded_inv p m hi hm
    simp [hq, Outcome.map] at h
    subst h; exact hqi

theorem getSeg_noPanic (p : P) (i : Nat) (hi : Inv p) : NoPanic (getSeg p i) := by
  unfold getSeg
  cases h : p.segs[i]? with
  | none => simp
  | some se =>
    obtain ⟨s, e⟩ := se
    have hm : (s, e) ∈ p.segs := List.mem_of_getElem? h
    have := hi.2.2 (s, e) hm
    simp only at this
    simp [this]

theorem iterAll_ok (len : Nat) : ∀ (segs : List (Nat × Nat)) (n : Nat),
    (∀ se ∈ segs, se.1 ≤ se.2 ∧ se.2 ≤ len) →
    ∃ k, segs.foldl (iterStep len) (Outcome.ok n) = .ok k
  | [], n, _ => ⟨n, rfl⟩
  | se :: rest, n, h => by
    have hse := h se (by simp)
    simp only [List.foldl_cons, iterStep, hse, and_self, if_true]
    exact iterAll_ok len rest _ (fun x hx => h x (by simp [hx]))

theorem iterAll_noPanic (p : P) (hi : Inv p) : NoPanic (iterAll p) := by
  obtain ⟨k, hk⟩ := iterAll_ok p.len p.segs 0 hi.2.2
  unfold iterAll; rw [hk]; simp

/-- the empty path state satisfies the invariant when the path is short enough -/
theorem inv_new (len : Nat) (h : len ≤ u16Max) : Inv (P.new len) := by
  refine ⟨by simp [P.new], h, ?_⟩
  intro se hse; simp [P.new] at hse

/-! ### paths of any length, static steps (scope prefixes) mixed with dynamic captures -/

theorem inv2_of_inv {p : P} (h : Inv p) : Inv2 p :=
  ⟨h.1, Nat.le_trans h.1 h.2.1, fun hgt => absurd h.2.1 (by omega), h.2.2⟩

theorem inv_of_inv2 {p : P} (h : Inv2 p) (hlen : p.len ≤ u16Max) : Inv p :=
  ⟨h.1, hlen, h.2.2.2⟩

theorem inv2_new (len : Nat) : Inv2 (P.new len) := by
  refine ⟨by simp [P.new], by simp [P.new], fun _ => by simp [P.new], ?_⟩
  intro se hse; simp [P.new] at hse

/-- a static step keeps the invariant provided the consumed prefix stays inside the path (the
static matcher's post-condition) and inside `u16` (automatic when the path fits `u16`; for a
longer path it says that the route table's static prefixes are not themselves ≥ 64 KiB) -/
theorem staticStep_inv2 (p : P) (n : Nat) (hi : Inv2 p) (hn : n ≤ p.len - p.skip)
    (hfit : p.skip + n ≤ u16Max) : ∃ p', staticStep p n = .ok p' ∧ Inv2 p' := by
  have hnu : asU16 n = n := asU16_small (by omega)
  have hsk : uadd u16Max "path.rs:147 self.skip += n" p.skip (asU16 n) = .ok (p.skip + n) := by
    rw [hnu]; exact uadd_ok hfit
  refine ⟨⟨p.len, p.skip + n, p.segs⟩, by simp [staticStep, hsk], ?_⟩
  obtain ⟨h1, _, h3, h4⟩ := hi
  exact ⟨by simp; omega, hfit, h3, h4⟩

/-- a dynamic capture keeps the invariant for a path of any length: it is refused when the FULL
path does not fit `u16`, and otherwise `skip + end ≤ len ≤ u16::MAX` -/
theorem capture_inv2 (p : P) (m : Match) (hi : Inv2 p) (hm : m.Valid p) :
    capture p m = .ok none ∨ ∃ p', capture p m = .ok (some p') ∧ Inv2 p' := by
  unfold capture
  split
  · exact Or.inl rfl
  · rename_i hle
    have hlen : p.len ≤ u16Max := by omega
    obtain ⟨p', hp', hinv'⟩ := captureUnguarded_inv p m (inv_of_inv2 hi hlen) hm
    exact Or.inr ⟨p', by simp [hp', Outcome.map], inv2_of_inv hinv'⟩

theorem getSeg_noPanic2 (p : P) (i : Nat) (hi : Inv2 p) : NoPanic (getSeg p i) := by
  unfold getSeg
  cases h : p.segs[i]? with
  | none => simp
  | some se =>
    obtain ⟨s, e⟩ := se
    have hm : (s, e) ∈ p.segs := List.mem_of_getElem? h
    have := hi.2.2.2 (s, e) hm
    simp only at this
    simp [this]

theorem iterAll_noPanic2 (p : P) (hi : Inv2 p) : NoPanic (iterAll p) := by
  obtain ⟨k, hk⟩ := iterAll_ok p.len p.segs 0 hi.2.2.2
  unfold iterAll; rw [hk]; simp

end ActixModel.Panic.Path
