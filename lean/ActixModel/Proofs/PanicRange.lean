import ActixModel.Model.PanicRange
import ActixModel.Proofs.PanicCore
import ActixModel.Proofs.PanicChunk
/-
Panic-freedom of the two `Range` paths (model `Model/PanicRange.lean`).
-/
namespace ActixModel.Panic.Range
open ActixModel.Panic ActixModel.Panic.Outcome

/-- `to_satisfiable_range` never panics, for every spec and every `full_length` -/
theorem toSatisfiable_noPanic (spec : Spec) (fl : Nat) : NoPanic (toSatisfiable spec fl) := by
  unfold toSatisfiable
  split
  · simp
  · rename_i hfl
    have h1 : ∀ site, usub site fl 1 = .ok (fl - 1) := fun site => usub_ok (by omega)
    cases spec with
    | fromTo a b => simp only; split <;> simp [h1]
    | from_ a => simp only; split <;> simp [h1]
    | last n =>
      simp only
      split
      · split
        · simp [h1]
        · rename_i hn
          have h2 : usub "range.rs:162 full_length - last" fl n = .ok (fl - n) := usub_ok (by omega)
          simp [h1, h2]
      · simp

/-- … and what it returns is a satisfiable end-inclusive range `from ≤ to < full_length` -/
theorem toSatisfiable_bounds (spec : Spec) (fl a b : Nat)
    (h : toSatisfiable spec fl = .ok (some (a, b))) : a ≤ b ∧ b < fl := by
  unfold toSatisfiable at h
  split at h
  · cases h
  · rename_i hfl
    have h1 : ∀ site, usub site fl 1 = .ok (fl - 1) := fun site => usub_ok (by omega)
    cases spec with
    | fromTo x y =>
      simp only at h
      split at h
      · simp [h1] at h; omega
      · cases h
    | from_ x =>
      simp only at h
      split at h
      · simp [h1] at h; omega
      · cases h
    | last n =>
      simp only at h
      split at h
      · split at h
        · simp [h1] at h; omega
        · have h2 : usub "range.rs:162 full_length - last" fl n = .ok (fl - n) := usub_ok (by omega)
          simp [h1, h2] at h; omega
      · cases h

/-! ### http-range + named.rs -/

theorem hrParseU64_bound (s : List Nat) (n : Nat) (h : hrParseU64 s = some n) : n ≤ u64Max := by
  unfold hrParseU64 at h
  split at h
  · cases h
  · exact Chunk.parseDigits_bound _ _ 0 n (Nat.zero_le _) h

/-- what `parse_single_range` returns lies inside the file and (for a non-empty file) is non-empty -/
def GoodRange (size : Nat) (r : HttpRange) : Prop :=
  r.start + r.length ≤ size ∧ (0 < size → 1 ≤ r.length)

theorem parseSingle_spec (bytes : List Nat) (size : Nat) (hs : size ≤ u64Max) :
    NoPanic (parseSingle bytes size) ∧
    ∀ r, parseSingle bytes size = .ok (some r) → GoodRange size r := by
  unfold parseSingle
  split
  · simp
  · rename_i s0 e0 _
    simp only
    split
    · -- suffix range
      split
      · simp
      · split
        · simp
        · rename_i length0 _
          split
          · simp
          · rename_i hl0
            by_cases hgt : length0 > size
            · have hsub : usub "http-range:106 size - length" size size = .ok (size - size) := usub_ok (Nat.le_refl _)
              simp only [hgt, if_true, hsub, bind_eq, bind_ok]
              refine ⟨by simp, ?_⟩
              intro r hr; simp at hr; subst hr
              exact ⟨by simp, fun h => by simp; omega⟩
            · have hsub : usub "http-range:106 size - length" size length0 = .ok (size - length0) := usub_ok (by omega)
              simp only [hgt, if_false, hsub, bind_eq, bind_ok]
              refine ⟨by simp, ?_⟩
              intro r hr; simp at hr; subst hr
              exact ⟨by simp; omega, fun _ => by simp; omega⟩
    · split
      · simp
      · rename_i start _
        split
        · simp
        · rename_i hlt
          split
          · have hsub : usub "http-range:121 size - start" size start = .ok (size - start) := usub_ok (by omega)
            simp only [hsub, bind_eq, bind_ok]
            refine ⟨by simp, ?_⟩
            intro r hr; simp at hr; subst hr
            exact ⟨by simp; omega, fun _ => by simp; omega⟩
          · split
            · simp
            · rename_i end0 _
              split
              · simp
              · rename_i hse
                by_cases hge : end0 ≥ size
                · have h1 : usub "http-range:132 size - 1" size 1 = .ok (size - 1) := usub_ok (by omega)
                  have h2 : usub "http-range:135 end - start" (size - 1) start = .ok (size - 1 - start) := usub_ok (by omega)
                  have h3 : uadd u64Max "http-range:135 end - start + 1" (size - 1 - start) 1 = .ok (size - 1 - start + 1) :=
                    uadd_ok (by omega)
                  simp only [hge, if_true, h1, h2, h3, bind_eq, bind_ok]
                  refine ⟨by simp, ?_⟩
                  intro r hr; simp at hr; subst hr
                  exact ⟨by simp; omega, fun _ => by simp⟩
                · have h2 : usub "http-range:135 end - start" end0 start = .ok (end0 - start) := usub_ok (by omega)
                  have h3 : uadd u64Max "http-range:135 end - start + 1" (end0 - start) 1 = .ok (end0 - start + 1) :=
                    uadd_ok (by omega)
                  simp only [hge, if_false, h2, h3, bind_eq, bind_ok]
                  refine ⟨by simp, ?_⟩
                  intro r hr; simp at hr; subst hr
                  exact ⟨by simp; omega, fun _ => by simp⟩

theorem collectRanges_spec (size : Nat) (hs : size ≤ u64Max) : ∀ (ps : List (List Nat)),
    NoPanic (collectRanges size ps) ∧
    ∀ rs no, collectRanges size ps = .ok (rs, no) → ∀ r ∈ rs, GoodRange size r
  | [] => by simp [collectRanges]
  | p :: ps => by
    have ih := collectRanges_spec size hs ps
    rw [collectRanges]
    split
    · exact ih
    · have hp := parseSingle_spec (Chunk.trimAscii p) size hs
      cases hps : parseSingle (Chunk.trimAscii p) size with
      | panic s => rw [hps] at hp; exact absurd hp.1 (by simp)
      | err e => simp
      | ok o =>
        cases o with
        | none =>
          simp only
          cases hc : collectRanges size ps with
          | panic s => rw [hc] at ih; exact absurd ih.1 (by simp)
          | err e => simp
          | ok v =>
            obtain ⟨rs, no⟩ := v
            simp only
            refine ⟨by simp, ?_⟩
            intro rs' no' h r hr
            simp at h
            obtain ⟨rfl, _⟩ := h
            exact ih.2 rs no hc r hr
        | some r0 =>
          simp only
          have hg := hp.2 r0 hps
          cases hc : collectRanges size ps with
          | panic s => rw [hc] at ih; exact absurd ih.1 (by simp)
          | err e => simp
          | ok v =>
            obtain ⟨rs, no⟩ := v
            simp only
            refine ⟨by simp, ?_⟩
            intro rs' no' h r hr
            simp at h
            obtain ⟨rfl, _⟩ := h
            rcases List.mem_cons.mp hr with h1 | h1
            · subst h1; exact hg
            · exact ih.2 rs no hc r h1

theorem parseBytes_spec (header : List Nat) (size : Nat) (hs : size ≤ u64Max) :
    NoPanic (parseBytes header size) ∧
    ∀ rs, parseBytes header size = .ok rs → ∀ r ∈ rs, GoodRange size r := by
  unfold parseBytes
  split
  · simp
  · split
    · simp
    · have hc := collectRanges_spec size hs (splitAll 44 (header.drop 6))
      cases hcr : collectRanges size (splitAll 44 (header.drop 6)) with
      | panic s => rw [hcr] at hc; exact absurd hc.1 (by simp)
      | err e => simp
      | ok v =>
        obtain ⟨rs, no⟩ := v
        simp only
        split
        · simp
        · refine ⟨by simp, ?_⟩
          intro rs' h r hr
          simp at h; subst h
          exact hc.2 rs no hcr r hr

/-- **the files range block never panics**, for every header and every `u64` file size
(a zero-length range is filtered out before `offset + length - 1`) -/
theorem fileRange_noPanic (header : List Nat) (size : Nat) (hs : size ≤ u64Max) :
    NoPanic (fileRange header size) := by
  unfold fileRange
  split
  · simp
  · simp only
    have hp := parseBytes_spec header size hs
    cases hpb : parseBytes header size with
    | panic s => rw [hpb] at hp; exact absurd hp.1 (by simp)
    | err e => simp
    | ok rs =>
      simp only
      cases hh : rs.head? with
      | none => simp
      | some r =>
        have hmem : r ∈ rs := List.mem_of_mem_head? hh
        obtain ⟨hle, _⟩ := hp.2 rs hpb r hmem
        by_cases hpos : r.length > 0
        · have h1 : uadd u64Max "named.rs:562 offset + length" r.start r.length = .ok (r.start + r.length) :=
            uadd_ok (by omega)
          have h2 : usub "named.rs:562 offset + length - 1" (r.start + r.length) 1 = .ok (r.start + r.length - 1) :=
            usub_ok (by omega)
          simp [Option.filter, hpos, h1, h2]
        · simp [Option.filter, hpos]

/-- and the `Content-Range` it announces is inside the file: `first ≤ last < size` -/
theorem fileRange_bounds (header : List Nat) (size f l sz len : Nat)
    (hs : size ≤ u64Max) (h : fileRange header size = .ok (.partial_ f l sz len)) :
    f ≤ l ∧ l < size ∧ sz = size ∧ l + 1 = f + len := by
  unfold fileRange at h
  split at h
  · cases h
  · simp only at h
    have hp := parseBytes_spec header size hs
    cases hpb : parseBytes header size with
    | panic s => rw [hpb] at h; simp at h
    | err e => rw [hpb] at h; simp at h
    | ok rs =>
      rw [hpb] at h
      simp only at h
      cases hh : rs.head? with
      | none => rw [hh] at h; simp at h
      | some r =>
        rw [hh] at h
        have hmem : r ∈ rs := List.mem_of_mem_head? hh
        obtain ⟨hle, _⟩ := hp.2 rs hpb r hmem
        by_cases hpos : r.length > 0
        · have h1 : uadd u64Max "named.rs:562 offset + length" r.start r.length = .ok (r.start + r.length) :=
            uadd_ok (by omega)
          have h2 : usub "named.rs:562 offset + length - 1" (r.start + r.length) 1 = .ok (r.start + r.length - 1) :=
            usub_ok (by omega)
          simp [Option.filter, hpos, h1, h2] at h
          obtain ⟨rfl, rfl, rfl, rfl⟩ := h
          omega
        · simp [Option.filter, hpos] at h

end ActixModel.Panic.Range
