import ActixModel.Model.PanicWs
import ActixModel.Proofs.PanicCore
/-
Panic-freedom of the WebSocket frame parser's arithmetic and slicing (model `Model/PanicWs.lean`).
-/
namespace ActixModel.Panic.Ws
open ActixModel.Panic ActixModel.Panic.Outcome

theorem extLength_spec (src : List Nat) (len : Nat) (_h2 : 2 ≤ src.length) :
    NoPanic (extLength src len) ∧
    ∀ l i, extLength src len = .ok (some (l, i)) → 2 ≤ i ∧ i ≤ 10 ∧ i ≤ src.length := by
  unfold extLength
  simp only [uadd, slice, toArray, usizeMax, bind_eq]
  split
  · split
    · simp
    · have h4 : 2 + 2 ≤ src.length := by omega
      simp [h4]
      constructor
      · split <;> simp <;> omega
      · intro l i; split <;> simp <;> omega
  · split
    · split
      · simp
      · have h10 : 2 + 8 ≤ src.length := by omega
        simp [h10]
        constructor
        · split <;> simp <;> omega
        · intro l i; split <;> simp <;> omega
    · simp; omega

theorem maskPart_spec (src : List Nat) (server : Bool) (idx : Nat) (hi : idx ≤ 10)
    (hs : idx ≤ src.length) :
    NoPanic (maskPart src server idx) ∧
    ∀ i m, maskPart src server idx = .ok (some (i, m)) → idx ≤ i ∧ i ≤ idx + 4 ∧ i ≤ src.length := by
  unfold maskPart
  simp only [uadd, slice, toArray, usizeMax, bind_eq]
  cases server with
  | false => simp; exact hs
  | true =>
    have : idx + 4 ≤ 18446744073709551615 := by omega
    simp [this]
    split
    · simp
    · rename_i hn
      have : idx + 4 ≤ src.length := by omega
      simp [this]
      constructor
      · split <;> simp <;> omega
      · intro i m; split <;> simp <;> omega

/-- `parse_metadata` never panics, and the header length it reports lies inside the buffer and
is at most 14 bytes -/
theorem parseMetadata_spec (src : List Nat) (server : Bool) :
    NoPanic (parseMetadata src server) ∧
    ∀ m, parseMetadata src server = .ok (some m) → 2 ≤ m.idx ∧ m.idx ≤ 14 ∧ m.idx ≤ src.length := by
  unfold parseMetadata
  split
  · simp
  · rename_i h2
    have h0 : 0 < src.length := by omega
    have h1 : 1 < src.length := by omega
    rw [index_ok h0, index_ok h1]
    simp only [bind_eq, bind_ok]
    split
    · simp
    · split
      · simp
      · split
        · simp
        · have he := extLength_spec src (src[1] % 128) (by omega)
          cases hext : extLength src (src[1] % 128) with
          | panic s => rw [hext] at he; exact absurd he.1 (by simp)
          | err e => simp
          | ok r =>
            cases r with
            | none => simp
            | some li =>
              obtain ⟨l, i⟩ := li
              have hi := he.2 l i hext
              have hm := maskPart_spec src server i hi.2.1 hi.2.2
              simp only [bind_ok]
              cases hmp : maskPart src server i with
              | panic s => rw [hmp] at hm; exact absurd hm.1 (by simp)
              | err e => simp
              | ok r2 =>
                cases r2 with
                | none => simp
                | some im =>
                  obtain ⟨i', mk⟩ := im
                  have := hm.2 i' mk hmp
                  simp; omega

theorem parseMetadata_noPanic (src : List Nat) (server : Bool) :
    NoPanic (parseMetadata src server) := (parseMetadata_spec src server).1

/-- **`Parser::parse` never panics** for any buffer, capacity, role and `max_size` as long as
`max_size + 14 ≤ isize::MAX`
(the `reserve` call asks for at most header + `min(length, max_size)` bytes). -/
theorem parse_noPanic (src : List Nat) (cap : Nat) (server : Bool) (maxSize : Nat)
    (hmax : maxSize + 14 ≤ isizeMax) :
    NoPanic (parse src cap server maxSize) := by
  unfold parse
  have hm := parseMetadata_spec src server
  cases hpm : parseMetadata src server with
  | panic s => rw [hpm] at hm; exact absurd hm.1 (by simp)
  | err e => simp
  | ok r =>
    cases r with
    | none => simp
    | some m =>
      have hidx := hm.2 m hpm
      simp only [bind_eq, bind_ok, pure_eq]
      by_cases hfl : m.idx + m.length ≤ usizeMax
      · simp only [checkedAdd, hfl, if_true]
        by_cases hlt : src.length < m.idx + m.length
        · simp only [hlt, if_true]
          by_cases hbig : maxSize < m.length
          · simp [hbig]
          simp only [hbig, if_false]
          by_cases hrc : m.idx + min m.length maxSize ≤ usizeMax
          · simp only [hrc, if_true]
            by_cases hc : cap < m.idx + min m.length maxSize
            · have h1 : usub "frame.rs:108 required_cap - src.capacity()" (m.idx + min m.length maxSize) cap
                  = .ok (m.idx + min m.length maxSize - cap) := usub_ok (by omega)
              have h2 : reserve "frame.rs:108 src.reserve(..)" cap (m.idx + min m.length maxSize - cap) = .ok () := by
                unfold reserve
                have : cap + (m.idx + min m.length maxSize - cap) ≤ isizeMax := by
                  have : min m.length maxSize ≤ maxSize := Nat.min_le_right _ _
                  omega
                simp [this]
              simp [hc, h1, h2]
            · simp [hc]
          · simp [hrc]
        · have ha : advance "frame.rs:114 src.advance(idx)" src m.idx = .ok (src.drop m.idx) :=
            advance_ok hidx.2.2
          simp only [hlt, if_false, ha, bind_ok]
          by_cases hov : maxSize < m.length
          · have hb : advance "frame.rs:119 src.advance(length)" (src.drop m.idx) m.length
                = .ok ((src.drop m.idx).drop m.length) := advance_ok (by simp; omega)
            simp [hov, hb]
          · by_cases hz : m.length = 0
            · simp [hov, hz]
            · have hs := splitTo_ok (site := "frame.rs:128 src.split_to(length)")
                (s := src.drop m.idx) (n := m.length) (by simp; omega)
              simp only [hov, hz, if_false, hs, bind_ok]
              split
              · simp
              · split <;> simp
      · simp [checkedAdd, hfl]

/-- a delivered frame always consumes at least the two header bytes: a `Codec` decode loop
over one buffer terminates -/
theorem parse_progress (src : List Nat) (cap : Nat) (server : Bool) (maxSize : Nat)
    (fin : Bool) (op : OpCode) (pl : Option (List Nat)) (rest : List Nat)
    (h : parse src cap server maxSize = .ok (.frame fin op pl, rest)) :
    rest.length + 2 ≤ src.length := by
  unfold parse at h
  have hm := parseMetadata_spec src server
  cases hpm : parseMetadata src server with
  | panic s => rw [hpm] at h; simp at h
  | err e => rw [hpm] at h; simp at h
  | ok r =>
    rw [hpm] at h
    cases r with
    | none => simp at h
    | some m =>
      have hidx := hm.2 m hpm
      simp only [bind_eq, bind_ok, pure_eq] at h
      by_cases hfl : m.idx + m.length ≤ usizeMax
      · simp only [checkedAdd, hfl, if_true] at h
        by_cases hlt : src.length < m.idx + m.length
        · simp only [hlt, if_true] at h
          by_cases hbig : maxSize < m.length
          · simp [hbig] at h
          simp only [hbig, if_false] at h
          by_cases hrc : m.idx + min m.length maxSize ≤ usizeMax
          · simp only [hrc, if_true] at h
            by_cases hc : cap < m.idx + min m.length maxSize
            · simp only [hc, if_true] at h
              unfold usub reserve at h
              split at h
              · simp only [bind_ok] at h
                split at h <;> simp at h
              · simp at h
            · simp [hc] at h
          · simp [hrc] at h
        · have ha : advance "frame.rs:114 src.advance(idx)" src m.idx = .ok (src.drop m.idx) :=
            advance_ok hidx.2.2
          simp only [hlt, if_false, ha, bind_ok] at h
          by_cases hov : maxSize < m.length
          · simp only [hov, if_true] at h
            unfold advance at h; split at h <;> simp at h
          · by_cases hz : m.length = 0
            · simp [hov, hz] at h; obtain ⟨_, rfl⟩ := h; simp; omega
            · have hs := splitTo_ok (site := "frame.rs:128 src.split_to(length)")
                (s := src.drop m.idx) (n := m.length) (by simp; omega)
              simp only [hov, hz, if_false, hs, bind_ok] at h
              split at h
              · simp at h
              · split at h <;> (simp at h; obtain ⟨_, rfl⟩ := h; simp; omega)
      · simp [checkedAdd, hfl] at h

theorem parseClosePayload_noPanic (payload : List Nat) : NoPanic (parseClosePayload payload) := by
  unfold parseClosePayload
  simp only [sliceTo, sliceFrom, toArray, bind_eq, pure_eq]
  split
  · rename_i h
    have h2 : 2 ≤ payload.length := h
    simp only [h2, if_true, bind_ok]
    have h3 : (List.take 2 payload).length = 2 := by simp; omega
    simp only [h3, if_true, bind_ok]
    split
    · have h4 : 2 ≤ payload.length := h2
      simp
    · simp
  · simp

end ActixModel.Panic.Ws
