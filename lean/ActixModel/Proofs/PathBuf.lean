import ActixModel.Proofs.Files
/-
C16 helper: the string level of `std::path::PathBuf` (`pushS`, `popS`, `componentsS`) refines the
component-list level used by the theorems: `parsePathS = render ∘ parsePath`.
-/
namespace ActixModel.Files
open ActixModel.Util

/-- a `PathBuf` holding the components `l`: joined with single `/` -/
def render (l : List Bytes) : Bytes := joinBytes 0x2F l

def Outcome.map {α β : Type} (f : α → β) : Outcome α → Outcome β
  | .ok a => .ok (f a)
  | .err e => .err e
  | .panic p => .panic p

theorem splitOn_single (sep : UInt8) (s : Bytes) (h : sep ∉ s) : splitOn sep s = [s] := by
  induction s with
  | nil => rfl
  | cons b rest ih =>
    simp only [List.mem_cons, not_or] at h
    have hb : ¬ b = sep := fun e => h.1 e.symm
    simp [splitOn, hb, ih h.2]

theorem splitOn_append (sep : UInt8) (s rest : Bytes) (h : sep ∉ s) :
    splitOn sep (s ++ sep :: rest) = s :: splitOn sep rest := by
  induction s with
  | nil => simp [splitOn]
  | cons b tl ih =>
    simp only [List.mem_cons, not_or] at h
    have hb : ¬ b = sep := fun e => h.1 e.symm
    simp [splitOn, hb, ih h.2]

theorem joinBytes_cons_cons (sep : UInt8) (x y : Bytes) (l : List Bytes) :
    joinBytes sep (x :: y :: l) = x ++ sep :: joinBytes sep (y :: l) := rfl

theorem splitOn_join (sep : UInt8) : ∀ (l : List Bytes), l ≠ [] → (∀ s ∈ l, sep ∉ s) →
    splitOn sep (joinBytes sep l) = l := by
  intro l
  induction l with
  | nil => intro h; exact absurd rfl h
  | cons x tl ih =>
    intro _ hs
    cases tl with
    | nil => simpa [joinBytes] using splitOn_single sep x (hs x (List.mem_cons_self ..))
    | cons y l =>
      rw [joinBytes_cons_cons, splitOn_append sep x _ (hs x (List.mem_cons_self ..))]
      rw [ih (by simp) (fun s h => hs s (List.mem_cons_of_mem _ h))]

theorem joinBytes_concat (sep : UInt8) : ∀ (l : List Bytes) (s : Bytes), l ≠ [] →
    joinBytes sep (l ++ [s]) = joinBytes sep l ++ sep :: s := by
  intro l
  induction l with
  | nil => intro s h; exact absurd rfl h
  | cons x tl ih =>
    intro s _
    cases tl with
    | nil => simp [joinBytes]
    | cons y l =>
      have := ih s (by simp)
      simp only [List.cons_append] at this ⊢
      rw [joinBytes_cons_cons, this, joinBytes_cons_cons]
      simp

theorem normal_ne_nil {s : Bytes} (h : isNormalSeg s = true) : s ≠ [] := by
  intro h0; rw [h0] at h; simp [isNormalSeg] at h

theorem normal_noSep {s : Bytes} (h : isNormalSeg s = true) : (0x2F : UInt8) ∉ s := by
  simp only [isNormalSeg, Bool.and_eq_true, Bool.not_eq_true'] at h
  simpa using h.2

theorem normal_ne_dot {s : Bytes} (h : isNormalSeg s = true) : s ≠ dot := by
  simp only [isNormalSeg, Bool.and_eq_true, bne_iff_ne, ne_eq] at h
  exact h.1.1.2

theorem normal_ne_dotdot {s : Bytes} (h : isNormalSeg s = true) : s ≠ dotdot := by
  simp only [isNormalSeg, Bool.and_eq_true, bne_iff_ne, ne_eq] at h
  exact h.1.2

theorem startsWith_of_not_mem {c : UInt8} {s : Bytes} (h : c ∉ s) : startsWithByte c s = false := by
  cases s with
  | nil => rfl
  | cons b tl =>
    simp only [List.mem_cons, not_or] at h
    simp [startsWithByte, Ne.symm h.1]

theorem endsWith_of_not_mem {c : UInt8} {s : Bytes} (h : c ∉ s) : endsWithByte c s = false := by
  unfold endsWithByte
  cases hl : s.getLast? with
  | none => rfl
  | some b =>
    have : b ∈ s := List.mem_of_getLast? hl
    have : b ≠ c := fun e => h (e ▸ this)
    simp [this]

theorem render_eq_nil {l : List Bytes} (hn : ∀ s ∈ l, isNormalSeg s = true) : render l = [] ↔ l = [] := by
  constructor
  · intro h
    cases l with
    | nil => rfl
    | cons x tl =>
      have hx := normal_ne_nil (hn x (List.mem_cons_self ..))
      cases tl with
      | nil => simp [render, joinBytes] at h; exact absurd h hx
      | cons y l => simp [render, joinBytes] at h
  · intro h; rw [h]; rfl

theorem render_endsWith {l : List Bytes} (hn : ∀ s ∈ l, isNormalSeg s = true) :
    endsWithByte 0x2F (render l) = false := by
  induction l with
  | nil => rfl
  | cons x tl ih =>
    cases tl with
    | nil => simpa [render, joinBytes] using endsWith_of_not_mem (normal_noSep (hn x (List.mem_cons_self ..)))
    | cons y l =>
      have ih' := ih (fun s h => hn s (List.mem_cons_of_mem _ h))
      have hne : render (y :: l) ≠ [] := by
        intro h0
        have := (render_eq_nil (fun s h => hn s (List.mem_cons_of_mem _ h))).1 h0
        cases this
      unfold endsWithByte at ih' ⊢
      simp only [render, joinBytes_cons_cons] at ih' hne ⊢
      rw [List.getLast?_append, List.getLast?_cons]
      cases hl : (joinBytes 0x2F (y :: l)).getLast? with
      | none => rw [List.getLast?_eq_none_iff] at hl; exact absurd hl hne
      | some b => rw [hl] at ih'; simpa using ih'

theorem pushS_render {l : List Bytes} {seg : Bytes} (hn : ∀ s ∈ l, isNormalSeg s = true)
    (hseg : (0x2F : UInt8) ∉ seg) : pushS (render l) seg = render (l ++ [seg]) := by
  unfold pushS
  rw [startsWith_of_not_mem hseg, render_endsWith hn]
  cases l with
  | nil => simp [render, joinBytes]
  | cons x tl =>
    have hne : render (x :: tl) ≠ [] := fun h0 => by
      have := (render_eq_nil hn).1 h0; cases this
    have : (render (x :: tl)).isEmpty = false := by simpa using hne
    simp only [this, Bool.false_eq_true, Bool.or_self, if_false]
    rw [render, render, joinBytes_concat _ _ _ (by simp)]
    simp

theorem popS_render {l : List Bytes} (hn : ∀ s ∈ l, isNormalSeg s = true) :
    popS (render l) = render l.dropLast := by
  unfold popS
  cases l with
  | nil => rfl
  | cons x tl =>
    rw [render, splitOn_join _ _ (by simp) (fun s h => normal_noSep (hn s h))]
    rfl

theorem componentsS_render {l : List Bytes} (hn : ∀ s ∈ l, isNormalSeg s = true) :
    componentsS (render l) = l.map .normal := by
  unfold componentsS
  cases l with
  | nil => simp [render, joinBytes, splitOn, startsWithByte, dot]
  | cons x tl =>
    have hx := hn x (List.mem_cons_self ..)
    have hroot : startsWithByte 0x2F (render (x :: tl)) = false := by
      have hxne := normal_ne_nil hx
      have hxs := normal_noSep hx
      cases x with
      | nil => exact absurd rfl hxne
      | cons b bt =>
        simp only [List.mem_cons, not_or] at hxs
        cases tl <;> simp [render, joinBytes, startsWithByte, Ne.symm hxs.1]
    rw [render, splitOn_join _ _ (by simp) (fun s h => normal_noSep (hn s h))] at *
    simp only [hroot, Bool.false_eq_true, if_false, normal_ne_dot hx, List.nil_append]
    have hf : (x :: tl).filter (fun s => !s.isEmpty && s != dot) = x :: tl := by
      rw [List.filter_eq_self]
      intro s hs
      have h1 := normal_ne_nil (hn s hs)
      have h2 := normal_ne_dot (hn s hs)
      simp [h1, h2]
    rw [hf]
    apply List.map_congr_left
    intro s hs
    simp [normal_ne_dotdot (hn s hs)]

theorem segLoopS_refines (hidden : Bool) : ∀ (segs buf : List Bytes) (cnt : Nat),
    (∀ s ∈ segs, (0x2F : UInt8) ∉ s) → (∀ s ∈ buf, isNormalSeg s = true) →
    segLoopS hidden segs (render buf) cnt =
      (segLoop hidden segs buf cnt).map (fun p => (render p.1, p.2)) := by
  intro segs
  induction segs with
  | nil => intro buf cnt _ _; rfl
  | cons seg rest ih =>
    intro buf cnt hs hb
    have hrest : ∀ s ∈ rest, (0x2F : UInt8) ∉ s := fun s h => hs s (List.mem_cons_of_mem _ h)
    have hseg : (0x2F : UInt8) ∉ seg := hs seg (List.mem_cons_self ..)
    unfold segLoopS segLoop
    split
    · rfl
    · rename_i hdot
      split
      · cases cnt with
        | zero => rfl
        | succ c =>
          simp only
          rw [popS_render hb]
          exact ih _ _ hrest (all_normal_dropLast hb)
      · rename_i hdd
        split
        · rfl
        · split
          · rfl
          · split
            · rfl
            · split
              · rfl
              · split
                · rfl
                · split
                  · cases cnt with
                    | zero => rfl
                    | succ c => exact ih _ _ hrest hb
                  · rename_i hne
                    rw [pushS_render hb hseg]
                    apply ih _ _ hrest
                    intro s hs'
                    simp only [List.mem_append, List.mem_cons, List.not_mem_nil, or_false] at hs'
                    rcases hs' with h | rfl
                    · exact hb s h
                    · exact isNormalSeg_of_pushed hdot hdd (by simpa using hne) hseg

theorem finalCheckS_refines {buf : List Bytes} (cnt : Nat) (hn : ∀ s ∈ buf, isNormalSeg s = true) :
    finalCheckS (render buf) cnt = (finalCheck buf cnt).map render := by
  unfold finalCheckS finalCheck
  simp only [componentsS_render hn, List.length_map]
  have h1 : (buf.map Component.normal).all isNormalComp = true := by
    simp [List.all_eq_true, isNormalComp]
  have h2 : buf.all isNormalSeg = true := by simpa [List.all_eq_true] using hn
  simp only [h1, h2, Bool.not_true, Bool.false_eq_true, if_false]
  split <;> rfl

/-- the string-level `parse_path` is the component-level one, rendered -/
theorem parsePathS_refines (hidden : Bool) (path : Bytes) :
    parsePathS hidden path = (parsePath hidden path).map render := by
  unfold parsePathS parsePath
  simp only
  split
  · rfl
  · split
    · rfl
    · rename_i _ hguard
      have hlen := segCount_eq path (by simpa using hguard)
      have hspec := segLoop_spec hidden (splitOn 0x2F (percentDecode path)) [] (countByte 0x2F path + 1)
        (splitOn_noSep _ _) (by simp) (by simp [hlen])
      have href := segLoopS_refines hidden (splitOn 0x2F (percentDecode path)) [] (countByte 0x2F path + 1)
        (splitOn_noSep _ _) (by simp)
      have hr : render [] = ([] : Bytes) := rfl
      rw [hr] at href
      rw [href]
      cases hloop : segLoop hidden (splitOn 0x2F (percentDecode path)) [] (countByte 0x2F path + 1) with
      | ok p =>
        obtain ⟨buf, cnt⟩ := p
        rw [hloop] at hspec
        simp only [Outcome.map]
        exact finalCheckS_refines cnt hspec.1
      | err e => rfl
      | panic p => rfl

end ActixModel.Files
