import ActixModel.Spec.C10
/-
Helper lemmas for `Model/Pattern.lean` (C10).  Core Lean only.

For each level of the matcher (one greedy piece, a piece sequence, a segment list) three facts:
* `accept…_iff`   — the boolean matcher accepts iff the input splits into a word of the
                    language and a rest the continuation accepts  (sound + complete);
* `match…_isSome` — the capturing matcher succeeds exactly when the boolean one accepts
                    (the two code paths `Regex::is_match` / `Regex::captures` agree);
* `match…_some`   — what the capturing matcher hands to its continuation is a word of the
                    language, with the byte position advanced by its length  (sound, offsets).
-/
namespace ActixModel.C10
open ActixModel.Pattern

/-! ### one greedy piece -/

theorem blen_append (a b : List Char) : blen (a ++ b) = blen a + blen b := by
  induction a with
  | nil => simp [blen]
  | cons x xs ih => simp [blen, ih, Nat.add_assoc]


theorem acceptRep_iff (a : Atom) (k : List Char → Bool) :
    ∀ (s : List Char) (mn : Nat) (mx : Option Nat),
      acceptRep a mn mx s k = true ↔ ∃ w v, s = w ++ v ∧ RepOk a mn mx w ∧ k v = true := by
  intro s
  induction s with
  | nil =>
    intro mn mx
    simp only [acceptRep, Bool.and_eq_true, beq_iff_eq]
    constructor
    · rintro ⟨h0, hk⟩
      exact ⟨[], [], rfl, ⟨by simp, by simp [h0], by simp⟩, hk⟩
    · rintro ⟨w, v, hs, ⟨_, hmin, _⟩, hk⟩
      have hw : w = [] := by cases w with | nil => rfl | cons _ _ => simp at hs
      subst hw
      have hv : v = [] := by simpa using hs.symm
      subst hv
      exact ⟨by simpa using hmin, hk⟩
  | cons c cs ih =>
    intro mn mx
    simp only [acceptRep, Bool.or_eq_true, Bool.and_eq_true, beq_iff_eq, bne_iff_ne, ne_eq]
    constructor
    · rintro (⟨⟨hm, hmx⟩, hrec⟩ | ⟨h0, hk⟩)
      · obtain ⟨w, v, hs, ⟨hall, hmin, hmax⟩, hk⟩ := (ih _ _).mp hrec
        refine ⟨c :: w, v, by simp [hs], ⟨?_, ?_, ?_⟩, hk⟩
        · intro x hx
          rcases List.mem_cons.mp hx with rfl | hx
          · exact hm
          · exact hall x hx
        · simp only [List.length_cons]; omega
        · intro m hm'
          subst hm'
          have h1 := hmax (m - 1) (by simp)
          have h2 : m ≠ 0 := by intro e; subst e; exact hmx rfl
          simp only [List.length_cons]; omega
      · exact ⟨[], c :: cs, rfl, ⟨by simp, by simp [h0], by simp⟩, hk⟩
    · rintro ⟨w, v, hs, ⟨hall, hmin, hmax⟩, hk⟩
      cases w with
      | nil =>
        right
        simp only [List.nil_append] at hs
        subst hs
        exact ⟨by simpa using hmin, hk⟩
      | cons c' w' =>
        left
        simp only [List.cons_append, List.cons.injEq] at hs
        obtain ⟨rfl, rfl⟩ := hs
        refine ⟨⟨hall c (by simp), ?_⟩, (ih _ _).mpr ⟨w', v, rfl, ⟨fun x hx => hall x (by simp [hx]), ?_, ?_⟩, hk⟩⟩
        · intro h
          have := hmax 0 h
          simp at this
        · simp only [List.length_cons] at hmin; omega
        · intro m hm
          cases mx with
          | none => simp at hm
          | some m0 =>
            simp only [Option.map_some, Option.some.injEq] at hm
            subst hm
            have := hmax m0 rfl
            simp only [List.length_cons] at this; omega

theorem matchRep_isSome {α : Type} (a : Atom) (k : Nat → List Char → Option α)
    (kb : List Char → Bool) (hk : ∀ pos v, (k pos v).isSome = kb v) :
    ∀ (s : List Char) (mn : Nat) (mx : Option Nat) (pos : Nat),
      (matchRep a mn mx s pos k).isSome = acceptRep a mn mx s kb := by
  intro s
  induction s with
  | nil =>
    intro mn mx pos
    simp only [matchRep, acceptRep]
    by_cases h0 : mn = 0
    · simp [h0, hk]
    · simp [h0]
  | cons c cs ih =>
    intro mn mx pos
    simp only [matchRep, acceptRep]
    by_cases hc : (a.matches c && mx != some 0) = true
    · rw [if_pos hc]
      have hrec := ih (mn - 1) (mx.map (· - 1)) (pos + c.utf8Size)
      simp only [Bool.and_eq_true] at hc
      cases hm : matchRep a (mn - 1) (mx.map (· - 1)) cs (pos + c.utf8Size) k with
      | some r =>
        rw [hm] at hrec
        simp only [Option.isSome_some] at hrec ⊢
        rw [← hrec, hc.1, hc.2]; rfl
      | none =>
        rw [hm] at hrec
        simp only [Option.isSome_none] at hrec
        rw [← hrec]
        by_cases h0 : mn = 0
        · simp [h0, hk]
        · simp [h0]
    · rw [if_neg hc]
      have : (a.matches c && mx != some 0) = false := by simpa using hc
      rw [this]
      by_cases h0 : mn = 0
      · simp [h0, hk]
      · simp [h0]

theorem matchRep_some {α : Type} (a : Atom) (k : Nat → List Char → Option α) :
    ∀ (s : List Char) (mn : Nat) (mx : Option Nat) (pos : Nat) (r : α),
      matchRep a mn mx s pos k = some r →
        ∃ w v, s = w ++ v ∧ RepOk a mn mx w ∧ k (pos + blen w) v = some r := by
  intro s
  induction s with
  | nil =>
    intro mn mx pos r h
    simp only [matchRep] at h
    split at h
    · rename_i h0
      exact ⟨[], [], rfl, ⟨by simp, by simp [h0], by simp⟩, by simpa [blen] using h⟩
    · cases h
  | cons c cs ih =>
    intro mn mx pos r h
    have exit : (if mn = 0 then k pos (c :: cs) else none) = some r →
        ∃ w v, c :: cs = w ++ v ∧ RepOk a mn mx w ∧ k (pos + blen w) v = some r := by
      intro h
      split at h
      · rename_i h0
        exact ⟨[], c :: cs, rfl, ⟨by simp, by simp [h0], by simp⟩, by simpa [blen] using h⟩
      · cases h
    simp only [matchRep] at h
    split at h
    · rename_i hc
      simp only [Bool.and_eq_true, bne_iff_ne, ne_eq] at hc
      split at h
      · rename_i r' hm
        injection h with h
        subst h
        obtain ⟨w, v, hs, ⟨hall, hmin, hmax⟩, hk⟩ := ih _ _ _ _ hm
        refine ⟨c :: w, v, by simp [hs], ⟨?_, ?_, ?_⟩, ?_⟩
        · intro x hx
          rcases List.mem_cons.mp hx with rfl | hx
          · exact hc.1
          · exact hall x hx
        · simp only [List.length_cons]; omega
        · intro m hm'
          subst hm'
          have h1 := hmax (m - 1) (by simp)
          have h2 : m ≠ 0 := by intro e; subst e; exact hc.2 rfl
          simp only [List.length_cons]; omega
        · simpa [blen, Nat.add_assoc] using hk
      · exact exit h
    · exact exit h

/-! ### piece sequences -/

theorem langRe_nil {w : List Char} (h : LangRe [] w) : w = [] := by
  cases h; rfl

theorem acceptRe_iff : ∀ (ps : Re) (s : List Char) (k : List Char → Bool),
    acceptRe ps s k = true ↔ ∃ w v, s = w ++ v ∧ LangRe ps w ∧ k v = true
  | [], s, k => by
    simp only [acceptRe]
    constructor
    · intro h; exact ⟨[], s, rfl, .nil, h⟩
    · rintro ⟨w, v, hs, hl, hk⟩
      have := langRe_nil hl
      subst this
      simpa [hs] using hk
  | p :: ps, s, k => by
    simp only [acceptRe]
    rw [acceptRep_iff]
    constructor
    · rintro ⟨w, v, hs, hr, hk⟩
      obtain ⟨w', v', hs', hl, hk'⟩ := (acceptRe_iff ps v k).mp hk
      exact ⟨w ++ w', v', by simp [hs, hs'], .cons hr hl, hk'⟩
    · rintro ⟨W, v, hs, hl, hk⟩
      cases hl with
      | cons hr hl =>
        rename_i w w'
        exact ⟨w, w' ++ v, by simp [hs], hr, (acceptRe_iff ps _ k).mpr ⟨w', v, rfl, hl, hk⟩⟩

theorem matchRe_isSome {α : Type} : ∀ (ps : Re) (k : Nat → List Char → Option α)
    (kb : List Char → Bool), (∀ pos v, (k pos v).isSome = kb v) →
    ∀ (s : List Char) (pos : Nat), (matchRe ps s pos k).isSome = acceptRe ps s kb
  | [], k, kb, hk, s, pos => by simp only [matchRe, acceptRe]; exact hk pos s
  | p :: ps, k, kb, hk, s, pos => by
    simp only [matchRe, acceptRe]
    exact matchRep_isSome p.atom _ _ (fun pos' v => matchRe_isSome ps k kb hk v pos') s p.min p.max pos

theorem matchRe_some {α : Type} : ∀ (ps : Re) (k : Nat → List Char → Option α)
    (s : List Char) (pos : Nat) (r : α), matchRe ps s pos k = some r →
      ∃ w v, s = w ++ v ∧ LangRe ps w ∧ k (pos + blen w) v = some r
  | [], k, s, pos, r, h => by
    simp only [matchRe] at h
    exact ⟨[], s, rfl, .nil, by simpa [blen] using h⟩
  | p :: ps, k, s, pos, r, h => by
    simp only [matchRe] at h
    obtain ⟨w, v, hs, hr, hk⟩ := matchRep_some p.atom _ s p.min p.max pos r h
    obtain ⟨w', v', hs', hl, hk'⟩ := matchRe_some ps k v _ r hk
    refine ⟨w ++ w', v', by simp [hs, hs'], .cons hr hl, ?_⟩
    rw [blen_append, ← Nat.add_assoc]; exact hk'

/-! ### segment lists -/

theorem stripPrefix_iff : ∀ (p s s' : List Char), stripPrefix p s = some s' ↔ s = p ++ s'
  | [], s, s' => by simp [stripPrefix, eq_comm]
  | _ :: _, [], s' => by simp [stripPrefix]
  | p :: ps, c :: cs, s' => by
    simp only [stripPrefix]
    by_cases h : p = c
    · subst h
      simp [stripPrefix_iff ps cs s']
    · simp only [if_neg h, List.cons_append, List.cons.injEq]
      constructor
      · intro h'; cases h'
      · rintro ⟨e, _⟩; exact absurd e.symm h

theorem acceptSegs_iff : ∀ (segs : List Seg) (s : List Char) (k : List Char → Bool),
    acceptSegs segs s k = true ↔ ∃ m v vals, s = m ++ v ∧ LangSegs segs m vals ∧ k v = true
  | [], s, k => by
    simp only [acceptSegs]
    constructor
    · intro h; exact ⟨[], s, [], rfl, .nil, h⟩
    · rintro ⟨m, v, vals, hs, hl, hk⟩
      cases hl
      simpa [hs] using hk
  | .const cs :: rest, s, k => by
    simp only [acceptSegs]
    constructor
    · intro h
      split at h
      · rename_i s' hp
        obtain ⟨m, v, vals, hs, hl, hk⟩ := (acceptSegs_iff rest s' k).mp h
        have := (stripPrefix_iff cs s s').mp hp
        exact ⟨cs ++ m, v, vals, by simp [this, hs], .const hl, hk⟩
      · cases h
    · rintro ⟨M, v, vals, hs, hl, hk⟩
      cases hl with
      | const hl =>
        rename_i m
        have : stripPrefix cs s = some (m ++ v) := (stripPrefix_iff cs s _).mpr (by simp [hs])
        rw [this]
        exact (acceptSegs_iff rest _ k).mpr ⟨m, v, vals, rfl, hl, hk⟩
  | .var n re :: rest, s, k => by
    simp only [acceptSegs]
    rw [acceptRe_iff]
    constructor
    · rintro ⟨w, v, hs, hr, hk⟩
      obtain ⟨m, v', vals, hs', hl, hk'⟩ := (acceptSegs_iff rest v k).mp hk
      exact ⟨w ++ m, v', (n, w) :: vals, by simp [hs, hs'], .var hr hl, hk'⟩
    · rintro ⟨M, v, vals, hs, hl, hk⟩
      cases hl with
      | var hr hl =>
        rename_i w m vals'
        exact ⟨w, m ++ v, by simp [hs], hr, (acceptSegs_iff rest _ k).mpr ⟨m, v, vals', rfl, hl, hk⟩⟩

theorem matchSegs_isSome {α : Type} : ∀ (segs : List Seg) (k : Nat → List Char → Caps → Option α)
    (kb : List Char → Bool), (∀ pos v caps, (k pos v caps).isSome = kb v) →
    ∀ (s : List Char) (pos : Nat) (caps : Caps),
      (matchSegs segs s pos caps k).isSome = acceptSegs segs s kb
  | [], k, kb, hk, s, pos, caps => by simp only [matchSegs, acceptSegs]; exact hk pos s caps
  | .const cs :: rest, k, kb, hk, s, pos, caps => by
    simp only [matchSegs, acceptSegs]
    cases stripPrefix cs s with
    | none => rfl
    | some s' => exact matchSegs_isSome rest k kb hk s' _ caps
  | .var n re :: rest, k, kb, hk, s, pos, caps => by
    simp only [matchSegs, acceptSegs]
    exact matchRe_isSome re _ _
      (fun pos' v => matchSegs_isSome rest k kb hk v pos' _) s pos

theorem matchSegs_some {α : Type} : ∀ (segs : List Seg) (k : Nat → List Char → Caps → Option α)
    (s : List Char) (pos : Nat) (caps : Caps) (r : α), matchSegs segs s pos caps k = some r →
      ∃ m v vals, s = m ++ v ∧ LangSegs segs m vals ∧
        k (pos + blen m) v (caps ++ spansOf segs pos vals) = some r
  | [], k, s, pos, caps, r, h => by
    simp only [matchSegs] at h
    exact ⟨[], s, [], rfl, .nil, by simpa [blen, spansOf] using h⟩
  | .const cs :: rest, k, s, pos, caps, r, h => by
    simp only [matchSegs] at h
    split at h
    · rename_i s' hp
      obtain ⟨m, v, vals, hs, hl, hk⟩ := matchSegs_some rest k s' _ caps r h
      have := (stripPrefix_iff cs s s').mp hp
      refine ⟨cs ++ m, v, vals, by simp [this, hs], .const hl, ?_⟩
      rw [blen_append, ← Nat.add_assoc]
      simpa [spansOf] using hk
    · cases h
  | .var n re :: rest, k, s, pos, caps, r, h => by
    simp only [matchSegs] at h
    obtain ⟨w, v, hs, hr, hk⟩ := matchRe_some re _ s pos r h
    obtain ⟨m, v', vals, hs', hl, hk'⟩ := matchSegs_some rest k v _ _ r hk
    refine ⟨w ++ m, v', (n, w) :: vals, by simp [hs, hs'], .var hr hl, ?_⟩
    rw [blen_append, ← Nat.add_assoc]
    simpa [spansOf, List.append_assoc] using hk'

/-! ### one dynamic pattern -/

theorem suffix_ok_iff (sfx : Suffix) (rest : List Char) : sfx.ok rest = true ↔ SuffixOk sfx rest := by
  cases sfx with
  | eos => simp [Suffix.ok, SuffixOk]
  | slashOrEos =>
    cases rest with
    | nil => simp [Suffix.ok, SuffixOk]
    | cons c t =>
      simp only [Suffix.ok, SuffixOk, List.head?_cons, List.isEmpty_cons, Bool.or_false, beq_iff_eq,
        Option.some.injEq, reduceCtorEq, false_or, List.cons.injEq]
      constructor
      · intro h; exact ⟨t, h, rfl⟩
      · rintro ⟨t', h, _⟩; exact h
  | «open» => simp [Suffix.ok, SuffixOk]

theorem isMatchRe_iff (d : DynPat) (path : List Char) :
    d.isMatchRe path = true ↔ ∃ n vals, LangDyn d path n vals := by
  unfold DynPat.isMatchRe LangDyn
  rw [acceptSegs_iff]
  constructor
  · rintro ⟨m, v, vals, hs, hl, hk⟩
    exact ⟨blen m, vals, m, v, hs, hl, (suffix_ok_iff _ _).mp hk, rfl⟩
  · rintro ⟨n, vals, m, v, hs, hl, hk, _⟩
    exact ⟨m, v, vals, hs, hl, (suffix_ok_iff _ _).mpr hk⟩

theorem captures_isSome (d : DynPat) (path : List Char) :
    (d.captures path).isSome = d.isMatchRe path := by
  unfold DynPat.captures DynPat.isMatchRe
  apply matchSegs_isSome
  intro pos v caps
  by_cases h : d.suffix.ok v = true
  · simp [h]
  · simp [h]

theorem captures_some {d : DynPat} {path : List Char} {n : Nat} {caps : Caps}
    (h : d.captures path = some (n, caps)) :
    ∃ m rest vals, path = m ++ rest ∧ LangSegs d.segs m vals ∧ SuffixOk d.suffix rest ∧
      n = blen m ∧ caps = spansOf d.segs 0 vals := by
  unfold DynPat.captures at h
  obtain ⟨m, v, vals, hs, hl, hk⟩ := matchSegs_some _ _ _ _ _ _ h
  split at hk
  · rename_i hok
    injection hk with hk
    injection hk with h1 h2
    exact ⟨m, v, vals, hs, hl, (suffix_ok_iff _ _).mp hok, by simpa using h1.symm, by simpa using h2.symm⟩
  · cases hk

/-! ### spans -/

theorem spansOf_names : ∀ {segs : List Seg} {m : List Char} {vals : List (Name × List Char)},
    LangSegs segs m vals → ∀ pos, (spansOf segs pos vals).map (·.1) = segs.filterMap Seg.name?
  | _, _, _, .nil, pos => by simp [spansOf]
  | _, _, _, .const hl, pos => by
    simp only [spansOf, List.filterMap_cons, Seg.name?]
    exact spansOf_names hl _
  | _, _, _, .var hr hl, pos => by
    simp only [spansOf, List.filterMap_cons, Seg.name?, List.map_cons]
    rw [spansOf_names hl _]

theorem vals_names : ∀ {segs : List Seg} {m : List Char} {vals : List (Name × List Char)},
    LangSegs segs m vals → vals.map (·.1) = segs.filterMap Seg.name?
  | _, _, _, .nil => by simp
  | _, _, _, .const hl => by
    simp only [List.filterMap_cons, Seg.name?]
    exact vals_names hl
  | _, _, _, .var hr hl => by
    simp only [List.filterMap_cons, Seg.name?, List.map_cons]
    rw [vals_names hl]

/-- every span lies inside the matched prefix, is the substring of its value, in order -/
theorem spansOf_substr : ∀ {segs : List Seg} {m : List Char} {vals : List (Name × List Char)},
    LangSegs segs m vals → ∀ (pre rest : List Char),
      SpansOk (pre ++ m ++ rest) (blen pre + blen m) (spansOf segs (blen pre) vals) vals
  | _, _, _, .nil, pre, rest => by simp [spansOf, SpansOk]
  | _, _, _, .const (cs := cs) (v := v) hl, pre, rest => by
    simp only [spansOf]
    have := spansOf_substr hl (pre ++ cs) rest
    rw [blen_append] at this
    simpa [List.append_assoc, blen_append, Nat.add_assoc] using this
  | _, _, _, .var (n := n) (w := w) (v := v) hr hl, pre, rest => by
    simp only [spansOf, SpansOk]
    refine ⟨trivial, ⟨pre, v ++ rest, by simp [List.append_assoc], rfl, rfl⟩, ?_, ?_⟩
    · simp only [blen_append]; omega
    · have := spansOf_substr hl (pre ++ w) rest
      rw [blen_append] at this
      simpa [List.append_assoc, blen_append, Nat.add_assoc] using this

theorem buildSegs_lang : ∀ {segs : List Seg} {m : List Char} {vals : List (Name × List Char)},
    LangSegs segs m vals → ∀ extra, buildSegs segs (vals.map (·.2) ++ extra) = (m, true)
  | _, _, _, .nil, extra => by simp [buildSegs]
  | _, _, _, .const hl, extra => by
    simp only [buildSegs]
    rw [buildSegs_lang hl extra]
  | _, _, _, .var hr hl, extra => by
    simp only [List.map_cons, List.cons_append, buildSegs]
    rw [buildSegs_lang hl extra]

/-! ### `collectSegments`, `commit` -/

theorem lookupCap_isSome_of_mem : ∀ (caps : Caps) (n : Name), n ∈ caps.map (·.1) →
    (lookupCap n caps).isSome
  | [], n, h => by simp at h
  | (n', s, e) :: rest, n, h => by
    simp only [lookupCap]
    by_cases hn : n' = n
    · simp [hn]
    · simp only [if_neg hn]
      apply lookupCap_isSome_of_mem rest n
      simp only [List.map_cons, List.mem_cons] at h
      rcases h with h | h
      · exact absurd h.symm hn
      · exact h

theorem collectSegments_isSome (caps : Caps) : ∀ (names : List Name),
    (∀ n ∈ names, n ∈ caps.map (·.1)) → (collectSegments caps names).isSome
  | [], _ => by simp [collectSegments]
  | n :: rest, h => by
    simp only [collectSegments]
    have h1 := lookupCap_isSome_of_mem caps n (h n (by simp))
    cases hl : lookupCap n caps with
    | none => rw [hl] at h1; cases h1
    | some se =>
      obtain ⟨s, e⟩ := se
      simp only
      have h2 := collectSegments_isSome caps rest (fun x hx => h x (by simp [hx]))
      cases hc : collectSegments caps rest with
      | none => rw [hc] at h2; cases h2
      | some xs => simp

theorem lookupCap_of_mem : ∀ (caps : Caps), allDistinct (caps.map (·.1)) = true →
    ∀ x ∈ caps, lookupCap x.1 caps = some x.2
  | [], _, x, hx => by simp at hx
  | (n', s, e) :: rest, hd, x, hx => by
    simp only [List.map_cons, allDistinct, Bool.and_eq_true, Bool.not_eq_true'] at hd
    simp only [lookupCap]
    rcases List.mem_cons.mp hx with rfl | hx
    · simp
    · by_cases hn : n' = x.1
      · exfalso
        have : (rest.map (·.1)).contains n' = true := by
          rw [hn]; simp only [List.contains_iff_mem, List.mem_map]; exact ⟨x, hx, rfl⟩
        rw [hd.1] at this; cases this
      · simp only [if_neg hn]
        exact lookupCap_of_mem rest hd.2 x hx

theorem collectSegments_eq (all : Caps) : ∀ (caps : Caps),
    (∀ x ∈ caps, lookupCap x.1 all = some x.2) →
    collectSegments all (caps.map (·.1)) = some (caps.map fun x => (x.1, asU16 x.2.1, asU16 x.2.2))
  | [], _ => by simp [collectSegments]
  | (n, s, e) :: rest, h => by
    simp only [List.map_cons, collectSegments]
    rw [h (n, s, e) (by simp)]
    simp only
    rw [collectSegments_eq all rest (fun x hx => h x (by simp [hx]))]

theorem asU16_of_lt {n : Nat} (h : n < 65536) : asU16 n = n := Nat.mod_eq_of_lt h

theorem addSegments_eq (skip : Nat) : ∀ (vars : List (Name × Nat × Nat)),
    (∀ x ∈ vars, skip + x.2.2 < 65536 ∧ x.2.1 ≤ x.2.2) →
    addSegments skip vars = some (vars.map fun x => (x.1, skip + x.2.1, skip + x.2.2))
  | [], _ => by simp [addSegments]
  | (n, b, e) :: rest, h => by
    have h0 := h (n, b, e) (by simp)
    simp only at h0
    have hb : addU16 skip b = some (skip + b) := by
      unfold addU16; rw [if_pos (by omega)]
    have he : addU16 skip e = some (skip + e) := by
      unfold addU16; rw [if_pos (by omega)]
    simp only [addSegments, hb, he, addSegments_eq skip rest (fun x hx => h x (by simp [hx])), List.map_cons]

/-! ### `first_match_idx` -/

theorem firstMatchIdx_none {ds : List DynPat} {path : List Char} :
    firstMatchIdx ds path = none ↔ ds.any (·.isMatchRe path) = false := by
  unfold firstMatchIdx
  induction ds with
  | nil => simp
  | cons d rest ih =>
    rw [List.findIdx?_cons]
    by_cases hd : d.isMatchRe path = true
    · simp [hd]
    · have : d.isMatchRe path = false := by simpa using hd
      simp only [this, List.any_cons, Bool.false_or]
      simp only [Bool.false_eq_true, if_false, Option.map_eq_none_iff]
      exact ih

theorem firstMatchIdx_some {path : List Char} : ∀ {ds : List DynPat} {i : Nat},
    firstMatchIdx ds path = some i →
      ∃ d, ds[i]? = some d ∧ d.isMatchRe path = true ∧
        ∀ (j : Nat) (d' : DynPat), j < i → ds[j]? = some d' → d'.isMatchRe path = false
  | [], i, h => by simp [firstMatchIdx] at h
  | d :: rest, i, h => by
    unfold firstMatchIdx at h
    rw [List.findIdx?_cons] at h
    by_cases hd : d.isMatchRe path = true
    · simp only [hd, if_true, Option.some.injEq] at h
      subst h
      exact ⟨d, rfl, hd, by intro j d' hj; omega⟩
    · have hf : d.isMatchRe path = false := by simpa using hd
      simp only [hf, Bool.false_eq_true, if_false, Option.map_eq_some_iff] at h
      obtain ⟨i', hi', rfl⟩ := h
      obtain ⟨d0, h0, h1, h2⟩ := firstMatchIdx_some (ds := rest) hi'
      refine ⟨d0, by simpa using h0, h1, ?_⟩
      intro j d' hj hget
      cases j with
      | zero => simp only [List.getElem?_cons_zero, Option.some.injEq] at hget; subst hget; exact hf
      | succ j => exact h2 j d' (by omega) (by simpa using hget)

end ActixModel.C10
