import ActixModel.Proofs.Pattern
/-
`ResourceDef`-level lemmas for C10: the three code paths on a fresh `Path`, `commit`, u16.
-/
namespace ActixModel.C10
open ActixModel.Pattern

/-- `Path::new(path)` -/
def fresh (path : List Char) : PathState := { path := path }

theorem dropBytes_zero (s : List Char) : dropBytes 0 s = s := by
  cases s <;> rfl

theorem fresh_unprocessed (path : List Char) : (fresh path).unprocessed = path := by
  simp [fresh, PathState.unprocessed, dropBytes_zero]

theorem asU16_lt (n : Nat) : asU16 n < 65536 := Nat.mod_lt _ (by decide)

theorem addSegments_zero : ∀ (vars : List (Name × Nat × Nat)),
    (∀ x ∈ vars, x.2.1 < 65536 ∧ x.2.2 < 65536) → addSegments 0 vars = some vars
  | [], _ => rfl
  | (n, b, e) :: rest, h => by
    have h0 := h (n, b, e) (by simp)
    simp only at h0
    have hb : addU16 0 b = some b := by unfold addU16; simp [h0.1]
    have he : addU16 0 e = some e := by unfold addU16; simp [h0.2]
    simp only [addSegments, hb, he, addSegments_zero rest (fun x hx => h x (by simp [hx]))]

theorem commit_fresh (path : List Char) (len : Nat) (vars : List (Name × Nat × Nat))
    (h : ∀ x ∈ vars, x.2.1 < 65536 ∧ x.2.2 < 65536) :
    commit (fresh path) len vars = .matched { path := path, skip := asU16 len, segments := vars } := by
  unfold commit
  have : addU16 0 (asU16 len) = some (asU16 len) := by
    unfold addU16; simp [asU16_lt]
  simp only [fresh, addSegments_zero vars h, this, List.nil_append]

theorem collectSegments_lt (caps : Caps) : ∀ (names : List Name) (vars : List (Name × Nat × Nat)),
    collectSegments caps names = some vars → ∀ x ∈ vars, x.2.1 < 65536 ∧ x.2.2 < 65536
  | [], vars, h => by
    simp only [collectSegments, Option.some.injEq] at h; subst h; simp
  | n :: rest, vars, h => by
    simp only [collectSegments] at h
    split at h
    · cases h
    · rename_i s e hl
      split at h
      · rename_i xs hc
        injection h with h
        subst h
        intro x hx
        rcases List.mem_cons.mp hx with rfl | hx
        · exact ⟨asU16_lt _, asU16_lt _⟩
        · exact collectSegments_lt caps rest xs hc x hx
      · cases h

/-- a successful regex match always yields all named groups (fragment: one group per segment) -/
theorem collect_of_captures {d : DynPat} {path : List Char} {n : Nat} {caps : Caps}
    (h : d.captures path = some (n, caps)) : (collectSegments caps d.names).isSome := by
  obtain ⟨m, rest, vals, _, hl, _, _, hc⟩ := captures_some h
  apply collectSegments_isSome
  intro x hx
  rw [hc, spansOf_names hl]
  exact hx

theorem captureDyn_fresh_none {d : DynPat} {path : List Char} (h : d.captures path = none) :
    captureDyn d (fresh path) = .noMatch := by
  unfold captureDyn
  rw [fresh_unprocessed, h]

theorem captureDyn_fresh_some {d : DynPat} {path : List Char} {n : Nat} {caps : Caps}
    (h : d.captures path = some (n, caps)) :
    ∃ vars, collectSegments caps d.names = some vars ∧
      captureDyn d (fresh path) = .matched { path := path, skip := asU16 n, segments := vars } := by
  have hs := collect_of_captures h
  cases hc : collectSegments caps d.names with
  | none => rw [hc] at hs; cases hs
  | some vars =>
    refine ⟨vars, rfl, ?_⟩
    unfold captureDyn
    rw [fresh_unprocessed, h]
    simp only [hc]
    exact commit_fresh path n vars (collectSegments_lt caps _ vars hc)

/-- is_match / find_match / capture agree for one dynamic pattern -/
theorem dyn_agree (d : DynPat) (path : List Char) :
    d.isMatchRe path = ((d.captures path).map (·.1)).isSome := by
  rw [Option.isSome_map, captures_isSome]

theorem static_iff (isPrefix : Bool) (p path : List Char) (n : Nat) :
    staticMatch isPrefix p path = some n ↔
      ∃ rest, path = p ++ rest ∧ n = blen p ∧
        (if isPrefix then (rest = [] ∨ ∃ t, rest = '/' :: t) else rest = []) := by
  unfold staticMatch
  cases hp : stripPrefix p path with
  | none =>
    simp only [reduceCtorEq, false_iff]
    rintro ⟨rest, hs, _⟩
    have := (stripPrefix_iff p path rest).mpr hs
    rw [hp] at this; cases this
  | some rem =>
    have hs := (stripPrefix_iff p path rem).mp hp
    simp only
    cases isPrefix with
    | false =>
      simp only [Bool.not_false, if_true, Bool.false_eq_true, if_false]
      constructor
      · intro h
        split at h
        · rename_i he
          injection h with h
          exact ⟨rem, hs, h.symm, by simpa using he⟩
        · cases h
      · rintro ⟨rest, hs', hn, hr⟩
        subst hr
        have : rem = [] := by
          have := hs.symm.trans hs'
          simpa using this
        subst this
        simp [hn]
    | true =>
      simp only [Bool.not_true, Bool.false_eq_true, if_false, if_true]
      constructor
      · intro h
        split at h
        · rename_i he
          injection h with h
          refine ⟨rem, hs, h.symm, ?_⟩
          cases rem with
          | nil => left; rfl
          | cons c t =>
            right
            simp only [List.isEmpty_cons, List.head?_cons, Bool.false_or, beq_iff_eq, Option.some.injEq] at he
            exact ⟨t, by rw [he]⟩
        · cases h
      · rintro ⟨rest, hs', hn, hr⟩
        have : rem = rest := by
          have := hs.symm.trans hs'
          simpa using this
        subst this
        rcases hr with hr | ⟨t, hr⟩
        · subst hr; simp [hn]
        · subst hr; simp [hn]

/-! ### the length guard of the dynamic arms -/

theorem tooLong_false {p : PathState} (h : blen p.path < 65536) : p.tooLong = false := by
  unfold PathState.tooLong
  simp only [decide_eq_false_iff_not]; omega

theorem tooLong_true {p : PathState} (h : 65535 < blen p.path) : p.tooLong = true := by
  unfold PathState.tooLong
  simpa using h

theorem blen_replicate_a (n : Nat) : blen (List.replicate n 'a') = n := by
  induction n with
  | zero => rfl
  | succ n ih =>
    rw [List.replicate_succ, blen, ih]
    have : 'a'.utf8Size = 1 := by decide
    omega

/-! ### slicing -/

theorem sliceBytes_zero_step (c : Char) (cs : List Char) (k : Nat) :
    sliceBytes? (c :: cs) 0 (c.utf8Size + k) = (sliceBytes? cs 0 k).map (c :: ·) := by
  have hpos := Char.utf8Size_pos c
  obtain ⟨e, he⟩ : ∃ e, c.utf8Size + k = e + 1 := ⟨c.utf8Size + k - 1, by omega⟩
  rw [he, sliceBytes?]
  have h1 : c.utf8Size ≤ e + 1 := by omega
  have h2 : e + 1 - c.utf8Size = k := by omega
  rw [if_pos h1, h2]

theorem sliceBytes_step (c : Char) (cs : List Char) (s e : Nat) :
    sliceBytes? (c :: cs) (c.utf8Size + s) (c.utf8Size + e) = sliceBytes? cs s e := by
  have hpos := Char.utf8Size_pos c
  obtain ⟨st, hst⟩ : ∃ st, c.utf8Size + s = st + 1 := ⟨c.utf8Size + s - 1, by omega⟩
  rw [hst, sliceBytes?]
  have h1 : c.utf8Size ≤ st + 1 ∧ c.utf8Size ≤ c.utf8Size + e := by omega
  have h2 : st + 1 - c.utf8Size = s := by omega
  have h3 : c.utf8Size + e - c.utf8Size = e := by omega
  rw [if_pos h1, h2, h3]

theorem sliceBytes_prefix : ∀ (w b : List Char), sliceBytes? (w ++ b) 0 (blen w) = some w
  | [], b => by cases b <;> simp [blen, sliceBytes?]
  | c :: w, b => by
    simp only [List.cons_append, blen]
    rw [sliceBytes_zero_step, sliceBytes_prefix w b]; rfl

/-- `&path[st..en]` is the value: a substring (in the sense of the spec) is what slicing returns -/
theorem sliceBytes_substr {path w : List Char} {st en : Nat} (h : Substr path st en w) :
    sliceBytes? path st en = some w := by
  obtain ⟨a, b, hp, hs, he⟩ := h
  subst hp hs he
  induction a with
  | nil => simpa [blen] using sliceBytes_prefix w b
  | cons c a ih =>
    simp only [List.cons_append, blen, Nat.add_assoc]
    rw [sliceBytes_step]
    simpa [List.append_assoc] using ih

theorem spansOk_bounds {path : List Char} {bound : Nat} :
    ∀ {sps : List (Name × Nat × Nat)} {vals : List (Name × List Char)}, SpansOk path bound sps vals →
      ∀ x ∈ sps, x.2.1 ≤ x.2.2 ∧ x.2.2 ≤ bound
  | [], [], _, x, hx => by simp at hx
  | [], _ :: _, h, _, _ => by simp [SpansOk] at h
  | _ :: _, [], h, _, _ => by simp [SpansOk] at h
  | sp :: sps, v :: vs, h, x, hx => by
    simp only [SpansOk] at h
    rcases List.mem_cons.mp hx with rfl | hx
    · obtain ⟨_, ⟨a, b, _, hs, he⟩, hb, _⟩ := h
      exact ⟨by omega, hb⟩
    · exact spansOk_bounds h.2.2.2 x hx

theorem spansOk_values {path : List Char} {bound : Nat} :
    ∀ {sps : List (Name × Nat × Nat)} {vals : List (Name × List Char)}, SpansOk path bound sps vals →
      (sps.map fun (x : Name × Nat × Nat) => (x.1, sliceBytes? path x.2.1 x.2.2)) =
        vals.map fun v => (v.1, some v.2)
  | [], [], _ => rfl
  | [], _ :: _, h => by simp [SpansOk] at h
  | _ :: _, [], h => by simp [SpansOk] at h
  | sp :: sps, v :: vs, h => by
    simp only [SpansOk] at h
    obtain ⟨hn, hsub, _, hrest⟩ := h
    simp only [List.map_cons, spansOk_values hrest, sliceBytes_substr hsub, hn]

theorem blen_le_of_append {m rest path : List Char} (h : path = m ++ rest) : blen m ≤ blen path := by
  subst h; rw [blen_append]; omega

/-- core of soundness for one dynamic pattern on a fresh path below 64 KiB -/
theorem captureDyn_sound {d : DynPat} {path : List Char} {st : PathState} (hwf : DynWF d)
    (hlen : blen path < 65536) (h : captureDyn d (fresh path) = .matched st) :
    ∃ vals, LangDyn d path st.skip vals ∧ st.path = path ∧ SpansOk path st.skip st.segments vals := by
  cases hc : d.captures path with
  | none => rw [captureDyn_fresh_none hc] at h; cases h
  | some r =>
    obtain ⟨n, caps⟩ := r
    obtain ⟨vars, hv, hm⟩ := captureDyn_fresh_some hc
    rw [hm] at h
    injection h with h
    subst h
    obtain ⟨m, rest, vals, hp, hl, hsfx, hn, hcaps⟩ := captures_some hc
    have hmlen : blen m ≤ blen path := blen_le_of_append hp
    have hnn : asU16 n = n := asU16_of_lt (by omega)
    have hok : SpansOk path n caps vals := by
      have := spansOf_substr hl [] rest
      simp only [List.nil_append, blen, Nat.zero_add] at this
      rw [hp, hn, hcaps]; exact this
    have hnames : d.names = caps.map (·.1) := by
      rw [hcaps, spansOf_names hl]; rfl
    have hdist : allDistinct (caps.map (·.1)) = true := by rw [← hnames]; exact hwf
    have hvars : vars = caps := by
      rw [hnames, collectSegments_eq caps caps (lookupCap_of_mem caps hdist)] at hv
      injection hv with hv
      rw [← hv]
      have hb := spansOk_bounds hok
      clear hv hok hdist hnames hcaps hc hm
      induction caps with
      | nil => rfl
      | cons x xs ih =>
        have hx := hb x (by simp)
        simp only [List.map_cons]
        rw [ih (fun y hy => hb y (by simp [hy])), asU16_of_lt (by omega), asU16_of_lt (by omega)]
    refine ⟨vals, ⟨m, rest, hp, hl, hsfx, ?_⟩, rfl, ?_⟩
    · simp only [hnn]; exact hn
    · simp only [hnn, hvars]; exact hok

/-! ### chained matching: a `Path` with `skip > 0` behaves like a fresh path on the rest -/

/-- the state after a successful step, given the result `f` of the same step on a fresh path
holding only the unprocessed rest -/
def shiftState (st f : PathState) : PathState :=
  { path := st.path, skip := st.skip + f.skip,
    segments := st.segments ++ f.segments.map fun x => (x.1, st.skip + x.2.1, st.skip + x.2.2) }

theorem dropBytes_blen : ∀ (n : Nat) (s : List Char), n ≤ blen s → blen (dropBytes n s) + n ≤ blen s
  | 0, s, _ => by rw [dropBytes_zero]; omega
  | n + 1, [], h => by simp [blen] at h
  | n + 1, c :: cs, h => by
    simp only [dropBytes, blen] at h ⊢
    by_cases hc : c.utf8Size ≤ n + 1
    · have := dropBytes_blen (n + 1 - c.utf8Size) cs (by omega)
      omega
    · have h0 : n + 1 - c.utf8Size = 0 := by omega
      rw [h0, dropBytes_zero]; omega

theorem unprocessed_blen (st : PathState) (hskip : st.skip ≤ blen st.path) :
    blen st.unprocessed + st.skip ≤ blen st.path := by
  unfold PathState.unprocessed
  rw [Nat.min_eq_left hskip]
  exact dropBytes_blen _ _ hskip

theorem commit_shift (st : PathState) (u : List Char) (len : Nat) (vars : List (Name × Nat × Nat))
    (hb : ∀ x ∈ vars, st.skip + x.2.2 < 65536 ∧ x.2.1 ≤ x.2.2) (hl : st.skip + asU16 len < 65536) :
    commit st len vars = .matched (shiftState st { path := u, skip := asU16 len, segments := vars }) := by
  unfold commit
  rw [addSegments_eq st.skip vars hb]
  have : addU16 st.skip (asU16 len) = some (st.skip + asU16 len) := by
    unfold addU16; rw [if_pos hl]
  simp only [this, shiftState]

theorem lookupCap_mem : ∀ (caps : Caps) (n : Name) (s e : Nat), lookupCap n caps = some (s, e) →
    (n, s, e) ∈ caps
  | [], _, _, _, h => by simp [lookupCap] at h
  | (n', s', e') :: rest, n, s, e, h => by
    simp only [lookupCap] at h
    by_cases hn : n' = n
    · simp only [if_pos hn, Option.some.injEq, Prod.mk.injEq] at h
      obtain ⟨h1, h2⟩ := h
      subst hn h1 h2
      simp
    · simp only [if_neg hn] at h
      exact List.mem_cons_of_mem _ (lookupCap_mem rest n s e h)

theorem collectSegments_mem (caps : Caps) : ∀ (names : List Name) (vars : List (Name × Nat × Nat)),
    collectSegments caps names = some vars →
      ∀ x ∈ vars, ∃ s e, (x.1, s, e) ∈ caps ∧ x.2.1 = asU16 s ∧ x.2.2 = asU16 e
  | [], vars, h => by
    simp only [collectSegments, Option.some.injEq] at h; subst h; simp
  | n :: rest, vars, h => by
    simp only [collectSegments] at h
    split at h
    · cases h
    · rename_i s e hl
      split at h
      · rename_i xs hc
        injection h with h
        subst h
        intro x hx
        rcases List.mem_cons.mp hx with rfl | hx
        · exact ⟨s, e, lookupCap_mem caps n s e hl, rfl, rfl⟩
        · exact collectSegments_mem caps rest xs hc x hx
      · cases h

/-- spans reported by a successful regex match lie inside the matched prefix -/
theorem captures_bounds {d : DynPat} {u : List Char} {n : Nat} {caps : Caps}
    (h : d.captures u = some (n, caps)) :
    n ≤ blen u ∧ ∀ x ∈ caps, x.2.1 ≤ x.2.2 ∧ x.2.2 ≤ n := by
  obtain ⟨m, rest, vals, hp, hl, _, hn, hc⟩ := captures_some h
  have hok : SpansOk u n caps vals := by
    have := spansOf_substr hl [] rest
    simp only [List.nil_append, blen, Nat.zero_add] at this
    rw [hp, hn, hc]; exact this
  exact ⟨by rw [hn]; exact blen_le_of_append hp, spansOk_bounds hok⟩

theorem captureDyn_shift (d : DynPat) (st : PathState) (hlen : blen st.path < 65536)
    (hskip : st.skip ≤ blen st.path) :
    (captureDyn d (fresh st.unprocessed) = .noMatch → captureDyn d st = .noMatch) ∧
    (∀ f, captureDyn d (fresh st.unprocessed) = .matched f →
      captureDyn d st = .matched (shiftState st f) ∧ f.skip ≤ blen st.unprocessed) := by
  have hu := unprocessed_blen st hskip
  cases hc : d.captures st.unprocessed with
  | none =>
    refine ⟨fun _ => (by unfold captureDyn; rw [hc]), ?_⟩
    intro f hf
    rw [captureDyn_fresh_none hc] at hf; cases hf
  | some r =>
    obtain ⟨n, caps⟩ := r
    obtain ⟨vars, hv, hm⟩ := captureDyn_fresh_some hc
    obtain ⟨hn, hb⟩ := captures_bounds hc
    have hnn : asU16 n = n := asU16_of_lt (by omega)
    refine ⟨fun h => (by rw [hm] at h; cases h), ?_⟩
    intro f hf
    rw [hm] at hf
    injection hf with hf
    subst hf
    refine ⟨?_, by simp only [hnn]; exact hn⟩
    unfold captureDyn
    rw [hc]
    simp only [hv]
    apply commit_shift
    · intro x hx
      obtain ⟨s, e, hmem, h1, h2⟩ := collectSegments_mem caps _ vars hv x hx
      have := hb _ hmem
      simp only at this
      rw [h1, h2, asU16_of_lt (by omega), asU16_of_lt (by omega)]
      omega
    · rw [hnn]; omega

theorem findMatch_le (rd : ResourceDef) (path : List Char) (n : Nat)
    (h : rd.findMatch path = some n) : n ≤ blen path := by
  have dyn : ∀ d : DynPat, (d.captures path).map (·.1) = some n → n ≤ blen path := by
    intro d hd
    cases hc : d.captures path with
    | none => rw [hc] at hd; cases hd
    | some r =>
      obtain ⟨n', caps⟩ := r
      rw [hc] at hd
      simp only [Option.map_some, Option.some.injEq] at hd
      subst hd
      exact (captures_bounds hc).1
  unfold ResourceDef.findMatch at h
  cases hpt : rd.patType with
  | «static» p =>
    rw [hpt] at h
    obtain ⟨rest, hp, hn, _⟩ := (static_iff _ _ _ _).mp h
    rw [hn]; exact blen_le_of_append hp
  | dynamic d => rw [hpt] at h; exact dyn d h
  | dynamicSet ds =>
    rw [hpt] at h
    simp only at h
    split at h
    · cases h
    · split at h
      · exact dyn _ h
      · cases h

/-! ### unique decomposition for slash-separated patterns -/

theorem split_at_slash : ∀ (w w' x x' : List Char), '/' ∉ w → '/' ∉ w' →
    w ++ '/' :: x = w' ++ '/' :: x' → w = w' ∧ x = x'
  | [], [], x, x', _, _, h => by simpa using h
  | [], c :: w', x, x', _, h2, h => by
    simp only [List.nil_append, List.cons_append, List.cons.injEq] at h
    exact absurd (by rw [← h.1]; simp) h2
  | c :: w, [], x, x', h1, _, h => by
    simp only [List.nil_append, List.cons_append, List.cons.injEq] at h
    exact absurd (by rw [h.1]; simp) h1
  | c :: w, c' :: w', x, x', h1, h2, h => by
    simp only [List.cons_append, List.cons.injEq] at h
    obtain ⟨hc, ht⟩ := h
    have := split_at_slash w w' x x' (fun hm => h1 (List.mem_cons_of_mem _ hm))
      (fun hm => h2 (List.mem_cons_of_mem _ hm)) ht
    exact ⟨by rw [hc, this.1], this.2⟩

theorem langSegs_unique : ∀ {segs : List Seg} {m : List Char} {vals vals' : List (Name × List Char)},
    Separated segs → LangSegs segs m vals → LangSegs segs m vals' → vals = vals'
  | [], _, _, _, _, .nil, h2 => by cases h2; rfl
  | .const cs :: rest, _, _, _, hs, h1, h2 => by
    cases h1 with
    | const h1 =>
      rename_i v
      generalize hm : cs ++ v = m at h2
      cases h2 with
      | const h2 =>
        rename_i v'
        have : v = v' := by simpa using hm
        subst this
        exact langSegs_unique (segs := rest) hs h1 h2
  | .var n re :: rest, _, _, _, hs, h1, h2 => by
    obtain ⟨hno, hnext, hsep⟩ := hs
    cases h1 with
    | var hr1 h1 =>
      rename_i w v vals1
      generalize hm : w ++ v = m at h2
      cases h2 with
      | var hr2 h2 =>
        rename_i w' v' vals2
        have hw : w = w' ∧ v = v' := by
          rcases hnext with hnil | ⟨cs, rest', hrest⟩
          · subst hnil
            cases h1; cases h2
            simpa using hm
          · subst hrest
            cases h1 with
            | const h1 =>
              cases h2 with
              | const h2 =>
                rename_i x x'
                simp only [List.cons_append] at hm
                have := split_at_slash w w' _ _ (hno w hr1) (hno w' hr2) hm
                exact ⟨this.1, by rw [List.cons_append, List.cons_append, this.2]⟩
        obtain ⟨rfl, rfl⟩ := hw
        rw [langSegs_unique hsep h1 h2]

/-! ### a trailing tail segment swallows the whole rest (this is about the greedy priority) -/

theorem matchRep_any_total {α : Type} (k : Nat → List Char → Option α)
    (hk : ∀ pos s, (k pos s).isSome = true) :
    ∀ (s : List Char) (pos : Nat), matchRep .any 0 none s pos k = k (pos + blen s) []
  | [], pos => by simp [matchRep, blen]
  | c :: cs, pos => by
    simp only [matchRep, Atom.matches, Option.map_none, Bool.true_and]
    have ih := matchRep_any_total k hk cs (pos + c.utf8Size)
    simp only [Nat.zero_sub] at ih ⊢
    rw [ih]
    have hsome := hk (pos + c.utf8Size + blen cs) []
    cases h : k (pos + c.utf8Size + blen cs) [] with
    | none => rw [h] at hsome; cases hsome
    | some r =>
      simp only [blen]
      rw [← Nat.add_assoc, h]
      have : ((none : Option Nat) != some 0) = true := by decide
      simp [this]

theorem matchSegs_append {α : Type} : ∀ (a b : List Seg) (s : List Char) (pos : Nat) (caps : Caps)
    (k : Nat → List Char → Caps → Option α),
    matchSegs (a ++ b) s pos caps k =
      matchSegs a s pos caps (fun pos' s' caps' => matchSegs b s' pos' caps' k)
  | [], b, s, pos, caps, k => rfl
  | .const cs :: rest, b, s, pos, caps, k => by
    simp only [List.cons_append, matchSegs]
    cases stripPrefix cs s with
    | none => rfl
    | some s' => exact matchSegs_append rest b s' _ caps k
  | .var n re :: rest, b, s, pos, caps, k => by
    simp only [List.cons_append, matchSegs]
    congr 1
    funext pos' s'
    exact matchSegs_append rest b s' pos' _ k

theorem captures_tail_whole (d : DynPat) (pre : List Seg) (n : Name)
    (hd : d.segs = pre ++ [.var n tailRe]) (hs : d.suffix = .open) (path : List Char)
    (len : Nat) (caps : Caps) (h : d.captures path = some (len, caps)) : len = blen path := by
  unfold DynPat.captures at h
  rw [hd, matchSegs_append] at h
  have hinner : (fun pos' s' caps' => matchSegs [.var n tailRe] s' pos' caps'
        (fun pos rest caps => if d.suffix.ok rest = true then some (pos, caps) else none)) =
      (fun pos' s' (caps' : Caps) => some (pos' + blen s', caps' ++ [(n, pos', pos' + blen s')])) := by
    funext pos' s' caps'
    simp only [matchSegs, matchRe, tailRe]
    rw [matchRep_any_total _ (by intro p s; simp [hs, Suffix.ok])]
    simp [hs, Suffix.ok]
  rw [hinner] at h
  obtain ⟨m, v, vals, hp, _, hk⟩ := matchSegs_some _ _ _ _ _ _ h
  injection hk with hk
  injection hk with h1 _
  rw [hp, blen_append]
  omega

/-! ### `parse_param` on `{name}` and `{name}*` -/

theorem findClose_plain : ∀ (name rest : List Char), '{' ∉ name → '}' ∉ name →
    findClose (name ++ '}' :: rest) 1 = some name.length
  | [], rest, _, _ => by simp [findClose]
  | c :: name, rest, h1, h2 => by
    have hc1 : c ≠ '{' := fun e => h1 (by simp [e])
    have hc2 : c ≠ '}' := fun e => h2 (by simp [e])
    simp only [List.cons_append, findClose, if_neg hc1, if_neg hc2]
    rw [findClose_plain name rest (fun h => h1 (List.mem_cons_of_mem _ h))
      (fun h => h2 (List.mem_cons_of_mem _ h))]
    simp

theorem findChar_none : ∀ (c : Char) (s : List Char), c ∉ s → findChar c s = none
  | _, [], _ => rfl
  | c, x :: xs, h => by
    have hx : x ≠ c := fun e => h (by simp [e])
    simp only [findChar, if_neg hx, findChar_none c xs (fun h' => h (List.mem_cons_of_mem _ h')),
      Option.map_none]

theorem parseParam_plain (name rest : List Char) (hn : plainName name) :
    parseParam ('{' :: name ++ '}' :: rest) =
      if rest = ['*'] then .ok ⟨name, tailRe, [], true⟩ else .ok ⟨name, defaultRe, rest, false⟩ := by
  obtain ⟨h1, h2, h3⟩ := hn
  have hclose : findClose ('{' :: name ++ '}' :: rest) 0 = some (name.length + 1) := by
    simp only [List.cons_append, findClose, if_true]
    rw [findClose_plain name rest h1 h2]; rfl
  unfold parseParam
  rw [hclose]
  have hparam : (List.take (name.length + 1) ('{' :: name ++ '}' :: rest)).drop 1 = name := by
    simp
  have hunp : List.drop (name.length + 1 + 1) ('{' :: name ++ '}' :: rest) = rest := by
    simp
  simp only [hparam, hunp, findChar_none ':' name h3]
  by_cases hr : rest = ['*']
  · subst hr; simp
  · have : (rest == ['*']) = false := by simpa using hr
    simp [this, hr]

/-! ### what `parse` guarantees -/

theorem parse_ok {pattern : List Char} {isPrefix forceDynamic : Bool} {pt : PatType} {segs : List Seg}
    (h : parse pattern isPrefix forceDynamic = .ok (pt, segs)) :
    (pt = .static pattern ∧ forceDynamic = false) ∨
    ∃ d, pt = .dynamic d ∧ d.segs = segs ∧ DynWF d ∧ d.names.length ≤ Consts.routerMaxDynamicSegments ∧
      (d.suffix = .open ∨ d.suffix = (if isPrefix then Suffix.slashOrEos else Suffix.eos)) := by
  unfold parse at h
  split at h
  · rename_i hc
    injection h with h
    injection h with h1 h2
    left
    refine ⟨h1.symm, ?_⟩
    cases forceDynamic with
    | false => rfl
    | true => simp at hc
  · split at h
    · cases h
    · rename_i acc unprocessed hasTail _
      simp only at h
      generalize finishSegs acc unprocessed hasTail = segs' at h
      split at h
      · cases h
      · rename_i hlen
        split at h
        · cases h
        · split at h
          · cases h
          · rename_i hdist
            injection h with h
            injection h with h1 h2
            right
            refine ⟨_, h1.symm, h2, ?_, ?_, ?_⟩
            · simpa [DynWF, DynPat.names] using hdist
            · simpa [DynPat.names] using hlen
            · simp only
              cases hasTail with
              | true => left; rfl
              | false => right; simp

end ActixModel.C10
