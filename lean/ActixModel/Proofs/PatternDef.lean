import ActixModel.Proofs.Pattern
/-
`ResourceDef`-level lemmas for C10: the three code paths on a fresh `Path`, `commit`, u16.
-/
namespace ActixModel.C10
open ActixModel.Pattern

/-- `Path::new(path)` -/
def fresh (path : List Char) : PathState := { path := path }

theorem dropBytes_zero (s : List Char) : dropBytes 0 s = s := by
  cases s <;> rfl

theorem fresh_unprocessed (path : List Char) : (fresh path).unprocessed = path := by
  simp [fresh, PathState.unprocessed, dropBytes_zero]

theorem asU16_lt (n : Nat) : asU16 n < 65536 := Nat.mod_lt _ (by decide)

theorem addSegments_zero : ∀ (vars : List (Name × Nat × Nat)),
    (∀ x ∈ vars, x.2.1 < 65536 ∧ x.2.2 < 65536) → addSegments 0 vars = some vars
  | [], _ => rfl
  | (n, b, e) :: rest, h => by
    have h0 := h (n, b, e) (by simp)
    simp only at h0
    have hb : addU16 0 b = some b := by unfold addU16; simp [h0.1]
    have he : addU16 0 e = some e := by unfold addU16; simp [h0.2]
    simp only [addSegments, hb, he, addSegments_zero rest (fun x hx => h x (by simp [hx]))]

theorem commit_fresh (path : List Char) (len : Nat) (vars : List (Name × Nat × Nat))
    (h : ∀ x ∈ vars, x.2.1 < 65536 ∧ x.2.2 < 65536) :
    commit (fresh path) len vars = .matched { path := path, skip := asU16 len, segments := vars } := by
  unfold commit
  have : addU16 0 (asU16 len) = some (asU16 len) := by
    unfold addU16; simp [asU16_lt]
  simp only [fresh, addSegments_zero vars h, this, List.nil_append]

theorem collectSegments_lt (caps : Caps) : ∀ (names : List Name) (vars : List (Name × Nat × Nat)),
    collectSegments caps names = some vars → ∀ x ∈ vars, x.2.1 < 65536 ∧ x.2.2 < 65536
  | [], vars, h => by
    simp only [collectSegments, Option.some.injEq] at h; subst h; simp
  | n :: rest, vars, h => by
    simp only [collectSegments] at h
    split at h
    · cases h
    · rename_i s e hl
      split at h
      · rename_i xs hc
        injection h with h
        subst h
        intro x hx
        rcases List.mem_cons.mp hx with rfl | hx
        · exact ⟨asU16_lt _, asU16_lt _⟩
        · exact collectSegments_lt caps rest xs hc x hx
      · cases h

/-- a successful regex match always yields all named groups (fragment: one group per segment) -/
theorem collect_of_captures {d : DynPat} {path : List Char} {n : Nat} {caps : Caps}
    (h : d.captures path = some (n, caps)) : (collectSegments caps d.names).isSome := by
  obtain ⟨m, rest, vals, _, hl, _, _, hc⟩ := captures_some h
  apply collectSegments_isSome
  intro x hx
  rw [hc, spansOf_names hl]
  exact hx

theorem captureDyn_fresh_none {d : DynPat} {path : List Char} (h : d.captures path = none) :
    captureDyn d (fresh path) = .noMatch := by
  unfold captureDyn
  rw [fresh_unprocessed, h]

theorem captureDyn_fresh_some {d : DynPat} {path : List Char} {n : Nat} {caps : Caps}
    (h : d.captures path = some (n, caps)) :
    ∃ vars, collectSegments caps d.names = some vars ∧
      captureDyn d (fresh path) = .matched { path := path, skip := asU16 n, segments := vars } := by
  have hs := collect_of_captures h
  cases hc : collectSegments caps d.names with
  | none => rw [hc] at hs; cases hs
  | some vars =>
    refine ⟨vars, rfl, ?_⟩
    unfold captureDyn
    rw [fresh_unprocessed, h]
    simp only [hc]
    exact commit_fresh path n vars (collectSegments_lt caps _ vars hc)

/-- is_match / find_match / capture agree for one dynamic pattern -/
theorem dyn_agree (d : DynPat) (path : List Char) :
    d.isMatchRe path = ((d.captures path).map (·.1)).isSome := by
  rw [Option.isSome_map, captures_isSome]

theorem static_iff (isPrefix : Bool) (p path : List Char) (n : Nat) :
    staticMatch isPrefix p path = some n ↔
      ∃ rest, path = p ++ rest ∧ n = blen p ∧
        (if isPrefix then (rest = [] ∨ ∃ t, rest = '/' :: t) else rest = []) := by
  unfold staticMatch
  cases hp : stripPrefix p path with
  | none =>
    simp only [reduceCtorEq, false_iff]
    rintro ⟨rest, hs, _⟩
    have := (stripPrefix_iff p path rest).mpr hs
    rw [hp] at this; cases this
  | some rem =>
    have hs := (stripPrefix_iff p path rem).mp hp
    simp only
    cases isPrefix with
    | false =>
      simp only [Bool.not_false, if_true, Bool.false_eq_true, if_false]
      constructor
      · intro h
        split at h
        · rename_i he
          injection h with h
          exact ⟨rem, hs, h.symm, by simpa using he⟩
        · cases h
      · rintro ⟨rest, hs', hn, hr⟩
        subst hr
        have : rem = [] := by
          have := hs.symm.trans hs'
          simpa using this
        subst this
        simp [hn]
    | true =>
      simp only [Bool.not_true, Bool.false_eq_true, if_false, if_true]
      constructor
      · intro h
        split at h
        · rename_i he
          injection h with h
          refine ⟨rem, hs, h.symm, ?_⟩
          cases rem with
          | nil => left; rfl
          | cons c t =>
            right
            simp only [List.isEmpty_cons, List.head?_cons, Bool.false_or, beq_iff_eq, Option.some.injEq] at he
            exact ⟨t, by rw [he]⟩
        · cases h
      · rintro ⟨rest, hs', hn, hr⟩
        have : rem = rest := by
          have := hs.symm.trans hs'
          simpa using this
        subst this
        rcases hr with hr | ⟨t, hr⟩
        · subst hr; simp [hn]
        · subst hr; simp [hn]

/-! ### slicing -/

theorem sliceBytes_zero_step (c : Char) (cs : List Char) (k : Nat) :
    sliceBytes? (c :: cs) 0 (c.utf8Size + k) = (sliceBytes? cs 0 k).map (c :: ·) := by
  have hpos := Char.utf8Size_pos c
  obtain ⟨e, he⟩ : ∃ e, c.utf8Size + k = e + 1 := ⟨c.utf8Size + k - 1, by omega⟩
  rw [he, sliceBytes?]
  have h1 : c.utf8Size ≤ e + 1 := by omega
  have h2 : e + 1 - c.utf8Size = k := by omega
  rw [if_pos h1, h2]

theorem sliceBytes_step (c : Char) (cs : List Char) (s e : Nat) :
    sliceBytes? (c :: cs) (c.utf8Size + s) (c.utf8Size + e) = sliceBytes? cs s e := by
  have hpos := Char.utf8Size_pos c
  obtain ⟨st, hst⟩ : ∃ st, c.utf8Size + s = st + 1 := ⟨c.utf8Size + s - 1, by omega⟩
  rw [hst, sliceBytes?]
  have h1 : c.utf8Size ≤ st + 1 ∧ c.utf8Size ≤ c.utf8Size + e := by omega
  have h2 : st + 1 - c.utf8Size = s := by omega
  have h3 : c.utf8Size + e - c.utf8Size = e := by omega
  rw [if_pos h1, h2, h3]

theorem sliceBytes_prefix : ∀ (w b : List Char), sliceBytes? (w ++ b) 0 (blen w) = some w
  | [], b => by cases b <;> simp [blen, sliceBytes?]
  | c :: w, b => by
    simp only [List.cons_append, blen]
    rw [sliceBytes_zero_step, sliceBytes_prefix w b]; rfl

/-- `&path[st..en]` is the value: a substring (in the sense of the spec) is what slicing returns -/
theorem sliceBytes_substr {path w : List Char} {st en : Nat} (h : Substr path st en w) :
    sliceBytes? path st en = some w := by
  obtain ⟨a, b, hp, hs, he⟩ := h
  subst hp hs he
  induction a with
  | nil => simpa [blen] using sliceBytes_prefix w b
  | cons c a ih =>
    simp only [List.cons_append, blen, Nat.add_assoc]
    rw [sliceBytes_step]
    simpa [List.append_assoc] using ih

theorem spansOk_bounds {path : List Char} {bound : Nat} :
    ∀ {sps : List (Name × Nat × Nat)} {vals : List (Name × List Char)}, SpansOk path bound sps vals →
      ∀ x ∈ sps, x.2.1 ≤ x.2.2 ∧ x.2.2 ≤ bound
  | [], [], _, x, hx => by simp at hx
  | [], _ :: _, h, _, _ => by simp [SpansOk] at h
  | _ :: _, [], h, _, _ => by simp [SpansOk] at h
  | sp :: sps, v :: vs, h, x, hx => by
    simp only [SpansOk] at h
    rcases List.mem_cons.mp hx with rfl | hx
    · obtain ⟨_, ⟨a, b, _, hs, he⟩, hb, _⟩ := h
      exact ⟨by omega, hb⟩
    · exact spansOk_bounds h.2.2.2 x hx

theorem spansOk_values {path : List Char} {bound : Nat} :
    ∀ {sps : List (Name × Nat × Nat)} {vals : List (Name × List Char)}, SpansOk path bound sps vals →
      (sps.map fun (x : Name × Nat × Nat) => (x.1, sliceBytes? path x.2.1 x.2.2)) =
        vals.map fun v => (v.1, some v.2)
  | [], [], _ => rfl
  | [], _ :: _, h => by simp [SpansOk] at h
  | _ :: _, [], h => by simp [SpansOk] at h
  | sp :: sps, v :: vs, h => by
    simp only [SpansOk] at h
    obtain ⟨hn, hsub, _, hrest⟩ := h
    simp only [List.map_cons, spansOk_values hrest, sliceBytes_substr hsub, hn]

theorem blen_le_of_append {m rest path : List Char} (h : path = m ++ rest) : blen m ≤ blen path := by
  subst h; rw [blen_append]; omega

/-- core of soundness for one dynamic pattern on a fresh path below 64 KiB -/
theorem captureDyn_sound {d : DynPat} {path : List Char} {st : PathState} (hwf : DynWF d)
    (hlen : blen path < 65536) (h : captureDyn d (fresh path) = .matched st) :
    ∃ vals, LangDyn d path st.skip vals ∧ st.path = path ∧ SpansOk path st.skip st.segments vals := by
  cases hc : d.captures path with
  | none => rw [captureDyn_fresh_none hc] at h; cases h
  | some r =>
    obtain ⟨n, caps⟩ := r
    obtain ⟨vars, hv, hm⟩ := captureDyn_fresh_some hc
    rw [hm] at h
    injection h with h
    subst h
    obtain ⟨m, rest, vals, hp, hl, hsfx, hn, hcaps⟩ := captures_some hc
    have hmlen : blen m ≤ blen path := blen_le_of_append hp
    have hnn : asU16 n = n := asU16_of_lt (by omega)
    have hok : SpansOk path n caps vals := by
      have := spansOf_substr hl [] rest
      simp only [List.nil_append, blen, Nat.zero_add] at this
      rw [hp, hn, hcaps]; exact this
    have hnames : d.names = caps.map (·.1) := by
      rw [hcaps, spansOf_names hl]; rfl
    have hdist : allDistinct (caps.map (·.1)) = true := by rw [← hnames]; exact hwf
    have hvars : vars = caps := by
      rw [hnames, collectSegments_eq caps caps (lookupCap_of_mem caps hdist)] at hv
      injection hv with hv
      rw [← hv]
      have hb := spansOk_bounds hok
      clear hv hok hdist hnames hcaps hc hm
      induction caps with
      | nil => rfl
      | cons x xs ih =>
        have hx := hb x (by simp)
        simp only [List.map_cons]
        rw [ih (fun y hy => hb y (by simp [hy])), asU16_of_lt (by omega), asU16_of_lt (by omega)]
    refine ⟨vals, ⟨m, rest, hp, hl, hsfx, ?_⟩, rfl, ?_⟩
    · simp only [hnn]; exact hn
    · simp only [hnn, hvars]; exact hok

end ActixModel.C10
