import ActixModel.Spec.Payload
/-
Helper lemmas for C07: the state invariant `Inv`, the simulation `Sim` between the channel
state and the history automaton of `Spec/Payload.lean`, and their preservation by every step.
Core Lean only.
-/
namespace ActixModel.Payload
open ActixModel.Consts

variable {β : Type} [Chunk β]
set_option linter.unusedSectionVars false

@[simp] theorem sumSizes_nil : sumSizes ([] : List β) = 0 := rfl
@[simp] theorem sumSizes_cons (b : β) (xs : List β) : sumSizes (b :: xs) = Chunk.size b + sumSizes xs := by
  simp [sumSizes]
@[simp] theorem sumSizes_append (xs ys : List β) : sumSizes (xs ++ ys) = sumSizes xs + sumSizes ys := by
  simp [sumSizes]

/-! ### State invariant -/

/-- facts about every reachable channel state -/
structure Inv (c : Chan β) : Prop where
  /-- `len` is exactly the number of buffered bytes: `len -= data.len()` never underflows -/
  len_eq : c.inner.len = sumSizes c.inner.items
  /-- the feeder is only told to pause while at least `MAX_BUFFER_SIZE` bytes are buffered -/
  pause_full : c.inner.needRead = false → payloadMaxBufferSize ≤ c.inner.len
  /-- eof / a set error imply `sender_closed` -/
  eof_closed : c.inner.eof = true → c.inner.senderClosed = true
  err_closed : c.inner.err.isSome = true → c.inner.senderClosed = true
  /-- a sender dropped while the reader lived has closed the channel -/
  dead_closed : c.senderAlive = false → c.readerAlive = true → c.inner.senderClosed = true

theorem inv_create (eof : Bool) : Inv (Chan.create eof : Chan β) := by
  constructor <;> simp [Chan.create, Inner.new]

theorem inv_step (c : Chan β) (op : Op β) (h : Inv c) : Inv (Chan.step c op).1 := by
  obtain ⟨h1, h2, h3, h4, h5⟩ := h
  cases op <;>
    simp only [Chan.step, Chan.senderOp, Inner.feedData, Inner.feedEof, Inner.setError,
      Inner.closeSender, Inner.wake, Inner.wakeIo, Inner.register, Inner.registerIo,
      Inner.pollNext, Inner.unreadData] <;>
    (repeat' split) <;>
    constructor <;>
    simp_all <;>
    (try (first | omega | grind))

theorem inv_run (c : Chan β) (ops : List (Op β)) (h : Inv c) : Inv (Chan.run c ops).1 := by
  induction ops generalizing c with
  | nil => simpa [Chan.run] using h
  | cons op ops ih =>
    simp only [Chan.run]
    exact ih _ (inv_step c op h)

/-! ### Simulation between channel state and observable history -/

structure Sim (c : Chan β) (h : Hist β) : Prop where
  sAlive : h.sAlive = c.senderAlive
  rAlive : h.rAlive = c.readerAlive
  log : h.log = h.yielded ++ c.inner.items
  eof : c.inner.eof = h.eofSignalled
  err : c.inner.err = h.errOutstanding
  closed : c.inner.senderClosed = (h.eofSignalled || h.errEver)
  parkedR : ∀ w, h.parkedReader = some w →
    c.readerAlive = true ∧ c.inner.task = some w ∧ c.inner.items = [] ∧ c.inner.err = none ∧ c.inner.eof = false
  parkedF : ∀ w, h.parkedFeeder = some w → c.readerAlive = true → c.inner.ioTask = some w

theorem sim_create (eof : Bool) : Sim (Chan.create eof : Chan β) (Hist.init eof) := by
  constructor <;> simp [Chan.create, Inner.new, Hist.init]

theorem outstanding_of_sim {c : Chan β} {h : Hist β} (s : Sim c h) : h.outstanding = c.inner.items := by
  simp [Hist.outstanding, s.log]

/-! per-operation preservation of `Sim` (brute case analysis; the op bodies are small) -/

macro "sim_tac" : tactic => `(tactic|
  (simp only [Chan.step, Chan.senderOp, Inner.feedData, Inner.feedEof, Inner.setError,
      Inner.closeSender, Inner.wake, Inner.wakeIo, Inner.register, Inner.registerIo,
      Inner.pollNext, Inner.unreadData, Hist.step, Hist.observe, Hist.unpark, Hist.outstanding] <;>
    (repeat' split) <;>
    constructor <;>
    simp_all <;>
    (try (first | omega | grind))))

theorem sim_feedData (c : Chan β) (h : Hist β) (b : β) (s : Sim c h) :
    Sim (Chan.step c (.feedData b)).1 (h.step (.feedData b) (Chan.step c (.feedData b)).2) := by
  obtain ⟨s1, s2, s3, s4, s5, s6, s7, s8⟩ := s
  sim_tac

theorem sim_feedEof (c : Chan β) (h : Hist β) (s : Sim c h) :
    Sim (Chan.step c .feedEof).1 (h.step .feedEof (Chan.step c .feedEof).2) := by
  obtain ⟨s1, s2, s3, s4, s5, s6, s7, s8⟩ := s
  sim_tac

theorem sim_setError (c : Chan β) (h : Hist β) (e) (s : Sim c h) :
    Sim (Chan.step c (.setError e)).1 (h.step (.setError e) (Chan.step c (.setError e)).2) := by
  obtain ⟨s1, s2, s3, s4, s5, s6, s7, s8⟩ := s
  sim_tac

set_option maxHeartbeats 4000000 in
theorem sim_dropSender (c : Chan β) (h : Hist β) (s : Sim c h) :
    Sim (Chan.step c .dropSender).1 (h.step .dropSender (Chan.step c .dropSender).2) := by
  obtain ⟨s1, s2, s3, s4, s5, s6, s7, s8⟩ := s
  obtain ⟨inner, sa, ra⟩ := c
  obtain ⟨len, eof, err, closed, nr, items, task, io⟩ := inner
  cases ra <;> cases sa <;> cases closed <;> cases task <;>
    simp_all [Chan.step, Inner.closeSender, Inner.setError, Inner.wake, Hist.step, Hist.observe, Hist.unpark] <;>
    constructor <;> simp_all <;> (try (first | omega | grind))

theorem sim_needRead (c : Chan β) (h : Hist β) (w) (s : Sim c h) :
    Sim (Chan.step c (.needRead w)).1 (h.step (.needRead w) (Chan.step c (.needRead w)).2) := by
  obtain ⟨s1, s2, s3, s4, s5, s6, s7, s8⟩ := s
  sim_tac

theorem sim_isDropped (c : Chan β) (h : Hist β) (s : Sim c h) :
    Sim (Chan.step c .isDropped).1 (h.step .isDropped (Chan.step c .isDropped).2) := by
  obtain ⟨s1, s2, s3, s4, s5, s6, s7, s8⟩ := s
  sim_tac

theorem sim_unreadData (c : Chan β) (h : Hist β) (b : β) (s : Sim c h) :
    Sim (Chan.step c (.unreadData b)).1 (h.step (.unreadData b) (Chan.step c (.unreadData b)).2) := by
  obtain ⟨s1, s2, s3, s4, s5, s6, s7, s8⟩ := s
  sim_tac

theorem sim_dropReader (c : Chan β) (h : Hist β) (s : Sim c h) :
    Sim (Chan.step c .dropReader).1 (h.step .dropReader (Chan.step c .dropReader).2) := by
  obtain ⟨s1, s2, s3, s4, s5, s6, s7, s8⟩ := s
  sim_tac

set_option maxHeartbeats 4000000 in
theorem sim_pollNext (c : Chan β) (h : Hist β) (w) (s : Sim c h) :
    Sim (Chan.step c (.pollNext w)).1 (h.step (.pollNext w) (Chan.step c (.pollNext w)).2) := by
  obtain ⟨s1, s2, s3, s4, s5, s6, s7, s8⟩ := s
  obtain ⟨inner, sa, ra⟩ := c
  obtain ⟨len, eof, err, closed, nr, items, task, io⟩ := inner
  cases ra <;> cases items <;> cases io <;> cases err <;> cases eof <;>
    simp_all [Chan.step, Inner.wakeIo, Inner.register, Inner.pollNext, Hist.step, Hist.observe, Hist.unpark] <;>
    constructor <;> simp_all <;> (try (first | omega | grind))

/-- the history automaton tracks the channel across every step -/
theorem sim_step (c : Chan β) (h : Hist β) (op : Op β) (s : Sim c h) :
    Sim (Chan.step c op).1 (h.step op (Chan.step c op).2) := by
  cases op with
  | feedData b => exact sim_feedData c h b s
  | feedEof => exact sim_feedEof c h s
  | setError e => exact sim_setError c h e s
  | dropSender => exact sim_dropSender c h s
  | needRead w => exact sim_needRead c h w s
  | isDropped => exact sim_isDropped c h s
  | pollNext w => exact sim_pollNext c h w s
  | unreadData b => exact sim_unreadData c h b s
  | dropReader => exact sim_dropReader c h s

theorem sim_run (c : Chan β) (h : Hist β) (ops : List (Op β)) (s : Sim c h) :
    Sim (Chan.run c ops).1 (h.runWith ops (Chan.run c ops).2) := by
  induction ops generalizing c h with
  | nil => simpa [Chan.run, Hist.runWith] using s
  | cons op ops ih =>
    simp only [Chan.run, Hist.runWith]
    exact ih _ _ (sim_step c h op s)

end ActixModel.Payload
