import ActixModel.Proofs.Payload
/-
C07 helper: every step of the model is accepted by the spec automaton (`StepOk`), given the
simulation `Sim` and the state invariant `Inv`; lifted to whole traces.
-/
namespace ActixModel.Payload
open ActixModel.Consts

variable {β : Type} [Chunk β]
set_option linter.unusedSectionVars false

theorem wakeIo_wakes (s : Inner β) : (Inner.wakeIo s).2 = s.ioTask.toList := by
  unfold Inner.wakeIo; cases s.ioTask <;> rfl

/-- `poll_next` (`payload.rs:245`) by cases: front of `items`, then `err`, then `eof`, else park;
the feeder's registered waker is woken exactly when a chunk is popped or the reader parks -/
theorem pollNext_cases (s : Inner β) (w : WakerId) :
    (∃ d rest, s.items = d :: rest ∧ (Inner.pollNext s w).2.1 = .data d ∧
        (Inner.pollNext s w).2.2 = s.ioTask.toList) ∨
    (∃ e, s.items = [] ∧ s.err = some e ∧ (Inner.pollNext s w).2.1 = .error e ∧
        (Inner.pollNext s w).2.2 = []) ∨
    (s.items = [] ∧ s.err = none ∧ s.eof = true ∧ (Inner.pollNext s w).2.1 = .eos ∧
        (Inner.pollNext s w).2.2 = []) ∨
    (s.items = [] ∧ s.err = none ∧ s.eof = false ∧ (Inner.pollNext s w).2.1 = .pending ∧
        (Inner.pollNext s w).2.2 = s.ioTask.toList) := by
  unfold Inner.pollNext
  cases hi : s.items with
  | cons d rest =>
    left
    refine ⟨d, rest, rfl, ?_, ?_⟩
    · simp only []
    · simp only [wakeIo_wakes]
      split <;> rfl
  | nil =>
    right
    cases he : s.err with
    | some e => left; exact ⟨e, rfl, rfl, rfl, rfl⟩
    | none =>
      right
      cases hf : s.eof with
      | true => left; simp
      | false => right; simp [wakeIo_wakes, Inner.register]

theorem step_pollNext_alive (c : Chan β) (w : WakerId) (hr : c.readerAlive = true) :
    (Chan.step c (.pollNext w)).2 = ⟨.poll (Inner.pollNext c.inner w).2.1, (Inner.pollNext c.inner w).2.2⟩ := by
  simp [Chan.step, hr]

theorem stepOk_of_sim (c : Chan β) (h : Hist β) (op : Op β) (s : Sim c h) (i : Inv c) :
    StepOk h op (Chan.step c op).2 := by
  have hout := outstanding_of_sim s
  constructor
  · -- data_exact
    intro w b hop hres hr
    subst hop
    rw [s.rAlive] at hr
    rw [step_pollNext_alive c w hr] at hres
    rw [hout]
    rcases pollNext_cases c.inner w with ⟨d, rest, hi, hr', -⟩ | ⟨e, -, -, hr', -⟩ | ⟨-, -, -, hr', -⟩ | ⟨-, -, -, hr', -⟩ <;>
      simp only [hr'] at hres <;> cases hres
    exact ⟨rest, hi⟩
  · -- error_truthful
    intro w e hop hres hr
    subst hop
    rw [s.rAlive] at hr
    rw [step_pollNext_alive c w hr] at hres
    rw [hout, ← s.err]
    rcases pollNext_cases c.inner w with ⟨d, rest, hi, hr', -⟩ | ⟨e', hi, he, hr', -⟩ | ⟨-, -, -, hr', -⟩ | ⟨-, -, -, hr', -⟩ <;>
      simp only [hr'] at hres <;> cases hres
    exact ⟨hi, he⟩
  · -- end_truthful
    intro w hop hres hr
    subst hop
    rw [s.rAlive] at hr
    rw [step_pollNext_alive c w hr] at hres
    rw [hout, ← s.err, ← s.eof]
    rcases pollNext_cases c.inner w with ⟨d, rest, hi, hr', -⟩ | ⟨e', hi, he, hr', -⟩ | ⟨hi, he, hf, hr', -⟩ | ⟨-, -, -, hr', -⟩ <;>
      simp only [hr'] at hres <;> cases hres
    exact ⟨hi, hf, he⟩
  · -- pending_honest
    intro w hop hres hr
    subst hop
    rw [s.rAlive] at hr
    rw [step_pollNext_alive c w hr] at hres
    rw [hout, ← s.err, ← s.eof]
    rcases pollNext_cases c.inner w with ⟨d, rest, hi, hr', -⟩ | ⟨e', hi, he, hr', -⟩ | ⟨hi, he, hf, hr', -⟩ | ⟨hi, he, hf, hr', -⟩ <;>
      simp only [hr'] at hres <;> cases hres
    exact ⟨hi, hf, he⟩
  · -- reader_woken
    intro w hp hev
    obtain ⟨ra, ht, -, -, -⟩ := s.parkedR w hp
    have hsa := s.sAlive
    have hra := s.rAlive
    have hcl := s.closed
    cases op <;>
      simp_all [readerEvent, Chan.step, Chan.senderOp, Inner.feedData, Inner.feedEof, Inner.setError,
        Inner.closeSender, Inner.wake]
  · -- feeder_woken
    intro w wf b hop hres hr hpf _
    subst hop
    rw [s.rAlive] at hr
    have hio := s.parkedF wf hpf hr
    rw [step_pollNext_alive c w hr] at hres ⊢
    rcases pollNext_cases c.inner w with ⟨d, rest, hi, hr', hw⟩ | ⟨e', hi, he, hr', -⟩ | ⟨hi, he, hf, hr', -⟩ | ⟨hi, he, hf, hr', -⟩ <;>
      simp only [hr'] at hres <;> cases hres
    simp [hw, hio]
  · -- pause_full
    intro w hop hres
    subst hop
    rw [hout, ← i.len_eq]
    apply i.pause_full
    simp only [Chan.step] at hres
    cases hs : c.senderAlive <;> cases hr : c.readerAlive <;> cases hn : c.inner.needRead <;> simp_all

/-- every trace of the model, from any state that is in simulation with a history, is accepted -/
theorem traceOk_run (c : Chan β) (h : Hist β) (ops : List (Op β)) (s : Sim c h) (i : Inv c) :
    TraceOk h ops (Chan.run c ops).2 := by
  induction ops generalizing c h with
  | nil => simp [TraceOk]
  | cons op ops ih =>
    simp only [Chan.run, TraceOk]
    exact ⟨stepOk_of_sim c h op s i, ih _ _ (sim_step c h op s) (inv_step c op i)⟩

/-! ### running concatenated op sequences -/

theorem run_append (c : Chan β) (xs ys : List (Op β)) :
    Chan.run c (xs ++ ys) =
      ((Chan.run (Chan.run c xs).1 ys).1, (Chan.run c xs).2 ++ (Chan.run (Chan.run c xs).1 ys).2) := by
  induction xs generalizing c with
  | nil => simp [Chan.run]
  | cons op xs ih => simp [Chan.run, ih]

theorem exec_append (c : Chan β) (xs ys : List (Op β)) :
    Chan.exec c (xs ++ ys) = Chan.exec (Chan.exec c xs) ys := by
  simp [Chan.exec, run_append]

theorem outs_append (c : Chan β) (xs ys : List (Op β)) :
    Chan.outs c (xs ++ ys) = Chan.outs c xs ++ Chan.outs (Chan.exec c xs) ys := by
  simp [Chan.exec, Chan.outs, run_append]

theorem exec_singleton (c : Chan β) (op : Op β) : Chan.exec c [op] = (Chan.step c op).1 := by
  simp [Chan.exec, Chan.run]

end ActixModel.Payload
