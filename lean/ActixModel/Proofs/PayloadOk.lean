import ActixModel.Proofs.Payload
/-
C07 helper: every step of the model is accepted by the spec automaton (`StepOk`), given the
simulation `Sim` and the state invariant `Inv`; lifted to whole traces.
-/
namespace ActixModel.Payload
open ActixModel.Consts

variable {β : Type} [Chunk β]
set_option linter.unusedSectionVars false

theorem wakeIo_wakes (s : Inner β) : (Inner.wakeIo s).2 = s.ioTask.toList := by
  unfold Inner.wakeIo; cases s.ioTask <;> rfl

/-- `poll_next` (`payload.rs:245`) by cases: front of `items`, then `err`, then `eof`, else park;
the feeder's registered waker is woken exactly when a chunk is popped or the reader parks -/
theorem pollNext_cases (s : Inner β) (w : WakerId) :
    (∃ d rest, s.items = d :: rest ∧ (Inner.pollNext s w).2.1 = .data d ∧
        (Inner.pollNext s w).2.2 = s.ioTask.toList) ∨
    (∃ e, s.items = [] ∧ s.err = some e ∧ (Inner.pollNext s w).2.1 = .error e ∧
        (Inner.pollNext s w).2.2 = []) ∨
    (s.items = [] ∧ s.err = none ∧ s.eof = true ∧ (Inner.pollNext s w).2.1 = .eos ∧
        (Inner.pollNext s w).2.2 = []) ∨
    (s.items = [] ∧ s.err = none ∧ s.eof = false ∧ (Inner.pollNext s w).2.1 = .pending ∧
        (Inner.pollNext s w).2.2 = s.ioTask.toList) := by
  unfold Inner.pollNext
  cases hi : s.items with
  | cons d rest =>
    left
    refine ⟨d, rest, rfl, ?_, ?_⟩
    · simp only []
    · simp only [wakeIo_wakes]
      split <;> rfl
  | nil =>
    right
    cases he : s.err with
    | some e => left; exact ⟨e, rfl, rfl, rfl, rfl⟩
    | none =>
      right
      cases hf : s.eof with
      | true => left; simp
      | false => right; simp [wakeIo_wakes, Inner.register]

theorem step_pollNext_alive (c : Chan β) (w : WakerId) (hr : c.readerAlive = true) :
    (Chan.step c (.pollNext w)).2 = ⟨.poll (Inner.pollNext c.inner w).2.1, (Inner.pollNext c.inner w).2.2⟩ := by
  simp [Chan.step, hr]

theorem stepOk_of_sim (c : Chan β) (h : Hist β) (op : Op β) (s : Sim c h) (i : Inv c) :
    StepOk h op (Chan.step c op).2 := by
  have hout := outstanding_of_sim s
  constructor
  · -- data_exact
    intro w b hop hres hr
    subst hop
    rw [s.rAlive] at hr
    rw [step_pollNext_alive c w hr] at hres
    rw [hout]
    rcases pollNext_cases c.inner w with ⟨d, rest, hi, hr', -⟩ | ⟨e, -, -, hr', -⟩ | ⟨-, -, -, hr', -⟩ | ⟨-, -, -, hr', -⟩ <;>
      simp only [hr'] at hres <;> cases hres
    exact ⟨rest, hi⟩
  · -- error_truthful
    intro w e hop hres hr
    subst hop
    rw [s.rAlive] at hr
    rw [step_pollNext_alive c w hr] at hres
    rw [hout, ← s.err]
    rcases pollNext_cases c.inner w with ⟨d, rest, hi, hr', -⟩ | ⟨e', hi, he, hr', -⟩ | ⟨-, -, -, hr', -⟩ | ⟨-, -, -, hr', -⟩ <;>
      simp only [hr'] at hres <;> cases hres
    exact ⟨hi, he⟩
  · -- end_truthful
    intro w hop hres hr
    subst hop
    rw [s.rAlive] at hr
    rw [step_pollNext_alive c w hr] at hres
    rw [hout, ← s.err, ← s.eof]
    rcases pollNext_cases c.inner w with ⟨d, rest, hi, hr', -⟩ | ⟨e', hi, he, hr', -⟩ | ⟨hi, he, hf, hr', -⟩ | ⟨-, -, -, hr', -⟩ <;>
      simp only [hr'] at hres <;> cases hres
    exact ⟨hi, hf, he⟩
  · -- pending_honest
    intro w hop hres hr
    subst hop
    rw [s.rAlive] at hr
    rw [step_pollNext_alive c w hr] at hres
    rw [hout, ← s.err, ← s.eof]
    rcases pollNext_cases c.inner w with ⟨d, rest, hi, hr', -⟩ | ⟨e', hi, he, hr', -⟩ | ⟨hi, he, hf, hr', -⟩ | ⟨hi, he, hf, hr', -⟩ <;>
      simp only [hr'] at hres <;> cases hres
    exact ⟨hi, hf, he⟩
  · -- reader_woken
    intro w hp hev
    obtain ⟨ra, ht, -, -, -⟩ := s.parkedR w hp
    have hsa := s.sAlive
    have hra := s.rAlive
    have hcl := s.closed
    cases op <;>
      simp_all [readerEvent, Chan.step, Chan.senderOp, Inner.feedData, Inner.feedEof, Inner.setError,
        Inner.closeSender, Inner.wake]
  · -- feeder_woken
    intro w wf b hop hres hr hpf _
    subst hop
    rw [s.rAlive] at hr
    have hio := s.parkedF wf hpf hr
    rw [step_pollNext_alive c w hr] at hres ⊢
    rcases pollNext_cases c.inner w with ⟨d, rest, hi, hr', hw⟩ | ⟨e', hi, he, hr', -⟩ | ⟨hi, he, hf, hr', -⟩ | ⟨hi, he, hf, hr', -⟩ <;>
      simp only [hr'] at hres <;> cases hres
    simp [hw, hio]
  · -- pause_full
    intro w hop hres
    subst hop
    rw [hout, ← i.len_eq]
    apply i.pause_full
    simp only [Chan.step] at hres
    cases hs : c.senderAlive <;> cases hr : c.readerAlive <;> cases hn : c.inner.needRead <;> simp_all

/-- every trace of the model, from any state that is in simulation with a history, is accepted -/
theorem traceOk_run (c : Chan β) (h : Hist β) (ops : List (Op β)) (s : Sim c h) (i : Inv c) :
    TraceOk h ops (Chan.run c ops).2 := by
  induction ops generalizing c h with
  | nil => simp [TraceOk]
  | cons op ops ih =>
    simp only [Chan.run, TraceOk]
    exact ⟨stepOk_of_sim c h op s i, ih _ _ (sim_step c h op s) (inv_step c op i)⟩

/-! ### running concatenated op sequences -/

theorem run_append (c : Chan β) (xs ys : List (Op β)) :
    Chan.run c (xs ++ ys) =
      ((Chan.run (Chan.run c xs).1 ys).1, (Chan.run c xs).2 ++ (Chan.run (Chan.run c xs).1 ys).2) := by
  induction xs generalizing c with
  | nil => simp [Chan.run]
  | cons op xs ih => simp [Chan.run, ih]

theorem exec_append (c : Chan β) (xs ys : List (Op β)) :
    Chan.exec c (xs ++ ys) = Chan.exec (Chan.exec c xs) ys := by
  simp [Chan.exec, run_append]

theorem outs_append (c : Chan β) (xs ys : List (Op β)) :
    Chan.outs c (xs ++ ys) = Chan.outs c xs ++ Chan.outs (Chan.exec c xs) ys := by
  simp [Chan.exec, Chan.outs, run_append]

theorem exec_singleton (c : Chan β) (op : Op β) : Chan.exec c [op] = (Chan.step c op).1 := by
  simp [Chan.exec, Chan.run]

/-! ### lemmas about the trace vocabulary of `Spec/Payload.lean` -/

theorem sim (eof : Bool) (ops : List (Op β)) : Sim (state eof ops) (hist eof ops) :=
  sim_run _ _ ops (sim_create eof)

theorem inv (eof : Bool) (ops : List (Op β)) : Inv (state eof ops) :=
  inv_run _ ops (inv_create eof)

theorem outs_length (c : Chan β) (ops : List (Op β)) : (Chan.run c ops).2.length = ops.length := by
  induction ops generalizing c with
  | nil => rfl
  | cons op ops ih => simp [Chan.run, ih]

theorem yieldedOf_append (xs ys : List (Out β)) : yieldedOf (xs ++ ys) = yieldedOf xs ++ yieldedOf ys := by
  induction xs with
  | nil => rfl
  | cons o xs ih =>
    obtain ⟨r, ws⟩ := o
    cases r with
    | poll p => cases p <;> simp [yieldedOf, ih]
    | _ => simp [yieldedOf, ih]

theorem yielded_step (c : Chan β) (h : Hist β) (op : Op β) (s : Sim c h) :
    (h.step op (Chan.step c op).2).yielded = h.yielded ++ yieldedOf [(Chan.step c op).2] := by
  have hr := s.rAlive
  cases op <;>
    simp only [Hist.step, Hist.observe, Chan.step, Chan.senderOp] <;>
    (repeat' split) <;> simp_all [yieldedOf]

theorem yielded_run (c : Chan β) (h : Hist β) (ops : List (Op β)) (s : Sim c h) :
    (h.runWith ops (Chan.run c ops).2).yielded = h.yielded ++ yieldedOf (Chan.run c ops).2 := by
  induction ops generalizing c h with
  | nil => simp [Chan.run, Hist.runWith, yieldedOf]
  | cons op ops ih =>
    simp only [Chan.run, Hist.runWith]
    rw [ih _ _ (sim_step c h op s), yielded_step c h op s]
    have : yieldedOf ((Chan.step c op).2 :: (Chan.run (Chan.step c op).1 ops).2)
        = yieldedOf [(Chan.step c op).2] ++ yieldedOf (Chan.run (Chan.step c op).1 ops).2 :=
      yieldedOf_append [_] _
    rw [this, List.append_assoc]

/-- the history's `yielded` is exactly the list of chunks the trace's polls returned -/
theorem hist_yielded (eof : Bool) (ops : List (Op β)) :
    (hist eof ops).yielded = yieldedOf (Chan.outs (Chan.create eof) ops) := by
  have := yielded_run (Chan.create eof) (Hist.init eof) ops (sim_create eof)
  simpa [hist, Chan.outs, Hist.init] using this

theorem log_run_no_unread (h : Hist β) (ops : List (Op β)) (os : List (Out β))
    (hl : os.length = ops.length) (hu : ops.all (fun op => !isUnread op) = true) :
    (h.runWith ops os).log = h.log ++ fedChunks h.sAlive h.rAlive ops := by
  induction ops generalizing h os with
  | nil => simp [Hist.runWith, fedChunks]
  | cons op ops ih =>
    cases os with
    | nil => simp at hl
    | cons o os =>
      simp only [List.length_cons, Nat.add_right_cancel_iff] at hl
      simp only [List.all_cons, Bool.and_eq_true] at hu
      simp only [Hist.runWith]
      rw [ih _ _ hl hu.2]
      cases op <;>
        simp only [Hist.step, Hist.observe, fedChunks, isUnread] at hu ⊢ <;>
        (repeat' split) <;> simp_all

theorem eofSignalled_run (h : Hist β) (ops : List (Op β)) (os : List (Out β))
    (he : (h.runWith ops os).eofSignalled = true) :
    h.eofSignalled = true ∨ ops.any isFeedEof = true := by
  induction ops generalizing h os with
  | nil => left; simpa [Hist.runWith] using he
  | cons op ops ih =>
    cases os with
    | nil => left; simpa [Hist.runWith] using he
    | cons o os =>
      simp only [Hist.runWith] at he
      rcases ih _ _ he with h1 | h1
      · cases op <;>
          simp only [Hist.step, Hist.observe] at h1 <;>
          (try (repeat' split at h1)) <;> simp_all [isFeedEof]
      · right; simp [h1]

/-! ### draining, error delivery, history of concatenations -/

/-- what a poll answers once the queue is empty: the `err`, then `eof`, else Pending -/
def endAnswer (s : Inner β) : PollRes β :=
  match s.err with
  | some e => .error e
  | none => if s.eof then .eos else .pending

theorem drain_aux (c : Chan β) (ws : List WakerId) (w' : WakerId)
    (hr : c.readerAlive = true) (hl : ws.length = c.inner.items.length) :
    (Chan.outs c (ws.map .pollNext ++ [.pollNext w'])).map (·.res) =
      c.inner.items.map (fun d => Res.poll (.data d)) ++ [.poll (endAnswer c.inner)] := by
  induction ws generalizing c with
  | nil =>
    have hi : c.inner.items = [] := by
      cases h : c.inner.items with
      | nil => rfl
      | cons d r => rw [h] at hl; simp at hl
    simp only [List.map_nil, List.nil_append, Chan.outs, Chan.run, List.map_cons, hi]
    rw [step_pollNext_alive c w' hr]
    rcases pollNext_cases c.inner w' with ⟨d, rest, hi', -⟩ | ⟨e, -, he, hr', -⟩ | ⟨-, he, hf, hr', -⟩ | ⟨-, he, hf, hr', -⟩
    · rw [hi] at hi'; cases hi'
    · simp [hr', endAnswer, he]
    · simp [hr', endAnswer, he, hf]
    · simp [hr', endAnswer, he, hf]
  | cons w ws ih =>
    cases hi : c.inner.items with
    | nil => rw [hi] at hl; simp at hl
    | cons d rest =>
      rw [hi] at hl
      simp only [List.length_cons, Nat.add_right_cancel_iff] at hl
      simp only [List.map_cons, List.cons_append, Chan.outs, Chan.run]
      have hstep : (Chan.step c (.pollNext w)).2.res = .poll (.data d) ∧
          (Chan.step c (.pollNext w)).1.readerAlive = true ∧
          (Chan.step c (.pollNext w)).1.inner.items = rest ∧
          (Chan.step c (.pollNext w)).1.inner.err = c.inner.err ∧
          (Chan.step c (.pollNext w)).1.inner.eof = c.inner.eof := by
        simp only [Chan.step, hr, Inner.pollNext, hi, Inner.wakeIo, Inner.register]
        refine ⟨by simp, by simp, ?_, ?_, ?_⟩ <;> (repeat' split) <;> simp_all
      obtain ⟨h1, h2, h3, h4, h5⟩ := hstep
      have := ih (Chan.step c (.pollNext w)).1 h2 (by rw [h3]; exact hl)
      simp only [Chan.outs] at this
      rw [this, h1, h3]
      simp [endAnswer, h4, h5]

/-- if the outstanding error goes away during a run, some poll in that run reported an error -/
theorem errOutstanding_cleared (h : Hist β) (ops : List (Op β)) (os : List (Out β)) (e : PErr)
    (h0 : h.errOutstanding = some e) (h1 : (h.runWith ops os).errOutstanding = none) :
    ∃ o ∈ os, ∃ e', o.res = .poll (.error e') := by
  induction ops generalizing h os e with
  | nil => simp [Hist.runWith, h0] at h1
  | cons op ops ih =>
    cases os with
    | nil => simp [Hist.runWith, h0] at h1
    | cons o os =>
      simp only [Hist.runWith] at h1
      cases hn : (h.step op o).errOutstanding with
      | some e2 =>
        obtain ⟨o', ho', he'⟩ := ih _ _ e2 hn h1
        exact ⟨o', List.mem_cons_of_mem _ ho', he'⟩
      | none =>
        refine ⟨o, List.mem_cons_self, ?_⟩
        cases op <;>
          simp only [Hist.step, Hist.observe] at hn <;>
          (try (repeat' split at hn)) <;> simp_all

theorem runWith_append (h : Hist β) (xs ys : List (Op β)) (os1 os2 : List (Out β))
    (hl : os1.length = xs.length) :
    h.runWith (xs ++ ys) (os1 ++ os2) = (h.runWith xs os1).runWith ys os2 := by
  induction xs generalizing h os1 with
  | nil =>
    cases os1 with
    | nil => simp [Hist.runWith]
    | cons o os => simp at hl
  | cons x xs ih =>
    cases os1 with
    | nil => simp at hl
    | cons o os =>
      simp only [List.length_cons, Nat.add_right_cancel_iff] at hl
      simp only [List.cons_append, Hist.runWith]
      exact ih _ _ hl

/-- the history of a concatenation is the history of the first part continued over the second -/
theorem hist_append (eof : Bool) (xs ys : List (Op β)) :
    hist eof (xs ++ ys) = (hist eof xs).runWith ys (Chan.outs (state eof xs) ys) := by
  simp only [hist, state, outs_append]
  exact runWith_append _ _ _ _ _ (by simp [Chan.outs, outs_length])

theorem hist_snoc (eof : Bool) (xs : List (Op β)) (op : Op β) :
    hist eof (xs ++ [op]) = (hist eof xs).step op (next eof xs op) := by
  rw [hist_append]
  simp [Chan.outs, Chan.run, Hist.runWith, next]

end ActixModel.Payload
