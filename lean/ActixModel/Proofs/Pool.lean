import ActixModel.Model.Pool
/-
Helper lemmas for the C17 pool theorems: the association list behind `available`, the pop loop,
and what each transition does to the two counters (leases, sockets per authority).
-/
namespace ActixModel.Pool

theorem lookup_store_same (a : Nat) (v : List Conn) (m : List (Nat × List Conn)) :
    lookup a (store a v m) = v := by
  induction m with
  | nil => simp [store, lookup]
  | cons e rest ih =>
    obtain ⟨k, w⟩ := e
    by_cases h : k = a
    · simp [store, lookup, h]
    · simp [store, lookup, h, ih]

theorem lookup_store_other (a b : Nat) (v : List Conn) (m : List (Nat × List Conn)) (hne : b ≠ a) :
    lookup b (store a v m) = lookup b m := by
  induction m with
  | nil =>
    have : ¬ a = b := fun h => hne h.symm
    simp [store, lookup, this]
  | cons e rest ih =>
    obtain ⟨k, w⟩ := e
    by_cases h : k = a
    · subst h
      have : ¬ k = b := fun h => hne h.symm
      simp [store, lookup, this]
    · by_cases h2 : k = b
      · subst h2
        simp [store, lookup, h]
      · simp [store, lookup, h, h2, ih]

/-- the pop loop hands out only connections that passed the check and the age test -/
theorem popUsable_some (cfg : Cfg) (now : Nat) (cs : List Conn) (c : Conn) (rest closed : List Conn)
    (h : popUsable cfg now cs = (some c, rest, closed)) :
    check c = .live ∧ ineligible cfg now c = false ∧ c ∈ cs := by
  induction cs generalizing rest closed with
  | nil => simp [popUsable] at h
  | cons d ds ih =>
    unfold popUsable at h
    by_cases hi : ineligible cfg now d = true
    · simp only [hi, if_true] at h
      generalize hp : popUsable cfg now ds = r at h
      obtain ⟨r1, r2, r3⟩ := r
      simp only [Prod.mk.injEq] at h
      obtain ⟨h1, h2, h3⟩ := h
      subst h1
      have := ih r2 r3 hp
      exact ⟨this.1, this.2.1, List.mem_cons_of_mem _ this.2.2⟩
    · have hi' : ineligible cfg now d = false := by simpa using hi
      simp only [hi', Bool.false_eq_true, if_false] at h
      cases hc : check d with
      | live =>
        simp only [hc, Prod.mk.injEq, Option.some.injEq] at h
        obtain ⟨h1, _, _⟩ := h
        subst h1
        exact ⟨hc, hi', List.mem_cons_self⟩
      | tainted =>
        simp only [hc] at h
        generalize hp : popUsable cfg now ds = r at h
        obtain ⟨r1, r2, r3⟩ := r
        simp only [Prod.mk.injEq] at h
        obtain ⟨h1, h2, h3⟩ := h
        subst h1
        have := ih r2 r3 hp
        exact ⟨this.1, this.2.1, List.mem_cons_of_mem _ this.2.2⟩
      | skip =>
        simp only [hc] at h
        generalize hp : popUsable cfg now ds = r at h
        obtain ⟨r1, r2, r3⟩ := r
        simp only [Prod.mk.injEq] at h
        obtain ⟨h1, h2, h3⟩ := h
        subst h1
        have := ih r2 r3 hp
        exact ⟨this.1, this.2.1, List.mem_cons_of_mem _ this.2.2⟩

/-- when nothing is reusable the whole deque has been emptied -/
theorem popUsable_none (cfg : Cfg) (now : Nat) (cs : List Conn) (rest closed : List Conn)
    (h : popUsable cfg now cs = (none, rest, closed)) : rest = [] := by
  induction cs generalizing rest closed with
  | nil => simp [popUsable] at h; exact h.1
  | cons d ds ih =>
    unfold popUsable at h
    by_cases hi : ineligible cfg now d = true
    · simp only [hi, if_true] at h
      generalize hp : popUsable cfg now ds = r at h
      obtain ⟨r1, r2, r3⟩ := r
      simp only [Prod.mk.injEq] at h
      obtain ⟨h1, h2, h3⟩ := h
      subst h1; subst h2
      exact ih _ _ hp
    · have hi' : ineligible cfg now d = false := by simpa using hi
      simp only [hi', Bool.false_eq_true, if_false] at h
      cases hc : check d with
      | live => simp [hc] at h
      | tainted =>
        simp only [hc] at h
        generalize hp : popUsable cfg now ds = r at h
        obtain ⟨r1, r2, r3⟩ := r
        simp only [Prod.mk.injEq] at h
        obtain ⟨h1, h2, h3⟩ := h
        subst h1; subst h2
        exact ih _ _ hp
      | skip =>
        simp only [hc] at h
        generalize hp : popUsable cfg now ds = r at h
        obtain ⟨r1, r2, r3⟩ := r
        simp only [Prod.mk.injEq] at h
        obtain ⟨h1, h2, h3⟩ := h
        subst h1; subst h2
        exact ih _ _ hp

/-- the pop loop never lengthens the deque: reused + remaining ≤ before -/
theorem popUsable_length (cfg : Cfg) (now : Nat) (cs : List Conn) :
    (popUsable cfg now cs).2.1.length + (if (popUsable cfg now cs).1.isSome then 1 else 0) ≤ cs.length := by
  induction cs with
  | nil => simp [popUsable]
  | cons d ds ih =>
    unfold popUsable
    by_cases hi : ineligible cfg now d = true
    · simp only [hi, if_true]
      generalize popUsable cfg now ds = r at ih ⊢
      obtain ⟨r1, r2, r3⟩ := r
      simp only [List.length_cons] at ih ⊢
      omega
    · have hi' : ineligible cfg now d = false := by simpa using hi
      simp only [hi', Bool.false_eq_true, if_false]
      cases hc : check d with
      | live => simp
      | tainted =>
        simp only []
        generalize popUsable cfg now ds = r at ih ⊢
        obtain ⟨r1, r2, r3⟩ := r
        simp only [List.length_cons] at ih ⊢
        omega
      | skip =>
        simp only []
        generalize popUsable cfg now ds = r at ih ⊢
        obtain ⟨r1, r2, r3⟩ := r
        simp only [List.length_cons] at ih ⊢
        omega

theorem length_setAt {α : Type} (xs : List α) (i : Nat) (y : α) : (setAt xs i y).length = xs.length := by
  induction xs generalizing i with
  | nil => simp [setAt]
  | cons x xs ih => cases i <;> simp [setAt, ih]

/-- number of leases of authority `a` that still hold their socket -/
def leasedOf (a : Nat) (ls : List Lease) : Nat :=
  (ls.filter fun l => decide (l.auth = a) && l.conn.isSome).length

/-- sockets open towards authority `a`: idle ones in its deque + those held by leases -/
def openOf (a : Nat) (p : Pool) : Nat := (lookup a p.avail).length + leasedOf a p.leases

theorem leasedOf_le (a : Nat) (ls : List Lease) : leasedOf a ls ≤ ls.length := by
  unfold leasedOf; exact List.length_filter_le _ _

theorem leasedOf_append (a : Nat) (xs ys : List Lease) :
    leasedOf a (xs ++ ys) = leasedOf a xs + leasedOf a ys := by
  simp [leasedOf, List.filter_append]

theorem leasedOf_eraseIdx_le (a : Nat) (ls : List Lease) (i : Nat) :
    leasedOf a (ls.eraseIdx i) ≤ leasedOf a ls := by
  induction ls generalizing i with
  | nil => simp
  | cons l ls ih =>
    cases i with
    | zero =>
      simp only [List.eraseIdx_cons_zero, leasedOf, List.filter_cons]
      split <;> simp
    | succ n =>
      have := ih n
      simp only [List.eraseIdx_cons_succ, leasedOf, List.filter_cons] at this ⊢
      split <;> simp <;> omega

/-- taking the socket out of lease `i` (authority `a`, socket present) -/
theorem leasedOf_setAt_none (b : Nat) (ls : List Lease) (i : Nat) (a : Nat) (c : Conn)
    (h : ls[i]? = some ⟨a, some c⟩) :
    leasedOf b (setAt ls i ⟨a, none⟩) + (if a = b then 1 else 0) = leasedOf b ls := by
  induction ls generalizing i with
  | nil => simp at h
  | cons l ls ih =>
    cases i with
    | zero =>
      simp only [List.getElem?_cons_zero, Option.some.injEq] at h
      subst h
      by_cases hab : a = b
      · simp [setAt, leasedOf, hab]
      · simp [setAt, leasedOf, hab]
    | succ n =>
      simp only [List.getElem?_cons_succ] at h
      have := ih n h
      simp only [setAt, leasedOf, List.filter_cons] at this ⊢
      split
      · simp only [List.length_cons]; omega
      · exact this

theorem touch_lookup_length (id : Nat) (f : Conn → Conn) (a : Nat) (m : List (Nat × List Conn)) :
    (lookup a (m.map fun (k, cs) => (k, cs.map fun c => if c.id = id then f c else c))).length
      = (lookup a m).length := by
  induction m with
  | nil => simp [lookup]
  | cons e rest ih =>
    obtain ⟨k, w⟩ := e
    by_cases h : k = a <;> simp [lookup, h, ih]

theorem touch_leasedOf (id : Nat) (f : Conn → Conn) (a : Nat) (ls : List Lease) :
    leasedOf a (ls.map fun l => { l with conn := l.conn.map fun c => if c.id = id then f c else c })
      = leasedOf a ls := by
  induction ls with
  | nil => simp [leasedOf]
  | cons l ls ih =>
    simp only [leasedOf, List.map_cons, List.filter_cons] at ih ⊢
    cases hc : l.conn with
    | none => simp [ih]
    | some c => simp only [Option.map_some, Option.isSome_some, Bool.and_true]; split <;> simp [ih]


/-! ### exclusivity: socket ids per authority -/

def leasedIds (a : Nat) (ls : List Lease) : List Nat :=
  (ls.filter fun l => decide (l.auth = a)).filterMap fun l => l.conn.map (·.id)

def idsOf (a : Nat) (p : Pool) : List Nat := (lookup a p.avail).map (·.id) ++ leasedIds a p.leases

theorem popUsable_sublist (cfg : Cfg) (now : Nat) (cs : List Conn) (c : Conn) (rest closed : List Conn)
    (h : popUsable cfg now cs = (some c, rest, closed)) : (c :: rest).Sublist cs := by
  induction cs generalizing rest closed with
  | nil => simp [popUsable] at h
  | cons d ds ih =>
    unfold popUsable at h
    by_cases hi : ineligible cfg now d = true
    · simp only [hi, if_true] at h
      generalize hp : popUsable cfg now ds = r at h
      obtain ⟨r1, r2, r3⟩ := r
      simp only [Prod.mk.injEq] at h
      obtain ⟨h1, h2, h3⟩ := h
      subst h1; subst h2
      exact List.Sublist.cons _ (ih _ _ hp)
    · have hi' : ineligible cfg now d = false := by simpa using hi
      simp only [hi', Bool.false_eq_true, if_false] at h
      cases hc : check d with
      | live =>
        simp only [hc, Prod.mk.injEq, Option.some.injEq] at h
        obtain ⟨h1, h2, _⟩ := h
        subst h1; subst h2
        exact List.Sublist.refl _
      | tainted =>
        simp only [hc] at h
        generalize hp : popUsable cfg now ds = r at h
        obtain ⟨r1, r2, r3⟩ := r
        simp only [Prod.mk.injEq] at h
        obtain ⟨h1, h2, h3⟩ := h
        subst h1; subst h2
        exact List.Sublist.cons _ (ih _ _ hp)
      | skip =>
        simp only [hc] at h
        generalize hp : popUsable cfg now ds = r at h
        obtain ⟨r1, r2, r3⟩ := r
        simp only [Prod.mk.injEq] at h
        obtain ⟨h1, h2, h3⟩ := h
        subst h1; subst h2
        exact List.Sublist.cons _ (ih _ _ hp)

theorem leasedIds_append (a : Nat) (xs ys : List Lease) :
    leasedIds a (xs ++ ys) = leasedIds a xs ++ leasedIds a ys := by
  simp [leasedIds, List.filter_append, List.filterMap_append]

theorem leasedIds_single (b a : Nat) (c : Conn) :
    leasedIds b [⟨a, some c⟩] = if a = b then [c.id] else [] := by
  by_cases h : a = b <;> simp [leasedIds, h]

theorem leasedIds_eraseIdx (a : Nat) (ls : List Lease) (i : Nat) :
    (leasedIds a (ls.eraseIdx i)).Sublist (leasedIds a ls) := by
  unfold leasedIds
  exact ((List.eraseIdx_sublist ls i).filter _).filterMap _

theorem leasedIds_setAt_other (b : Nat) (ls : List Lease) (i : Nat) (a : Nat) (c : Conn)
    (h : ls[i]? = some ⟨a, some c⟩) (hne : a ≠ b) :
    leasedIds b (setAt ls i ⟨a, none⟩) = leasedIds b ls := by
  induction ls generalizing i with
  | nil => simp at h
  | cons l ls ih =>
    cases i with
    | zero =>
      simp only [List.getElem?_cons_zero, Option.some.injEq] at h
      subst h
      simp [setAt, leasedIds, hne]
    | succ n =>
      simp only [List.getElem?_cons_succ] at h
      have := ih n h
      simp only [setAt, leasedIds, List.filter_cons] at this ⊢
      split
      · simp only [List.filterMap_cons]
        split
        · exact this
        · rw [this]
      · exact this

theorem leasedIds_setAt_same (ls : List Lease) (i : Nat) (a : Nat) (c : Conn)
    (h : ls[i]? = some ⟨a, some c⟩) :
    ∃ l1 l2, leasedIds a ls = l1 ++ c.id :: l2 ∧ leasedIds a (setAt ls i ⟨a, none⟩) = l1 ++ l2 := by
  induction ls generalizing i with
  | nil => simp at h
  | cons l ls ih =>
    cases i with
    | zero =>
      simp only [List.getElem?_cons_zero, Option.some.injEq] at h
      subst h
      exact ⟨[], leasedIds a ls, by simp [leasedIds], by simp [setAt, leasedIds]⟩
    | succ n =>
      simp only [List.getElem?_cons_succ] at h
      obtain ⟨l1, l2, h1, h2⟩ := ih n h
      by_cases hl : l.auth = a
      · cases hc : l.conn with
        | none =>
          refine ⟨l1, l2, ?_, ?_⟩
          · simp only [leasedIds, List.filter_cons, hl, decide_true, if_true, List.filterMap_cons, hc, Option.map_none] at h1 ⊢
            exact h1
          · simp only [setAt, leasedIds, List.filter_cons, hl, decide_true, if_true, List.filterMap_cons, hc, Option.map_none] at h2 ⊢
            exact h2
        | some d =>
          refine ⟨d.id :: l1, l2, ?_, ?_⟩
          · simp only [leasedIds, List.filter_cons, hl, decide_true, if_true, List.filterMap_cons, hc, Option.map_some] at h1 ⊢
            simp [h1]
          · simp only [setAt, leasedIds, List.filter_cons, hl, decide_true, if_true, List.filterMap_cons, hc, Option.map_some] at h2 ⊢
            simp [h2]
      · refine ⟨l1, l2, ?_, ?_⟩
        · simp only [leasedIds, List.filter_cons, hl, decide_false, Bool.false_eq_true, if_false] at h1 ⊢
          exact h1
        · simp only [setAt, leasedIds, List.filter_cons, hl, decide_false, Bool.false_eq_true, if_false] at h2 ⊢
          exact h2

theorem touch_idle_ids (id : Nat) (f : Conn → Conn) (hf : ∀ c, (f c).id = c.id) (a : Nat)
    (m : List (Nat × List Conn)) :
    (lookup a (m.map fun (k, cs) => (k, cs.map fun c => if c.id = id then f c else c))).map (·.id)
      = (lookup a m).map (·.id) := by
  induction m with
  | nil => simp [lookup]
  | cons e rest ih =>
    obtain ⟨k, w⟩ := e
    by_cases h : k = a
    · simp only [List.map_cons, lookup, h, if_true, List.map_map]
      apply List.map_congr_left
      intro c _
      simp only [Function.comp]
      split
      · exact hf c
      · rfl
    · simp only [List.map_cons, lookup, h, if_false]
      exact ih

theorem touch_leased_ids (id : Nat) (f : Conn → Conn) (hf : ∀ c, (f c).id = c.id) (a : Nat) (ls : List Lease) :
    leasedIds a (ls.map fun l => { l with conn := l.conn.map fun c => if c.id = id then f c else c })
      = leasedIds a ls := by
  induction ls with
  | nil => simp [leasedIds]
  | cons l ls ih =>
    simp only [leasedIds, List.map_cons, List.filter_cons] at ih ⊢
    split
    · simp only [List.filterMap_cons]
      cases hc : l.conn with
      | none => simp only [Option.map_none]; exact ih
      | some c =>
        simp only [Option.map_some]
        have : (if c.id = id then f c else c).id = c.id := by
          split
          · exact hf c
          · rfl
        rw [this, ih]
    · exact ih

end ActixModel.Pool
