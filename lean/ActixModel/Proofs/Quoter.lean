import ActixModel.Model.Quoter
/-
Helper lemmas for `Model/Quoter.lean` (C10).  Core Lean only.

* the bitmap really is the membership test of the protected list (`isProtected_mk`);
* `decodeNext` = "first position with a decodable escape" and consumes ≥ 3 bytes;
* `requoteLoop` with enough fuel = the one-pass left-to-right decoder `decodeAll`.
-/
namespace ActixModel.Quoter

/-! ### bitmap -/

theorem bitAt_setBit {t t' : Bitmap} {c : UInt8} (h : setBit t c = some t') (ch : UInt8) :
    bitAt t' ch = (ch == c || bitAt t ch) := by
  unfold setBit at h
  simp only at h
  split at h
  · rename_i hlt
    injection h with h
    subst h
    unfold bitAt
    by_cases hi : ch.toNat / 8 = c.toNat / 8
    · rw [hi]
      simp only [List.getD_eq_getElem?_getD, List.getElem?_set_self hlt, Option.getD_some]
      rw [Nat.testBit_or, Nat.testBit_two_pow]
      by_cases hm : ch.toNat % 8 = c.toNat % 8
      · have : ch = c := by
          apply UInt8.toNat_inj.mp
          omega
        subst this
        simp
      · have hne : ch ≠ c := by
          intro e; subst e; exact hm rfl
        have : (ch == c) = false := by simp [hne]
        rw [this]
        have : decide (c.toNat % 8 = ch.toNat % 8) = false := by
          simp only [decide_eq_false_iff_not]; omega
        simp [this, Bool.or_comm]
    · have hne : ch ≠ c := by
        intro e; subst e; exact hi rfl
      have : (ch == c) = false := by simp [hne]
      rw [this]
      simp only [List.getD_eq_getElem?_getD, Bool.false_or]
      rw [List.getElem?_set_ne (by omega)]
  · cases h

theorem setBit_length {t t' : Bitmap} {c : UInt8} (h : setBit t c = some t') :
    t'.length = t.length := by
  unfold setBit at h
  simp only at h
  split at h
  · injection h with h; subst h; simp
  · cases h

theorem setBit_isSome (t : Bitmap) (c : UInt8) (ht : t.length = 16) :
    (setBit t c).isSome = decide (c < 128) := by
  unfold setBit
  simp only [ht]
  by_cases h : c < 128
  · have : c.toNat < 128 := by simpa [UInt8.lt_iff_toNat_lt] using h
    have h2 : c.toNat / 8 < 16 := by omega
    simp [h, h2]
  · have : ¬ c.toNat < 128 := by simpa [UInt8.lt_iff_toNat_lt] using h
    have h2 : ¬ c.toNat / 8 < 16 := by omega
    simp [h, h2]

theorem bitAt_mkTable : ∀ (prot : Bytes) (t t' : Bitmap), mkTable t prot = some t' →
    ∀ ch, bitAt t' ch = (prot.contains ch || bitAt t ch)
  | [], t, t', h, ch => by
    simp only [mkTable, Option.some.injEq] at h; subst h; simp
  | c :: rest, t, t', h, ch => by
    simp only [mkTable] at h
    split at h
    · rename_i t1 h1
      rw [bitAt_mkTable rest t1 t' h ch, bitAt_setBit h1 ch]
      simp only [List.contains_cons]
      cases (ch == c) <;> cases (rest.contains ch) <;> simp
    · cases h

theorem getD_replicate_zero (n i : Nat) : (List.replicate n 0).getD i 0 = 0 := by
  simp only [List.getD_eq_getElem?_getD, List.getElem?_replicate]
  split <;> rfl

theorem bitAt_empty (ch : UInt8) : bitAt emptyBitmap ch = false := by
  unfold bitAt emptyBitmap
  rw [getD_replicate_zero]
  simp

theorem mkTable_length : ∀ (prot : Bytes) (t t' : Bitmap), mkTable t prot = some t' →
    t'.length = t.length
  | [], t, t', h => by simp only [mkTable, Option.some.injEq] at h; subst h; rfl
  | c :: rest, t, t', h => by
    simp only [mkTable] at h
    split at h
    · rename_i t1 h1
      rw [mkTable_length rest t1 t' h, setBit_length h1]
    · cases h

/-- `Quoter::new` panics iff some protected byte is ≥ 128 -/
theorem mkTable_isSome : ∀ (prot : Bytes) (t : Bitmap), t.length = 16 →
    (mkTable t prot).isSome = prot.all (fun c => decide (c < 128))
  | [], t, _ => by simp [mkTable]
  | c :: rest, t, ht => by
    simp only [mkTable, List.all_cons]
    have hs := setBit_isSome t c ht
    split
    · rename_i t1 h1
      rw [mkTable_isSome rest t1 (by rw [setBit_length h1, ht])]
      rw [h1] at hs
      simp only [Option.isSome_some] at hs
      rw [← hs]; simp
    · rename_i h1
      rw [h1] at hs
      simp only [Option.isSome_none] at hs
      rw [← hs]; simp

/-- the protected test of a constructed quoter is membership in the protected list -/
theorem isProtected_mk {prot : Bytes} {q : Quoter} (h : Quoter.mk? prot = some q) (ch : UInt8) :
    q.isProtected ch = prot.contains ch := by
  unfold Quoter.mk? at h
  cases hm : mkTable emptyBitmap prot with
  | none => rw [hm] at h; cases h
  | some t =>
    rw [hm] at h
    simp only [Option.map_some, Option.some.injEq] at h
    subst h
    unfold Quoter.isProtected
    simp only
    rw [bitAt_mkTable prot _ _ hm ch, bitAt_empty]
    have hall := mkTable_isSome prot emptyBitmap (by simp [emptyBitmap])
    rw [hm] at hall
    simp only [Option.isSome_some] at hall
    by_cases hc : ch ∈ prot
    · have : ch < 128 := by
        have := (List.all_eq_true.mp hall.symm) ch hc
        simpa using this
      simp [hc, this]
    · simp [hc]

theorem mk?_isSome (prot : Bytes) :
    (Quoter.mk? prot).isSome = prot.all (fun c => decide (c < 128)) := by
  unfold Quoter.mk?
  rw [Option.isSome_map]
  exact mkTable_isSome prot emptyBitmap (by simp [emptyBitmap])

/-! ### `escapeAt` / `decodeNext` -/

theorem escapeAt_rem {q : Quoter} {s : Bytes} {ch : UInt8} {rem : Bytes}
    (h : q.escapeAt s = some (ch, rem)) : ∃ p1 p2, s = 37 :: p1 :: p2 :: rem := by
  unfold Quoter.escapeAt at h
  split at h
  · rename_i p1 p2 rem'
    split at h
    · split at h
      · cases h
      · injection h with h; injection h with h1 h2; subst h2; exact ⟨p1, p2, rfl⟩
    · cases h
  · cases h

theorem escapeAt_drop {q : Quoter} {s : Bytes} {ch : UInt8} {rem : Bytes}
    (h : q.escapeAt s = some (ch, rem)) : rem = s.drop 3 := by
  obtain ⟨p1, p2, hs⟩ := escapeAt_rem h
  subst hs; rfl

/-- the one-pass left-to-right decoder written with the model's own `escapeAt`
(`Props/C10.lean` restates it with an independent escape test) -/
def Quoter.decodeAll (q : Quoter) (s : Bytes) : Bytes :=
  match s with
  | [] => []
  | b :: rest =>
    match q.escapeAt (b :: rest) with
    | some (ch, _) => ch :: q.decodeAll (rest.drop 2)
    | none => b :: q.decodeAll rest
termination_by s.length
decreasing_by
  · simp only [List.length_drop, List.length_cons]; omega
  · simp

theorem decodeAll_nil (q : Quoter) : q.decodeAll [] = [] := by
  rw [Quoter.decodeAll]

theorem decodeAll_cons_some {q : Quoter} {b : UInt8} {rest : Bytes} {ch : UInt8} {rem : Bytes}
    (h : q.escapeAt (b :: rest) = some (ch, rem)) :
    q.decodeAll (b :: rest) = ch :: q.decodeAll rem := by
  rw [Quoter.decodeAll]
  simp only [h]
  have := escapeAt_drop h
  simp only [List.drop_succ_cons] at this
  rw [this]

theorem decodeAll_cons_none {q : Quoter} {b : UInt8} {rest : Bytes}
    (h : q.escapeAt (b :: rest) = none) :
    q.decodeAll (b :: rest) = b :: q.decodeAll rest := by
  rw [Quoter.decodeAll]
  simp only [h]

theorem decodeNext_some {q : Quoter} : ∀ {s prev : Bytes} {ch : UInt8} {rem : Bytes},
    q.decodeNext s = some (prev, ch, rem) →
      q.decodeAll s = prev ++ ch :: q.decodeAll rem ∧ rem.length + 3 + prev.length = s.length
  | [], _, _, _, h => by simp [Quoter.decodeNext] at h
  | b :: rest, prev, ch, rem, h => by
    simp only [Quoter.decodeNext] at h
    split at h
    · rename_i ch' rem' he
      injection h with h; injection h with h1 h2; injection h2 with h2 h3
      subst h1 h2 h3
      refine ⟨by simpa using decodeAll_cons_some he, ?_⟩
      obtain ⟨p1, p2, hs⟩ := escapeAt_rem he
      rw [hs]; simp
    · rename_i he
      split at h
      · rename_i prev' ch' rem' hn
        injection h with h; injection h with h1 h2; injection h2 with h2 h3
        subst h1 h2 h3
        have ih := decodeNext_some hn
        refine ⟨?_, by simp only [List.length_cons]; omega⟩
        rw [decodeAll_cons_none he, ih.1]; rfl
      · cases h

theorem decodeNext_none {q : Quoter} : ∀ {s : Bytes}, q.decodeNext s = none →
    q.decodeAll s = s ∧ ∀ i, q.escapeAt (s.drop i) = none
  | [], _ => by
    refine ⟨decodeAll_nil q, ?_⟩
    intro i; simp [Quoter.escapeAt]
  | b :: rest, h => by
    simp only [Quoter.decodeNext] at h
    split at h
    · cases h
    · rename_i he
      split at h
      · cases h
      · rename_i hn
        have ih := decodeNext_none hn
        refine ⟨by rw [decodeAll_cons_none he, ih.1], ?_⟩
        intro i
        cases i with
        | zero => simpa using he
        | succ i => simpa using ih.2 i

theorem decodeNext_isSome_of_escapeAt {q : Quoter} : ∀ (s : Bytes) (i : Nat),
    (q.escapeAt (s.drop i)).isSome → (q.decodeNext s).isSome
  | [], i, h => by simp [Quoter.escapeAt] at h
  | b :: rest, i, h => by
    simp only [Quoter.decodeNext]
    split
    · simp
    · rename_i he
      cases i with
      | zero => simp [he] at h
      | succ i =>
        have := decodeNext_isSome_of_escapeAt rest i (by simpa using h)
        split
        · simp
        · rename_i hn; simp [hn] at this

theorem requoteLoop_eq {q : Quoter} : ∀ (fuel : Nat) (s : Bytes), s.length ≤ fuel →
    q.requoteLoop fuel s = q.decodeAll s
  | 0, s, h => by
    have : s = [] := List.length_eq_zero_iff.mp (by omega)
    subst this
    simp [Quoter.requoteLoop, decodeAll_nil]
  | fuel + 1, s, h => by
    simp only [Quoter.requoteLoop]
    split
    · rename_i prev ch rem hn
      have := decodeNext_some hn
      rw [this.1, requoteLoop_eq fuel rem (by omega)]
    · rename_i hn
      exact (decodeNext_none hn).1.symm

/-- `requote` in one line: `None` iff nothing is decodable, else the one-pass decoding -/
theorem requote_eq (q : Quoter) (s : Bytes) :
    q.requote s = if (q.decodeNext s).isSome then some (q.decodeAll s) else none := by
  unfold Quoter.requote
  split
  · rename_i hn; simp [hn]
  · rename_i pre ch rem hn
    have := decodeNext_some hn
    simp only [hn, Option.isSome_some, if_true]
    rw [this.1, requoteLoop_eq s.length rem (by omega)]

end ActixModel.Quoter

namespace ActixModel.Quoter

/-! ### splitting at a protected separator commutes with decoding -/

/-- split at every occurrence of `sep` (always at least one segment) -/
def splitOn (sep : UInt8) : Bytes → List Bytes
  | [] => [[]]
  | b :: rest =>
    if b = sep then [] :: splitOn sep rest
    else (b :: (splitOn sep rest).headD []) :: (splitOn sep rest).tail

theorem splitOn_ne_nil (sep : UInt8) : ∀ s, splitOn sep s ≠ []
  | [] => by simp [splitOn]
  | b :: rest => by unfold splitOn; split <;> simp

theorem splitOn_eq_cons (sep : UInt8) (s : Bytes) :
    splitOn sep s = (splitOn sep s).headD [] :: (splitOn sep s).tail := by
  cases h : splitOn sep s with
  | nil => exact absurd h (splitOn_ne_nil sep s)
  | cons a t => rfl

/-- the first segment is a prefix of the input -/
theorem splitOn_head_prefix (sep : UInt8) : ∀ s, ∃ t, s = (splitOn sep s).headD [] ++ t
  | [] => ⟨[], by simp [splitOn]⟩
  | b :: rest => by
    unfold splitOn
    split
    · exact ⟨b :: rest, by simp⟩
    · obtain ⟨t, ht⟩ := splitOn_head_prefix sep rest
      exact ⟨t, by simp only [List.headD_cons, List.cons_append]; rw [← ht]⟩

theorem escapeAt_cons3 (q : Quoter) (a b c : UInt8) (x : Bytes) :
    q.escapeAt (a :: b :: c :: x) =
      if a = 37 then
        (match hexPairToChar b c with
         | some ch => if q.isProtected ch then none else some (ch, x)
         | none => none)
      else none := by
  by_cases ha : a = 37
  · subst ha; simp only [Quoter.escapeAt, if_true]; cases hexPairToChar b c <;> rfl
  · simp only [if_neg ha]
    unfold Quoter.escapeAt
    split
    · rename_i heq
      injection heq with h1 _
      exact absurd h1 ha
    · rfl

/-- `escapeAt` only looks at the first three bytes -/
theorem escapeAt_fst_congr (q : Quoter) (a b c : UInt8) (x y : Bytes) :
    (q.escapeAt (a :: b :: c :: x)).map (·.1) = (q.escapeAt (a :: b :: c :: y)).map (·.1) := by
  rw [escapeAt_cons3, escapeAt_cons3]
  by_cases ha : a = 37
  · simp only [if_pos ha]
    cases hexPairToChar b c with
    | none => rfl
    | some ch => by_cases hp : q.isProtected ch <;> simp [hp]
  · simp only [if_neg ha]

theorem escapeAt_some_shape {q : Quoter} {s : Bytes} {ch : UInt8} {rem : Bytes}
    (h : q.escapeAt s = some (ch, rem)) :
    ∃ p1 p2, s = 37 :: p1 :: p2 :: rem ∧ hexPairToChar p1 p2 = some ch ∧ q.isProtected ch = false := by
  unfold Quoter.escapeAt at h
  split at h
  · rename_i p1 p2 rem'
    split at h
    · rename_i ch' hh
      split at h
      · cases h
      · rename_i hp
        injection h with h; injection h with h1 h2; subst h1 h2
        exact ⟨p1, p2, rfl, hh, by simpa using hp⟩
    · cases h
  · cases h

theorem hexPair_some {p1 p2 ch : UInt8} (h : hexPairToChar p1 p2 = some ch) :
    (hexVal p1).isSome ∧ (hexVal p2).isSome := by
  unfold hexPairToChar at h
  split at h
  · rename_i a b h1 h2; simp [h1, h2]
  · cases h

theorem escapeAt_short (q : Quoter) : q.escapeAt [] = none ∧ (∀ a, q.escapeAt [a] = none) ∧
    (∀ a b, q.escapeAt [a, b] = none) := by
  refine ⟨?_, ?_, ?_⟩ <;> intros <;> simp [Quoter.escapeAt]

/-- **decoding never creates, destroys or moves a protected separator**: for a separator that
is protected (so never produced by decoding), is not `%` and is not a hex digit (so never part
of an escape), splitting the decoded string at the separator gives exactly the decoded
segments of the original. -/
theorem splitOn_decodeAll (q : Quoter) (sep : UInt8) (hp : q.isProtected sep = true)
    (h37 : sep ≠ 37) (hhex : hexVal sep = none) (s : Bytes) :
    splitOn sep (q.decodeAll s) = (splitOn sep s).map q.decodeAll := by
  induction hn : s.length using Nat.strongRecOn generalizing s with
  | _ n ih =>
  cases s with
  | nil => simp [splitOn, decodeAll_nil]
  | cons b rest =>
    cases he : q.escapeAt (b :: rest) with
    | some p =>
      obtain ⟨ch, rem⟩ := p
      obtain ⟨p1, p2, hs, hpair, hnp⟩ := escapeAt_some_shape he
      injection hs with hb hs
      subst hb hs
      have hch : ch ≠ sep := by
        intro e; subst e; rw [hp] at hnp; cases hnp
      have hp1 : p1 ≠ sep := by
        intro e; subst e; have := (hexPair_some hpair).1; rw [hhex] at this; cases this
      have hp2 : p2 ≠ sep := by
        intro e; subst e; have := (hexPair_some hpair).2; rw [hhex] at this; cases this
      rw [decodeAll_cons_some he]
      have ihr := ih rem.length (by subst hn; simp only [List.length_cons]; omega) rem rfl
      have e1 : splitOn sep (ch :: q.decodeAll rem) =
          (ch :: (splitOn sep (q.decodeAll rem)).headD []) :: (splitOn sep (q.decodeAll rem)).tail := by
        rw [splitOn]; simp [hch]
      have e2 : splitOn sep (37 :: p1 :: p2 :: rem) =
          (37 :: p1 :: p2 :: (splitOn sep rem).headD []) :: (splitOn sep rem).tail := by
        rw [splitOn, if_neg (Ne.symm h37), splitOn, if_neg hp1, splitOn, if_neg hp2]
        rw [splitOn_eq_cons sep rem]
        simp
      rw [e1, e2, ihr]
      simp only [List.map_cons, List.map_tail]
      congr 1
      -- decode of the first segment
      have hfst := escapeAt_fst_congr q 37 p1 p2 ((splitOn sep rem).headD []) rem
      rw [he] at hfst
      cases he' : q.escapeAt (37 :: p1 :: p2 :: (splitOn sep rem).headD []) with
      | none => rw [he'] at hfst; cases hfst
      | some p' =>
        obtain ⟨ch', rem'⟩ := p'
        rw [he'] at hfst
        simp only [Option.map_some, Option.some.injEq] at hfst
        subst hfst
        rw [decodeAll_cons_some he']
        have := escapeAt_drop he'
        simp only [List.drop_succ_cons, List.drop_zero] at this
        subst this
        congr 1
        rw [splitOn_eq_cons sep rem]
        simp
    | none =>
      rw [decodeAll_cons_none he]
      have ihr := ih rest.length (by subst hn; simp) rest rfl
      by_cases hb : b = sep
      · subst hb
        rw [splitOn, if_pos rfl, splitOn, if_pos rfl, ihr]
        simp [decodeAll_nil]
      · rw [splitOn, if_neg hb, splitOn, if_neg hb, ihr]
        simp only [List.map_cons, List.map_tail]
        congr 1
        -- no escape at the head of the first segment either
        have hnone : q.escapeAt (b :: (splitOn sep rest).headD []) = none := by
          obtain ⟨t, ht⟩ := splitOn_head_prefix sep rest
          cases hh : (splitOn sep rest).headD [] with
          | nil => exact (escapeAt_short q).2.1 b
          | cons x xs =>
            cases xs with
            | nil => exact (escapeAt_short q).2.2 b x
            | cons y ys =>
              rw [hh] at ht
              have := escapeAt_fst_congr q b x y ys (ys ++ t)
              have he2 : q.escapeAt (b :: x :: y :: (ys ++ t)) = none := by
                rw [ht] at he; simpa using he
              rw [he2] at this
              cases hq : q.escapeAt (b :: x :: y :: ys) with
              | none => rfl
              | some _ => rw [hq] at this; cases this
        rw [decodeAll_cons_none hnone]
        congr 1
        rw [splitOn_eq_cons sep rest]
        simp

/-- number of separators is preserved -/
theorem length_splitOn (sep : UInt8) : ∀ s, (splitOn sep s).length = s.count sep + 1
  | [] => by simp [splitOn]
  | b :: rest => by
    unfold splitOn
    by_cases hb : b = sep
    · subst hb; simp [length_splitOn b rest]
    · have hne := splitOn_ne_nil sep rest
      have : ((splitOn sep rest).tail).length + 1 = (splitOn sep rest).length := by
        cases h : splitOn sep rest with
        | nil => exact absurd h hne
        | cons a t => simp
      simp only [if_neg hb, List.length_cons, this, length_splitOn sep rest]
      rw [List.count_cons_of_ne hb]

theorem count_decodeAll (q : Quoter) (sep : UInt8) (hp : q.isProtected sep = true)
    (h37 : sep ≠ 37) (hhex : hexVal sep = none) (s : Bytes) :
    (q.decodeAll s).count sep = s.count sep := by
  have h := congrArg List.length (splitOn_decodeAll q sep hp h37 hhex s)
  rw [length_splitOn, List.length_map, length_splitOn] at h
  omega

end ActixModel.Quoter
