import ActixModel.Proofs.Quoter
import ActixModel.Spec.C10
/-
Tie between `Model/Quoter.lean` and the spec in `Spec/C10.lean`: the model's escape test (hex
table + shift/or + bitmap) is the spec's (`16·hi + lo`, list membership).
-/
namespace ActixModel.C10
open ActixModel.Quoter

/-! ### finite tables (the only uses of `decide`: 256-entry / 16×16-entry tables) -/

theorem hexVal_table : ∀ n, n < 256 →
    hexVal (UInt8.ofNat n) =
      if isHexDigit (UInt8.ofNat n) then some (UInt8.ofNat (hexDigitVal (UInt8.ofNat n))) else none := by
  decide +kernel

theorem hexDigitVal_lt : ∀ n, n < 256 → isHexDigit (UInt8.ofNat n) = true →
    hexDigitVal (UInt8.ofNat n) < 16 := by
  decide +kernel

theorem nibble_table : ∀ a, a < 16 → ∀ b, b < 16 →
    ((UInt8.ofNat a) <<< 4) ||| (UInt8.ofNat b) = UInt8.ofNat (16 * a + b) := by
  decide +kernel

theorem hexChar_table : ∀ n, n < 16 →
    isHexDigit (hexChar n) = true ∧ hexDigitVal (hexChar n) = n := by
  decide +kernel

theorem hexChar_ne37 : ∀ n, n < 16 → hexChar n ≠ 37 := by
  decide +kernel

theorem escapeSpec_cons3 (prot : Bytes) (p h l : UInt8) (x : Bytes) :
    escapeSpec prot (p :: h :: l :: x) =
      if p = 37 ∧ isHexDigit h = true ∧ isHexDigit l = true then
        (if UInt8.ofNat (16 * hexDigitVal h + hexDigitVal l) ∈ prot then none
         else some (UInt8.ofNat (16 * hexDigitVal h + hexDigitVal l)))
      else none := rfl

theorem escapeSpec_ne37 (prot : Bytes) (p : UInt8) (hp : p ≠ 37) (x : Bytes) :
    escapeSpec prot (p :: x) = none := by
  match x with
  | [] => rfl
  | [_] => rfl
  | h :: l :: y => rw [escapeSpec_cons3, if_neg]; intro hh; exact hp hh.1

theorem ofNat_toNat (d : UInt8) : UInt8.ofNat d.toNat = d := by simp

theorem hexVal_eq (d : UInt8) :
    hexVal d = if isHexDigit d then some (UInt8.ofNat (hexDigitVal d)) else none := by
  have := hexVal_table d.toNat d.toNat_lt
  rwa [ofNat_toNat] at this

theorem hexPairToChar_eq (h l : UInt8) :
    hexPairToChar h l =
      if isHexDigit h = true ∧ isHexDigit l = true then
        some (UInt8.ofNat (16 * hexDigitVal h + hexDigitVal l)) else none := by
  unfold hexPairToChar
  rw [hexVal_eq h, hexVal_eq l]
  by_cases hh : isHexDigit h = true
  · by_cases hl : isHexDigit l = true
    · have h1 : hexDigitVal h < 16 := by
        have := hexDigitVal_lt h.toNat h.toNat_lt; rw [ofNat_toNat] at this; exact this hh
      have h2 : hexDigitVal l < 16 := by
        have := hexDigitVal_lt l.toNat l.toNat_lt; rw [ofNat_toNat] at this; exact this hl
      simp only [hh, hl, if_true, and_self]
      rw [nibble_table _ h1 _ h2]
    · simp [hh, hl]
  · simp [hh]

/-- the model's escape test is the spec's, for a quoter built from the protected list -/
theorem escapeAt_eq_spec {prot : Bytes} {q : Quoter} (hq : Quoter.mk? prot = some q) (s : Bytes) :
    (q.escapeAt s).map (·.1) = escapeSpec prot s := by
  match s with
  | [] => simp [Quoter.escapeAt, escapeSpec]
  | [a] => simp [Quoter.escapeAt, escapeSpec]
  | [a, b] => simp [Quoter.escapeAt, escapeSpec]
  | a :: b :: c :: x =>
    rw [escapeAt_cons3, escapeSpec_cons3]
    by_cases ha : a = 37
    · rw [if_pos ha, hexPairToChar_eq]
      by_cases hd : isHexDigit b = true ∧ isHexDigit c = true
      · rw [if_pos hd, if_pos ⟨ha, hd⟩]
        simp only
        rw [isProtected_mk hq]
        by_cases hm : UInt8.ofNat (16 * hexDigitVal b + hexDigitVal c) ∈ prot
        · have : List.contains prot (UInt8.ofNat (16 * hexDigitVal b + hexDigitVal c)) = true :=
            List.contains_iff_mem.mpr hm
          rw [if_pos hm, if_pos this]; rfl
        · have : ¬ List.contains prot (UInt8.ofNat (16 * hexDigitVal b + hexDigitVal c)) = true :=
            fun h => hm (List.contains_iff_mem.mp h)
          rw [if_neg hm, if_neg this]; rfl
      · rw [if_neg hd, if_neg (fun h => hd h.2)]; rfl
    · rw [if_neg ha, if_neg (fun h => ha h.1)]; rfl

theorem decodeAll_eq_spec {prot : Bytes} {q : Quoter} (hq : Quoter.mk? prot = some q) (s : Bytes) :
    q.decodeAll s = decodeSpec prot s := by
  induction hn : s.length using Nat.strongRecOn generalizing s with
  | _ n ih =>
  cases s with
  | nil => rw [decodeAll_nil, decodeSpec]
  | cons b rest =>
    have hs := escapeAt_eq_spec hq (b :: rest)
    rw [decodeSpec]
    cases he : q.escapeAt (b :: rest) with
    | some p =>
      obtain ⟨ch, rem⟩ := p
      rw [he] at hs
      simp only [Option.map_some] at hs
      rw [← hs, decodeAll_cons_some he]
      have hd := escapeAt_drop he
      simp only [List.drop_succ_cons] at hd
      subst hd
      simp only
      rw [ih _ (by subst hn; simp only [List.length_drop, List.length_cons]; omega) _ rfl]
    | none =>
      rw [he] at hs
      simp only [Option.map_none] at hs
      rw [← hs, decodeAll_cons_none he]
      simp only
      rw [ih _ (by subst hn; simp) _ rfl]

end ActixModel.C10
