import ActixModel.Model.Range
/-
Helper lemmas for C16 (range side): every range `http_range` returns lies inside the file and
is empty only for an empty file; no checked operation fails; `ChunkedReadFile` emits exactly
`file[offset .. offset+size]` in chunks of 1..=65536 bytes.
-/
namespace ActixModel.Range
open ActixModel.Util ActixModel.Files

/-- a range returned for a file of `size` bytes: inside the file; empty only if the file is -/
def RangeOk (size : Nat) (r : HttpRange) : Prop :=
  r.start + r.length ≤ size ∧ (r.length = 0 → size = 0)

def SinglePost (size : Nat) : Single → Prop
  | .range r => RangeOk size r
  | .panic => False
  | _ => True

theorem parseSingleRange_spec (bytes : Bytes) (size : Nat) (hs : size ≤ u64Max) :
    SinglePost size (parseSingleRange bytes size) := by
  unfold parseSingleRange
  split
  · trivial
  · simp only
    split
    · -- suffix
      split
      · trivial
      · split
        · trivial
        · rename_i length _
          split
          · trivial
          · rename_i hl0
            by_cases hgt : length > size
            · simp [hgt, checkedSub, SinglePost, RangeOk]
            · have : length ≤ size := by omega
              simp [hgt, checkedSub, this, SinglePost, RangeOk]
              omega
    · split
      · trivial
      · rename_i start _
        split
        · trivial
        · rename_i hlt
          split
          · simp only [checkedSub]
            have : start ≤ size := by omega
            simp [this, SinglePost, RangeOk]
            omega
          · split
            · trivial
            · rename_i end_ _
              split
              · trivial
              · rename_i hse
                by_cases hge : end_ ≥ size
                · simp only [hge, if_true, checkedSub, checkedAdd]
                  have h1 : 1 ≤ size := by omega
                  have h2 : start ≤ size - 1 := by omega
                  have h3 : size - 1 - start + 1 ≤ u64Max := by omega
                  simp [h1, h2, h3, SinglePost, RangeOk]
                  omega
                · simp only [hge, if_false, checkedSub, checkedAdd]
                  have h2 : start ≤ end_ := by omega
                  have h3 : end_ - start + 1 ≤ u64Max := by omega
                  simp [h2, h3, SinglePost, RangeOk]
                  omega

def ParsePost (size : Nat) : ParseRes → Prop
  | .ok rs => ∀ r ∈ rs, RangeOk size r
  | .err _ => True
  | .panic => False

theorem parseLoop_spec (size : Nat) (hs : size ≤ u64Max) : ∀ (pieces : List Bytes) (acc : List HttpRange) (no : Bool),
    (∀ r ∈ acc, RangeOk size r) → ParsePost size (parseLoop size pieces acc no) := by
  intro pieces
  induction pieces with
  | nil =>
    intro acc no hacc
    simp only [parseLoop]
    split
    · trivial
    · simpa [ParsePost] using hacc
  | cons ra rest ih =>
    intro acc no hacc
    simp only [parseLoop]
    split
    · exact ih acc no hacc
    · have hsingle := parseSingleRange_spec (trim ra) size hs
      split
      · rename_i r heq
        rw [heq] at hsingle
        apply ih
        intro r' hr'
        simp only [List.mem_cons] at hr'
        rcases hr' with rfl | h
        · exact hsingle
        · exact hacc r' h
      · exact ih acc true hacc
      · trivial
      · rename_i heq
        rw [heq] at hsingle
        exact hsingle

theorem parse_spec (header : Bytes) (size : Nat) (hs : size ≤ u64Max) :
    ParsePost size (parse header size) := by
  unfold parse
  split
  · simp [ParsePost]
  · split
    · trivial
    · exact parseLoop_spec size hs _ [] false (by simp)

/-- what one comma separated piece contributes: nothing (blank or no overlap) or one range -/
def pieceRange (size : Nat) (piece : Bytes) : Option HttpRange :=
  if (trim piece).isEmpty then none
  else
    match parseSingleRange (trim piece) size with
    | .range r => some r
    | _ => none

/-- if `parseLoop` succeeds, the ranges are those of the pieces, in header order -/
theorem parseLoop_order (size : Nat) : ∀ (pieces : List Bytes) (acc : List HttpRange) (no : Bool) (rs : List HttpRange),
    parseLoop size pieces acc no = .ok rs → rs = acc.reverse ++ pieces.filterMap (pieceRange size) := by
  intro pieces
  induction pieces with
  | nil =>
    intro acc no rs h
    simp only [parseLoop] at h
    split at h
    · cases h
    · cases h; simp
  | cons ra rest ih =>
    intro acc no rs h
    simp only [parseLoop] at h
    simp only [List.filterMap_cons, pieceRange]
    split at h
    · rename_i he
      simp only [he, if_true]
      exact ih acc no rs h
    · rename_i he
      simp only [he, if_false]
      split at h
      · rename_i r heq
        simp only [heq]
        have := ih (r :: acc) no rs h
        simpa using this
      · rename_i heq
        simp only [heq]
        exact ih acc true rs h
      · cases h
      · cases h

/-! ### ChunkedReadFile -/

theorem take_drop_add {α : Type} (l : List α) (a n m : Nat) :
    (l.drop a).take n ++ (l.drop (a + n)).take m = (l.drop a).take (n + m) := by
  rw [← List.drop_drop, List.take_add]

/-- invariant-carrying statement for `readAll`: with `counter ≤ size`, enough file behind the
offset and enough fuel, the stream ends cleanly after emitting exactly the next
`size - counter` bytes, in chunks of 1..=filesChunkSize bytes -/
theorem readAll_exact (file : Bytes) : ∀ (fuel : Nat) (st : Chunked),
    st.counter ≤ st.size → st.offset + (st.size - st.counter) ≤ file.length →
    st.size - st.counter < fuel →
    (readAll file fuel st).2 = true ∧
    (readAll file fuel st).1.flatten = (file.drop st.offset).take (st.size - st.counter) ∧
    ∀ c ∈ (readAll file fuel st).1, 0 < c.length ∧ c.length ≤ Consts.filesChunkSize := by
  intro fuel
  induction fuel with
  | zero => intro st _ _ h; omega
  | succ fuel ih =>
    intro st hc hlen hfuel
    unfold readAll pollNext
    by_cases hdone : st.size = st.counter
    · simp [hdone]
    · simp only [hdone, if_false]
      have hrem : 0 < st.size - st.counter := by omega
      have hK : 0 < Consts.filesChunkSize := by decide
      have hdl : ((file.drop st.offset).take (min (st.size - st.counter) Consts.filesChunkSize)).length
          = min (st.size - st.counter) Consts.filesChunkSize := by
        rw [List.length_take, List.length_drop]; omega
      have hne : ((file.drop st.offset).take (min (st.size - st.counter) Consts.filesChunkSize)).isEmpty = false := by
        rw [List.isEmpty_eq_false_iff, ← List.length_pos_iff, hdl]; omega
      simp only [hne]
      simp only [Bool.false_eq_true, if_false, hdl]
      have := ih ⟨st.size, st.offset + min (st.size - st.counter) Consts.filesChunkSize,
        st.counter + min (st.size - st.counter) Consts.filesChunkSize⟩
        (by simp only; omega) (by simp only; omega) (by simp only; omega)
      simp only at this
      obtain ⟨h1, h2, h3⟩ := this
      refine ⟨h1, ?_, ?_⟩
      · simp only [List.flatten_cons, h2]
        have e : st.size - (st.counter + min (st.size - st.counter) Consts.filesChunkSize)
            = (st.size - st.counter) - min (st.size - st.counter) Consts.filesChunkSize := by omega
        rw [e, take_drop_add]
        congr 1
        omega
      · intro c hcm
        simp only [List.mem_cons] at hcm
        rcases hcm with rfl | hcm
        · rw [hdl]; omega
        · exact h3 c hcm

theorem readBody_exact (file : Bytes) (size offset : Nat) (h : offset + size ≤ file.length) :
    (readBody file size offset).2 = true ∧
    (readBody file size offset).1.flatten = (file.drop offset).take size ∧
    ∀ c ∈ (readBody file size offset).1, 0 < c.length ∧ c.length ≤ Consts.filesChunkSize := by
  have := readAll_exact file (size + 1) ⟨size, offset, 0⟩ (by simp) (by simpa using h) (by simp)
  simpa [readBody] using this

end ActixModel.Range
