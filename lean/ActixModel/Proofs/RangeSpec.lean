import ActixModel.Proofs.Range
import ActixModel.Proofs.PathBuf
/-
C16 helper: the range parser against the grammar of RFC 7233 for the three canonical shapes
`bytes=A-B`, `bytes=A-`, `bytes=-N` (A, B, N arbitrary non-empty digit strings, leading zeros
allowed): exact result in terms of the decimal values.
-/
namespace ActixModel.Range
open ActixModel.Util ActixModel.Files

/-- decimal value of a digit string (Horner) -/
def decValAcc (acc : Nat) (ds : Bytes) : Nat := ds.foldl (fun a d => a * 10 + (d - 0x30).toNat) acc
def decVal (ds : Bytes) : Nat := decValAcc 0 ds

def IsDigits (ds : Bytes) : Prop := ds ≠ [] ∧ ∀ d ∈ ds, isDigit d = true

theorem decValAcc_ge (acc : Nat) (ds : Bytes) : acc ≤ decValAcc acc ds := by
  induction ds generalizing acc with
  | nil => simp [decValAcc]
  | cons d rest ih =>
    simp only [decValAcc, List.foldl_cons] at ih ⊢
    have := ih (acc * 10 + (d - 0x30).toNat)
    omega

theorem parseU64Loop_exact (ds : Bytes) (hd : ∀ d ∈ ds, isDigit d = true) (acc : Nat) (hacc : acc ≤ u64Max) :
    parseU64Loop ds acc = if decValAcc acc ds ≤ u64Max then some (decValAcc acc ds) else none := by
  induction ds generalizing acc with
  | nil => simp [parseU64Loop, decValAcc, hacc]
  | cons d rest ih =>
    have hdd := hd d (List.mem_cons_self ..)
    have hrest : ∀ x ∈ rest, isDigit x = true := fun x h => hd x (List.mem_cons_of_mem _ h)
    simp only [parseU64Loop, hdd, if_true, decValAcc, List.foldl_cons]
    have hge := decValAcc_ge (acc * 10 + (d - 0x30).toNat) rest
    simp only [decValAcc] at hge
    simp only [checkedMul]
    by_cases h1 : acc * 10 ≤ u64Max
    · simp only [h1, if_true, checkedAdd]
      by_cases h2 : acc * 10 + (d - 0x30).toNat ≤ u64Max
      · simp only [h2, if_true]
        have := ih hrest (acc * 10 + (d - 0x30).toNat) h2
        simp only [decValAcc] at this
        exact this
      · simp only [h2, if_false]
        have : ¬ List.foldl (fun a d => a * 10 + (d - 0x30).toNat) (acc * 10 + (d - 0x30).toNat) rest ≤ u64Max := by omega
        simp [this]
    · simp only [h1, if_false]
      have : ¬ List.foldl (fun a d => a * 10 + (d - 0x30).toNat) (acc * 10 + (d - 0x30).toNat) rest ≤ u64Max := by omega
      simp [this]

/-- `parse_u64` on a digit string is its decimal value, or an error exactly when that value
does not fit `u64` (the `checked_mul`/`checked_add` chain loses nothing) -/
theorem parseU64_exact (ds : Bytes) (hd : IsDigits ds) :
    parseU64 ds = if decVal ds ≤ u64Max then some (decVal ds) else none := by
  unfold parseU64
  have : ds.isEmpty = false := by simpa using hd.1
  simp only [this, Bool.false_eq_true, if_false]
  exact parseU64Loop_exact ds hd.2 0 (by decide)

theorem digit_not_ws {d : UInt8} (h : isDigit d = true) : isWs d = false := by
  simp only [isDigit, Bool.and_eq_true, decide_eq_true_eq] at h
  simp only [isWs, Bool.or_eq_false_iff, decide_eq_false_iff_not]
  constructor
  · intro e; rw [e] at h; exact absurd h.1 (by decide)
  · intro e; rw [e] at h; exact absurd h.1 (by decide)

theorem digit_ne {d c : UInt8} (h : isDigit d = true) (hc : isDigit c = false) : d ≠ c := by
  intro e; rw [e] at h; rw [h] at hc; cases hc

theorem dropWhile_of_all_false {α : Type} (p : α → Bool) (l : List α) (h : ∀ x ∈ l, p x = false) :
    l.dropWhile p = l := by
  cases l with
  | nil => rfl
  | cons a t => simp [h a (List.mem_cons_self ..)]

theorem trim_of_no_ws (bs : Bytes) (h : ∀ b ∈ bs, isWs b = false) : trim bs = bs := by
  unfold trim
  rw [dropWhile_of_all_false _ _ h, dropWhile_of_all_false _ _ (fun x hx => h x (List.mem_reverse.mp hx))]
  simp

theorem trim_digits (ds : Bytes) (h : ∀ d ∈ ds, isDigit d = true) : trim ds = ds :=
  trim_of_no_ws ds (fun b hb => digit_not_ws (h b hb))

theorem splitFirst_append (c : UInt8) (a b : Bytes) (h : c ∉ a) :
    splitFirst c (a ++ c :: b) = (a, some b) := by
  induction a with
  | nil => simp [splitFirst]
  | cons x t ih =>
    simp only [List.mem_cons, not_or] at h
    have hx : ¬ x = c := fun e => h.1 e.symm
    simp [splitFirst, hx, ih h.2]

theorem splitFirst_none (c : UInt8) (a : Bytes) (h : c ∉ a) : splitFirst c a = (a, none) := by
  induction a with
  | nil => simp [splitFirst]
  | cons x t ih =>
    simp only [List.mem_cons, not_or] at h
    have hx : ¬ x = c := fun e => h.1 e.symm
    simp [splitFirst, hx, ih h.2]

theorem digits_not_mem {ds : Bytes} (h : ∀ d ∈ ds, isDigit d = true) {c : UInt8} (hc : isDigit c = false) : c ∉ ds :=
  fun hm => by rw [h c hm] at hc; cases hc

theorem isDigit_dash : isDigit 0x2D = false := by decide
theorem isDigit_comma : isDigit 0x2C = false := by decide

/-- `A-B` -/
theorem single_first_last (A B : Bytes) (hA : IsDigits A) (hB : IsDigits B) (size : Nat) (hs : size ≤ u64Max) :
    parseSingleRange (A ++ 0x2D :: B) size =
      if decVal A > u64Max then .invalid
      else if decVal A ≥ size then .noOverlap
      else if decVal B > u64Max then .invalid
      else if decVal A > decVal B then .invalid
      else .range ⟨decVal A, min (decVal B) (size - 1) - decVal A + 1⟩ := by
  unfold parseSingleRange
  rw [splitFirst_append _ _ _ (digits_not_mem hA.2 isDigit_dash)]
  simp only [trim_digits A hA.2, trim_digits B hB.2]
  have hAe : A.isEmpty = false := by simpa using hA.1
  have hBe : B.isEmpty = false := by simpa using hB.1
  simp only [hAe, hBe, Bool.false_eq_true, if_false, parseU64_exact A hA, parseU64_exact B hB]
  by_cases h1 : decVal A ≤ u64Max
  · have h1' : ¬ decVal A > u64Max := by omega
    simp only [h1, h1', if_true, if_false]
    by_cases h2 : decVal A ≥ size
    · simp [h2]
    · simp only [h2, if_false]
      by_cases h3 : decVal B ≤ u64Max
      · have h3' : ¬ decVal B > u64Max := by omega
        simp only [h3, h3', if_true, if_false]
        by_cases h4 : decVal A > decVal B
        · simp [h4]
        · simp only [h4, if_false]
          by_cases h5 : decVal B ≥ size
          · have e1 : 1 ≤ size := by omega
            have e2 : decVal A ≤ size - 1 := by omega
            have e3 : size - 1 - decVal A + 1 ≤ u64Max := by omega
            have e4 : min (decVal B) (size - 1) = size - 1 := by omega
            simp [h5, checkedSub, checkedAdd, e1, e2, e3, e4]
          · have e2 : decVal A ≤ decVal B := by omega
            have e3 : decVal B - decVal A + 1 ≤ u64Max := by omega
            have e4 : min (decVal B) (size - 1) = decVal B := by omega
            simp [h5, checkedSub, checkedAdd, e2, e3, e4]
      · have h3' : decVal B > u64Max := by omega
        simp [h3, h3']
  · have h1' : decVal A > u64Max := by omega
    simp [h1, h1']

/-- `A-` -/
theorem single_first_open (A : Bytes) (hA : IsDigits A) (size : Nat) :
    parseSingleRange (A ++ [0x2D]) size =
      if decVal A > u64Max then .invalid
      else if decVal A ≥ size then .noOverlap
      else .range ⟨decVal A, size - decVal A⟩ := by
  unfold parseSingleRange
  rw [splitFirst_append _ _ _ (digits_not_mem hA.2 isDigit_dash)]
  have hAe : A.isEmpty = false := by simpa using hA.1
  have ht : trim ([] : Bytes) = [] := rfl
  simp only [trim_digits A hA.2, ht, hAe, Bool.false_eq_true, if_false, parseU64_exact A hA, List.isEmpty_nil, if_true]
  by_cases h1 : decVal A ≤ u64Max
  · have h1' : ¬ decVal A > u64Max := by omega
    simp only [h1, h1', if_true, if_false]
    by_cases h2 : decVal A ≥ size
    · simp [h2]
    · have : decVal A ≤ size := by omega
      simp [h2, checkedSub, this]
  · have h1' : decVal A > u64Max := by omega
    simp [h1, h1']

/-- `-N` -/
theorem single_suffix (N : Bytes) (hN : IsDigits N) (size : Nat) :
    parseSingleRange (0x2D :: N) size =
      if decVal N > u64Max then .invalid
      else if decVal N = 0 then .noOverlap
      else .range ⟨size - min (decVal N) size, min (decVal N) size⟩ := by
  unfold parseSingleRange
  have hsf : splitFirst 0x2D (0x2D :: N) = ([], some N) := by simp [splitFirst]
  have ht : trim ([] : Bytes) = [] := rfl
  have hNe : N.isEmpty = false := by simpa using hN.1
  have hhead : N.head? ≠ some 0x2D := by
    intro h
    have : (0x2D : UInt8) ∈ N := List.mem_of_mem_head? h
    exact digits_not_mem hN.2 isDigit_dash this
  simp only [hsf, ht, trim_digits N hN.2, List.isEmpty_nil, if_true, hNe, hhead, decide_false, Bool.or_self,
    Bool.false_eq_true, if_false, parseU64_exact N hN]
  by_cases h1 : decVal N ≤ u64Max
  · have h1' : ¬ decVal N > u64Max := by omega
    simp only [h1, h1', if_true, if_false]
    by_cases h2 : decVal N = 0
    · simp [h2]
    · simp only [h2, if_false]
      by_cases h3 : decVal N > size
      · have e : min (decVal N) size = size := by omega
        simp [h3, checkedSub, e]
      · have e : min (decVal N) size = decVal N := by omega
        have e2 : decVal N ≤ size := by omega
        simp [h3, checkedSub, e, e2]
  · have h1' : decVal N > u64Max := by omega
    simp [h1, h1']

/-- a header consisting of the prefix and one spec without commas and without blanks at its ends -/
theorem parse_one_spec (spec : Bytes) (size : Nat) (hne : spec ≠ []) (hc : (0x2C : UInt8) ∉ spec)
    (hw : ∀ b ∈ spec, isWs b = false) :
    parse (bytesPrefix ++ spec) size =
      match parseSingleRange spec size with
      | .range r => .ok [r]
      | .noOverlap => .err .noOverlap
      | .invalid => .err .invalidRange
      | .panic => .panic := by
  unfold parse
  have h1 : (bytesPrefix ++ spec).isEmpty = false := by simp [bytesPrefix]
  have h2 : bytesPrefix.isPrefixOf (bytesPrefix ++ spec) = true := by
    rw [List.isPrefixOf_iff_prefix]; exact List.prefix_append _ _
  have h3 : (bytesPrefix ++ spec).drop 6 = spec := by
    have : bytesPrefix.length = 6 := rfl
    rw [← this, List.drop_left]
  simp only [h1, h2, h3, Bool.false_eq_true, if_false, Bool.not_true]
  rw [splitOn_single _ _ hc]
  have hse : spec.isEmpty = false := by simpa using hne
  simp only [parseLoop, trim_of_no_ws spec hw, hse, Bool.false_eq_true, if_false]
  cases parseSingleRange spec size <;> simp [parseLoop]

theorem mem_dash_digits {A B : Bytes} (hA : IsDigits A) (hB : IsDigits B) {b : UInt8}
    (hb : b ∈ A ++ 0x2D :: B) : isDigit b = true ∨ b = 0x2D := by
  simp only [List.mem_append, List.mem_cons] at hb
  rcases hb with h | h | h
  · exact Or.inl (hA.2 b h)
  · exact Or.inr h
  · exact Or.inl (hB.2 b h)

theorem dash_digits_no_comma {s : Bytes} (h : ∀ b ∈ s, isDigit b = true ∨ b = 0x2D) : (0x2C : UInt8) ∉ s := by
  intro hm
  rcases h _ hm with h | h
  · exact absurd h (by decide)
  · exact absurd h (by decide)

theorem dash_digits_no_ws {s : Bytes} (h : ∀ b ∈ s, isDigit b = true ∨ b = 0x2D) : ∀ b ∈ s, isWs b = false := by
  intro b hb
  rcases h b hb with h | h
  · exact digit_not_ws h
  · rw [h]; decide


end ActixModel.Range
