import ActixModel.Model.ReqPool
/-
Helper lemmas for C11 (`Props/C11.lean`): association-list facts for the heap and the handle
table, the clean/root-first predicates, and the world invariant with its preservation by every
primitive of the model.  Core Lean only.
-/
namespace ActixModel.ReqPool

/-! ### association lists -/

theorem lookup_filter_key {α : Type} (p : Nat → Bool) (l : List (Nat × α)) (k : Nat) :
    (l.filter (fun e => p e.1)).lookup k = if p k then l.lookup k else none := by
  induction l with
  | nil => simp
  | cons e t ih =>
    obtain ⟨a, b⟩ := e
    by_cases hp : p a
    · simp only [List.filter_cons, hp, if_true, List.lookup_cons]
      by_cases hk : k = a
      · subst hk; simp [hp]
      · have : (k == a) = false := by simpa using hk
        simp [this, ih]
    · simp only [List.filter_cons, hp, List.lookup_cons]
      by_cases hk : k = a
      · subst hk; simp [hp, ih]
      · have : (k == a) = false := by simpa using hk
        simp [this, ih]

theorem lookup_mem {α : Type} (l : List (Nat × α)) (k : Nat) (v : α) (h : l.lookup k = some v) :
    (k, v) ∈ l := by
  induction l with
  | nil => simp at h
  | cons e t ih =>
    obtain ⟨a, b⟩ := e
    simp only [List.lookup_cons] at h
    by_cases hk : k = a
    · subst hk; simp at h; subst h; simp
    · have : (k == a) = false := by simpa using hk
      simp [this] at h
      exact List.mem_cons_of_mem _ (ih h)

theorem lookup_none_not_mem {α : Type} (l : List (Nat × α)) (k : Nat) (h : l.lookup k = none) :
    ∀ e ∈ l, e.1 ≠ k := by
  induction l with
  | nil => simp
  | cons e t ih =>
    obtain ⟨a, b⟩ := e
    rw [List.lookup_cons] at h
    by_cases hk : k = a
    · subst hk; simp at h
    · have : (k == a) = false := by simpa using hk
      rw [this] at h
      intro e he
      rcases List.mem_cons.mp he with rfl | he
      · exact fun h' => hk h'.symm
      · exact ih h e he

theorem Heap.get_set (h : Heap) (a b : Nat) (i : Inner) :
    (h.set a i).get b = if b = a then some i else h.get b := by
  unfold Heap.set Heap.get Heap.erase
  by_cases hb : b = a
  · subst hb; simp
  · have : (b == a) = false := by simpa using hb
    simp only [List.lookup_cons, this, hb, if_false]
    rw [lookup_filter_key (fun k => k != a)]
    simp [hb]

theorem Heap.get_erase (h : Heap) (a b : Nat) :
    (h.erase a).get b = if b = a then none else h.get b := by
  unfold Heap.get Heap.erase
  rw [lookup_filter_key (fun k => k != a)]
  by_cases hb : b = a <;> simp [hb]

theorem Heap.get_filter (h : Heap) (p : Nat → Bool) (b : Nat) :
    Heap.get (h.filter (fun e => p e.1)) b = if p b then h.get b else none := by
  unfold Heap.get
  exact lookup_filter_key p h b

/-! ### handles -/

/-- some handle is bound to allocation `id` (`Rc::strong_count ≥ 1` through handles) -/
def Bound (slots : List (Nat × Nat)) (id : Nat) : Prop := ∃ e ∈ slots, e.2 = id

theorem count_eq_zero_iff (slots : List (Nat × Nat)) (id : Nat) :
    count slots id = 0 ↔ ¬ Bound slots id := by
  unfold count Bound
  simp only [List.length_eq_zero_iff, List.filter_eq_nil_iff, beq_iff_eq]
  constructor
  · rintro h ⟨e, he, rfl⟩; exact h e he rfl
  · intro h e he heq; exact h ⟨e, he, heq⟩

theorem mem_eraseSlot {slots : List (Nat × Nat)} {s : Nat} {e : Nat × Nat} :
    e ∈ eraseSlot slots s ↔ e ∈ slots ∧ e.1 ≠ s := by
  unfold eraseSlot
  simp

/-! ### clean / root-first allocations -/

/-- what `HttpRequest::drop` leaves in a pooled allocation -/
def Clean (cfg : Cfg) (i : Inner) : Prop :=
  i.appData = [cfg.root] ∧ i.extensions = [] ∧ i.connData = none

/-- the application-level container is the first element of `app_data` -/
def RootFirst (cfg : Cfg) (i : Inner) : Prop := ∃ rest, i.appData = cfg.root :: rest

theorem recycle_clean {cfg : Cfg} {i : Inner} (h : RootFirst cfg i) : Clean cfg (recycle i) := by
  obtain ⟨rest, hr⟩ := h
  simp [Clean, recycle, hr]

theorem fresh_rootFirst (cfg : Cfg) (r : Req) : RootFirst cfg (fresh cfg.root r) := ⟨[], rfl⟩

theorem reinit_appData (i : Inner) (r : Req) : (reinit i r).appData = i.appData := rfl

theorem reinit_rootFirst {cfg : Cfg} {i : Inner} (r : Req) (h : RootFirst cfg i) :
    RootFirst cfg (reinit i r) := h

theorem clean_rootFirst {cfg : Cfg} {i : Inner} (h : Clean cfg i) : RootFirst cfg i := ⟨[], h.1⟩

/-- the heart of C11: re-initialising a clean pooled allocation gives exactly the allocation a
brand-new `HttpRequest::new` would build — every field, hence every observation -/
theorem reinit_eq_fresh {cfg : Cfg} {i : Inner} (r : Req) (h : Clean cfg i) :
    reinit i r = fresh cfg.root r := by
  obtain ⟨ha, _, _⟩ := h
  cases i
  simp_all [reinit, fresh, PathSt.update, PathSt.reset, PathSt.new]

theorem pushData_rootFirst {cfg : Cfg} {i : Inner} (d : Option Nat) (h : RootFirst cfg i) :
    RootFirst cfg (pushData i d) := by
  obtain ⟨rest, hr⟩ := h
  cases d with
  | none => exact ⟨rest, hr⟩
  | some d => exact ⟨rest ++ [d], by simp [pushData, hr]⟩

theorem route_rootFirst (cfg : Cfg) (fuel : Nat) (kids : List Node) (i : Inner)
    (h : RootFirst cfg i) : RootFirst cfg (route cfg fuel kids i) := by
  induction fuel generalizing kids i with
  | zero => simpa [route] using h
  | succ n ih =>
    unfold route
    split
    · exact h
    · rename_i idx node ps _
      cases node with
      | res p nm g d => exact pushData_rootFirst d h
      | scope p d ks => exact ih _ _ (pushData_rootFirst d h)

theorem applyAct_appData (i : Inner) (a : Act) : (applyAct i a).appData = i.appData := by
  cases a <;> rfl

theorem foldl_applyAct_appData (acts : List Act) (i : Inner) :
    (acts.foldl applyAct i).appData = i.appData := by
  induction acts generalizing i with
  | nil => rfl
  | cons a t ih => simp [List.foldl, ih, applyAct_appData]

theorem runHandler_rootFirst (cfg : Cfg) (i : Inner) (acts : List Act) (h : RootFirst cfg i) :
    RootFirst cfg (runHandler cfg i acts).inner := by
  have h1 := route_rootFirst cfg (cfg.depth + 1) cfg.kids _ (pushData_rootFirst (cfg.mw i.head) h)
  obtain ⟨rest, hr⟩ := h1
  unfold runHandler
  split <;> exact ⟨rest, by simp [foldl_applyAct_appData, hr]⟩


/-! ### the world invariant -/

/-- Invariant of the heap/handle/pool machine.  `x` is an allocation that may momentarily have
no handle and not be pooled (between removing a handle and running its `Drop`). -/
structure InvX (cfg : Cfg) (w : World) (x : Option Nat) : Prop where
  poolNodup : w.pool.Nodup
  poolUnref : ∀ id ∈ w.pool, ¬ Bound w.slots id
  poolClean : ∀ id ∈ w.pool, ∃ i, w.heap.get id = some i ∧ Clean cfg i
  poolCap : w.pool.length ≤ w.cap
  live : ∀ e ∈ w.slots, ∃ i, w.heap.get e.2 = some i ∧ RootFirst cfg i
  heapLt : ∀ id i, w.heap.get id = some i → id < w.next
  noGarbage : ∀ id i, w.heap.get id = some i → x = some id ∨ id ∈ w.pool ∨ Bound w.slots id
  disabled : w.enabled = false → w.pool = []
  keysUniq : ∀ e ∈ w.slots, w.slots.lookup e.1 = some e.2
  exc : ∀ id, x = some id → id ∉ w.pool ∧ ∃ i, w.heap.get id = some i ∧ RootFirst cfg i

abbrev Inv (cfg : Cfg) (w : World) : Prop := InvX cfg w none

theorem init_inv (cfg : Cfg) (cap : Nat) : Inv cfg (World.init cap) where
  poolNodup := by simp [World.init]
  poolUnref := by simp [World.init]
  poolClean := by simp [World.init]
  poolCap := by simp [World.init]
  live := by simp [World.init]
  heapLt := by simp [World.init, Heap.get]
  noGarbage := by simp [World.init, Heap.get]
  disabled := by simp [World.init]
  keysUniq := by simp [World.init]
  exc := by simp

theorem dropHandle_slots (w : World) (id : Nat) : (dropHandle w id).slots = w.slots := by
  unfold dropHandle
  split
  · rfl
  · split
    · split <;> rfl
    · rfl

theorem dropHandle_inv {cfg : Cfg} {w : World} {id : Nat} (h : InvX cfg w (some id)) :
    Inv cfg (dropHandle w id) := by
  obtain ⟨hnp, i, hgi, hrf⟩ := h.exc id rfl
  unfold dropHandle
  split
  · -- other handles exist
    rename_i hc
    have hb : Bound w.slots id := by
      apply Classical.byContradiction
      intro hn
      have := (count_eq_zero_iff w.slots id).mpr hn
      simp [this] at hc
    exact { h with
      noGarbage := by
        intro id' i' hg
        rcases h.noGarbage id' i' hg with hx | hp | hb'
        · cases hx; exact Or.inr (Or.inr hb)
        · exact Or.inr (Or.inl hp)
        · exact Or.inr (Or.inr hb')
      exc := by simp }
  · rename_i hc
    have hnb : ¬ Bound w.slots id := by
      apply (count_eq_zero_iff w.slots id).mp
      simpa using hc
    split
    · rename_i hav
      simp only [Bool.and_eq_true, decide_eq_true_eq] at hav
      rw [hgi]
      exact {
        poolNodup := List.nodup_cons.mpr ⟨hnp, h.poolNodup⟩
        poolUnref := by
          intro id' hm
          rcases List.mem_cons.mp hm with rfl | hm
          · exact hnb
          · exact h.poolUnref id' hm
        poolClean := by
          intro id' hm
          show ∃ i', (w.heap.set id (recycle i)).get id' = some i' ∧ Clean cfg i'
          rw [Heap.get_set]
          rcases List.mem_cons.mp hm with rfl | hm
          · exact ⟨_, by simp, recycle_clean hrf⟩
          · have : id' ≠ id := fun e => hnp (e ▸ hm)
            simpa [this] using h.poolClean id' hm
        poolCap := by simp only [List.length_cons]; omega
        live := by
          intro e he
          show ∃ i', (w.heap.set id (recycle i)).get e.2 = some i' ∧ RootFirst cfg i'
          have : e.2 ≠ id := fun eq => hnb ⟨e, he, eq⟩
          rw [Heap.get_set]; simpa [this] using h.live e he
        heapLt := by
          intro id' i' hg
          change (w.heap.set id (recycle i)).get id' = some i' at hg
          rw [Heap.get_set] at hg
          by_cases e : id' = id
          · subst e; exact h.heapLt _ _ hgi
          · simp [e] at hg; exact h.heapLt _ _ hg
        noGarbage := by
          intro id' i' hg
          change (w.heap.set id (recycle i)).get id' = some i' at hg
          rw [Heap.get_set] at hg
          by_cases e : id' = id
          · subst e; exact Or.inr (Or.inl (List.mem_cons_self))
          · simp [e] at hg
            rcases h.noGarbage id' i' hg with hx | hp | hb'
            · cases hx; exact absurd rfl e
            · exact Or.inr (Or.inl (List.mem_cons_of_mem _ hp))
            · exact Or.inr (Or.inr hb')
        disabled := by intro hd; simp [hav.1] at hd
        keysUniq := h.keysUniq
        exc := by simp }
    · exact {
        poolNodup := h.poolNodup
        poolUnref := h.poolUnref
        poolClean := by
          intro id' hm
          show ∃ i', (w.heap.erase id).get id' = some i' ∧ Clean cfg i'
          have : id' ≠ id := fun e => hnp (e ▸ hm)
          rw [Heap.get_erase]; simpa [this] using h.poolClean id' hm
        poolCap := h.poolCap
        live := by
          intro e he
          show ∃ i', (w.heap.erase id).get e.2 = some i' ∧ RootFirst cfg i'
          have : e.2 ≠ id := fun eq => hnb ⟨e, he, eq⟩
          rw [Heap.get_erase]; simpa [this] using h.live e he
        heapLt := by
          intro id' i' hg
          change (w.heap.erase id).get id' = some i' at hg
          rw [Heap.get_erase] at hg
          by_cases e : id' = id
          · simp [e] at hg
          · simp [e] at hg; exact h.heapLt _ _ hg
        noGarbage := by
          intro id' i' hg
          change (w.heap.erase id).get id' = some i' at hg
          rw [Heap.get_erase] at hg
          by_cases e : id' = id
          · simp [e] at hg
          · simp [e] at hg
            rcases h.noGarbage id' i' hg with hx | hp | hb'
            · cases hx; exact absurd rfl e
            · exact Or.inr (Or.inl hp)
            · exact Or.inr (Or.inr hb')
        disabled := h.disabled
        keysUniq := h.keysUniq
        exc := by simp }

/-- a bound allocation may serve as the exception -/
theorem inv_weaken {cfg : Cfg} {w : World} {id : Nat} (h : Inv cfg w) (hb : Bound w.slots id) :
    InvX cfg w (some id) :=
  { h with
    noGarbage := by
      intro id' i' hg
      rcases h.noGarbage id' i' hg with hx | hp | hb'
      · cases hx
      · exact Or.inr (Or.inl hp)
      · exact Or.inr (Or.inr hb')
    exc := by
      intro id' he
      cases he
      obtain ⟨e, he, rfl⟩ := hb
      exact ⟨fun hp => h.poolUnref _ hp ⟨e, he, rfl⟩, h.live e he⟩ }

/-- removing the handle held in slot `s` -/
theorem unbind_inv {cfg : Cfg} {w : World} {s id : Nat} (h : Inv cfg w)
    (hl : w.slots.lookup s = some id) :
    InvX cfg { w with slots := eraseSlot w.slots s } (some id) := by
  have hm : (s, id) ∈ w.slots := lookup_mem _ _ _ hl
  have sub : ∀ id', Bound (eraseSlot w.slots s) id' → Bound w.slots id' := by
    rintro id' ⟨e, he, rfl⟩; exact ⟨e, (mem_eraseSlot.mp he).1, rfl⟩
  exact {
    poolNodup := h.poolNodup
    poolUnref := fun id' hp hb => h.poolUnref id' hp (sub id' hb)
    poolClean := h.poolClean
    poolCap := h.poolCap
    live := fun e he => h.live e (mem_eraseSlot.mp he).1
    heapLt := h.heapLt
    noGarbage := by
      intro id' i' hg
      rcases h.noGarbage id' i' hg with hx | hp | ⟨e, he, rfl⟩
      · cases hx
      · exact Or.inr (Or.inl hp)
      · by_cases hs : e.1 = s
        · have := h.keysUniq e he
          rw [hs, hl] at this
          exact Or.inl (by simpa using this)
        · exact Or.inr (Or.inr ⟨e, mem_eraseSlot.mpr ⟨he, hs⟩, rfl⟩)
    disabled := h.disabled
    keysUniq := by
      intro e he
      obtain ⟨he, hs⟩ := mem_eraseSlot.mp he
      show (eraseSlot w.slots s).lookup e.1 = some e.2
      unfold eraseSlot
      rw [lookup_filter_key (fun k => k != s)]
      simpa [hs] using h.keysUniq e he
    exc := by
      intro id' he
      cases he
      exact ⟨fun hp => h.poolUnref _ hp ⟨_, hm, rfl⟩, h.live _ hm⟩ }

/-- binding slot `s` to a new handle of the exception `id`; the previous occupant becomes the
exception -/
theorem bind_inv {cfg : Cfg} {w : World} {s id : Nat} (h : InvX cfg w (some id)) :
    InvX cfg { w with slots := (s, id) :: eraseSlot w.slots s } (w.slots.lookup s) := by
  obtain ⟨hnp, i, hgi, hrf⟩ := h.exc id rfl
  exact {
    poolNodup := h.poolNodup
    poolUnref := by
      rintro id' hp ⟨e, he, rfl⟩
      rcases List.mem_cons.mp he with rfl | he
      · exact hnp hp
      · exact h.poolUnref _ hp ⟨e, (mem_eraseSlot.mp he).1, rfl⟩
    poolClean := h.poolClean
    poolCap := h.poolCap
    live := by
      intro e he
      rcases List.mem_cons.mp he with rfl | he
      · exact ⟨i, hgi, hrf⟩
      · exact h.live e (mem_eraseSlot.mp he).1
    heapLt := h.heapLt
    noGarbage := by
      intro id' i' hg
      rcases h.noGarbage id' i' hg with hx | hp | ⟨e, he, rfl⟩
      · cases hx; exact Or.inr (Or.inr ⟨(s, _), List.mem_cons_self, rfl⟩)
      · exact Or.inr (Or.inl hp)
      · by_cases hs : e.1 = s
        · have := h.keysUniq e he
          rw [hs] at this
          exact Or.inl this
        · exact Or.inr (Or.inr ⟨e, List.mem_cons_of_mem _ (mem_eraseSlot.mpr ⟨he, hs⟩), rfl⟩)
    disabled := h.disabled
    keysUniq := by
      intro e he
      show ((s, id) :: eraseSlot w.slots s).lookup e.1 = some e.2
      rcases List.mem_cons.mp he with rfl | he
      · simp
      · obtain ⟨he, hs⟩ := mem_eraseSlot.mp he
        have : (e.1 == s) = false := by simpa using hs
        rw [List.lookup_cons, this]
        unfold eraseSlot
        rw [lookup_filter_key (fun k => k != s)]
        simpa [hs] using h.keysUniq e he
    exc := by
      intro o ho
      have hm : (s, o) ∈ w.slots := lookup_mem _ _ _ ho
      exact ⟨fun hp => h.poolUnref _ hp ⟨_, hm, rfl⟩, h.live _ hm⟩ }

theorem bindSlot_inv {cfg : Cfg} {w : World} {s id : Nat} (h : InvX cfg w (some id)) :
    Inv cfg (bindSlot w s id) := by
  have hb := bind_inv (s := s) h
  unfold bindSlot
  cases hl : w.slots.lookup s with
  | none => rw [hl] at hb; exact hb
  | some o => rw [hl] at hb; exact dropHandle_inv hb

theorem dropSlot_inv {cfg : Cfg} {w : World} (s : Nat) (h : Inv cfg w) : Inv cfg (dropSlot w s) := by
  unfold dropSlot
  cases hl : w.slots.lookup s with
  | none => exact h
  | some id => exact dropHandle_inv (unbind_inv h hl)

theorem cloneSlot_inv {cfg : Cfg} {w : World} (s s2 : Nat) (h : Inv cfg w) :
    Inv cfg (cloneSlot w s s2) := by
  unfold cloneSlot
  cases hl : w.slots.lookup s with
  | none => exact h
  | some id => exact bindSlot_inv (inv_weaken h ⟨_, lookup_mem _ _ _ hl, rfl⟩)

/-- overwriting the allocation of a live handle with a root-first value -/
theorem setBound_inv {cfg : Cfg} {w : World} {id : Nat} {i : Inner} (h : Inv cfg w)
    (hb : Bound w.slots id) (hrf : RootFirst cfg i) :
    Inv cfg { w with heap := w.heap.set id i } := by
  have hnp : id ∉ w.pool := fun hp => h.poolUnref _ hp hb
  obtain ⟨e0, he0, rfl⟩ := hb
  obtain ⟨i0, hg0, _⟩ := h.live e0 he0
  exact {
    poolNodup := h.poolNodup
    poolUnref := h.poolUnref
    poolClean := by
      intro id' hm
      show ∃ i', (w.heap.set e0.2 i).get id' = some i' ∧ Clean cfg i'
      have : id' ≠ e0.2 := fun e => hnp (e ▸ hm)
      rw [Heap.get_set]; simpa [this] using h.poolClean id' hm
    poolCap := h.poolCap
    live := by
      intro e he
      show ∃ i', (w.heap.set e0.2 i).get e.2 = some i' ∧ RootFirst cfg i'
      rw [Heap.get_set]
      by_cases eq : e.2 = e0.2
      · exact ⟨i, by simp [eq], hrf⟩
      · simpa [eq] using h.live e he
    heapLt := by
      intro id' i' hg
      change (w.heap.set e0.2 i).get id' = some i' at hg
      rw [Heap.get_set] at hg
      by_cases e : id' = e0.2
      · subst e; exact h.heapLt _ _ hg0
      · simp [e] at hg; exact h.heapLt _ _ hg
    noGarbage := by
      intro id' i' hg
      change (w.heap.set e0.2 i).get id' = some i' at hg
      rw [Heap.get_set] at hg
      by_cases e : id' = e0.2
      · subst e; exact Or.inr (Or.inr ⟨e0, he0, rfl⟩)
      · simp [e] at hg; exact h.noGarbage id' i' hg
    disabled := h.disabled
    keysUniq := h.keysUniq
    exc := by simp }


/-- fields the invariant does not mention may change freely -/
theorem inv_congr {cfg : Cfg} {w w' : World} {x : Option Nat} (h : InvX cfg w x)
    (h1 : w'.heap = w.heap) (h2 : w'.slots = w.slots) (h3 : w'.pool = w.pool)
    (h4 : w'.enabled = w.enabled) (h5 : w'.cap = w.cap) (h6 : w'.next = w.next) :
    InvX cfg w' x := by
  cases w; cases w'
  simp only at h1 h2 h3 h4 h5 h6
  subst h1 h2 h3 h4 h5 h6
  exact ⟨h.1, h.2, h.3, h.4, h.5, h.6, h.7, h.8, h.9, h.10⟩

theorem bindSlot_mem (w : World) (s id : Nat) : (s, id) ∈ (bindSlot w s id).slots := by
  unfold bindSlot
  cases w.slots.lookup s with
  | none => exact List.mem_cons_self
  | some o => simp only; rw [dropHandle_slots]; exact List.mem_cons_self

/-- the pre-bind world of `acquire` -/
def acquirePre (cfg : Cfg) (w : World) (r : Req) : World × Nat :=
  match w.pool with
  | id :: rest =>
    let i := match w.heap.get id with
      | some i => reinit i r
      | none => fresh cfg.root r
    ({ w with pool := rest, heap := w.heap.set id i }, id)
  | [] => ({ w with heap := w.heap.set w.next (fresh cfg.root r), next := w.next + 1 }, w.next)

theorem acquire_eq (cfg : Cfg) (w : World) (r : Req) :
    acquire cfg w r = (bindSlot (acquirePre cfg w r).1 origSlot (acquirePre cfg w r).2, (acquirePre cfg w r).2) := by
  unfold acquire acquirePre
  cases w.pool <;> rfl

/-- the allocation handed out by `acquire` is, under the invariant, exactly a fresh one -/
theorem acquirePre_get {cfg : Cfg} {w : World} (r : Req) (h : Inv cfg w) :
    (acquirePre cfg w r).1.heap.get (acquirePre cfg w r).2 = some (fresh cfg.root r) := by
  obtain ⟨heap, slots, pool, enabled, cap, svc, next, conns⟩ := w
  cases pool with
  | nil => simp [acquirePre, Heap.get_set]
  | cons id rest =>
    obtain ⟨i, hg, hc⟩ := h.poolClean id (by simp)
    simp only at hg
    simp only [acquirePre, hg, Heap.get_set, if_true]
    rw [reinit_eq_fresh r hc]

theorem acquirePre_slots (cfg : Cfg) (w : World) (r : Req) : (acquirePre cfg w r).1.slots = w.slots := by
  unfold acquirePre; cases w.pool <;> rfl

theorem acquirePre_inv {cfg : Cfg} {w : World} (r : Req) (h : Inv cfg w) :
    InvX cfg (acquirePre cfg w r).1 (some (acquirePre cfg w r).2) := by
  have hget := acquirePre_get r h
  obtain ⟨heap, slots, pool, enabled, cap, svc, next, conns⟩ := w
  cases pool with
  | nil =>
    simp only [acquirePre] at hget ⊢
    have hfresh : ∀ id i, heap.get id = some i → id ≠ next := fun id i hg e => by
      have := h.heapLt id i hg; simp only at this; omega
    exact {
      poolNodup := h.poolNodup
      poolUnref := h.poolUnref
      poolClean := by intro id' hm; simp at hm
      poolCap := h.poolCap
      live := by
        intro e he
        obtain ⟨i, hg, hr⟩ := h.live e he
        simp only at hg
        show ∃ i', (heap.set next _).get e.2 = some i' ∧ RootFirst cfg i'
        rw [Heap.get_set]; simp [hfresh _ _ hg, hg, hr]
      heapLt := by
        intro id' i' hg
        change (heap.set next _).get id' = some i' at hg
        rw [Heap.get_set] at hg
        show id' < next + 1
        by_cases e : id' = next
        · omega
        · simp [e] at hg; have := h.heapLt _ _ hg; simp only at this; omega
      noGarbage := by
        intro id' i' hg
        change (heap.set next _).get id' = some i' at hg
        rw [Heap.get_set] at hg
        by_cases e : id' = next
        · exact Or.inl (by rw [e])
        · simp [e] at hg
          rcases h.noGarbage id' i' hg with hx | hp' | hb
          · cases hx
          · exact Or.inr (Or.inl hp')
          · exact Or.inr (Or.inr hb)
      disabled := h.disabled
      keysUniq := h.keysUniq
      exc := by
        intro id' he
        cases he
        exact ⟨by simp, _, hget, fresh_rootFirst cfg r⟩ }
  | cons id rest =>
    simp only [acquirePre] at hget ⊢
    have hnd : id ∉ rest ∧ rest.Nodup := List.nodup_cons.mp h.poolNodup
    have hsub : ∀ id', id' ∈ rest → id' ∈ id :: rest := fun id' hm => List.mem_cons_of_mem _ hm
    obtain ⟨i0, hg0, _⟩ := h.poolClean id (by simp)
    simp only at hg0
    exact {
      poolNodup := hnd.2
      poolUnref := fun id' hm => h.poolUnref id' (hsub id' hm)
      poolClean := by
        intro id' hm
        have : id' ≠ id := fun e => hnd.1 (e ▸ hm)
        show ∃ i', (heap.set id _).get id' = some i' ∧ Clean cfg i'
        rw [Heap.get_set]; simpa [this] using h.poolClean id' (hsub id' hm)
      poolCap := by have := h.poolCap; simp at this; show rest.length ≤ cap; omega
      live := by
        intro e he
        have : e.2 ≠ id := fun eq => h.poolUnref id (by simp) ⟨e, he, eq⟩
        show ∃ i', (heap.set id _).get e.2 = some i' ∧ RootFirst cfg i'
        rw [Heap.get_set]; simpa [this] using h.live e he
      heapLt := by
        intro id' i' hg
        change (heap.set id _).get id' = some i' at hg
        rw [Heap.get_set] at hg
        by_cases e : id' = id
        · subst e; exact h.heapLt _ _ hg0
        · simp [e] at hg; exact h.heapLt _ _ hg
      noGarbage := by
        intro id' i' hg
        change (heap.set id _).get id' = some i' at hg
        rw [Heap.get_set] at hg
        by_cases e : id' = id
        · exact Or.inl (by rw [e])
        · simp [e] at hg
          rcases h.noGarbage id' i' hg with hx | hp' | hb
          · cases hx
          · rcases List.mem_cons.mp hp' with rfl | hm
            · exact absurd rfl e
            · exact Or.inr (Or.inl hm)
          · exact Or.inr (Or.inr hb)
      disabled := by intro hd; have := h.disabled hd; simp at this
      keysUniq := h.keysUniq
      exc := by
        intro id' he
        cases he
        exact ⟨hnd.1, _, hget, fresh_rootFirst cfg r⟩ }

theorem acquire_inv {cfg : Cfg} {w : World} (r : Req) (h : Inv cfg w) :
    Inv cfg (acquire cfg w r).1 := by
  rw [acquire_eq]; exact bindSlot_inv (acquirePre_inv r h)

/-! ### frame lemmas: what an operation on one allocation does to another -/

theorem dropHandle_get_of_ne (w : World) {o id : Nat} (hne : o ≠ id) :
    (dropHandle w o).heap.get id = w.heap.get id := by
  unfold dropHandle
  split
  · rfl
  · split
    · split
      · show (w.heap.set o _).get id = _
        rw [Heap.get_set]; simp [Ne.symm hne]
      · rfl
    · show (w.heap.erase o).get id = _
      rw [Heap.get_erase]; simp [Ne.symm hne]

/-- dropping a handle never touches an allocation that still has a handle -/
theorem dropHandle_get_of_bound (w : World) (o : Nat) {id : Nat} (hb : Bound w.slots id) :
    (dropHandle w o).heap.get id = w.heap.get id := by
  by_cases hne : o = id
  · subst hne
    unfold dropHandle
    have : count w.slots o ≠ 0 := fun hc => (count_eq_zero_iff _ _).mp hc hb
    simp [this]
  · exact dropHandle_get_of_ne w hne

theorem bindSlot_slots (w : World) (s id : Nat) :
    (bindSlot w s id).slots = (s, id) :: eraseSlot w.slots s := by
  unfold bindSlot
  cases w.slots.lookup s with
  | none => rfl
  | some o => simp only; rw [dropHandle_slots]

theorem bindSlot_get_of_bound (w : World) (s id' : Nat) {id : Nat}
    (hb : Bound (bindSlot w s id').slots id) :
    (bindSlot w s id').heap.get id = w.heap.get id := by
  rw [bindSlot_slots] at hb
  unfold bindSlot
  cases w.slots.lookup s with
  | none => rfl
  | some o => simp only; rw [dropHandle_get_of_bound _ _ hb]

theorem bindSlot_get_of_ne (w : World) (s id' : Nat) {id : Nat}
    (hne : ∀ o, w.slots.lookup s = some o → o ≠ id) :
    (bindSlot w s id').heap.get id = w.heap.get id := by
  unfold bindSlot
  cases hl : w.slots.lookup s with
  | none => rfl
  | some o => simp only; rw [dropHandle_get_of_ne _ (hne o hl)]

theorem dropSlot_slots (w : World) (s : Nat) :
    (dropSlot w s).slots = eraseSlot w.slots s := by
  unfold dropSlot
  cases hl : w.slots.lookup s with
  | none =>
    simp only
    unfold eraseSlot
    symm
    apply List.filter_eq_self.mpr
    intro e he
    simpa using lookup_none_not_mem _ _ hl e he
  | some o => simp only; rw [dropHandle_slots]

theorem dropSlot_get_of_bound (w : World) (s : Nat) {id : Nat} (hb : Bound (dropSlot w s).slots id) :
    (dropSlot w s).heap.get id = w.heap.get id := by
  rw [dropSlot_slots] at hb
  unfold dropSlot
  cases w.slots.lookup s with
  | none => rfl
  | some o => simp only; rw [dropHandle_get_of_bound _ _ hb]

theorem cloneSlot_get_of_bound (w : World) (s s2 : Nat) {id : Nat}
    (hb : Bound (cloneSlot w s s2).slots id) :
    (cloneSlot w s s2).heap.get id = w.heap.get id := by
  unfold cloneSlot at hb ⊢
  cases hl : w.slots.lookup s with
  | none => rfl
  | some o => rw [hl] at hb; exact bindSlot_get_of_bound _ _ _ hb

/-- under the invariant the allocation bound by `acquire` is a fresh one -/
theorem acquire_get {cfg : Cfg} {w : World} (r : Req) (h : Inv cfg w) :
    (acquire cfg w r).1.heap.get (acquire cfg w r).2 = some (fresh cfg.root r) := by
  rw [acquire_eq]
  simp only
  have hx := acquirePre_inv r h
  rw [bindSlot_get_of_ne]
  · exact acquirePre_get r h
  · intro o ho heq
    -- the acquired allocation has no handle in the pre-bind world
    have hm : (origSlot, o) ∈ w.slots := by
      have := lookup_mem _ _ _ ho; rwa [acquirePre_slots] at this
    obtain ⟨heap, slots, pool, enabled, cap, svc, next, conns⟩ := w
    cases pool with
    | nil =>
      simp only [acquirePre] at heq
      obtain ⟨i, hg, _⟩ := h.live _ hm
      have := h.heapLt _ _ hg
      simp only at this
      omega
    | cons id rest =>
      simp only [acquirePre] at heq
      subst heq
      exact h.poolUnref o (by simp) ⟨_, hm, rfl⟩


/-! ### one request through the service -/

theorem noteConn_heap (w : World) (c : Option Nat) : (noteConn w c).heap = w.heap := by
  unfold noteConn; cases c with
  | none => rfl
  | some c => simp only; split <;> rfl

theorem noteConn_slots (w : World) (c : Option Nat) : (noteConn w c).slots = w.slots := by
  unfold noteConn; cases c with
  | none => rfl
  | some c => simp only; split <;> rfl

theorem noteConn_inv {cfg : Cfg} {w : World} (c : Option Nat) (h : Inv cfg w) : Inv cfg (noteConn w c) := by
  unfold noteConn; cases c with
  | none => exact h
  | some c =>
    simp only; split
    · exact h
    · exact inv_congr h rfl rfl rfl rfl rfl rfl

theorem foldl_cloneSlot_inv {cfg : Cfg} (ss : List Nat) (s0 : Nat) {w : World} (h : Inv cfg w) :
    Inv cfg (ss.foldl (fun w s => cloneSlot w s0 s) w) := by
  induction ss generalizing w with
  | nil => exact h
  | cons s t ih => exact ih (cloneSlot_inv s0 s h)

/-- the world after the handler's stashes, before the request itself is dropped -/
def servedWorld (cfg : Cfg) (w : World) (r : Req) (acts : List Act) : World :=
  let a := acquire cfg w r
  let w1 := noteConn a.1 r.connData
  let h := runHandler cfg (fresh cfg.root r) acts
  let w2 := { w1 with heap := w1.heap.set a.2 h.inner }
  (stashes acts).foldl (fun w s => cloneSlot w origSlot s) w2

/-- under the invariant `serve` runs the handler on a fresh allocation -/
theorem serve_eq {cfg : Cfg} {w : World} (r : Req) (acts : List Act) (h : Inv cfg w) :
    serve cfg w r acts =
      (dropSlot (servedWorld cfg w r acts) origSlot,
        Util.joinWith "|" (runHandler cfg (fresh cfg.root r) acts).dumps) := by
  unfold serve servedWorld
  simp only [noteConn_heap, acquire_get r h]

theorem acquire_mem (cfg : Cfg) (w : World) (r : Req) :
    (origSlot, (acquire cfg w r).2) ∈ (acquire cfg w r).1.slots := by
  rw [acquire_eq]; exact bindSlot_mem _ _ _

theorem servedWorld_inv {cfg : Cfg} {w : World} (r : Req) (acts : List Act) (h : Inv cfg w) :
    Inv cfg (servedWorld cfg w r acts) := by
  unfold servedWorld
  apply foldl_cloneSlot_inv
  have h1 : Inv cfg (noteConn (acquire cfg w r).1 r.connData) := noteConn_inv _ (acquire_inv r h)
  apply setBound_inv h1
  · rw [noteConn_slots]; exact ⟨_, acquire_mem cfg w r, rfl⟩
  · exact runHandler_rootFirst cfg _ acts (fresh_rootFirst cfg r)

theorem serve_inv {cfg : Cfg} {w : World} (r : Req) (acts : List Act) (h : Inv cfg w) :
    Inv cfg (serve cfg w r acts).1 := by
  rw [serve_eq r acts h]; exact dropSlot_inv _ (servedWorld_inv r acts h)

theorem extInsert_rootFirst {cfg : Cfg} {i : Inner} (t v : Nat) (h : RootFirst cfg i) :
    RootFirst cfg { i with extensions := extInsert i.extensions t v } := h

theorem step_inv {cfg : Cfg} {w : World} (op : Op) (h : Inv cfg w) : Inv cfg (step cfg w op).1 := by
  cases op with
  | serve r acts =>
    simp only [step]; split
    · exact serve_inv r acts h
    · exact h
  | drop s =>
    simp only [step]; split
    · exact h
    · exact dropSlot_inv s h
  | view s =>
    simp only [step]; split
    · exact h
    · split <;> exact h
  | ext s t v =>
    simp only [step]; split
    · exact h
    · rename_i id hl
      have hm := lookup_mem _ _ _ hl
      obtain ⟨i, hg, hr⟩ := h.live _ hm
      simp only [modifyHeap, hg]
      exact setBound_inv h ⟨_, hm, rfl⟩ (extInsert_rootFirst t v hr)
  | clone s s2 =>
    simp only [step]; split
    · exact h
    · exact cloneSlot_inv s s2 h
  | disable =>
    simp only [step]
    exact {
      poolNodup := by simp
      poolUnref := by simp
      poolClean := by simp
      poolCap := by simp
      live := by
        intro e he
        obtain ⟨i, hg, hr⟩ := h.live e he
        have hnp : e.2 ∉ w.pool := fun hp => h.poolUnref _ hp ⟨e, he, rfl⟩
        refine ⟨i, ?_, hr⟩
        show Heap.get (w.heap.filter (fun e => !w.pool.contains e.1)) e.2 = some i
        rw [Heap.get_filter w.heap (fun k => !w.pool.contains k)]
        simp [hnp, hg]
      heapLt := by
        intro id i hg
        change Heap.get (w.heap.filter (fun e => !w.pool.contains e.1)) id = some i at hg
        rw [Heap.get_filter w.heap (fun k => !w.pool.contains k)] at hg
        split at hg
        · exact h.heapLt _ _ hg
        · cases hg
      noGarbage := by
        intro id i hg
        change Heap.get (w.heap.filter (fun e => !w.pool.contains e.1)) id = some i at hg
        rw [Heap.get_filter w.heap (fun k => !w.pool.contains k)] at hg
        split at hg
        · rename_i hp
          rcases h.noGarbage id i hg with hx | hp' | hb
          · cases hx
          · simp [hp'] at hp
          · exact Or.inr (Or.inr hb)
        · cases hg
      disabled := by simp
      keysUniq := h.keysUniq
      exc := by simp }
  | closeConn c =>
    simp only [step]
    exact inv_congr h rfl rfl rfl rfl rfl rfl

theorem runW_inv {cfg : Cfg} (ops : List Op) {w : World} (h : Inv cfg w) : Inv cfg (runW cfg w ops) := by
  unfold runW
  induction ops generalizing w with
  | nil => exact h
  | cons op t ih => exact ih (step_inv op h)


/-! ### frame property of whole operations: a surviving handle's allocation is untouched -/

theorem acquirePre_get_other {cfg : Cfg} {w : World} (r : Req) (h : Inv cfg w) {id : Nat}
    (hb : Bound w.slots id) :
    (acquirePre cfg w r).1.heap.get id = w.heap.get id ∧ id ≠ (acquirePre cfg w r).2 := by
  obtain ⟨e, he, rfl⟩ := hb
  obtain ⟨i, hg, _⟩ := h.live e he
  have hlt := h.heapLt _ _ hg
  obtain ⟨heap, slots, pool, enabled, cap, svc, next, conns⟩ := w
  cases pool with
  | nil =>
    simp only at hlt
    have : e.2 ≠ next := by omega
    simp only [acquirePre, Heap.get_set]
    simp [this]
  | cons p rest =>
    have : e.2 ≠ p := fun eq => h.poolUnref p (by simp) ⟨e, he, eq⟩
    simp only [acquirePre, Heap.get_set]
    simp [this]

theorem cloneSlot_lookup_self (w : World) (s0 s nid : Nat) (hl : w.slots.lookup s0 = some nid) :
    (cloneSlot w s0 s).slots.lookup s0 = some nid := by
  unfold cloneSlot
  rw [hl]
  simp only
  rw [bindSlot_slots, List.lookup_cons]
  by_cases e : s0 = s
  · simp [e]
  · have : (s0 == s) = false := by simpa using e
    rw [this]
    unfold eraseSlot
    rw [lookup_filter_key (fun k => k != s)]
    simp [e, hl]

theorem cloneSlot_bound_back (w : World) (s0 s id nid : Nat) (hl : w.slots.lookup s0 = some nid)
    (hne : id ≠ nid) (hb : Bound (cloneSlot w s0 s).slots id) : Bound w.slots id := by
  unfold cloneSlot at hb
  rw [hl] at hb
  simp only at hb
  rw [bindSlot_slots] at hb
  obtain ⟨e, he, rfl⟩ := hb
  rcases List.mem_cons.mp he with rfl | he
  · exact absurd rfl hne
  · exact ⟨e, (mem_eraseSlot.mp he).1, rfl⟩

theorem foldl_cloneSlot_frame (ss : List Nat) (s0 nid id : Nat) {w : World}
    (hl : w.slots.lookup s0 = some nid) (hne : id ≠ nid)
    (hb : Bound (ss.foldl (fun w s => cloneSlot w s0 s) w).slots id) :
    Bound w.slots id ∧ (ss.foldl (fun w s => cloneSlot w s0 s) w).heap.get id = w.heap.get id := by
  induction ss generalizing w with
  | nil => exact ⟨hb, rfl⟩
  | cons s t ih =>
    simp only [List.foldl_cons] at hb ⊢
    obtain ⟨hb1, hg1⟩ := ih (cloneSlot_lookup_self w s0 s nid hl) hb
    exact ⟨cloneSlot_bound_back w s0 s id nid hl hne hb1,
      hg1.trans (cloneSlot_get_of_bound w s0 s hb1)⟩

theorem bound_of_eraseSlot {slots : List (Nat × Nat)} {s id : Nat} (h : Bound (eraseSlot slots s) id) :
    Bound slots id := by
  obtain ⟨e, he, rfl⟩ := h; exact ⟨e, (mem_eraseSlot.mp he).1, rfl⟩

theorem serve_frame {cfg : Cfg} {w : World} (r : Req) (acts : List Act) (h : Inv cfg w) {id : Nat}
    (hb : Bound w.slots id) (hb' : Bound (serve cfg w r acts).1.slots id) :
    (serve cfg w r acts).1.heap.get id = w.heap.get id := by
  rw [serve_eq r acts h] at hb' ⊢
  simp only at hb' ⊢
  obtain ⟨hpre, hne⟩ := acquirePre_get_other r h hb
  rw [dropSlot_get_of_bound _ _ hb']
  rw [dropSlot_slots] at hb'
  have hb3 := bound_of_eraseSlot hb'
  unfold servedWorld at hb3 ⊢
  have hnid : (acquire cfg w r).2 = (acquirePre cfg w r).2 := by rw [acquire_eq]
  have hl : ({ noteConn (acquire cfg w r).1 r.connData with
      heap := (noteConn (acquire cfg w r).1 r.connData).heap.set (acquire cfg w r).2
        (runHandler cfg (fresh cfg.root r) acts).inner } : World).slots.lookup origSlot
        = some (acquire cfg w r).2 := by
    show (noteConn (acquire cfg w r).1 r.connData).slots.lookup origSlot = _
    rw [noteConn_slots, acquire_eq]
    simp only
    rw [bindSlot_slots]
    simp
  obtain ⟨hb2, hg2⟩ := foldl_cloneSlot_frame (stashes acts) origSlot _ id hl (hnid ▸ hne) hb3
  rw [hg2]
  show ((noteConn (acquire cfg w r).1 r.connData).heap.set (acquire cfg w r).2 _).get id = _
  rw [Heap.get_set, if_neg (hnid ▸ hne), noteConn_heap]
  have hb1 : Bound (acquire cfg w r).1.slots id := by
    have : Bound (noteConn (acquire cfg w r).1 r.connData).slots id := hb2
    rwa [noteConn_slots] at this
  rw [acquire_eq] at hb1 ⊢
  simp only at hb1 ⊢
  rw [bindSlot_get_of_bound _ _ _ hb1]
  exact hpre

/-- the operation writes through a handle of `id` -/
def Op.writesVia (w : World) (id : Nat) : Op → Prop
  | .ext s _ _ => w.slots.lookup s = some id
  | _ => False

/-- **frame**: an allocation that has a handle before and after an operation, and that the
operation does not write through, is left exactly as it was -/
theorem step_frame {cfg : Cfg} {w : World} (op : Op) (h : Inv cfg w) {id : Nat}
    (hb : Bound w.slots id) (hb' : Bound (step cfg w op).1.slots id) (hw : ¬ op.writesVia w id) :
    (step cfg w op).1.heap.get id = w.heap.get id := by
  cases op with
  | serve r acts =>
    simp only [step] at hb' ⊢; split
    · rename_i ha; simp only [ha, if_true] at hb'; exact serve_frame r acts h hb hb'
    · rfl
  | drop s =>
    simp only [step] at hb' ⊢; split
    · rfl
    · rename_i id' hl; simp only [hl] at hb'; exact dropSlot_get_of_bound _ _ hb'
  | view s =>
    simp only [step]; split
    · rfl
    · split <;> rfl
  | ext s t v =>
    simp only [step]; split
    · rfl
    · rename_i id' hl
      have hne : id ≠ id' := by
        intro e; subst e; exact hw hl
      unfold modifyHeap
      split
      · show (w.heap.set id' _).get id = _
        rw [Heap.get_set, if_neg hne]
      · rfl
  | clone s s2 =>
    simp only [step] at hb' ⊢; split
    · rfl
    · rename_i id' hl; simp only [hl] at hb'; exact cloneSlot_get_of_bound _ _ _ hb'
  | disable =>
    simp only [step]
    show Heap.get (w.heap.filter (fun e => !w.pool.contains e.1)) id = _
    rw [Heap.get_filter w.heap (fun k => !w.pool.contains k)]
    have hnp : id ∉ w.pool := fun hp => h.poolUnref _ hp hb
    simp [hnp]
  | closeConn c => simp only [step]


/-! ### constant fields -/

theorem dropHandle_cap (w : World) (id : Nat) : (dropHandle w id).cap = w.cap := by
  unfold dropHandle
  split
  · rfl
  · split
    · split <;> rfl
    · rfl

theorem bindSlot_cap (w : World) (s id : Nat) : (bindSlot w s id).cap = w.cap := by
  unfold bindSlot
  cases w.slots.lookup s with
  | none => rfl
  | some o => simp only; rw [dropHandle_cap]

theorem dropSlot_cap (w : World) (s : Nat) : (dropSlot w s).cap = w.cap := by
  unfold dropSlot
  cases w.slots.lookup s with
  | none => rfl
  | some o => simp only; rw [dropHandle_cap]

theorem cloneSlot_cap (w : World) (s s2 : Nat) : (cloneSlot w s s2).cap = w.cap := by
  unfold cloneSlot
  cases w.slots.lookup s with
  | none => rfl
  | some o => simp only; rw [bindSlot_cap]

theorem foldl_cloneSlot_cap (ss : List Nat) (s0 : Nat) (w : World) :
    (ss.foldl (fun w s => cloneSlot w s0 s) w).cap = w.cap := by
  induction ss generalizing w with
  | nil => rfl
  | cons s t ih => simp only [List.foldl_cons]; rw [ih, cloneSlot_cap]

theorem acquire_cap (cfg : Cfg) (w : World) (r : Req) : (acquire cfg w r).1.cap = w.cap := by
  unfold acquire
  cases w.pool <;> simp only <;> rw [bindSlot_cap]

theorem noteConn_cap (w : World) (c : Option Nat) : (noteConn w c).cap = w.cap := by
  unfold noteConn; cases c with
  | none => rfl
  | some c => simp only; split <;> rfl

theorem serve_cap (cfg : Cfg) (w : World) (r : Req) (acts : List Act) :
    (serve cfg w r acts).1.cap = w.cap := by
  unfold serve
  simp only
  split
  · rw [noteConn_cap, acquire_cap]
  · rw [dropSlot_cap, foldl_cloneSlot_cap]; show (noteConn _ _).cap = _; rw [noteConn_cap, acquire_cap]

theorem step_cap (cfg : Cfg) (w : World) (op : Op) : (step cfg w op).1.cap = w.cap := by
  cases op <;> simp only [step]
  · split
    · exact serve_cap cfg w _ _
    · rfl
  · split
    · rfl
    · exact dropSlot_cap _ _
  · split
    · rfl
    · split <;> rfl
  · split
    · rfl
    · unfold modifyHeap; split <;> rfl
  · split
    · rfl
    · exact cloneSlot_cap _ _ _

theorem runW_cap (cfg : Cfg) (ops : List Op) (w : World) : (runW cfg w ops).cap = w.cap := by
  unfold runW
  induction ops generalizing w with
  | nil => rfl
  | cons op t ih => simp only [List.foldl_cons]; rw [ih, step_cap]


/-- the pool switch and the service's liveness; only `disable` changes them -/
def flags (w : World) : Bool × Bool := (w.enabled, w.svcAlive)

theorem dropHandle_flags (w : World) (id : Nat) : flags (dropHandle w id) = flags w := by
  unfold dropHandle
  split
  · rfl
  · split
    · split <;> rfl
    · rfl

theorem bindSlot_flags (w : World) (s id : Nat) : flags (bindSlot w s id) = flags w := by
  unfold bindSlot
  cases w.slots.lookup s with
  | none => rfl
  | some o => simp only; rw [dropHandle_flags]; rfl

theorem dropSlot_flags (w : World) (s : Nat) : flags (dropSlot w s) = flags w := by
  unfold dropSlot
  cases w.slots.lookup s with
  | none => rfl
  | some o => simp only; rw [dropHandle_flags]; rfl

theorem cloneSlot_flags (w : World) (s s2 : Nat) : flags (cloneSlot w s s2) = flags w := by
  unfold cloneSlot
  cases w.slots.lookup s with
  | none => rfl
  | some o => simp only; rw [bindSlot_flags]

theorem foldl_cloneSlot_flags (ss : List Nat) (s0 : Nat) (w : World) :
    flags (ss.foldl (fun w s => cloneSlot w s0 s) w) = flags w := by
  induction ss generalizing w with
  | nil => rfl
  | cons s t ih => simp only [List.foldl_cons]; rw [ih, cloneSlot_flags]

theorem acquire_flags (cfg : Cfg) (w : World) (r : Req) : flags (acquire cfg w r).1 = flags w := by
  unfold acquire
  cases w.pool <;> simp only <;> rw [bindSlot_flags] <;> rfl

theorem noteConn_flags (w : World) (c : Option Nat) : flags (noteConn w c) = flags w := by
  unfold noteConn; cases c with
  | none => rfl
  | some c => simp only; split <;> rfl

theorem serve_flags (cfg : Cfg) (w : World) (r : Req) (acts : List Act) :
    flags (serve cfg w r acts).1 = flags w := by
  unfold serve
  simp only
  split
  · rw [noteConn_flags, acquire_flags]
  · rw [dropSlot_flags, foldl_cloneSlot_flags]
    show flags (noteConn _ _) = _
    rw [noteConn_flags, acquire_flags]

theorem step_flags (cfg : Cfg) (w : World) (op : Op) :
    flags (step cfg w op).1 = (match op with | .disable => (false, false) | _ => flags w) := by
  cases op <;> simp only [step]
  · split
    · exact serve_flags cfg w _ _
    · rfl
  · split
    · rfl
    · exact dropSlot_flags _ _
  · split
    · rfl
    · split <;> rfl
  · split
    · rfl
    · unfold modifyHeap; split <;> rfl
  · split
    · rfl
    · exact cloneSlot_flags _ _ _
  · rfl
  · rfl

/-- a dropped service has a disabled pool -/
theorem runW_dead_disabled (cfg : Cfg) (ops : List Op) (w : World)
    (h : w.svcAlive = false → w.enabled = false) :
    (runW cfg w ops).svcAlive = false → (runW cfg w ops).enabled = false := by
  unfold runW
  induction ops generalizing w with
  | nil => exact h
  | cons op t ih =>
    simp only [List.foldl_cons]
    apply ih
    have hf := step_flags cfg w op
    have h1 : (step cfg w op).1.enabled = (flags (step cfg w op).1).1 := rfl
    have h2 : (step cfg w op).1.svcAlive = (flags (step cfg w op).1).2 := rfl
    rw [h1, h2, hf]
    cases op <;> first | exact h | (intro; rfl)

/-- nothing is bound, nothing is pooled ⇒ nothing is allocated -/
theorem heap_empty_of_unreferenced {cfg : Cfg} {w : World} (h : Inv cfg w)
    (hs : w.slots = []) (hp : w.pool = []) : w.heap = [] := by
  cases hh : w.heap with
  | nil => rfl
  | cons e t =>
    obtain ⟨a, b⟩ := e
    have hg : w.heap.get a = some b := by
      unfold Heap.get; rw [hh]; simp
    rcases h.noGarbage _ _ hg with hx | hx | ⟨e', he', _⟩
    · cases hx
    · rw [hp] at hx; cases hx
    · rw [hs] at he'; cases he'

end ActixModel.ReqPool
