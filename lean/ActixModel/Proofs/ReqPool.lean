import ActixModel.Model.ReqPool
/-
Helper lemmas for C11 (`Props/C11.lean`): association-list facts for the heap and the handle
table, the clean/root-first predicates, and the world invariant with its preservation by every
primitive of the model.  Core Lean only.
-/
namespace ActixModel.ReqPool

/-! ### association lists -/

theorem lookup_filter_key {α : Type} (p : Nat → Bool) (l : List (Nat × α)) (k : Nat) :
    (l.filter (fun e => p e.1)).lookup k = if p k then l.lookup k else none := by
  induction l with
  | nil => simp
  | cons e t ih =>
    obtain ⟨a, b⟩ := e
    by_cases hp : p a
    · simp only [List.filter_cons, hp, if_true, List.lookup_cons]
      by_cases hk : k = a
      · subst hk; simp [hp]
      · have : (k == a) = false := by simpa using hk
        simp [this, ih]
    · simp only [List.filter_cons, hp, List.lookup_cons]
      by_cases hk : k = a
      · subst hk; simp [hp, ih]
      · have : (k == a) = false := by simpa using hk
        simp [this, ih]

theorem lookup_mem {α : Type} (l : List (Nat × α)) (k : Nat) (v : α) (h : l.lookup k = some v) :
    (k, v) ∈ l := by
  induction l with
  | nil => simp at h
  | cons e t ih =>
    obtain ⟨a, b⟩ := e
    simp only [List.lookup_cons] at h
    by_cases hk : k = a
    · subst hk; simp at h; subst h; simp
    · have : (k == a) = false := by simpa using hk
      simp [this] at h
      exact List.mem_cons_of_mem _ (ih h)

theorem lookup_none_not_mem {α : Type} (l : List (Nat × α)) (k : Nat) (h : l.lookup k = none) :
    ∀ e ∈ l, e.1 ≠ k := by
  induction l with
  | nil => simp
  | cons e t ih =>
    obtain ⟨a, b⟩ := e
    rw [List.lookup_cons] at h
    by_cases hk : k = a
    · subst hk; simp at h
    · have : (k == a) = false := by simpa using hk
      rw [this] at h
      intro e he
      rcases List.mem_cons.mp he with rfl | he
      · exact fun h' => hk h'.symm
      · exact ih h e he

theorem Heap.get_set (h : Heap) (a b : Nat) (i : Inner) :
    (h.set a i).get b = if b = a then some i else h.get b := by
  unfold Heap.set Heap.get Heap.erase
  by_cases hb : b = a
  · subst hb; simp
  · have : (b == a) = false := by simpa using hb
    simp only [List.lookup_cons, this, hb, if_false]
    rw [lookup_filter_key (fun k => k != a)]
    simp [hb]

theorem Heap.get_erase (h : Heap) (a b : Nat) :
    (h.erase a).get b = if b = a then none else h.get b := by
  unfold Heap.get Heap.erase
  rw [lookup_filter_key (fun k => k != a)]
  by_cases hb : b = a <;> simp [hb]

theorem Heap.get_filter (h : Heap) (p : Nat → Bool) (b : Nat) :
    Heap.get (h.filter (fun e => p e.1)) b = if p b then h.get b else none := by
  unfold Heap.get
  exact lookup_filter_key p h b

/-! ### handles -/

/-- some handle is bound to allocation `id` (`Rc::strong_count ≥ 1` through handles) -/
def Bound (slots : List (Nat × Nat)) (id : Nat) : Prop := ∃ e ∈ slots, e.2 = id

theorem count_eq_zero_iff (slots : List (Nat × Nat)) (id : Nat) :
    count slots id = 0 ↔ ¬ Bound slots id := by
  unfold count Bound
  simp only [List.length_eq_zero_iff, List.filter_eq_nil_iff, beq_iff_eq]
  constructor
  · rintro h ⟨e, he, rfl⟩; exact h e he rfl
  · intro h e he heq; exact h ⟨e, he, heq⟩

theorem mem_eraseSlot {slots : List (Nat × Nat)} {s : Nat} {e : Nat × Nat} :
    e ∈ eraseSlot slots s ↔ e ∈ slots ∧ e.1 ≠ s := by
  unfold eraseSlot
  simp

/-! ### clean / root-first allocations -/

/-- what `HttpRequest::drop` leaves in a pooled allocation -/
def Clean (cfg : Cfg) (i : Inner) : Prop :=
  i.appData = [cfg.root] ∧ i.extensions = [] ∧ i.connData = none

/-- the application-level container is the first element of `app_data` -/
def RootFirst (cfg : Cfg) (i : Inner) : Prop := ∃ rest, i.appData = cfg.root :: rest

theorem recycle_clean {cfg : Cfg} {i : Inner} (h : RootFirst cfg i) : Clean cfg (recycle i) := by
  obtain ⟨rest, hr⟩ := h
  simp [Clean, recycle, hr]

theorem fresh_rootFirst (cfg : Cfg) (r : Req) : RootFirst cfg (fresh cfg.root r) := ⟨[], rfl⟩

theorem reinit_appData (i : Inner) (r : Req) : (reinit i r).appData = i.appData := rfl

theorem reinit_rootFirst {cfg : Cfg} {i : Inner} (r : Req) (h : RootFirst cfg i) :
    RootFirst cfg (reinit i r) := h

theorem clean_rootFirst {cfg : Cfg} {i : Inner} (h : Clean cfg i) : RootFirst cfg i := ⟨[], h.1⟩

/-- the heart of C11: re-initialising a clean pooled allocation gives exactly the allocation a
brand-new `HttpRequest::new` would build — every field, hence every observation -/
theorem reinit_eq_fresh {cfg : Cfg} {i : Inner} (r : Req) (h : Clean cfg i) :
    reinit i r = fresh cfg.root r := by
  obtain ⟨ha, _, _⟩ := h
  cases i
  simp_all [reinit, fresh, PathSt.update, PathSt.reset, PathSt.new]

theorem pushData_rootFirst {cfg : Cfg} {i : Inner} (d : Option Nat) (h : RootFirst cfg i) :
    RootFirst cfg (pushData i d) := by
  obtain ⟨rest, hr⟩ := h
  cases d with
  | none => exact ⟨rest, hr⟩
  | some d => exact ⟨rest ++ [d], by simp [pushData, hr]⟩

theorem route_rootFirst (cfg : Cfg) (fuel : Nat) (kids : List Node) (i : Inner)
    (h : RootFirst cfg i) : RootFirst cfg (route cfg fuel kids i) := by
  induction fuel generalizing kids i with
  | zero => simpa [route] using h
  | succ n ih =>
    unfold route
    split
    · exact h
    · rename_i idx node ps _
      cases node with
      | res p nm g d => exact pushData_rootFirst d h
      | scope p d ks => exact ih _ _ (pushData_rootFirst d h)

theorem applyAct_appData (i : Inner) (a : Act) : (applyAct i a).appData = i.appData := by
  cases a <;> rfl

theorem foldl_applyAct_appData (acts : List Act) (i : Inner) :
    (acts.foldl applyAct i).appData = i.appData := by
  induction acts generalizing i with
  | nil => rfl
  | cons a t ih => simp [List.foldl, ih, applyAct_appData]

theorem runHandler_rootFirst (cfg : Cfg) (i : Inner) (acts : List Act) (h : RootFirst cfg i) :
    RootFirst cfg (runHandler cfg i acts).inner := by
  have h1 := route_rootFirst cfg (cfg.depth + 1) cfg.kids i h
  obtain ⟨rest, hr⟩ := h1
  unfold runHandler
  split <;> exact ⟨rest, by simp [foldl_applyAct_appData, hr]⟩

end ActixModel.ReqPool
