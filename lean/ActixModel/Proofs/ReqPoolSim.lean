import ActixModel.Proofs.ReqPool
/-
Simulation between two runs of the C11 model that differ in how allocations are recycled (pool
capacity): the handle tables correspond up to a renaming `f` of allocation ids that is injective
on referenced allocations, and referenced allocations have equal contents.  Used for
`C11_pool_transparent`.  Core Lean only.
-/
namespace ActixModel.ReqPool

abbrev ren (f : Nat → Nat) (l : List (Nat × Nat)) : List (Nat × Nat) := l.map (fun e => (e.1, f e.2))

theorem lookup_ren (f : Nat → Nat) (l : List (Nat × Nat)) (s : Nat) :
    (ren f l).lookup s = (l.lookup s).map f := by
  induction l with
  | nil => rfl
  | cons e t ih =>
    obtain ⟨k, v⟩ := e
    simp only [ren, List.map_cons, List.lookup_cons]
    cases (s == k) with
    | true => rfl
    | false => exact ih

theorem eraseSlot_ren (f : Nat → Nat) (l : List (Nat × Nat)) (s : Nat) :
    eraseSlot (ren f l) s = ren f (eraseSlot l s) := by
  induction l with
  | nil => rfl
  | cons e t ih =>
    obtain ⟨k, v⟩ := e
    unfold eraseSlot ren at ih ⊢
    simp only [List.map_cons, List.filter_cons]
    split
    · simp only [List.map_cons]; rw [ih]
    · exact ih

theorem bound_ren {f : Nat → Nat} {l : List (Nat × Nat)} {b : Nat} :
    Bound (ren f l) b ↔ ∃ a, Bound l a ∧ f a = b := by
  unfold Bound ren
  constructor
  · rintro ⟨e, he, rfl⟩
    obtain ⟨e0, he0, rfl⟩ := List.mem_map.mp he
    exact ⟨e0.2, ⟨e0, he0, rfl⟩, rfl⟩
  · rintro ⟨a, ⟨e0, he0, rfl⟩, rfl⟩
    exact ⟨(e0.1, f e0.2), List.mem_map.mpr ⟨e0, he0, rfl⟩, rfl⟩

theorem ren_congr {f f' : Nat → Nat} {l : List (Nat × Nat)} (h : ∀ c, Bound l c → f' c = f c) :
    ren f' l = ren f l := by
  unfold ren
  apply List.map_congr_left
  intro e he
  rw [h e.2 ⟨e, he, rfl⟩]

/-- the simulation relation -/
structure Rel (f : Nat → Nat) (w u : World) : Prop where
  slots : u.slots = ren f w.slots
  inj : ∀ a b, Bound w.slots a → Bound w.slots b → f a = f b → a = b
  heap : ∀ a, Bound w.slots a → u.heap.get (f a) = w.heap.get a
  alive : u.svcAlive = w.svcAlive

theorem Rel.lookup {f : Nat → Nat} {w u : World} (h : Rel f w u) (s : Nat) :
    u.slots.lookup s = (w.slots.lookup s).map f := by
  rw [h.slots]; exact lookup_ren f _ s

theorem Rel.bound_u {f : Nat → Nat} {w u : World} (h : Rel f w u) {a : Nat} (hb : Bound w.slots a) :
    Bound u.slots (f a) := by
  rw [h.slots]; exact bound_ren.mpr ⟨a, hb, rfl⟩

/-- operations that keep the handle tables and do not touch referenced allocations -/
theorem rel_of_frame {f : Nat → Nat} {w u w' u' : World} (h : Rel f w u)
    (hs : w'.slots = w.slots) (hs' : u'.slots = u.slots)
    (hh : ∀ a, Bound w.slots a → w'.heap.get a = w.heap.get a)
    (hh' : ∀ b, Bound u.slots b → u'.heap.get b = u.heap.get b)
    (ha : w'.svcAlive = w.svcAlive) (ha' : u'.svcAlive = u.svcAlive) : Rel f w' u' where
  slots := by rw [hs, hs']; exact h.slots
  inj := by rw [hs]; exact h.inj
  heap := by
    intro a hb
    rw [hs] at hb
    rw [hh a hb, hh' _ (h.bound_u hb)]
    exact h.heap a hb
  alive := by rw [ha, ha']; exact h.alive

theorem svcAlive_of_flags {w w' : World} (h : flags w' = flags w) : w'.svcAlive = w.svcAlive :=
  congrArg Prod.snd h

theorem dropHandle_rel {f : Nat → Nat} {w u : World} (h : Rel f w u) (a b : Nat) :
    Rel f (dropHandle w a) (dropHandle u b) :=
  rel_of_frame h (dropHandle_slots w a) (dropHandle_slots u b)
    (fun _ hb => dropHandle_get_of_bound w a hb) (fun _ hb => dropHandle_get_of_bound u b hb)
    (svcAlive_of_flags (dropHandle_flags w a)) (svcAlive_of_flags (dropHandle_flags u b))

theorem bound_cons_erase {l : List (Nat × Nat)} {s a c : Nat}
    (h : Bound ((s, a) :: eraseSlot l s) c) : c = a ∨ Bound l c := by
  obtain ⟨e, he, rfl⟩ := h
  rcases List.mem_cons.mp he with rfl | he
  · exact Or.inl rfl
  · exact Or.inr ⟨e, (mem_eraseSlot.mp he).1, rfl⟩

/-- binding a slot on both sides; `f'` may differ from `f` on unreferenced allocations -/
theorem bindSlot_rel {f f' : Nat → Nat} {w u : World} (h : Rel f w u) (s a : Nat)
    (hagree : ∀ c, Bound w.slots c → f' c = f c)
    (hinj : ∀ c, Bound w.slots c → f' c = f' a → c = a)
    (hheap : u.heap.get (f' a) = w.heap.get a) :
    Rel f' (bindSlot w s a) (bindSlot u s (f' a)) := by
  have hslots : (bindSlot u s (f' a)).slots = ren f' (bindSlot w s a).slots := by
    rw [bindSlot_slots, bindSlot_slots, h.slots, eraseSlot_ren]
    show _ = (s, f' a) :: ren f' (eraseSlot w.slots s)
    rw [ren_congr (f := f) (f' := f')]
    intro c hc
    exact hagree c (bound_of_eraseSlot hc)
  refine ⟨hslots, ?_, ?_, ?_⟩
  · intro x y hx hy hxy
    rw [bindSlot_slots] at hx hy
    rcases bound_cons_erase hx with ex | hx' <;> rcases bound_cons_erase hy with ey | hy'
    · rw [ex, ey]
    · rw [ex] at hxy ⊢; exact (hinj y hy' hxy.symm).symm
    · rw [ey] at hxy ⊢; exact hinj x hx' hxy
    · rw [hagree x hx', hagree y hy'] at hxy; exact h.inj x y hx' hy' hxy
  · intro c hc
    have hcu : Bound (bindSlot u s (f' a)).slots (f' c) := by
      rw [hslots]; exact bound_ren.mpr ⟨c, hc, rfl⟩
    rw [bindSlot_get_of_bound w s a hc, bindSlot_get_of_bound u s (f' a) hcu]
    rw [bindSlot_slots] at hc
    rcases bound_cons_erase hc with rfl | hc
    · exact hheap
    · rw [hagree c hc]; exact h.heap c hc
  · rw [svcAlive_of_flags (bindSlot_flags w s a), svcAlive_of_flags (bindSlot_flags u s (f' a))]
    exact h.alive

theorem dropSlot_rel {f : Nat → Nat} {w u : World} (h : Rel f w u) (s : Nat) :
    Rel f (dropSlot w s) (dropSlot u s) := by
  have hslots : (dropSlot u s).slots = ren f (dropSlot w s).slots := by
    rw [dropSlot_slots, dropSlot_slots, h.slots, eraseSlot_ren]
  refine ⟨hslots, ?_, ?_, ?_⟩
  · intro x y hx hy
    rw [dropSlot_slots] at hx hy
    exact h.inj x y (bound_of_eraseSlot hx) (bound_of_eraseSlot hy)
  · intro c hc
    have hcu : Bound (dropSlot u s).slots (f c) := by
      rw [hslots]; exact bound_ren.mpr ⟨c, hc, rfl⟩
    rw [dropSlot_get_of_bound w s hc, dropSlot_get_of_bound u s hcu]
    rw [dropSlot_slots] at hc
    exact h.heap c (bound_of_eraseSlot hc)
  · rw [svcAlive_of_flags (dropSlot_flags w s), svcAlive_of_flags (dropSlot_flags u s)]
    exact h.alive

theorem cloneSlot_rel {f : Nat → Nat} {w u : World} (h : Rel f w u) (s s2 : Nat) :
    Rel f (cloneSlot w s s2) (cloneSlot u s s2) := by
  unfold cloneSlot
  rw [h.lookup s]
  cases hl : w.slots.lookup s with
  | none => exact h
  | some a =>
    have hb : Bound w.slots a := ⟨_, lookup_mem _ _ _ hl, rfl⟩
    exact bindSlot_rel h s2 a (fun _ _ => rfl) (fun c hc e => h.inj c a hc hb e) (h.heap a hb)

theorem foldl_cloneSlot_rel {f : Nat → Nat} (ss : List Nat) (s0 : Nat) {w u : World} (h : Rel f w u) :
    Rel f (ss.foldl (fun w s => cloneSlot w s0 s) w) (ss.foldl (fun w s => cloneSlot w s0 s) u) := by
  induction ss generalizing w u with
  | nil => exact h
  | cons s t ih => exact ih (cloneSlot_rel h s0 s)

/-- writing the same value into corresponding referenced allocations -/
theorem setHeap_rel {f : Nat → Nat} {w u : World} (h : Rel f w u) {a : Nat} (hb : Bound w.slots a)
    (v : Inner) :
    Rel f { w with heap := w.heap.set a v } { u with heap := u.heap.set (f a) v } where
  slots := h.slots
  inj := h.inj
  heap := by
    intro c hc
    show (u.heap.set (f a) v).get (f c) = (w.heap.set a v).get c
    rw [Heap.get_set, Heap.get_set]
    by_cases e : c = a
    · subst e; simp
    · have : f c ≠ f a := fun e' => e (h.inj c a hc hb e')
      simp only [e, this, if_false]
      exact h.heap c hc
  alive := h.alive

theorem acquirePre_svcAlive (cfg : Cfg) (w : World) (r : Req) :
    (acquirePre cfg w r).1.svcAlive = w.svcAlive := by
  unfold acquirePre; cases w.pool <;> rfl

/-- `AppInitService::call` on both sides: the two new allocations are put in correspondence -/
theorem acquire_rel {cfg : Cfg} {f : Nat → Nat} {w u : World} (r : Req)
    (hw : Inv cfg w) (hu : Inv cfg u) (h : Rel f w u) :
    ∃ f', Rel f' (acquire cfg w r).1 (acquire cfg u r).1 ∧
      f' (acquire cfg w r).2 = (acquire cfg u r).2 := by
  obtain ⟨a, ha⟩ : ∃ a, a = (acquirePre cfg w r).2 := ⟨_, rfl⟩
  obtain ⟨b, hb⟩ : ∃ b, b = (acquirePre cfg u r).2 := ⟨_, rfl⟩
  have hpre : Rel f (acquirePre cfg w r).1 (acquirePre cfg u r).1 :=
    rel_of_frame h (acquirePre_slots cfg w r) (acquirePre_slots cfg u r)
      (fun c hc => (acquirePre_get_other r hw hc).1) (fun c hc => (acquirePre_get_other r hu hc).1)
      (acquirePre_svcAlive cfg w r) (acquirePre_svcAlive cfg u r)
  refine ⟨fun c => if c = a then b else f c, ?_, ?_⟩
  · rw [acquire_eq, acquire_eq]
    simp only
    rw [← ha, ← hb]
    have := bindSlot_rel (f' := fun c => if c = a then b else f c) hpre origSlot a
      (by
        intro c hc
        rw [acquirePre_slots] at hc
        have : c ≠ a := ha ▸ (acquirePre_get_other r hw hc).2
        simp [this])
      (by
        intro c hc e
        rw [acquirePre_slots] at hc
        have hne : c ≠ a := ha ▸ (acquirePre_get_other r hw hc).2
        simp only [hne, if_false, if_true] at e
        -- f c is referenced in u, b is not
        have hbu : Bound u.slots (f c) := h.bound_u hc
        exact absurd e (hb ▸ (acquirePre_get_other r hu hbu).2))
      (by
        simp only [if_true]
        rw [ha, hb, acquirePre_get r hu, acquirePre_get r hw])
    simp only [if_true] at this
    exact this
  · rw [acquire_eq, acquire_eq]; simp only; rw [← ha, ← hb]; simp

theorem noteConn_rel {f : Nat → Nat} {w u : World} (h : Rel f w u) (c : Option Nat) :
    Rel f (noteConn w c) (noteConn u c) :=
  rel_of_frame h (noteConn_slots w c) (noteConn_slots u c)
    (fun _ _ => by rw [noteConn_heap]) (fun _ _ => by rw [noteConn_heap])
    (svcAlive_of_flags (noteConn_flags w c)) (svcAlive_of_flags (noteConn_flags u c))

theorem serve_rel {cfg : Cfg} {f : Nat → Nat} {w u : World} (r : Req) (acts : List Act)
    (hw : Inv cfg w) (hu : Inv cfg u) (h : Rel f w u) :
    (∃ f', Rel f' (serve cfg w r acts).1 (serve cfg u r acts).1) ∧
      (serve cfg w r acts).2 = (serve cfg u r acts).2 := by
  rw [serve_eq r acts hw, serve_eq r acts hu]
  refine ⟨?_, rfl⟩
  obtain ⟨f', hacq, hfa⟩ := acquire_rel r hw hu h
  refine ⟨f', ?_⟩
  simp only
  apply dropSlot_rel
  unfold servedWorld
  apply foldl_cloneSlot_rel
  have h1 := noteConn_rel hacq r.connData
  have hb : Bound (noteConn (acquire cfg w r).1 r.connData).slots (acquire cfg w r).2 := by
    rw [noteConn_slots]; exact ⟨_, acquire_mem cfg w r, rfl⟩
  have := setHeap_rel h1 hb (runHandler cfg (fresh cfg.root r) acts).inner
  rw [hfa] at this
  exact this

theorem step_rel {cfg : Cfg} {f : Nat → Nat} {w u : World} (op : Op)
    (hw : Inv cfg w) (hu : Inv cfg u) (h : Rel f w u) :
    (∃ f', Rel f' (step cfg w op).1 (step cfg u op).1) ∧ (step cfg w op).2 = (step cfg u op).2 := by
  cases op with
  | serve r acts =>
    simp only [step, h.alive]
    split
    · exact serve_rel r acts hw hu h
    · exact ⟨⟨f, h⟩, by first | rfl | trivial⟩
  | drop s =>
    simp only [step, h.lookup s]
    cases w.slots.lookup s with
    | none => exact ⟨⟨f, h⟩, by first | rfl | trivial⟩
    | some a => exact ⟨⟨f, dropSlot_rel h s⟩, by first | rfl | trivial⟩
  | view s =>
    simp only [step, h.lookup s]
    cases hl : w.slots.lookup s with
    | none => exact ⟨⟨f, h⟩, by first | rfl | trivial⟩
    | some a =>
      have hb : Bound w.slots a := ⟨_, lookup_mem _ _ _ hl, by first | rfl | trivial⟩
      simp only [Option.map_some, h.heap a hb]
      cases w.heap.get a <;> exact ⟨⟨f, h⟩, by first | rfl | trivial⟩
  | ext s t v =>
    simp only [step, h.lookup s]
    cases hl : w.slots.lookup s with
    | none => exact ⟨⟨f, h⟩, by first | rfl | trivial⟩
    | some a =>
      have hb : Bound w.slots a := ⟨_, lookup_mem _ _ _ hl, by first | rfl | trivial⟩
      simp only [Option.map_some, modifyHeap, h.heap a hb]
      cases w.heap.get a with
      | none => exact ⟨⟨f, h⟩, by first | rfl | trivial⟩
      | some i => exact ⟨⟨f, setHeap_rel h hb _⟩, by first | rfl | trivial⟩
  | clone s s2 =>
    simp only [step, h.lookup s]
    cases w.slots.lookup s with
    | none => exact ⟨⟨f, h⟩, by first | rfl | trivial⟩
    | some a => exact ⟨⟨f, cloneSlot_rel h s s2⟩, by first | rfl | trivial⟩
  | disable =>
    simp only [step]
    refine ⟨⟨f, ?_⟩, by first | rfl | trivial⟩
    refine ⟨h.slots, h.inj, ?_, by first | rfl | trivial⟩
    intro a hb
    have hbu := h.bound_u hb
    show Heap.get (u.heap.filter (fun e => !u.pool.contains e.1)) (f a) =
      Heap.get (w.heap.filter (fun e => !w.pool.contains e.1)) a
    rw [Heap.get_filter w.heap (fun k => !w.pool.contains k),
      Heap.get_filter u.heap (fun k => !u.pool.contains k)]
    have h1 : a ∉ w.pool := fun hp => hw.poolUnref _ hp hb
    have h2 : f a ∉ u.pool := fun hp => hu.poolUnref _ hp hbu
    simp only [List.contains_eq_mem, h1, h2, decide_false, Bool.not_false, if_true]
    exact h.heap a hb
  | closeConn c =>
    simp only [step]
    exact ⟨⟨f, ⟨h.slots, h.inj, h.heap, h.alive⟩⟩, by first | rfl | trivial⟩

theorem run_fst (cfg : Cfg) (ops : List Op) (w : World) : (run cfg w ops).1 = runW cfg w ops := by
  unfold runW
  induction ops generalizing w with
  | nil => rfl
  | cons op t ih => simp only [run, List.foldl_cons]; exact ih _

theorem run_rel {cfg : Cfg} (ops : List Op) {f : Nat → Nat} {w u : World}
    (hw : Inv cfg w) (hu : Inv cfg u) (h : Rel f w u) :
    (run cfg w ops).2 = (run cfg u ops).2 := by
  induction ops generalizing f w u with
  | nil => rfl
  | cons op t ih =>
    obtain ⟨⟨f', hrel⟩, hout⟩ := step_rel op hw hu h
    simp only [run]
    rw [hout, ih (step_inv op hw) (step_inv op hu) hrel]

theorem init_rel (cap cap' : Nat) : Rel id (World.init cap) (World.init cap') where
  slots := rfl
  inj := by intro a b ha; obtain ⟨e, he, _⟩ := ha; cases he
  heap := by intro a ha; obtain ⟨e, he, _⟩ := ha; cases he
  alive := rfl

end ActixModel.ReqPool
