import ActixModel.Model.Route
/-
Spec relation and helper lemmas for C09 (app routing).  Core only.
-/
namespace ActixModel.Route

variable {Pat : Type}

/-! ## guards -/

/-- every guard of the list accepts the request -/
def GuardsOk (req : Req) (gs : List Guard) : Prop := ∀ g ∈ gs, Guard.eval req g = true

theorem evalAll_iff (req : Req) (gs : List Guard) : evalAll req gs = true ↔ GuardsOk req gs := by
  induction gs with
  | nil => simp [evalAll, GuardsOk]
  | cons g gs ih => simp [evalAll, GuardsOk, ih] at *

theorem evalAny_iff (req : Req) (gs : List Guard) :
    evalAny req gs = true ↔ ∃ g ∈ gs, Guard.eval req g = true := by
  induction gs with
  | nil => simp [evalAny]
  | cons g gs ih => simp [evalAny, ih]

instance (req : Req) (gs : List Guard) : Decidable (GuardsOk req gs) :=
  decidable_of_iff _ (evalAll_iff req gs)

/-! ## the declarative spec -/

/-- node `n`'s pattern matches the not-yet-matched part of the path (scopes: as a prefix ending at
a segment boundary — that is the matcher's `isPrefix` mode) with length `len` and captures
`caps`, and all its guards accept the request -/
def Matches (matchPat : Matcher Pat) (req : Req) (n : Node Pat) (st : St) (len : Nat)
    (caps : List Cap) : Prop :=
  matchPat n.pat n.isPrefix (unprocessed req st) = some (len, caps) ∧ GuardsOk req n.guards

/-- `n` is passed over: its pattern does not match or a guard rejects -/
def Rejects (matchPat : Matcher Pat) (req : Req) (n : Node Pat) (st : St) : Prop :=
  ∀ len caps, ¬ Matches matchPat req n st len caps

/-- `Serves n st inh out`: the service of node `n`, entered in (committed) state `st`, with `inh`
the default service of the enclosing configuration, answers with `out`.

* resource: the first route (registration order) whose guards accept; otherwise the resource's
  default service, which is 405 unless registered;
* scope: the first child (registration order) that `Matches` is committed to — later siblings are
  never consulted even if the child ends in a default — otherwise the nearest default: the
  scope's own, else the inherited one. -/
inductive Serves (matchPat : Matcher Pat) (req : Req) : Node Pat → St → Target → Outcome → Prop
  | route {pat gs data routes dflt st inh} (pre : List Route) (r : Route) (post : List Route) :
      routes = pre ++ r :: post →
      (∀ r' ∈ pre, ¬ GuardsOk req r'.guards) →
      GuardsOk req r.guards →
      Serves matchPat req (.resource pat gs data routes dflt) st inh ⟨.handler r.handler, st⟩
  | noRoute {pat gs data routes dflt st inh} :
      (∀ r ∈ routes, ¬ GuardsOk req r.guards) →
      Serves matchPat req (.resource pat gs data routes dflt) st inh ⟨effDefault dflt .notAllowed, st⟩
  | child {pat gs data children dflt st inh out} (pre : List (Node Pat)) (c : Node Pat)
      (post : List (Node Pat)) (len : Nat) (caps : List Cap) :
      children = pre ++ c :: post →
      (∀ c' ∈ pre, Rejects matchPat req c' st) →
      Matches matchPat req c st len caps →
      Serves matchPat req c (commit st len caps c.data pre.length) (effDefault dflt inh) out →
      Serves matchPat req (.scope pat gs data children dflt) st inh out
  | noChild {pat gs data children dflt st inh} :
      (∀ c ∈ children, Rejects matchPat req c st) →
      Serves matchPat req (.scope pat gs data children dflt) st inh ⟨effDefault dflt inh, st⟩

/-- `Routes app req out`: the application answers `req` with `out` — the first top-level service
that matches is committed to; otherwise the app's default service (404 unless registered). -/
inductive Routes (matchPat : Matcher Pat) (app : App Pat) (req : Req) : Outcome → Prop
  | child {out} (pre : List (Node Pat)) (c : Node Pat) (post : List (Node Pat)) (len : Nat)
      (caps : List Cap) :
      app.children = pre ++ c :: post →
      (∀ c' ∈ pre, Rejects matchPat req c' (St.init app)) →
      Matches matchPat req c (St.init app) len caps →
      Serves matchPat req c (commit (St.init app) len caps c.data pre.length)
        (effDefault app.dflt .notFound) out →
      Routes matchPat app req out
  | noChild :
      (∀ c ∈ app.children, Rejects matchPat req c (St.init app)) →
      Routes matchPat app req ⟨effDefault app.dflt .notFound, St.init app⟩

/-! ## `accept` versus `Matches` / `Rejects` -/

theorem accept_eq_some {matchPat : Matcher Pat} {req : Req} {n : Node Pat} {st st' : St} {i : Nat} :
    accept matchPat req n st i = some st' ↔
      ∃ len caps, Matches matchPat req n st len caps ∧ st' = commit st len caps n.data i := by
  unfold accept Matches
  cases h : matchPat n.pat n.isPrefix (unprocessed req st) with
  | none => simp
  | some r =>
    obtain ⟨len, caps⟩ := r
    by_cases hg : evalAll req n.guards = true
    · have hg' := (evalAll_iff req n.guards).1 hg
      simp only [hg, if_true, Option.some.injEq]
      constructor
      · intro e; exact ⟨len, caps, ⟨rfl, hg'⟩, e.symm⟩
      · rintro ⟨l, c, ⟨e, _⟩, rfl⟩
        simp only [Prod.mk.injEq] at e
        obtain ⟨rfl, rfl⟩ := e; rfl
    · have hg' : ¬ GuardsOk req n.guards := fun h => hg ((evalAll_iff req n.guards).2 h)
      simp only [hg]
      constructor
      · intro e; simp at e
      · rintro ⟨l, c, ⟨_, g⟩, _⟩; exact absurd g hg'

theorem accept_eq_none {matchPat : Matcher Pat} {req : Req} {n : Node Pat} {st : St} {i : Nat} :
    accept matchPat req n st i = none ↔ Rejects matchPat req n st := by
  constructor
  · intro h len caps hm
    have : accept matchPat req n st i = some (commit st len caps n.data i) :=
      accept_eq_some.2 ⟨len, caps, hm, rfl⟩
    rw [h] at this; cases this
  · intro h
    cases ha : accept matchPat req n st i with
    | none => rfl
    | some st' =>
      obtain ⟨len, caps, hm, _⟩ := accept_eq_some.1 ha
      exact absurd hm (h len caps)

/-- a match is unique: the matcher is a function -/
theorem Matches.unique {matchPat : Matcher Pat} {req : Req} {n : Node Pat} {st : St}
    {l₁ l₂ : Nat} {c₁ c₂ : List Cap}
    (h₁ : Matches matchPat req n st l₁ c₁) (h₂ : Matches matchPat req n st l₂ c₂) :
    l₁ = l₂ ∧ c₁ = c₂ := by
  have := h₁.1.symm.trans h₂.1
  simp only [Option.some.injEq, Prod.mk.injEq] at this
  exact this

/-! ## `firstRoute` -/

theorem firstRoute_eq_some {req : Req} {routes : List Route} {h : Nat} :
    firstRoute req routes = some h ↔
      ∃ pre r post, routes = pre ++ r :: post ∧ (∀ r' ∈ pre, ¬ GuardsOk req r'.guards) ∧
        GuardsOk req r.guards ∧ r.handler = h := by
  induction routes with
  | nil => simp [firstRoute]
  | cons r rs ih =>
    unfold firstRoute
    by_cases hg : evalAll req r.guards = true
    · have hg' := (evalAll_iff req r.guards).1 hg
      simp only [hg, if_true, Option.some.injEq]
      constructor
      · intro e; exact ⟨[], r, rs, rfl, by simp, hg', e⟩
      · rintro ⟨pre, r', post, e, hpre, _, eh⟩
        cases pre with
        | nil => simp only [List.nil_append, List.cons.injEq] at e; rw [e.1]; exact eh
        | cons p pre' =>
          simp only [List.cons_append, List.cons.injEq] at e
          exact absurd (e.1 ▸ hg') (hpre p (by simp))
    · have hg' : ¬ GuardsOk req r.guards := fun h => hg ((evalAll_iff req r.guards).2 h)
      rw [if_neg hg, ih]
      constructor
      · rintro ⟨pre, r', post, e, hpre, hr, eh⟩
        refine ⟨r :: pre, r', post, by simp [e], ?_, hr, eh⟩
        intro x hx
        simp only [List.mem_cons] at hx
        rcases hx with rfl | hx
        · exact hg'
        · exact hpre x hx
      · rintro ⟨pre, r', post, e, hpre, hr, eh⟩
        cases pre with
        | nil =>
          simp only [List.nil_append, List.cons.injEq] at e
          exact absurd (e.1 ▸ hr) hg'
        | cons p pre' =>
          simp only [List.cons_append, List.cons.injEq] at e
          exact ⟨pre', r', post, e.2, fun x hx => hpre x (by simp [hx]), hr, eh⟩

theorem firstRoute_eq_none {req : Req} {routes : List Route} :
    firstRoute req routes = none ↔ ∀ r ∈ routes, ¬ GuardsOk req r.guards := by
  induction routes with
  | nil => simp [firstRoute]
  | cons r rs ih =>
    unfold firstRoute
    by_cases hg : evalAll req r.guards = true
    · have hg' := (evalAll_iff req r.guards).1 hg
      simp only [hg, if_true]
      constructor
      · intro e; cases e
      · intro h; exact absurd hg' (h r (by simp))
    · have hg' : ¬ GuardsOk req r.guards := fun h => hg ((evalAll_iff req r.guards).2 h)
      rw [if_neg hg, ih]
      constructor
      · intro h x hx
        simp only [List.mem_cons] at hx
        rcases hx with rfl | hx
        · exact hg'
        · exact h x hx
      · intro h x hx; exact h x (by simp [hx])

/-! ## `routeList` = first accepted entry of the list -/

theorem routeList_eq_none {matchPat : Matcher Pat} {req : Req} {ns : List (Node Pat)} {st : St}
    {d : Target} {i : Nat} :
    routeList matchPat req ns st d i = none ↔ ∀ c ∈ ns, Rejects matchPat req c st := by
  induction ns generalizing i with
  | nil => simp [routeList]
  | cons n ns ih =>
    rw [routeList]
    cases ha : accept matchPat req n st i with
    | some st' =>
      simp only
      constructor
      · intro e; cases e
      · intro h
        have := (accept_eq_none (i := i)).2 (h n (by simp))
        rw [ha] at this; cases this
    | none =>
      simp only
      rw [ih]
      have hr := accept_eq_none.1 ha
      constructor
      · intro h x hx
        simp only [List.mem_cons] at hx
        rcases hx with rfl | hx
        · exact hr
        · exact h x hx
      · intro h x hx; exact h x (by simp [hx])

theorem routeList_eq_some {matchPat : Matcher Pat} {req : Req} {ns : List (Node Pat)} {st : St}
    {d : Target} {i : Nat} {o : Outcome} :
    routeList matchPat req ns st d i = some o ↔
      ∃ pre c post len caps, ns = pre ++ c :: post ∧ (∀ c' ∈ pre, Rejects matchPat req c' st) ∧
        Matches matchPat req c st len caps ∧
        o = serve matchPat req c (commit st len caps c.data (i + pre.length)) d := by
  induction ns generalizing i with
  | nil => simp [routeList]
  | cons n ns ih =>
    rw [routeList]
    cases ha : accept matchPat req n st i with
    | some st' =>
      simp only [Option.some.injEq]
      obtain ⟨len, caps, hm, rfl⟩ := accept_eq_some.1 ha
      constructor
      · intro e; exact ⟨[], n, ns, len, caps, rfl, by simp, hm, by simpa using e.symm⟩
      · rintro ⟨pre, c, post, l, cs, e, hpre, hm', rfl⟩
        cases pre with
        | nil =>
          simp only [List.nil_append, List.cons.injEq] at e
          obtain ⟨rfl, _⟩ := e
          obtain ⟨rfl, rfl⟩ := hm.unique hm'
          simp
        | cons p pre' =>
          simp only [List.cons_append, List.cons.injEq] at e
          obtain ⟨rfl, _⟩ := e
          exact absurd hm (hpre _ (by simp) len caps)
    | none =>
      simp only
      rw [ih]
      have hr := accept_eq_none.1 ha
      constructor
      · rintro ⟨pre, c, post, l, cs, e, hpre, hm, rfl⟩
        refine ⟨n :: pre, c, post, l, cs, by simp [e], ?_, hm, ?_⟩
        · intro x hx
          simp only [List.mem_cons] at hx
          rcases hx with rfl | hx
          · exact hr
          · exact hpre x hx
        · simp [Nat.add_assoc, Nat.add_comm 1]
      · rintro ⟨pre, c, post, l, cs, e, hpre, hm, rfl⟩
        cases pre with
        | nil =>
          simp only [List.nil_append, List.cons.injEq] at e
          obtain ⟨rfl, _⟩ := e
          exact absurd hm (hr l cs)
        | cons p pre' =>
          simp only [List.cons_append, List.cons.injEq] at e
          obtain ⟨rfl, rfl⟩ := e
          refine ⟨pre', c, post, l, cs, rfl, fun x hx => hpre x (by simp [hx]), hm, ?_⟩
          simp [Nat.add_assoc, Nat.add_comm 1]

/-! ## model ⊆ spec and spec ⊆ model -/

theorem sizeOf_lt_of_mem_children {pat : Pat} {gs : List Guard} {data : Option Nat}
    {children : List (Node Pat)} {dflt : Option Nat} {c : Node Pat} (h : c ∈ children) :
    sizeOf c < sizeOf (Node.scope pat gs data children dflt) := by
  have := List.sizeOf_lt_of_mem h
  simp only [Node.scope.sizeOf_spec]
  omega

/-- the executable router satisfies the spec, for every node of every table -/
theorem serve_sound (matchPat : Matcher Pat) (req : Req) :
    ∀ (n : Node Pat) (st : St) (inh : Target), Serves matchPat req n st inh (serve matchPat req n st inh)
  | .resource pat gs data routes dflt, st, inh => by
    rw [serve]
    cases hf : firstRoute req routes with
    | some h =>
      obtain ⟨pre, r, post, e, hpre, hr, rfl⟩ := firstRoute_eq_some.1 hf
      exact Serves.route pre r post e hpre hr
    | none => exact Serves.noRoute (firstRoute_eq_none.1 hf)
  | .scope pat gs data children dflt, st, inh => by
    rw [serve]
    cases hl : routeList matchPat req children st (effDefault dflt inh) 0 with
    | some o =>
      obtain ⟨pre, c, post, len, caps, e, hpre, hm, rfl⟩ := routeList_eq_some.1 hl
      have hc : c ∈ children := by rw [e]; simp
      have := serve_sound matchPat req c (commit st len caps c.data (0 + pre.length)) (effDefault dflt inh)
      simp only [Nat.zero_add] at this ⊢
      exact Serves.child pre c post len caps e hpre hm this
    | none => exact Serves.noChild (routeList_eq_none.1 hl)
termination_by n => sizeOf n
decreasing_by exact sizeOf_lt_of_mem_children hc

/-- the spec is functional and the executable router computes it -/
theorem serve_complete {matchPat : Matcher Pat} {req : Req} {n : Node Pat} {st : St} {inh : Target}
    {out : Outcome} (h : Serves matchPat req n st inh out) : out = serve matchPat req n st inh := by
  induction h with
  | route pre r post e hpre hr =>
    rw [serve, firstRoute_eq_some.2 ⟨pre, r, post, e, hpre, hr, rfl⟩]
  | noRoute hall =>
    rw [serve, firstRoute_eq_none.2 hall]
  | child pre c post len caps e hpre hm _ ih =>
    rw [serve, routeList_eq_some.2 ⟨pre, c, post, len, caps, e, hpre, hm, rfl⟩]
    simpa using ih
  | noChild hall =>
    rw [serve, routeList_eq_none.2 hall]

end ActixModel.Route
