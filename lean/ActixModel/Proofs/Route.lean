import ActixModel.Model.Route
/-
Spec relation and helper lemmas for C09 (app routing).  Core only.
-/
namespace ActixModel.Route

variable {Pat : Type}

/-! ## guards -/

/-- every guard of the list accepts the request -/
def GuardsOk (req : Req) (gs : List Guard) : Prop := ∀ g ∈ gs, Guard.eval req g = true

theorem evalAll_iff (req : Req) (gs : List Guard) : evalAll req gs = true ↔ GuardsOk req gs := by
  induction gs with
  | nil => simp [evalAll, GuardsOk]
  | cons g gs ih => simp [evalAll, GuardsOk, ih] at *

theorem evalAny_iff (req : Req) (gs : List Guard) :
    evalAny req gs = true ↔ ∃ g ∈ gs, Guard.eval req g = true := by
  induction gs with
  | nil => simp [evalAny]
  | cons g gs ih => simp [evalAny, ih]

instance (req : Req) (gs : List Guard) : Decidable (GuardsOk req gs) :=
  decidable_of_iff _ (evalAll_iff req gs)

/-! ## the declarative spec -/

/-- node `n`'s pattern matches the not-yet-matched part of the path (scopes: as a prefix ending at
a segment boundary — that is the matcher's `isPrefix` mode) with length `len` and captures
`caps`, and all its guards accept the request -/
def Matches (matchPat : Matcher Pat) (req : Req) (n : Node Pat) (st : St) (len : Nat)
    (caps : List Cap) : Prop :=
  matchPat n.pat n.isPrefix (unprocessed req st) = some (len, caps) ∧ GuardsOk (req.seen st) n.guards

/-- `n` is passed over: its pattern does not match or a guard rejects -/
def Rejects (matchPat : Matcher Pat) (req : Req) (n : Node Pat) (st : St) : Prop :=
  ∀ len caps, ¬ Matches matchPat req n st len caps

/-- `Serves n st inh out`: the service of node `n`, entered in (committed) state `st`, with `inh`
the default service of the enclosing configuration, answers with `out`.

* resource: the first route (registration order) whose guards accept; otherwise the resource's
  default service, which is 405 unless registered;
* scope: the first child (registration order) that `Matches` is committed to — later siblings are
  never consulted even if the child ends in a default — otherwise the nearest default: the
  scope's own, else the inherited one. -/
inductive Serves (matchPat : Matcher Pat) (req : Req) : Node Pat → St → Target → Outcome → Prop
  | route {pat gs data routes dflt st inh} (pre : List Route) (r : Route) (post : List Route) :
      routes = pre ++ r :: post →
      (∀ r' ∈ pre, ¬ GuardsOk (req.seen st) r'.guards) →
      GuardsOk (req.seen st) r.guards →
      Serves matchPat req (.resource pat gs data routes dflt) st inh ⟨.handler r.handler, st⟩
  | noRoute {pat gs data routes dflt st inh} :
      (∀ r ∈ routes, ¬ GuardsOk (req.seen st) r.guards) →
      Serves matchPat req (.resource pat gs data routes dflt) st inh ⟨effDefault dflt .notAllowed, st⟩
  | child {pat gs data children dflt st inh out} (pre : List (Node Pat)) (c : Node Pat)
      (post : List (Node Pat)) (len : Nat) (caps : List Cap) :
      children = pre ++ c :: post →
      (∀ c' ∈ pre, Rejects matchPat req c' st) →
      Matches matchPat req c st len caps →
      Serves matchPat req c (commit st len caps c.data pre.length) (effDefault dflt inh) out →
      Serves matchPat req (.scope pat gs data children dflt) st inh out
  | noChild {pat gs data children dflt st inh} :
      (∀ c ∈ children, Rejects matchPat req c st) →
      Serves matchPat req (.scope pat gs data children dflt) st inh ⟨effDefault dflt inh, st⟩

/-- `Routes app req out`: the application answers `req` with `out` — the first top-level service
that matches is committed to; otherwise the app's default service (404 unless registered). -/
inductive Routes (matchPat : Matcher Pat) (app : App Pat) (req : Req) : Outcome → Prop
  | child {out} (pre : List (Node Pat)) (c : Node Pat) (post : List (Node Pat)) (len : Nat)
      (caps : List Cap) :
      app.children = pre ++ c :: post →
      (∀ c' ∈ pre, Rejects matchPat req c' (St.init app)) →
      Matches matchPat req c (St.init app) len caps →
      Serves matchPat req c (commit (St.init app) len caps c.data pre.length)
        (effDefault app.dflt .notFound) out →
      Routes matchPat app req out
  | noChild :
      (∀ c ∈ app.children, Rejects matchPat req c (St.init app)) →
      Routes matchPat app req ⟨effDefault app.dflt .notFound, St.init app⟩

/-! ## `accept` versus `Matches` / `Rejects` -/

theorem accept_eq_some {matchPat : Matcher Pat} {req : Req} {n : Node Pat} {st st' : St} {i : Nat} :
    accept matchPat req n st i = some st' ↔
      ∃ len caps, Matches matchPat req n st len caps ∧ st' = commit st len caps n.data i := by
  unfold accept Matches
  cases h : matchPat n.pat n.isPrefix (unprocessed req st) with
  | none => simp
  | some r =>
    obtain ⟨len, caps⟩ := r
    by_cases hg : evalAll (req.seen st) n.guards = true
    · have hg' := (evalAll_iff (req.seen st) n.guards).1 hg
      simp only [hg, if_true, Option.some.injEq]
      constructor
      · intro e; exact ⟨len, caps, ⟨rfl, hg'⟩, e.symm⟩
      · rintro ⟨l, c, ⟨e, _⟩, rfl⟩
        simp only [Prod.mk.injEq] at e
        obtain ⟨rfl, rfl⟩ := e; rfl
    · have hg' : ¬ GuardsOk (req.seen st) n.guards := fun h => hg ((evalAll_iff (req.seen st) n.guards).2 h)
      simp only [hg]
      constructor
      · intro e; simp at e
      · rintro ⟨l, c, ⟨_, g⟩, _⟩; exact absurd g hg'

theorem accept_eq_none {matchPat : Matcher Pat} {req : Req} {n : Node Pat} {st : St} {i : Nat} :
    accept matchPat req n st i = none ↔ Rejects matchPat req n st := by
  constructor
  · intro h len caps hm
    have : accept matchPat req n st i = some (commit st len caps n.data i) :=
      accept_eq_some.2 ⟨len, caps, hm, rfl⟩
    rw [h] at this; cases this
  · intro h
    cases ha : accept matchPat req n st i with
    | none => rfl
    | some st' =>
      obtain ⟨len, caps, hm, _⟩ := accept_eq_some.1 ha
      exact absurd hm (h len caps)

/-- a match is unique: the matcher is a function -/
theorem Matches.unique {matchPat : Matcher Pat} {req : Req} {n : Node Pat} {st : St}
    {l₁ l₂ : Nat} {c₁ c₂ : List Cap}
    (h₁ : Matches matchPat req n st l₁ c₁) (h₂ : Matches matchPat req n st l₂ c₂) :
    l₁ = l₂ ∧ c₁ = c₂ := by
  have := h₁.1.symm.trans h₂.1
  simp only [Option.some.injEq, Prod.mk.injEq] at this
  exact this

/-! ## `firstRoute` -/

theorem firstRoute_eq_some {req : Req} {routes : List Route} {h : Nat} :
    firstRoute req routes = some h ↔
      ∃ pre r post, routes = pre ++ r :: post ∧ (∀ r' ∈ pre, ¬ GuardsOk req r'.guards) ∧
        GuardsOk req r.guards ∧ r.handler = h := by
  induction routes with
  | nil => simp [firstRoute]
  | cons r rs ih =>
    unfold firstRoute
    by_cases hg : evalAll req r.guards = true
    · have hg' := (evalAll_iff req r.guards).1 hg
      simp only [hg, if_true, Option.some.injEq]
      constructor
      · intro e; exact ⟨[], r, rs, rfl, by simp, hg', e⟩
      · rintro ⟨pre, r', post, e, hpre, _, eh⟩
        cases pre with
        | nil => simp only [List.nil_append, List.cons.injEq] at e; rw [e.1]; exact eh
        | cons p pre' =>
          simp only [List.cons_append, List.cons.injEq] at e
          exact absurd (e.1 ▸ hg') (hpre p (by simp))
    · have hg' : ¬ GuardsOk req r.guards := fun h => hg ((evalAll_iff req r.guards).2 h)
      rw [if_neg hg, ih]
      constructor
      · rintro ⟨pre, r', post, e, hpre, hr, eh⟩
        refine ⟨r :: pre, r', post, by simp [e], ?_, hr, eh⟩
        intro x hx
        simp only [List.mem_cons] at hx
        rcases hx with rfl | hx
        · exact hg'
        · exact hpre x hx
      · rintro ⟨pre, r', post, e, hpre, hr, eh⟩
        cases pre with
        | nil =>
          simp only [List.nil_append, List.cons.injEq] at e
          exact absurd (e.1 ▸ hr) hg'
        | cons p pre' =>
          simp only [List.cons_append, List.cons.injEq] at e
          exact ⟨pre', r', post, e.2, fun x hx => hpre x (by simp [hx]), hr, eh⟩

theorem firstRoute_eq_none {req : Req} {routes : List Route} :
    firstRoute req routes = none ↔ ∀ r ∈ routes, ¬ GuardsOk req r.guards := by
  induction routes with
  | nil => simp [firstRoute]
  | cons r rs ih =>
    unfold firstRoute
    by_cases hg : evalAll req r.guards = true
    · have hg' := (evalAll_iff req r.guards).1 hg
      simp only [hg, if_true]
      constructor
      · intro e; cases e
      · intro h; exact absurd hg' (h r (by simp))
    · have hg' : ¬ GuardsOk req r.guards := fun h => hg ((evalAll_iff req r.guards).2 h)
      rw [if_neg hg, ih]
      constructor
      · intro h x hx
        simp only [List.mem_cons] at hx
        rcases hx with rfl | hx
        · exact hg'
        · exact h x hx
      · intro h x hx; exact h x (by simp [hx])

/-! ## `routeList` = first accepted entry of the list -/

theorem routeList_eq_none {matchPat : Matcher Pat} {req : Req} {ns : List (Node Pat)} {st : St}
    {d : Target} {i : Nat} :
    routeList matchPat req ns st d i = none ↔ ∀ c ∈ ns, Rejects matchPat req c st := by
  induction ns generalizing i with
  | nil => simp [routeList]
  | cons n ns ih =>
    rw [routeList]
    cases ha : accept matchPat req n st i with
    | some st' =>
      simp only
      constructor
      · intro e; cases e
      · intro h
        have := (accept_eq_none (i := i)).2 (h n (by simp))
        rw [ha] at this; cases this
    | none =>
      simp only
      rw [ih]
      have hr := accept_eq_none.1 ha
      constructor
      · intro h x hx
        simp only [List.mem_cons] at hx
        rcases hx with rfl | hx
        · exact hr
        · exact h x hx
      · intro h x hx; exact h x (by simp [hx])

theorem routeList_eq_some {matchPat : Matcher Pat} {req : Req} {ns : List (Node Pat)} {st : St}
    {d : Target} {i : Nat} {o : Outcome} :
    routeList matchPat req ns st d i = some o ↔
      ∃ pre c post len caps, ns = pre ++ c :: post ∧ (∀ c' ∈ pre, Rejects matchPat req c' st) ∧
        Matches matchPat req c st len caps ∧
        o = serve matchPat req c (commit st len caps c.data (i + pre.length)) d := by
  induction ns generalizing i with
  | nil => simp [routeList]
  | cons n ns ih =>
    rw [routeList]
    cases ha : accept matchPat req n st i with
    | some st' =>
      simp only [Option.some.injEq]
      obtain ⟨len, caps, hm, rfl⟩ := accept_eq_some.1 ha
      constructor
      · intro e; exact ⟨[], n, ns, len, caps, rfl, by simp, hm, by simpa using e.symm⟩
      · rintro ⟨pre, c, post, l, cs, e, hpre, hm', rfl⟩
        cases pre with
        | nil =>
          simp only [List.nil_append, List.cons.injEq] at e
          obtain ⟨rfl, _⟩ := e
          obtain ⟨rfl, rfl⟩ := hm.unique hm'
          simp
        | cons p pre' =>
          simp only [List.cons_append, List.cons.injEq] at e
          obtain ⟨rfl, _⟩ := e
          exact absurd hm (hpre _ (by simp) len caps)
    | none =>
      simp only
      rw [ih]
      have hr := accept_eq_none.1 ha
      constructor
      · rintro ⟨pre, c, post, l, cs, e, hpre, hm, rfl⟩
        refine ⟨n :: pre, c, post, l, cs, by simp [e], ?_, hm, ?_⟩
        · intro x hx
          simp only [List.mem_cons] at hx
          rcases hx with rfl | hx
          · exact hr
          · exact hpre x hx
        · simp [Nat.add_assoc, Nat.add_comm 1]
      · rintro ⟨pre, c, post, l, cs, e, hpre, hm, rfl⟩
        cases pre with
        | nil =>
          simp only [List.nil_append, List.cons.injEq] at e
          obtain ⟨rfl, _⟩ := e
          exact absurd hm (hr l cs)
        | cons p pre' =>
          simp only [List.cons_append, List.cons.injEq] at e
          obtain ⟨rfl, rfl⟩ := e
          refine ⟨pre', c, post, l, cs, rfl, fun x hx => hpre x (by simp [hx]), hm, ?_⟩
          simp [Nat.add_assoc, Nat.add_comm 1]

/-! ## model ⊆ spec and spec ⊆ model -/

theorem sizeOf_lt_of_mem_children {pat : Pat} {gs : List Guard} {data : Option Nat}
    {children : List (Node Pat)} {dflt : Option Nat} {c : Node Pat} (h : c ∈ children) :
    sizeOf c < sizeOf (Node.scope pat gs data children dflt) := by
  have := List.sizeOf_lt_of_mem h
  simp only [Node.scope.sizeOf_spec]
  omega

/-- the executable router satisfies the spec, for every node of every table -/
theorem serve_sound (matchPat : Matcher Pat) (req : Req) :
    ∀ (n : Node Pat) (st : St) (inh : Target), Serves matchPat req n st inh (serve matchPat req n st inh)
  | .resource pat gs data routes dflt, st, inh => by
    rw [serve]
    cases hf : firstRoute (req.seen st) routes with
    | some h =>
      obtain ⟨pre, r, post, e, hpre, hr, rfl⟩ := firstRoute_eq_some.1 hf
      exact Serves.route pre r post e hpre hr
    | none => exact Serves.noRoute (firstRoute_eq_none.1 hf)
  | .scope pat gs data children dflt, st, inh => by
    rw [serve]
    cases hl : routeList matchPat req children st (effDefault dflt inh) 0 with
    | some o =>
      obtain ⟨pre, c, post, len, caps, e, hpre, hm, rfl⟩ := routeList_eq_some.1 hl
      have hc : c ∈ children := by rw [e]; simp
      have := serve_sound matchPat req c (commit st len caps c.data (0 + pre.length)) (effDefault dflt inh)
      simp only [Nat.zero_add] at this ⊢
      exact Serves.child pre c post len caps e hpre hm this
    | none => exact Serves.noChild (routeList_eq_none.1 hl)
termination_by n => sizeOf n
decreasing_by exact sizeOf_lt_of_mem_children hc

/-- the spec is functional and the executable router computes it -/
theorem serve_complete {matchPat : Matcher Pat} {req : Req} {n : Node Pat} {st : St} {inh : Target}
    {out : Outcome} (h : Serves matchPat req n st inh out) : out = serve matchPat req n st inh := by
  induction h with
  | route pre r post e hpre hr =>
    rw [serve, firstRoute_eq_some.2 ⟨pre, r, post, e, hpre, hr, rfl⟩]
  | noRoute hall =>
    rw [serve, firstRoute_eq_none.2 hall]
  | child pre c post len caps e hpre hm _ ih =>
    rw [serve, routeList_eq_some.2 ⟨pre, c, post, len, caps, e, hpre, hm, rfl⟩]
    simpa using ih
  | noChild hall =>
    rw [serve, routeList_eq_none.2 hall]

end ActixModel.Route

/-! ## the chosen path: which nodes were committed to, and what they contributed -/

namespace ActixModel.Route

variable {Pat : Type}

def Node.children : Node Pat → List (Node Pat)
  | .resource .. => []
  | .scope _ _ _ ch _ => ch

/-- one committed node on the chosen path: the node, its index among its siblings, and what its
pattern matched of the then-unmatched path -/
structure Step (Pat : Type) where
  node : Node Pat
  idx : Nat
  len : Nat
  caps : List Cap

/-- `Walk nodes st steps st'`: starting in state `st` at a level whose entries are `nodes`, the
request descends through `steps` (each the *first* entry of its level that matches, entered in the
state left by its predecessor) and arrives in state `st'`. -/
inductive Walk (matchPat : Matcher Pat) (req : Req) : List (Node Pat) → St → List (Step Pat) → St → Prop
  | nil {nodes st} : Walk matchPat req nodes st [] st
  | cons {nodes st} (s : Step Pat) {rest st'} :
      nodes[s.idx]? = some s.node →
      (∀ k c, k < s.idx → nodes[k]? = some c → Rejects matchPat req c st) →
      Matches matchPat req s.node st s.len s.caps →
      Walk matchPat req s.node.children (commit st s.len s.caps s.node.data s.idx) rest st' →
      Walk matchPat req nodes st (s :: rest) st'

/-- what kind of service a level is -/
inductive Level (Pat : Type) where
  | res (routes : List Route)
  | sc (children : List (Node Pat))

def Node.level : Node Pat → Level Pat
  | .resource _ _ _ routes _ => .res routes
  | .scope _ _ _ ch _ => .sc ch

/-- the default service in force inside node `n` when `inh` is in force around it: a scope's own
default else the inherited one; a resource's own default else the built-in 405 -/
def fallback : Node Pat → Target → Target
  | .resource _ _ _ _ dflt, _ => effDefault dflt .notAllowed
  | .scope _ _ _ _ dflt, inh => effDefault dflt inh

/-- the level the request ends in -/
def finalLevel (lv0 : Level Pat) (steps : List (Step Pat)) : Level Pat :=
  match steps.getLast? with
  | some s => s.node.level
  | none => lv0

/-- the default service in force where the request ends: the nearest enclosing one -/
def finalFallback (fb0 : Target) (steps : List (Step Pat)) : Target :=
  steps.foldl (fun d s => fallback s.node d) fb0

/-- how the request is answered at the level it ends in -/
def Ends (matchPat : Matcher Pat) (req : Req) (lv0 : Level Pat) (fb0 : Target)
    (steps : List (Step Pat)) (out : Outcome) : Prop :=
  match finalLevel lv0 steps with
  | .res routes =>
    out.target = match firstRoute (req.seen out.st) routes with
      | some h => .handler h
      | none => finalFallback fb0 steps
  | .sc children =>
    (∀ c ∈ children, Rejects matchPat req c out.st) ∧ out.target = finalFallback fb0 steps

theorem finalLevel_cons (lv0 : Level Pat) (s : Step Pat) (rest : List (Step Pat)) :
    finalLevel lv0 (s :: rest) = finalLevel s.node.level rest := by
  unfold finalLevel
  cases rest with
  | nil => simp
  | cons t ts =>
    simp only [List.getLast?_cons_cons]
    cases h : (t :: ts).getLast? with
    | none => simp at h
    | some x => rfl

theorem getElem?_append_cons_length {α : Type} (pre : List α) (c : α) (post : List α) :
    (pre ++ c :: post)[pre.length]? = some c := by
  simp

theorem rejects_before {matchPat : Matcher Pat} {req : Req} {st : St} (pre : List (Node Pat))
    (c : Node Pat) (post : List (Node Pat)) (hpre : ∀ c' ∈ pre, Rejects matchPat req c' st) :
    ∀ k c', k < pre.length → (pre ++ c :: post)[k]? = some c' → Rejects matchPat req c' st := by
  intro k c' hk hget
  rw [List.getElem?_append_left hk] at hget
  exact hpre c' (List.mem_of_getElem? hget)

/-- every outcome of a node's service is explained by a walk and an ending -/
theorem serves_explained {matchPat : Matcher Pat} {req : Req} {n : Node Pat} {st : St} {inh : Target}
    {out : Outcome} (h : Serves matchPat req n st inh out) :
    ∃ steps, Walk matchPat req n.children st steps out.st ∧
      Ends matchPat req n.level (fallback n inh) steps out := by
  induction h with
  | @route pat gs data routes dflt st inh pre r post e hpre hr =>
    refine ⟨[], Walk.nil, ?_⟩
    simp only [Ends, finalLevel, List.getLast?_nil, Node.level]
    rw [firstRoute_eq_some.2 ⟨pre, r, post, e, hpre, hr, rfl⟩]
  | @noRoute pat gs data routes dflt st inh hall =>
    refine ⟨[], Walk.nil, ?_⟩
    simp only [Ends, finalLevel, List.getLast?_nil, Node.level]
    rw [firstRoute_eq_none.2 hall]
    simp [finalFallback, fallback]
  | @child pat gs data children dflt st inh out pre c post len caps e hpre hm _ ih =>
    obtain ⟨steps, hw, he⟩ := ih
    refine ⟨⟨c, pre.length, len, caps⟩ :: steps, ?_, ?_⟩
    · refine Walk.cons ⟨c, pre.length, len, caps⟩ ?_ ?_ hm hw
      · simp [Node.children, e]
      · simpa [Node.children, e] using rejects_before pre c post hpre
    · unfold Ends at he ⊢
      rw [finalLevel_cons]
      simpa [finalFallback, fallback] using he
  | @noChild pat gs data children dflt st inh hall =>
    refine ⟨[], Walk.nil, ?_⟩
    simp only [Ends, finalLevel, List.getLast?_nil, Node.level]
    exact ⟨hall, by simp [finalFallback, fallback]⟩

/-- the same for the whole application -/
theorem routes_explained {matchPat : Matcher Pat} {app : App Pat} {req : Req} {out : Outcome}
    (h : Routes matchPat app req out) :
    ∃ steps, Walk matchPat req app.children (St.init app) steps out.st ∧
      Ends matchPat req (.sc app.children) (effDefault app.dflt .notFound) steps out := by
  cases h with
  | child pre c post len caps e hpre hm hs =>
    obtain ⟨steps, hw, he⟩ := serves_explained hs
    refine ⟨⟨c, pre.length, len, caps⟩ :: steps, ?_, ?_⟩
    · refine Walk.cons ⟨c, pre.length, len, caps⟩ ?_ ?_ hm hw
      · simp [e]
      · simpa [e] using rejects_before pre c post hpre
    · unfold Ends at he ⊢
      rw [finalLevel_cons]
      simpa [finalFallback] using he
  | noChild hall =>
    refine ⟨[], Walk.nil, ?_⟩
    simp only [Ends, finalLevel, List.getLast?_nil]
    exact ⟨hall, by simp [finalFallback]⟩

/-! ### what a walk does to the request state -/

/-- captures of the steps, each shifted by what was matched before it (starting from `skip`) -/
def capsOf : Nat → List (Step Pat) → List Cap
  | _, [] => []
  | skip, s :: rest => s.caps.map (shiftCap skip) ++ capsOf (skip + s.len) rest

def lensOf (steps : List (Step Pat)) : Nat := (steps.map (·.len)).sum

theorem walk_state {matchPat : Matcher Pat} {req : Req} {nodes : List (Node Pat)} {st st' : St}
    {steps : List (Step Pat)} (h : Walk matchPat req nodes st steps st') :
    st'.skip = st.skip + lensOf steps ∧
    st'.segs = st.segs ++ capsOf st.skip steps ∧
    st'.data = st.data ++ steps.filterMap (·.node.data) ∧
    st'.ids = st.ids ++ steps.map (·.idx) := by
  induction h with
  | nil => simp [lensOf, capsOf]
  | @cons nodes st s rest st' hget hrej hm _ ih =>
    obtain ⟨h1, h2, h3, h4⟩ := ih
    refine ⟨?_, ?_, ?_, ?_⟩
    · rw [h1]; simp [commit, lensOf, Nat.add_assoc]
    · rw [h2]; simp [commit, capsOf, List.append_assoc]
    · rw [h3]
      cases hd : s.node.data with
      | none => simp [commit, hd]
      | some d => simp [commit, hd]
    · rw [h4]; simp [commit]

/-- each step's pattern was matched against exactly the part of the path its predecessors left -/
theorem walk_matches {matchPat : Matcher Pat} {req : Req} {nodes : List (Node Pat)} {st st' : St}
    {steps : List (Step Pat)} (h : Walk matchPat req nodes st steps st') :
    ∀ (pre : List (Step Pat)) (s : Step Pat) (post : List (Step Pat)), steps = pre ++ s :: post →
      matchPat s.node.pat s.node.isPrefix (req.path.drop (st.skip + lensOf pre)) = some (s.len, s.caps) := by
  induction h with
  | nil => intro pre s post e; simp at e
  | @cons nodes st s rest st' hget hrej hm _ ih =>
    intro pre t post e
    cases pre with
    | nil =>
      simp only [List.nil_append, List.cons.injEq] at e
      obtain ⟨rfl, _⟩ := e
      simpa [lensOf, unprocessed] using hm.1
    | cons p pre' =>
      simp only [List.cons_append, List.cons.injEq] at e
      obtain ⟨rfl, e'⟩ := e
      have := ih pre' t post e'
      simpa [commit, lensOf, Nat.add_assoc] using this

/-- `Path::add` + `Path::get`: the value of a shifted capture is the text at the capture's own
offsets in the part of the path that was unmatched when the pattern ran -/
theorem capValue_shift (path : Chars) (skip : Nat) (c : Cap) :
    capValue path (shiftCap skip c) = capValue (path.drop skip) c := by
  obtain ⟨n, b, e⟩ := c
  simp only [capValue, shiftCap, List.drop_drop]
  have h1 : skip + e - (skip + b) = e - b := by omega
  rw [h1]

end ActixModel.Route

namespace ActixModel.Route

variable {Pat : Type}

/-- the values of the captures of the steps, each read from the part of the path that was
unmatched when its pattern ran -/
def valuesOf : Chars → List (Step Pat) → List (String × Chars)
  | _, [] => []
  | path, s :: rest => s.caps.map (capValue path) ++ valuesOf (path.drop s.len) rest

theorem map_capValue_capsOf (path : Chars) (skip : Nat) (steps : List (Step Pat)) :
    (capsOf skip steps).map (capValue path) = valuesOf (path.drop skip) steps := by
  induction steps generalizing skip with
  | nil => simp [capsOf, valuesOf]
  | cons s rest ih =>
    simp only [capsOf, valuesOf, List.map_append, List.map_map, ih, List.drop_drop]
    congr 1
    apply List.map_congr_left
    intro c _
    exact capValue_shift path skip c

/-- a walk cannot continue below a resource -/
theorem walk_nil_nodes {matchPat : Matcher Pat} {req : Req} {st st' : St} {steps : List (Step Pat)}
    (h : Walk matchPat req [] st steps st') : steps = [] := by
  cases h with
  | nil => rfl
  | cons s hget _ _ _ => simp at hget

/-- the entries of the level a walk ends in -/
def finalNodes (nodes : List (Node Pat)) (steps : List (Step Pat)) : List (Node Pat) :=
  match steps.getLast? with
  | some s => s.node.children
  | none => nodes

theorem finalNodes_cons (nodes : List (Node Pat)) (s : Step Pat) (rest : List (Step Pat)) :
    finalNodes nodes (s :: rest) = finalNodes s.node.children rest := by
  unfold finalNodes
  cases rest with
  | nil => simp
  | cons t ts =>
    simp only [List.getLast?_cons_cons]
    cases h : (t :: ts).getLast? with
    | none => simp at h
    | some x => rfl

/-- a walk is complete when nothing at the level it ends in matches (always so below a resource) -/
def Complete (matchPat : Matcher Pat) (req : Req) (nodes : List (Node Pat)) (steps : List (Step Pat))
    (st' : St) : Prop :=
  ∀ c ∈ finalNodes nodes steps, Rejects matchPat req c st'

/-- **the chosen path is unique**: two complete walks from the same level and state coincide -/
theorem walk_unique {matchPat : Matcher Pat} {req : Req} {nodes : List (Node Pat)} {st st₁ st₂ : St}
    {s₁ s₂ : List (Step Pat)}
    (h₁ : Walk matchPat req nodes st s₁ st₁) (c₁ : Complete matchPat req nodes s₁ st₁)
    (h₂ : Walk matchPat req nodes st s₂ st₂) (c₂ : Complete matchPat req nodes s₂ st₂) :
    s₁ = s₂ ∧ st₁ = st₂ := by
  induction h₁ generalizing s₂ st₂ with
  | @nil nodes st =>
    cases h₂ with
    | nil => exact ⟨rfl, rfl⟩
    | cons s hget _ hm _ =>
      have : s.node ∈ nodes := List.mem_of_getElem? hget
      exact absurd hm (c₁ s.node (by simpa [finalNodes] using this) s.len s.caps)
  | @cons nodes st s rest st' hget hrej hm hw ih =>
    cases h₂ with
    | nil =>
      have : s.node ∈ nodes := List.mem_of_getElem? hget
      exact absurd hm (c₂ s.node (by simpa [finalNodes] using this) s.len s.caps)
    | @cons _ _ t rest₂ _ hget₂ hrej₂ hm₂ hw₂ =>
      have hidx : s.idx = t.idx := by
        rcases Nat.lt_trichotomy s.idx t.idx with hlt | heq | hgt
        · exact absurd hm (hrej₂ s.idx s.node hlt hget s.len s.caps)
        · exact heq
        · exact absurd hm₂ (hrej t.idx t.node hgt hget₂ t.len t.caps)
      have hnode : s.node = t.node := by
        rw [hidx] at hget; rw [hget] at hget₂; exact Option.some.inj hget₂
      rw [← hnode] at hm₂
      obtain ⟨hl, hc⟩ := hm.unique hm₂
      have hst : s = t := by
        cases s; cases t; simp_all
      subst hst
      rw [Complete, finalNodes_cons] at c₁ c₂
      obtain ⟨e1, e2⟩ := ih c₁ hw₂ c₂
      exact ⟨by rw [e1], e2⟩

/-- an explained outcome's walk is complete -/
theorem ends_complete {matchPat : Matcher Pat} {req : Req} {nodes : List (Node Pat)} {fb0 : Target}
    {steps : List (Step Pat)} {out : Outcome}
    (he : Ends matchPat req (.sc nodes) fb0 steps out) : Complete matchPat req nodes steps out.st := by
  unfold Ends finalLevel at he
  unfold Complete finalNodes
  cases hl : steps.getLast? with
  | none => rw [hl] at he; simpa using he.1
  | some s =>
    rw [hl] at he
    simp only at he
    cases hn : s.node with
    | resource pat gs data routes dflt => simp [hn, Node.children]
    | scope pat gs data ch dflt =>
      rw [hn] at he
      simpa [Node.level, hn, Node.children] using he.1

end ActixModel.Route

namespace ActixModel.Route

variable {Pat : Type}

theorem finalFallback_last_resource (fb0 : Target) {steps : List (Step Pat)} {s : Step Pat}
    {pat : Pat} {gs : List Guard} {data : Option Nat} {routes : List Route} {dflt : Option Nat}
    (hl : steps.getLast? = some s) (hn : s.node = .resource pat gs data routes dflt) :
    finalFallback fb0 steps = effDefault dflt .notAllowed := by
  obtain ⟨init, rfl⟩ : ∃ init, steps = init ++ [s] := by
    rcases List.eq_nil_or_concat steps with rfl | ⟨init, x, rfl⟩
    · simp at hl
    · simp at hl; exact ⟨init, by simp [hl]⟩
  simp [finalFallback, List.foldl_append, hn, fallback]

theorem fallback_ne_handler (n : Node Pat) (d : Target) (hid : Nat) (h : d ≠ .handler hid) :
    fallback n d ≠ .handler hid := by
  cases n with
  | resource pat gs data routes dflt => cases dflt <;> simp [fallback, effDefault]
  | scope pat gs data ch dflt => cases dflt <;> simp [fallback, effDefault, h]

/-- a default service is never a route handler -/
theorem finalFallback_ne_handler {fb0 : Target} (steps : List (Step Pat)) (hid : Nat)
    (h0 : fb0 ≠ .handler hid) : finalFallback fb0 steps ≠ .handler hid := by
  unfold finalFallback
  induction steps generalizing fb0 with
  | nil => simpa using h0
  | cons s rest ih => exact ih (fallback_ne_handler s.node fb0 hid h0)

/-- the built-in 405 is never in force at a scope level -/
theorem finalFallback_scope_ne_notAllowed {matchPat : Matcher Pat} {req : Req}
    {nodes : List (Node Pat)} {st st' : St} {steps : List (Step Pat)} {fb0 : Target}
    (hw : Walk matchPat req nodes st steps st') (h0 : fb0 ≠ .notAllowed) {s : Step Pat}
    (hl : steps.getLast? = some s) (hs : ∃ ch, s.node.level = .sc ch) :
    finalFallback fb0 steps ≠ .notAllowed := by
  induction hw generalizing fb0 with
  | nil => simp at hl
  | @cons nodes st t rest st' hget hrej hm hw ih =>
    have hscope : ∀ pat gs data ch dflt, t.node = .scope pat gs data ch dflt →
        fallback t.node fb0 ≠ .notAllowed := by
      intro pat gs data ch dflt e
      rw [e]; cases dflt <;> simp [fallback, effDefault, h0]
    cases rest with
    | nil =>
      simp only [List.getLast?_singleton, Option.some.injEq] at hl
      subst hl
      obtain ⟨ch, hch⟩ := hs
      cases hn : t.node with
      | resource pat gs data routes dflt => rw [hn] at hch; simp [Node.level] at hch
      | scope pat gs data ch' dflt =>
        simpa [finalFallback] using hscope _ _ _ _ _ hn
    | cons u us =>
      rw [List.getLast?_cons_cons] at hl
      cases hn : t.node with
      | resource pat gs data routes dflt =>
        rw [hn] at hw
        have := walk_nil_nodes hw
        simp at this
      | scope pat gs data ch' dflt =>
        have := ih (hscope _ _ _ _ _ hn) hl
        simpa [finalFallback] using this

end ActixModel.Route

namespace ActixModel.Route

/-! ## laws of a pattern matcher that C09 statements about segment boundaries rely on
(C10 proves them of the real pattern language; `Proofs/RouteMini.lean` of the stand-in) -/

/-- prefix patterns (scopes) end at the end of the path or before a `/` -/
def PrefixBoundary {Pat : Type} (matchPat : Matcher Pat) : Prop :=
  ∀ p s len caps, matchPat p true s = some (len, caps) →
    s.drop len = [] ∨ (s.drop len).head? = some '/'

/-- full patterns (resources) consume the whole remaining path -/
def FullMatch {Pat : Type} (matchPat : Matcher Pat) : Prop :=
  ∀ p s len caps, matchPat p false s = some (len, caps) → s.drop len = []


end ActixModel.Route

namespace ActixModel.Route

variable {Pat : Type}

theorem routeList_append {matchPat : Matcher Pat} {req : Req} (ns extra : List (Node Pat)) (st : St)
    (d : Target) (i : Nat) :
    routeList matchPat req (ns ++ extra) st d i =
      match routeList matchPat req ns st d i with
      | some o => some o
      | none => routeList matchPat req extra st d (i + ns.length) := by
  induction ns generalizing i with
  | nil => simp [routeList]
  | cons n ns ih =>
    simp only [List.cons_append, List.length_cons]
    rw [routeList, routeList]
    cases accept matchPat req n st i with
    | some st' => rfl
    | none =>
      simp only
      rw [ih]
      have : i + 1 + ns.length = i + (ns.length + 1) := by omega
      rw [this]

end ActixModel.Route

/-! ## depth-first registration order -/

namespace ActixModel.Route

variable {Pat : Type}

/-- a chain of services whose patterns match successively and whose guards accept — like `Walk`
but *without* the requirement that each is the first such entry of its level -/
inductive Chain (matchPat : Matcher Pat) (req : Req) : List (Node Pat) → St → List (Step Pat) → St → Prop
  | nil {nodes st} : Chain matchPat req nodes st [] st
  | cons {nodes st} (s : Step Pat) {rest st'} :
      nodes[s.idx]? = some s.node →
      Matches matchPat req s.node st s.len s.caps →
      Chain matchPat req s.node.children (commit st s.len s.caps s.node.data s.idx) rest st' →
      Chain matchPat req nodes st (s :: rest) st'

/-- lexicographic `≤` on index paths = depth-first registration order -/
def LexLe : List Nat → List Nat → Prop
  | [], _ => True
  | _ :: _, [] => False
  | a :: as, b :: bs => a < b ∨ (a = b ∧ LexLe as bs)

/-- position of the first accepting route -/
def firstRouteIdx (req : Req) : List Route → Nat → Option Nat
  | [], _ => none
  | r :: rs, i => if evalAll req r.guards then some i else firstRouteIdx req rs (i + 1)

theorem firstRouteIdx_le {req : Req} {routes : List Route} {i k j : Nat} {r : Route}
    (h : firstRouteIdx req routes i = some k) (hj : routes[j]? = some r) (hr : GuardsOk req r.guards) :
    k ≤ i + j := by
  induction routes generalizing i j with
  | nil => simp at hj
  | cons q qs ih =>
    unfold firstRouteIdx at h
    split at h
    · simp only [Option.some.injEq] at h; omega
    · rename_i hq
      cases j with
      | zero =>
        simp only [List.getElem?_cons_zero, Option.some.injEq] at hj
        subst hj
        exact absurd ((evalAll_iff req _).2 hr) hq
      | succ j' =>
        simp only [List.getElem?_cons_succ] at hj
        have := ih h hj
        omega

theorem firstRouteIdx_isSome {req : Req} {routes : List Route} {i : Nat} :
    (firstRouteIdx req routes i).isSome = (firstRoute req routes).isSome := by
  induction routes generalizing i with
  | nil => rfl
  | cons q qs ih =>
    unfold firstRouteIdx firstRoute
    split <;> simp [ih]

theorem walk_nil_eq {matchPat : Matcher Pat} {req : Req} {nodes : List (Node Pat)} {st st' : St}
    (h : Walk matchPat req nodes st [] st') : st' = st := by
  cases h; rfl

theorem chain_nil_eq {matchPat : Matcher Pat} {req : Req} {nodes : List (Node Pat)} {st st' : St}
    (h : Chain matchPat req nodes st [] st') : st' = st := by
  cases h; rfl

/-- **depth-first, registration order**: the walk the router takes is lexicographically minimal
among all chains that end in a resource with an accepting route -/
theorem walk_dfs_minimal {matchPat : Matcher Pat} {req : Req} {nodes : List (Node Pat)} {st st₁ st₂ : St}
    {w c : List (Step Pat)}
    (hw : Walk matchPat req nodes st w st₁) (hc : Chain matchPat req nodes st c st₂)
    {s t : Step Pat} (hwl : w.getLast? = some s) (hcl : c.getLast? = some t)
    {pat pat' : Pat} {gs gs' : List Guard} {data data' : Option Nat} {routes routes' : List Route}
    {dflt dflt' : Option Nat}
    (hs : s.node = .resource pat gs data routes dflt) (ht : t.node = .resource pat' gs' data' routes' dflt')
    {k j : Nat} {r : Route} (hk : firstRouteIdx (req.seen st₁) routes 0 = some k)
    (hj : routes'[j]? = some r) (hr : GuardsOk (req.seen st₂) r.guards) :
    LexLe (w.map (·.idx) ++ [k]) (c.map (·.idx) ++ [j]) := by
  induction hw generalizing c st₂ with
  | nil => simp at hwl
  | @cons nodes st a rest st' hget hrej hm hw ih =>
    cases hc with
    | nil => simp at hcl
    | @cons _ _ b crest _ hgetb hmb hcrest =>
      simp only [List.map_cons, List.cons_append, LexLe]
      rcases Nat.lt_trichotomy a.idx b.idx with hlt | heq | hgt
      · exact Or.inl hlt
      · right
        refine ⟨heq, ?_⟩
        have hnode : a.node = b.node := by
          rw [heq] at hget; rw [hget] at hgetb; exact Option.some.inj hgetb
        rw [← hnode] at hmb
        obtain ⟨hl, hcs⟩ := hm.unique hmb
        have hab : a = b := by cases a; cases b; simp_all
        subst hab
        cases rest with
        | nil =>
          -- `a` is the walk's last step: a resource, so the chain ends here too
          simp only [List.getLast?_singleton, Option.some.injEq] at hwl
          subst hwl
          rw [hs] at hcrest
          have hcr : crest = [] := by
            cases hcrest with
            | nil => rfl
            | cons u hgetu _ _ => simp [Node.children] at hgetu
          subst hcr
          rw [walk_nil_eq hw] at hk
          rw [chain_nil_eq hcrest, ← hs] at hr
          simp only [List.getLast?_singleton, Option.some.injEq] at hcl
          subst hcl
          rw [hs] at ht
          simp only [Node.resource.injEq] at ht
          obtain ⟨_, _, _, rfl, _⟩ := ht
          have := firstRouteIdx_le hk hj hr
          simp only [List.map_nil, List.nil_append, LexLe]
          rcases Nat.lt_or_ge k j with h | h
          · exact Or.inl h
          · exact Or.inr ⟨by omega, trivial⟩
        | cons a' rest' =>
          rw [List.getLast?_cons_cons] at hwl
          cases crest with
          | nil =>
            -- the chain ends in `a`, a resource; but the walk continues below `a`: impossible
            simp only [List.getLast?_singleton, Option.some.injEq] at hcl
            subst hcl
            rw [ht] at hw
            cases hw with
            | cons u hgetu _ _ _ => simp [Node.children] at hgetu
          | cons b' crest' =>
            rw [List.getLast?_cons_cons] at hcl
            exact ih hcrest hwl hcl hk hr
      · exact absurd hmb (hrej b.idx b.node hgt hgetb b.len b.caps)

/-- the position found by `firstRouteIdx` holds the route `firstRoute` dispatches to -/
theorem firstRouteIdx_spec {req : Req} {routes : List Route} {i k : Nat}
    (h : firstRouteIdx req routes i = some k) :
    ∃ r, routes[k - i]? = some r ∧ i ≤ k ∧ GuardsOk req r.guards ∧ firstRoute req routes = some r.handler := by
  induction routes generalizing i with
  | nil => simp [firstRouteIdx] at h
  | cons q qs ih =>
    unfold firstRouteIdx at h
    unfold firstRoute
    split at h
    · rename_i hq
      simp only [Option.some.injEq] at h
      subst h
      exact ⟨q, by simp, Nat.le_refl _, (evalAll_iff req _).1 hq, by simp [hq]⟩
    · rename_i hq
      obtain ⟨r, hr, hle, hg, hf⟩ := ih h
      refine ⟨r, ?_, by omega, hg, by simp [hq, hf]⟩
      have : k - i = (k - (i + 1)) + 1 := by omega
      rw [this, List.getElem?_cons_succ]
      exact hr

end ActixModel.Route

namespace ActixModel.Route

variable {Pat : Type}

/-- what the guards of each step on a walk were shown: the request with the innermost marker among
the containers of the start state and of the steps *before* it (its own container is pushed only
after it has accepted) -/
theorem walk_guards {matchPat : Matcher Pat} {req : Req} {nodes : List (Node Pat)} {st st' : St}
    {steps : List (Step Pat)} (h : Walk matchPat req nodes st steps st') :
    ∀ (pre : List (Step Pat)) (s : Step Pat) (post : List (Step Pat)), steps = pre ++ s :: post →
      GuardsOk { req with data := (st.data ++ pre.filterMap (·.node.data)).getLast? } s.node.guards := by
  induction h with
  | nil => intro pre s post e; simp at e
  | @cons nodes st s rest st' hget hrej hm _ ih =>
    intro pre t post e
    cases pre with
    | nil =>
      simp only [List.nil_append, List.cons.injEq] at e
      obtain ⟨rfl, _⟩ := e
      simpa [Req.seen] using hm.2
    | cons p pre' =>
      simp only [List.cons_append, List.cons.injEq] at e
      obtain ⟨rfl, e'⟩ := e
      have := ih pre' t post e'
      cases hd : s.node.data with
      | none => simpa [commit, hd] using this
      | some d => simpa [commit, hd, List.append_assoc] using this

end ActixModel.Route
