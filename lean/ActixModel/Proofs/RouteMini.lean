import ActixModel.Model.RouteMini
import ActixModel.Proofs.Route
/-
Facts about the stand-in matcher and the modelled `Quoter::requote` (Model/RouteMini.lean) that the
C09 theorems are instantiated with.  Core only.
-/
namespace ActixModel.RouteMini
open ActixModel.Route

/-! ## segments of a path -/

/-- split at every literal `/` (so `"/a//b"` ↦ `["", "a", "", "b"]`) -/
def splitSlash : Chars → List Chars
  | [] => [[]]
  | c :: rest =>
    if c = '/' then [] :: splitSlash rest
    else
      match splitSlash rest with
      | [] => [[c]]
      | seg :: segs => (c :: seg) :: segs

theorem splitSlash_ne_nil (p : Chars) : splitSlash p ≠ [] := by
  cases p with
  | nil => simp [splitSlash]
  | cons c rest =>
    unfold splitSlash
    split
    · simp
    · split <;> simp

theorem splitSlash_no_slash {a : Chars} (h : '/' ∉ a) : splitSlash a = [a] := by
  induction a with
  | nil => rfl
  | cons c rest ih =>
    have hc : c ≠ '/' := fun e => h (by simp [e])
    have hr : '/' ∉ rest := fun m => h (by simp [m])
    simp [splitSlash, hc, ih hr]

theorem splitSlash_append_slash {a : Chars} (h : '/' ∉ a) (b : Chars) :
    splitSlash (a ++ '/' :: b) = a :: splitSlash b := by
  induction a with
  | nil => simp [splitSlash]
  | cons c rest ih =>
    have hc : c ≠ '/' := fun e => h (by simp [e])
    have hr : '/' ∉ rest := fun m => h (by simp [m])
    simp [splitSlash, hc, ih hr]

/-- every path is its first segment, then (if there is a `/`) the rest -/
theorem split_first (p : Chars) :
    ('/' ∉ p) ∨ ∃ a b, p = a ++ '/' :: b ∧ '/' ∉ a := by
  induction p with
  | nil => left; simp
  | cons c rest ih =>
    by_cases hc : c = '/'
    · right; exact ⟨[], rest, by simp [hc], by simp⟩
    · rcases ih with h | ⟨a, b, e, ha⟩
      · left; simp [h, Ne.symm hc]
      · right; exact ⟨c :: a, b, by simp [e], by simp [ha, Ne.symm hc]⟩

/-! ## the law percent-decoding has to satisfy, and what follows from it -/

/-- What C09 needs of `Quoter::requote` (C10 proves it of the real algorithm for every protected
set containing `/`): a literal `/` is copied and decoding proceeds independently on both sides of
it, and decoding a `/`-free piece never produces a `/` (`%2F` stays encoded). -/
structure SlashLaw (rq : Chars → Chars) : Prop where
  slash_hom : ∀ a b, rq (a ++ '/' :: b) = rq a ++ '/' :: rq b
  no_new : ∀ a, '/' ∉ a → '/' ∉ rq a

/-- segments of the decoded path = decoded segments of the raw path -/
theorem split_requote {rq : Chars → Chars} (law : SlashLaw rq) (p : Chars) :
    splitSlash (rq p) = (splitSlash p).map rq := by
  generalize hn : p.length = n
  induction n using Nat.strongRecOn generalizing p with
  | _ n ih =>
    rcases split_first p with h | ⟨a, b, e, ha⟩
    · rw [splitSlash_no_slash h, splitSlash_no_slash (law.no_new p h)]; rfl
    · subst e
      rw [law.slash_hom, splitSlash_append_slash (law.no_new a ha), splitSlash_append_slash ha,
        ih b.length (by rw [← hn]; simp; omega) b rfl]
      rfl

/-! ## the modelled `requote` satisfies the law -/

theorem hexVal_slash : hexVal '/' = none := by decide

theorem hexVal_lt {c : Char} {n : Nat} (h : hexVal c = some n) : n < 16 := by
  unfold hexVal at h
  split at h
  · rename_i hc
    simp only [Bool.and_eq_true, decide_eq_true_eq, Char.le_def] at hc
    have : c.toNat ≤ 57 := hc.2
    simp only [Option.some.injEq] at h; omega
  · split at h
    · rename_i hc
      simp only [Bool.and_eq_true, decide_eq_true_eq, Char.le_def] at hc
      have : c.toNat ≤ 102 := hc.2
      simp only [Option.some.injEq] at h; omega
    · split at h
      · rename_i hc
        simp only [Bool.and_eq_true, decide_eq_true_eq, Char.le_def] at hc
        have : c.toNat ≤ 70 := hc.2
        simp only [Option.some.injEq] at h; omega
      · cases h

theorem ofNat_ne_slash : ∀ a : Fin 16, ∀ b : Fin 16,
    isProtected (a.val * 16 + b.val) = false → Char.ofNat (a.val * 16 + b.val) ≠ '/' := by
  decide

/-- `%2F` (any case) is never decoded: a decoded escape is never `/` -/
theorem decodePair_ne_slash {h1 h2 ch : Char} (h : decodePair h1 h2 = some ch) : ch ≠ '/' := by
  unfold decodePair at h
  cases ha : hexVal h1 with
  | none => simp [ha] at h
  | some a =>
    cases hb : hexVal h2 with
    | none => simp [ha, hb] at h
    | some b =>
      simp only [ha, hb] at h
      split at h
      · cases h
      · rename_i hp
        simp only [Option.some.injEq] at h
        subst h
        exact ofNat_ne_slash ⟨a, hexVal_lt ha⟩ ⟨b, hexVal_lt hb⟩ (by simpa using hp)

theorem decodePair_slash_right (h1 : Char) : decodePair h1 '/' = none := by
  unfold decodePair
  cases hexVal h1 <;> simp [hexVal_slash]

theorem decodePair_slash_left (h2 : Char) : decodePair '/' h2 = none := by
  unfold decodePair
  simp [hexVal_slash]

theorem requote_no_new (a : Chars) (h : '/' ∉ a) : '/' ∉ requote a := by
  fun_induction requote a with
  | case1 h1 h2 rest ch hd ih =>
    have : '/' ∉ rest := fun m => h (by simp [m])
    intro m
    simp only [List.mem_cons] at m
    rcases m with e | m
    · exact decodePair_ne_slash hd e.symm
    · exact ih this m
  | case2 h1 h2 rest hd ih =>
    have : '/' ∉ h1 :: h2 :: rest := fun m => h (by simp [m])
    intro m
    simp only [List.mem_cons] at m
    rcases m with e | m
    · cases e
    · exact ih this (by simpa using m)
  | case3 c rest hne ih =>
    have hc : '/' ≠ c := fun e => h (List.mem_cons.2 (Or.inl e))
    have : '/' ∉ rest := fun m => h (by simp [m])
    intro m
    simp only [List.mem_cons] at m
    rcases m with e | m
    · exact hc e
    · exact ih this m
  | case4 => simp


theorem requote_cons_ne {c : Char} (hc : c ≠ '%') (y : Chars) : requote (c :: y) = c :: requote y := by
  rw [requote.eq_def]
  split
  · rename_i h; simp only [List.cons.injEq] at h; exact absurd h.1 hc
  · rename_i h; simp only [List.cons.injEq] at h; obtain ⟨rfl, rfl⟩ := h; rfl
  · rename_i h; cases h

theorem requote_pct_none {h1 h2 : Char} (hd : decodePair h1 h2 = none) (y : Chars) :
    requote ('%' :: h1 :: h2 :: y) = '%' :: requote (h1 :: h2 :: y) := by
  rw [requote.eq_def]
  simp only [hd]

theorem requote_pct_some {h1 h2 ch : Char} (hd : decodePair h1 h2 = some ch) (y : Chars) :
    requote ('%' :: h1 :: h2 :: y) = ch :: requote y := by
  rw [requote.eq_def]
  simp only [hd]

theorem requote_pct_short1 : requote ['%'] = ['%'] := by
  rw [requote.eq_def]; simp [requote]

theorem requote_pct_short2 (h : Char) : requote ['%', h] = '%' :: requote [h] := by
  rw [requote.eq_def]
  split
  · rename_i e; simp at e
  · rename_i e; simp only [List.cons.injEq] at e; obtain ⟨rfl, rfl⟩ := e; rfl
  · rename_i e; cases e

theorem requote_slash (b : Chars) : requote ('/' :: b) = '/' :: requote b :=
  requote_cons_ne (by decide) b

theorem requote_slash_hom (a b : Chars) : requote (a ++ '/' :: b) = requote a ++ '/' :: requote b := by
  fun_induction requote a with
  | case1 h1 h2 rest ch hd ih =>
    simp only [List.cons_append]
    rw [requote_pct_some hd, ih]
  | case2 h1 h2 rest hd ih =>
    simp only [List.cons_append] at ih ⊢
    rw [requote_pct_none hd, ih]
  | case3 c rest hne ih =>
    by_cases hc : c = '%'
    · subst hc
      match rest, hne, ih with
      | [], _, _ =>
        cases b with
        | nil =>
          show requote ['%', '/'] = _
          rw [requote_pct_short2, requote_slash]; simp [requote]
        | cons x b' =>
          show requote ('%' :: '/' :: x :: b') = _
          rw [requote_pct_none (decodePair_slash_left x), requote_slash]; simp [requote]
      | [h1], _, ih =>
        show requote ('%' :: h1 :: '/' :: b) = _
        rw [requote_pct_none (decodePair_slash_right h1)]
        simpa using ih
      | h1 :: h2 :: r, hne, _ => exact absurd rfl (fun e => hne h1 h2 r rfl e)
    · simp only [List.cons_append]
      rw [requote_cons_ne hc, ih]
  | case4 => simpa using requote_slash b

/-- the modelled `Quoter::requote` (protected set `%/+`) keeps every literal `/` in place and
never creates one -/
theorem requote_law : SlashLaw requote := ⟨requote_slash_hom, requote_no_new⟩


/-! ## the stand-in matcher ends where the pattern language says -/

theorem stripPrefix_length {l s s' : Chars} (h : stripPrefix l s = some s') :
    s.length = l.length + s'.length := by
  induction l generalizing s with
  | nil => simp [stripPrefix] at h; simp [h]
  | cons a l ih =>
    cases s with
    | nil => simp [stripPrefix] at h
    | cons b s =>
      simp only [stripPrefix] at h
      split at h
      · have := ih h; simp [this]; omega
      · cases h

theorem stripPrefix_drop {l s s' : Chars} (h : stripPrefix l s = some s') : s.drop l.length = s' := by
  induction l generalizing s with
  | nil => simp [stripPrefix] at h; simp [h]
  | cons a l ih =>
    cases s with
    | nil => simp [stripPrefix] at h
    | cons b s =>
      simp only [stripPrefix] at h
      split at h
      · simpa using ih h
      · cases h

theorem firstDown_some {α : Type} {f : Nat → Option α} {n : Nat} {r : α}
    (h : firstDown f n = some r) : ∃ k, 1 ≤ k ∧ k ≤ n ∧ f k = some r := by
  induction n with
  | zero => simp [firstDown] at h
  | succ n ih =>
    simp only [firstDown] at h
    cases hf : f (n + 1) with
    | some r' =>
      simp only [hf, Option.some.injEq] at h
      subst h
      exact ⟨n + 1, by omega, Nat.le_refl _, hf⟩
    | none =>
      simp only [hf] at h
      obtain ⟨k, h1, h2, h3⟩ := ih h
      exact ⟨k, h1, by omega, h3⟩

/-- where a match ends: at the end of the input, or (prefix mode) before a `/` -/
def EndOk (isPrefix : Bool) (r : Chars) : Prop := r = [] ∨ (isPrefix = true ∧ r.head? = some '/')

theorem endOk_iff {isPrefix : Bool} {r : Chars} (h : endOk isPrefix r = true) : EndOk isPrefix r := by
  cases r with
  | nil => exact Or.inl rfl
  | cons c tl =>
    simp only [endOk, Bool.and_eq_true, beq_iff_eq] at h
    exact Or.inr ⟨h.1, by simp [h.2]⟩

/-- a successful match ends inside the input, at a place where the end condition holds -/
theorem matchSegs_end {segs : List Seg} {isPrefix : Bool} {s : Chars} {pos e : Nat} {caps : List Cap}
    (h : matchSegs segs isPrefix s pos = some (e, caps)) :
    pos ≤ e ∧ e ≤ pos + s.length ∧ EndOk isPrefix (s.drop (e - pos)) := by
  induction segs generalizing s pos e caps with
  | nil =>
    simp only [matchSegs] at h
    split at h
    · rename_i hok
      simp only [Option.some.injEq, Prod.mk.injEq] at h
      obtain ⟨rfl, _⟩ := h
      exact ⟨Nat.le_refl _, by omega, by simpa using endOk_iff hok⟩
    · cases h
  | cons g more ih =>
    cases g with
    | lit l =>
      simp only [matchSegs] at h
      cases hs : stripPrefix l s with
      | none => simp [hs] at h
      | some s' =>
        simp only [hs] at h
        obtain ⟨h1, h2, h3⟩ := ih h
        have hl := stripPrefix_length hs
        have hd := stripPrefix_drop hs
        refine ⟨by omega, by omega, ?_⟩
        have : e - pos = l.length + (e - (pos + l.length)) := by omega
        rw [this, ← List.drop_drop, hd]
        exact h3
    | var n =>
      simp only [matchSegs] at h
      obtain ⟨k, hk1, hk2, hf⟩ := firstDown_some h
      cases hm : matchSegs more isPrefix (s.drop k) (pos + k) with
      | none => simp [hm] at hf
      | some r =>
        obtain ⟨e', caps'⟩ := r
        simp only [hm, Option.some.injEq, Prod.mk.injEq] at hf
        obtain ⟨rfl, _⟩ := hf
        obtain ⟨h1, h2, h3⟩ := ih hm
        have hle : (s.takeWhile (· != '/')).length ≤ s.length := (List.takeWhile_sublist _).length_le
        simp only [List.length_drop] at h2
        refine ⟨by omega, by omega, ?_⟩
        have : e' - pos = k + (e' - (pos + k)) := by omega
        rw [this, ← List.drop_drop]
        exact h3
    | digits n =>
      simp only [matchSegs] at h
      obtain ⟨k, hk1, hk2, hf⟩ := firstDown_some h
      cases hm : matchSegs more isPrefix (s.drop k) (pos + k) with
      | none => simp [hm] at hf
      | some r =>
        obtain ⟨e', caps'⟩ := r
        simp only [hm, Option.some.injEq, Prod.mk.injEq] at hf
        obtain ⟨rfl, _⟩ := hf
        obtain ⟨h1, h2, h3⟩ := ih hm
        have hle : (s.takeWhile isDigit).length ≤ s.length := (List.takeWhile_sublist _).length_le
        simp only [List.length_drop] at h2
        refine ⟨by omega, by omega, ?_⟩
        have : e' - pos = k + (e' - (pos + k)) := by omega
        rw [this, ← List.drop_drop]
        exact h3
    | rest n =>
      simp only [matchSegs, Option.some.injEq, Prod.mk.injEq] at h
      obtain ⟨rfl, _⟩ := h
      exact ⟨by omega, Nat.le_refl _, Or.inl (by simp)⟩

theorem matchOne_end {segs : List Seg} {isPrefix : Bool} {s : Chars} {len : Nat} {caps : List Cap}
    (h : matchOne segs isPrefix s = some (len, caps)) :
    s.drop len = [] ∨ (isPrefix = true ∧ (s.drop len).head? = some '/') := by
  have := (matchSegs_end h).2.2
  simpa [EndOk] using this

theorem miniMatch_end {p : MiniPat} {isPrefix : Bool} {s : Chars} {len : Nat} {caps : List Cap}
    (h : miniMatch p isPrefix s = some (len, caps)) :
    s.drop len = [] ∨ (isPrefix = true ∧ (s.drop len).head? = some '/') := by
  induction p with
  | nil => simp [miniMatch] at h
  | cons q qs ih =>
    simp only [miniMatch] at h
    cases hq : matchOne q isPrefix s with
    | some r =>
      simp only [hq, Option.some.injEq] at h
      subst h
      exact matchOne_end hq
    | none =>
      simp only [hq] at h
      exact ih h

theorem miniMatch_prefixBoundary : PrefixBoundary miniMatch := by
  intro p s len caps h
  rcases miniMatch_end h with h | ⟨_, h⟩
  · exact Or.inl h
  · exact Or.inr h

theorem miniMatch_fullMatch : FullMatch miniMatch := by
  intro p s len caps h
  rcases miniMatch_end h with h | ⟨hp, _⟩
  · exact h
  · cases hp

end ActixModel.RouteMini
