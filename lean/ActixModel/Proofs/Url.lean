import ActixModel.Proofs.Files
/-
C16 helper: the router's re-quoting and the lossy UTF-8 conversion neither create nor remove `/`.
-/
namespace ActixModel.Files
open ActixModel.Util

theorem countByte_cons (c b : UInt8) (bs : Bytes) :
    countByte c (b :: bs) = (if b = c then 1 else 0) + countByte c bs := by
  simp only [countByte, List.filter_cons]
  split <;> simp_all <;> omega

theorem countByte_append (c : UInt8) (a b : Bytes) : countByte c (a ++ b) = countByte c a + countByte c b := by
  simp [countByte, List.filter_append]

theorem lead_ne47 {b : UInt8} (h : ¬ b < 128) : (b = 47) = False := by
  simp only [eq_iff_iff, iff_false]; intro e; subst e; exact h (by decide)

theorem isCont_ne47 {b : UInt8} (h : isCont b = true) : (b = 47) = False := by
  simp only [eq_iff_iff, iff_false]; intro e; subst e; revert h; decide

theorem secondOk_ne47 {b0 b : UInt8} (h : secondOk b0 b = true) : (b = 47) = False := by
  simp only [eq_iff_iff, iff_false]; intro e; subst e
  unfold secondOk at h
  split at h
  · revert h; decide
  · split at h
    · revert h; decide
    · split at h
      · revert h; decide
      · split at h
        · revert h; decide
        · revert h; decide

theorem countByte_replacement : countByte 0x2F replacement = 0 := by decide

theorem utf8Lossy_slashes (fuel : Nat) (bs : Bytes) (h : bs.length < fuel) :
    countByte 0x2F (utf8LossyAux fuel bs) = countByte 0x2F bs := by
  fun_induction utf8LossyAux fuel bs <;>
    simp_all [countByte_cons, countByte_append, countByte_replacement, lead_ne47, isCont_ne47, secondOk_ne47]
  all_goals (try (have hs := secondOk_ne47 (by assumption : secondOk _ _ = true); simp only [hs, if_false, Nat.zero_add]))
  all_goals (try (simp [countByte]; done))
  all_goals (exact (‹_ < _ → countByte _ _ = _›) (by omega))

theorem hexDigitVal_47 : hexDigitVal 47 = none := by decide

theorem decodePair_ne47 {h l v : UInt8} (hd : decodePair h l = some v) : h ≠ 47 ∧ l ≠ 47 := by
  unfold decodePair at hd
  constructor
  · intro e; subst e; rw [hexDigitVal_47] at hd; simp at hd
  · intro e; subst e; rw [hexDigitVal_47] at hd
    split at hd <;> simp_all

theorem unprotected_ne47 {v : UInt8} (h : ¬ (v < 128 && isProtected v) = true) : v ≠ 47 := by
  intro e; subst e; exact h (by decide)

theorem requoteAux_slashes : ∀ (bs : Bytes) (k : Nat),
    countByte 0x2F (requoteAux k bs) = countByte 0x2F (bs.drop k) := by
  intro bs
  induction bs with
  | nil => intro k; simp [requoteAux, countByte]
  | cons b rest ih =>
    intro k
    cases k with
    | succ k => simp only [requoteAux, List.drop_succ_cons]; exact ih k
    | zero =>
      simp only [requoteAux, List.drop_zero]
      split
      · rename_i hb
        split
        · rename_i h l tl
          split
          · rename_i v hd
            have hne := decodePair_ne47 hd
            split
            · rw [countByte_cons, countByte_cons, ih 0]; simp
            · rename_i hp
              have hv := unprotected_ne47 hp
              rw [countByte_cons, ih 2, countByte_cons, countByte_cons, countByte_cons]
              simp [hv, hne.1, hne.2, hb]
          · rw [countByte_cons, countByte_cons, ih 0]; simp
        · rw [countByte_cons, countByte_cons, ih 0]; simp
      · rw [countByte_cons, countByte_cons, ih 0]; simp

/-- the router's view of the path has exactly the `/` separators of the raw request target:
re-quoting never decodes `%2F` and lossy UTF-8 conversion neither creates nor removes ASCII -/
theorem urlPath_slashes (raw : Bytes) : countByte 0x2F (urlPath raw) = countByte 0x2F raw := by
  unfold urlPath utf8Lossy requote
  rw [utf8Lossy_slashes _ _ (by omega), requoteAux_slashes]
  simp

end ActixModel.Files
