import ActixModel.Proofs.WsMask
/-
Helper lemmas for `frame.rs` / `codec.rs`: byte tables, big-endian length fields, prefix
stability of `parse_metadata` / `parse` / `decode`, progress, bounds.
-/
set_option linter.unusedSimpArgs false
namespace ActixModel.Ws
open ActixModel.Util

/-! ## lists -/

theorem getD_append_left (a b : Bytes) (i : Nat) (h : i < a.length) : (a ++ b).getD i 0 = a.getD i 0 := by
  simp [List.getD, List.getElem?_append_left h]

theorem take_drop_append (a b : Bytes) (i n : Nat) (h : i + n ≤ a.length) :
    ((a ++ b).drop i).take n = (a.drop i).take n := by
  rw [List.drop_append_of_le_length (by omega), List.take_append_of_le_length (by simp; omega)]

/-! ## big-endian length fields -/

@[simp] theorem beNat_nil : beNat [] = 0 := rfl

theorem beNat_cons (x : UInt8) (bs : Bytes) : beNat (x :: bs) = x.toNat * 256 ^ bs.length + beNat bs := by
  unfold beNat
  have : ∀ (l : Bytes) (acc : Nat),
      l.foldl (fun acc b => acc * 256 + b.toNat) acc = acc * 256 ^ l.length + l.foldl (fun acc b => acc * 256 + b.toNat) 0 := by
    intro l
    induction l with
    | nil => intro acc; simp
    | cons y l ih =>
      intro acc
      simp only [List.foldl_cons, List.length_cons]
      rw [ih (acc * 256 + y.toNat), ih (0 * 256 + y.toNat)]
      simp only [Nat.zero_mul, Nat.zero_add, Nat.pow_succ]
      rw [Nat.add_mul, Nat.mul_assoc, Nat.mul_comm 256 (256 ^ l.length), Nat.add_assoc]
  simp only [List.foldl_cons, Nat.zero_mul, Nat.zero_add]
  exact this bs x.toNat

@[simp] theorem beBytes_length (k n : Nat) : (beBytes k n).length = k := by
  induction k with
  | zero => rfl
  | succ k ih => simp [beBytes, ih]

theorem beNat_beBytes (k n : Nat) : beNat (beBytes k n) = n % 256 ^ k := by
  induction k with
  | zero => simp [beBytes, beNat, Nat.mod_one]
  | succ k ih =>
    simp only [beBytes]
    rw [beNat_cons, ih, beBytes_length, UInt8.toNat_ofNat']
    have hlt : n / 256 ^ k % 256 < 256 := Nat.mod_lt _ (by decide)
    rw [Nat.mod_eq_of_lt (a := n / 256 ^ k % 256) (by simpa using hlt)]
    rw [Nat.mod_pow_succ, Nat.mul_comm, Nat.add_comm]

/-! ## byte tables (finite: 256 values; kernel evaluation) -/

theorem tbl_hi (b : UInt8) : ((b &&& 0x80) != 0) = decide (128 ≤ b.toNat) := by
  have : ∀ n, n < 256 → ((UInt8.ofNat n &&& 0x80) != 0) = decide (128 ≤ (UInt8.ofNat n).toNat) := by decide +kernel
  simpa using this b.toNat (UInt8.toNat_lt b)

theorem tbl_low7 (b : UInt8) : (b &&& 0x7F).toNat = b.toNat % 128 := by
  rw [UInt8.toNat_and]; exact Nat.and_two_pow_sub_one_eq_mod _ 7

/-- second header byte as written: mask bit | 7-bit length -/
theorem tbl_second (n : Nat) (h : n < 128) :
    (((0x80 : UInt8) ||| UInt8.ofNat n) &&& 0x80 != 0) = true ∧ ((0x80 : UInt8) ||| UInt8.ofNat n) &&& 0x7F = UInt8.ofNat n ∧
    (((0 : UInt8) ||| UInt8.ofNat n) &&& 0x80 != 0) = false ∧ ((0 : UInt8) ||| UInt8.ofNat n) &&& 0x7F = UInt8.ofNat n := by
  have : ∀ n, n < 128 →
    (((0x80 : UInt8) ||| UInt8.ofNat n) &&& 0x80 != 0) = true ∧ ((0x80 : UInt8) ||| UInt8.ofNat n) &&& 0x7F = UInt8.ofNat n ∧
    (((0 : UInt8) ||| UInt8.ofNat n) &&& 0x80 != 0) = false ∧ ((0 : UInt8) ||| UInt8.ofNat n) &&& 0x7F = UInt8.ofNat n := by
    decide +kernel
  exact this n h

/-- first header byte as written: FIN | opcode -/
theorem tbl_first_fin (fin : Bool) (op : OpCode) :
    (((if fin then 0x80 ||| op.toByte else op.toByte) &&& 0x80) != 0) = fin := by
  cases fin <;> cases op <;> decide

theorem tbl_first_op (fin : Bool) (op : OpCode) (h : op ≠ .bad) :
    OpCode.ofByte ((if fin then 0x80 ||| op.toByte else op.toByte) &&& 0x0F) = op := by
  cases fin <;> cases op <;> first | (exact absurd rfl h) | decide

/-- the opcode table: exactly 0,1,2,8,9,10 are not `Bad` -/
theorem ofByte_bad_iff (n : Nat) (h : n < 16) :
    OpCode.ofByte (UInt8.ofNat n) = .bad ↔ n ∉ [0, 1, 2, 8, 9, 10] := by
  have : ∀ n, n < 16 → (OpCode.ofByte (UInt8.ofNat n) = .bad ↔ n ∉ [0, 1, 2, 8, 9, 10]) := by decide
  exact this n h

/-! ## parse_metadata: prefix stability and bounds -/

theorem parseLength_append (a b : Bytes) (l : UInt8) (r : Nat × Nat) (h : parseLength a l = some r) :
    parseLength (a ++ b) l = some r := by
  unfold parseLength at h ⊢
  by_cases h126 : (l == 126) = true
  · simp only [h126, if_true] at h ⊢
    by_cases h4 : a.length < 4
    · simp [h4] at h
    · have : ¬ (a ++ b).length < 4 := by simp; omega
      simp only [h4, this, if_false] at h ⊢
      rw [take_drop_append a b 2 2 (by omega)]; exact h
  · simp only [h126, if_false] at h ⊢
    by_cases h127 : (l == 127) = true
    · simp only [h127, if_true] at h ⊢
      by_cases h10 : a.length < 10
      · simp [h10] at h
      · have : ¬ (a ++ b).length < 10 := by simp; omega
        simp only [h10, this, if_false] at h ⊢
        rw [take_drop_append a b 2 8 (by omega)]; exact h
    · simp only [h127, if_false] at h ⊢; exact h

/-- `idx ∈ {2, 4, 10}`, within the buffer once `a.length ≥ 2`; the 16-bit form yields `< 2^16`,
the 64-bit form `< 2^64`, the 7-bit form `< 126` when the two long forms are excluded -/
theorem parseLength_bounds (a : Bytes) (l : UInt8) (r : Nat × Nat) (h : parseLength a l = some r) :
    (r.2 ≤ a.length ∨ r.2 = 2) ∧ 2 ≤ r.2 ∧ r.2 ≤ 10 ∧ r.1 < 2 ^ 64 := by
  unfold parseLength at h
  by_cases h126 : (l == 126) = true
  · simp only [h126, if_true] at h
    by_cases h4 : a.length < 4
    · simp [h4] at h
    · simp only [h4, if_false, Option.some.injEq] at h; subst h
      refine ⟨by left; simp; omega, by simp, by simp, ?_⟩
      have hl : ((a.drop 2).take 2).length = 2 := by simp; omega
      match hx : (a.drop 2).take 2, hl with
      | [x, y], _ =>
        simp only [beNat_cons, beNat_nil, List.length_cons, List.length_nil, Nat.reduceAdd, Nat.reducePow]
        have := UInt8.toNat_lt x; have := UInt8.toNat_lt y
        omega
  · simp only [h126, Bool.false_eq_true, ↓reduceIte] at h
    by_cases h127 : (l == 127) = true
    · simp only [h127, if_true] at h
      by_cases h10 : a.length < 10
      · simp [h10] at h
      · simp only [h10, if_false, Option.some.injEq] at h; subst h
        refine ⟨by left; simp; omega, by simp, by simp, ?_⟩
        have hl : ((a.drop 2).take 8).length = 8 := by simp; omega
        match hx : (a.drop 2).take 8, hl with
        | [x0, x1, x2, x3, x4, x5, x6, x7], _ =>
          simp only [beNat_cons, beNat_nil, List.length_cons, List.length_nil, Nat.reduceAdd, Nat.reducePow]
          have := UInt8.toNat_lt x0; have := UInt8.toNat_lt x1; have := UInt8.toNat_lt x2
          have := UInt8.toNat_lt x3; have := UInt8.toNat_lt x4; have := UInt8.toNat_lt x5
          have := UInt8.toNat_lt x6; have := UInt8.toNat_lt x7
          omega
    · simp only [h127, Bool.false_eq_true, ↓reduceIte, Option.some.injEq] at h; subst h
      refine ⟨by right; rfl, by simp, by simp, ?_⟩
      have := UInt8.toNat_lt l
      simp only; omega

theorem parseMetadata_append_ok (a b : Bytes) (s : Bool) (m : Meta) (h : parseMetadata a s = .ok m) :
    parseMetadata (a ++ b) s = .ok m := by
  unfold parseMetadata at h ⊢
  by_cases h2 : a.length < 2
  · simp [h2] at h
  · have h2' : ¬ (a ++ b).length < 2 := by simp; omega
    simp only [h2, h2', if_false] at h ⊢
    rw [getD_append_left a b 0 (by omega), getD_append_left a b 1 (by omega)]
    split at h
    · simp at h
    · rename_i c1; simp only [c1, if_false]
      split at h
      · simp at h
      · rename_i c2; simp only [c2, if_false]
        split at h
        · simp at h
        · rename_i c3; simp only [c3, if_false]
          split at h
          · simp at h
          · rename_i length idx hpl
            rw [parseLength_append a b _ _ hpl]
            simp only [] at h ⊢
            have hidx := (parseLength_bounds a _ _ hpl).1
            simp only [] at hidx
            cases s
            · simpa using h
            · simp only [if_true] at h ⊢
              by_cases h4 : a.length < idx + 4
              · simp [h4] at h
              · have : ¬ (a ++ b).length < idx + 4 := by simp; omega
                simp only [h4, this, if_false] at h ⊢
                rw [take_drop_append a b idx 4 (by omega)]; exact h

theorem parseMetadata_append_err (a b : Bytes) (s : Bool) (e : ProtocolError) (h : parseMetadata a s = .err e) :
    parseMetadata (a ++ b) s = .err e := by
  unfold parseMetadata at h ⊢
  by_cases h2 : a.length < 2
  · simp [h2] at h
  · have h2' : ¬ (a ++ b).length < 2 := by simp; omega
    simp only [h2, h2', if_false] at h ⊢
    rw [getD_append_left a b 0 (by omega), getD_append_left a b 1 (by omega)]
    split at h
    · rename_i c1; simp only [c1, if_true]; exact h
    · rename_i c1; simp only [c1, if_false]
      split at h
      · rename_i c2; simp only [c2, if_true]; exact h
      · rename_i c2; simp only [c2, if_false]
        split at h
        · rename_i c3; simp only [c3, if_true]; exact h
        · exfalso
          split at h
          · simp at h
          · split at h
            · split at h <;> simp at h
            · simp at h

/-- what an `Ok(Some(..))` of `parse_metadata` guarantees -/
theorem parseMetadata_ok_bounds (a : Bytes) (s : Bool) (m : Meta) (h : parseMetadata a s = .ok m) :
    2 ≤ m.idx ∧ m.idx ≤ a.length ∧ m.idx ≤ 14 ∧ m.op ≠ .bad ∧ m.mask.isSome = s ∧ m.length < 2 ^ 64 := by
  unfold parseMetadata at h
  by_cases h2 : a.length < 2
  · simp [h2] at h
  · simp only [h2, if_false] at h
    split at h
    · simp at h
    · split at h
      · simp at h
      · split at h
        · simp at h
        · rename_i c3
          split at h
          · simp at h
          · rename_i length idx hpl
            have hb := parseLength_bounds a _ _ hpl
            simp only [] at hb
            cases s
            · simp only [Bool.false_eq_true, if_false, MetaResult.ok.injEq] at h
              subst h
              have h22 := hb.2.2.1
              refine ⟨hb.2.1, ?_, ?_, c3, rfl, hb.2.2.2⟩
              · show idx ≤ a.length
                rcases hb.1 with h | h <;> omega
              · show idx ≤ 14; omega
            · simp only [if_true] at h
              by_cases h4 : a.length < idx + 4
              · simp [h4] at h
              · simp only [h4, if_false, MetaResult.ok.injEq] at h
                subst h
                have h21 := hb.2.1
                have h22 := hb.2.2.1
                refine ⟨?_, ?_, ?_, c3, rfl, hb.2.2.2⟩
                · show 2 ≤ idx + 4; omega
                · show idx + 4 ≤ a.length; omega
                · show idx + 4 ≤ 14; omega

/-- masking errors and reserved opcodes are decided by the first two bytes alone -/
theorem parseMetadata_head (a : Bytes) (s : Bool) (h2 : 2 ≤ a.length) :
    let first := a.getD 0 0
    let second := a.getD 1 0
    let masked := (second &&& 0x80) != 0
    (masked = false → s = true → parseMetadata a s = .err .unmaskedFrame) ∧
    (masked = true → s = false → parseMetadata a s = .err .maskedFrame) ∧
    (masked = s → OpCode.ofByte (first &&& 0x0F) = .bad →
      parseMetadata a s = .err (.invalidOpcode (first &&& 0x0F))) := by
  have h2' : ¬ a.length < 2 := by omega
  refine ⟨?_, ?_, ?_⟩
  · intro hm hs; unfold parseMetadata; simp only [h2', if_false, hm, hs]; simp
  · intro hm hs; unfold parseMetadata; simp only [h2', if_false, hm, hs]; simp
  · intro hm hb; unfold parseMetadata
    simp only [h2', if_false, hm, hb]
    cases s <;> simp

/-! ## parse -/

/-- the buffer's address never matters -/
theorem parse_align (al al' : Nat) (src : Bytes) (s : Bool) (mx : Nat) :
    parse al src s mx = parse al' src s mx := by
  unfold parse; simp only [applyMask_eq]

/-- unmasked payload of a frame whose header is `m` -/
def payloadOf (src : Bytes) (m : Meta) : Bytes :=
  match m.mask with
  | some k => applyMaskFallback ((src.drop m.idx).take m.length) k
  | none => (src.drop m.idx).take m.length

/-- `parse` as a flat decision list over the parsed header (the second `checked_add` is dead) -/
theorem parse_of_meta (al : Nat) (src : Bytes) (s : Bool) (mx : Nat) (m : Meta)
    (hm : parseMetadata src s = .ok m) :
    parse al src s mx =
      if usizeMax < m.idx + m.length then (.err .overflow, src)
      else if src.length < m.idx + m.length then
        (if m.length > mx then .err .overflow else .needMore, src)
      else if m.length > mx then (.err .overflow, (src.drop m.idx).drop m.length)
      else if m.length = 0 then (.frame m.fin m.op none, src.drop m.idx)
      else if (m.op = .ping ∨ m.op = .pong) ∧ m.length > 125 then
        (.err (.invalidLength m.length), (src.drop m.idx).drop m.length)
      else if m.op = .close ∧ m.length > 125 then (.frame true .close none, (src.drop m.idx).drop m.length)
      else (.frame m.fin m.op (some (payloadOf src m)), (src.drop m.idx).drop m.length) := by
  unfold parse
  simp only [hm, checkedAdd]
  by_cases h1 : usizeMax < m.idx + m.length
  · have : ¬ m.idx + m.length ≤ usizeMax := by omega
    simp [this, h1]
  · have h1' : m.idx + m.length ≤ usizeMax := by omega
    simp only [h1', h1, if_true, if_false]
    by_cases h2 : src.length < m.idx + m.length
    · simp only [h2, if_true]
      by_cases h3 : m.length > mx
      · simp [h3]
      · have : m.idx + min m.length mx ≤ usizeMax := by
          have : min m.length mx ≤ m.length := Nat.min_le_left _ _
          omega
        simp [h3, this]
    · simp only [h2, if_false]
      by_cases h3 : m.length > mx
      · simp [h3]
      · simp only [h3, if_false]
        by_cases h4 : m.length = 0
        · simp [h4]
        · simp only [h4, if_false]
          by_cases h5 : (m.op = .ping ∨ m.op = .pong) ∧ m.length > 125
          · simp [h5]
          · simp only [h5, if_false]
            by_cases h6 : m.op = .close ∧ m.length > 125
            · simp [h6]
            · simp only [h6, if_false, payloadOf, applyMask_eq]
              cases m.mask <;> rfl

theorem parse_of_meta_err (al : Nat) (src : Bytes) (s : Bool) (mx : Nat) (e : ProtocolError)
    (hm : parseMetadata src s = .err e) : parse al src s mx = (.err e, src) := by
  unfold parse; simp only [hm]

theorem parse_of_meta_needMore (al : Nat) (src : Bytes) (s : Bool) (mx : Nat)
    (hm : parseMetadata src s = .needMore) : parse al src s mx = (.needMore, src) := by
  unfold parse; simp only [hm]

theorem drop_drop_append (a b : Bytes) (i n : Nat) (h : i + n ≤ a.length) :
    ((a ++ b).drop i).drop n = (a.drop i).drop n ++ b := by
  rw [List.drop_append_of_le_length (by omega), List.drop_append_of_le_length (by simp; omega)]

theorem payloadOf_append (a b : Bytes) (m : Meta) (h : m.idx + m.length ≤ a.length) :
    payloadOf (a ++ b) m = payloadOf a m := by
  unfold payloadOf
  rw [take_drop_append a b _ _ h]

/-- **prefix stability**: once `parse` has answered something other than "need more" on a
buffer, it gives the same answer on every extension of that buffer, and a delivered frame leaves
exactly the old rest plus the new bytes. -/
theorem parse_append (al al' : Nat) (a b : Bytes) (s : Bool) (mx : Nat)
    (hne : (parse al a s mx).1 ≠ .needMore) :
    (parse al' (a ++ b) s mx).1 = (parse al a s mx).1 ∧
    (∀ f o p, (parse al a s mx).1 = .frame f o p → (parse al' (a ++ b) s mx).2 = (parse al a s mx).2 ++ b) := by
  cases hm : parseMetadata a s with
  | needMore => rw [parse_of_meta_needMore al a s mx hm] at hne; exact absurd rfl hne
  | err e =>
    rw [parse_of_meta_err al a s mx e hm, parse_of_meta_err al' (a ++ b) s mx e (parseMetadata_append_err a b s e hm)]
    simp
  | ok m =>
    have hm' := parseMetadata_append_ok a b s m hm
    rw [parse_of_meta al a s mx m hm] at hne ⊢
    rw [parse_of_meta al' (a ++ b) s mx m hm']
    by_cases h1 : usizeMax < m.idx + m.length
    · simp only [h1, if_true]; simp
    · simp only [h1, if_false] at hne ⊢
      by_cases h2 : a.length < m.idx + m.length
      · simp only [h2, if_true] at hne ⊢
        by_cases h3 : m.length > mx
        · simp only [h3, if_true]
          refine ⟨?_, fun f o p h => by simp at h⟩
          split <;> rfl
        · simp [h3] at hne
      · have h2' : ¬ (a ++ b).length < m.idx + m.length := by simp; omega
        have hle : m.idx + m.length ≤ a.length := by omega
        simp only [h2, h2', if_false]
        rw [drop_drop_append a b _ _ hle, payloadOf_append a b m hle,
          List.drop_append_of_le_length (show m.idx ≤ a.length by omega)]
        by_cases h3 : m.length > mx
        · simp only [h3, if_true]; simp
        · simp only [h3, if_false]
          by_cases h4 : m.length = 0
          · simp only [h4, if_true]; simp
          · simp only [h4, if_false]
            by_cases h5 : (m.op = .ping ∨ m.op = .pong) ∧ m.length > 125
            · simp only [h5, if_true]; simp
            · simp only [h5, if_false]
              by_cases h6 : m.op = .close ∧ m.length > 125
              · simp only [h6, if_true]; simp
              · simp only [h6, if_false]; simp

/-- "need more" never consumes, and a delivered frame consumes at least its two header bytes -/
theorem parse_needMore_rest (al : Nat) (a : Bytes) (s : Bool) (mx : Nat) (r : Bytes)
    (h : parse al a s mx = (.needMore, r)) : r = a := by
  cases hm : parseMetadata a s with
  | needMore => rw [parse_of_meta_needMore al a s mx hm] at h; exact (Prod.mk.inj h).2.symm
  | err e => rw [parse_of_meta_err al a s mx e hm] at h; simp at h
  | ok m =>
    rw [parse_of_meta al a s mx m hm] at h
    repeat' split at h
    all_goals first | (exact (Prod.mk.inj h).2.symm) | (simp at h)

theorem parse_frame_rest (al : Nat) (a : Bytes) (s : Bool) (mx : Nat) (f : Bool) (o : OpCode) (p : Option Bytes) (r : Bytes)
    (h : parse al a s mx = (.frame f o p, r)) :
    ∃ m, parseMetadata a s = .ok m ∧ m.idx + m.length ≤ a.length ∧ r = a.drop (m.idx + m.length) ∧
      m.length ≤ mx ∧ (p = none ∨ p = some (payloadOf a m) ∧ m.length ≠ 0) := by
  cases hm : parseMetadata a s with
  | needMore => rw [parse_of_meta_needMore al a s mx hm] at h; simp at h
  | err e => rw [parse_of_meta_err al a s mx e hm] at h; simp at h
  | ok m =>
    refine ⟨m, rfl, ?_⟩
    rw [parse_of_meta al a s mx m hm] at h
    by_cases h1 : usizeMax < m.idx + m.length
    · simp [h1] at h
    · simp only [h1, if_false] at h
      by_cases h2 : a.length < m.idx + m.length
      · simp only [h2, if_true] at h
        split at h <;> simp at h
      · simp only [h2, if_false] at h
        by_cases h3 : m.length > mx
        · simp [h3] at h
        · simp only [h3, if_false] at h
          refine ⟨by omega, ?_, by omega, ?_⟩
          · by_cases h4 : m.length = 0
            · simp only [h4, if_true, Prod.mk.injEq] at h
              rw [← h.2, h4]; simp
            · simp only [h4, if_false] at h
              rw [List.drop_drop] at h
              repeat' split at h
              all_goals first | (simp at h; done) | (exact (Prod.mk.inj h).2.symm)
          · by_cases h4 : m.length = 0
            · simp only [h4, if_true, Prod.mk.injEq, ParseOut.frame.injEq] at h
              left; exact h.1.2.2.symm
            · simp only [h4, if_false] at h
              repeat' split at h
              all_goals first
                | (simp at h; done)
                | (left; exact ((ParseOut.frame.inj (Prod.mk.inj h).1).2.2).symm)
                | (right; exact ⟨((ParseOut.frame.inj (Prod.mk.inj h).1).2.2).symm, h4⟩)

theorem parse_frame_rest_lt (al : Nat) (a : Bytes) (s : Bool) (mx : Nat) (f : Bool) (o : OpCode) (p : Option Bytes) (r : Bytes)
    (h : parse al a s mx = (.frame f o p, r)) : r.length + 2 ≤ a.length := by
  obtain ⟨m, hm, hle, hr, _, _⟩ := parse_frame_rest al a s mx f o p r h
  have hb := parseMetadata_ok_bounds a s m hm
  rw [hr, List.length_drop]; omega

/-! ## write_message, taken apart -/

/-- 7-bit length code -/
def len7 (n : Nat) : UInt8 := if n < 126 then UInt8.ofNat n else if n ≤ 65535 then 126 else 127
/-- extended length bytes -/
def lenExt (n : Nat) : Bytes := if n < 126 then [] else if n ≤ 65535 then beBytes 2 n else beBytes 8 n

theorem len7_lt (n : Nat) : (len7 n).toNat < 128 := by
  unfold len7
  split
  · rw [UInt8.toNat_ofNat']; omega
  · split <;> decide

theorem tbl_second' (x : UInt8) (h : x.toNat < 128) :
    (((0x80 : UInt8) ||| x) &&& 0x80 != 0) = true ∧ ((0x80 : UInt8) ||| x) &&& 0x7F = x ∧
    (((0 : UInt8) ||| x) &&& 0x80 != 0) = false ∧ ((0 : UInt8) ||| x) &&& 0x7F = x := by
  have := tbl_second x.toNat h
  simpa using this

theorem writeMessage_eq (al : Nat) (payload : Bytes) (op : OpCode) (fin : Bool) (mk : Option Mask) :
    writeMessage al payload op fin mk =
      (if fin then 0x80 ||| op.toByte else op.toByte) ::
        ((if mk.isSome then 0x80 else 0) ||| len7 payload.length) ::
          (lenExt payload.length ++
            (match mk with
             | some k => k.toList ++ applyMaskFallback payload k
             | none => payload)) := by
  unfold writeMessage len7 lenExt
  by_cases h1 : payload.length < 126
  · cases mk <;> simp [h1, applyMask_eq]
  · by_cases h2 : payload.length ≤ 65535
    · cases mk <;> simp [h1, h2, applyMask_eq]
    · cases mk <;> simp [h1, h2, applyMask_eq]

theorem parseLength_written (b0 b1 : UInt8) (n : Nat) (tail : Bytes) (hn : n < 2 ^ 64) :
    parseLength (b0 :: b1 :: (lenExt n ++ tail)) (len7 n) = some (n, 2 + (lenExt n).length) := by
  unfold parseLength len7 lenExt
  by_cases h1 : n < 126
  · have e1 : ¬ (UInt8.ofNat n == 126) = true := by
      intro h; have := congrArg UInt8.toNat (eq_of_beq h); rw [UInt8.toNat_ofNat'] at this
      have : n % 256 = 126 := this
      omega
    have e2 : ¬ (UInt8.ofNat n == 127) = true := by
      intro h; have := congrArg UInt8.toNat (eq_of_beq h); rw [UInt8.toNat_ofNat'] at this
      have : n % 256 = 127 := this
      omega
    simp only [h1, if_true, e1, e2, Bool.false_eq_true, if_false, List.length_nil, UInt8.toNat_ofNat']
    congr 2
    omega
  · simp only [h1, if_false]
    by_cases h2 : n ≤ 65535
    · simp only [h2, if_true]
      have : ((126 : UInt8) == 126) = true := by decide
      simp only [this, if_true, List.length_cons, List.length_append, beBytes_length, List.drop_succ_cons, List.drop_zero]
      have : ¬ (2 + tail.length + 1 + 1 < 4) := by omega
      simp only [this, if_false]
      rw [List.take_left' (beBytes_length 2 n), beNat_beBytes]
      congr 2
      have : (256 : Nat) ^ 2 = 65536 := by decide
      omega
    · simp only [h2, if_false]
      have e1 : ((127 : UInt8) == 126) = false := by decide
      have e2 : ((127 : UInt8) == 127) = true := by decide
      simp only [e1, e2, Bool.false_eq_true, if_true, if_false, List.length_cons, List.length_append, beBytes_length, List.drop_succ_cons, List.drop_zero]
      have : ¬ (8 + tail.length + 1 + 1 < 10) := by omega
      simp only [this, if_false]
      rw [List.take_left' (beBytes_length 8 n), beNat_beBytes]
      congr 2
      have : (256 : Nat) ^ 8 = 2 ^ 64 := by decide
      omega

theorem Mask.ofList_toList (k : Mask) (t : Bytes) : Mask.ofList ((k.toList ++ t).take 4) = k := by
  cases k; simp [Mask.toList, Mask.ofList]

/-- body of a written frame -/
def bodyOf (payload : Bytes) : Option Mask → Bytes
  | some k => applyMaskFallback payload k
  | none => payload

@[simp] theorem bodyOf_length (payload : Bytes) (mk : Option Mask) : (bodyOf payload mk).length = payload.length := by
  cases mk <;> simp [bodyOf]

/-- header length of a written frame -/
def hdrLen (n : Nat) (mk : Option Mask) : Nat := 2 + (lenExt n).length + (if mk.isSome then 4 else 0)

theorem parseMetadata_written (al : Nat) (payload rest : Bytes) (op : OpCode) (fin : Bool) (mk : Option Mask)
    (hop : op ≠ .bad) (hn : payload.length < 2 ^ 64) :
    parseMetadata (writeMessage al payload op fin mk ++ rest) mk.isSome =
      .ok ⟨hdrLen payload.length mk, fin, op, payload.length, mk⟩ ∧
    (writeMessage al payload op fin mk ++ rest).drop (hdrLen payload.length mk) = bodyOf payload mk ++ rest := by
  rw [writeMessage_eq]
  have t := tbl_second' (len7 payload.length) (len7_lt _)
  cases mk with
  | none =>
    simp only [Option.isSome_none, Bool.false_eq_true, if_false, List.cons_append, List.append_assoc, hdrLen, bodyOf, Nat.add_zero]
    constructor
    · unfold parseMetadata
      simp only [List.length_cons, List.getD_cons_zero, List.getD_cons_succ, tbl_first_fin, tbl_first_op fin op hop, t.2.2.1, t.2.2.2]
      have : ¬ (lenExt payload.length ++ (payload ++ rest)).length + 1 + 1 < 2 := by omega
      simp only [this, if_false, hop, Bool.not_false, Bool.and_false, Bool.false_and, Bool.false_eq_true,
        parseLength_written _ _ _ _ hn]
    · rw [show 2 + (lenExt payload.length).length = (lenExt payload.length).length + 1 + 1 by omega]
      simp only [List.drop_succ_cons]
      exact List.drop_left' rfl
  | some k =>
    simp only [Option.isSome_some, if_true, List.cons_append, List.append_assoc, hdrLen, bodyOf]
    constructor
    · unfold parseMetadata
      simp only [List.length_cons, List.getD_cons_zero, List.getD_cons_succ, tbl_first_fin, tbl_first_op fin op hop, t.1, t.2.1]
      have : ¬ (lenExt payload.length ++ (k.toList ++ (applyMaskFallback payload k ++ rest))).length + 1 + 1 < 2 := by omega
      simp only [this, if_false, hop, Bool.not_true, Bool.and_true, Bool.true_and, Bool.false_eq_true, if_true,
        parseLength_written _ _ _ _ hn]
      have hl : ¬ (lenExt payload.length ++ (k.toList ++ (applyMaskFallback payload k ++ rest))).length + 1 + 1 <
          2 + (lenExt payload.length).length + 4 := by
        simp [Mask.toList]; omega
      simp only [hl, if_false]
      rw [show 2 + (lenExt payload.length).length = (lenExt payload.length).length + 1 + 1 by omega]
      simp only [List.drop_succ_cons]
      rw [List.drop_left' rfl, Mask.ofList_toList]
    · rw [show 2 + (lenExt payload.length).length + 4 = ((lenExt payload.length).length + 4) + 1 + 1 by omega]
      simp only [List.drop_succ_cons]
      rw [← List.append_assoc]
      exact List.drop_left' (by simp [Mask.toList])

theorem hdrLen_le (n : Nat) (mk : Option Mask) : hdrLen n mk ≤ 14 := by
  unfold hdrLen lenExt
  split
  · split <;> simp
  · split <;> split <;> simp

/-- **frame round trip** at the `Parser` level -/
theorem parse_written (al al' : Nat) (payload rest : Bytes) (op : OpCode) (fin : Bool) (mk : Option Mask) (maxSize : Nat)
    (hop : op ≠ .bad) (hn : payload.length < 2 ^ 63) (hmx : payload.length ≤ maxSize)
    (hctl : op = .ping ∨ op = .pong ∨ op = .close → payload.length ≤ 125) :
    parse al' (writeMessage al payload op fin mk ++ rest) mk.isSome maxSize =
      (.frame fin op (if payload.length = 0 then none else some payload), rest) := by
  obtain ⟨hm, hdrop⟩ := parseMetadata_written al payload rest op fin mk hop (by omega)
  have hb := parseMetadata_ok_bounds _ _ _ hm
  have hh := hdrLen_le payload.length mk
  rw [parse_of_meta al' _ _ maxSize _ hm]
  simp only [] at hb ⊢
  have hlen : (writeMessage al payload op fin mk ++ rest).length = hdrLen payload.length mk + payload.length + rest.length := by
    have := congrArg List.length hdrop
    simp only [List.length_drop, List.length_append, bodyOf_length] at this
    have := hb.2.1
    simp only [List.length_append] at this ⊢
    omega
  have c1 : ¬ usizeMax < hdrLen payload.length mk + payload.length := by
    unfold usizeMax; omega
  have c2 : ¬ (writeMessage al payload op fin mk ++ rest).length < hdrLen payload.length mk + payload.length := by omega
  have c3 : ¬ payload.length > maxSize := by omega
  simp only [c1, c2, c3, if_false, hdrop]
  by_cases h0 : payload.length = 0
  · simp only [h0, if_true]
    have : payload = [] := List.eq_nil_of_length_eq_zero h0
    subst this
    cases mk <;> simp [bodyOf, applyMaskFallback, maskFrom]
  · simp only [h0, if_false]
    have c5 : ¬ ((op = .ping ∨ op = .pong) ∧ payload.length > 125) := by
      rintro ⟨h | h, hgt⟩
      · have := hctl (Or.inl h); omega
      · have := hctl (Or.inr (Or.inl h)); omega
    have c6 : ¬ (op = .close ∧ payload.length > 125) := by
      rintro ⟨h, hgt⟩
      have := hctl (Or.inr (Or.inr h)); omega
    simp only [c5, c6, if_false]
    have hp : payloadOf (writeMessage al payload op fin mk ++ rest) ⟨hdrLen payload.length mk, fin, op, payload.length, mk⟩ = payload := by
      unfold payloadOf
      simp only [hdrop]
      rw [List.take_left' (bodyOf_length payload mk)]
      cases mk with
      | none => rfl
      | some k => exact maskFrom_involutive k 0 payload
    rw [hp, List.drop_left' (bodyOf_length payload mk)]

end ActixModel.Ws
