import ActixModel.Proofs.Ws
/-
Helper lemmas for `codec.rs` and the read loop: `decode` / `drain` under buffer extension,
quiescence, one read of `x ++ y` = a read of `x` then a read of `y`.
-/
set_option linter.unusedSimpArgs false
namespace ActixModel.Ws
open ActixModel.Util

/-! ## Codec::decode -/

theorem decode_align (c : Codec) (al al' : Nat) (a : Bytes) : c.decode al a = c.decode al' a := by
  unfold Codec.decode; rw [parse_align al al']

theorem decode_needMore (c : Codec) (al : Nat) (a : Bytes) (c' : Codec) (r : Bytes)
    (h : c.decode al a = (.needMore, c', r)) : c' = c ∧ r = a := by
  unfold Codec.decode at h
  cases hp : parse al a c.server c.maxSize with
  | mk o rest =>
    rw [hp] at h
    cases o with
    | needMore =>
      simp only [Prod.mk.injEq, true_and] at h
      exact ⟨h.1.symm, by rw [← h.2]; exact parse_needMore_rest al a _ _ rest hp⟩
    | err e => simp at h
    | frame fin op pl =>
      simp only [] at h
      cases hf : c.onFrame fin op pl with
      | mk o2 c2 =>
        rw [hf] at h
        simp only [Prod.mk.injEq] at h
        -- onFrame never answers "need more"
        exfalso
        have : o2 ≠ .needMore := by
          unfold Codec.onFrame at hf
          repeat' split at hf
          all_goals (first | (simp only [Prod.mk.injEq] at hf; rw [← hf.1]; simp))
        exact this h.1

theorem decode_frame (c : Codec) (al : Nat) (a : Bytes) (f : Frame) (c' : Codec) (r : Bytes)
    (h : c.decode al a = (.frame f, c', r)) :
    ∃ fin op pl, parse al a c.server c.maxSize = (.frame fin op pl, r) ∧ c.onFrame fin op pl = (.frame f, c') := by
  unfold Codec.decode at h
  cases hp : parse al a c.server c.maxSize with
  | mk o rest =>
    rw [hp] at h
    cases o with
    | needMore => simp at h
    | err e => simp at h
    | frame fin op pl =>
      simp only [] at h
      cases hf : c.onFrame fin op pl with
      | mk o2 c2 =>
        rw [hf] at h
        simp only [Prod.mk.injEq] at h
        exact ⟨fin, op, pl, by rw [h.2.2], by rw [hf, h.1, h.2.1]⟩

theorem decode_frame_lt (c : Codec) (al : Nat) (a : Bytes) (f : Frame) (c' : Codec) (r : Bytes)
    (h : c.decode al a = (.frame f, c', r)) : r.length + 2 ≤ a.length := by
  obtain ⟨fin, op, pl, hp, _⟩ := decode_frame c al a f c' r h
  exact parse_frame_rest_lt al a _ _ fin op pl r hp

theorem decode_append_frame (c : Codec) (al al' : Nat) (a b : Bytes) (f : Frame) (c' : Codec) (r : Bytes)
    (h : c.decode al a = (.frame f, c', r)) : c.decode al' (a ++ b) = (.frame f, c', r ++ b) := by
  obtain ⟨fin, op, pl, hp, hf⟩ := decode_frame c al a f c' r h
  have hs := parse_append al al' a b c.server c.maxSize (by rw [hp]; simp)
  rw [hp] at hs
  have h2 := hs.2 fin op pl rfl
  unfold Codec.decode
  cases hq : parse al' (a ++ b) c.server c.maxSize with
  | mk o rest =>
    rw [hq] at hs h2
    simp only [] at hs h2
    rw [hs.1, h2]
    simp only [hf]

theorem decode_append_err (c : Codec) (al al' : Nat) (a b : Bytes) (e : ProtocolError) (c' : Codec) (r : Bytes)
    (h : c.decode al a = (.err e, c', r)) : ∃ r', c.decode al' (a ++ b) = (.err e, c', r') := by
  unfold Codec.decode at h ⊢
  cases hp : parse al a c.server c.maxSize with
  | mk o rest =>
    rw [hp] at h
    have hs := parse_append al al' a b c.server c.maxSize
    rw [hp] at hs
    cases hq : parse al' (a ++ b) c.server c.maxSize with
    | mk o2 rest2 =>
      rw [hq] at hs
      simp only [] at hs
      cases o with
      | needMore => simp at h
      | err e0 =>
        have := (hs (by simp)).1
        subst this
        simp only [Prod.mk.injEq, DecodeOut.err.injEq] at h
        exact ⟨rest2, by simp [h.1, h.2.1]⟩
      | frame fin op pl =>
        have := (hs (by simp)).1
        subst this
        simp only [] at h ⊢
        cases hf : c.onFrame fin op pl with
        | mk o3 c3 =>
          rw [hf] at h
          simp only [Prod.mk.injEq] at h
          exact ⟨rest2, by simp [h.1, h.2.1]⟩

/-! ## drain: decode until `None` / error -/

theorem drain_of_needMore (c : Codec) (al : Nat) (a : Bytes) (c' : Codec) (r : Bytes)
    (h : c.decode al a = (.needMore, c', r)) : drain c al a = ([], .needMore, c', r) := by
  rw [drain]; simp only [h]

theorem drain_of_err (c : Codec) (al : Nat) (a : Bytes) (e : ProtocolError) (c' : Codec) (r : Bytes)
    (h : c.decode al a = (.err e, c', r)) : drain c al a = ([], .err e, c', r) := by
  rw [drain]; simp only [h]

theorem drain_of_frame (c : Codec) (al : Nat) (a : Bytes) (f : Frame) (c' : Codec) (r : Bytes)
    (h : c.decode al a = (.frame f, c', r)) :
    drain c al a =
      (f :: (drain c' ((al + (a.length - r.length)) % 4) r).1, (drain c' ((al + (a.length - r.length)) % 4) r).2.1,
        (drain c' ((al + (a.length - r.length)) % 4) r).2.2.1, (drain c' ((al + (a.length - r.length)) % 4) r).2.2.2) := by
  have hlt := decode_frame_lt c al a f c' r h
  rw [drain]; simp only [h]
  have : r.length < a.length := by omega
  simp only [this, dite_true]

theorem drain_align (c : Codec) (al al' : Nat) (a : Bytes) : drain c al a = drain c al' a := by
  induction hn : a.length using Nat.strongRecOn generalizing c al al' a with
  | _ n ih =>
    cases hd : c.decode al a with
    | mk o rest =>
      obtain ⟨c', r⟩ := rest
      have hd' : c.decode al' a = (o, c', r) := by rw [decode_align c al' al]; exact hd
      cases o with
      | needMore => rw [drain_of_needMore c al a c' r hd, drain_of_needMore c al' a c' r hd']
      | err e => rw [drain_of_err c al a e c' r hd, drain_of_err c al' a e c' r hd']
      | frame f =>
        rw [drain_of_frame c al a f c' r hd, drain_of_frame c al' a f c' r hd']
        have hlt := decode_frame_lt c al a f c' r hd
        rw [ih r.length (by omega) c' ((al + (a.length - r.length)) % 4) ((al' + (a.length - r.length)) % 4) r rfl]

/-- what `drain` on an extended buffer does, given what it did on the buffer -/
theorem drain_append (c : Codec) (al al' : Nat) (a b : Bytes) :
    (∀ fs c' r, drain c al a = (fs, .needMore, c', r) →
      drain c al' (a ++ b) =
        (fs ++ (drain c' 0 (r ++ b)).1, (drain c' 0 (r ++ b)).2.1, (drain c' 0 (r ++ b)).2.2.1, (drain c' 0 (r ++ b)).2.2.2)) ∧
    (∀ fs e c' r, drain c al a = (fs, .err e, c', r) → ∃ r', drain c al' (a ++ b) = (fs, .err e, c', r')) := by
  induction hn : a.length using Nat.strongRecOn generalizing c al al' a with
  | _ n ih =>
    cases hd : c.decode al a with
    | mk o rest =>
      obtain ⟨c1, r1⟩ := rest
      cases o with
      | needMore =>
        rw [drain_of_needMore c al a c1 r1 hd]
        obtain ⟨hc, hr⟩ := decode_needMore c al a c1 r1 hd
        subst hc; subst hr
        constructor
        · intro fs c' r h
          simp only [Prod.mk.injEq] at h
          obtain ⟨h1, _, h3, h4⟩ := h
          subst h1; subst h3; subst h4
          rw [drain_align c1 al' 0]; simp
        · intro fs e c' r h; simp at h
      | err e =>
        rw [drain_of_err c al a e c1 r1 hd]
        constructor
        · intro fs c' r h; simp at h
        · intro fs e' c' r h
          simp only [Prod.mk.injEq, Terminal.err.injEq] at h
          obtain ⟨h1, h2, h3, h4⟩ := h
          subst h1; subst h2; subst h3; subst h4
          obtain ⟨r', hr'⟩ := decode_append_err c al al' a b e c1 r1 hd
          exact ⟨r', drain_of_err c al' (a ++ b) e c1 r' hr'⟩
      | frame f =>
        have hlt := decode_frame_lt c al a f c1 r1 hd
        have hd' := decode_append_frame c al al' a b f c1 r1 hd
        rw [drain_of_frame c al a f c1 r1 hd, drain_of_frame c al' (a ++ b) f c1 (r1 ++ b) hd']
        have IH := ih r1.length (by omega) c1 ((al + (a.length - r1.length)) % 4)
          ((al' + ((a ++ b).length - (r1 ++ b).length)) % 4) r1 rfl
        constructor
        · intro fs c' r h
          simp only [Prod.mk.injEq] at h
          obtain ⟨h1, h2, h3, h4⟩ := h
          have hh : drain c1 ((al + (a.length - r1.length)) % 4) r1 =
              ((drain c1 ((al + (a.length - r1.length)) % 4) r1).1, .needMore, c', r) := by
            rw [← h2, ← h3, ← h4]
          rw [IH.1 _ c' r hh, ← h1]
          simp
        · intro fs e c' r h
          simp only [Prod.mk.injEq] at h
          obtain ⟨h1, h2, h3, h4⟩ := h
          have hh : drain c1 ((al + (a.length - r1.length)) % 4) r1 =
              ((drain c1 ((al + (a.length - r1.length)) % 4) r1).1, .err e, c', r) := by
            rw [← h2, ← h3, ← h4]
          obtain ⟨r', hr'⟩ := IH.2 _ e c' r hh
          refine ⟨r', ?_⟩
          rw [hr', ← h1]

/-- a buffer on which `drain` stopped with "need more" is quiescent -/
theorem drain_needMore_fix (c : Codec) (al al' : Nat) (a : Bytes) (fs : List Frame) (c' : Codec) (r : Bytes)
    (h : drain c al a = (fs, .needMore, c', r)) : drain c' al' r = ([], .needMore, c', r) := by
  induction hn : a.length using Nat.strongRecOn generalizing c al a fs with
  | _ n ih =>
    cases hd : c.decode al a with
    | mk o rest =>
      obtain ⟨c1, r1⟩ := rest
      cases o with
      | needMore =>
        rw [drain_of_needMore c al a c1 r1 hd] at h
        obtain ⟨hc, hr⟩ := decode_needMore c al a c1 r1 hd
        simp only [Prod.mk.injEq, true_and] at h
        obtain ⟨_, h3, h4⟩ := h
        subst h3; subst h4; subst hc; subst hr
        rw [decode_align c1 al al'] at hd
        exact drain_of_needMore c1 al' r1 c1 r1 hd
      | err e => rw [drain_of_err c al a e c1 r1 hd] at h; simp at h
      | frame f =>
        have hlt := decode_frame_lt c al a f c1 r1 hd
        rw [drain_of_frame c al a f c1 r1 hd] at h
        simp only [Prod.mk.injEq] at h
        obtain ⟨_, h2, h3, h4⟩ := h
        exact ih r1.length (by omega) c1 _ r1 (drain c1 ((al + (a.length - r1.length)) % 4) r1).1
          (by rw [← h2, ← h3, ← h4]) rfl

/-! ## Conn: feeding segments -/

/-- nothing decodable is left in the buffer of a live connection -/
def Quiescent (s : Conn) : Prop :=
  s.dead = none → drain s.codec 0 s.buf = ([], .needMore, s.codec, s.buf)

/-- same observable outcome: same frames, same error state, and — while alive — same flags and
same undecoded rest -/
def Sim (r r' : List Frame × Conn) : Prop :=
  r.1 = r'.1 ∧ r.2.dead = r'.2.dead ∧ (r'.2.dead = none → r.2.codec = r'.2.codec ∧ r.2.buf = r'.2.buf)

theorem feed_dead (s : Conn) (al : Nat) (seg : Bytes) (e : ProtocolError) (h : s.dead = some e) :
    s.feed al seg = ([], s) := by
  unfold Conn.feed; simp only [h]

theorem feed_live (s : Conn) (al : Nat) (seg : Bytes) (h : s.dead = none) :
    s.feed al seg =
      ((drain s.codec 0 (s.buf ++ seg)).1,
        { codec := (drain s.codec 0 (s.buf ++ seg)).2.2.1, buf := (drain s.codec 0 (s.buf ++ seg)).2.2.2,
          dead := match (drain s.codec 0 (s.buf ++ seg)).2.1 with | .err e => some e | .needMore => none }) := by
  unfold Conn.feed; simp only [h]; rw [drain_align s.codec al 0]; rfl

theorem quiescent_init (c : Codec) : Quiescent { codec := c } := by
  intro _
  apply drain_of_needMore
  unfold Codec.decode parse parseMetadata
  simp

theorem feed_quiescent (s : Conn) (al : Nat) (seg : Bytes) : Quiescent (s.feed al seg).2 := by
  cases hd : s.dead with
  | some e => rw [feed_dead s al seg e hd]; intro h; simp [hd] at h
  | none =>
    rw [feed_live s al seg hd]
    intro h
    simp only [] at h ⊢
    cases ht : (drain s.codec 0 (s.buf ++ seg)).2.1 with
    | err e => rw [ht] at h; simp at h
    | needMore =>
      exact drain_needMore_fix s.codec 0 0 (s.buf ++ seg) (drain s.codec 0 (s.buf ++ seg)).1 _ _
        (by rw [← ht])

theorem feedAll_dead (s : Conn) (al : Nat) (segs : List Bytes) (e : ProtocolError) (h : s.dead = some e) :
    Conn.feedAll s al segs = ([], s) := by
  induction segs with
  | nil => rfl
  | cons x xs ih => simp only [Conn.feedAll, feed_dead s al x e h, ih, List.append_nil]

/-- one read of `x ++ y` = a read of `x` followed by a read of `y` -/
theorem feed_append (s : Conn) (al al1 al2 : Nat) (x y : Bytes) :
    Sim (s.feed al (x ++ y)) ((s.feed al1 x).1 ++ ((s.feed al1 x).2.feed al2 y).1, ((s.feed al1 x).2.feed al2 y).2) := by
  cases hd : s.dead with
  | some e =>
    rw [feed_dead s al _ e hd, feed_dead s al1 x e hd]
    simp only [feed_dead s al2 y e hd]
    exact ⟨rfl, rfl, fun _ => ⟨rfl, rfl⟩⟩
  | none =>
    rw [feed_live s al _ hd, feed_live s al1 x hd]
    have ha := drain_append s.codec 0 0 (s.buf ++ x) y
    rw [← List.append_assoc]
    cases ht : (drain s.codec 0 (s.buf ++ x)).2.1 with
    | needMore =>
      have h1 := ha.1 (drain s.codec 0 (s.buf ++ x)).1 (drain s.codec 0 (s.buf ++ x)).2.2.1
        (drain s.codec 0 (s.buf ++ x)).2.2.2 (by rw [← ht])
      simp only []
      rw [feed_live _ al2 y rfl]
      simp only [h1]
      exact ⟨rfl, rfl, fun _ => ⟨rfl, rfl⟩⟩
    | err e =>
      obtain ⟨r', h2⟩ := ha.2 (drain s.codec 0 (s.buf ++ x)).1 e (drain s.codec 0 (s.buf ++ x)).2.2.1
        (drain s.codec 0 (s.buf ++ x)).2.2.2 (by rw [← ht])
      simp only []
      rw [feed_dead _ al2 y e rfl]
      simp only [h2, List.append_nil]
      exact ⟨rfl, rfl, fun h => by simp at h⟩

/-- **segmentation independence** for a quiescent connection state -/
theorem feedAll_eq_feed (s : Conn) (al al' : Nat) (segs : List Bytes) (hq : Quiescent s) :
    Sim (Conn.feedAll s al segs) (s.feed al' segs.flatten) := by
  induction segs generalizing s with
  | nil =>
    cases hd : s.dead with
    | some e => simp only [Conn.feedAll, List.flatten_nil, feed_dead s al' [] e hd]; exact ⟨rfl, rfl, fun _ => ⟨rfl, rfl⟩⟩
    | none =>
      simp only [Conn.feedAll, List.flatten_nil]
      rw [feed_live s al' [] hd, List.append_nil, hq hd]
      exact ⟨rfl, hd, fun _ => ⟨rfl, rfl⟩⟩
  | cons x xs ih =>
    have IH := ih (s.feed al x).2 (feed_quiescent s al x)
    have FA := feed_append s al' al al' x xs.flatten
    simp only [Conn.feedAll, List.flatten_cons]
    obtain ⟨i1, i2, i3⟩ := IH
    obtain ⟨f1, f2, f3⟩ := FA
    refine ⟨?_, ?_, ?_⟩
    · simp only [] at f1 i1 ⊢; rw [f1, i1]
    · simp only [] at f2 i2 ⊢; rw [f2, i2]
    · intro h
      simp only [] at f2 f3 i3 h ⊢
      have h' := f2 ▸ h
      have := i3 h'
      have := f3 h'
      constructor
      · rw [(i3 h').1, (f3 h').1]
      · rw [(i3 h').2, (f3 h').2]

/-! ## the continuation state machine -/

/-- effect of one delivered frame on the "inside a fragmented message" flag; `none` = the frame
may not occur in that state -/
def Frame.step (o : Bool) : Frame → Option Bool
  | .continuation (.firstText _) => if o then none else some true
  | .continuation (.firstBinary _) => if o then none else some true
  | .continuation (.continue _) => if o then some true else none
  | .continuation (.last _) => if o then some false else none
  | _ => some o

/-- run the flag through a frame sequence -/
def bracket : Bool → List Frame → Option Bool
  | o, [] => some o
  | o, f :: fs => match f.step o with
    | some o' => bracket o' fs
    | none => none

theorem bracket_append (o : Bool) (a b : List Frame) :
    bracket o (a ++ b) = (bracket o a).bind (fun o' => bracket o' b) := by
  induction a generalizing o with
  | nil => simp [bracket]
  | cons f fs ih =>
    simp only [List.cons_append, bracket]
    cases f.step o with
    | none => simp
    | some o' => simp [ih]

/-- `onFrame` never changes role or limit; a delivered frame moves the flag as `Frame.step`
says; an error leaves the codec as it was -/
theorem onFrame_spec (c : Codec) (fin : Bool) (op : OpCode) (pl : Option Bytes) :
    (c.onFrame fin op pl).2.server = c.server ∧ (c.onFrame fin op pl).2.maxSize = c.maxSize ∧
    (c.onFrame fin op pl).2.wcont = c.wcont ∧
    (c.onFrame fin op pl).1 ≠ .needMore ∧
    (∀ f, (c.onFrame fin op pl).1 = .frame f → f.step c.cont = some (c.onFrame fin op pl).2.cont) ∧
    (∀ e, (c.onFrame fin op pl).1 = .err e → (c.onFrame fin op pl).2 = c) := by
  unfold Codec.onFrame
  cases fin <;> cases op <;> cases hc : c.cont <;> simp [Frame.step, hc]
  all_goals (try (cases pl <;> simp [Frame.step, hc]))

/-- payload bytes a frame hands to the application (a Close hands over a parsed reason) -/
def Frame.dataLen : Frame → Nat
  | .text b | .binary b | .ping b | .pong b => b.length
  | .continuation (.firstText b) | .continuation (.firstBinary b)
  | .continuation (.continue b) | .continuation (.last b) => b.length
  | .close _ => 0

theorem onFrame_dataLen (c : Codec) (fin : Bool) (op : OpCode) (pl : Option Bytes) (f : Frame)
    (h : (c.onFrame fin op pl).1 = .frame f) : f.dataLen ≤ (plBytes pl).length := by
  unfold Codec.onFrame at h
  cases fin <;> cases op <;> cases hc : c.cont <;> simp [hc] at h
  all_goals (try (subst h; simp [Frame.dataLen]))
  all_goals (cases pl <;> simp at h <;> subst h <;> simp [Frame.dataLen])

theorem parse_payload_le (al : Nat) (a : Bytes) (s : Bool) (mx : Nat) (fin : Bool) (op : OpCode) (pl : Option Bytes) (r : Bytes)
    (h : parse al a s mx = (.frame fin op pl, r)) : (plBytes pl).length ≤ mx := by
  obtain ⟨m, hm, hle, _, hmx, hp⟩ := parse_frame_rest al a s mx fin op pl r h
  rcases hp with hp | ⟨hp, _⟩
  · subst hp; simp [plBytes]
  · subst hp
    simp only [plBytes, payloadOf]
    cases m.mask <;> simp <;> omega

theorem decode_spec (c : Codec) (al : Nat) (a : Bytes) :
    (c.decode al a).2.1.server = c.server ∧ (c.decode al a).2.1.maxSize = c.maxSize ∧
    (c.decode al a).2.1.wcont = c.wcont ∧
    (∀ f, (c.decode al a).1 = .frame f →
      f.step c.cont = some (c.decode al a).2.1.cont ∧ f.dataLen ≤ c.maxSize) ∧
    (∀ e, (c.decode al a).1 = .err e → (c.decode al a).2.1 = c) := by
  unfold Codec.decode
  cases hp : parse al a c.server c.maxSize with
  | mk o rest =>
    cases o with
    | needMore => simp
    | err e => simp
    | frame fin op pl =>
      have hs := onFrame_spec c fin op pl
      have hl := parse_payload_le al a _ _ fin op pl rest hp
      simp only []
      cases hf : c.onFrame fin op pl with
      | mk o2 c2 =>
        rw [hf] at hs
        simp only [] at hs ⊢
        refine ⟨hs.1, hs.2.1, hs.2.2.1, ?_, hs.2.2.2.2.2⟩
        intro f hf2
        refine ⟨hs.2.2.2.2.1 f hf2, ?_⟩
        have := onFrame_dataLen c fin op pl f (by rw [hf]; exact hf2)
        omega

/-- invariants of the read loop, for every buffer -/
theorem drain_inv (c : Codec) (al : Nat) (a : Bytes) :
    (drain c al a).2.2.1.server = c.server ∧ (drain c al a).2.2.1.maxSize = c.maxSize ∧
    (drain c al a).2.2.1.wcont = c.wcont ∧
    bracket c.cont (drain c al a).1 = some (drain c al a).2.2.1.cont ∧
    (∀ f ∈ (drain c al a).1, f.dataLen ≤ c.maxSize) := by
  induction hn : a.length using Nat.strongRecOn generalizing c al a with
  | _ n ih =>
    have hs := decode_spec c al a
    cases hd : c.decode al a with
    | mk o rest =>
      obtain ⟨c1, r1⟩ := rest
      rw [hd] at hs
      simp only [] at hs
      cases o with
      | needMore =>
        rw [drain_of_needMore c al a c1 r1 hd]
        obtain ⟨hc, _⟩ := decode_needMore c al a c1 r1 hd
        subst hc
        simp [bracket]
      | err e =>
        rw [drain_of_err c al a e c1 r1 hd]
        have := hs.2.2.2.2 e rfl
        subst this
        simp [bracket]
      | frame f =>
        have hlt := decode_frame_lt c al a f c1 r1 hd
        rw [drain_of_frame c al a f c1 r1 hd]
        have IH := ih r1.length (by omega) c1 ((al + (a.length - r1.length)) % 4) r1 rfl
        have hf := hs.2.2.2.1 f rfl
        simp only []
        refine ⟨by rw [IH.1, hs.1], by rw [IH.2.1, hs.2.1], by rw [IH.2.2.1, hs.2.2.1], ?_, ?_⟩
        · simp only [bracket, hf.1]; exact IH.2.2.2.1
        · intro g hg
          rcases List.mem_cons.1 hg with h | h
          · subst h; exact hf.2
          · have := IH.2.2.2.2 g h
            rw [hs.2.1] at this; exact this

/-! ## Codec round trip: encode at one role, decode at the other -/

theorem decode_written (cd : Codec) (al al' : Nat) (payload rest : Bytes) (op : OpCode) (fin : Bool) (mk : Option Mask)
    (hrole : mk.isSome = cd.server) (hop : op ≠ .bad) (hn : payload.length < 2 ^ 63) (hmx : payload.length ≤ cd.maxSize)
    (hctl : op = .ping ∨ op = .pong ∨ op = .close → payload.length ≤ 125) :
    cd.decode al' (writeMessage al payload op fin mk ++ rest) =
      ((cd.onFrame fin op (if payload.length = 0 then none else some payload)).1,
       (cd.onFrame fin op (if payload.length = 0 then none else some payload)).2, rest) := by
  unfold Codec.decode
  rw [← hrole, parse_written al al' payload rest op fin mk cd.maxSize hop hn hmx hctl]

theorem plBytes_ite (b : Bytes) : plBytes (if b.length = 0 then none else some b) = b := by
  by_cases h : b.length = 0
  · simp [h, plBytes, List.eq_nil_of_length_eq_zero h]
  · simp [h, plBytes]

theorem plBytes_ite' (b : Bytes) : plBytes (if b = [] then none else some b) = b := by
  by_cases h : b = []
  · simp [h, plBytes]
  · simp [h, plBytes]

/-- bytes that go on the wire as the frame's payload -/
def Message.wirePayload : Message → Bytes
  | .text b | .binary b | .ping b | .pong b => b
  | .continuation (.firstText b) | .continuation (.firstBinary b)
  | .continuation (.continue b) | .continuation (.last b) => b
  | .close r => closePayload r
  | .nop => []

def Message.isControl : Message → Bool
  | .ping _ | .pong _ | .close _ => true
  | _ => false

/-- what the peer's application sees for a message: the same message; a Close reason comes back
with its code, and its description iff non-empty (valid UTF-8 text comes back unchanged) -/
def toFrame : Message → Option Frame
  | .text b => some (.text b)
  | .binary b => some (.binary b)
  | .ping b => some (.ping b)
  | .pong b => some (.pong b)
  | .continuation i => some (.continuation i)
  | .close none => some (.close none)
  | .close (some r) =>
    some (.close (some ⟨r.code,
      match r.description with
      | none => none
      | some d => if d.length = 0 then none else some (if validUtf8 d then .exact d else .lossy)⟩))
  | .nop => none

/-- sender's write side and receiver's read side are in step -/
def Linked (ce cd : Codec) : Prop := cd.server = !ce.server ∧ cd.cont = ce.wcont

theorem parseClosePayload_written (r : CloseReason) (hc : r.code < 65536) :
    parseClosePayload (closePayload (some r)) =
      some ⟨r.code, match r.description with
        | none => none
        | some d => if d.length = 0 then none else some (if validUtf8 d then .exact d else .lossy)⟩ := by
  obtain ⟨code, desc⟩ := r
  simp only [] at hc
  unfold parseClosePayload closePayload
  have h2 : (beBytes 2 code).length = 2 := beBytes_length 2 code
  have hcode : beNat (beBytes 2 code) = code := by
    rw [beNat_beBytes]; exact Nat.mod_eq_of_lt (by simpa using hc)
  cases desc with
  | none =>
    simp only [List.append_nil, h2, ge_iff_le, Nat.le_refl, if_true, Nat.lt_irrefl, if_false, gt_iff_lt]
    rw [List.take_of_length_le (by omega), hcode]
  | some d =>
    simp only [List.length_append, h2]
    have : 2 + d.length ≥ 2 := by omega
    simp only [this, if_true]
    rw [List.take_left' h2, List.drop_left' h2, hcode]
    by_cases h0 : d.length = 0
    · simp [h0]
    · have : 2 + d.length > 2 := by omega
      simp [h0, this]

theorem decode_encode (ce cd : Codec) (al al' : Nat) (key : Mask) (m : Message) (bs rest : Bytes) (ce' : Codec) (f : Frame)
    (hl : Linked ce cd) (he : ce.encode al key m = (.ok bs, ce')) (hf : toFrame m = some f)
    (hmx : m.wirePayload.length ≤ cd.maxSize) (hn : m.wirePayload.length < 2 ^ 63)
    (hctl : m.isControl = true → m.wirePayload.length ≤ 125)
    (hcode : ∀ r, m = .close (some r) → r.code < 65536) :
    ∃ cd', cd.decode al' (bs ++ rest) = (.frame f, cd', rest) ∧ Linked ce' cd' := by
  obtain ⟨hrole, hflag⟩ := hl
  have hmk : (if ce.server then none else some key : Option Mask).isSome = cd.server := by
    rw [hrole]; cases ce.server <;> rfl
  unfold Codec.encode at he
  cases m with
  | nop => simp [toFrame] at hf
  | text b =>
    simp only [Prod.mk.injEq, Except.ok.injEq] at he
    obtain ⟨h1, h2⟩ := he; subst h1; subst h2
    simp only [toFrame, Option.some.injEq] at hf; subst hf
    simp only [Message.wirePayload] at hmx hn
    refine ⟨cd, ?_, hrole, hflag⟩
    rw [decode_written cd al al' b rest .text true _ hmk (by decide) hn hmx (by simp)]
    unfold Codec.onFrame; simp [plBytes_ite, plBytes_ite']
  | binary b =>
    simp only [Prod.mk.injEq, Except.ok.injEq] at he
    obtain ⟨h1, h2⟩ := he; subst h1; subst h2
    simp only [toFrame, Option.some.injEq] at hf; subst hf
    simp only [Message.wirePayload] at hmx hn
    refine ⟨cd, ?_, hrole, hflag⟩
    rw [decode_written cd al al' b rest .binary true _ hmk (by decide) hn hmx (by simp)]
    unfold Codec.onFrame; simp [plBytes_ite, plBytes_ite']
  | ping b =>
    simp only [Prod.mk.injEq, Except.ok.injEq] at he
    obtain ⟨h1, h2⟩ := he; subst h1; subst h2
    simp only [toFrame, Option.some.injEq] at hf; subst hf
    simp only [Message.wirePayload, Message.isControl, forall_const] at hmx hn hctl
    refine ⟨cd, ?_, hrole, hflag⟩
    rw [decode_written cd al al' b rest .ping true _ hmk (by decide) hn hmx (fun _ => hctl)]
    unfold Codec.onFrame; simp [plBytes_ite, plBytes_ite']
  | pong b =>
    simp only [Prod.mk.injEq, Except.ok.injEq] at he
    obtain ⟨h1, h2⟩ := he; subst h1; subst h2
    simp only [toFrame, Option.some.injEq] at hf; subst hf
    simp only [Message.wirePayload, Message.isControl, forall_const] at hmx hn hctl
    refine ⟨cd, ?_, hrole, hflag⟩
    rw [decode_written cd al al' b rest .pong true _ hmk (by decide) hn hmx (fun _ => hctl)]
    unfold Codec.onFrame; simp [plBytes_ite, plBytes_ite']
  | close r =>
    simp only [Prod.mk.injEq, Except.ok.injEq] at he
    obtain ⟨h1, h2⟩ := he; subst h1; subst h2
    simp only [Message.wirePayload, Message.isControl, forall_const] at hmx hn hctl
    refine ⟨cd, ?_, hrole, hflag⟩
    unfold writeClose
    rw [decode_written cd al al' (closePayload r) rest .close true _ hmk (by decide) hn hmx (fun _ => hctl)]
    cases r with
    | none =>
      simp only [toFrame, Option.some.injEq] at hf; subst hf
      unfold Codec.onFrame; simp [closePayload]
    | some r =>
      simp only [toFrame, Option.some.injEq] at hf; subst hf
      have hlen : (closePayload (some r)).length ≠ 0 := by
        simp only [closePayload, List.length_append, beBytes_length]; omega
      simp only [hlen, if_false]
      unfold Codec.onFrame
      simp only [Bool.not_true, Bool.false_eq_true, if_false]
      rw [parseClosePayload_written r (hcode r rfl)]
  | continuation i =>
    simp only [toFrame, Option.some.injEq] at hf; subst hf
    cases i with
    | firstText b =>
      simp only [Message.wirePayload] at hmx hn
      cases hw : ce.wcont with
      | true => simp [hw] at he
      | false =>
        simp only [hw, Bool.false_eq_true, if_false, Prod.mk.injEq, Except.ok.injEq] at he
        obtain ⟨h1, h2⟩ := he; subst h1; subst h2
        refine ⟨{ cd with cont := true }, ?_, hrole, rfl⟩
        rw [decode_written cd al al' b rest .text false _ hmk (by decide) hn hmx (by simp)]
        unfold Codec.onFrame; simp [plBytes_ite, plBytes_ite', hflag, hw]
    | firstBinary b =>
      simp only [Message.wirePayload] at hmx hn
      cases hw : ce.wcont with
      | true => simp [hw] at he
      | false =>
        simp only [hw, Bool.false_eq_true, if_false, Prod.mk.injEq, Except.ok.injEq] at he
        obtain ⟨h1, h2⟩ := he; subst h1; subst h2
        refine ⟨{ cd with cont := true }, ?_, hrole, rfl⟩
        rw [decode_written cd al al' b rest .binary false _ hmk (by decide) hn hmx (by simp)]
        unfold Codec.onFrame; simp [plBytes_ite, plBytes_ite', hflag, hw]
    | «continue» b =>
      simp only [Message.wirePayload] at hmx hn
      cases hw : ce.wcont with
      | false => simp [hw] at he
      | true =>
        simp only [hw, if_true, Prod.mk.injEq, Except.ok.injEq] at he
        obtain ⟨h1, h2⟩ := he; subst h1; subst h2
        refine ⟨cd, ?_, hrole, hflag⟩
        rw [decode_written cd al al' b rest .continue false _ hmk (by decide) hn hmx (by simp)]
        unfold Codec.onFrame; simp [plBytes_ite, plBytes_ite', hflag, hw]
    | last b =>
      simp only [Message.wirePayload] at hmx hn
      cases hw : ce.wcont with
      | false => simp [hw] at he
      | true =>
        simp only [hw, if_true, Prod.mk.injEq, Except.ok.injEq] at he
        obtain ⟨h1, h2⟩ := he; subst h1; subst h2
        refine ⟨{ cd with cont := false }, ?_, hrole, rfl⟩
        rw [decode_written cd al al' b rest .continue true _ hmk (by decide) hn hmx (by simp)]
        unfold Codec.onFrame; simp [plBytes_ite, plBytes_ite', hflag, hw]

/-- encode a message sequence into one wire buffer; `keys i` is the masking key drawn for the
`i`-th message; a refused message leaves the wire untouched.  Returns the wire bytes, the
messages that were accepted, and the sender's final state. -/
def encodeSeq (al : Nat) (keys : Nat → Mask) : Codec → Nat → List Message → Bytes × List Message × Codec
  | ce, _, [] => ([], [], ce)
  | ce, i, m :: ms =>
    match ce.encode al (keys i) m with
    | (.ok bs, ce') =>
      let r := encodeSeq al keys ce' (i + 1) ms
      (bs ++ r.1, m :: r.2.1, r.2.2)
    | (.error _, ce') => encodeSeq al keys ce' (i + 1) ms

theorem decode_nil (c : Codec) (al : Nat) : c.decode al [] = (.needMore, c, []) := by
  unfold Codec.decode parse parseMetadata; simp

theorem encode_nop (ce : Codec) (al : Nat) (key : Mask) : ce.encode al key .nop = (.ok [], ce) := by
  unfold Codec.encode; rfl

/-- **message-sequence round trip** -/
theorem roundtrip_seq (al al' : Nat) (keys : Nat → Mask) (ce cd : Codec) (i : Nat) (msgs : List Message)
    (hl : Linked ce cd)
    (hok : ∀ m ∈ (encodeSeq al keys ce i msgs).2.1,
      m.wirePayload.length ≤ cd.maxSize ∧ m.wirePayload.length < 2 ^ 63 ∧
      (m.isControl = true → m.wirePayload.length ≤ 125) ∧ (∀ r, m = .close (some r) → r.code < 65536)) :
    ∃ cd', drain cd al' (encodeSeq al keys ce i msgs).1 =
        ((encodeSeq al keys ce i msgs).2.1.filterMap toFrame, .needMore, cd', []) ∧
      Linked (encodeSeq al keys ce i msgs).2.2 cd' ∧ cd'.maxSize = cd.maxSize := by
  induction msgs generalizing ce cd i al' with
  | nil =>
    exact ⟨cd, by simp only [encodeSeq, List.filterMap_nil]; exact drain_of_needMore cd al' [] cd [] (decode_nil cd al'), hl, rfl⟩
  | cons m ms ih =>
    simp only [encodeSeq] at hok ⊢
    cases he : ce.encode al (keys i) m with
    | mk res ce' =>
      cases res with
      | error e =>
        simp only [he] at hok ⊢
        -- a refused message changes nothing on the sender either
        have hce : ce' = ce := by
          unfold Codec.encode at he
          cases m with
          | continuation it =>
            cases it <;> (simp only [] at he; split at he <;> simp at he <;> (try exact he.2.symm) <;> (try exact he.symm))
          | _ => simp at he
        subst hce
        exact ih al' ce' cd (i + 1) hl hok
      | ok bs =>
        simp only [he] at hok ⊢
        by_cases hnop : m = .nop
        · subst hnop
          rw [encode_nop] at he
          simp only [Prod.mk.injEq, Except.ok.injEq] at he
          obtain ⟨h1, h2⟩ := he; subst h1; subst h2
          simp only [List.nil_append, List.filterMap_cons, toFrame]
          exact ih al' ce cd (i + 1) hl (fun m hm => hok m (List.mem_cons_of_mem _ hm))
        · have hm := hok m (List.mem_cons_self)
          obtain ⟨f, hf⟩ : ∃ f, toFrame m = some f := by
            cases m with
            | nop => exact absurd rfl hnop
            | close r => cases r <;> exact ⟨_, rfl⟩
            | _ => exact ⟨_, rfl⟩
          obtain ⟨cd1, hd, hl1⟩ := decode_encode ce cd al al' (keys i) m bs (encodeSeq al keys ce' (i + 1) ms).1 ce' f
            hl he hf hm.1 hm.2.1 hm.2.2.1 hm.2.2.2
          have hmax : cd1.maxSize = cd.maxSize := by
            have := (decode_spec cd al' (bs ++ (encodeSeq al keys ce' (i + 1) ms).1)).2.1
            rw [hd] at this; exact this
          obtain ⟨cd2, h2, hl2, hmax2⟩ := ih
            ((al' + ((bs ++ (encodeSeq al keys ce' (i + 1) ms).1).length - (encodeSeq al keys ce' (i + 1) ms).1.length)) % 4)
            ce' cd1 (i + 1) hl1 (fun m hm => by rw [hmax]; exact hok m (List.mem_cons_of_mem _ hm))
          refine ⟨cd2, ?_, hl2, by rw [hmax2, hmax]⟩
          rw [drain_of_frame cd al' _ f cd1 _ hd, h2]
          simp only [List.filterMap_cons, hf]

/-- the write side: an accepted message moves `W_CONTINUATION` as its frame moves the reader's
flag; a refused message changes nothing -/
theorem encode_spec (ce : Codec) (al : Nat) (key : Mask) (m : Message) :
    (∀ bs ce', ce.encode al key m = (.ok bs, ce') →
      ce'.server = ce.server ∧ ce'.maxSize = ce.maxSize ∧ ce'.cont = ce.cont ∧
      (∀ f, toFrame m = some f → f.step ce.wcont = some ce'.wcont) ∧ (toFrame m = none → ce' = ce)) ∧
    (∀ e ce', ce.encode al key m = (.error e, ce') → ce' = ce) := by
  unfold Codec.encode
  cases m with
  | continuation it =>
    cases it <;> cases hw : ce.wcont <;> simp [toFrame, Frame.step, hw]
  | close r => cases r <;> simp [toFrame, Frame.step]
  | _ => simp [toFrame, Frame.step]

theorem encodeSeq_bracket (al : Nat) (keys : Nat → Mask) (ce : Codec) (i : Nat) (msgs : List Message) :
    bracket ce.wcont ((encodeSeq al keys ce i msgs).2.1.filterMap toFrame) = some (encodeSeq al keys ce i msgs).2.2.wcont := by
  induction msgs generalizing ce i with
  | nil => simp [encodeSeq, bracket]
  | cons m ms ih =>
    simp only [encodeSeq]
    have hs := encode_spec ce al (keys i) m
    cases he : ce.encode al (keys i) m with
    | mk res ce' =>
      cases res with
      | error e =>
        have := hs.2 e ce' he
        subst this
        simp only []
        exact ih ce' (i + 1)
      | ok bs =>
        obtain ⟨_, _, _, h4, h5⟩ := hs.1 bs ce' he
        simp only [List.filterMap_cons]
        cases hf : toFrame m with
        | none =>
          have := h5 hf
          subst this
          simp only []
          exact ih ce' (i + 1)
        | some f =>
          simp only [bracket, h4 f hf]
          exact ih ce' (i + 1)

end ActixModel.Ws
