import ActixModel.Proofs.WsCodec
/-
The frame grammar of RFC 6455 §5.2 as an independent definition (`Wire`, `Wire.bytes`) and its
relation to `parse`: completeness (what `parse` answers on every frame of the grammar, non-minimal
length forms and RSV bits included) and soundness (whatever `parse` delivers was such a frame).
-/
set_option linter.unusedSimpArgs false
namespace ActixModel.Ws
open ActixModel.Util

/-! ## the frame grammar of RFC 6455 §5.2, written independently of the parser -/

inductive LenForm where
  | short | ext16 | ext64
  deriving DecidableEq, Repr

def LenForm.code : LenForm → Nat → Nat
  | .short, n => n
  | .ext16, _ => 126
  | .ext64, _ => 127

def LenForm.ext : LenForm → Nat → Bytes
  | .short, _ => []
  | .ext16, n => beBytes 2 n
  | .ext64, n => beBytes 8 n

def LenForm.fits : LenForm → Nat → Prop
  | .short, n => n < 126
  | .ext16, n => n < 65536
  | .ext64, n => n < 2 ^ 64

/-- a frame as it appears on the wire -/
structure Wire where
  fin : Bool
  rsv : Nat            -- RSV1..3 as a number 0..7
  opc : Nat            -- opcode nibble 0..15
  key : Option Mask    -- MASK bit set iff `some`
  form : LenForm       -- which of the three payload-length encodings is used
  payload : Bytes      -- application data (unmasked)

/-- the length form can represent the payload length (non-minimal forms are allowed, as the
parser allows them) -/
def Wire.Valid (w : Wire) : Prop :=
  w.rsv < 8 ∧ w.opc < 16 ∧ w.form.fits w.payload.length

def Wire.lenCode (w : Wire) : Nat := w.form.code w.payload.length

def Wire.lenExt (w : Wire) : Bytes := w.form.ext w.payload.length

/-- §5.2: FIN RSV1-3 opcode | MASK len7 | extended length | masking key | masked payload -/
def Wire.bytes (w : Wire) : Bytes :=
  UInt8.ofNat ((if w.fin then 128 else 0) + w.rsv * 16 + w.opc) ::
    UInt8.ofNat ((if w.key.isSome then 128 else 0) + w.lenCode) ::
      (w.lenExt ++ (match w.key with
        | some k => k.toList ++ applyMaskFallback w.payload k
        | none => w.payload))

def Wire.hdrLen (w : Wire) : Nat := 2 + w.lenExt.length + (if w.key.isSome then 4 else 0)

theorem tbl_first_arith : ∀ n, n < 256 →
    (((UInt8.ofNat n &&& 0x80) != 0) = decide (128 ≤ n)) ∧ (UInt8.ofNat n &&& 0x0F) = UInt8.ofNat (n % 16) ∧
    (UInt8.ofNat n &&& 0x7F) = UInt8.ofNat (n % 128) := by decide +kernel

theorem Wire.lenCode_lt (w : Wire) (hv : w.Valid) : w.lenCode < 128 := by
  unfold Wire.lenCode; obtain ⟨_, _, h⟩ := hv
  cases hf : w.form <;> simp [hf, LenForm.code, LenForm.fits] at h ⊢ <;> omega

theorem parseLength_wire (w : Wire) (hv : w.Valid) (b0 b1 : UInt8) (tail : Bytes) :
    parseLength (b0 :: b1 :: (w.lenExt ++ tail)) (UInt8.ofNat w.lenCode) = some (w.payload.length, 2 + w.lenExt.length) := by
  obtain ⟨_, _, h⟩ := hv
  unfold parseLength Wire.lenCode Wire.lenExt
  cases hf : w.form with
  | short =>
    simp only [hf, LenForm.code, LenForm.ext, LenForm.fits] at h ⊢
    have e1 : ¬ (UInt8.ofNat w.payload.length == 126) = true := by
      intro hh; have := congrArg UInt8.toNat (eq_of_beq hh); rw [UInt8.toNat_ofNat'] at this
      have : w.payload.length % 256 = 126 := this
      omega
    have e2 : ¬ (UInt8.ofNat w.payload.length == 127) = true := by
      intro hh; have := congrArg UInt8.toNat (eq_of_beq hh); rw [UInt8.toNat_ofNat'] at this
      have : w.payload.length % 256 = 127 := this
      omega
    simp only [e1, e2, Bool.false_eq_true, if_false, List.length_nil, UInt8.toNat_ofNat']
    congr 2; omega
  | ext16 =>
    simp only [hf, LenForm.code, LenForm.ext, LenForm.fits] at h ⊢
    have : ((UInt8.ofNat 126 : UInt8) == 126) = true := by decide
    simp only [this, if_true, List.length_cons, List.length_append, beBytes_length, List.drop_succ_cons, List.drop_zero]
    have : ¬ (2 + tail.length + 1 + 1 < 4) := by omega
    simp only [this, if_false]
    rw [List.take_left' (beBytes_length 2 _), beNat_beBytes]
    congr 2
    have : (256 : Nat) ^ 2 = 65536 := by decide
    omega
  | ext64 =>
    simp only [hf, LenForm.code, LenForm.ext, LenForm.fits] at h ⊢
    have e1 : ((UInt8.ofNat 127 : UInt8) == 126) = false := by decide
    have e2 : ((UInt8.ofNat 127 : UInt8) == 127) = true := by decide
    simp only [e1, e2, Bool.false_eq_true, if_true, if_false, List.length_cons, List.length_append, beBytes_length, List.drop_succ_cons, List.drop_zero]
    have : ¬ (8 + tail.length + 1 + 1 < 10) := by omega
    simp only [this, if_false]
    rw [List.take_left' (beBytes_length 8 _), beNat_beBytes]
    congr 2
    have : (256 : Nat) ^ 8 = 2 ^ 64 := by decide
    omega

theorem parseMetadata_wire (w : Wire) (hv : w.Valid) (rest : Bytes)
    (hop : OpCode.ofByte (UInt8.ofNat w.opc) ≠ .bad) :
    parseMetadata (w.bytes ++ rest) w.key.isSome =
      .ok ⟨w.hdrLen, w.fin, OpCode.ofByte (UInt8.ofNat w.opc), w.payload.length, w.key⟩ ∧
    (w.bytes ++ rest).drop w.hdrLen = bodyOf w.payload w.key ++ rest := by
  have hc := w.lenCode_lt hv
  obtain ⟨hr, ho, _⟩ := hv
  have hv' : w.Valid := ⟨hr, ho, by assumption⟩
  -- the two header bytes
  have n0lt : (if w.fin then 128 else 0) + w.rsv * 16 + w.opc < 256 := by split <;> omega
  have n1lt : (if w.key.isSome then 128 else 0) + w.lenCode < 256 := by split <;> omega
  have t0 := tbl_first_arith _ n0lt
  have t1 := tbl_first_arith _ n1lt
  have f0 : decide (128 ≤ (if w.fin then 128 else 0) + w.rsv * 16 + w.opc) = w.fin := by
    cases w.fin <;> simp <;> omega
  have f1 : ((if w.fin then 128 else 0) + w.rsv * 16 + w.opc) % 16 = w.opc := by
    cases w.fin <;> simp <;> omega
  have g0 : decide (128 ≤ (if w.key.isSome then 128 else 0) + w.lenCode) = w.key.isSome := by
    cases w.key.isSome <;> simp <;> omega
  have g1 : ((if w.key.isSome then 128 else 0) + w.lenCode) % 128 = w.lenCode := by
    cases w.key.isSome <;> simp <;> omega
  rw [f0, f1] at t0
  rw [g0, g1] at t1
  unfold Wire.bytes Wire.hdrLen
  cases hk : w.key with
  | none =>
    simp only [hk, Option.isSome_none, Bool.false_eq_true, if_false, Nat.zero_add, List.cons_append, List.append_assoc,
      bodyOf, Nat.add_zero] at t1 ⊢
    constructor
    · unfold parseMetadata
      simp only [List.length_cons, List.getD_cons_zero, List.getD_cons_succ, t0.1, t0.2.1, t1.1, t1.2.2]
      have : ¬ (w.lenExt ++ (w.payload ++ rest)).length + 1 + 1 < 2 := by omega
      simp only [this, if_false, hop, Bool.not_false, Bool.and_false, Bool.false_and, Bool.false_eq_true,
        parseLength_wire w hv']
    · rw [show 2 + w.lenExt.length = w.lenExt.length + 1 + 1 by omega]
      simp only [List.drop_succ_cons]
      exact List.drop_left' rfl
  | some k =>
    simp only [hk, Option.isSome_some, if_true, List.cons_append, List.append_assoc, bodyOf] at t1 ⊢
    constructor
    · unfold parseMetadata
      simp only [List.length_cons, List.getD_cons_zero, List.getD_cons_succ, t0.1, t0.2.1, t1.1, t1.2.2]
      have : ¬ (w.lenExt ++ (k.toList ++ (applyMaskFallback w.payload k ++ rest))).length + 1 + 1 < 2 := by omega
      simp only [this, if_false, hop, Bool.not_true, Bool.and_true, Bool.true_and, Bool.false_eq_true, if_true,
        parseLength_wire w hv']
      have hl : ¬ (w.lenExt ++ (k.toList ++ (applyMaskFallback w.payload k ++ rest))).length + 1 + 1 <
          2 + w.lenExt.length + 4 := by
        simp [Mask.toList]; omega
      simp only [hl, if_false]
      rw [show 2 + w.lenExt.length = w.lenExt.length + 1 + 1 by omega]
      simp only [List.drop_succ_cons]
      rw [List.drop_left' rfl, Mask.ofList_toList]
    · rw [show 2 + w.lenExt.length + 4 = (w.lenExt.length + 4) + 1 + 1 by omega]
      simp only [List.drop_succ_cons]
      rw [← List.append_assoc]
      exact List.drop_left' (by simp [Mask.toList])

theorem Wire.hdrLen_le (w : Wire) : w.hdrLen ≤ 14 := by
  unfold Wire.hdrLen Wire.lenExt
  cases w.form <;> cases w.key <;> simp [LenForm.ext]

/-- what `parse` answers on **every** frame of the grammar followed by anything -/
theorem parse_wire (al : Nat) (w : Wire) (hv : w.Valid) (rest : Bytes) (mx : Nat)
    (hop : OpCode.ofByte (UInt8.ofNat w.opc) ≠ .bad) (hn : w.payload.length < 2 ^ 63) :
    parse al (w.bytes ++ rest) w.key.isSome mx =
      let op := OpCode.ofByte (UInt8.ofNat w.opc)
      if w.payload.length > mx then (.err .overflow, rest)
      else if w.payload.length = 0 then (.frame w.fin op none, rest)
      else if (op = .ping ∨ op = .pong) ∧ w.payload.length > 125 then (.err (.invalidLength w.payload.length), rest)
      else if op = .close ∧ w.payload.length > 125 then (.frame true .close none, rest)
      else (.frame w.fin op (some w.payload), rest) := by
  obtain ⟨hm, hdrop⟩ := parseMetadata_wire w hv rest hop
  have hb := parseMetadata_ok_bounds _ _ _ hm
  have hh := w.hdrLen_le
  rw [parse_of_meta al _ _ mx _ hm]
  simp only [] at hb ⊢
  have hlen : (w.bytes ++ rest).length = w.hdrLen + w.payload.length + rest.length := by
    have := congrArg List.length hdrop
    simp only [List.length_drop, List.length_append, bodyOf_length] at this
    have := hb.2.1
    simp only [List.length_append] at this ⊢
    omega
  have c1 : ¬ usizeMax < w.hdrLen + w.payload.length := by unfold usizeMax; omega
  have c2 : ¬ (w.bytes ++ rest).length < w.hdrLen + w.payload.length := by omega
  simp only [c1, c2, if_false, hdrop]
  have hp : payloadOf (w.bytes ++ rest) ⟨w.hdrLen, w.fin, OpCode.ofByte (UInt8.ofNat w.opc), w.payload.length, w.key⟩ = w.payload := by
    unfold payloadOf
    simp only [hdrop]
    rw [List.take_left' (bodyOf_length w.payload w.key)]
    cases w.key with
    | none => rfl
    | some k => exact maskFrom_involutive k 0 w.payload
  rw [hp, List.drop_left' (bodyOf_length w.payload w.key)]
  by_cases h0 : w.payload.length = 0
  · have : w.payload = [] := List.eq_nil_of_length_eq_zero h0
    have hb0 : bodyOf w.payload w.key = [] := by
      rw [this]; cases w.key <;> simp [bodyOf, applyMaskFallback, maskFrom]
    simp [h0, hb0]
  · simp [h0]

/-! ### soundness: whatever `parse` delivers was a frame of the grammar -/

theorem beBytes2_beNat (x y : UInt8) : beBytes 2 (beNat [x, y]) = [x, y] := by
  have hx := UInt8.toNat_lt x; have hy := UInt8.toNat_lt y
  simp only [beBytes, beNat_cons, beNat_nil, List.length_cons, List.length_nil, Nat.reduceAdd, Nat.reducePow]
  have e1 : (x.toNat * 256 + (y.toNat * 1 + 0)) / 256 % 256 = x.toNat := by omega
  have e0 : (x.toNat * 256 + (y.toNat * 1 + 0)) / 1 % 256 = y.toNat := by omega
  rw [e1, e0, UInt8.ofNat_toNat, UInt8.ofNat_toNat]

theorem beBytes8_beNat (x0 x1 x2 x3 x4 x5 x6 x7 : UInt8) :
    beBytes 8 (beNat [x0, x1, x2, x3, x4, x5, x6, x7]) = [x0, x1, x2, x3, x4, x5, x6, x7] := by
  have h0 := UInt8.toNat_lt x0; have h1 := UInt8.toNat_lt x1; have h2 := UInt8.toNat_lt x2
  have h3 := UInt8.toNat_lt x3; have h4 := UInt8.toNat_lt x4; have h5 := UInt8.toNat_lt x5
  have h6 := UInt8.toNat_lt x6; have h7 := UInt8.toNat_lt x7
  simp only [beBytes, beNat_cons, beNat_nil, List.length_cons, List.length_nil, Nat.reduceAdd, Nat.reducePow]
  generalize hn : x0.toNat * 72057594037927936 + (x1.toNat * 281474976710656 + (x2.toNat * 1099511627776 +
    (x3.toNat * 4294967296 + (x4.toNat * 16777216 + (x5.toNat * 65536 + (x6.toNat * 256 + (x7.toNat * 1 + 0))))))) = n
  have e7 : n / 72057594037927936 % 256 = x0.toNat := by omega
  have e6 : n / 281474976710656 % 256 = x1.toNat := by omega
  have e5 : n / 1099511627776 % 256 = x2.toNat := by omega
  have e4 : n / 4294967296 % 256 = x3.toNat := by omega
  have e3 : n / 16777216 % 256 = x4.toNat := by omega
  have e2 : n / 65536 % 256 = x5.toNat := by omega
  have e1 : n / 256 % 256 = x6.toNat := by omega
  have e0 : n / 1 % 256 = x7.toNat := by omega
  rw [e7, e6, e5, e4, e3, e2, e1, e0]
  simp only [UInt8.ofNat_toNat]

theorem Mask.toList_ofList (l : Bytes) (h : l.length = 4) : (Mask.ofList l).toList = l := by
  match l, h with
  | [a, b, c, d], _ => rfl

theorem byte_decomp (b : UInt8) :
    b = UInt8.ofNat ((if 128 ≤ b.toNat then 128 else 0) + (b.toNat / 16 % 8) * 16 + b.toNat % 16) := by
  have hb := UInt8.toNat_lt b
  have : (if 128 ≤ b.toNat then 128 else 0) + (b.toNat / 16 % 8) * 16 + b.toNat % 16 = b.toNat := by
    split <;> omega
  rw [this, UInt8.ofNat_toNat]

theorem byte_decomp2 (b : UInt8) :
    b = UInt8.ofNat ((if 128 ≤ b.toNat then 128 else 0) + b.toNat % 128) := by
  have hb := UInt8.toNat_lt b
  have : (if 128 ≤ b.toNat then 128 else 0) + b.toNat % 128 = b.toNat := by
    split <;> omega
  rw [this, UInt8.ofNat_toNat]

theorem parseLength_sound (b0 b1 : UInt8) (t : Bytes) (l : UInt8) (len idx : Nat) (hl : l.toNat < 128)
    (h : parseLength (b0 :: b1 :: t) l = some (len, idx)) :
    ∃ (form : LenForm) (t2 : Bytes), idx = 2 + (form.ext len).length ∧
      t = form.ext len ++ t2 ∧ l.toNat = form.code len ∧ form.fits len := by
  unfold parseLength at h
  by_cases h126 : (l == 126) = true
  · simp only [h126, if_true] at h
    have hl126 : l.toNat = 126 := by rw [eq_of_beq h126]; rfl
    match t with
    | [] => simp at h
    | [_] => simp at h
    | x :: y :: t2 =>
      simp only [List.length_cons, List.drop_succ_cons, List.drop_zero, List.take_succ_cons, List.take_zero] at h
      have : ¬ (t2.length + 1 + 1 + 1 + 1 < 4) := by omega
      simp only [this, if_false, Option.some.injEq, Prod.mk.injEq] at h
      obtain ⟨h1, h2⟩ := h
      refine ⟨.ext16, t2, by simp [LenForm.ext]; omega, ?_, hl126, ?_⟩
      · simp only [LenForm.ext, ← h1, beBytes2_beNat]; rfl
      · simp only [LenForm.fits, ← h1, beNat_cons, beNat_nil, List.length_cons, List.length_nil, Nat.reduceAdd, Nat.reducePow]
        have := UInt8.toNat_lt x; have := UInt8.toNat_lt y
        omega
  · simp only [h126, Bool.false_eq_true, if_false] at h
    by_cases h127 : (l == 127) = true
    · simp only [h127, if_true] at h
      have hl127 : l.toNat = 127 := by rw [eq_of_beq h127]; rfl
      match t with
      | [] => simp at h
      | [_] => simp at h
      | [_, _] => simp at h
      | [_, _, _] => simp at h
      | [_, _, _, _] => simp at h
      | [_, _, _, _, _] => simp at h
      | [_, _, _, _, _, _] => simp at h
      | [_, _, _, _, _, _, _] => simp at h
      | x0 :: x1 :: x2 :: x3 :: x4 :: x5 :: x6 :: x7 :: t2 =>
        simp only [List.length_cons, List.drop_succ_cons, List.drop_zero, List.take_succ_cons, List.take_zero] at h
        have : ¬ (t2.length + 1 + 1 + 1 + 1 + 1 + 1 + 1 + 1 + 1 + 1 < 10) := by omega
        simp only [this, if_false, Option.some.injEq, Prod.mk.injEq] at h
        obtain ⟨h1, h2⟩ := h
        refine ⟨.ext64, t2, by simp [LenForm.ext]; omega, ?_, hl127, ?_⟩
        · simp only [LenForm.ext, ← h1, beBytes8_beNat]; rfl
        · simp only [LenForm.fits, ← h1, beNat_cons, beNat_nil, List.length_cons, List.length_nil, Nat.reduceAdd, Nat.reducePow]
          have := UInt8.toNat_lt x0; have := UInt8.toNat_lt x1; have := UInt8.toNat_lt x2
          have := UInt8.toNat_lt x3; have := UInt8.toNat_lt x4; have := UInt8.toNat_lt x5
          have := UInt8.toNat_lt x6; have := UInt8.toNat_lt x7
          omega
    · simp only [h127, Bool.false_eq_true, if_false, Option.some.injEq, Prod.mk.injEq] at h
      obtain ⟨h1, h2⟩ := h
      have n126 : l.toNat ≠ 126 := by
        intro hh; apply h126; have : l = 126 := UInt8.toNat_inj.1 (by rw [hh]; rfl)
        rw [this]; rfl
      have n127 : l.toNat ≠ 127 := by
        intro hh; apply h127; have : l = 127 := UInt8.toNat_inj.1 (by rw [hh]; rfl)
        rw [this]; rfl
      refine ⟨.short, t, by simp [LenForm.ext]; omega, by simp [LenForm.ext], by simp [LenForm.code]; exact h1, ?_⟩
      simp only [LenForm.fits]; omega

theorem meta_sound (src : Bytes) (s : Bool) (m : Meta) (hm : parseMetadata src s = .ok m)
    (hfit : m.idx + m.length ≤ src.length) :
    ∃ w : Wire, w.Valid ∧ src = w.bytes ++ src.drop (m.idx + m.length) ∧ w.key = m.mask ∧ w.fin = m.fin ∧
      OpCode.ofByte (UInt8.ofNat w.opc) = m.op ∧ w.payload.length = m.length ∧ w.payload = payloadOf src m := by
  have hb := parseMetadata_ok_bounds src s m hm
  match src, hm, hfit, hb with
  | [], hm, _, hb => simp at hb; omega
  | [_], hm, _, hb => simp [parseMetadata] at hm
  | b0 :: b1 :: t, hm, hfit, hb =>
    unfold parseMetadata at hm
    simp only [List.length_cons, List.getD_cons_zero, List.getD_cons_succ] at hm
    have : ¬ (t.length + 1 + 1 < 2) := by omega
    simp only [this, if_false] at hm
    split at hm
    · simp at hm
    · rename_i c1
      split at hm
      · simp at hm
      · rename_i c2
        split at hm
        · simp at hm
        · rename_i c3
          split at hm
          · simp at hm
          · rename_i len idx hpl
            have hl7 : (b1 &&& 0x7F).toNat < 128 := by rw [tbl_low7]; omega
            obtain ⟨form, t2, hidx, ht, hcode, hfits⟩ := parseLength_sound b0 b1 t _ len idx hl7 hpl
            -- the two header bytes, rebuilt from their fields
            have e0 : b0 = UInt8.ofNat ((if ((b0 &&& 0x80) != 0) = true then 128 else 0) + (b0.toNat / 16 % 8) * 16 + b0.toNat % 16) := by
              rw [tbl_hi]; simp only [decide_eq_true_eq]; exact byte_decomp b0
            have eop : (b0 &&& 0x0F) = UInt8.ofNat (b0.toNat % 16) := by
              apply UInt8.toNat_inj.1
              rw [UInt8.toNat_and, UInt8.toNat_ofNat']
              have : b0.toNat % 16 < 256 := by omega
              rw [Nat.mod_eq_of_lt (by simpa using this)]
              exact Nat.and_two_pow_sub_one_eq_mod _ 4
            have e1 : b1 = UInt8.ofNat ((if ((b1 &&& 0x80) != 0) = true then 128 else 0) + form.code len) := by
              rw [tbl_hi, ← hcode, tbl_low7]; simp only [decide_eq_true_eq]; exact byte_decomp2 b1
            cases s with
            | false =>
              simp only [Bool.false_eq_true, if_false, MetaResult.ok.injEq] at hm
              subst hm
              simp only [] at hfit ⊢
              have hmask : ((b1 &&& 0x80) != 0) = false := by
                cases hh : ((b1 &&& 0x80) != 0) with
                | false => rfl
                | true => rw [hh] at c2; simp at c2
              refine ⟨⟨(b0 &&& 0x80) != 0, b0.toNat / 16 % 8, b0.toNat % 16, none, form, t2.take len⟩, ?_, ?_, rfl, rfl, ?_, ?_, ?_⟩
              · refine ⟨by show b0.toNat / 16 % 8 < 8; omega, by show b0.toNat % 16 < 16; omega, ?_⟩
                have : (t2.take len).length = len := by
                  rw [List.length_take]; apply Nat.min_eq_left
                  rw [ht] at hfit; simp only [List.length_cons, List.length_append] at hfit; omega
                simp only [this]; exact hfits
              · have hlen : (t2.take len).length = len := by
                  rw [List.length_take]; apply Nat.min_eq_left
                  rw [ht] at hfit; simp only [List.length_cons, List.length_append] at hfit; omega
                simp only [Wire.bytes, Wire.lenCode, Wire.lenExt, hlen, Option.isSome_none, Bool.false_eq_true, if_false,
                  Nat.zero_add, List.cons_append]
                rw [hmask] at e1
                simp only [Bool.false_eq_true, if_false, Nat.zero_add] at e1
                rw [← e0, ← e1]
                congr 2
                rw [hidx, show 2 + (form.ext len).length + len = ((form.ext len).length + len) + 1 + 1 by omega]
                simp only [List.drop_succ_cons]
                rw [ht, List.append_assoc]
                congr 1
                rw [← List.drop_drop, List.drop_left' rfl, List.take_append_drop]
              · rw [← eop]
              · rw [List.length_take]; apply Nat.min_eq_left
                rw [ht] at hfit; simp only [List.length_cons, List.length_append] at hfit; omega
              · simp only [payloadOf, hidx]
                rw [show 2 + (form.ext len).length = (form.ext len).length + 1 + 1 by omega]
                simp only [List.drop_succ_cons]
                rw [ht, List.drop_left' rfl]
            | true =>
              simp only [if_true] at hm
              split at hm
              · simp at hm
              · rename_i h4
                simp only [MetaResult.ok.injEq] at hm
                subst hm
                simp only [] at hfit ⊢
                have hmask : ((b1 &&& 0x80) != 0) = true := by
                  cases hh : ((b1 &&& 0x80) != 0) with
                  | true => rfl
                  | false => rw [hh] at c1; simp at c1
                -- the key and the body
                have hd : (b0 :: b1 :: t).drop idx = t2 := by
                  rw [hidx, show 2 + (form.ext len).length = (form.ext len).length + 1 + 1 by omega]
                  simp only [List.drop_succ_cons]
                  rw [ht, List.drop_left' rfl]
                have ht2 : 4 + len ≤ t2.length := by
                  rw [ht] at hfit; simp only [List.length_cons, List.length_append] at hfit; omega
                rw [hd]
                have hk4 : (t2.take 4).length = 4 := by rw [List.length_take]; omega
                have hbody : ((t2.drop 4).take len).length = len := by
                  rw [List.length_take, List.length_drop]; omega
                refine ⟨⟨(b0 &&& 0x80) != 0, b0.toNat / 16 % 8, b0.toNat % 16, some (Mask.ofList (t2.take 4)), form,
                  applyMaskFallback ((t2.drop 4).take len) (Mask.ofList (t2.take 4))⟩, ?_, ?_, rfl, rfl, ?_, ?_, ?_⟩
                · refine ⟨by show b0.toNat / 16 % 8 < 8; omega, by show b0.toNat % 16 < 16; omega, ?_⟩
                  simp only [applyMaskFallback_length, hbody]; exact hfits
                · simp only [Wire.bytes, Wire.lenCode, Wire.lenExt, applyMaskFallback_length, hbody, Option.isSome_some, if_true,
                    List.cons_append]
                  rw [hmask] at e1
                  simp only [if_true] at e1
                  rw [← e0, ← e1]
                  congr 2
                  rw [show idx + 4 + len = ((form.ext len).length + (4 + len)) + 1 + 1 by omega]
                  simp only [List.drop_succ_cons]
                  have inv : applyMaskFallback (applyMaskFallback ((t2.drop 4).take len) (Mask.ofList (t2.take 4))) (Mask.ofList (t2.take 4))
                      = (t2.drop 4).take len := maskFrom_involutive _ 0 _
                  rw [inv, Mask.toList_ofList _ hk4]
                  conv => lhs; rw [ht]
                  rw [List.append_assoc]
                  congr 1
                  have hdt : t.drop (form.ext len).length = t2 := by rw [ht, List.drop_left' rfl]
                  rw [← List.drop_drop, hdt, ← List.drop_drop, List.append_assoc, List.take_append_drop,
                    List.take_append_drop]
                · rw [← eop]
                · simp only [applyMaskFallback_length, hbody]
                · simp only [payloadOf]
                  rw [← List.drop_drop, hd]

/-- **soundness**: a frame delivered by `parse` was, byte for byte, a frame of the grammar at
the head of the buffer (of the right masking for the role, with a defined opcode and within
`max_size`), and the rest is what followed it -/
theorem parse_sound (al : Nat) (src : Bytes) (s : Bool) (mx : Nat) (fin : Bool) (op : OpCode) (pl : Option Bytes) (rest : Bytes)
    (h : parse al src s mx = (.frame fin op pl, rest)) :
    ∃ w : Wire, w.Valid ∧ src = w.bytes ++ rest ∧ w.key.isSome = s ∧
      OpCode.ofByte (UInt8.ofNat w.opc) ≠ .bad ∧ w.payload.length ≤ mx := by
  obtain ⟨m, hm, hle, hr, hmx, _⟩ := parse_frame_rest al src s mx fin op pl rest h
  have hb := parseMetadata_ok_bounds src s m hm
  obtain ⟨w, hv, hsrc, hk, _, hop, hlen, _⟩ := meta_sound src s m hm hle
  refine ⟨w, hv, by rw [hr]; exact hsrc, by rw [hk]; exact hb.2.2.2.2.1, by rw [hop]; exact hb.2.2.2.1, by omega⟩

end ActixModel.Ws
