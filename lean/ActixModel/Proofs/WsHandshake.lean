import ActixModel.Model.WsHandshake
/-
Helper lemmas for the handshake model: `contains` = infix, lengths of SHA-1 / Base64 output,
Base64 decode ∘ encode.
-/
set_option linter.unusedSimpArgs false
namespace ActixModel.WsHandshake
open ActixModel.Util

/-! ## `str::contains` -/

theorem containsSub_iff (pat l : Bytes) : containsSub pat l = true ↔ pat <:+: l := by
  induction l with
  | nil =>
    simp only [containsSub, List.isEmpty_iff]
    constructor
    · intro h; subst h; exact List.infix_refl _
    · intro h; exact List.eq_nil_of_infix_nil h
  | cons b t ih =>
    simp only [containsSub, Bool.or_eq_true, List.isPrefixOf_iff_prefix, ih]
    constructor
    · rintro (h | h)
      · exact h.isInfix
      · exact h.trans (List.infix_cons (List.infix_refl _))
    · intro h
      rcases List.infix_cons_iff.1 h with h | h
      · left; exact h
      · right; exact h

/-! ## output lengths -/

theorem wordBytes_length (w : UInt32) : (wordBytes w).length = 4 := rfl

theorem sha1_length (msg : Bytes) : (sha1 msg).length = 20 := by
  simp [sha1, wordBytes]

theorem b64Encode_length (bs : Bytes) : (b64Encode bs).length = 4 * ((bs.length + 2) / 3) := by
  induction bs using b64Encode.induct with
  | case1 a b c rest ih => simp only [b64Encode, List.length_cons, ih]; omega
  | case2 a b => simp [b64Encode]
  | case3 a => simp [b64Encode]
  | case4 => rfl

/-- `hash_key` always yields 28 characters (`[u8; 28]`, and the `assert_eq!(n, 28)` cannot fire) -/
theorem hashKey_length (key : Bytes) : (hashKey key).length = 28 := by
  unfold hashKey; rw [b64Encode_length, sha1_length]

/-! ## Base64: decode ∘ encode = id -/

theorem b64Val_char : ∀ n, n < 64 → b64Val (b64Char n) = some n ∧ b64Char n ≠ 61 := by decide

theorem b64_group (a b c : UInt8) :
    b64Val (b64Char (a.toNat / 4)) = some (a.toNat / 4) ∧
    b64Val (b64Char (a.toNat % 4 * 16 + b.toNat / 16)) = some (a.toNat % 4 * 16 + b.toNat / 16) ∧
    b64Val (b64Char (b.toNat % 16 * 4 + c.toNat / 64)) = some (b.toNat % 16 * 4 + c.toNat / 64) ∧
    b64Val (b64Char (c.toNat % 64)) = some (c.toNat % 64) ∧
    b64Char (b.toNat % 16 * 4 + c.toNat / 64) ≠ 61 ∧ b64Char (c.toNat % 64) ≠ 61 ∧
    UInt8.ofNat (a.toNat / 4 * 4 + (a.toNat % 4 * 16 + b.toNat / 16) / 16) = a ∧
    UInt8.ofNat ((a.toNat % 4 * 16 + b.toNat / 16) % 16 * 16 + (b.toNat % 16 * 4 + c.toNat / 64) / 4) = b ∧
    UInt8.ofNat ((b.toNat % 16 * 4 + c.toNat / 64) % 4 * 64 + c.toNat % 64) = c := by
  have ha := UInt8.toNat_lt a; have hb := UInt8.toNat_lt b; have hc := UInt8.toNat_lt c
  have e1 : a.toNat / 4 * 4 + (a.toNat % 4 * 16 + b.toNat / 16) / 16 = a.toNat := by omega
  have e2 : (a.toNat % 4 * 16 + b.toNat / 16) % 16 * 16 + (b.toNat % 16 * 4 + c.toNat / 64) / 4 = b.toNat := by omega
  have e3 : (b.toNat % 16 * 4 + c.toNat / 64) % 4 * 64 + c.toNat % 64 = c.toNat := by omega
  refine ⟨(b64Val_char _ (by omega)).1, (b64Val_char _ (by omega)).1, (b64Val_char _ (by omega)).1,
    (b64Val_char _ (by omega)).1, (b64Val_char _ (by omega)).2, (b64Val_char _ (by omega)).2, ?_, ?_, ?_⟩
  · rw [e1]; exact UInt8.ofNat_toNat
  · rw [e2]; exact UInt8.ofNat_toNat
  · rw [e3]; exact UInt8.ofNat_toNat

theorem b64_roundtrip (bs : Bytes) : b64Decode (b64Encode bs) = some bs := by
  induction bs using b64Encode.induct with
  | case1 a b c rest ih =>
    obtain ⟨g0, g1, g2, g3, n2, n3, e1, e2, e3⟩ := b64_group a b c
    simp only [b64Encode]
    cases hr : b64Encode rest with
    | nil =>
      have : rest = [] := by
        cases rest with
        | nil => rfl
        | cons x xs =>
          have := congrArg List.length hr
          rw [b64Encode_length] at this
          simp only [List.length_cons, List.length_nil] at this
          omega
      subst this
      simp only [b64Decode, g0, g1, g2, g3, n2, n3, false_and, and_false, if_false, e1, e2, e3]
    | cons x xs =>
      rw [hr] at ih
      unfold b64Decode
      simp only [g0, g1, g2, g3, ih, e1, e2, e3]
  | case2 a b =>
    obtain ⟨g0, g1, g2, _, n2, _, e1, e2, _⟩ := b64_group a b 0
    simp only [UInt8.toNat_zero, Nat.zero_div, Nat.add_zero] at g2 n2 e2
    simp only [b64Encode, b64Decode, g0, g1, g2, n2, and_true, if_false, if_true, e1, e2]
    have : b.toNat % 16 * 4 % 4 = 0 := by omega
    simp [this]
  | case3 a =>
    obtain ⟨g0, g1, _, _, _, _, e1, _, _⟩ := b64_group a 0 0
    simp only [UInt8.toNat_zero, Nat.zero_div, Nat.add_zero] at g1 e1
    simp only [b64Encode, b64Decode, g0, g1, and_self, if_true, e1]
    have : a.toNat % 4 * 16 % 16 = 0 := by omega
    simp [this]
  | case4 => simp [b64Encode, b64Decode]

end ActixModel.WsHandshake
