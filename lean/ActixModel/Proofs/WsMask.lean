import ActixModel.Model.Ws
/-
Helper lemmas for `mask.rs`: the word-at-a-time path equals the byte-at-a-time path for every
alignment, key and buffer; masking is an involution and preserves length.
-/
namespace ActixModel.Ws
open ActixModel.Util

theorem Mask.get_mod (m : Mask) (i : Nat) : m.get (i % 4) = m.get i := by
  simp [Mask.get]

theorem Mask.get_add_four (m : Mask) (i : Nat) : m.get (i + 4) = m.get i := by
  simp [Mask.get]

theorem Mask.get_congr (m : Mask) {i j : Nat} (h : i % 4 = j % 4) : m.get i = m.get j := by
  simp [Mask.get, h]

theorem Mask.rot_get (m : Mask) (h i : Nat) : (m.rot h).get i = m.get (h + i) := by
  have hi : i % 4 < 4 := Nat.mod_lt _ (by decide)
  have e : ∀ k, k < 4 → i % 4 = k → m.get (h + k) = m.get (h + i) := by
    intro k _ hk
    apply Mask.get_congr
    omega
  unfold Mask.rot
  rcases Nat.lt_or_ge (i % 4) 1 with h0 | h0
  · have : i % 4 = 0 := by omega
    simp only [Mask.get, this]; simpa [Mask.get] using e 0 (by decide) this
  rcases Nat.lt_or_ge (i % 4) 2 with h1 | h1
  · have : i % 4 = 1 := by omega
    simp only [Mask.get, this]; simpa [Mask.get] using e 1 (by decide) this
  rcases Nat.lt_or_ge (i % 4) 3 with h2 | h2
  · have : i % 4 = 2 := by omega
    simp only [Mask.get, this]; simpa [Mask.get] using e 2 (by decide) this
  · have : i % 4 = 3 := by omega
    simp only [Mask.get, this]; simpa [Mask.get] using e 3 (by decide) this

theorem Mask.rot_zero_get (m : Mask) (i : Nat) : (m.rot 0).get i = m.get i := by
  rw [Mask.rot_get]; simp

@[simp] theorem maskFrom_length (m : Mask) (i : Nat) (bs : Bytes) : (maskFrom m i bs).length = bs.length := by
  induction bs generalizing i with
  | nil => rfl
  | cons b bs ih => simp [maskFrom, ih]

theorem maskFrom_append (m : Mask) (i : Nat) (a b : Bytes) :
    maskFrom m i (a ++ b) = maskFrom m i a ++ maskFrom m (i + a.length) b := by
  induction a generalizing i with
  | nil => simp [maskFrom]
  | cons x a ih =>
    simp only [List.cons_append, maskFrom, ih, List.length_cons]
    rw [show i + 1 + a.length = i + (a.length + 1) by omega]

theorem maskFrom_congr (m m' : Mask) (i j : Nat) (bs : Bytes)
    (h : ∀ k, m.get (i + k) = m'.get (j + k)) : maskFrom m i bs = maskFrom m' j bs := by
  induction bs generalizing i j with
  | nil => rfl
  | cons b bs ih =>
    simp only [maskFrom]
    have h0 := h 0
    simp only [Nat.add_zero] at h0
    rw [h0, ih (i + 1) (j + 1) (fun k => by have := h (k + 1); simpa [Nat.add_assoc, Nat.add_comm 1 k] using this)]

theorem maskFrom_rot (m : Mask) (h i : Nat) (bs : Bytes) :
    maskFrom (m.rot h) i bs = maskFrom m (h + i) bs :=
  maskFrom_congr _ _ _ _ _ (fun k => by rw [Mask.rot_get, Nat.add_assoc])

/-- four bytes at a time against the key = byte at a time, provided we start word-aligned
with respect to the key -/
theorem xorWords_eq (m : Mask) (ws : Bytes) (i : Nat) (hi : i % 4 = 0) (hl : ws.length % 4 = 0) :
    xorWords m ws = maskFrom m i ws := by
  induction ws using xorWords.induct generalizing i with
  | case1 a b c d rest ih =>
    have g0 : m.get i = m.b0 := by simp [Mask.get, hi]
    have g1 : m.get (i + 1) = m.b1 := by
      have : (i + 1) % 4 = 1 := by omega
      simp [Mask.get, this]
    have g2 : m.get (i + 1 + 1) = m.b2 := by
      have : (i + 1 + 1) % 4 = 2 := by omega
      simp [Mask.get, this]
    have g3 : m.get (i + 1 + 1 + 1) = m.b3 := by
      have : (i + 1 + 1 + 1) % 4 = 3 := by omega
      simp [Mask.get, this]
    simp only [xorWords, maskFrom, g0, g1, g2, g3]
    rw [ih (i + 1 + 1 + 1 + 1) (by omega) (by simp only [List.length_cons] at hl; omega)]
  | case2 ws hne =>
    -- fewer than four bytes and a multiple of four: empty
    match ws, hne, hl with
    | [], _, _ => simp [xorWords, maskFrom]
    | [_], _, hl => simp at hl
    | [_, _], _, hl => simp at hl
    | [_, _, _], _, hl => simp at hl
    | a :: b :: c :: d :: rest, hne, _ => exact absurd rfl (fun h => hne a b c d rest h)

/-- **fast path = fallback**, for every alignment of the buffer -/
theorem applyMaskFast32_eq (align : Nat) (buf : Bytes) (m : Mask) :
    applyMaskFast32 align buf m = applyMaskFallback buf m := by
  unfold applyMaskFast32 applyMaskFallback
  -- name the pieces
  generalize hoff : (4 - align % 4) % 4 = off
  have hoff4 : off < 4 := by rw [← hoff]; exact Nat.mod_lt _ (by decide)
  by_cases hbig : off > buf.length
  · -- the whole buffer is the unaligned prefix; no words, no suffix
    simp [hbig, xorWords, maskFrom]
  · simp only [hbig, if_false]
    have hle : off ≤ buf.length := Nat.le_of_not_gt hbig
    have hpre : (buf.take off).length = off := by simp [List.length_take, Nat.min_eq_left hle]
    -- rotated key (for head = 0 the rotation is the identity on `get`)
    have hkey : ∀ k, (if (buf.take off).length % 4 > 0 then m.rot ((buf.take off).length % 4) else m).get k
        = m.get (off + k) := by
      intro k
      rw [hpre, Nat.mod_eq_of_lt hoff4]
      by_cases h0 : off > 0
      · simp [h0, Mask.rot_get]
      · have : off = 0 := by omega
        simp [this]
    generalize hm' : (if (buf.take off).length % 4 > 0 then m.rot ((buf.take off).length % 4) else m) = m' at hkey
    -- words and suffix
    have hwlen : ((buf.drop off).take (4 * ((buf.drop off).length / 4))).length = 4 * ((buf.drop off).length / 4) := by
      rw [List.length_take]; apply Nat.min_eq_left; exact Nat.mul_div_le _ _
    have hw : xorWords m' ((buf.drop off).take (4 * ((buf.drop off).length / 4)))
        = maskFrom m' 0 ((buf.drop off).take (4 * ((buf.drop off).length / 4))) :=
      xorWords_eq m' _ 0 (by decide) (by rw [hwlen]; exact Nat.mul_mod_right 4 _)
    rw [hw]
    -- reassemble
    have e1 : maskFrom m' 0 ((buf.drop off).take (4 * ((buf.drop off).length / 4)))
        = maskFrom m off ((buf.drop off).take (4 * ((buf.drop off).length / 4))) :=
      maskFrom_congr _ _ _ _ _ (fun k => by rw [hkey]; simp)
    have e2 : maskFrom m' 0 ((buf.drop off).drop (4 * ((buf.drop off).length / 4)))
        = maskFrom m (off + 4 * ((buf.drop off).length / 4)) ((buf.drop off).drop (4 * ((buf.drop off).length / 4))) :=
      maskFrom_congr _ _ _ _ _ (fun k => by
        rw [hkey]; apply Mask.get_congr; omega)
    rw [e1, e2]
    conv => rhs; rw [← List.take_append_drop off buf]
    rw [maskFrom_append, hpre, Nat.zero_add]
    conv => rhs; rw [← List.take_append_drop (4 * ((buf.drop off).length / 4)) (buf.drop off)]
    rw [maskFrom_append, hwlen, List.append_assoc]

theorem applyMask_eq (align : Nat) (buf : Bytes) (m : Mask) :
    applyMask align buf m = applyMaskFallback buf m := applyMaskFast32_eq align buf m

theorem maskFrom_involutive (m : Mask) (i : Nat) (bs : Bytes) : maskFrom m i (maskFrom m i bs) = bs := by
  induction bs generalizing i with
  | nil => rfl
  | cons b bs ih =>
    simp only [maskFrom, ih]
    congr 1
    rw [UInt8.xor_assoc, UInt8.xor_self, UInt8.xor_zero]

@[simp] theorem applyMaskFallback_length (bs : Bytes) (m : Mask) : (applyMaskFallback bs m).length = bs.length := by
  simp [applyMaskFallback]

@[simp] theorem applyMask_length (al : Nat) (bs : Bytes) (m : Mask) : (applyMask al bs m).length = bs.length := by
  rw [applyMask_eq]; simp

theorem applyMask_involutive (al al' : Nat) (bs : Bytes) (m : Mask) :
    applyMask al' (applyMask al bs m) m = bs := by
  rw [applyMask_eq, applyMask_eq]; exact maskFrom_involutive m 0 bs

end ActixModel.Ws
