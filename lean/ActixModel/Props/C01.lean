import ActixModel.Proofs.H1Decode
import ActixModel.Proofs.H1Conn
import ActixModel.Proofs.H1Framing
import ActixModel.Proofs.H1ChunkedSound
import ActixModel.Proofs.H1Pipeline
import ActixModel.Proofs.H1ConnSeg
/-
C01 — HTTP/1 request framing is unambiguous and independent of TCP segmentation.

Models: `Model/H1Chunked.lean` (`ChunkedState::step`), `Model/H1Decode.lean` (payload decoders,
`set_headers`, `Request::decode`, `Codec::decode`, the dispatcher's decode loop `feed`),
`Model/H1Conn.lean` (decode loop + reject flag + error response + close).
All theorems quantify over every byte string / every list of segments / every event list;
nothing is bounded.  `flat` erases chunk boundaries (body bytes one by one): which `Chunk`
messages a body arrives in does depend on the reads, the bytes do not.
-/
namespace ActixModel.H1.C01
open ActixModel.Util ActixModel.H1

/-! ## what the application sees -/

/-- a request as the application sees it: head, exact body bytes, body complete or not -/
structure ReqObs where
  head : ReqHead
  pt : PayloadType
  body : Bytes
  complete : Bool
  deriving DecidableEq, Repr

/-- fold flat events into requests (most recent first) -/
def obsStep (acc : List ReqObs) : Ev → List ReqObs
  | .head h pt => { head := h, pt := pt, body := [], complete := pt == .none } :: acc
  | .byte b => match acc with
    | r :: rest => { r with body := r.body ++ [b] } :: rest
    | [] => []
  | .eof => match acc with
    | r :: rest => { r with complete := true } :: rest
    | [] => []

def obs (evs : List Ev) : List ReqObs := (evs.foldl obsStep []).reverse

/-- requests seen after feeding the segments `segs` to a fresh connection -/
def seen (segs : List Bytes) : List ReqObs := obs (flat (feedAll {} segs).1)

/-! ## segmentation independence -/

/-- **C01_codec_segmentation.**  For *every* way of cutting a byte stream into reads (any number
of segments, 1-byte reads, empty reads), the decode loop delivers the same requests, byte for
byte, and ends in the same state (payload decoder state, buffered bytes, error) as for one read
of the whole stream — or some read left an incomplete head of ≥ `MAX_BUFFER_SIZE` bytes in the
buffer, and then the connection is dead with `TooLarge` (431) having delivered a prefix. -/
theorem C01_codec_segmentation (segs : List Bytes) :
    (flat (feedAll {} segs).1 = flat (feedAll {} [segs.flatten]).1 ∧
      (feedAll {} segs).2 = (feedAll {} [segs.flatten]).2) ∨
    ((feedAll {} segs).2 = deadTL ∧
      flat (feedAll {} segs).1 <+: flat (feedAll {} [segs.flatten]).1 ∧
      ∃ pre acc q, pre <+: segs.flatten ∧ (runSt (.head [] .lead0) pre).1 = .head acc q ∧
        Consts.h1MaxBufferSize ≤ acc.length) := by
  have h := feedAll_segmentation segs (.head [] .lead0) quiet_init
  have e : feedAll {} [segs.flatten] = ((feed {} segs.flatten).1 ++ [], (feed {} segs.flatten).2) := rfl
  rw [e, List.append_nil]
  exact h

/-- **C01_codec_segmentation_small.**  A stream shorter than `MAX_BUFFER_SIZE` (128 KiB) is
decoded identically under every segmentation, unconditionally. -/
theorem C01_codec_segmentation_small (segs : List Bytes)
    (hlen : segs.flatten.length < Consts.h1MaxBufferSize) :
    flat (feedAll {} segs).1 = flat (feedAll {} [segs.flatten]).1 ∧
      (feedAll {} segs).2 = (feedAll {} [segs.flatten]).2 := by
  rcases C01_codec_segmentation segs with h | ⟨_, _, pre, acc, q, hp, hs, hbig⟩
  · exact h
  · exfalso
    have h1 := runSt_accLen pre (.head [] .lead0)
    rw [hs] at h1
    have h2 : pre.length ≤ segs.flatten.length := hp.length_le
    simp only [accLen, List.length_nil] at h1
    omega

/-- **C01_seen_segmentation.**  The sequence of requests the application sees (method, target,
version, headers, exact body bytes, completeness) is the same for every segmentation of a
stream shorter than the head-size limit. -/
theorem C01_seen_segmentation (segs : List Bytes)
    (hlen : segs.flatten.length < Consts.h1MaxBufferSize) :
    seen segs = seen [segs.flatten] := by
  unfold seen
  rw [(C01_codec_segmentation_small segs hlen).1]

example : ([[71, 69], [], [84, 32]] : List Bytes).flatten.length < Consts.h1MaxBufferSize := by decide

/-- **C01_body_segmentation** (the DESIGN's `C01_chunked_segmentation`, for all three decoder
kinds).  From any resting payload-decoder state — inside a chunk-size line, between CR and LF,
in the middle of chunk data, `n` bytes before the end of a fixed-length body — the remaining
reads can be cut anywhere: same body bytes, same residual state, same following requests;
with the same head-size proviso for the requests that follow the body. -/
theorem C01_body_segmentation (k : Kind) (hk : Normal k) (segs : List Bytes) :
    (flat (feedAll { payload := some k } segs).1 = flat (feed { payload := some k } segs.flatten).1 ∧
      (feedAll { payload := some k } segs).2 = (feed { payload := some k } segs.flatten).2) ∨
    ((feedAll { payload := some k } segs).2 = deadTL ∧
      flat (feedAll { payload := some k } segs).1 <+: flat (feed { payload := some k } segs.flatten).1 ∧
      ∃ pre acc q, pre <+: segs.flatten ∧ (runSt (.body k) pre).1 = .head acc q ∧
        Consts.h1MaxBufferSize ≤ acc.length) :=
  feedAll_segmentation segs (.body k) (quiet_body hk)

example : Normal (.chunked .sizeLf 10) ∧ Normal (.chunked .body 3) ∧ Normal (.length 7) := by
  simp [Normal, NormalC]

/-- **C01_decoder_is_automaton.**  One read followed by the decode loop is exactly the byte
automaton run over the bytes read (`stepSt` is `ChunkedState::step`, the head-end scanner and
the framing decision applied to one byte at a time), followed by the buffer-limit test. -/
theorem C01_decoder_is_automaton (s : St) (hs : StOk s) (seg : Bytes) :
    flat (feed (conc s) seg).1 = (runSt s seg).2 ∧
    (feed (conc s) seg).2 = limitCheck (conc (runSt s seg).1) :=
  feed_conc s seg hs

/-- **C01_reject_oversized.**  An incomplete head of at least `MAX_BUFFER_SIZE` bytes is refused
with `TooLarge`, and nothing was delivered for it. -/
theorem C01_reject_oversized (src : Bytes) (hinc : headEnd .lead0 src = none)
    (hbig : Consts.h1MaxBufferSize ≤ src.length) :
    feed {} src = ([], deadTL) := by
  have hcd : codecDecode none src = .err .tooLarge := by
    simp [codecDecode, decodeHead, hinc, hbig]
  simp only [feed, Option.isSome_none, Bool.false_eq_true, if_false, List.nil_append, List.length_nil,
    Nat.zero_add]
  rw [feedLoop_err hcd]
  rfl

/-! ## framing decision: the malformed classes are rejected -/

theorem teRules_te_cl (h : ReqHead)
    (hte : hasHeader bTransferEncoding h.headers = true)
    (hcl : hasHeader bContentLength h.headers = true) :
    ∃ e, teRules h = .error e := by
  unfold teRules
  simp only [hte, hcl, if_true]
  split
  · exact ⟨_, rfl⟩
  · split <;> exact ⟨_, rfl⟩

/-- **C01_reject_cl_and_te**: a head carrying both Transfer-Encoding and Content-Length is
rejected, whatever else it contains. -/
theorem C01_reject_cl_and_te (h : ReqHead)
    (hte : hasHeader bTransferEncoding h.headers = true)
    (hcl : hasHeader bContentLength h.headers = true) :
    ∃ e, requestFraming h = .error e := by
  obtain ⟨e, he⟩ := teRules_te_cl h hte hcl
  unfold requestFraming
  split
  · exact ⟨_, rfl⟩
  · simp only [he]; exact ⟨_, rfl⟩

example : hasHeader bTransferEncoding [(bContentLength, [52]), (bTransferEncoding, bChunked)] = true ∧
    hasHeader bContentLength [(bContentLength, [52]), (bTransferEncoding, bChunked)] = true := by decide

/-- **C01_reject_te_http10**: Transfer-Encoding on an HTTP/1.0 request is rejected. -/
theorem C01_reject_te_http10 (h : ReqHead)
    (hte : hasHeader bTransferEncoding h.headers = true) (hv : h.version = 0) :
    ∃ e, requestFraming h = .error e := by
  have : teRules h = .error .header := by
    unfold teRules; simp [hte, hv]
  unfold requestFraming
  split
  · exact ⟨_, rfl⟩
  · simp only [this]; exact ⟨_, rfl⟩

/-- **C01_reject_dup_cl**: two Content-Length headers — equal or different values, adjacent or
not, in any position — are rejected. -/
theorem C01_reject_dup_cl (h : ReqHead) (v1 v2 : Bytes) (pre mid post : List (Bytes × Bytes))
    (hh : h.headers = pre ++ ((bContentLength, v1) :: (mid ++ ((bContentLength, v2) :: post)))) :
    ∃ e, requestFraming h = .error e := by
  obtain ⟨e, he⟩ := setHeadersLoop_dup_cl h.version v1 v2 pre mid post {}
  exact ⟨e, requestFraming_of_loop_error h e (by rw [hh]; exact he)⟩

/-- **C01_reject_bad_cl**: a Content-Length whose value is not accepted by `clValue` (not visible
ASCII, leading `+`, empty, a non-digit, or ≥ 2^64) is rejected wherever it stands. -/
theorem C01_reject_bad_cl (h : ReqHead) (val : Bytes) (hm : (bContentLength, val) ∈ h.headers)
    (hbad : clValue val = none) : ∃ e, requestFraming h = .error e := by
  obtain ⟨e, he⟩ := setHeadersLoop_bad_cl h.version val hbad h.headers {} hm
  exact ⟨e, requestFraming_of_loop_error h e he⟩

theorem parseU64Aux_digits : ∀ (t : Bytes) (acc n : Nat), t ≠ [] → parseU64Aux acc t = some n →
    (∀ b ∈ t, 48 ≤ b.toNat ∧ b.toNat ≤ 57) ∧ n < u64Bound := by
  intro t
  induction t with
  | nil => intro _ _ h; exact absurd rfl h
  | cons b u ih =>
    intro acc n _ h
    simp only [parseU64Aux] at h
    split at h
    · rename_i hd
      split at h
      · rename_i hlt
        cases u with
        | nil =>
          simp only [parseU64Aux, Option.some.injEq] at h
          subst h
          exact ⟨by intro x hx; simp at hx; subst hx; exact hd, hlt⟩
        | cons c w =>
          obtain ⟨h1, h2⟩ := ih _ n (by simp) h
          refine ⟨?_, h2⟩
          intro x hx
          rcases List.mem_cons.mp hx with rfl | hx
          · exact hd
          · exact h1 x hx
      · cases h
    · cases h

/-- **C01_cl_value_is_decimal**: what `clValue` accepts is 1*DIGIT (after OWS trimming) with a
value below 2^64 — no sign, no hex, no list, no inner space. -/
theorem C01_cl_value_is_decimal (v : Bytes) (n : Nat) (h : clValue v = some n) :
    ∃ s, toStr? v = some s ∧ trimOws s ≠ [] ∧ (∀ b ∈ trimOws s, 48 ≤ b.toNat ∧ b.toNat ≤ 57) ∧
      n < u64Bound := by
  unfold clValue at h
  split at h
  · cases h
  · rename_i s hs
    split at h
    · cases h
    · unfold parseU64 at h
      split at h
      · cases h
      · rename_i hne
        obtain ⟨h1, h2⟩ := parseU64Aux_digits (trimOws s) 0 n (by intro h0; exact hne h0) h
        exact ⟨s, hs, by intro h0; exact hne h0, h1, h2⟩

example : clValue [32, 52, 50, 9] = some 42 ∧ clValue [43, 52] = none ∧ clValue [52, 44, 52] = none ∧
    clValue [] = none ∧ clValue [48, 120, 52] = none := by decide

/-- **C01_reject_dup_te**: two Transfer-Encoding headers are rejected (HTTP/1.0 and 1.1). -/
theorem C01_reject_dup_te (h : ReqHead) (v1 v2 : Bytes) (pre mid post : List (Bytes × Bytes))
    (hv : h.version ≤ 1)
    (hh : h.headers = pre ++ ((bTransferEncoding, v1) :: (mid ++ ((bTransferEncoding, v2) :: post)))) :
    ∃ e, requestFraming h = .error e :=
  requestFraming_dup_te h v1 v2 pre mid post hv hh

/-- **C01_reject_te_not_chunked**: a Transfer-Encoding header whose value is not exactly
`chunked` (up to case and OWS) — `gzip`, `gzip, chunked`, `chunked, gzip`, `identity`,
`xchunked`, obs-text — is rejected. -/
theorem C01_reject_te_not_chunked (h : ReqHead) (val : Bytes) (hv : h.version ≤ 1)
    (hm : (bTransferEncoding, val) ∈ h.headers) (hbad : teIsChunked val = false) :
    ∃ e, requestFraming h = .error e :=
  requestFraming_te_not_chunked h val hv hm hbad

example : teIsChunked [67, 104, 117, 110, 107, 101, 100, 32] = true ∧ teIsChunked bIdentity = false ∧
    teIsChunked (bChunked ++ [44] ++ bChunked) = false ∧ teIsChunked (120 :: bChunked) = false := by decide

/-- **C01_reject_post10_without_length**: an HTTP/1.0 POST with neither Content-Length nor an
upgrade is rejected (RFC 1945 §7.2.2; no read-to-close request bodies). -/
theorem C01_reject_post10_without_length (h : ReqHead) (hv : h.version = 0) (hm : h.method = bPOST)
    (hcl : hasHeader bContentLength h.headers = false) (hup : hasHeader bUpgrade h.headers = false) :
    ∃ e, requestFraming h = .error e :=
  requestFraming_post10 h hv hm hcl hup

/-- **C01_accept_te_unambiguous**: the converse direction — a head that is *accepted* and carries
a Transfer-Encoding header is HTTP/1.1, has no Content-Length, every TE value is `chunked`, and
its body is decoded by the chunked decoder (no second interpretation is possible). -/
theorem C01_accept_te_unambiguous (h : ReqHead) (pt : PayloadType) (hv : h.version ≤ 1)
    (hok : requestFraming h = .ok pt) (val : Bytes) (hm : (bTransferEncoding, val) ∈ h.headers) :
    h.version = 1 ∧ hasHeader bContentLength h.headers = false ∧ teIsChunked val = true ∧
      pt = .payload (.chunked .size 0) :=
  requestFraming_te_accepted h pt hv hok val hm

/-- **C01_accept_cl_decimal**: every Content-Length header of an accepted head has a decimal
value below 2^64 (`C01_cl_value_is_decimal`); with `C01_reject_dup_cl` there is exactly one. -/
theorem C01_accept_cl_decimal (h : ReqHead) (pt : PayloadType)
    (hok : requestFraming h = .ok pt) (val : Bytes) (hm : (bContentLength, val) ∈ h.headers) :
    ∃ n, clValue val = some n :=
  requestFraming_cl_accepted h pt hok val hm

example : requestFraming ⟨bPOST, [47], 1, [(bTransferEncoding, bChunked)]⟩ =
    .ok (.payload (.chunked .size 0)) := by rfl

/-- **C01_cl_zero_is_no_body**: `Content-Length: 0` is normalised to "no body" (so that a
zero-length decoder can never swallow the next request's first byte). -/
theorem C01_cl_zero_is_no_body (m : Bytes) :
    chooseDecoder m (.payload (.payload (.length 0))) = chooseDecoder m .none := by
  simp [chooseDecoder, PayloadLength.isZero]

/-! ## chunk syntax: strictness of `ChunkedState::step` -/

/-- **C01_reject_chunk_no_digit** (DESIGN F12, since the fix): at the start of a chunk-size line
anything but a hex digit — CR, BWS, `;` included — is an error. -/
theorem C01_reject_chunk_no_digit (sz : Nat) (b : UInt8) (rest : Bytes) (h : hexDigitVal b = none) :
    step .size sz (b :: rest) = .err .invalidSize := by
  simp [step, readSize, h]

/-- **C01_reject_chunk_size_overflow**: a digit that would push the size to 2^64 or beyond is an
error (the size never wraps). -/
theorem C01_reject_chunk_size_overflow (first : Bool) (sz d : Nat) (b : UInt8) (rest : Bytes)
    (hd : hexDigitVal b = some d) (hbig : u64Bound ≤ sz * 16) :
    readSize first sz (b :: rest) = .err .sizeTooBig := by
  have : ¬ sz * 16 < u64Bound := by omega
  simp [readSize, hd, this]

/-- **C01_chunk_size_bounded**: every size `ChunkedState::step` produces from a size below 2^64
is below 2^64 (so the model's `Nat` is a faithful `u64`). -/
theorem C01_chunk_size_bounded (st st' : ChunkedState) (sz sz' : Nat) (src rest : Bytes) (out : Option Bytes)
    (hsz : sz < u64Bound) (h : step st sz src = .ready st' sz' rest out) : sz' < u64Bound := by
  cases st <;> simp only [step, readSize, readSizeLws, readExtension, readSizeLf, readExpect, readBody] at h
  case size | sizeDigit =>
    cases src with
    | nil => simp at h
    | cons b t =>
      simp only at h
      split at h
      · rename_i d hd
        split at h
        · cases h
          have : d < 16 := by
            unfold hexDigitVal at hd
            split at hd
            · cases hd; omega
            · split at hd
              · cases hd; omega
              · split at hd
                · cases hd; omega
                · cases hd
          unfold u64Bound at *
          omega
        · cases h
      · (repeat' split at h) <;> first | cases h; exact hsz | cases h
  all_goals
    first
    | (cases src with
        | nil => simp at h
        | cons b t => simp only at h; (repeat' split at h) <;> first | (cases h; exact hsz) | cases h)
    | ((repeat' split at h) <;> cases h <;> omega)
    | (cases h; exact hsz)

/-! ## chunked bodies: round trip and soundness against the grammar -/

theorem feed_init_flat (rest : Bytes) :
    flat (feed {} rest).1 = (runSt (.head [] .lead0) rest).2 ∧
    (feed {} rest).2 = limitCheck (conc (runSt (.head [] .lead0) rest).1) :=
  feed_conc (.head [] .lead0) rest (by simp [StOk])

/-- **C01_roundtrip_chunked.**  For every list of valid wire chunks (any hex spelling of the size,
BWS, extensions, any data), a valid last-chunk and any following bytes: the decoder delivers
exactly the chunks' data, then `Eof`, and goes on with the following bytes as a fresh head —
and (by `C01_body_segmentation`) does so under every segmentation. -/
theorem C01_roundtrip_chunked (cs : List WChunk) (l : WLast) (rest : Bytes)
    (hcs : ∀ c ∈ cs, c.Valid) (hl : l.Valid) :
    flat (feed { payload := some (.chunked .size 0) } (wireChunked cs l ++ rest)).1 =
      ((cs.map (·.data)).flatten).map Ev.byte ++ [.eof] ++ flat (feed {} rest).1 ∧
    (feed { payload := some (.chunked .size 0) } (wireChunked cs l ++ rest)).2 = (feed {} rest).2 := by
  have hN : Normal (.chunked .size 0) := ⟨by simp, by simp⟩
  obtain ⟨h1, h2⟩ := feed_conc (.body (.chunked .size 0)) (wireChunked cs l ++ rest) hN
  obtain ⟨r1, r2⟩ := feed_init_flat rest
  have hw := run_wireChunked cs l hcs hl
  have e : conc (.body (.chunked .size 0)) = { payload := some (.chunked .size 0) } := rfl
  rw [e] at h1 h2
  rw [h1, h2, runSt_append, hw, r1, r2]
  simp

/-- **C01_roundtrip_length.**  A fixed-length body of `n > 0` bytes is delivered exactly, then
`Eof`, and the following bytes start a fresh head. -/
theorem C01_roundtrip_length (body rest : Bytes) (hb : body ≠ []) :
    flat (feed { payload := some (.length body.length) } (body ++ rest)).1 =
      body.map Ev.byte ++ [.eof] ++ flat (feed {} rest).1 ∧
    (feed { payload := some (.length body.length) } (body ++ rest)).2 = (feed {} rest).2 := by
  have hpos : 0 < body.length := List.length_pos_iff.mpr hb
  obtain ⟨h1, h2⟩ := feed_conc (.body (.length body.length)) (body ++ rest) hpos
  obtain ⟨r1, r2⟩ := feed_init_flat rest
  have hw := runSt_length body body.length hb (Nat.le_refl _)
  have e : conc (.body (.length body.length)) = { payload := some (.length body.length) } := rfl
  rw [e] at h1 h2
  rw [h1, h2, runSt_append, hw, r1, r2]
  simp [norm]

/-- **C01_roundtrip.**  For every pipeline of messages — each a head whose tokenisation and
framing are (`head`, `pt`), followed by no body / a Length body / any valid chunked wire form, as
`pt` asks — and any following bytes: the decoder delivers exactly these messages (head, exact
body bytes, `Eof`), in order, and then treats the following bytes as the next head.  With
`C01_codec_segmentation` this holds for every segmentation. -/
theorem C01_roundtrip (ms : List WMsg) (hms : ∀ m ∈ ms, m.Valid) (rest : Bytes) :
    flat (feed {} ((ms.map WMsg.bytes).flatten ++ rest)).1 =
      (ms.map WMsg.events).flatten ++ flat (feed {} rest).1 ∧
    (feed {} ((ms.map WMsg.bytes).flatten ++ rest)).2 = (feed {} rest).2 := by
  obtain ⟨h1, h2⟩ := feed_init_flat ((ms.map WMsg.bytes).flatten ++ rest)
  obtain ⟨r1, r2⟩ := feed_init_flat rest
  rw [h1, h2, run_pipeline ms hms rest, r1, r2]
  exact ⟨rfl, rfl⟩

/-- a valid message exists: `POST / HTTP/1.1` + `Content-Length: 2` + `hi` -/
example : WMsg.Valid
    { hb := [80,79,83,84,32,47,32,72,84,84,80,47,49,46,49,13,10,
        67,111,110,116,101,110,116,45,76,101,110,103,116,104,58,32,50,13,10,13,10],
      head := { method := bPOST, target := [47], version := 1, headers := [(bContentLength, [50])] },
      pt := .payload (.length 2),
      body := .length [104, 105] } := by
  refine ⟨by decide, by rfl, by simp [WBody.Matches]⟩

/-- **C01_sound_chunked_strict** (the full strict statement; false before the F12 fix).
Whenever the decoder reports the end of a chunked body, the bytes it consumed are the wire form
of valid chunks — every chunk-size is 1*HEXDIG, then optional BWS, optional extension, CRLF,
exactly `size` data bytes, CRLF; a last chunk of size 0 directly followed by CRLF — the data it
delivered are exactly those chunks' data, and decoding goes on right after that CRLF. -/
theorem C01_sound_chunked_strict (bs : Bytes)
    (h : Ev.eof ∈ flat (feed { payload := some (.chunked .size 0) } bs).1) :
    ∃ (cs : List WChunk) (l : WLast) (rest : Bytes), (∀ c ∈ cs, c.Valid) ∧ l.Valid ∧
      bs = wireChunked cs l ++ rest ∧
      flat (feed { payload := some (.chunked .size 0) } bs).1 =
        ((cs.map (·.data)).flatten).map Ev.byte ++ [.eof] ++ flat (feed {} rest).1 := by
  have hN : NormalC .size 0 := ⟨by simp, by simp⟩
  obtain ⟨h1, _⟩ := feed_conc (.body (.chunked .size 0)) bs hN
  have e : conc (.body (.chunked .size 0)) = { payload := some (.chunked .size 0) } := rfl
  rw [e] at h1
  rw [h1] at h
  cases hr : runToEnd .size 0 bs with
  | none => exact absurd h (runToEnd_none bs .size 0 hN hr)
  | some p =>
    obtain ⟨data, rest⟩ := p
    obtain ⟨cs, l, hcs, hl, hbs, hdata⟩ := runToEnd_sound bs.length bs data rest (Nat.le_refl _) hr
    refine ⟨cs, l, rest, hcs, hl, hbs, ?_⟩
    have := (C01_roundtrip_chunked cs l rest hcs hl).1
    rw [← hbs] at this
    exact this

/-- regression witness for DESIGN §6 F12: `CRLF CRLF` as a chunked body is now an error -/
theorem witness_empty_chunk_size_rejected :
    (feed { payload := some (.chunked .size 0) } [13, 10, 13, 10]).2.dead = some (.chunk .invalidSize) := by
  decide

/-! ## nothing after a reject (connection level)

The connection model's events are single reads, each followed by one complete
`poll_request` + response cycle; the dispatcher's queue of pipelined messages is not part of it
(model B, properties C02/C03).  The correspondence shows that, with the F1c repair (`4ad0000`),
the implementation agrees with this model on every read schedule.
What *is* proved for every event history is the
property's last clause: -/

/-- **C01_nothing_after_reject.**  For every history of reads and EOFs: once the decode loop has
hit a parse error, the connection is closed, the last response written is the 400/431, and no
later event — no byte that arrives afterwards — changes anything: no further request reaches
the service, no further response is written, nothing is decoded. -/
theorem C01_nothing_after_reject (before after : List ConnEv) (e : ParseErr)
    (hrej : (connRun {} before).feed.dead = some e) :
    (connRun {} before).closed = true ∧
    (connRun {} before).statuses.getLast? = some (statusOf e) ∧
    (statusOf e = 400 ∨ statusOf e = 431) ∧
    connRun (connRun {} before) after = connRun {} before := by
  have hinv := connRun_inv before {} rejectInv_init
  obtain ⟨h1, h2⟩ := hinv e hrej
  refine ⟨h1, h2, ?_, connRun_frozen after _ (by simp [hrej]) hinv⟩
  cases e <;> simp [statusOf]

/-- **C01_conn_segmentation.**  At connection level: for every way of cutting a stream (shorter
than the head-size limit) into reads, followed by any further events (EOF, more reads), the
requests handed to the service with their exact body bytes and completion state, the statuses
written, the closed flag and the decoder state are those of a single read of the whole stream. -/
theorem C01_conn_segmentation (segs : List Bytes) (tail : List ConnEv)
    (hlen : segs.flatten.length < Consts.h1MaxBufferSize) :
    connRun {} (segs.map ConnEv.read ++ tail) = connRun {} (ConnEv.read segs.flatten :: tail) := by
  have h1 := connRun_reads segs {} rfl rfl
  have h2 := connRun_reads [segs.flatten] {} rfl rfl
  obtain ⟨e1, e2⟩ := C01_codec_segmentation_small segs hlen
  have e0 : ({} : Conn).feed = ({} : Feed) := rfl
  rw [e0] at h1 h2
  rw [e1, e2] at h1
  have : connRun {} (segs.map ConnEv.read) = connRun {} [ConnEv.read segs.flatten] := by
    rw [h1]; exact h2.symm
  simp only [connRun, List.foldl_append, List.foldl_cons, List.foldl_nil] at this ⊢
  rw [this]

/-- a history that does end in a reject: `GET / HTTP/1.1` with `Content-Length` and
`Transfer-Encoding` -/
example : ∃ e, (connRun {} [.read [71,69,84,32,47,32,72,84,84,80,47,49,46,49,13,10,
    67,111,110,116,101,110,116,45,76,101,110,103,116,104,58,32,52,13,10,
    84,114,97,110,115,102,101,114,45,69,110,99,111,100,105,110,103,58,32,99,104,117,110,107,101,100,13,10,
    13,10]]).feed.dead = some e := ⟨.header, by decide⟩

end ActixModel.H1.C01
