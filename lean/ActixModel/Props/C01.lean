import ActixModel.Proofs.H1Decode
import ActixModel.Proofs.H1Conn
/-
C01 — HTTP/1 request framing is unambiguous and independent of TCP segmentation.

Models: `Model/H1Chunked.lean` (`ChunkedState::step`), `Model/H1Decode.lean` (payload decoders,
`set_headers`, `Request::decode`, `Codec::decode`, the dispatcher's decode loop `feed`),
`Model/H1Conn.lean` (decode loop + reject flag + error response + close).
All theorems quantify over every byte string / every list of segments / every event list;
nothing is bounded.  `flat` erases chunk boundaries (body bytes one by one): which `Chunk`
messages a body arrives in does depend on the reads, the bytes do not.
-/
namespace ActixModel.H1.C01
open ActixModel.Util ActixModel.H1

/-! ## what the application sees -/

/-- a request as the application sees it: head, exact body bytes, body complete or not -/
structure ReqObs where
  head : ReqHead
  pt : PayloadType
  body : Bytes
  complete : Bool
  deriving DecidableEq, Repr

/-- fold flat events into requests (most recent first) -/
def obsStep (acc : List ReqObs) : Ev → List ReqObs
  | .head h pt => { head := h, pt := pt, body := [], complete := pt == .none } :: acc
  | .byte b => match acc with
    | r :: rest => { r with body := r.body ++ [b] } :: rest
    | [] => []
  | .eof => match acc with
    | r :: rest => { r with complete := true } :: rest
    | [] => []

def obs (evs : List Ev) : List ReqObs := (evs.foldl obsStep []).reverse

/-- requests seen after feeding the segments `segs` to a fresh connection -/
def seen (segs : List Bytes) : List ReqObs := obs (flat (feedAll {} segs).1)

/-! ## segmentation independence -/

/-- **C01_codec_segmentation.**  For *every* way of cutting a byte stream into reads (any number
of segments, 1-byte reads, empty reads), the decode loop delivers the same requests, byte for
byte, and ends in the same state (payload decoder state, buffered bytes, error) as for one read
of the whole stream — or some read left an incomplete head of ≥ `MAX_BUFFER_SIZE` bytes in the
buffer, and then the connection is dead with `TooLarge` (431) having delivered a prefix. -/
theorem C01_codec_segmentation (segs : List Bytes) :
    (flat (feedAll {} segs).1 = flat (feedAll {} [segs.flatten]).1 ∧
      (feedAll {} segs).2 = (feedAll {} [segs.flatten]).2) ∨
    ((feedAll {} segs).2 = deadTL ∧
      flat (feedAll {} segs).1 <+: flat (feedAll {} [segs.flatten]).1 ∧
      ∃ pre acc q, pre <+: segs.flatten ∧ (runSt (.head [] .lead0) pre).1 = .head acc q ∧
        Consts.h1MaxBufferSize ≤ acc.length) := by
  have h := feedAll_segmentation segs (.head [] .lead0) quiet_init
  have e : feedAll {} [segs.flatten] = ((feed {} segs.flatten).1 ++ [], (feed {} segs.flatten).2) := rfl
  rw [e, List.append_nil]
  exact h

/-- **C01_codec_segmentation_small.**  A stream shorter than `MAX_BUFFER_SIZE` (128 KiB) is
decoded identically under every segmentation, unconditionally. -/
theorem C01_codec_segmentation_small (segs : List Bytes)
    (hlen : segs.flatten.length < Consts.h1MaxBufferSize) :
    flat (feedAll {} segs).1 = flat (feedAll {} [segs.flatten]).1 ∧
      (feedAll {} segs).2 = (feedAll {} [segs.flatten]).2 := by
  rcases C01_codec_segmentation segs with h | ⟨_, _, pre, acc, q, hp, hs, hbig⟩
  · exact h
  · exfalso
    have h1 := runSt_accLen pre (.head [] .lead0)
    rw [hs] at h1
    have h2 : pre.length ≤ segs.flatten.length := hp.length_le
    simp only [accLen, List.length_nil] at h1
    omega

/-- **C01_seen_segmentation.**  The sequence of requests the application sees (method, target,
version, headers, exact body bytes, completeness) is the same for every segmentation of a
stream shorter than the head-size limit. -/
theorem C01_seen_segmentation (segs : List Bytes)
    (hlen : segs.flatten.length < Consts.h1MaxBufferSize) :
    seen segs = seen [segs.flatten] := by
  unfold seen
  rw [(C01_codec_segmentation_small segs hlen).1]

example : ([[71, 69], [], [84, 32]] : List Bytes).flatten.length < Consts.h1MaxBufferSize := by decide

/-- **C01_body_segmentation** (the DESIGN's `C01_chunked_segmentation`, for all three decoder
kinds).  From any resting payload-decoder state — inside a chunk-size line, between CR and LF,
in the middle of chunk data, `n` bytes before the end of a fixed-length body — the remaining
reads can be cut anywhere: same body bytes, same residual state, same following requests;
with the same head-size proviso for the requests that follow the body. -/
theorem C01_body_segmentation (k : Kind) (hk : Normal k) (segs : List Bytes) :
    (flat (feedAll { payload := some k } segs).1 = flat (feed { payload := some k } segs.flatten).1 ∧
      (feedAll { payload := some k } segs).2 = (feed { payload := some k } segs.flatten).2) ∨
    ((feedAll { payload := some k } segs).2 = deadTL ∧
      flat (feedAll { payload := some k } segs).1 <+: flat (feed { payload := some k } segs.flatten).1 ∧
      ∃ pre acc q, pre <+: segs.flatten ∧ (runSt (.body k) pre).1 = .head acc q ∧
        Consts.h1MaxBufferSize ≤ acc.length) :=
  feedAll_segmentation segs (.body k) (quiet_body hk)

example : Normal (.chunked .sizeLf 10) ∧ Normal (.chunked .body 3) ∧ Normal (.length 7) := by
  simp [Normal, NormalC]

/-- **C01_decoder_is_automaton.**  One read followed by the decode loop is exactly the byte
automaton run over the bytes read (`stepSt` is `ChunkedState::step`, the head-end scanner and
the framing decision applied to one byte at a time), followed by the buffer-limit test. -/
theorem C01_decoder_is_automaton (s : St) (hs : StOk s) (seg : Bytes) :
    flat (feed (conc s) seg).1 = (runSt s seg).2 ∧
    (feed (conc s) seg).2 = limitCheck (conc (runSt s seg).1) :=
  feed_conc s seg hs

/-- **C01_reject_oversized.**  An incomplete head of at least `MAX_BUFFER_SIZE` bytes is refused
with `TooLarge`, and nothing was delivered for it. -/
theorem C01_reject_oversized (src : Bytes) (hinc : headEnd .lead0 src = none)
    (hbig : Consts.h1MaxBufferSize ≤ src.length) :
    feed {} src = ([], deadTL) := by
  have hcd : codecDecode none src = .err .tooLarge := by
    simp [codecDecode, decodeHead, hinc, hbig]
  simp only [feed, Option.isSome_none, Bool.false_eq_true, if_false, List.nil_append, List.length_nil,
    Nat.zero_add]
  rw [feedLoop_err hcd]
  rfl

/-! ## framing decision: the malformed classes are rejected -/

theorem teRules_te_cl (h : ReqHead)
    (hte : hasHeader bTransferEncoding h.headers = true)
    (hcl : hasHeader bContentLength h.headers = true) :
    ∃ e, teRules h = .error e := by
  unfold teRules
  simp only [hte, hcl, if_true]
  split
  · exact ⟨_, rfl⟩
  · split <;> exact ⟨_, rfl⟩

/-- **C01_reject_cl_and_te**: a head carrying both Transfer-Encoding and Content-Length is
rejected, whatever else it contains. -/
theorem C01_reject_cl_and_te (h : ReqHead)
    (hte : hasHeader bTransferEncoding h.headers = true)
    (hcl : hasHeader bContentLength h.headers = true) :
    ∃ e, requestFraming h = .error e := by
  obtain ⟨e, he⟩ := teRules_te_cl h hte hcl
  unfold requestFraming
  split
  · exact ⟨_, rfl⟩
  · simp only [he]; exact ⟨_, rfl⟩

example : hasHeader bTransferEncoding [(bContentLength, [52]), (bTransferEncoding, bChunked)] = true ∧
    hasHeader bContentLength [(bContentLength, [52]), (bTransferEncoding, bChunked)] = true := by decide

/-- **C01_reject_te_http10**: Transfer-Encoding on an HTTP/1.0 request is rejected. -/
theorem C01_reject_te_http10 (h : ReqHead)
    (hte : hasHeader bTransferEncoding h.headers = true) (hv : h.version = 0) :
    ∃ e, requestFraming h = .error e := by
  have : teRules h = .error .header := by
    unfold teRules; simp [hte, hv]
  unfold requestFraming
  split
  · exact ⟨_, rfl⟩
  · simp only [this]; exact ⟨_, rfl⟩

/-- **C01_cl_zero_is_no_body**: `Content-Length: 0` is normalised to "no body" (so that a
zero-length decoder can never swallow the next request's first byte). -/
theorem C01_cl_zero_is_no_body (m : Bytes) :
    chooseDecoder m (.payload (.payload (.length 0))) = chooseDecoder m .none := by
  simp [chooseDecoder, PayloadLength.isZero]

/-! ## chunk syntax: strictness of `ChunkedState::step` -/

/-- **C01_reject_chunk_no_digit** (DESIGN F12, since the fix): at the start of a chunk-size line
anything but a hex digit — CR, BWS, `;` included — is an error. -/
theorem C01_reject_chunk_no_digit (sz : Nat) (b : UInt8) (rest : Bytes) (h : hexDigitVal b = none) :
    step .size sz (b :: rest) = .err .invalidSize := by
  simp [step, readSize, h]

/-- **C01_reject_chunk_size_overflow**: a digit that would push the size to 2^64 or beyond is an
error (the size never wraps). -/
theorem C01_reject_chunk_size_overflow (first : Bool) (sz d : Nat) (b : UInt8) (rest : Bytes)
    (hd : hexDigitVal b = some d) (hbig : u64Bound ≤ sz * 16) :
    readSize first sz (b :: rest) = .err .sizeTooBig := by
  have : ¬ sz * 16 < u64Bound := by omega
  simp [readSize, hd, this]

/-- **C01_chunk_size_bounded**: every size `ChunkedState::step` produces from a size below 2^64
is below 2^64 (so the model's `Nat` is a faithful `u64`). -/
theorem C01_chunk_size_bounded (st st' : ChunkedState) (sz sz' : Nat) (src rest : Bytes) (out : Option Bytes)
    (hsz : sz < u64Bound) (h : step st sz src = .ready st' sz' rest out) : sz' < u64Bound := by
  cases st <;> simp only [step, readSize, readSizeLws, readExtension, readSizeLf, readExpect, readBody] at h
  case size | sizeDigit =>
    cases src with
    | nil => simp at h
    | cons b t =>
      simp only at h
      split at h
      · rename_i d hd
        split at h
        · cases h
          have : d < 16 := by
            unfold hexDigitVal at hd
            split at hd
            · cases hd; omega
            · split at hd
              · cases hd; omega
              · split at hd
                · cases hd; omega
                · cases hd
          unfold u64Bound at *
          omega
        · cases h
      · (repeat' split at h) <;> first | cases h; exact hsz | cases h
  all_goals
    first
    | (cases src with
        | nil => simp at h
        | cons b t => simp only at h; (repeat' split at h) <;> first | (cases h; exact hsz) | cases h)
    | ((repeat' split at h) <;> cases h <;> omega)
    | (cases h; exact hsz)

/-! ## nothing after a reject (connection level) -/

/-- **C01_nothing_after_reject.**  For every history of reads and EOFs: once the decode loop has
hit a parse error, the connection is closed, the last response written is the 400/431, and no
later event — no byte that arrives afterwards — changes anything: no further request reaches
the service, no further response is written, nothing is decoded. -/
theorem C01_nothing_after_reject (before after : List ConnEv) (e : ParseErr)
    (hrej : (connRun {} before).feed.dead = some e) :
    (connRun {} before).closed = true ∧
    (connRun {} before).statuses.getLast? = some (statusOf e) ∧
    (statusOf e = 400 ∨ statusOf e = 431) ∧
    connRun (connRun {} before) after = connRun {} before := by
  have hinv := connRun_inv before {} rejectInv_init
  obtain ⟨h1, h2⟩ := hinv e hrej
  refine ⟨h1, h2, ?_, connRun_frozen after _ (by simp [hrej]) hinv⟩
  cases e <;> simp [statusOf]

/-- a history that does end in a reject: `GET / HTTP/1.1` with `Content-Length` and
`Transfer-Encoding` -/
example : ∃ e, (connRun {} [.read [71,69,84,32,47,32,72,84,84,80,47,49,46,49,13,10,
    67,111,110,116,101,110,116,45,76,101,110,103,116,104,58,32,52,13,10,
    84,114,97,110,115,102,101,114,45,69,110,99,111,100,105,110,103,58,32,99,104,117,110,107,101,100,13,10,
    13,10]]).feed.dead = some e := ⟨.header, by decide⟩

end ActixModel.H1.C01
