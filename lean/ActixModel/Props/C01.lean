import ActixModel.Model.H1Conn
/-
C01 — HTTP/1 request framing is unambiguous and segmentation-independent.
(first milestone: decision-logic theorems; segmentation / round-trip theorems follow)
-/
namespace ActixModel.H1.C01
open ActixModel.Util ActixModel.H1

theorem teRules_te_cl (h : ReqHead)
    (hte : hasHeader bTransferEncoding h.headers = true)
    (hcl : hasHeader bContentLength h.headers = true) :
    ∃ e, teRules h = .error e := by
  unfold teRules
  simp only [hte, hcl, if_true]
  split
  · exact ⟨_, rfl⟩
  · split <;> exact ⟨_, rfl⟩

/-- **C01_reject_cl_and_te**: a head carrying both Transfer-Encoding and Content-Length is
rejected, whatever else it contains. -/
theorem C01_reject_cl_and_te (h : ReqHead)
    (hte : hasHeader bTransferEncoding h.headers = true)
    (hcl : hasHeader bContentLength h.headers = true) :
    ∃ e, requestFraming h = .error e := by
  obtain ⟨e, he⟩ := teRules_te_cl h hte hcl
  unfold requestFraming
  split
  · exact ⟨_, rfl⟩
  · simp only [he]; exact ⟨_, rfl⟩

example : hasHeader bTransferEncoding [(bContentLength, [52]), (bTransferEncoding, bChunked)] = true ∧
    hasHeader bContentLength [(bContentLength, [52]), (bTransferEncoding, bChunked)] = true := by decide

/-- **C01_reject_te_http10**: Transfer-Encoding on an HTTP/1.0 request is rejected. -/
theorem C01_reject_te_http10 (h : ReqHead)
    (hte : hasHeader bTransferEncoding h.headers = true) (hv : h.version = 0) :
    ∃ e, requestFraming h = .error e := by
  have : teRules h = .error .header := by
    unfold teRules; simp [hte, hv]
  unfold requestFraming
  split
  · exact ⟨_, rfl⟩
  · simp only [this]; exact ⟨_, rfl⟩

end ActixModel.H1.C01
