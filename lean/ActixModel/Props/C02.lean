import ActixModel.Proofs.H1Encode
import ActixModel.Model.Disp
/-
C02 — HTTP/1 responses: one per request, in order, self-framed, body-faithful.

Models: `Model/H1Encode.lean` (encoder decisions + transfer encodings + the conforming client's
body decoders), `Model/Disp.lean` (dispatcher event machine).  Every theorem is universally
quantified (all chunk lists, all sizes, all contexts, all accepted event lists); `decide` is used
only for the concrete `witness_*` counter-examples.
-/
namespace ActixModel.C02
open ActixModel.Util ActixModel.H1Encode ActixModel.Disp

/-! ## body framing: what the conforming client decodes is what the handler produced -/

/-- **C02_te_length_bytes**: under Content-Length framing the bytes put on the wire for any chunk
list are exactly the concatenation of the chunks cut to the declared size. -/
theorem C02_te_length_bytes (n : Nat) (chunks : List Bytes) :
    (teEncodeAll (.length n) chunks).2 = chunks.flatten.take n := by
  rw [teEncodeAll_length]

/-- **C02_te_length_short_fails**: `encode_eof` fails (⇒ the dispatcher returns `Err`, the
connection is torn down) exactly when the handler's body ends short of the declared size. -/
theorem C02_te_length_short_fails (n : Nat) (chunks : List Bytes) :
    teBody (.length n) chunks = none ↔ chunks.flatten.length < n := by
  simp only [teBody, teEncodeAll_length, teEncodeEof]
  generalize chunks.flatten = bs
  by_cases h : n - bs.length = 0
  · simp [h]; omega
  · simp [h]; omega

/-- **C02_te_length_roundtrip**: a sized body that is long enough is decoded by the client as
exactly the first `n` bytes the handler produced, and the client stops exactly at the end of it. -/
theorem C02_te_length_roundtrip (n : Nat) (chunks : List Bytes) (rest : Bytes)
    (h : n ≤ chunks.flatten.length) :
    ∃ wire, teBody (.length n) chunks = some wire ∧
      clientLength n (wire ++ rest) = some (chunks.flatten.take n, rest) := by
  refine ⟨chunks.flatten.take n, ?_, ?_⟩
  · simp only [teBody, teEncodeAll_length, teEncodeEof]
    generalize chunks.flatten = bs at h ⊢
    simp [Nat.sub_eq_zero_of_le h]
  · generalize chunks.flatten = bs at h ⊢
    have hl : (bs.take n).length = n := by rw [List.length_take]; exact Nat.min_eq_left h
    simp [clientLength, hl]

example : ∃ chunks : List Bytes, 3 ≤ chunks.flatten.length := ⟨[[1, 2], [], [3, 4]], by decide⟩

/-- **C02_te_chunked_roundtrip** (also the former finding F2, now fixed): for *every* chunk list —
including lists with empty chunks, which the dispatcher skips — the chunked wire image is decoded
by the client as exactly the concatenation of the chunks, and the client stops exactly at the end
of the message (`rest` is untouched: the next response starts there). -/
theorem C02_te_chunked_roundtrip (chunks : List Bytes) (rest : Bytes) :
    ∃ wire, teBody (.chunked false) chunks = some wire ∧
      clientChunked (wire ++ rest) = some (chunks.flatten, rest) := by
  refine ⟨((nonEmpty chunks).map encChunk).flatten ++ lastChunk, ?_, ?_⟩
  · simp [teBody, teEncodeAll_chunked, teEncodeEof]
  · unfold clientChunked
    have hl := nonEmpty_length_le chunks
    have := clientChunkedAux_all chunks
      ((((nonEmpty chunks).map encChunk).flatten ++ lastChunk ++ rest).length + 1) [] rest
      (by simp only [List.length_append]; omega)
    simpa using this

/-- **C02_failure_visible_length**: if a sized body fails or ends short, whatever prefix reached
the wire is not accepted by the client as a complete message. -/
theorem C02_failure_visible_length (n : Nat) (emitted : Bytes) (h : emitted.length < n) :
    clientLength n emitted = none := by
  simp [clientLength, h]

/-- **C02_failure_visible_chunked**: if a chunked body fails (error from the body stream before
its end), the chunks already on the wire — without the last-chunk — are never accepted by the
client as a complete message, for any chunk list. -/
theorem C02_failure_visible_chunked (chunks : List Bytes) :
    clientChunked (teEncodeAll (.chunked false) chunks).2 = none := by
  rw [teEncodeAll_chunked]
  exact clientChunkedAux_incomplete chunks _ _

/-! ## head rules (`encode_headers` + `MessageEncoder::encode`) as a decision table -/

/-- the response version is the request's version -/
theorem C02_head_version (ctx : EncCtx) (res : RespHead) (size : BodySize) :
    (headFacts ctx res size).version = ctx.version := rfl

/-- 204: neither Content-Length nor Transfer-Encoding (user supplied ones are dropped too) and no
body bytes whatever the body type says. -/
theorem C02_head_204 (ctx : EncCtx) (res : RespHead) (size : BodySize) (h : res.status = 204) :
    (headFacts ctx res size).len = .none ∧ (headFacts ctx res size).skipLen = true ∧
      (headFacts ctx res size).te = TE.empty := by
  simp [headFacts, lenHeader, lenRules, isInterimOr204, chooseTE, bodilessStatus, h]

/-- HEAD: no body bytes whatever the size. -/
theorem C02_head_head (ctx : EncCtx) (res : RespHead) (size : BodySize) (h : ctx.head = true) :
    (headFacts ctx res size).te = TE.empty := by
  simp [headFacts, chooseTE, h]

def plainStatus (s : Nat) : Prop := s ≠ 100 ∧ s ≠ 101 ∧ s ≠ 102 ∧ s ≠ 204 ∧ s ≠ 304

/-- sized body: `content-length: n`, user CL/TE dropped, exactly `n` body bytes. -/
theorem C02_head_sized (ctx : EncCtx) (res : RespHead) (n : Nat) (hs : plainStatus res.status)
    (hh : ctx.head = false) :
    (headFacts ctx res (.sized n)).len = .contentLength n ∧ (headFacts ctx res (.sized n)).skipLen = true ∧
      (headFacts ctx res (.sized n)).te = .length n := by
  obtain ⟨h1, h2, h3, h4, h5⟩ := hs
  refine ⟨?_, ?_, ?_⟩
  · simp [headFacts, lenHeader, lenRules, isInterimOr204, h1, h2, h3, h4, h5]
  · simp [headFacts, lenHeader, lenRules, isInterimOr204, h1, h2, h3, h4, h5]
  · cases n <;> simp [headFacts, chooseTE, bodilessStatus, hh, h4, TE.empty]

/-- stream body on HTTP/1.1: `transfer-encoding: chunked`, user CL/TE dropped, chunked coding. -/
theorem C02_head_stream_11 (ctx : EncCtx) (res : RespHead) (hs : plainStatus res.status)
    (hh : ctx.head = false) (hst : ctx.stream = false) (hv : ctx.version = .h11) (hc : res.chunked = true) :
    (headFacts ctx res .stream).len = .teChunked ∧ (headFacts ctx res .stream).skipLen = true ∧
      (headFacts ctx res .stream).te = .chunked false := by
  obtain ⟨h1, h2, h3, h4, h5⟩ := hs
  simp [headFacts, lenHeader, lenRules, isInterimOr204, chooseTE, bodilessStatus, h1, h2, h3, h4, h5, hh, hst, hv, hc]

/-- stream body on HTTP/1.0 (former suspicion S3, now fixed): no `transfer-encoding`, user CL/TE
dropped, raw bytes until the connection closes, and the connection is not kept alive. -/
theorem C02_head_stream_10 (ctx : EncCtx) (res : RespHead) (hs : plainStatus res.status)
    (hh : ctx.head = false) (hv : ctx.version = .h10) (hc : res.chunked = true) :
    (headFacts ctx res .stream).len = .none ∧ (headFacts ctx res .stream).skipLen = true ∧
      (headFacts ctx res .stream).te = .eof ∧ (headFacts ctx res .stream).connType = .close ∧
      (headFacts ctx res .stream).conn = .none := by
  obtain ⟨h1, h2, h3, h4, h5⟩ := hs
  simp [headFacts, lenHeader, lenRules, isInterimOr204, chooseTE, bodilessStatus, respConnType, http10Stream,
    connHeader, h1, h2, h3, h4, h5, hh, hv, hc]

/-- the `connection` header is a function of (request version, effective connection type) only -/
theorem C02_head_conn (ctx : EncCtx) (res : RespHead) (size : BodySize) :
    (headFacts ctx res size).conn =
      match respConnType ctx res size, ctx.version with
      | .upgrade, _ => .upgrade
      | .keepAlive, .h10 => .keepAlive
      | .keepAlive, .h11 => .none
      | .close, .h11 => .close
      | .close, .h10 => .none := by
  simp only [headFacts, connHeader]
  cases respConnType ctx res size <;> cases ctx.version <;> rfl

/-- user supplied `connection` headers never reach the wire; user `content-length` /
`transfer-encoding` do not either whenever the encoder writes its own framing header. -/
theorem C02_user_framing_skipped (hs : List (Bytes × Bytes)) (l : Bytes × Bytes)
    (h : l ∈ hs.filter (keepUser true)) : isConnection l.1 = false ∧ isLenName l.1 = false := by
  have := (List.mem_filter.mp h).2
  simpa [keepUser] using this

/-- Full statement "1xx/204/304 and HEAD never carry body bytes" is **false** for 304 (the
unedited test-suite pins a 304 that sends the handler's body: `not_modified_spec_h1`); proved
for HEAD and 204, with the 304 counter-example below.

theorem C02_bodiless (h : ctx.head ∨ res.status = 204 ∨ res.status = 304) : te = TE.empty -/
theorem C02_bodiless_partial (ctx : EncCtx) (res : RespHead) (size : BodySize)
    (h : ctx.head = true ∨ res.status = 204) : chooseTE ctx res size = TE.empty := by
  rcases h with h | h <;> simp [chooseTE, bodilessStatus, h]

example : ∃ ctx : EncCtx, ctx.head = true := ⟨{ head := true, stream := false, version := .h11, connType := .close }, rfl⟩

theorem witness_304_body :
    chooseTE { head := false, stream := false, version := .h11, connType := .keepAlive }
      { status := 304, connType := none, chunked := true, headers := [] } (.sized 4) = .length 4 := by
  decide

end ActixModel.C02
